---------------------------- MODULE C14_ConnMgr ----------------------------
(***************************************************************************)
(* Basic connection manager (p2p/net/connmgr/connmgr.go).                  *)
(*                                                                         *)
(* One action per public call / critical section of the Go code:           *)
(*   Notifee.Connected / Disconnected (duplicates ignored as in the code), *)
(*   TagPeer / UntagPeer / UpsertTag (temporary entries for early tags),   *)
(*   Protect / Unprotect (a peer is protected while ANY tag remains),      *)
(*   Tick (mock clock advance by one unit; the background ticker of the    *)
(*   manager fires every Silence units and trims when count >= High),      *)
(*   Trim (TrimOpenConns -> getConnsToClose) and ForceTrim                 *)
(*   (getConnsToCloseEmergency, transcribed with its remaining-target      *)
(*   comparison and its second phase that re-visits unprotected peers).    *)
(*                                                                         *)
(* A trim only RETURNS connections to close (the manager forgets a         *)
(* connection when the Disconnected notification arrives), so its effect   *)
(* on the state is the pruning of expired temporary entries; its result    *)
(* is the field `allowed` of `op`: the set of all peer sets the code may   *)
(* close.  sort.Slice is unstable and the candidates are collected from    *)
(* map iteration, so every order consistent with the sort key             *)
(* (temp first, value, has-streams, inbound first, stream count) is        *)
(* allowed: ties are free.                                                 *)
(*                                                                         *)
(* Time: ages (now - firstSeen) in clock units saturating at MaxAge.       *)
(* A peer is in its grace period iff age < Grace (firstSeen.After(now -    *)
(* grace)); MaxAge = Grace + 1 keeps "exactly at the boundary" apart from  *)
(* "strictly older".                                                       *)
(***************************************************************************)
EXTENDS Integers, Sequences, FiniteSets, TLC

CONSTANTS Peers,        \* peer names
          Conns,        \* connection names
          ConnPeer,     \* [Conns -> Peers]
          ConnIn,       \* [Conns -> BOOLEAN]   Stat().Direction = DirInbound
          ConnStreams,  \* [Conns -> Nat]       Stat().NumStreams
          Tags,         \* tag names
          TagPeers,     \* peers on which tag operations are exercised (subset of Peers)
          Vals,         \* values TagPeer is called with (positive)
          ProtTagsOf,   \* [Peers -> set of protection tags used for that peer]
          Low, High,    \* watermarks (both > 0: 0 disables trimming in the code)
          Grace,        \* grace period in clock units
          MaxAge,       \* ages saturate here (>= Grace)
          Silence,      \* background ticker interval in units; 0 = ticker never fires in the horizon
          HasForce,     \* include ForceTrim
          DecayMax,     \* bound of the values of the decaying tag "d" in the bounded model; 0 = no decaying tag
          DecayKinds,   \* decay functions exercised (one per behaviour, chosen in Init), see DecayRes
          BumpKinds,    \* bump functions exercised (one per behaviour), see BumpRes
          Deltas,       \* deltas Bump is called with
          DecayEvery,   \* decay interval of "d" in units (the decayer's resolution is one unit)
          Split,        \* concurrent variant: TrimOpenConns as two steps (Collect, Select) with notifications,
                        \* tag and protection calls of other goroutines in between
          MaxBurst,     \* at most this many foreign steps inside one trim
          UWindow       \* concurrent variant: also UpsertTag as UBegin / callback / UEnd

\* the decayer's ticker and the manager's background ticker would fire at the same mock instant in an
\* order the code does not fix: the bounded instances use one or the other
ASSUME DecayMax = 0 \/ Silence = 0
ASSUME Split => DecayMax = 0

NoTag == 0 - 99      \* sentinel outside every value set (tag values may be negative)
MaxVal == CHOOSE v \in Vals : \A w \in Vals : w <= v

VARIABLES kind,    \* [Peers -> {"n","t","c"}]  not tracked / temporary entry (early tags) / connected
          cs,      \* [Peers -> SUBSET Conns]   tracked connections
          tg,      \* [Peers -> [Tags -> Vals \cup {NoTag}]]
          val,     \* [Peers -> Int]            the code's cached sum, updated incrementally
          age,     \* [Peers -> 0..MaxAge]      now - firstSeen (0 when not tracked)
          prot,    \* [Peers -> SUBSET protection tags]
          count,   \* connCount
          phase,   \* units since the last background ticker fire (0 when Silence = 0)
          dec,     \* [Peers -> 0..DecayMax \cup {NoTag}]  value of the decaying tag "d"
          dcfg,    \* [d |-> decay function, b |-> bump function, closed |-> the tag has been closed]
          dph,     \* units since the decaying tag's last visit round
          tr,      \* the trim in progress (concurrent variant): candidates collected, those whose entry has
                   \* been deleted since (the trim still holds the stale peerInfo), target, foreign steps so far
          op       \* output only

vars == <<kind, cs, tg, val, age, prot, count, phase, dec, dph, dcfg, tr, op>>
View == <<kind, cs, tg, val, age, prot, count, phase, dec, dph, dcfg, tr>>
TrOff == [on |-> FALSE, c |-> {}, s |-> {}, n |-> 0, b |-> 0, u |-> <<>>]

RECURSIVE SumF(_, _)
SumF(f, S) == IF S = {} THEN 0 ELSE LET x == CHOOSE x \in S : TRUE IN f[x] + SumF(f, S \ {x})

NConns(S) == SumF([p \in Peers |-> Cardinality(cs[p])], S)
OldVal(p, t) == IF tg[p][t] = NoTag THEN 0 ELSE tg[p][t]
NoTags == [t \in Tags |-> NoTag]
Min(a, b) == IF a < b THEN a ELSE b

Init == /\ kind = [p \in Peers |-> "n"]
        /\ cs = [p \in Peers |-> {}]
        /\ tg = [p \in Peers |-> NoTags]
        /\ val = [p \in Peers |-> 0]
        /\ age = [p \in Peers |-> 0]
        /\ prot = [p \in Peers |-> {}]
        /\ count = 0
        /\ phase = 0
        /\ dec = [p \in Peers |-> NoTag]
        /\ dph = 0
        /\ dcfg \in [d : DecayKinds, b : BumpKinds, closed : {FALSE}]
        /\ tr = TrOff
        /\ op = [name |-> "init"]

----------------------------------------------------------------------------
(* notifications *)

Connected(c) ==
  LET p == ConnPeer[c]
      dup == kind[p] = "c" /\ c \in cs[p] IN
  /\ IF dup THEN UNCHANGED <<kind, cs, age, count>>
     ELSE /\ kind' = [kind EXCEPT ![p] = "c"]
          /\ cs' = [cs EXCEPT ![p] = @ \cup {c}]
          \* a fresh entry and a temporary entry both take firstSeen = now
          /\ age' = IF kind[p] = "c" THEN age ELSE [age EXCEPT ![p] = 0]
          /\ count' = count + 1
  /\ UNCHANGED <<tg, val, prot, phase, dec, dph, dcfg>>
  /\ op' = [name |-> "connected", c |-> c, p |-> p, dup |-> dup]

Disconnected(c) ==
  LET p == ConnPeer[c]
      hit == kind[p] = "c" /\ c \in cs[p]
      last == hit /\ cs[p] = {c} IN
  /\ IF hit THEN cs' = [cs EXCEPT ![p] = @ \ {c}] /\ count' = count - 1
     ELSE UNCHANGED <<cs, count>>
  \* the entry (and with it every tag) is dropped with the last connection
  /\ IF last THEN /\ kind' = [kind EXCEPT ![p] = "n"]
                  /\ tg' = [tg EXCEPT ![p] = NoTags]
                  /\ val' = [val EXCEPT ![p] = 0]
                  /\ age' = [age EXCEPT ![p] = 0]
                  /\ dec' = [dec EXCEPT ![p] = NoTag]
     ELSE UNCHANGED <<kind, tg, val, age, dec>>
  /\ UNCHANGED <<prot, phase, dph, dcfg>>
  /\ op' = [name |-> "disconnected", c |-> c, p |-> p, dup |-> ~hit]

----------------------------------------------------------------------------
(* tags *)

SetTag(p, t, v) ==
  /\ kind' = IF kind[p] = "n" THEN [kind EXCEPT ![p] = "t"] ELSE kind   \* tagInfoFor: temp entry, firstSeen = now
  /\ tg' = [tg EXCEPT ![p][t] = v]
  /\ val' = [val EXCEPT ![p] = @ + v - OldVal(p, t)]
  /\ UNCHANGED <<cs, age, prot, count, phase, dec, dph, dcfg>>

Tag(p, t, v) == SetTag(p, t, v) /\ op' = [name |-> "tag", p |-> p, t |-> t, v |-> v]

Upsert(p, t) ==      \* UpsertTag(p, t, func(x) x+1)
  /\ OldVal(p, t) + 1 <= MaxVal
  /\ SetTag(p, t, OldVal(p, t) + 1)
  /\ op' = [name |-> "upsert", p |-> p, t |-> t, v |-> OldVal(p, t) + 1]

Untag(p, t) ==
  /\ IF kind[p] = "n" THEN UNCHANGED <<tg, val>>
     ELSE /\ tg' = [tg EXCEPT ![p][t] = NoTag]
          /\ val' = [val EXCEPT ![p] = @ - OldVal(p, t)]
  /\ UNCHANGED <<kind, cs, age, prot, count, phase, dec, dph, dcfg>>
  /\ op' = [name |-> "untag", p |-> p, t |-> t]

----------------------------------------------------------------------------
(* the decaying tag "d": commands are executed by the decayer's loop (the harness waits for it) *)

DecVal(p) == IF dec[p] = NoTag THEN 0 ELSE dec[p]

\* A DecayFn returns (after, rm).  The contract (core/connmgr/decay.go): "the tag is erased if rm is true",
\* otherwise its value becomes `after` - so when rm is set `after` is irrelevant and the erased tag
\* contributes nothing to the peer's total, whatever `after` was.
DecayRes(k, v) ==
  CASE k = "fixed1"   -> <<v - 1, v - 1 <= 0>>              \* DecayFixed(1): lands on 0 exactly
    [] k = "fixed2"   -> <<v - 2, v - 2 <= 0>>              \* DecayFixed(2): may overshoot below 0
    [] k = "half"     -> <<v \div 2, v \div 2 <= 0>>        \* DecayLinear(0.5)
    [] k = "none"     -> <<v, FALSE>>                        \* DecayNone
    [] k = "residual" -> IF v <= 1 THEN <<1, TRUE>> ELSE <<v - 1, FALSE>>   \* custom: removal with after # 0
    [] k = "zerokeep" -> <<0, FALSE>>                        \* custom: value 0, tag kept
Decayed(k, v) == IF DecayRes(k, v)[2] THEN NoTag ELSE DecayRes(k, v)[1]

Max(a, b) == IF a > b THEN a ELSE b
BumpRes(k, v, dl) ==
  CASE k = "bounded"   -> Max(0, Min(v + dl, DecayMax))      \* BumpSumBounded(0, DecayMax)
    [] k = "unbounded" -> v + dl                             \* BumpSumUnbounded (bounded model: see Bump)
    [] k = "overwrite" -> dl                                 \* BumpOverwrite

Bump(p, dl) ==   \* d.Bump(p, dl), executed by the decayer's loop; refused with an error once the tag is closed
  LET new == BumpRes(dcfg.b, DecVal(p), dl) IN
  /\ DecayMax > 0 /\ new <= DecayMax
  /\ IF dcfg.closed THEN UNCHANGED <<kind, dec, val>>
     ELSE /\ kind' = IF kind[p] = "n" THEN [kind EXCEPT ![p] = "t"] ELSE kind
          /\ dec' = [dec EXCEPT ![p] = new]
          /\ val' = [val EXCEPT ![p] = @ + new - DecVal(p)]
  /\ UNCHANGED <<cs, tg, age, prot, count, phase, dph, dcfg>>
  /\ op' = [name |-> "bump", p |-> p, dl |-> dl, err |-> dcfg.closed]

DRemove(p) ==    \* d.Remove(p): the loop calls tagInfoFor first, so an untracked peer gets a temporary entry
  /\ DecayMax > 0
  /\ IF dcfg.closed THEN UNCHANGED <<kind, dec, val>>
     ELSE /\ kind' = IF kind[p] = "n" THEN [kind EXCEPT ![p] = "t"] ELSE kind
          /\ dec' = [dec EXCEPT ![p] = NoTag]
          /\ val' = [val EXCEPT ![p] = @ - DecVal(p)]
  /\ UNCHANGED <<cs, tg, age, prot, count, phase, dph, dcfg>>
  /\ op' = [name |-> "dremove", p |-> p, err |-> dcfg.closed]

DClose ==        \* d.Close(): the loop removes the tag from every peer; a second Close is a no-op
  /\ DecayMax > 0
  /\ dcfg' = [dcfg EXCEPT !.closed = TRUE]
  /\ dec' = [p \in Peers |-> NoTag]
  /\ val' = [p \in Peers |-> val[p] - DecVal(p)]
  /\ UNCHANGED <<kind, cs, tg, age, prot, count, phase, dph>>
  /\ op' = [name |-> "dclose"]

----------------------------------------------------------------------------
(* protection *)

Protect(p, x) ==
  /\ prot' = [prot EXCEPT ![p] = @ \cup {x}]
  /\ UNCHANGED <<kind, cs, tg, val, age, count, phase, dec, dph, dcfg>>
  /\ op' = [name |-> "protect", p |-> p, x |-> x]

Unprotect(p, x) ==
  /\ prot' = [prot EXCEPT ![p] = @ \ {x}]
  /\ UNCHANGED <<kind, cs, tg, val, age, count, phase, dec, dph, dcfg>>
  /\ op' = [name |-> "unprotect", p |-> p, x |-> x, res |-> (prot[p] \ {x}) # {}]

----------------------------------------------------------------------------
(* the sort key and the orders sort.Slice may produce *)

Streams(p) == SumF([c \in Conns |-> ConnStreams[c]], cs[p])
Incoming(p) == \E c \in cs[p] : ConnIn[c]

\* SortByValueAndStreams as a lexicographic key (the comparison function is a strict weak order:
\* temp first; value; peers without streams before peers with streams; inbound first; stream count
\* ascending, or descending for the emergency trim)
Key(p, more) == << IF kind[p] = "t" THEN 0 ELSE 1,
                   val[p],
                   IF Streams(p) > 0 THEN 1 ELSE 0,
                   IF Incoming(p) THEN 0 ELSE 1,
                   IF more THEN 0 - Streams(p) ELSE Streams(p) >>

LexLess(a, b) == \E i \in 1..5 : a[i] < b[i] /\ \A j \in 1..(i-1) : a[j] = b[j]

Orders(S, more) ==
  LET n == Cardinality(S) IN
  { f \in [1..n -> S] :
      /\ \A i, j \in 1..n : i # j => f[i] # f[j]
      /\ \A i, j \in 1..n : i < j => ~LexLess(Key(f[j], more), Key(f[i], more)) }

\* positions the selection loop visits with a positive remaining target
Visited(f, target) ==
  { i \in DOMAIN f : target - SumF([j \in DOMAIN f |-> Cardinality(cs[f[j]])], 1..(i-1)) > 0 }
Picked(f, target) == { f[i] : i \in Visited(f, target) }
WithConns(S) == { p \in S : cs[p] # {} }

----------------------------------------------------------------------------
(* getConnsToClose, evaluated with the ages `a` that hold when it runs *)

Cands(a) == { p \in Peers : kind[p] # "n" /\ prot[p] = {} /\ a[p] >= Grace }
TrimRuns(a) == Low # 0 /\ High # 0 /\ count > Low /\ NConns(Cands(a)) >= Low
Target(a) == NConns(Cands(a)) - Low

TrimAllowed(a) ==
  IF ~TrimRuns(a) THEN {{}}
  ELSE { WithConns(Picked(f, Target(a))) : f \in Orders(Cands(a), FALSE) }

\* temporary entries sort first and do not lower the target, so all expired ones are pruned as soon
\* as the loop is entered with a positive target
Pruned(a) == IF TrimRuns(a) /\ Target(a) > 0 THEN { p \in Cands(a) : kind[p] = "t" } ELSE {}

ApplyPrune(P, a, d) ==     \* d: the decaying values that hold when the trim runs
  /\ kind' = [p \in Peers |-> IF p \in P THEN "n" ELSE kind[p]]
  /\ tg' = [p \in Peers |-> IF p \in P THEN NoTags ELSE tg[p]]
  /\ val' = [p \in Peers |-> IF p \in P THEN 0 ELSE val[p] - DecVal(p) + (IF d[p] = NoTag THEN 0 ELSE d[p])]
  /\ age' = [p \in Peers |-> IF p \in P THEN 0 ELSE a[p]]
  /\ dec' = [p \in Peers |-> IF p \in P THEN NoTag ELSE d[p]]

\* what the property's clauses need to know about the moment of the trim
TrimInfo(a) == [elig |-> WithConns(Cands(a)),
                prot |-> { p \in Peers : prot[p] # {} },
                grace |-> { p \in Peers : kind[p] # "n" /\ a[p] < Grace },
                n |-> count]

Trim ==
  /\ ApplyPrune(Pruned(age), age, dec)
  /\ UNCHANGED <<cs, prot, count, phase, dph, dcfg>>
  /\ op' = [name |-> "trim", allowed |-> TrimAllowed(age), pruned |-> Pruned(age), info |-> TrimInfo(age)]

Tick ==
  LET a == [p \in Peers |-> IF kind[p] = "n" THEN 0 ELSE Min(age[p] + 1, MaxAge)]
      ph == IF Silence = 0 THEN 0 ELSE (phase + 1) % Silence
      fire == Silence # 0 /\ ph = 0 /\ count >= High
      dp == IF DecayMax = 0 THEN 0 ELSE (dph + 1) % DecayEvery
      visit == DecayMax # 0 /\ dp = 0
      d == [p \in Peers |-> IF visit /\ dec[p] # NoTag THEN Decayed(dcfg.d, dec[p]) ELSE dec[p]] IN
  /\ phase' = ph
  /\ dph' = dp
  /\ IF fire THEN ApplyPrune(Pruned(a), a, d) ELSE ApplyPrune({}, a, d)
  /\ UNCHANGED <<cs, prot, count, dcfg>>
  /\ op' = [name |-> "tick", bg |-> fire, decay |-> visit,
            allowed |-> IF fire THEN TrimAllowed(a) ELSE {{}},
            pruned |-> IF fire THEN Pruned(a) ELSE {},
            info |-> TrimInfo(a)]

----------------------------------------------------------------------------
(* ForceTrim / getConnsToCloseEmergency *)

Unprot == { p \in Peers : kind[p] # "n" /\ prot[p] = {} }
Tracked == { p \in Peers : kind[p] # "n" }

ForceAllowed ==
  LET t0 == count - Low IN
  IF t0 < 0 THEN {{}}
  ELSE UNION {
    LET s1 == WithConns(Picked(f, t0))
        rem == t0 - NConns(s1)
    IN IF NConns(s1) >= rem
       THEN { s1 }      \* "found enough": compares the number selected with the REMAINING target
       ELSE { s1 \cup WithConns(Picked(g, rem)) : g \in Orders(Tracked, TRUE) }
    : f \in Orders(Unprot, TRUE) }

ForceTrim ==
  /\ HasForce
  /\ UNCHANGED <<kind, cs, tg, val, age, prot, count, phase, dec, dph, dcfg>>
  /\ op' = [name |-> "forcetrim", allowed |-> ForceAllowed, info |-> TrimInfo(age)]

----------------------------------------------------------------------------
(* Concurrent variant.  getConnsToClose collects *peerInfo pointers under the segment locks, sorts them *)
(* (taking and releasing pairs of segment locks) and then walks the sorted list; other goroutines get   *)
(* in between.  A candidate whose entry is deleted meanwhile (last Disconnected) stays in the list as a  *)
(* STALE object without connections, and keeps being stale when the peer comes back under a new entry:  *)
(* the selection must leave the new entry alone.  With foreign steps in between, the comparison sees     *)
(* changing keys, so neither the closed set nor which expired temporary entries are reached is pinned:   *)
(* Select may prune any subset of the candidates that are STILL temporary (never a stale one).          *)

Collect ==
  /\ Split /\ ~tr.on /\ TrimRuns(age)
  /\ tr' = [on |-> TRUE, c |-> Cands(age), s |-> {}, n |-> Target(age), b |-> 0, u |-> <<>>]
  /\ UNCHANGED <<kind, cs, tg, val, age, prot, count, phase, dec, dph, dcfg>>
  /\ op' = [name |-> "collect", cands |-> Cands(age), target |-> Target(age)]

MayPrune == IF tr.n > 0 THEN { p \in tr.c \ tr.s : kind[p] = "t" } ELSE {}

Select ==
  /\ tr.on /\ tr.u = <<>>
  /\ \E P \in SUBSET MayPrune :
        /\ ApplyPrune(P, age, dec)
        /\ op' = [name |-> "select", pruned |-> P, mayprune |-> MayPrune, stale |-> tr.s]
  /\ tr' = TrOff
  /\ UNCHANGED <<cs, prot, count, phase, dph, dcfg>>

(* User callbacks are interference points too.  UpsertTag hands the tag's current value to the caller's     *)
(* function and stores the result.  The code runs the function INSIDE the segment's critical section, so   *)
(* nothing can get in between; the variant below describes what any implementation has to guarantee if    *)
(* that window existed (the harness probes it with TryLock from inside the callback): foreign steps between *)
(* UBegin and UEnd, and the outcome is that of a sequential order - here: the function applied to the       *)
(* value current at UEnd.  The bounded model's function is x |-> min(x + 1, MaxVal).                        *)
UBegin(p, t) ==
  /\ Split /\ UWindow /\ ~tr.on
  /\ tr' = [TrOff EXCEPT !.on = TRUE, !.u = <<p, t>>]
  /\ UNCHANGED <<kind, cs, tg, val, age, prot, count, phase, dec, dph, dcfg>>
  /\ op' = [name |-> "ubegin", p |-> p, t |-> t]

UEnd ==
  /\ tr.on /\ tr.u # <<>>
  /\ SetTag(tr.u[1], tr.u[2], Min(OldVal(tr.u[1], tr.u[2]) + 1, MaxVal))
  /\ tr' = TrOff
  /\ op' = [name |-> "uend", p |-> tr.u[1], t |-> tr.u[2], v |-> Min(OldVal(tr.u[1], tr.u[2]) + 1, MaxVal)]

\* calls other goroutines may make at any time
Foreign == \/ \E c \in Conns : Connected(c) \/ Disconnected(c)
           \/ \E p \in TagPeers, t \in Tags : (\E v \in Vals : Tag(p, t, v)) \/ Untag(p, t) \/ Upsert(p, t)
           \/ \E p \in Peers : \E x \in ProtTagsOf[p] : Protect(p, x) \/ Unprotect(p, x)

Gone == { p \in Peers : kind[p] # "n" /\ kind'[p] = "n" }

Next == \/ /\ ~tr.on
           /\ \/ Foreign
              \/ \E p \in TagPeers : (\E dl \in Deltas : Bump(p, dl)) \/ DRemove(p)
              \/ DClose
              \/ Tick
              \/ Trim
              \/ ForceTrim
           /\ UNCHANGED tr
        \/ /\ tr.on /\ tr.b < (IF tr.u = <<>> THEN MaxBurst ELSE 1)   \* one foreign step inside a callback
           /\ Foreign
           /\ tr' = [tr EXCEPT !.s = @ \cup (Gone \cap tr.c), !.b = @ + 1]
        \/ Collect
        \/ Select
        \/ \E p \in TagPeers, t \in Tags : UBegin(p, t)
        \/ UEnd

Spec == Init /\ [][Next]_vars

----------------------------------------------------------------------------
(* Properties *)

TypeOK == /\ \A p \in Peers : /\ kind[p] \in {"n", "t", "c"}
                              /\ cs[p] \subseteq { c \in Conns : ConnPeer[c] = p }
                              /\ age[p] \in 0..MaxAge
                              /\ prot[p] \subseteq ProtTagsOf[p]
                              /\ \A t \in Tags : tg[p][t] \in Vals \cup {NoTag}
                              /\ dec[p] \in (0..DecayMax) \cup {NoTag}
          /\ count \in 0..Cardinality(Conns)
          /\ tr.s \subseteq tr.c /\ tr.c \subseteq Peers /\ (~tr.on => tr = TrOff)

\* an entry has connections iff it is a connected entry; an untracked peer carries nothing
Shape == \A p \in Peers : /\ (kind[p] = "c") <=> (cs[p] # {})
                          /\ kind[p] = "n" => (tg[p] = NoTags /\ val[p] = 0 /\ age[p] = 0 /\ dec[p] = NoTag)

\* the connection count is the number of tracked connections
CountExact == count = NConns(Peers)

\* the cached value is the sum of the tags, plain and decaying
ValueExact == \A p \in Peers : val[p] = SumF([t \in Tags |-> OldVal(p, t)], Tags) + DecVal(p)

IsTrim == op'.name = "trim" \/ (op'.name = "tick" /\ op'.bg)

\* a trim never closes a protected peer or a peer inside its grace period
NoProtected == [][IsTrim => \A S \in op'.allowed : S \cap op'.info.prot = {}]_vars
NoGrace     == [][IsTrim => \A S \in op'.allowed : S \cap op'.info.grace = {}]_vars

\* never closes a peer while a lower-valued eligible peer is kept
LowestFirst == [][IsTrim => \A S \in op'.allowed : \A q \in S : \A r \in op'.info.elig \ S : val[r] >= val[q]]_vars

\* does nothing at or below the low watermark
NothingBelowLow == [][(IsTrim \/ op'.name = "forcetrim") /\ count <= Low => op'.allowed = {{}}]_vars

\* otherwise at most Low connections are left among the eligible peers
LeavesAtMostLow == [][IsTrim /\ count > Low => \A S \in op'.allowed : NConns(op'.info.elig \ S) <= Low]_vars

\* a forced trim closes protected peers only after all unprotected ones, lowest value first inside
\* each class
ForceTrimOrder ==
  [][op'.name = "forcetrim" =>
       \A S \in op'.allowed :
          /\ (S \cap op'.info.prot # {}) => WithConns(Unprot) \subseteq S
          /\ \A q \in S : \A r \in WithConns(Tracked) \ S :
                (prot[q] = {}) = (prot[r] = {}) => val[r] >= val[q]]_vars

\* a trim changes nothing but expired temporary entries
TrimInert == [][op'.name \in {"trim", "forcetrim"} => UNCHANGED <<cs, prot, count>>
                  /\ \A p \in Peers : kind[p] = "c" => (kind'[p] = "c" /\ tg'[p] = tg[p] /\ val'[p] = val[p] /\ dec'[p] = dec[p])]_vars

\* the selection of a trim in progress changes nothing but still-temporary candidates, whatever happened
\* since the collection (in particular it never touches the new entry of a candidate that went and came back)
SelectInert == [][op'.name = "select" =>
                    /\ UNCHANGED <<cs, prot, count>>
                    /\ \A p \in Peers : (kind[p] = "c" \/ p \in tr.s \/ p \notin tr.c) =>
                          (kind'[p] = kind[p] /\ tg'[p] = tg[p] /\ val'[p] = val[p] /\ age'[p] = age[p])]_vars

(* reachability probes (expected to be violated): vacuity guards *)
ReachTie        == [][~(IsTrim /\ Cardinality(op'.allowed) > 1)]_vars
ReachClose      == [][~(IsTrim /\ op'.allowed # {{}})]_vars
ReachGraceSkip  == [][~(IsTrim /\ count > Low /\ op'.info.grace # {} /\ op'.allowed # {{}})]_vars
ReachProtSkip   == [][~(IsTrim /\ count > Low /\ WithConns(op'.info.prot) # {} /\ op'.allowed # {{}})]_vars
ReachForceProt  == [][~(op'.name = "forcetrim" /\ \E S \in op'.allowed : S \cap op'.info.prot # {})]_vars
ReachPrune      == [][~(IsTrim /\ op'.pruned # {})]_vars
\* a candidate went and came back inside a trim
ReachStaleBack  == [][~(op'.name = "select" /\ \E p \in tr.s : kind[p] = "c")]_vars
=============================================================================
