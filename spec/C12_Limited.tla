--------------------------- MODULE C12_Limited ---------------------------
(***************************************************************************)
(* Swarm.NewStream / waitForDirectConn / Conn.NewStream and the list of    *)
(* goroutines waiting for a direct connection (directConnNotifs), with     *)
(* limited and direct connections appearing and closing at any time.       *)
(* One action per critical section:                                        *)
(*   Best(c)     bestConnToPeer under conns.RLock, the allow-limited test  *)
(*   WaitReg(c)  waitForDirectConn: under directConnNotifs.Lock re-check   *)
(*               the best connection and append a channel                  *)
(*   Appear(k)   addConn: register; for a direct connection close and      *)
(*               drop every waiter channel of the peer                     *)
(*   Woken(c)    after the channel was closed: re-check                    *)
(*   Timeout(c)  ctx done: remove own channel from the list                *)
(*   Open(c)     Conn.NewStream: its own limited test, then the muxer      *)
(***************************************************************************)
EXTENDS Naturals, Sequences, FiniteSets, TLC

CONSTANTS Callers, Allow, ConnIds, Lim     \* Allow \subseteq Callers (allow-limited); Lim \subseteq ConnIds

VARIABLES conn,      \* [ConnIds -> "absent" | "open" | "closed"]
          waiters,   \* Seq(Callers): the channels registered for the peer
          pc,        \* [Callers -> idle | best | waitreg | wait | woken | open | done]
          sel,       \* [Callers -> conn chosen]  ("" = none)
          res        \* [Callers -> "" | stream | noconn | limitedconn | ctx]
vars == <<conn, waiters, pc, sel, res>>

OpenDirect == {k \in ConnIds : conn[k] = "open" /\ k \notin Lim}
OpenLimited == {k \in ConnIds : conn[k] = "open" /\ k \in Lim}
\* bestConnToPeer prefers direct connections
BestSet == IF OpenDirect # {} THEN OpenDirect ELSE OpenLimited
InSeq(q, x) == \E i \in 1..Len(q) : q[i] = x

Init == /\ conn = [k \in ConnIds |-> "absent"] /\ waiters = <<>>
        /\ pc = [c \in Callers |-> "idle"] /\ sel = [c \in Callers |-> ""] /\ res = [c \in Callers |-> ""]

Call(c) == pc[c] = "idle" /\ pc' = [pc EXCEPT ![c] = "best"] /\ UNCHANGED <<conn, waiters, sel, res>>

Finish(c, r) == pc' = [pc EXCEPT ![c] = "done"] /\ res' = [res EXCEPT ![c] = r]

Best(c) ==
  /\ pc[c] = "best"
  /\ IF BestSet = {} THEN Finish(c, "noconn") /\ UNCHANGED <<sel>>       \* (no-dial callers; dialling is C05)
     ELSE \E k \in BestSet :
            /\ sel' = [sel EXCEPT ![c] = k]
            /\ pc' = [pc EXCEPT ![c] = IF k \in Lim /\ c \notin Allow THEN "waitreg" ELSE "open"]
            /\ res' = res
  /\ UNCHANGED <<conn, waiters>>

WaitReg(c) ==
  /\ pc[c] = "waitreg"
  /\ IF BestSet = {} THEN Finish(c, "noconn") /\ UNCHANGED <<waiters, sel>>
     ELSE IF OpenDirect # {}
     THEN \E k \in OpenDirect : sel' = [sel EXCEPT ![c] = k] /\ pc' = [pc EXCEPT ![c] = "open"]
                                /\ UNCHANGED <<waiters, res>>
     ELSE waiters' = Append(waiters, c) /\ pc' = [pc EXCEPT ![c] = "wait"] /\ UNCHANGED <<sel, res>>
  /\ UNCHANGED conn

Appear(k) ==
  /\ conn[k] = "absent"
  /\ conn' = [conn EXCEPT ![k] = "open"]
  /\ IF k \in Lim THEN UNCHANGED <<waiters, pc>>
     ELSE /\ waiters' = <<>>
          /\ pc' = [c \in Callers |-> IF InSeq(waiters, c) THEN "woken" ELSE pc[c]]
  /\ UNCHANGED <<sel, res>>

Close(k) == conn[k] = "open" /\ conn' = [conn EXCEPT ![k] = "closed"] /\ UNCHANGED <<waiters, pc, sel, res>>

Woken(c) ==
  /\ pc[c] = "woken"
  /\ IF BestSet = {} THEN Finish(c, "noconn") /\ UNCHANGED sel
     ELSE IF OpenDirect = {} THEN Finish(c, "limitedconn") /\ UNCHANGED sel
     ELSE \E k \in OpenDirect : sel' = [sel EXCEPT ![c] = k] /\ pc' = [pc EXCEPT ![c] = "open"] /\ res' = res
  /\ UNCHANGED <<conn, waiters>>

Timeout(c) ==
  /\ pc[c] = "wait"
  /\ waiters' = SelectSeq(waiters, LAMBDA x : x # c)
  /\ Finish(c, "ctx")
  /\ UNCHANGED <<conn, sel>>

Open(c) ==
  /\ pc[c] = "open"
  /\ IF sel[c] \in Lim /\ c \notin Allow THEN Finish(c, "limitedconn")
     ELSE IF conn[sel[c]] = "closed" THEN pc' = [pc EXCEPT ![c] = "best"] /\ res' = res      \* retry
     ELSE Finish(c, "stream")
  /\ UNCHANGED <<conn, waiters, sel>>

Next == (\E c \in Callers : Call(c) \/ Best(c) \/ WaitReg(c) \/ Woken(c) \/ Timeout(c) \/ Open(c))
        \/ (\E k \in ConnIds : Appear(k) \/ Close(k))
Spec == Init /\ [][Next]_vars
FairSpec == Spec /\ \A c \in Callers : WF_vars(Call(c)) /\ WF_vars(Best(c)) /\ WF_vars(WaitReg(c)) /\ WF_vars(Woken(c))
                                        /\ WF_vars(Timeout(c)) /\ WF_vars(Open(c))

\* a stream rides a limited connection only if the caller allowed it
NoStreamOnLimitedUnlessAllowed == \A c \in Callers : res[c] = "stream" => (sel[c] \notin Lim \/ c \in Allow)
\* the waiter list holds exactly the callers that are waiting, once each
WaitersExact == /\ \A c \in Callers : InSeq(waiters, c) <=> pc[c] = "wait"
                /\ \A i, j \in 1..Len(waiters) : i # j => waiters[i] # waiters[j]
\* nobody is left behind
NoResidue == (\A c \in Callers : pc[c] \in {"idle", "done"}) => waiters = <<>>
\* a caller refused for want of a direct connection was refused while none was open
EveryCallEnds == <>[](\A c \in Callers : pc[c] = "done")
ReachWoken == \A c \in Callers : pc[c] # "woken"
=============================================================================
