---------------------------- MODULE C02_Start ----------------------------
(***************************************************************************)
(* Layer instance of the C02 channel family: the START of a secured        *)
(* connection.  The "session start" is just another position in the byte   *)
(* stream of a direction, and the wire's chunking is independent of every  *)
(* protocol boundary: one read of the underlying connection may return the *)
(* tail of the handshake together with the first transport frames (Noise:  *)
(* message 3 + frames; TLS: Finished + application records; upgrader: the  *)
(* multistream reply + the first muxer frames), a single byte, or anything *)
(* in between.                                                             *)
(*                                                                         *)
(* The stream of the direction under test is  H  f1 f2 ...  : H is what    *)
(* the writer's handshake call left unread by the reader when it returned  *)
(* (tail = TRUE: its last handshake message needs no answer, e.g. the      *)
(* initiator's message 3; tail = FALSE: nothing is pending, e.g. the       *)
(* responder), the f's are the frames the writer writes IMMEDIATELY after  *)
(* its handshake call returned.  Sock(n) is one read of the underlying     *)
(* connection by the reader's machinery: n units, whatever the boundaries. *)
(* The reader's handshake machinery consumes H and hands over to the       *)
(* transport machinery (Finish); whatever it had already taken off the     *)
(* connection beyond H must be carried over, not dropped.                  *)
(***************************************************************************)
EXTENDS Naturals, Sequences, TLC

CONSTANTS HLen,        \* units of the pending handshake tail
          MaxFrames,   \* frames written right after the handshake
          MaxUnits,    \* units per frame
          Bufs         \* read-buffer classes

VARIABLES tail,        \* a handshake tail is pending when the writer starts writing
          w,           \* units written so far on this direction (from the tail on): "h" or a data position
          nfr,         \* frames written
          nsent,       \* data units written
          t,           \* units the reader's machinery has taken off the connection
          c,           \* units it has consumed (handshake tail, delivered data)
          phase,       \* reader: "hs" (its handshake call still runs) / "tp"
          delivered, op
vars == <<tail, w, nfr, nsent, t, c, phase, delivered, op>>
View == <<tail, w, nfr, nsent, t, c, phase, delivered>>

Min(a, b) == IF a < b THEN a ELSE b
IsPrefix(s, x) == Len(s) <= Len(x) /\ \A i \in 1..Len(s) : s[i] = x[i]
Sent == [i \in 1..nsent |-> i]
H == [t |-> "h", i |-> 0]

Init == /\ tail \in BOOLEAN
        /\ w = IF tail THEN [i \in 1..HLen |-> H] ELSE <<>>
        /\ nfr = 0 /\ nsent = 0 /\ t = 0 /\ c = 0
        /\ phase = IF tail THEN "hs" ELSE "tp"
        /\ delivered = <<>> /\ op = [name |-> "init"]

\* the writer writes a frame right after its handshake call returned
Write(k) ==
  /\ nfr < MaxFrames
  /\ w' = w \o [i \in 1..k |-> [t |-> "d", i |-> nsent + i]]
  /\ nfr' = nfr + 1 /\ nsent' = nsent + k
  /\ op' = [name |-> "write", k |-> k, at |-> Len(w)]
  /\ UNCHANGED <<tail, t, c, phase, delivered>>

\* one read of the underlying connection: n units, independent of the boundaries; the reader's machinery
\* reads when it needs bytes (the handshake tail is incomplete / nothing is buffered for the transport)
Sock(n) ==
  /\ n \in 1..(Len(w) - t)
  /\ \/ phase = "hs" /\ t - c < HLen
     \/ phase = "tp" /\ t = c
  /\ t' = t + n
  /\ op' = [name |-> "sock", n |-> n, upto |-> t + n, boundary |-> (tail /\ t + n = HLen),
            coalesced |-> (phase = "hs" /\ t + n > HLen)]
  /\ UNCHANGED <<tail, w, nfr, nsent, c, phase, delivered>>

\* the reader's handshake call consumes the tail and returns; what it took beyond the tail stays buffered
Finish ==
  /\ phase = "hs" /\ t - c >= HLen
  /\ c' = c + HLen /\ phase' = "tp"
  /\ op' = [name |-> "finish", carry |-> t - c - HLen]
  /\ UNCHANGED <<tail, w, nfr, nsent, t, delivered>>

Read(b) ==
  /\ phase = "tp" /\ t > c
  /\ LET n == Min(b, t - c) IN
       /\ delivered' = delivered \o [i \in 1..n |-> w[c + i].i]
       /\ c' = c + n
       /\ op' = [name |-> "read", b |-> b, n |-> n]
  /\ UNCHANGED <<tail, w, nfr, nsent, t, phase>>

Next == \/ \E k \in 1..MaxUnits : Write(k)
        \/ \E n \in 1..(HLen + MaxFrames * MaxUnits) : Sock(n)
        \/ Finish
        \/ \E b \in Bufs : Read(b)

TypeOK == c <= t /\ t <= Len(w) /\ phase \in {"hs", "tp"}
\* nothing is lost at the hand-over: delivered, buffered and unread units make up what was written
Conservation == LET RECURSIVE Dat(_)
                    Dat(s) == IF s = <<>> THEN <<>> ELSE (IF Head(s).t = "d" THEN <<Head(s).i>> ELSE <<>>) \o Dat(Tail(s))
                IN delivered \o Dat(SubSeq(w, c + 1, Len(w))) = Sent
Prefix == IsPrefix(delivered, Sent)
Complete == (c = Len(w) /\ phase = "tp") => delivered = Sent
NoHandshakeToUser == \A i \in 1..Len(delivered) : delivered[i] > 0
=============================================================================
