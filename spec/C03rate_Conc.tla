---------------------------- MODULE C03rate_Conc ----------------------------
(***************************************************************************)
(* Extension engine C03rate, concurrency of Limiter.Allow.  The method     *)
(* holds no lock of its own: every matching prefix bucket is consulted     *)
(* under that bucket's mutex (rate.Limiter.mu), the whole subnet stage     *)
(* (cleanUp + all levels) under SubnetLimiter.mx, the global bucket under  *)
(* its mutex.  One action per critical section; callers interleave freely. *)
(*                                                                         *)
(*  K1 linearisable  Whatever the interleaving of the calls of a batch     *)
(*                   issued at one instant, the results and the final      *)
(*                   bucket state are those of SOME sequential order of    *)
(*                   the same calls (hence R1..R6 of C03rate_Limiter carry *)
(*                   over to concurrent use).                              *)
(* The harness cannot steer the interleavings of the real code (no call-   *)
(* back inside Allow); it releases real goroutines at one virtual instant  *)
(* and checks K1's conclusion: some sequential order of its own ledger     *)
(* explains the results (and R1 on the totals).                            *)
(***************************************************************************)
EXTENDS C03rate_Limiter

CONSTANTS Callers   \* e.g. {1, 2, 3}

VARIABLES calls,    \* [Callers -> [a, st \in {"idle","np","sub","glob","done"}, i, ok]]
          start     \* bucket state at the beginning of the batch
kvars == <<s, op, calls, start>>
KView == <<s, calls, start>>

Idle == [a |-> "", st |-> "idle", i |-> 0, ok |-> FALSE]
KInit == Init /\ calls = [c \in Callers |-> Idle] /\ start = S0

\* next matching, limited prefix bucket at or after index i (0 = none)
NextNP(a, i) == LET m == {j \in InNP(a) : j >= i /\ NP[j].rate # 0} IN IF m = {} THEN 0 ELSE CHOOSE j \in m : \A k \in m : j <= k

\* a batch: every caller gets an address (any assignment), nothing in flight
Begin == /\ \A c \in Callers : calls[c].st \in {"idle", "done"}
         /\ \E as \in [Callers -> Addrs] :
              calls' = [c \in Callers |->
                          IF InNP(as[c]) # {}
                          THEN IF NextNP(as[c], 1) = 0 THEN [a |-> as[c], st |-> "done", i |-> 0, ok |-> TRUE]
                               ELSE [a |-> as[c], st |-> "np", i |-> NextNP(as[c], 1), ok |-> FALSE]
                          ELSE [a |-> as[c], st |-> "sub", i |-> 0, ok |-> FALSE]]
         /\ start' = s /\ s' = s /\ op' = [name |-> "Begin"]

StepNP(c) == /\ calls[c].st = "np"
             /\ LET i == calls[c].i a == calls[c].a IN
                IF U * NP[i].burst - s.np[i] >= U
                THEN /\ s' = [s EXCEPT !.np[i] = @ + U]
                     /\ calls' = [calls EXCEPT ![c] = IF NextNP(a, i + 1) = 0 THEN [@ EXCEPT !.st = "done", !.ok = TRUE]
                                                      ELSE [@ EXCEPT !.i = NextNP(a, i + 1)]]
                ELSE /\ s' = s /\ calls' = [calls EXCEPT ![c] = [@ EXCEPT !.st = "done", !.ok = FALSE]]
             /\ UNCHANGED start /\ op' = [name |-> "StepNP", c |-> c]

StepSub(c) == /\ calls[c].st = "sub"
              /\ LET r == SubStage(s, calls[c].a) IN
                 /\ s' = r.S
                 /\ calls' = [calls EXCEPT ![c] = IF r.ok THEN [@ EXCEPT !.st = "glob"] ELSE [@ EXCEPT !.st = "done", !.ok = FALSE]]
              /\ UNCHANGED start /\ op' = [name |-> "StepSub", c |-> c]

StepGlob(c) == /\ calls[c].st = "glob"
               /\ LET r == GlobStage(s) IN
                  /\ s' = r.S /\ calls' = [calls EXCEPT ![c] = [@ EXCEPT !.st = "done", !.ok = r.ok]]
               /\ UNCHANGED start /\ op' = [name |-> "StepGlob", c |-> c]

KTick == /\ \A c \in Callers : calls[c].st \in {"idle", "done"}
         /\ Tick /\ calls' = [c \in Callers |-> Idle] /\ start' = start

KNext == Begin \/ KTick \/ \E c \in Callers : StepNP(c) \/ StepSub(c) \/ StepGlob(c)

\* sequential execution of the batch in the order given by a sequence of callers
RECURSIVE Serial(_, _, _)
Serial(S, order, res) ==
  IF order = <<>> THEN [S |-> S, res |-> res]
  ELSE LET c == Head(order) e == AllowEff(S, calls[c].a)
       IN Serial(e.S, Tail(order), [res EXCEPT ![c] = e.ok])

Orders == {o \in [1..Cardinality(Callers) -> Callers] : \A i, j \in DOMAIN o : i # j => o[i] # o[j]}

Linearisable ==
  (\A c \in Callers : calls[c].st = "done") =>
     \E o \in Orders : LET r == Serial(start, o, [c \in Callers |-> FALSE])
                       IN r.S = s /\ \A c \in Callers : r.res[c] = calls[c].ok

KBound == BoundOK /\ ForgetSound /\ TypeOK
ReachMixed == ~(/\ \A c \in Callers : calls[c].st = "done"
                /\ \E c, d \in Callers : calls[c].ok /\ ~calls[d].ok /\ calls[c].a = calls[d].a)
=============================================================================
