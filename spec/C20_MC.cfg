\* Template: the driver (checks/C20.py) instantiates N, MinSucc, ReadOnly for every bounded instance.
CONSTANTS
  N = 3
  MinSucc = 1
  ReadOnly = FALSE
  FilterSets <- MCFilterSets
INIT Init
NEXT Next
VIEW View
INVARIANTS TypeOK Consistency BlockOnlyAfterFullWindow ProbeEveryN
PROPERTIES SuccessClears FilterScope ReadOnlyInert ReadOnlyRefuses
