----------------------------- MODULE C13_PushMC -----------------------------
EXTENDS C13_Push, Json

St == [hc |-> hc, nch |-> nch, evq |-> evq, snap |-> snap, trig |-> trig, run |-> run, todo |-> todo,
       closed |-> closed, stable |-> ~Unstable,
       c |-> [c \in Conns |-> [cs |-> cs[c], ps |-> ps[c], last |-> last[c], g |-> g[c], gs |-> gs[c],
                               hi |-> hi[c], pushed |-> pushed[c], dc |-> dc[c], resp |-> resp[c]]]]
StP(hc2, nch2, evq2, snap2, trig2, run2, todo2, closed2, cs2, ps2, last2, g2, gs2, hi2, pushed2, dc2, resp2) ==
      [hc |-> hc2, nch |-> nch2, evq |-> evq2, snap |-> snap2, trig |-> trig2, run |-> run2, todo |-> todo2,
       closed |-> closed2,
       stable |-> ~( \/ (trig2 /\ ~run2 /\ ~closed2) \/ (run2 /\ todo2 = {} /\ {c \in Conns : g2[c] # "none"} = {})
                     \/ \E c \in Conns : g2[c] = "rec" \/ (run2 /\ c \in todo2 /\
                          ((cs2[c] \in {"up", "closed"} /\ last2[c] < snap2.seq) => Cardinality({d \in Conns : g2[d] # "none"}) < MaxConc))),
       c |-> [c \in Conns |-> [cs |-> cs2[c], ps |-> ps2[c], last |-> last2[c], g |-> g2[c], gs |-> gs2[c],
                               hi |-> hi2[c], pushed |-> pushed2[c], dc |-> dc2[c], resp |-> resp2[c]]]]
EmitEdge == PrintT(<<"VFEDGE", ToJson([s |-> St, op |-> op',
   t |-> StP(hc', nch', evq', snap', trig', run', todo', closed', cs', ps', last', g', gs', hi', pushed', dc', resp')])>>)
MCInit == Init /\ PrintT(<<"VFINIT", ToJson(St)>>)
           /\ PrintT(<<"VFCONF", ToJson([conns |-> Conns, maxChanges |-> MaxChanges, maxConc |-> MaxConc, kinds |-> Kinds])>>)
EmitPrio == Prio /\ EmitEdge
Perms == Permutations(Conns)
=============================================================================
