------------------------------ MODULE C15_MC ------------------------------
EXTENDS C15_EventBus
\* bounded instances (selected per cfg by overriding the constants with these definitions)
\* A: one stateful type, two emitters, two typed subscribers -- emit/subscribe/close races on one node
A_Types == {"A"}
A_Stateful == {"A"}
A_Emitters == {"e1", "e2"}
A_ETyp == [e \in A_Emitters |-> "A"]
A_NEv == [e \in A_Emitters |-> 2]
A_Subs == {"s1", "s2"}
A_STyps == [s \in A_Subs |-> <<"A">>]
A_WSubs == {}
A_Cap == [s \in A_Subs |-> 1]
\* B: two types, a two-type subscription and a wildcard subscription
B_Types == {"A", "B"}
B_Stateful == {"A"}
B_Emitters == {"e1", "e2"}
B_ETyp == ("e1" :> "A") @@ ("e2" :> "B")
B_NEv == ("e1" :> 2) @@ ("e2" :> 1)
B_Subs == {"s1"}
B_STyps == [s \in B_Subs |-> <<"A", "B">>]
B_WSubs == {"w1"}
B_Cap == [s \in B_Subs \cup B_WSubs |-> 1]
\* C: two wildcard subscribers and one typed one, one emitter (RWMutex writer preference, sweep)
C_Types == {"A"}
C_Stateful == {}
C_Emitters == {"e1", "e2"}
C_ETyp == [e \in C_Emitters |-> "A"]
C_NEv == ("e1" :> 2) @@ ("e2" :> 1)
C_Subs == {}
C_STyps == <<>>
C_WSubs == {"w1", "w2"}
C_Cap == [s \in C_WSubs |-> 1]
\* D: the instance in which TLC is EXPECTED to find a deadlock (known finding: a subscription to
\* several types blocks inside Subscribe on the bus lock while an emitter of its first type is blocked
\* on its full channel and a second subscriber holds the bus lock waiting for that node)
D_Types == {"A", "B"}
D_Stateful == {}
D_Emitters == {"e1"}
D_ETyp == [e \in D_Emitters |-> "A"]
D_NEv == [e \in D_Emitters |-> 2]
D_Subs == {"s1", "s2"}
D_STyps == ("s1" :> <<"A", "B">>) @@ ("s2" :> <<"A">>)
D_WSubs == {}
D_Cap == [s \in D_Subs |-> 1]
\* DS: the same with a channel the emitter cannot fill (capacity >= events): no deadlock
DS_Types == D_Types
DS_Stateful == D_Stateful
DS_Emitters == D_Emitters
DS_ETyp == D_ETyp
DS_NEv == D_NEv
DS_Subs == D_Subs
DS_STyps == D_STyps
DS_WSubs == D_WSubs
DS_Cap == [s \in D_Subs |-> 2]
\* quick-tier variants (fewer events)
AQ_Types == A_Types
AQ_Stateful == A_Stateful
AQ_Emitters == A_Emitters
AQ_ETyp == A_ETyp
AQ_NEv == ("e1" :> 2) @@ ("e2" :> 1)
AQ_Subs == A_Subs
AQ_STyps == A_STyps
AQ_WSubs == A_WSubs
AQ_Cap == A_Cap
BQ_Types == B_Types
BQ_Stateful == B_Stateful
BQ_Emitters == B_Emitters
BQ_ETyp == B_ETyp
BQ_NEv == ("e1" :> 1) @@ ("e2" :> 1)
BQ_Subs == B_Subs
BQ_STyps == B_STyps
BQ_WSubs == B_WSubs
BQ_Cap == B_Cap
\* L: a type whose only emitter is created late: the node is made by subscribers, the last of them may close
\* while another Subscribe is in flight, then the emitter arrives (node drop / re-creation races)
L_Types == {"B"}
L_Stateful == {}
L_Emitters == {"e3"}
L_ETyp == [e \in L_Emitters |-> "B"]
L_NEv == [e \in L_Emitters |-> 1]
L_Subs == {"s1", "s2"}
L_STyps == [s \in L_Subs |-> <<"B">>]
L_WSubs == {}
L_Cap == [s \in L_Subs |-> 1]
L_LateEm == {"e3"}
\* L2: the same with a stateful type, an early emitter that closes, and a two-type subscriber
L2_Types == {"A", "B"}
L2_Stateful == {"A"}
L2_Emitters == {"e1", "e3"}
L2_ETyp == ("e1" :> "A") @@ ("e3" :> "B")
L2_NEv == [e \in L2_Emitters |-> 1]
L2_Subs == {"s1", "s2"}
L2_STyps == ("s1" :> <<"B">>) @@ ("s2" :> <<"A", "B">>)
L2_WSubs == {}
L2_Cap == [s \in L2_Subs |-> 2]
L2_LateEm == {"e3"}
A_LateEm == {}
B_LateEm == {}
C_LateEm == {}
D_LateEm == {}
DS_LateEm == {}
AQ_LateEm == {}
BQ_LateEm == {}
=============================================================================
