--------------------------- MODULE C06_ConnEvents ---------------------------
(***************************************************************************)
(* connectionEventsEmitter (p2p/net/swarm/connection_events_emitter.go)    *)
(* together with the part of Swarm.addConn / Conn.doClose that feeds it.   *)
(*                                                                         *)
(* Grain: one action per *schedulable segment* of the code, i.e. what one  *)
(* goroutine does between two points at which it can be made to wait for   *)
(* another one: the owner-supplied callbacks (onConnected/onDisconnected   *)
(* run outside every lock and may block for as long as they like), the     *)
(* `connectedness` function the run loop calls, and call/return.  Inside a *)
(* segment the code touches the channel (buffered, 32) and one short       *)
(* critical section under notifsLk; these commute with every segment of    *)
(* another connection, and for the same connection the two critical        *)
(* sections are ordered by the segment order below, so the big steps lose  *)
(* no behaviour (the fine-grained draft is in DESIGN.md appendix D.1).     *)
(*                                                                         *)
(*  AddConn(c):    push add event; onConnected(c) ............ AddStart     *)
(*                 [returns] CS: pending? -> onDisconnected(c)  AddCbRet    *)
(*                                else connected += c; return              *)
(*                 [onDisconnected returns] return ........... AddDiscRet   *)
(*  RemoveConn(c): push remove event; CS: connected? -> onDisconnected(c)  *)
(*                                else park (pending += c); return RemStart *)
(*                 [onDisconnected returns] return ........... RemDiscRet   *)
(*  run loop:      pop event; new := connectedness(p) ........ NotifyRead  *)
(*                 [connectedness returns] compare with last; emit if      *)
(*                 changed or (add event and NotConnected) ... NotifyPub   *)
(*                 (`connectedness` is a call out of the emitter into the  *)
(*                 swarm: whatever happens between its answer and the      *)
(*                 publication must not be lost - a later change has its   *)
(*                 own queued event)                                       *)
(*  Close():       closed := TRUE (new Add/Remove calls return at once);   *)
(*                 wait for in-flight calls; drain the queue; return        *)
(***************************************************************************)
EXTENDS Naturals, Sequences, FiniteSets, TLC

CONSTANTS Conns, PeerOf, Limited, WithClose
\* PeerOf : [Conns -> peers] ; Limited \subseteq Conns ; WithClose : BOOLEAN (emitter Close in the model)

Peers == {PeerOf[c] : c \in Conns}

VARIABLES
  seen,       \* conns that have been registered at some point
  inmap,      \* conns registered in Swarm.conns.m (and not yet removed): what `connectedness` sees
  apc,        \* add path:    idle | cb (inside onConnected) | cbD (inside the parked onDisconnected) | done | skipped
  rpc,        \* remove path: idle | cbD (inside onDisconnected) | done | skipped
  queue,      \* peerConnectednessCh: Seq(<<peer, "add"|"rem">>)
  connected, pending,   \* the emitter's maps
  last,       \* lastConnectednessEvent per peer ("N" = absent)
  nConn, nDisc,         \* callbacks started per conn (observable)
  pub,        \* published PeerConnectednessChanged events: Seq(<<peer, state>>)  (observable)
  closed,     \* emitter: "open" | "closing" (Close called, waiting) | "closed" (Close returned)
  rd,         \* the event the run loop has popped and evaluated but not yet acted on ([on |-> FALSE, ...] = none)
  op

vars == <<seen, inmap, apc, rpc, queue, connected, pending, last, nConn, nDisc, pub, closed, rd, op>>
View == <<seen, inmap, apc, rpc, queue, connected, pending, last, nConn, nDisc, pub, closed, rd>>

Cness(p, m) == IF \E c \in m : PeerOf[c] = p /\ c \notin Limited THEN "C"
               ELSE IF \E c \in m : PeerOf[c] = p THEN "L" ELSE "N"

NoRd == [on |-> FALSE, p |-> "-", typ |-> "-", new |-> "-"]

Init ==
  /\ seen = {} /\ inmap = {} /\ apc = [c \in Conns |-> "idle"] /\ rpc = [c \in Conns |-> "idle"]
  /\ queue = <<>> /\ connected = {} /\ pending = {}
  /\ last = [p \in Peers |-> "N"]
  /\ nConn = [c \in Conns |-> 0] /\ nDisc = [c \in Conns |-> 0]
  /\ pub = <<>> /\ closed = "open" /\ rd = NoRd /\ op = [name |-> "init"]

\* Swarm.addConn registers the connection (under conns.Lock) before calling AddConn
Register(c) ==
  /\ c \notin seen /\ closed = "open"
  /\ seen' = seen \cup {c}
  /\ inmap' = inmap \cup {c}
  /\ op' = [name |-> "register", c |-> c]
  /\ UNCHANGED <<apc, rpc, queue, connected, pending, last, nConn, nDisc, pub, closed, rd>>


\* Conn.doClose: swarm.removeConn (map removal) happens before RemoveConn is spawned
Unregister(c) ==
  /\ c \in inmap
  /\ inmap' = inmap \ {c}
  /\ op' = [name |-> "unregister", c |-> c]
  /\ UNCHANGED <<seen, apc, rpc, queue, connected, pending, last, nConn, nDisc, pub, closed, rd>>

AddStart(c) ==
  /\ apc[c] = "idle" /\ c \in seen                              \* registered before
  /\ IF closed # "open"
     THEN /\ apc' = [apc EXCEPT ![c] = "skipped"]
          /\ UNCHANGED <<seen, queue, nConn, rd>>
     ELSE /\ apc' = [apc EXCEPT ![c] = "cb"]
          /\ queue' = Append(queue, <<PeerOf[c], "add">>)
          /\ nConn' = [nConn EXCEPT ![c] = @ + 1]
  /\ op' = [name |-> "addstart", c |-> c, entered |-> (closed = "open")]
  /\ UNCHANGED <<seen, inmap, rpc, connected, pending, last, nDisc, pub, closed, rd>>

\* onConnected returns: the critical section decides between marking connected and firing the parked
\* disconnect
AddCbRet(c) ==
  /\ apc[c] = "cb"
  /\ IF c \in pending
     THEN /\ pending' = pending \ {c} /\ connected' = connected
          /\ apc' = [apc EXCEPT ![c] = "cbD"]
          /\ nDisc' = [nDisc EXCEPT ![c] = @ + 1]
     ELSE /\ connected' = connected \cup {c} /\ pending' = pending
          /\ apc' = [apc EXCEPT ![c] = "done"]
          /\ nDisc' = nDisc
  /\ op' = [name |-> "addcbret", c |-> c, disc |-> (c \in pending)]
  /\ UNCHANGED <<seen, inmap, rpc, queue, last, nConn, pub, closed, rd>>

AddDiscRet(c) ==
  /\ apc[c] = "cbD"
  /\ apc' = [apc EXCEPT ![c] = "done"]
  /\ op' = [name |-> "adddiscret", c |-> c]
  /\ UNCHANGED <<seen, inmap, rpc, queue, connected, pending, last, nConn, nDisc, pub, closed, rd>>

\* RemoveConn is spawned by doClose after the map removal (any time after registration)
RemStart(c) ==
  /\ rpc[c] = "idle" /\ c \in seen /\ c \notin inmap
  /\ IF closed # "open"
     THEN /\ rpc' = [rpc EXCEPT ![c] = "skipped"]
          /\ UNCHANGED <<seen, queue, connected, pending, nDisc, rd>>
     ELSE /\ queue' = Append(queue, <<PeerOf[c], "rem">>)
          /\ IF c \in connected
             THEN /\ connected' = connected \ {c} /\ pending' = pending
                  /\ rpc' = [rpc EXCEPT ![c] = "cbD"]
                  /\ nDisc' = [nDisc EXCEPT ![c] = @ + 1]
             ELSE /\ pending' = pending \cup {c} /\ connected' = connected
                  /\ rpc' = [rpc EXCEPT ![c] = "done"]
                  /\ nDisc' = nDisc
  /\ op' = [name |-> "remstart", c |-> c, disc |-> (closed = "open" /\ c \in connected)]
  /\ UNCHANGED <<seen, inmap, apc, last, nConn, pub, closed, rd>>

RemDiscRet(c) ==
  /\ rpc[c] = "cbD"
  /\ rpc' = [rpc EXCEPT ![c] = "done"]
  /\ op' = [name |-> "remdiscret", c |-> c]
  /\ UNCHANGED <<seen, inmap, apc, queue, connected, pending, last, nConn, nDisc, pub, closed, rd>>

\* run loop, first half: one event is taken and the peer's connectedness looked up
NotifyRead ==
  /\ queue # <<>> /\ ~rd.on
  /\ LET e == Head(queue) IN
     /\ queue' = Tail(queue)
     /\ rd' = [on |-> TRUE, p |-> e[1], typ |-> e[2], new |-> Cness(e[1], inmap)]
     /\ op' = [name |-> "notifyread", p |-> e[1], typ |-> e[2], new |-> Cness(e[1], inmap)]
  /\ UNCHANGED <<seen, inmap, apc, rpc, connected, pending, last, nConn, nDisc, pub, closed>>

\* run loop, second half: compare with the last published state and publish
NotifyPub ==
  /\ rd.on
  /\ LET p == rd.p  new == rd.new  old == last[p]
         emit == (new # old) \/ (rd.typ = "add" /\ new = "N") IN
     /\ last' = [last EXCEPT ![p] = new]
     /\ pub' = IF emit THEN Append(pub, <<p, new>>) ELSE pub
     /\ op' = [name |-> "notifypub", p |-> p, typ |-> rd.typ, new |-> new, emitted |-> emit]
  /\ rd' = NoRd
  /\ UNCHANGED <<seen, inmap, apc, rpc, queue, connected, pending, nConn, nDisc, closed>>

InFlight == \E c \in Conns : apc[c] \in {"cb", "cbD"} \/ rpc[c] = "cbD"

CloseCall ==
  /\ WithClose /\ closed = "open"
  /\ closed' = "closing"
  /\ op' = [name |-> "closecall"]
  /\ UNCHANGED <<seen, inmap, apc, rpc, queue, connected, pending, last, nConn, nDisc, pub, rd>>

\* wg.Wait() is over, the loop has drained the queue, Close returns
CloseRet ==
  /\ closed = "closing" /\ ~InFlight /\ queue = <<>> /\ ~rd.on
  /\ closed' = "closed"
  /\ op' = [name |-> "closeret"]
  /\ UNCHANGED <<seen, inmap, apc, rpc, queue, connected, pending, last, nConn, nDisc, pub, rd>>

Next ==
  \/ \E c \in Conns : Register(c) \/ Unregister(c) \/ AddStart(c) \/ AddCbRet(c) \/ AddDiscRet(c)
                      \/ RemStart(c) \/ RemDiscRet(c)
  \/ NotifyRead \/ NotifyPub \/ CloseCall \/ CloseRet

Spec == Init /\ [][Next]_vars

----------------------------------------------------------------------------
(* Properties *)

\* each callback at most once per connection
Once == \A c \in Conns : nConn[c] <= 1 /\ nDisc[c] <= 1

\* Disconnected never starts before Connected has returned
Order == \A c \in Conns : nDisc[c] = 1 => (nConn[c] = 1 /\ apc[c] \in {"cbD", "done"})

\* at quiescence: every connection whose removal ran got exactly one Disconnected (if it got a
\* Connected), the maps are exact, and the last published state is the truth
Quiescent == /\ \A c \in seen : apc[c] \in {"done", "skipped"} /\ (c \notin inmap => rpc[c] \in {"done", "skipped"})
             /\ queue = <<>> /\ ~rd.on
Truthful ==
  (Quiescent /\ closed = "open") =>
     /\ \A p \in Peers : last[p] = Cness(p, inmap)
     /\ \A c \in Conns : (rpc[c] = "done" /\ apc[c] = "done") => nDisc[c] = 1
     /\ \A c \in Conns : rpc[c] = "idle" => nDisc[c] = 0
     /\ connected = {c \in Conns : apc[c] = "done" /\ rpc[c] = "idle"}
     /\ pending = {}

\* published states of one peer never repeat, except a NotConnected (announcing a connection that
\* vanished before it was announced)
LastOf(p, i) == LET S == {j \in 1..(i - 1) : pub[j][1] = p} IN
                IF S = {} THEN "N" ELSE pub[CHOOSE j \in S : \A k \in S : k <= j][2]
NoRepeat == \A i \in 1..Len(pub) : pub[i][2] # LastOf(pub[i][1], i) \/ pub[i][2] = "N"

\* once Close has returned nothing is in flight
CloseWaits == closed = "closed" => (~InFlight /\ queue = <<>> /\ ~rd.on)

\* vacuity probes (expected to be violated)
ReachParked == pending = {}
ReachForcedN == \A i \in 1..Len(pub) : ~(pub[i][2] = "N" /\ LastOf(pub[i][1], i) = "N")
ReachLimited == \A p \in Peers : last[p] # "L"
\* a stale look-up is acted on: something changed between NotifyRead and NotifyPub
ReachStaleRead == ~(rd.on /\ rd.new # Cness(rd.p, inmap))
=============================================================================
