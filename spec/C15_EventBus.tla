--------------------------- MODULE C15_EventBus ---------------------------
(***************************************************************************)
(* The libp2p event bus (p2p/host/eventbus/basic.go) at the grain of its   *)
(* critical sections.                                                      *)
(*                                                                         *)
(*  node.emit        : lock node; remember `last` if stateful; blocking    *)
(*                     send to every sink in slice order; unlock; then the *)
(*                     wildcard node: skip if nSinks = 0, else RLock,      *)
(*                     blocking send to every wildcard sink, RUnlock.      *)
(*  Subscribe        : per requested type: lock node, append sink, and a   *)
(*                     goroutine that KEEPS the node lock until it has     *)
(*                     sent the retained event (Subscribe itself returns). *)
(*  sub.Close        : start a drain goroutine; per node: lock, remove     *)
(*                     (swap with last), unlock, maybe drop the node;      *)
(*                     finally close(ch).                                  *)
(*  wildcard add     : nSinks++ (outside the lock); Lock; append; Unlock.  *)
(*  wildcard remove  : drain goroutine; nSinks--; Lock; delete; Unlock;    *)
(*                     sweep buffered events; channel is NOT closed.       *)
(*  emitter.Close    : nEmitters--; node (with its retained event) dropped *)
(*                     when no emitter and no sink is left.                *)
(*                                                                         *)
(* CheckCap = TRUE: channels have capacity Cap[s] and a send blocks while  *)
(* full (exhaustive model).  CheckCap = FALSE: used by the trace spec,     *)
(* where the hook logs the *intent* to send before the channel operation.  *)
(***************************************************************************)
EXTENDS Naturals, Sequences, FiniteSets, TLC

CONSTANTS Types, Stateful, Emitters, ETyp, NEv, Subs, STyps, WSubs, Cap, CheckCap,
          LateEm,           \* emitters created while the bus is in use (bus.Emitter = withNode: bus lock, node lock)
          DropTrustsCaller  \* design variant EXPECTED to fail: tryDropNode deletes on the strength of the check its
                            \* caller made before releasing the node lock (sinks attached since are left on a dead node)

AllSubs == Subs \cup WSubs
None == <<>>                       \* "no retained event"; events are <<emitter, index>>
Ev(e, i) == <<e, i>>

VARIABLES
  buslk,    \* "free" | holder id                 basicBus.lk (held while waiting for a node lock!)
  lock,     \* [Types -> "free" | holder id]      node.lk
  sinks,    \* [Types -> Seq(Subs)]               node.sinks in slice order
  last,     \* [Types -> event | None]            node.last
  nEm,      \* [Types -> Nat]                     node.nEmitters
  nSinks,   \* Nat                                wildcardNode.nSinks (atomic, outside the lock)
  wreaders, \* SUBSET Emitters                    holders of the wildcard RLock
  wpend,    \* SUBSET WSubs                       writers waiting for / holding the wildcard Lock
  wsinks,   \* Seq(WSubs)
  chan,     \* [AllSubs -> Seq(event)]
  chclosed, \* [AllSubs -> BOOLEAN]
  epc,      \* [Emitters -> [k, n, i]]  k in idle|typed|wwait|wild|closed ; n next event index; i sink index
  spc,      \* [Subs -> init|sub|ready|closing|closed]
  si,       \* [Subs -> Nat]  next type index (Subscribe: attaching; Close: detaching)
  async,    \* [Subs -> SUBSET Types]  types whose subscribe-goroutine still holds the node lock
  asent,    \* [Subs -> SUBSET Types]  ... and has already sent the retained event
  dropq,    \* SUBSET Types            pending tryDropNode calls (decided outside the node lock)
  wpc,      \* [WSubs -> init|adding|ready|removing|sweep|closed]
  drain,    \* [AllSubs -> BOOLEAN]  drain goroutine active
  got,      \* [AllSubs -> Seq(event)]  what the application reader received (observable)
  \* ghosts (observable instants)
  estart, edone,   \* [Emitters -> Nat] Emit calls begun / returned
  subAt,    \* [AllSubs -> [Emitters -> Nat]]  estart at the moment Subscribe returned
  firstExp, \* [Subs -> [Types -> event | None]]  retained event at the moment the sink was added
  panic,    \* BOOLEAN: a send on a closed channel happened
  orph      \* SUBSET (Subs \X Types): sinks left behind on a node object the bus no longer knows (never with the
            \* real tryDropNode, which re-checks under both locks)

vars == <<buslk, lock, sinks, last, nEm, nSinks, wreaders, wpend, wsinks, chan, chclosed, epc, spc, si,
          async, asent, dropq, wpc, drain, got, estart, edone, subAt, firstExp, panic, orph>>

Range(q) == {q[i] : i \in 1..Len(q)}
Room(s) == ~CheckCap \/ Len(chan[s]) < Cap[s]
\* remove by swapping with the last element, as sub.Close does
RemoveSwap(q, x) ==
  IF x \notin Range(q) THEN q
  ELSE LET i == CHOOSE j \in 1..Len(q) : q[j] = x
           n == Len(q)
       IN SubSeq([q EXCEPT ![i] = q[n]], 1, n - 1)
RemoveKeep(q, x) == SelectSeq(q, LAMBDA y : y # x)

Init ==
  /\ buslk = "free"
  /\ lock = [t \in Types |-> "free"]
  /\ sinks = [t \in Types |-> <<>>]
  /\ last = [t \in Types |-> None]
  /\ nEm = [t \in Types |-> Cardinality({e \in Emitters \ LateEm : ETyp[e] = t})]
  /\ nSinks = 0 /\ wreaders = {} /\ wpend = {} /\ wsinks = <<>>
  /\ chan = [s \in AllSubs |-> <<>>]
  /\ chclosed = [s \in AllSubs |-> FALSE]
  /\ epc = [e \in Emitters |-> [k |-> IF e \in LateEm THEN "unopened" ELSE "idle", n |-> 1, i |-> 0]]
  /\ spc = [s \in Subs |-> "init"]
  /\ si = [s \in Subs |-> 1]
  /\ async = [s \in Subs |-> {}]
  /\ asent = [s \in Subs |-> {}]
  /\ dropq = {}
  /\ wpc = [w \in WSubs |-> "init"]
  /\ drain = [s \in AllSubs |-> FALSE]
  /\ got = [s \in AllSubs |-> <<>>]
  /\ estart = [e \in Emitters |-> 0] /\ edone = [e \in Emitters |-> 0]
  /\ subAt = [s \in AllSubs |-> [e \in Emitters |-> 0]]
  /\ firstExp = [s \in Subs |-> [t \in Types |-> None]]
  /\ panic = FALSE
  /\ orph = {}

\* the same values assigned to the next state (used by the trace spec's reset between traces)
InitPrimed ==
  /\ buslk' = "free"
  /\ lock' = [t \in Types |-> "free"]
  /\ sinks' = [t \in Types |-> <<>>]
  /\ last' = [t \in Types |-> None]
  /\ nEm' = [t \in Types |-> Cardinality({e \in Emitters \ LateEm : ETyp[e] = t})]
  /\ nSinks' = 0 /\ wreaders' = {} /\ wpend' = {} /\ wsinks' = <<>>
  /\ chan' = [s \in AllSubs |-> <<>>]
  /\ chclosed' = [s \in AllSubs |-> FALSE]
  /\ epc' = [e \in Emitters |-> [k |-> IF e \in LateEm THEN "unopened" ELSE "idle", n |-> 1, i |-> 0]]
  /\ spc' = [s \in Subs |-> "init"]
  /\ si' = [s \in Subs |-> 1]
  /\ async' = [s \in Subs |-> {}]
  /\ asent' = [s \in Subs |-> {}]
  /\ dropq' = {}
  /\ wpc' = [w \in WSubs |-> "init"]
  /\ drain' = [s \in AllSubs |-> FALSE]
  /\ got' = [s \in AllSubs |-> <<>>]
  /\ estart' = [e \in Emitters |-> 0] /\ edone' = [e \in Emitters |-> 0]
  /\ subAt' = [s \in AllSubs |-> [e \in Emitters |-> 0]]
  /\ firstExp' = [s \in Subs |-> [t \in Types |-> None]]
  /\ panic' = FALSE
  /\ orph' = {}

----------------------------------------------------------------------------
(* Emit *)

EAcq(e) ==
  LET t == ETyp[e] IN
  /\ epc[e].k = "idle" /\ epc[e].n <= NEv[e] /\ lock[t] = "free"
  /\ lock' = [lock EXCEPT ![t] = e]
  /\ last' = IF t \in Stateful THEN [last EXCEPT ![t] = Ev(e, epc[e].n)] ELSE last
  /\ epc' = [epc EXCEPT ![e] = [k |-> "typed", n |-> @.n, i |-> 1]]
  /\ estart' = [estart EXCEPT ![e] = @ + 1]
  /\ UNCHANGED <<buslk, sinks, nEm, nSinks, wreaders, wpend, wsinks, chan, chclosed, spc, si, async, asent, dropq, wpc,
                 drain, got, edone, subAt, firstExp, panic, orph>>

ESend(e) ==
  LET t == ETyp[e] IN
  /\ epc[e].k = "typed" /\ epc[e].i <= Len(sinks[t])
  /\ LET s == sinks[t][epc[e].i] IN
     /\ Room(s)
     /\ IF chclosed[s] THEN panic' = TRUE /\ chan' = chan
        ELSE panic' = panic /\ chan' = [chan EXCEPT ![s] = Append(@, Ev(e, epc[e].n))]
  /\ epc' = [epc EXCEPT ![e].i = @ + 1]
  /\ UNCHANGED <<buslk, lock, sinks, last, nEm, nSinks, wreaders, wpend, wsinks, chclosed, spc, si, async, asent, dropq,
                 wpc, drain, got, estart, edone, subAt, firstExp, orph>>

Finish(e) == /\ epc' = [epc EXCEPT ![e] = [k |-> "idle", n |-> @.n + 1, i |-> 0]]
             /\ edone' = [edone EXCEPT ![e] = @ + 1]

ERel(e) ==
  LET t == ETyp[e] IN
  /\ epc[e].k = "typed" /\ epc[e].i > Len(sinks[t])
  /\ lock' = [lock EXCEPT ![t] = "free"]
  /\ epc' = [epc EXCEPT ![e].k = "wcheck"]
  /\ UNCHANGED <<buslk, sinks, last, nEm, nSinks, wreaders, wpend, wsinks, chan, chclosed, spc, si, async, asent,
                 dropq, wpc, drain, got, estart, edone, subAt, firstExp, panic, orph>>

\* wildcardNode.emit: `if n.nSinks.Load() == 0 { return }` (an atomic read outside any lock)
EWCheck(e) ==
  /\ epc[e].k = "wcheck"
  /\ IF nSinks = 0 THEN Finish(e)
     ELSE epc' = [epc EXCEPT ![e].k = "wwait"] /\ edone' = edone
  /\ UNCHANGED <<buslk, lock, sinks, last, nEm, nSinks, wreaders, wpend, wsinks, chan, chclosed, spc, si, async,
                 asent, dropq, wpc, drain, got, estart, subAt, firstExp, panic, orph>>

\* RLock: Go's RWMutex blocks new readers while a writer is waiting or active
EWAcq(e) ==
  /\ epc[e].k = "wwait" /\ (CheckCap => wpend = {})
  /\ wreaders' = wreaders \cup {e}
  /\ epc' = [epc EXCEPT ![e] = [k |-> "wild", n |-> @.n, i |-> 1]]
  /\ UNCHANGED <<buslk, lock, sinks, last, nEm, nSinks, wpend, wsinks, chan, chclosed, spc, si, async, asent, dropq, wpc,
                 drain, got, estart, edone, subAt, firstExp, panic, orph>>

EWSend(e) ==
  /\ epc[e].k = "wild" /\ epc[e].i <= Len(wsinks)
  /\ LET w == wsinks[epc[e].i] IN
     /\ Room(w)
     /\ chan' = [chan EXCEPT ![w] = Append(@, Ev(e, epc[e].n))]
  /\ epc' = [epc EXCEPT ![e].i = @ + 1]
  /\ UNCHANGED <<buslk, lock, sinks, last, nEm, nSinks, wreaders, wpend, wsinks, chclosed, spc, si, async, asent, dropq,
                 wpc, drain, got, estart, edone, subAt, firstExp, panic, orph>>

EWRel(e) ==
  /\ epc[e].k = "wild" /\ epc[e].i > Len(wsinks)
  /\ wreaders' = wreaders \ {e}
  /\ Finish(e)
  /\ UNCHANGED <<buslk, lock, sinks, last, nEm, nSinks, wpend, wsinks, chan, chclosed, spc, si, async, asent, dropq, wpc,
                 drain, got, estart, subAt, firstExp, panic, orph>>

\* bus.Emitter for an emitter created late: withNode takes the bus lock (creating the node if the bus does
\* not know one) ...
EOpenBus(e) ==
  /\ epc[e].k = "unopened" /\ buslk = "free"
  /\ buslk' = e
  /\ epc' = [epc EXCEPT ![e].k = "opening"]
  /\ UNCHANGED <<lock, sinks, last, nEm, nSinks, wreaders, wpend, wsinks, chan, chclosed, spc, si, async, asent, dropq,
                 wpc, drain, got, estart, edone, subAt, firstExp, panic, orph>>
\* ... locks the node while holding the bus lock, releases the bus lock, counts the emitter
EOpenAttach(e) ==
  LET t == ETyp[e] IN
  /\ epc[e].k = "opening" /\ buslk = e /\ lock[t] = "free"
  /\ buslk' = "free"
  /\ nEm' = [nEm EXCEPT ![t] = @ + 1]
  /\ epc' = [epc EXCEPT ![e].k = "idle"]
  /\ UNCHANGED <<lock, sinks, last, nSinks, wreaders, wpend, wsinks, chan, chclosed, spc, si, async, asent, dropq,
                 wpc, drain, got, estart, edone, subAt, firstExp, panic, orph>>

\* emitter.Close (only when idle: closing an emitter during its own Emit is a caller error)
EClose(e) ==
  LET t == ETyp[e] IN
  /\ epc[e].k = "idle" /\ (CheckCap => epc[e].n > NEv[e])
  /\ epc' = [epc EXCEPT ![e].k = "closed"]
  /\ nEm' = [nEm EXCEPT ![t] = @ - 1]
  /\ dropq' = IF nEm[t] = 1 THEN dropq \cup {t} ELSE dropq          \* e.dropper(e.typ)
  /\ UNCHANGED <<buslk, lock, sinks, last, nSinks, wreaders, wpend, wsinks, chan, chclosed, spc, si, async, asent,
                 wpc, drain, got, estart, edone, subAt, firstExp, panic, orph>>

\* basicBus.tryDropNode: under the bus lock and the node lock, drop the node (and with it the
\* retained event) if it has neither emitters nor sinks
TryDropBus(t) ==
  /\ t \in dropq /\ buslk = "free"
  /\ buslk' = t
  /\ UNCHANGED <<lock, sinks, last, nEm, nSinks, wreaders, wpend, wsinks, chan, chclosed, epc, spc, si,
                 async, asent, dropq, wpc, drain, got, estart, edone, subAt, firstExp, panic, orph>>

TryDrop(t) ==
  /\ t \in dropq /\ buslk = t
  /\ IF DropTrustsCaller
     THEN \* (design variant) no node lock, no second look at the sinks: the node object goes, with whoever is on it
          /\ lock[t] \notin Subs
          /\ last' = IF nEm[t] = 0 THEN [last EXCEPT ![t] = None] ELSE last
          /\ orph' = IF nEm[t] = 0 THEN orph \cup {<<x, t>> : x \in Range(sinks[t])} ELSE orph
          /\ sinks' = IF nEm[t] = 0 THEN [sinks EXCEPT ![t] = <<>>] ELSE sinks
     ELSE /\ lock[t] = "free"
          /\ last' = IF nEm[t] = 0 /\ sinks[t] = <<>> THEN [last EXCEPT ![t] = None] ELSE last
          /\ UNCHANGED <<sinks, orph>>
  /\ buslk' = "free"
  /\ dropq' = dropq \ {t}
  /\ UNCHANGED <<lock, nEm, nSinks, wreaders, wpend, wsinks, chan, chclosed, epc, spc, si, async,
                 asent, wpc, drain, got, estart, edone, subAt, firstExp, panic>>

----------------------------------------------------------------------------
(* Typed subscription *)

\* basicBus.withNode, first half: take the bus lock (to look the node up) ...
SubBus(s) ==
  /\ spc[s] \in {"init", "sub"} /\ si[s] <= Len(STyps[s]) /\ buslk = "free"
  /\ buslk' = s
  /\ UNCHANGED <<lock, sinks, last, nEm, nSinks, wreaders, wpend, wsinks, chan, chclosed, epc, spc, si,
                 async, asent, dropq, wpc, drain, got, estart, edone, subAt, firstExp, panic, orph>>

\* ... second half: lock the node WHILE HOLDING the bus lock, release the bus lock, add the sink
SubAttachBody(s) ==
  /\ spc[s] \in {"init", "sub"} /\ si[s] <= Len(STyps[s])
  /\ LET t == STyps[s][si[s]] IN
     /\ lock[t] = "free"
     /\ lock' = [lock EXCEPT ![t] = s]                 \* handed to the goroutine below
     /\ sinks' = [sinks EXCEPT ![t] = Append(@, s)]
     /\ async' = [async EXCEPT ![s] = @ \cup {t}]
     /\ firstExp' = [firstExp EXCEPT ![s][t] = IF t \in Stateful THEN last[t] ELSE None]
  /\ si' = [si EXCEPT ![s] = @ + 1]
  /\ IF si[s] = Len(STyps[s])
     THEN spc' = [spc EXCEPT ![s] = "ready"] /\ subAt' = [subAt EXCEPT ![s] = estart]   \* Subscribe returns
     ELSE spc' = [spc EXCEPT ![s] = "sub"] /\ subAt' = subAt
  /\ UNCHANGED <<last, nEm, nSinks, wreaders, wpend, wsinks, chan, chclosed, epc, asent, dropq, wpc, drain,
                 got, estart, edone, panic, orph>>
SubAttach(s) == buslk = s /\ buslk' = "free" /\ SubAttachBody(s)

\* the goroutine spawned by Subscribe: send the retained event (if any) ...
HasRetained(t) == t \in Stateful /\ last[t] # None
AsyncSend(s, t) ==
  /\ t \in async[s] /\ t \notin asent[s] /\ lock[t] = s /\ HasRetained(t)
  /\ Room(s)
  /\ IF chclosed[s] THEN panic' = TRUE /\ chan' = chan
     ELSE panic' = panic /\ chan' = [chan EXCEPT ![s] = Append(@, last[t])]
  /\ asent' = [asent EXCEPT ![s] = @ \cup {t}]
  /\ UNCHANGED <<buslk, lock, sinks, last, nEm, nSinks, wreaders, wpend, wsinks, chclosed, epc, spc, si, async,
                 dropq, wpc, drain, got, estart, edone, subAt, firstExp, orph>>

\* ... then unlock the node
AsyncDone(s, t) ==
  /\ t \in async[s] /\ lock[t] = s /\ (t \in asent[s] \/ ~HasRetained(t))
  /\ lock' = [lock EXCEPT ![t] = "free"]
  /\ async' = [async EXCEPT ![s] = @ \ {t}]
  /\ asent' = [asent EXCEPT ![s] = @ \ {t}]
  /\ UNCHANGED <<buslk, sinks, last, nEm, nSinks, wreaders, wpend, wsinks, chan, chclosed, epc, spc, si, dropq,
                 wpc, drain, got, estart, edone, subAt, firstExp, panic, orph>>

CloseStart(s) ==
  /\ spc[s] = "ready"
  /\ spc' = [spc EXCEPT ![s] = "closing"]
  /\ si' = [si EXCEPT ![s] = 1]
  /\ drain' = [drain EXCEPT ![s] = TRUE]
  /\ UNCHANGED <<buslk, lock, sinks, last, nEm, nSinks, wreaders, wpend, wsinks, chan, chclosed, epc, async, asent, dropq,
                 wpc, got, estart, edone, subAt, firstExp, panic, orph>>

CloseNode(s) ==
  /\ spc[s] = "closing" /\ si[s] <= Len(STyps[s])
  /\ LET t == STyps[s][si[s]] IN
     /\ lock[t] = "free"
     /\ sinks' = [sinks EXCEPT ![t] = RemoveSwap(@, s)]
     /\ dropq' = IF RemoveSwap(sinks[t], s) = <<>> /\ nEm[t] = 0 THEN dropq \cup {t} ELSE dropq
  /\ si' = [si EXCEPT ![s] = @ + 1]
  /\ UNCHANGED <<buslk, lock, last, nEm, nSinks, wreaders, wpend, wsinks, chan, chclosed, epc, spc, async, asent,
                 wpc, drain, got, estart, edone, subAt, firstExp, panic, orph>>

CloseChan(s) ==
  /\ spc[s] = "closing" /\ si[s] > Len(STyps[s])
  /\ chclosed' = [chclosed EXCEPT ![s] = TRUE]
  /\ spc' = [spc EXCEPT ![s] = "closed"]               \* Close returns
  /\ UNCHANGED <<buslk, lock, sinks, last, nEm, nSinks, wreaders, wpend, wsinks, chan, epc, si, async, asent, dropq, wpc,
                 drain, got, estart, edone, subAt, firstExp, panic, orph>>

Drain(s) ==
  /\ drain[s] /\ chan[s] # <<>>
  /\ chan' = [chan EXCEPT ![s] = Tail(@)]
  /\ UNCHANGED <<buslk, lock, sinks, last, nEm, nSinks, wreaders, wpend, wsinks, chclosed, epc, spc, si, async, asent, dropq,
                 wpc, drain, got, estart, edone, subAt, firstExp, panic, orph>>

DrainExit(s) ==
  /\ drain[s] /\ s \in Subs /\ chclosed[s] /\ chan[s] = <<>>
  /\ drain' = [drain EXCEPT ![s] = FALSE]
  /\ UNCHANGED <<buslk, lock, sinks, last, nEm, nSinks, wreaders, wpend, wsinks, chan, chclosed, epc, spc, si,
                 async, asent, dropq, wpc, got, estart, edone, subAt, firstExp, panic, orph>>

----------------------------------------------------------------------------
(* Wildcard subscription *)

WSubStart(w) ==
  /\ wpc[w] = "init"
  /\ nSinks' = nSinks + 1
  /\ wpend' = wpend \cup {w}
  /\ wpc' = [wpc EXCEPT ![w] = "adding"]
  /\ UNCHANGED <<buslk, lock, sinks, last, nEm, wreaders, wsinks, chan, chclosed, epc, spc, si, async, asent, dropq, drain,
                 got, estart, edone, subAt, firstExp, panic, orph>>

\* Lock acquired (no reader inside), append, Unlock; Subscribe returns
WSubDo(w) ==
  /\ wpc[w] = "adding" /\ wreaders = {}
  /\ wsinks' = Append(wsinks, w)
  /\ wpend' = wpend \ {w}
  /\ wpc' = [wpc EXCEPT ![w] = "ready"]
  /\ subAt' = [subAt EXCEPT ![w] = estart]
  /\ UNCHANGED <<buslk, lock, sinks, last, nEm, nSinks, wreaders, chan, chclosed, epc, spc, si, async, asent, dropq, drain,
                 got, estart, edone, firstExp, panic, orph>>

WCloseStart(w) ==
  /\ wpc[w] = "ready"
  /\ drain' = [drain EXCEPT ![w] = TRUE]
  /\ nSinks' = nSinks - 1
  /\ wpend' = wpend \cup {w}
  /\ wpc' = [wpc EXCEPT ![w] = "removing"]
  /\ UNCHANGED <<buslk, lock, sinks, last, nEm, wreaders, wsinks, chan, chclosed, epc, spc, si, async, asent, dropq, got,
                 estart, edone, subAt, firstExp, panic, orph>>

WCloseDo(w) ==
  /\ wpc[w] = "removing" /\ wreaders = {}
  /\ wsinks' = RemoveKeep(wsinks, w)
  /\ wpend' = wpend \ {w}
  /\ wpc' = [wpc EXCEPT ![w] = "sweep"]
  /\ UNCHANGED <<buslk, lock, sinks, last, nEm, nSinks, wreaders, chan, chclosed, epc, spc, si, async, asent, dropq, drain,
                 got, estart, edone, subAt, firstExp, panic, orph>>

\* the drain goroutine sweeps what is buffered and exits; Close returns; the channel stays open
WCloseSweep(w) ==
  /\ wpc[w] = "sweep"
  /\ chan' = [chan EXCEPT ![w] = <<>>]
  /\ drain' = [drain EXCEPT ![w] = FALSE]
  /\ wpc' = [wpc EXCEPT ![w] = "closed"]
  /\ UNCHANGED <<buslk, lock, sinks, last, nEm, nSinks, wreaders, wpend, wsinks, chclosed, epc, spc, si, async, asent, dropq,
                 got, estart, edone, subAt, firstExp, panic, orph>>

----------------------------------------------------------------------------
(* The application reader of a subscription *)

\* the application holds the subscription (and so can read its channel) only once Subscribe returned
Returned(s) == IF s \in WSubs THEN wpc[s] \notin {"init", "adding"} ELSE spc[s] \notin {"init", "sub"}
Read(s) ==
  /\ chan[s] # <<>> /\ Returned(s)
  /\ got' = [got EXCEPT ![s] = Append(@, Head(chan[s]))]
  /\ chan' = [chan EXCEPT ![s] = Tail(@)]
  /\ UNCHANGED <<buslk, lock, sinks, last, nEm, nSinks, wreaders, wpend, wsinks, chclosed, epc, spc, si, async, asent, dropq,
                 wpc, drain, estart, edone, subAt, firstExp, panic, orph>>

----------------------------------------------------------------------------

Terminated ==
  /\ \A e \in Emitters : epc[e].k \in {"idle", "closed"} /\ epc[e].n > NEv[e]
  /\ \A s \in Subs : spc[s] = "closed" /\ ~drain[s] /\ async[s] = {}
  /\ \A w \in WSubs : wpc[w] = "closed"
  /\ \A s \in AllSubs : chan[s] = <<>>
  /\ dropq = {}

Next ==
  \/ \E e \in Emitters : EAcq(e) \/ ESend(e) \/ ERel(e) \/ EWCheck(e) \/ EWAcq(e) \/ EWSend(e) \/ EWRel(e)
                         \/ EClose(e) \/ EOpenBus(e) \/ EOpenAttach(e)
  \/ \E s \in Subs : SubBus(s) \/ SubAttach(s) \/ CloseStart(s) \/ CloseNode(s) \/ CloseChan(s) \/ DrainExit(s)
                     \/ \E t \in Types : AsyncSend(s, t) \/ AsyncDone(s, t)
  \/ \E t \in Types : TryDropBus(t) \/ TryDrop(t)
  \/ \E w \in WSubs : WSubStart(w) \/ WSubDo(w) \/ WCloseStart(w) \/ WCloseDo(w) \/ WCloseSweep(w)
  \/ \E s \in AllSubs : Drain(s) \/ Read(s)
  \/ (Terminated /\ UNCHANGED vars)

Fairness ==
  /\ \A e \in Emitters : WF_vars(EAcq(e)) /\ WF_vars(ESend(e)) /\ WF_vars(ERel(e)) /\ WF_vars(EWCheck(e))
                         /\ WF_vars(EWAcq(e))
                         /\ WF_vars(EWSend(e)) /\ WF_vars(EWRel(e)) /\ WF_vars(EClose(e))
                         /\ WF_vars(EOpenBus(e)) /\ WF_vars(EOpenAttach(e))
  /\ \A s \in Subs : WF_vars(SubBus(s)) /\ WF_vars(SubAttach(s)) /\ WF_vars(CloseStart(s)) /\ WF_vars(CloseNode(s))
                     /\ WF_vars(CloseChan(s)) /\ WF_vars(DrainExit(s))
                     /\ \A t \in Types : WF_vars(AsyncSend(s, t)) /\ WF_vars(AsyncDone(s, t))
  /\ \A t \in Types : WF_vars(TryDropBus(t)) /\ WF_vars(TryDrop(t))
  /\ \A w \in WSubs : WF_vars(WSubStart(w)) /\ WF_vars(WSubDo(w)) /\ WF_vars(WCloseStart(w))
                      /\ WF_vars(WCloseDo(w)) /\ WF_vars(WCloseSweep(w))
  /\ \A s \in AllSubs : WF_vars(Drain(s)) /\ WF_vars(Read(s))

Spec == Init /\ [][Next]_vars
FairSpec == Spec /\ Fairness

----------------------------------------------------------------------------
(* Properties *)

Proj(q, e) == SelectSeq(q, LAMBDA x : x[1] = e)
Increasing(q) == \A i \in 1..(Len(q) - 1) : q[i][2] < q[i + 1][2]
Contig(q) == \A i \in 1..(Len(q) - 1) : q[i + 1][2] = q[i][2] + 1
TypesOf(s) == IF s \in WSubs THEN Types ELSE Range(STyps[s])
Live(s) == IF s \in WSubs THEN wpc[s] = "ready" ELSE spc[s] = "ready"

NoPanic == ~panic            \* a send on a closed channel would panic the process

\* what the application reads from one emitter is in emission order, without duplicates
Order == \A s \in AllSubs, e \in Emitters : Increasing(Proj(got[s], e))

\* while the subscription is live (Subscribe returned, Close not yet called): per emitter, what was
\* delivered (read or still buffered) is a gap-free run containing every event whose Emit began
\* after Subscribe returned and has returned since
ExactlyOnce ==
  \A s \in AllSubs : Live(s) => \A e \in Emitters :
     ETyp[e] \in TypesOf(s) =>
       LET q == Proj(got[s] \o chan[s], e) IN
       /\ Contig(q)
       /\ \A k \in (subAt[s][e] + 1)..edone[e] : \E j \in 1..Len(q) : q[j] = Ev(e, k)

\* nothing of a type the subscriber did not ask for
OnlyAsked == \A s \in Subs : \A i \in 1..Len(got[s] \o chan[s]) :
                ETyp[(got[s] \o chan[s])[i][1]] \in TypesOf(s)

\* a subscriber to a stateful type first receives the most recent earlier event (retained at the
\* moment its sink was added), before anything else of that type
StatefulFirst ==
  \A s \in Subs : spc[s] = "ready" => \A t \in Range(STyps[s]) :
     (firstExp[s][t] # None /\ (t \notin async[s] \/ t \in asent[s])) =>
        LET q == SelectSeq(got[s] \o chan[s], LAMBDA x : ETyp[x[1]] = t) IN
        q # <<>> /\ q[1] = firstExp[s][t]

\* after Close returned nothing can be delivered any more
ClosedDetached ==
  /\ \A s \in Subs : spc[s] = "closed" => \A t \in Types : s \notin Range(sinks[t])
  /\ \A w \in WSubs : wpc[w] \in {"sweep", "closed"} => w \notin Range(wsinks)

\* an emit never drops: when Emit has returned, the event is in the channel of (or was read by) every
\* subscriber that is live and was attached for the whole call -- implied by ExactlyOnce.

LocksSane == /\ buslk = "free" \/ buslk \in Subs \cup Types \cup Emitters
             /\ \A t \in Types : lock[t] = "free" \/ lock[t] \in Emitters \cup Subs
             /\ \A e \in Emitters : (epc[e].k = "typed") = (lock[ETyp[e]] = e)
             /\ \A e \in Emitters : (epc[e].k = "wild") = (e \in wreaders)

Termination == <>[]Terminated

\* vacuity probes (expected to be violated)
ReachRetained == \A s \in Subs, t \in Types : firstExp[s][t] = None
ReachFullChan == \A s \in AllSubs : Len(chan[s]) < Cap[s] \/ Cap[s] = 0
ReachTerminated == ~Terminated
\* no subscriber is ever left on a node the bus has forgotten (holds for the real tryDropNode; the design
\* variant DropTrustsCaller must violate it, and ExactlyOnce with it)
NoOrphan == orph = {}
=============================================================================
