---------------------------- MODULE C03rate_ConnMC ----------------------------
(* Bounded instances of C03rate_Conn (connLimiter alone: "c4", "c6"; composed with the rate limiter as in   *)
(* resourceManager.openConnection: "joint").  VFCONF carries the abstract configuration for the harness.    *)
EXTENDS C03rate_Conn, Json

CONSTANT Inst

Key(f) == [n \in Addrs |-> IF n \in DOMAIN f THEN f[n] ELSE "-"]

MCAddrs ==
  CASE Inst = "c4"    -> {"a", "a2", "b", "c", "d", "p", "q"}
    [] Inst = "c6"    -> {"x1", "x2", "y", "m", "l", "a", "z"}
    [] Inst \in {"joint", "jointM"} -> {"a", "b", "p", "z"}
    [] Inst = "jointL" -> {"a", "a2", "b", "p", "z"}

MCCFamOf ==
  CASE Inst = "c4"    -> [n \in MCAddrs |-> "v4"]
    [] Inst = "c6"    -> [n \in MCAddrs |-> IF n = "a" THEN "v4" ELSE IF n = "z" THEN "none" ELSE "v6"]   \* m = ::ffff:<a>
    [] Inst \in {"joint", "jointM", "jointL"} -> [n \in MCAddrs |-> IF n = "z" THEN "none" ELSE "v4"]
MCFamOf == [n \in MCAddrs |-> IF MCCFamOf[n] = "none" THEN "v6" ELSE MCCFamOf[n]]

MCCNP ==
  CASE Inst = "c4"    -> << [mem |-> {"p"}, cap |-> 1], [mem |-> {"p", "q"}, cap |-> 2] >>
    [] Inst = "c6"    -> << [mem |-> {"l"}, cap |-> 3] >>
    [] Inst \in {"joint", "jointM", "jointL"} -> << [mem |-> {"p"}, cap |-> 1] >>

MCCLevels ==
  CASE Inst = "c4" ->      \* narrow subnet first: a refusal by the wide one leaves a zero entry of the narrow one behind
         [v4 |-> << [key |-> Key([a |-> "4n1", a2 |-> "4n1", b |-> "4n2", c |-> "4n3", d |-> "4n4", p |-> "4np", q |-> "4nq"]), cap |-> 2],
                    [key |-> Key([a |-> "4w1", a2 |-> "4w1", b |-> "4w1", c |-> "4w2", d |-> "4w1", p |-> "4wp", q |-> "4wp"]), cap |-> 3] >>,
          v6 |-> << >>]
    [] Inst = "c6" ->      \* configured order is kept by the code (no sort): here the WIDE subnet first
         [v4 |-> << [key |-> Key([a |-> "4n1"]), cap |-> 1] >>,
          v6 |-> << [key |-> Key([x1 |-> "6w1", x2 |-> "6w1", y |-> "6w2", m |-> "6wm", l |-> "6wl"]), cap |-> 3],
                    [key |-> Key([x1 |-> "6n1", x2 |-> "6n2", y |-> "6n3", m |-> "6nm", l |-> "6nl"]), cap |-> 2] >>]
    [] Inst \in {"joint", "jointM", "jointL"} ->
         [v4 |-> << [key |-> Key([a |-> "4n1", a2 |-> "4n1", b |-> "4n2", p |-> "4np"]), cap |-> 2],
                    [key |-> Key([a |-> "4w1", a2 |-> "4w1", b |-> "4w1", p |-> "4wp"]), cap |-> 3] >>,
          v6 |-> << >>]

\* rate side: nothing for the pure connLimiter instances
Joint == Inst \in {"joint", "jointM", "jointL"}
MCNP == IF Joint THEN << [mem |-> {"p"}, rate |-> 0, burst |-> 0] >> ELSE << >>
MCLevels ==
  IF Joint
  THEN [v4 |-> << [key |-> Key([a |-> "r4n1", a2 |-> "r4n1", b |-> "r4n2", p |-> "r4np"]), rate |-> IF Inst = "jointL" THEN 1 ELSE 2,
                   burst |-> IF Inst = "joint" THEN 2 ELSE 3] >>,
        v6 |-> << [key |-> Key([z |-> "r6z"]), rate |-> 2, burst |-> 1] >>]
  ELSE [v4 |-> << >>, v6 |-> << >>]
MCGlob == IF Joint THEN [rate |-> 2, burst |-> IF Inst = "joint" THEN 3 ELSE 4] ELSE [rate |-> 0, burst |-> 0]
MCGrace == IF Joint THEN 1 ELSE 0

Conf == [inst |-> Inst, U |-> U, grace |-> MCGrace, glob |-> MCGlob, fam |-> MCFamOf, cfam |-> MCCFamOf,
         np |-> [i \in 1..Len(MCNP) |-> [mem |-> MCNP[i].mem, rate |-> MCNP[i].rate, burst |-> MCNP[i].burst]],
         v4 |-> MCLevels.v4, v6 |-> MCLevels.v6, bids |-> AllBIds,
         cnp |-> [i \in 1..Len(MCCNP) |-> [mem |-> MCCNP[i].mem, cap |-> MCCNP[i].cap]],
         c4 |-> MCCLevels.v4, c6 |-> MCCLevels.v6, cbids |-> CBIds]

\* compact JSON projection (rate side as in C03rate_MC; counts of zero are implied for subnets not listed in ent)
St == [g |-> s.g, np |-> s.np, bk |-> [b \in AllBIds |-> IF s.bk[b].pres THEN <<s.bk[b].def, s.bk[b].ttl>> ELSE <<>>],
       npc |-> npc, subc |-> [b \in ent |-> subc[b]], live |-> live]
EmitEdge == PrintT(<<"VFEDGE", ToJson([s |-> St, op |-> op', t |-> St'])>>)
MCInit == CInit /\ PrintT(<<"VFINIT", ToJson(St)>>) /\ PrintT(<<"VFCONF", ToJson(Conf)>>)
=============================================================================
