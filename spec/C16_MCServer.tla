---------------------------- MODULE C16_MCServer ----------------------------
(* Bounded instance + edge printing for part (b) of C16 (C16_AutoNAT). *)
EXTENDS C16_AutoNAT, Json
St == [acc |-> acc, ddacc |-> ddacc, phase |-> phase, cur |-> cur, idx |-> idx, rem |-> rem, parts |-> parts,
       prev |-> prev, prevAge |-> prevAge]
EmitEdge == PrintT(<<"VFEDGE", ToJson([s |-> St, op |-> op', t |-> St'])>>)
MCInit == Init /\ PrintT(<<"VFINIT", ToJson(St)>>)
=============================================================================
