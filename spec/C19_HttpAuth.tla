------------------------------ MODULE C19_HttpAuth ------------------------------
(***************************************************************************************************)
(* HTTP Peer-ID authentication (p2p/http/auth/internal/handshake/{server,client,handshake}.go and   *)
(* p2p/http/auth/{server,client}.go) as a symbolic (Dolev-Yao style) model of the header protocol.  *)
(*                                                                                                 *)
(* Agents.  Servers "S" and "S2" (each its own HMAC secret; identity keys kS and kS2, or the same   *)
(* key kS when S2SameKey - a restarted server with a new secret), hostnames h1, h2; one honest      *)
(* client C (key kC) running the real client state machine, one session at a time; the attacker A   *)
(* (key kA) IS the network: every header travels through it, it knows every term ever sent, it can   *)
(* drop, replay and recombine parameters between sessions, hostnames, clients and servers, alter     *)
(* any field of any term, and sign whatever it wants - with its own key only.                        *)
(*                                                                                                 *)
(* Terms.                                                                                           *)
(*   opaque  [mac, tok, cpk, pid, ch, host, t]  = Mac(secret mac, opaqueState{IsToken, ClientPublic- *)
(*            Key, PeerID, ChallengeClient, Hostname, CreatedTime}); mac = "X" is a MAC that no       *)
(*            server secret produced (what every alteration of a MAC'd blob results in)              *)
(*   sig     [key, kind, ch, pub, host]   kind "cli" = Sig(key, {challenge-client, server-public-key,*)
(*            hostname}), kind "srv" = Sig(key, {challenge-server, client-public-key, hostname});    *)
(*            the two kinds have different parameter names, so one never verifies as the other       *)
(*   nonces  1,2,.. challenge-client values of the servers (by mint), 11,12,.. challenge-server      *)
(*            values of C, ANonce a challenge chosen by A, 0 = absent/empty                          *)
(* Servers are stateless (the code keeps all state in the opaque blob), so the system state is the   *)
(* set of terms in existence (= attacker knowledge), the clock and the honest client's session.      *)
(*                                                                                                 *)
(* Two ways of accounting for honest signatures (constant Explicit):                                *)
(*   TRUE   a signature of C or of a server exists only once the agent made it in this behaviour    *)
(*          (variable sigs); the attacker obtains C's signatures by playing server to C's session   *)
(*   FALSE  honest agents sign on demand, exactly as the code lets anybody make them: C signs       *)
(*          (challenge-client c, server key k, CHost) for any c # 0, k (server-initiated flow to    *)
(*          CHost), a server signs (challenge-server c, client key k, h) for any c, k and its       *)
(*          hostnames (client-initiated flow); sigs stays empty.  This removes the interleavings of  *)
(*          the honest sessions from the state space; the harness makes the honest agent really      *)
(*          produce each such signature (and enters it into its ledger) before presenting it.        *)
(*                                                                                                 *)
(* One action per call of PeerIDAuthHandshakeServer.Run / PeerIDAuthHandshakeClient.Run; the checks  *)
(* inside an action are in the order of the code, so the rejection reason is the code's.             *)
(***************************************************************************************************)
EXTENDS Naturals, FiniteSets, TLC

CONSTANTS MaxT,        \* clock runs 0..MaxT
          ChalTTL,     \* challengeTTL (code: 5 min) in model ticks
          TokTTL,      \* TokenTTL in model ticks
          MaxMint,     \* challenge opaques the servers mint in a behaviour (the "sessions")
          MaxTok,      \* distinct bearer tokens issued (state constraint)
          MaxCli,      \* honest client sessions
          S2SameKey,   \* S2 has the identity key of S (restart with a new secret) or its own
          Verifiers,   \* servers that verify in the bounded model (S2 may be mint-only)
          MintPlaces,  \* <<server, hostname>> pairs at which challenges are minted
          Explicit,    \* see above
          CHost,       \* the hostname C talks to when ~Explicit
          Rich,        \* richer attacker menus (more wrong signatures, more keys)
          AliasHosts,  \* {} or {"h1a"}: a further hostname that a careless normalisation would identify with
                       \* "h1" (other port, letter case, trailing dot, ...); to the protocol it is just another name
          CliHosts,    \* hostnames C opens exchanges with
          SeqSessions, \* C starts a new exchange only when the previous one is over (done / token answered)
          StaleStart,  \* exchanges may start in the server-initiated flow (C holds a token the server refuses)
          Mixed,       \* the attacker also sends mixed-state headers (parameters of several protocol states at once)
          Careless     \* FALSE always; TRUE only in the self-test that the model can express the alias attack:
                       \* C's token cache is then keyed by the normalised hostname

None == "none"
Servers == {"S", "S2"}
Hosts == {"h1", "h2"} \cup AliasHosts
\* the name most easily confused with h: the alias relation is what the attacker plays on
OtherHost(h) == IF h = "h1" THEN (IF AliasHosts # {} THEN "h1a" ELSE "h2") ELSE "h1"
Norm(h) == IF Careless /\ h \in AliasHosts THEN "h1" ELSE h
SrvKey(s) == IF s = "S" \/ S2SameKey THEN "kS" ELSE "kS2"
SrvKeys == {SrvKey(s) : s \in Servers}
ANonce == 99

VARIABLES now,    \* clock
          ops,    \* opaque blobs minted by the servers (challenges and tokens); all known to A
          sigs,   \* Explicit: signatures made by honest agents (servers, C); all known to A
          cli,    \* honest client session [st, host, chS, spk]
          ncli,   \* sessions started
          cn,     \* challenge-server values C has generated
          cache,  \* C's token cache (auth/client.go tokenMap): [host, spk, chS] = for hostname host C holds a
                  \* bearer token and remembers server key spk, obtained in the exchange whose challenge was chS
          proof,  \* ghost: [tok, at] = bearer token tok was issued at instant `at` on the strength of a signature
                  \* verified at that instant; a token's age is measured from its proof
          op      \* output only: last action, arguments, expected observable result

vars == <<now, ops, sigs, cli, ncli, cn, cache, proof, op>>
View == <<now, ops, sigs, cli, ncli, cn, cache, proof>>

Chal(s, h, c, pk, t) == [mac |-> s, tok |-> FALSE, cpk |-> pk, pid |-> None, ch |-> c, host |-> h, t |-> t]
Tok(s, h, p, t) == [mac |-> s, tok |-> TRUE, cpk |-> None, pid |-> p, ch |-> 0, host |-> h, t |-> t]
Sg(k, kind, c, pub, h) == [key |-> k, kind |-> kind, ch |-> c, pub |-> pub, host |-> h]
Bad == [key |-> "bad", kind |-> "bad", ch |-> 0, pub |-> None, host |-> None]   \* bytes that are no signature of anything
NoSig == [key |-> None, kind |-> None, ch |-> 0, pub |-> None, host |-> None]   \* parameter absent

Chals == {o \in ops : ~o.tok}
NMint == Cardinality(Chals)
NTok == Cardinality({o \in ops : o.tok})
ChalNonces == {o.ch : o \in Chals}

Init == /\ now = 0 /\ ops = {} /\ sigs = {} /\ ncli = 0 /\ cn = 0 /\ cache = {} /\ proof = {}
        /\ cli = [st |-> "idle", host |-> "h1", chS |-> 0, spk |-> None]
        /\ op = [name |-> "init"]

\* time only matters once something carries a timestamp
Tick == /\ now < MaxT /\ ops # {}
        /\ now' = now + 1
        /\ UNCHANGED <<ops, sigs, cli, ncli, cn, cache, proof>>
        /\ op' = [name |-> "tick"]

AddSigs(G) == sigs' = IF Explicit THEN sigs \cup G ELSE sigs

(* ---------------------------------- server ---------------------------------- *)

(* empty Authorization header: state ChallengeClient (server-initiated flow) *)
Challenge(s, h) ==
  /\ NMint < MaxMint
  /\ LET o == Chal(s, h, NMint + 1, None, now) IN
     /\ ops' = ops \cup {o}
     /\ op' = [name |-> "challenge", srv |-> s, host |-> h, o |-> o]
  /\ UNCHANGED <<now, sigs, cli, ncli, cn, cache, proof>>

(* challenge-server + public-key: state SignChallenge (client-initiated flow).  The server signs    *)
(* whatever challenge and public key it is handed, and binds the public key into the opaque.        *)
SignChallenge(s, h, c, pk) ==
  /\ NMint < MaxMint
  /\ LET o == Chal(s, h, NMint + 1, pk, now)
         g == Sg(SrvKey(s), "srv", c, pk, h) IN
     /\ ops' = ops \cup {o}
     /\ AddSigs({g})
     /\ op' = [name |-> "sign", srv |-> s, host |-> h, c |-> c, pk |-> pk, o |-> o, sig |-> g]
  /\ UNCHANGED <<now, cli, ncli, cn, cache, proof>>

(* sig + opaque: state VerifyChallenge.  o is the blob as the server sees it, g the presented       *)
(* signature, pk the public-key parameter (None = absent), c the challenge-server parameter          *)
(* (0 = absent).                                                                                     *)
VKey(o, pk) == IF o.cpk # None THEN o.cpk ELSE pk
VerifyRes(s, h, o, g, pk, c) ==
  IF o.mac # s THEN "hmac"
  ELSE IF now > o.t + ChalTTL THEN "expired"
  ELSE IF o.tok THEN "kind"
  ELSE IF o.host # h THEN "host"
  ELSE IF VKey(o, pk) = None THEN "nokey"
  ELSE IF g # Sg(VKey(o, pk), "cli", o.ch, SrvKey(s), h) THEN "sig"
  ELSE IF o.cpk = None /\ c = 0 THEN "nochs"
  ELSE "ok"

\* signatures A can present to server s for hostname h together with blob o
AttCliSigs(s, h, o) ==
  {Sg("kA", "cli", o.ch, SrvKey(s), h),                \* the right one, by A
   Sg("kA", "cli", o.ch, SrvKey(s), OtherHost(h)),     \* A signs for the other hostname
   Sg("kA", "cli", o.ch, "kA", h)}                     \* A signs for another server key
  \cup (IF Rich THEN {Sg("kA", "cli", ANonce, SrvKey(s), h), Sg("kA", "srv", o.ch, SrvKey(s), h)} ELSE {})
OnDemandCliSigs(s, h, o) ==
  IF Explicit THEN {}
  ELSE {Sg("kC", "cli", c, k, CHost) : c \in ChalNonces, k \in SrvKeys \cup (IF Rich THEN {"kA"} ELSE {})}
       \* reflection: the server's own signature over the same challenge value, key and hostname
       \cup {Sg(SrvKey(s), "srv", o.ch, VKey(o, "kC"), h)}
SigsForS(s, h, o) == sigs \cup AttCliSigs(s, h, o) \cup OnDemandCliSigs(s, h, o)

PkMenu(o) == IF o.cpk = None THEN {"kC", "kA", None} \cup (IF Rich THEN {"kS"} ELSE {})
             ELSE {None, "kA"}     \* the key bound into the blob wins over the parameter
CsMenu(s, o) == IF o.mac = s /\ ~o.tok /\ o.cpk = None
                THEN {0, ANonce} \cup (IF cli.chS # 0 THEN {cli.chS} ELSE {}) ELSE {0}

\* The blob checks (secret, expiry, kind, hostname) come first and do not look at the other
\* parameters.  A request whose blob fails one of them is presented with the best remaining
\* parameters only (a signature over the blob's challenge, this server's key and this hostname by a
\* key that can make it, and that key), which is what would pass if the failing check were absent;
\* the full menus (swapped signatures, keys, challenges) are used once the blob passes.
BlobOK(s, h, o) == o.mac = s /\ ~(now > o.t + ChalTTL) /\ ~o.tok /\ o.host = h
CanSign(k, g) == k = "kA" \/ (IF Explicit THEN g \in sigs ELSE g.host = CHost /\ g.ch # 0)
\* ... for this hostname, and - the replay of a final leg that was produced for another hostname - for
\* the hostname the blob was minted for
BestTries(s, h, o) ==
  {t \in {<<Sg(k, "cli", o.ch, SrvKey(s), hh), IF o.cpk = None THEN k ELSE None, IF o.cpk = None THEN ANonce ELSE 0>> :
              hh \in {h, o.host}, k \in {"kA", "kC"}} :
      (o.cpk = None \/ o.cpk = t[1].key) /\ CanSign(t[1].key, t[1])}
Tries(s, h, o) ==
  IF BlobOK(s, h, o)
  THEN {<<g, pk, c>> : g \in SigsForS(s, h, o), pk \in PkMenu(o), c \in CsMenu(s, o)}
  ELSE BestTries(s, h, o) \cup {<<Sg("kA", "cli", o.ch, SrvKey(s), h), IF o.cpk = None THEN "kA" ELSE None, 0>>}

(* b: a bearer parameter in the same header (None = absent).  sig + opaque select the state, so the  *)
(* bearer is ignored (mixed-state header).                                                            *)
VerifyX(s, h, o, g, pk, c, extra) ==
  LET res == VerifyRes(s, h, o, g, pk, c) IN
  /\ IF res = "ok"
     THEN /\ ops' = ops \cup {Tok(s, h, VKey(o, pk), now)}
          /\ proof' = proof \cup {[tok |-> Tok(s, h, VKey(o, pk), now), at |-> now]}
          /\ AddSigs(IF o.cpk = None THEN {Sg(SrvKey(s), "srv", c, pk, h)} ELSE {})
     ELSE UNCHANGED <<ops, sigs, proof>>
  /\ op' = [name |-> "verify", srv |-> s, host |-> h, o |-> o, sig |-> g, pk |-> pk, c |-> c, alt |-> None,
            res |-> res, peer |-> IF res = "ok" THEN VKey(o, pk) ELSE None] @@ extra
  /\ UNCHANGED <<now, cli, ncli, cn, cache>>
Verify(s, h, o, g, pk, c) == VerifyX(s, h, o, g, pk, c, [mix |-> None])
VerifyB(s, h, o, g, pk, c, b) == VerifyX(s, h, o, g, pk, c, [mix |-> "bearer", b |-> b])

(* single alteration of a request that would be accepted: field f of the opaque / the signature /  *)
(* the public key is changed (the harness runs each over every byte).  Any change of the blob makes  *)
(* its MAC one that no secret produced; an altered signature verifies under nothing; an altered      *)
(* public key is another key or no key.                                                              *)
OpaqueAlts == {"o.mac", "o.tok", "o.cpk", "o.pid", "o.ch", "o.host", "o.t", "o.trunc", "o.ext"}
VerifyAlts(o) == OpaqueAlts \cup {"sig", "sig.trunc", "sig.ext"} \cup (IF o.cpk = None THEN {"pk"} ELSE {})
VerifyAlt(s, h, o, g, pk, c, f) ==
  /\ VerifyRes(s, h, o, g, pk, c) = "ok"
  /\ op' = [name |-> "verify", srv |-> s, host |-> h, o |-> o, sig |-> g, pk |-> pk, c |-> c, alt |-> f,
            res |-> IF f \in OpaqueAlts THEN "hmac" ELSE "sig", peer |-> None]
  /\ UNCHANGED <<now, ops, sigs, cli, ncli, cn, cache, proof>>

(* bearer: state VerifyBearer.  The hostname is not compared on this path (as in the code). *)
BearerRes(s, o) ==
  IF o.mac # s THEN "hmac"
  ELSE IF ~o.tok THEN "kind"
  ELSE IF now > o.t + TokTTL THEN "expired"
  ELSE "ok"

(* m: parameters of other protocol states in the same header ("none" = a plain bearer request):     *)
(* "cs+pk" challenge-server + public-key (the client-initiated request), "o+cs+pk" those and an opaque  *)
(* without signature, "sig+cs+pk" those and a signature without opaque.  Without sig AND opaque the     *)
(* bearer selects the state and the rest is ignored; nothing is minted.                                 *)
BearerMixes == {"cs+pk", "o+cs+pk", "sig+cs+pk"}
BearerM(s, h, o, m) ==
  LET res == BearerRes(s, o) IN
  /\ op' = [name |-> "bearer", srv |-> s, host |-> h, o |-> o, alt |-> None, res |-> res,
            peer |-> IF res = "ok" THEN o.pid ELSE None, mix |-> m]
  /\ UNCHANGED <<now, ops, sigs, cli, ncli, cn, cache, proof>>
Bearer(s, h, o) == BearerM(s, h, o, None)

BearerAlt(s, h, o, f) ==
  /\ BearerRes(s, o) = "ok"
  /\ op' = [name |-> "bearer", srv |-> s, host |-> h, o |-> o, alt |-> f, res |-> "hmac", peer |-> None]
  /\ UNCHANGED <<now, ops, sigs, cli, ncli, cn, cache, proof>>

(* ------------------------------- honest client C ------------------------------- *)

(* a new AuthenticatedDo: client-initiated ("ci": no token for the hostname) or server-initiated   *)
(* ("si": the token was rejected with 401, the client answers the server's challenge)               *)
CacheFor(h) == {e \in cache : Norm(e.host) = Norm(h)}
CStart(h, mode) ==
  /\ ncli < MaxCli
  /\ Explicit \/ h = CHost
  /\ SeqSessions => cli.st \in {"idle", "done", "tdone"}
  /\ mode = "tok" <=> CacheFor(h) # {}       \* a cached token is always tried first
  /\ mode = "si" => StaleStart
  /\ ncli' = ncli + 1
  /\ IF mode = "ci"
     THEN /\ cli' = [st |-> "vas", host |-> h, chS |-> 11 + cn, spk |-> None]
          /\ cn' = cn + 1
     ELSE /\ cli' = [st |-> IF mode = "tok" THEN "tok" ELSE "sc", host |-> h, chS |-> 0, spk |-> None]
          /\ cn' = cn
  /\ op' = [name |-> "cstart", host |-> h, mode |-> mode, chS |-> cli'.chS,
            tokhost |-> IF mode = "tok" THEN (CHOOSE e \in CacheFor(h) : TRUE).host ELSE None]
  /\ UNCHANGED <<now, ops, sigs, cache, proof>>

(* the token was sent and the answer is not a 401: C takes the peer it remembers for this cache entry *)
CTokOther(status) ==
  /\ cli.st = "tok"
  /\ LET e == CHOOSE x \in CacheFor(cli.host) : TRUE IN
     /\ cli' = [cli EXCEPT !.st = "tdone", !.spk = e.spk]
     /\ op' = [name |-> "ctok", host |-> cli.host, status |-> status, res |-> "reported", reports |-> e.spk,
               entry |-> e.host]
  /\ UNCHANGED <<now, ops, sigs, ncli, cn, cache, proof>>

\* signatures A can present to C
AttSrvSigs ==
  {Sg("kA", "srv", cli.chS, "kC", cli.host),
   Sg("kA", "srv", cli.chS, "kC", OtherHost(cli.host)),
   Sg("kA", "srv", cli.chS, "kA", cli.host)}
  \cup (IF Rich THEN {Sg("kA", "srv", ANonce, "kC", cli.host), Sg("kA", "cli", cli.chS, "kC", cli.host)} ELSE {})
OnDemandSrvSigs ==
  IF Explicit THEN {}
  ELSE {Sg(k, "srv", c, pk, h) : k \in SrvKeys, c \in {cli.chS, ANonce}, pk \in {"kC", "kA"}, h \in Hosts}
       \* reflection: C's own signature over its own challenge
       \cup {Sg("kC", "cli", cli.chS, "kS", cli.host)}
SigsForC == sigs \cup AttSrvSigs \cup OnDemandSrvSigs \cup {NoSig, Bad}
PubsForC == SrvKeys \cup {"kA", None}
ChalsForC == {0, ANonce} \cup ChalNonces

(* WWW-Authenticate received in state VerifyAndSignChallenge ("vas") or SignChallenge ("sc").      *)
(* ParseHeader keeps the FIRST server public key it ever saw (spk is sticky), its error is ignored   *)
(* by the caller (auth/client.go), Run decides.                                                      *)
CWww(c, pk, g) ==
  /\ cli.st \in {"vas", "sc", "tok"}      \* "tok": the 401 that refuses the token carries the challenge
  /\ LET spk1 == IF cli.spk = None /\ pk # None THEN pk ELSE cli.spk
         fallback == cli.st \in {"sc", "tok"} \/ (g = NoSig /\ c # 0)
         mine == Sg("kC", "cli", c, spk1, cli.host)
     IN
     IF fallback
     THEN IF c = 0 \/ spk1 = None
          THEN /\ cli' = [cli EXCEPT !.spk = spk1, !.st = "sc"]
               /\ UNCHANGED <<cn, sigs>>
               /\ op' = [name |-> "cwww", c |-> c, pk |-> pk, sig |-> g, alt |-> None, res |-> "err", reports |-> None,
                         signed |-> NoSig]
          ELSE /\ cli' = [st |-> "vc", host |-> cli.host, chS |-> 11 + cn, spk |-> spk1]
               /\ cn' = cn + 1
               /\ AddSigs({mine})
               /\ op' = [name |-> "cwww", c |-> c, pk |-> pk, sig |-> g, alt |-> None, res |-> "signed", reports |-> None,
                         signed |-> mine]
     ELSE IF g # NoSig /\ spk1 # None /\ g = Sg(spk1, "srv", cli.chS, "kC", cli.host)
          THEN /\ cli' = [cli EXCEPT !.spk = spk1, !.st = "wfb"]
               /\ AddSigs({mine})
               /\ UNCHANGED cn
               /\ op' = [name |-> "cwww", c |-> c, pk |-> pk, sig |-> g, alt |-> None, res |-> "verified", reports |-> spk1,
                         signed |-> mine]
          ELSE /\ cli' = [cli EXCEPT !.spk = spk1]
               /\ UNCHANGED <<cn, sigs>>
               /\ op' = [name |-> "cwww", c |-> c, pk |-> pk, sig |-> g, alt |-> None, res |-> "err", reports |-> None,
                         signed |-> NoSig]
  /\ UNCHANGED <<now, ops, ncli, cache, proof>>

(* Authentication-Info received in state VerifyChallenge ("vc") or WaitingForBearer ("wfb") *)
CInfo(g) ==
  /\ cli.st \in {"vc", "wfb"}
  /\ IF cli.st = "wfb" \/ g = Sg(cli.spk, "srv", cli.chS, "kC", cli.host)
     THEN /\ cli' = [cli EXCEPT !.st = "done"]
          \* the exchange succeeded: token and server key are remembered for this hostname
          /\ cache' = {e \in cache : Norm(e.host) # Norm(cli.host)}
                         \cup {[host |-> cli.host, spk |-> cli.spk, chS |-> cli.chS]}
          /\ op' = [name |-> "cinfo", sig |-> g, alt |-> None, res |-> "done", reports |-> cli.spk]
     ELSE /\ cli' = cli /\ cache' = cache
          /\ op' = [name |-> "cinfo", sig |-> g, alt |-> None, res |-> "err", reports |-> None]
  /\ UNCHANGED <<now, ops, sigs, ncli, cn, proof>>

(* single alteration of a server answer C would accept: the signature or the server public key *)
CAlts == {"sig", "sig.trunc", "sig.ext", "pk"}
CWwwAlt(c, pk, g, f) ==
  /\ cli.st = "vas" /\ cli.spk = None /\ pk # None
  /\ g = Sg(pk, "srv", cli.chS, "kC", cli.host)
  /\ op' = [name |-> "cwww", c |-> c, pk |-> pk, sig |-> g, alt |-> f, res |-> "err", reports |-> None, signed |-> NoSig]
  /\ UNCHANGED <<now, ops, sigs, cli, ncli, cn, cache, proof>>   \* (an undecodable key is not remembered; a wrong signature changes nothing)
CInfoAlt(g, f) ==
  /\ cli.st = "vc" /\ f # "pk"
  /\ g = Sg(cli.spk, "srv", cli.chS, "kC", cli.host)
  /\ op' = [name |-> "cinfo", sig |-> g, alt |-> f, res |-> "err", reports |-> None]
  /\ UNCHANGED <<now, ops, sigs, cli, ncli, cn, cache, proof>>

(* ---------------------------------- next-state ---------------------------------- *)

SignNonces == {ANonce} \cup (IF cli.chS # 0 THEN {cli.chS} ELSE {}) \cup (IF Rich THEN ChalNonces ELSE {})

ServerMint == \E pl \in MintPlaces :
                 \/ Challenge(pl[1], pl[2])
                 \/ \E c \in SignNonces, pk \in {"kC", "kA"} : SignChallenge(pl[1], pl[2], c, pk)

AttackServer ==
  \/ \E s \in Verifiers, h \in Hosts, o \in ops :
       \E x \in Tries(s, h, o) :
          \/ Verify(s, h, o, x[1], x[2], x[3])
          \/ \E f \in VerifyAlts(o) : VerifyAlt(s, h, o, x[1], x[2], x[3], f)
  \/ \E s \in Verifiers, h \in Hosts, o \in ops :
          \/ Bearer(s, h, o)
          \/ \E f \in OpaqueAlts : BearerAlt(s, h, o, f)
          \* mixed-state headers: every blob in the bearer slot next to the parameters of the other states,
          \* and the best verify request for every blob next to every token in the bearer slot
          \/ Mixed /\ \E m \in BearerMixes : BearerM(s, h, o, m)
          \/ Mixed /\ \E x \in BestTries(s, h, o), b \in {t \in ops : t.tok} : VerifyB(s, h, o, x[1], x[2], x[3], b)

Client == \/ \E h \in CliHosts, m \in {"ci", "si", "tok"} : CStart(h, m)
          \/ \E st \in {"200", "403", "500"} : CTokOther(st)
          \/ \E c \in ChalsForC, pk \in PubsForC, g \in SigsForC :
               \/ CWww(c, pk, g)
               \/ \E f \in CAlts : CWwwAlt(c, pk, g, f)
          \/ \E g \in SigsForC : \/ CInfo(g)
                                 \/ \E f \in CAlts : CInfoAlt(g, f)

Next == Tick \/ ServerMint \/ AttackServer \/ Client
Spec == Init /\ [][Next]_vars

Bound == NTok <= MaxTok

-----------------------------------------------------------------------------------
(* Properties *)

TypeOK == /\ now \in 0..MaxT /\ ncli \in 0..MaxCli /\ cn \in Nat
          /\ \A o \in ops : o.mac \in Servers /\ o.t <= now /\ o.host \in Hosts
          /\ cli.st \in {"idle", "vas", "sc", "vc", "wfb", "done", "tok", "tdone"}
          /\ (~Explicit => sigs = {})

\* Who has produced signature g.  A signs anything with its own key.  Explicit: an honest agent
\* made it in this behaviour.  ~Explicit: it is one of the signatures honest agents make on demand
\* (C: any "cli" payload for the hostname it talks to; a server: any "srv" payload).
Signed(g) == \/ g.key = "kA"
             \/ Explicit /\ g \in sigs
             \/ ~Explicit /\ g.key = "kC" /\ g.kind = "cli" /\ g.host = CHost /\ g.ch # 0
             \/ ~Explicit /\ g.key \in SrvKeys /\ g.kind = "srv"

(* The clauses about a single request are action properties over the step that handles it (the     *)
(* request and its outcome are in op', which is not part of the state identity, so a state invariant *)
(* would not be evaluated for the many requests that leave the state unchanged).  P(r, O, t): r the   *)
(* op record of the step, O the blobs in existence after it, t the time.                              *)

(* ServerReports: server s reports peer p for a request to hostname h only if p's key signed one of *)
(* s's own unexpired challenges together with s's public key and h (and, if the challenge was        *)
(* minted for a client key, that key is p) ...                                                       *)
ServerReportsP(r, O, t) ==
  (r.name = "verify" /\ r.res = "ok") =>
     \E o \in O : /\ o.mac = r.srv /\ ~o.tok /\ t <= o.t + ChalTTL /\ o.host = r.host
                  /\ (o.cpk # None => o.cpk = r.peer)
                  /\ Signed(Sg(r.peer, "cli", o.ch, SrvKey(r.srv), r.host))
(* ... or s issued an unexpired token for p *)
BearerReportsP(r, O, t) ==
  (r.name = "bearer" /\ r.res = "ok") =>
     \E o \in O : /\ o.mac = r.srv /\ o.tok /\ o.pid = r.peer /\ t <= o.t + TokTTL
                  \* ... and its age counts from the proof it stems from (no re-dating without a proof)
                  /\ \E q \in proof : q.tok = o /\ t <= q.at + TokTTL

(* Integrity: whatever is accepted was produced under the verifier's own secret, unaltered, of the  *)
(* right kind and unexpired; nothing altered, foreign or of the wrong kind passes.                   *)
IntegrityP(r, O, t) ==
  /\ (r.name \in {"verify", "bearer"} /\ r.res = "ok") =>
        /\ r.alt = None /\ r.o \in O /\ r.o.mac = r.srv
        /\ r.o.tok = (r.name = "bearer")
        /\ t <= r.o.t + (IF r.name = "bearer" THEN TokTTL ELSE ChalTTL)
  /\ (r.name \in {"verify", "bearer"} /\ r.alt # None) => r.res # "ok"

ServerReports == [][ServerReportsP(op', ops', now')]_vars
BearerReports == [][BearerReportsP(op', ops', now')]_vars
Integrity == [][IntegrityP(op', ops', now')]_vars

(* every token in existence was issued to a peer that proved itself to that server for that host *)
TokensProven ==
  \A k \in ops : k.tok =>
     \E o \in ops : /\ o.mac = k.mac /\ ~o.tok /\ o.host = k.host /\ o.t <= k.t /\ k.t <= o.t + ChalTTL
                    /\ Signed(Sg(k.pid, "cli", o.ch, SrvKey(k.mac), k.host))

(* ClientReports: C reports server key q (PeerID() succeeds in states wfb / done) only if q's key   *)
(* signed C's own current challenge, C's public key and the hostname C is talking to.                *)
ClientReports ==
  cli.st \in {"wfb", "done"} => /\ cli.spk # None /\ cli.chS # 0
                               /\ Signed(Sg(cli.spk, "srv", cli.chS, "kC", cli.host))
ClientOpReportsP(r, c) ==
  (r.name \in {"cwww", "cinfo"} /\ r.reports # None) =>
      /\ r.reports = c.spk /\ c.st \in {"wfb", "done"}
      /\ Signed(Sg(r.reports, "srv", c.chS, "kC", c.host))
ClientOpReports == [][ClientOpReportsP(op', cli')]_vars

(* every token in existence is dated with the instant of the verified signature it was issued for *)
TokensDated == \A o \in ops : o.tok => \E q \in proof : q.tok = o /\ q.at = o.t

(* Token cache: what C remembers for a hostname was proven for exactly that hostname, and a peer    *)
(* reported on the strength of the cache is the one remembered for exactly the request's hostname.    *)
CacheProven == \A e \in cache : Signed(Sg(e.spk, "srv", e.chS, "kC", e.host))
TokReportsP(r, C) ==
  /\ (r.name = "ctok") => \E e \in C : e.host = r.host /\ e.spk = r.reports
  /\ (r.name = "cstart" /\ r.mode = "tok") => r.tokhost = r.host     \* a token goes only to the hostname it was issued for
TokReports == [][TokReportsP(op', cache)]_vars

(* honest agents only sign their own kind (no reflection): servers "srv", C "cli" *)
KindsSeparate == \A g \in sigs : (g.key \in SrvKeys => g.kind = "srv") /\ (g.key = "kC" => g.kind = "cli")

(* vacuity guards (each expected to be violated in a suitable instance) *)
ReachServerReportsC == [][~(op'.name = "verify" /\ op'.res = "ok" /\ op'.peer = "kC")]_vars
ReachBearerC == [][~(op'.name = "bearer" /\ op'.res = "ok" /\ op'.peer = "kC")]_vars
ReachExpiredTok == [][~(op'.name = "bearer" /\ op'.res = "expired")]_vars
ReachExpiredChal == [][~(op'.name = "verify" /\ op'.res = "expired")]_vars
ReachClientDoneS == ~(cli.st = "done" /\ cli.spk = "kS")
ReachTokReport == ~(cli.st = "tdone")
=============================================================================
