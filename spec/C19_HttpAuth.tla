------------------------------ MODULE C19_HttpAuth ------------------------------
(***************************************************************************************************)
(* HTTP Peer-ID authentication (p2p/http/auth/internal/handshake/{server,client,handshake}.go and   *)
(* p2p/http/auth/{server,client}.go) as a symbolic (Dolev-Yao style) model of the header protocol.  *)
(*                                                                                                 *)
(* Agents.  Servers "S" and "S2" (each its own HMAC secret; identity keys kS and kS2, or the same   *)
(* key kS when S2SameKey - a restarted server with a new secret), hostnames h1, h2; one honest      *)
(* client C (key kC) running the real client state machine, one session at a time; the attacker A   *)
(* (key kA) IS the network: every header travels through it, it knows every term ever sent, it can   *)
(* drop, replay and recombine parameters between sessions, hostnames, clients and servers, alter     *)
(* any field of any term, and sign whatever it wants - with its own key only.                        *)
(*                                                                                                 *)
(* Terms.                                                                                           *)
(*   opaque  [mac, tok, cpk, pid, ch, host, t]  = Mac(secret mac, opaqueState{IsToken, ClientPublic- *)
(*            Key, PeerID, ChallengeClient, Hostname, CreatedTime}); mac = "X" is a MAC that no       *)
(*            server secret produced (what every alteration of a MAC'd blob results in)              *)
(*   sig     [key, kind, ch, pub, host]   kind "cli" = Sig(key, {challenge-client, server-public-key,*)
(*            hostname}), kind "srv" = Sig(key, {challenge-server, client-public-key, hostname});    *)
(*            the two kinds have different parameter names, so one never verifies as the other       *)
(*   nonces  1,2,... (fresh challenges of servers and of C), ANonce (a challenge chosen by A),       *)
(*            0 = absent/empty                                                                       *)
(* Servers are stateless (the code keeps all state in the opaque blob), so the system state is the   *)
(* set of terms in existence (= attacker knowledge), the clock and the honest client's session.      *)
(*                                                                                                 *)
(* One action per call of PeerIDAuthHandshakeServer.Run / PeerIDAuthHandshakeClient.Run; the checks  *)
(* inside an action are in the order of the code, so the rejection reason is the code's.             *)
(***************************************************************************************************)
EXTENDS Naturals, FiniteSets, TLC

CONSTANTS MaxT,        \* clock runs 0..MaxT
          ChalTTL,     \* challengeTTL (code: 5 min) in model ticks
          TokTTL,      \* TokenTTL in model ticks
          MaxMint,     \* challenge opaques the servers mint in a behaviour (the "sessions")
          MaxTok,      \* distinct bearer tokens issued (state constraint)
          MaxCli,      \* honest client sessions
          S2SameKey,   \* S2 has the identity key of S (restart with a new secret) or its own
          Verifiers,   \* servers that verify in the bounded model (S2 may be mint-only)
          Rich         \* richer attacker menus (reflection of server nonces, more wrong signatures)

None == "none"
Servers == {"S", "S2"}
Hosts == {"h1", "h2"}
OtherHost(h) == IF h = "h1" THEN "h2" ELSE "h1"
SrvKey(s) == IF s = "S" \/ S2SameKey THEN "kS" ELSE "kS2"
SrvKeys == {SrvKey(s) : s \in Servers}
ANonce == 99

VARIABLES now,    \* clock
          nn,     \* next fresh nonce
          ops,    \* opaque blobs minted by the servers (challenges and tokens); all known to A
          sigs,   \* signatures made by honest agents (servers, C); all known to A
          cli,    \* honest client session [st, host, chS, spk]
          ncli,   \* sessions started
          op      \* output only: last action, arguments, expected observable result

vars == <<now, nn, ops, sigs, cli, ncli, op>>
View == <<now, nn, ops, sigs, cli, ncli>>

Chal(s, h, c, pk, t) == [mac |-> s, tok |-> FALSE, cpk |-> pk, pid |-> None, ch |-> c, host |-> h, t |-> t]
Tok(s, h, p, t) == [mac |-> s, tok |-> TRUE, cpk |-> None, pid |-> p, ch |-> 0, host |-> h, t |-> t]
Sg(k, kind, c, pub, h) == [key |-> k, kind |-> kind, ch |-> c, pub |-> pub, host |-> h]
Bad == [key |-> "bad", kind |-> "bad", ch |-> 0, pub |-> None, host |-> None]   \* bytes that are no signature of anything
NoSig == [key |-> None, kind |-> None, ch |-> 0, pub |-> None, host |-> None]   \* parameter absent

Nonces == (1 .. (nn - 1)) \cup {ANonce}
NMint == Cardinality({o \in ops : ~o.tok})
NTok == Cardinality({o \in ops : o.tok})

Init == /\ now = 0 /\ nn = 1 /\ ops = {} /\ sigs = {} /\ ncli = 0
        /\ cli = [st |-> "idle", host |-> "h1", chS |-> 0, spk |-> None]
        /\ op = [name |-> "init"]

Tick == /\ now < MaxT /\ now' = now + 1
        /\ UNCHANGED <<nn, ops, sigs, cli, ncli>>
        /\ op' = [name |-> "tick"]

(* ---------------------------------- server ---------------------------------- *)

(* empty Authorization header: state ChallengeClient (server-initiated flow) *)
Challenge(s, h) ==
  /\ NMint < MaxMint
  /\ LET o == Chal(s, h, nn, None, now) IN
     /\ ops' = ops \cup {o}
     /\ op' = [name |-> "challenge", srv |-> s, host |-> h, o |-> o]
  /\ nn' = nn + 1
  /\ UNCHANGED <<now, sigs, cli, ncli>>

(* challenge-server + public-key: state SignChallenge (client-initiated flow).  The server signs    *)
(* whatever challenge and public key it is handed, and binds the public key into the opaque.        *)
SignChallenge(s, h, c, pk) ==
  /\ NMint < MaxMint
  /\ LET o == Chal(s, h, nn, pk, now)
         g == Sg(SrvKey(s), "srv", c, pk, h) IN
     /\ ops' = ops \cup {o}
     /\ sigs' = sigs \cup {g}
     /\ op' = [name |-> "sign", srv |-> s, host |-> h, c |-> c, pk |-> pk, o |-> o, sig |-> g]
  /\ nn' = nn + 1
  /\ UNCHANGED <<now, cli, ncli>>

(* sig + opaque: state VerifyChallenge.  o is the blob as the server sees it (mac "X" if altered),  *)
(* g the presented signature, pk the public-key parameter (None = absent, "bad" = undecodable),      *)
(* c the challenge-server parameter (0 = absent).                                                    *)
VKey(o, pk) == IF o.cpk # None THEN o.cpk ELSE pk
VerifyRes(s, h, o, g, pk, c) ==
  IF o.mac # s THEN "hmac"
  ELSE IF now > o.t + ChalTTL THEN "expired"
  ELSE IF o.tok THEN "kind"
  ELSE IF o.host # h THEN "host"
  ELSE IF VKey(o, pk) = None THEN "nokey"
  ELSE IF VKey(o, pk) = "bad" THEN "badkey"
  ELSE IF g # Sg(VKey(o, pk), "cli", o.ch, SrvKey(s), h) THEN "sig"
  ELSE IF o.cpk = None /\ c = 0 THEN "nochs"
  ELSE "ok"

VerifyEffect(s, h, o, g, pk, c, res) ==
  IF res = "ok"
  THEN /\ ops' = ops \cup {Tok(s, h, VKey(o, pk), now)}
       /\ sigs' = IF o.cpk = None THEN sigs \cup {Sg(SrvKey(s), "srv", c, pk, h)} ELSE sigs
  ELSE UNCHANGED <<ops, sigs>>

\* signatures A can present to server s for hostname h and challenge c: every honest signature it
\* has seen (any kind: swaps between sessions, hosts, clients, servers, reflection) and its own
AttCliSigs(s, h, c) ==
  {Sg("kA", "cli", c, SrvKey(s), h),                \* the right one, by A
   Sg("kA", "cli", c, SrvKey(s), OtherHost(h)),     \* A signs for the other hostname
   Sg("kA", "cli", c, "kA", h)}                     \* A signs for another server key
  \cup (IF Rich THEN {Sg("kA", "cli", ANonce, SrvKey(s), h), Sg("kA", "srv", c, SrvKey(s), h)} ELSE {})

PkMenu(o) == IF o.cpk = None THEN {"kC", "kA", None} \cup (IF Rich THEN {"kS"} ELSE {})
             ELSE {None} \cup (IF Rich THEN {"kA"} ELSE {})
CsMenu(s, o) == IF o.mac = s /\ ~o.tok /\ o.cpk = None
                THEN {0, ANonce} \cup (IF cli.chS # 0 THEN {cli.chS} ELSE {}) ELSE {0}

Verify(s, h, o, g, pk, c) ==
  LET res == VerifyRes(s, h, o, g, pk, c) IN
  /\ VerifyEffect(s, h, o, g, pk, c, res)
  /\ op' = [name |-> "verify", srv |-> s, host |-> h, o |-> o, sig |-> g, pk |-> pk, c |-> c, alt |-> None,
            res |-> res, peer |-> IF res = "ok" THEN VKey(o, pk) ELSE None]
  /\ UNCHANGED <<now, nn, cli, ncli>>

(* single alteration of a request that would be accepted: field f of the opaque / the signature /  *)
(* the public key is changed (the harness runs each over every byte).  Any change of the blob makes  *)
(* its MAC one that no secret produced; an altered signature verifies under nothing; an altered      *)
(* public key is another key or no key.                                                              *)
OpaqueAlts == {"o.mac", "o.tok", "o.cpk", "o.pid", "o.ch", "o.host", "o.t", "o.trunc", "o.ext"}
VerifyAlts(o) == OpaqueAlts \cup {"sig", "sig.trunc", "sig.ext"} \cup (IF o.cpk = None THEN {"pk"} ELSE {})
VerifyAlt(s, h, o, g, pk, c, f) ==
  /\ VerifyRes(s, h, o, g, pk, c) = "ok"
  /\ op' = [name |-> "verify", srv |-> s, host |-> h, o |-> o, sig |-> g, pk |-> pk, c |-> c, alt |-> f,
            res |-> IF f \in OpaqueAlts THEN "hmac" ELSE IF f = "pk" THEN "badkey" ELSE "sig", peer |-> None]
  /\ UNCHANGED <<now, nn, ops, sigs, cli, ncli>>

(* bearer: state VerifyBearer.  The hostname is not compared on this path (as in the code). *)
BearerRes(s, o) ==
  IF o.mac # s THEN "hmac"
  ELSE IF ~o.tok THEN "kind"
  ELSE IF now > o.t + TokTTL THEN "expired"
  ELSE "ok"

Bearer(s, h, o) ==
  LET res == BearerRes(s, o) IN
  /\ op' = [name |-> "bearer", srv |-> s, host |-> h, o |-> o, alt |-> None, res |-> res,
            peer |-> IF res = "ok" THEN o.pid ELSE None]
  /\ UNCHANGED <<now, nn, ops, sigs, cli, ncli>>

BearerAlt(s, h, o, f) ==
  /\ BearerRes(s, o) = "ok"
  /\ op' = [name |-> "bearer", srv |-> s, host |-> h, o |-> o, alt |-> f, res |-> "hmac", peer |-> None]
  /\ UNCHANGED <<now, nn, ops, sigs, cli, ncli>>

(* ------------------------------- honest client C ------------------------------- *)

(* a new AuthenticatedDo: client-initiated ("ci": no token for the hostname) or server-initiated   *)
(* ("si": the token was rejected with 401, the client answers the server's challenge)               *)
CStart(h, mode) ==
  /\ ncli < MaxCli
  /\ ncli' = ncli + 1
  /\ IF mode = "ci"
     THEN /\ cli' = [st |-> "vas", host |-> h, chS |-> nn, spk |-> None]
          /\ nn' = nn + 1
     ELSE /\ cli' = [st |-> "sc", host |-> h, chS |-> 0, spk |-> None]
          /\ nn' = nn
  /\ op' = [name |-> "cstart", host |-> h, mode |-> mode, chS |-> cli'.chS]
  /\ UNCHANGED <<now, ops, sigs>>

\* "srv" signatures A can present to C
AttSrvSigs ==
  {Sg("kA", "srv", cli.chS, "kC", cli.host),
   Sg("kA", "srv", cli.chS, "kC", OtherHost(cli.host)),
   Sg("kA", "srv", cli.chS, "kA", cli.host)}
  \cup (IF Rich THEN {Sg("kA", "srv", ANonce, "kC", cli.host), Sg("kA", "cli", cli.chS, "kC", cli.host)} ELSE {})
SigsForC == sigs \cup AttSrvSigs \cup {NoSig, Bad}
PubsForC == SrvKeys \cup {"kA", None}
ChalsForC == IF Rich THEN Nonces \cup {0} ELSE {0, ANonce} \cup {o.ch : o \in {x \in ops : ~x.tok}}

(* WWW-Authenticate received in state VerifyAndSignChallenge ("vas") or SignChallenge ("sc").      *)
(* ParseHeader keeps the FIRST server public key it ever saw (spk is sticky), its error is ignored   *)
(* by the caller (auth/client.go), Run decides.                                                      *)
CWww(c, pk, g) ==
  /\ cli.st \in {"vas", "sc"}
  /\ LET spk1 == IF cli.spk = None /\ pk # None THEN pk ELSE cli.spk
         fallback == cli.st = "sc" \/ (g = NoSig /\ c # 0)
         mine == Sg("kC", "cli", c, spk1, cli.host)
     IN
     IF fallback
     THEN IF c = 0 \/ spk1 = None
          THEN /\ cli' = [cli EXCEPT !.spk = spk1, !.st = IF c = 0 THEN cli.st ELSE "sc"]
               /\ UNCHANGED <<nn, sigs>>
               /\ op' = [name |-> "cwww", c |-> c, pk |-> pk, sig |-> g, alt |-> None, res |-> "err", reports |-> None,
                         signed |-> NoSig]
          ELSE /\ cli' = [st |-> "vc", host |-> cli.host, chS |-> nn, spk |-> spk1]
               /\ nn' = nn + 1
               /\ sigs' = sigs \cup {mine}
               /\ op' = [name |-> "cwww", c |-> c, pk |-> pk, sig |-> g, alt |-> None, res |-> "signed", reports |-> None,
                         signed |-> mine]
     ELSE IF g # NoSig /\ spk1 # None /\ g = Sg(spk1, "srv", cli.chS, "kC", cli.host)
          THEN /\ cli' = [cli EXCEPT !.spk = spk1, !.st = "wfb"]
               /\ sigs' = sigs \cup {mine}
               /\ UNCHANGED nn
               /\ op' = [name |-> "cwww", c |-> c, pk |-> pk, sig |-> g, alt |-> None, res |-> "verified", reports |-> spk1,
                         signed |-> mine]
          ELSE /\ cli' = [cli EXCEPT !.spk = spk1]
               /\ UNCHANGED <<nn, sigs>>
               /\ op' = [name |-> "cwww", c |-> c, pk |-> pk, sig |-> g, alt |-> None, res |-> "err", reports |-> None,
                         signed |-> NoSig]
  /\ UNCHANGED <<now, ops, ncli>>

(* Authentication-Info received in state VerifyChallenge ("vc") or WaitingForBearer ("wfb") *)
CInfo(g) ==
  /\ cli.st \in {"vc", "wfb"}
  /\ IF cli.st = "wfb" \/ g = Sg(cli.spk, "srv", cli.chS, "kC", cli.host)
     THEN /\ cli' = [cli EXCEPT !.st = "done"]
          /\ op' = [name |-> "cinfo", sig |-> g, alt |-> None, res |-> "done", reports |-> cli.spk]
     ELSE /\ cli' = cli
          /\ op' = [name |-> "cinfo", sig |-> g, alt |-> None, res |-> "err", reports |-> None]
  /\ UNCHANGED <<now, nn, ops, sigs, ncli>>

(* single alteration of a server answer C would accept: the signature or the server public key *)
CAlts == {"sig", "sig.trunc", "sig.ext", "pk"}
CWwwAlt(c, pk, g, f) ==
  /\ cli.st = "vas" /\ cli.spk = None /\ pk # None
  /\ g = Sg(pk, "srv", cli.chS, "kC", cli.host)
  /\ g \in SigsForC
  /\ op' = [name |-> "cwww", c |-> c, pk |-> pk, sig |-> g, alt |-> f, res |-> "err", reports |-> None, signed |-> NoSig]
  /\ UNCHANGED <<now, nn, ops, sigs, cli, ncli>>   \* (an undecodable key is not remembered; a wrong signature changes nothing)
CInfoAlt(g, f) ==
  /\ cli.st = "vc" /\ f # "pk"
  /\ g = Sg(cli.spk, "srv", cli.chS, "kC", cli.host)
  /\ g \in SigsForC
  /\ op' = [name |-> "cinfo", sig |-> g, alt |-> f, res |-> "err", reports |-> None]
  /\ UNCHANGED <<now, nn, ops, sigs, cli, ncli>>

(* ---------------------------------- next-state ---------------------------------- *)

SignNonces == IF Rich THEN Nonces ELSE {ANonce} \cup (IF cli.chS # 0 THEN {cli.chS} ELSE {})

ServerMint == \/ \E s \in Servers, h \in Hosts : Challenge(s, h)
              \/ \E s \in Servers, h \in Hosts, c \in SignNonces, pk \in {"kC", "kA"} : SignChallenge(s, h, c, pk)

AttackServer ==
  \/ \E s \in Verifiers, h \in Hosts, o \in ops :
       \E g \in sigs \cup AttCliSigs(s, h, o.ch), pk \in PkMenu(o), c \in CsMenu(s, o) :
          \/ Verify(s, h, o, g, pk, c)
          \/ \E f \in VerifyAlts(o) : VerifyAlt(s, h, o, g, pk, c, f)
  \/ \E s \in Verifiers, h \in Hosts, o \in ops :
          \/ Bearer(s, h, o)
          \/ \E f \in OpaqueAlts : BearerAlt(s, h, o, f)

Client == \/ \E h \in Hosts, m \in {"ci", "si"} : CStart(h, m)
          \/ \E c \in ChalsForC, pk \in PubsForC, g \in SigsForC :
               \/ CWww(c, pk, g)
               \/ \E f \in CAlts : CWwwAlt(c, pk, g, f)
          \/ \E g \in SigsForC : \/ CInfo(g)
                                 \/ \E f \in CAlts : CInfoAlt(g, f)

Next == Tick \/ ServerMint \/ AttackServer \/ Client
Spec == Init /\ [][Next]_vars

Bound == NTok <= MaxTok

-----------------------------------------------------------------------------------
(* Properties *)

TypeOK == /\ now \in 0..MaxT /\ nn \in Nat /\ ncli \in 0..MaxCli
          /\ \A o \in ops : o.mac \in Servers /\ o.t <= now /\ o.host \in Hosts
          /\ cli.st \in {"idle", "vas", "sc", "vc", "wfb", "done"}

\* who can have produced signature g: an honest agent did (it is in sigs), or it is A's own key
Signed(g) == g \in sigs \/ g.key = "kA"

(* ServerReports: server s reports peer p for a request to hostname h only if p's key signed one of *)
(* s's own unexpired challenges together with s's public key and h, or s issued an unexpired token   *)
(* for p.                                                                                            *)
ServerReports ==
  (op.name = "verify" /\ op.res = "ok") =>
     \E o \in ops : /\ o.mac = op.srv /\ ~o.tok /\ now <= o.t + ChalTTL /\ o.host = op.host
                    /\ (o.cpk # None => o.cpk = op.peer)
                    /\ Signed(Sg(op.peer, "cli", o.ch, SrvKey(op.srv), op.host))
BearerReports ==
  (op.name = "bearer" /\ op.res = "ok") =>
     \E o \in ops : o.mac = op.srv /\ o.tok /\ o.pid = op.peer /\ now <= o.t + TokTTL

(* every token in existence was issued to a peer that proved itself to that server for that host *)
TokensProven ==
  \A k \in ops : k.tok =>
     \E o \in ops : /\ o.mac = k.mac /\ ~o.tok /\ o.host = k.host /\ o.t <= k.t /\ k.t <= o.t + ChalTTL
                    /\ Signed(Sg(k.pid, "cli", o.ch, SrvKey(k.mac), k.host))

(* Integrity: whatever is accepted was produced under the verifier's own secret, unaltered, of the  *)
(* right kind and unexpired; in particular nothing altered, foreign or of the wrong kind passes.     *)
Integrity ==
  /\ (op.name \in {"verify", "bearer"} /\ op.res = "ok") =>
        /\ op.alt = None /\ op.o \in ops /\ op.o.mac = op.srv
        /\ op.o.tok = (op.name = "bearer")
        /\ now <= op.o.t + (IF op.name = "bearer" THEN TokTTL ELSE ChalTTL)
  /\ (op.name \in {"verify", "bearer"} /\ op.alt # None) => op.res # "ok"

(* ClientReports: C reports server key q (PeerID() succeeds in states wfb / done) only if q's key   *)
(* signed C's own current challenge, C's public key and the hostname C is talking to.                *)
ClientReports ==
  cli.st \in {"wfb", "done"} => /\ cli.spk # None
                               /\ Signed(Sg(cli.spk, "srv", cli.chS, "kC", cli.host))
ClientOpReports ==
  (op.name \in {"cwww", "cinfo"} /\ op.reports # None) =>
      op.reports = cli.spk /\ cli.st \in {"wfb", "done"}

(* honest agents only sign their own kind (no reflection): servers "srv", C "cli" *)
KindsSeparate == \A g \in sigs : (g.key \in SrvKeys => g.kind = "srv") /\ (g.key = "kC" => g.kind = "cli")

(* vacuity guards (expected to be violated) *)
ReachServerReportsC == ~(op.name = "verify" /\ op.res = "ok" /\ op.peer = "kC")
ReachBearerC == ~(op.name = "bearer" /\ op.res = "ok" /\ op.peer = "kC")
ReachClientDoneS == ~(cli.st = "done" /\ cli.spk = "kS")
ReachExpired == ~(op.name \in {"verify", "bearer"} /\ op.res = "expired")
=============================================================================
