------------------------------ MODULE C09pm_MC ------------------------------
EXTENDS C09pm_PstoreManager, Json
\* JSON-able projection of the state for the replay (ghosts left out: one node per implementation state)
St == [time |-> time, net |-> net, data |-> data, addr |-> addr, pc |-> pc, sub |-> sub,
       q |-> [i \in 1..Len(queue) |-> [p |-> queue[i].p, k |-> queue[i].k]],
       stalled |-> (stalled # None), stalledEv |-> [p |-> stalled.p, k |-> stalled.k],
       disc |-> disc, tickAt |-> tickAt, tickPending |-> tickPending, now |-> now, todo |-> todo,
       cur |-> cur, reply |-> reply, cancelled |-> cancelled, ncall |-> ncall, nwait |-> nwait, nemit |-> nemit]
EmitEdge == PrintT(<<"VFEDGE", ToJson([s |-> St, op |-> op', t |-> St'])>>)
EmitPrio == Prio /\ EmitEdge
MCInit == Init /\ PrintT(<<"VFINIT", ToJson(St)>>)
=============================================================================
