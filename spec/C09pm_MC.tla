------------------------------ MODULE C09pm_MC ------------------------------
EXTENDS C09pm_PstoreManager, Json
\* JSON-able projection of the state for the replay (ghosts left out: one node per implementation state)
St == [time |-> time, net |-> net, data |-> data, addr |-> addr, pc |-> pc, sub |-> sub,
       q |-> [i \in 1..Len(queue) |-> [p |-> queue[i].p, k |-> queue[i].k]],
       stalled |-> (stalled # None), disc |-> disc, tickPending |-> tickPending, todo |-> todo,
       cur |-> IF pc = "asked" THEN cur ELSE "-", cancelled |-> cancelled, ncall |-> ncall,
       nwait |-> nwait]
EmitEdge == PrintT(<<"VFEDGE", ToJson([s |-> St, op |-> op', t |-> St'])>>)
EmitPrio == Prio /\ EmitEdge
MCInit == Init /\ PrintT(<<"VFINIT", ToJson(St)>>)
=============================================================================
