------------------------------ MODULE C02_MC ------------------------------
EXTENDS C02_Channel, Json
\* JSON-able projection of the VIEW'd state (compact: every printed edge carries two of them):
\* << nsent, wnonce, rnonce, wire as <<nonce, plaintext length, st>>, closed, qlive, Len(qbuf), qseek,
\*    broken, Len(delivered), rdErr, under, nfault, errPos, stopPos, rg, wg, loose, nglitch, wdead, wr >>
St == << nsent, wnonce, rnonce, [i \in 1..Len(wire) |-> <<wire[i].n, Len(wire[i].pt), wire[i].st>>], closed,
         qlive, Len(qbuf), qseek, broken, Len(delivered), rdErr, under, nfault, errPos, stopPos, rg, wg, loose, nglitch,
         wdead, wr >>
EmitEdge == PrintT(<<"VFEDGE", ToJson([s |-> St, op |-> op', t |-> St'])>>)
Conf == [tag |-> Tag, maxpt |-> MaxPT, maxsent |-> MaxSent, maxwrite |-> MaxWrite, bufs |-> Bufs,
         shorts |-> Shorts, faults |-> Faults, maxfaults |-> MaxFaults, others |-> Others, glitches |-> Glitches]
MCInit == Init /\ PrintT(<<"VFINIT", ToJson(St)>>) /\ PrintT(<<"VFCONF", ToJson(Conf)>>)
AllFaults == {"flip", "fliplen", "drop", "dup", "swap", "cut", "cuteof", "trunc"}
=============================================================================
