------------------------------- MODULE C11cl_MC -------------------------------
(* Bounded instances of C11cl_Client for TLC; checks/C11cl.py instantiates the cfg template C11cl_MC.cfg. *)
EXTENDS C11cl_Client, Json

\* as the code is (CloseOnce = FALSE) every further Close of a closed Conn lowers the count by one more: bound it
HopBound == \A r \in Relays : hop[r] >= -2

\* compact positional projection (printing is the bottleneck of the replay runs):
\* [dial as slot -> <<st, r, d, t, lim>>, act, inc as slot -> <<st, r, lim, t, wf>>, inq, accq, closed, hop, tag,
\*  <<co, so, si, mem>>]
StOf(dl, ac, ic, iq, aq, cl, hp, tg, rs) ==
  <<[i \in DSlots |-> <<dl[i].st, dl[i].r, dl[i].d, dl[i].t, dl[i].lim>>], ac,
    [j \in ISlots |-> <<ic[j].st, ic[j].r, ic[j].lim, ic[j].t, ic[j].wf>>], iq, aq, cl, hp, tg,
    <<rs.co, rs.so, rs.si, rs.mem>>>>
St == StOf(dial, act, inc, inq, accq, closed, hop, tag, res)
StN == StOf(dial', act', inc', inq', accq', closed', hop', tag', res')
EmitEdge == PrintT(<<"VFEDGE", ToJson([s |-> St, op |-> op', t |-> StN])>>)
MCInit == Init /\ PrintT(<<"VFINIT", ToJson(St)>>)
=============================================================================
