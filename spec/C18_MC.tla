------------------------------ MODULE C18_MC ------------------------------
EXTENDS C18_CertManager, Json

CONSTANTS StartLo,   \* first start instant offered (>= V + K: see the assumption on instants near the epoch)
          RelPts     \* replay instance: positions relative to the bucket grid at which the clock is sampled

\* ---- exhaustive instances: every offset, every integer instant --------------------------------
MCOffsetsAll == 0..(V - 1)
MCStartsAll(o) == StartLo..(StartLo + 2 * V)
MCDeltasAll(o, t) == 1..(2 * W + K + 1)         \* up to two timer instants passed by one Advance
MCRDeltasAll(o, t) == 0..(2 * W + K + 1)

\* ---- replay instance (real proportions, VU = 336): instants around the boundaries ---------------
Pos(o, t) == (t - o) % W
MCStartsRel(o) == {t \in StartLo..(StartLo + W - 1) : Pos(o, t) \in RelPts}
MCDeltasRel(o, t) == {d \in 1..(2 * W + 2 * K) : Pos(o, t + d) \in RelPts}
MCRDeltasRel(o, t) == {0} \cup {d \in 1..(2 * W + 2 * K) : Pos(o, t + d) \in RelPts /\ Pos(o, t + d) % K = Pos(o, t) % K}

\* JSON-able projection of the VIEW'd state (op carries the expected observables)
St == [off |-> off, now |-> now, last |-> m.last, cur |-> m.cur, next |-> m.next, timer |-> m.timer]
EmitEdge == PrintT(<<"VFEDGE", ToJson([s |-> St, op |-> op', t |-> St'])>>)
Conf == [K |-> K, VU |-> VU, V |-> V, W |-> W, offsets |-> Offsets, maxt |-> MaxT, startlo |-> StartLo]
MCInit == Init /\ PrintT(<<"VFINIT", ToJson(St)>>) /\ PrintT(<<"VFCONF", ToJson(Conf)>>)
=============================================================================
