------------------------------ MODULE C17_MC ------------------------------
EXTENDS C17_ObservedAddrs, Json
CONSTANT Inst    \* which bounded universe (cfg template: Inst = "groups")

AllSpecials == {"loop", "nat64", "relay", "wrongtr"}

\* groups: one listen address, five connections from three observer groups (two endpoints of g1 and
\*         of g2 stand for "same IPv4, other port" / "two IPv6 in one /56"), two observed addresses.
\* transports: a TCP and a UDP listen address (the UDP one is shared by QUIC and WebTransport in the
\*         harness), the same groups observing on both, and two connections that did not arrive at a
\*         listen address ("off").
\* top3:   one listen address, four observed addresses, five connections of five groups: reaches
\*         more than MaxTop eligible addresses with unequal counts.
\* race:   three connections (two of one group) for C17_Race.tla (Check/Record split, close interleaving).
\* async:  two connections for C17_Async.tla (identify events through the bounded worker queue).
\* listen: a TCP and a UDP listen address that can go away and come back (C17_Listen.tla), two groups on each,
\*         one connection that never arrived at a listen address.
\* groups6: seven connections of five groups, three observed addresses; exhaustive check only.
Table == [
  groups |-> [locals |-> {"tcp"}, addrs |-> <<"a1", "a2">>, specials |-> AllSpecials,
     localOf  |-> [c1 |-> "tcp", c2 |-> "tcp", c3 |-> "tcp", c4 |-> "tcp", c5 |-> "tcp"],
     remoteOf |-> [c1 |-> "r1", c2 |-> "r2", c3 |-> "r3", c4 |-> "r4", c5 |-> "r5"],
     groupOf  |-> [r1 |-> "g1", r2 |-> "g1", r3 |-> "g2", r4 |-> "g2", r5 |-> "g3"]],
  transports |-> [locals |-> {"tcp", "udp"}, addrs |-> <<"a1", "a2">>, specials |-> AllSpecials,
     localOf  |-> [c1 |-> "tcp", c2 |-> "tcp", c3 |-> "udp", c4 |-> "udp", c5 |-> "off", c6 |-> "off"],
     remoteOf |-> [c1 |-> "r1", c2 |-> "r2", c3 |-> "r3", c4 |-> "r4", c5 |-> "r5", c6 |-> "r6"],
     groupOf  |-> [r1 |-> "g1", r2 |-> "g2", r3 |-> "g1", r4 |-> "g2", r5 |-> "g3", r6 |-> "g1"]],
  top3 |-> [locals |-> {"udp"}, addrs |-> <<"a1", "a2", "a3", "a4">>, specials |-> {"relay"},
     localOf  |-> [c1 |-> "udp", c2 |-> "udp", c3 |-> "udp", c4 |-> "udp", c5 |-> "udp"],
     remoteOf |-> [c1 |-> "r1", c2 |-> "r2", c3 |-> "r3", c4 |-> "r4", c5 |-> "r5"],
     groupOf  |-> [r1 |-> "g1", r2 |-> "g2", r3 |-> "g3", r4 |-> "g4", r5 |-> "g5"]],
  race |-> [locals |-> {"tcp"}, addrs |-> <<"a1", "a2">>, specials |-> {"loop"},
     localOf  |-> [c1 |-> "tcp", c2 |-> "tcp", c3 |-> "tcp"],
     remoteOf |-> [c1 |-> "r1", c2 |-> "r2", c3 |-> "r3"],
     groupOf  |-> [r1 |-> "g1", r2 |-> "g2", r3 |-> "g1"]],
  async |-> [locals |-> {"tcp"}, addrs |-> <<"a1", "a2">>, specials |-> {"loop"},
     localOf  |-> [c1 |-> "tcp", c2 |-> "tcp"],
     remoteOf |-> [c1 |-> "r1", c2 |-> "r2"],
     groupOf  |-> [r1 |-> "g1", r2 |-> "g2"]],
  listen |-> [locals |-> {"tcp", "udp"}, addrs |-> <<"a1", "a2">>, specials |-> {"loop"},
     localOf  |-> [c1 |-> "tcp", c2 |-> "tcp", c3 |-> "udp", c4 |-> "udp", c5 |-> "off"],
     remoteOf |-> [c1 |-> "r1", c2 |-> "r2", c3 |-> "r3", c4 |-> "r4", c5 |-> "r5"],
     groupOf  |-> [r1 |-> "g1", r2 |-> "g2", r3 |-> "g1", r4 |-> "g2", r5 |-> "g3"]],
  groups6 |-> [locals |-> {"tcp"}, addrs |-> <<"a1", "a2", "a3">>, specials |-> {"loop", "wrongtr"},
     localOf  |-> [c1 |-> "tcp", c2 |-> "tcp", c3 |-> "tcp", c4 |-> "tcp", c5 |-> "tcp", c6 |-> "tcp", c7 |-> "tcp"],
     remoteOf |-> [c1 |-> "r1", c2 |-> "r2", c3 |-> "r3", c4 |-> "r4", c5 |-> "r5", c6 |-> "r6", c7 |-> "r7"],
     groupOf  |-> [r1 |-> "g1", r2 |-> "g1", r3 |-> "g2", r4 |-> "g2", r5 |-> "g3", r6 |-> "g4", r7 |-> "g5"]]
]
I == Table[Inst]
MCLocals == I.locals
MCAddrSeq == I.addrs
MCSpecials == I.specials
MCLocalOf == I.localOf
MCRemoteOf == I.remoteOf
MCGroupOf == I.groupOf

St == [obs |-> obs, open |-> open]
EmitEdge == PrintT(<<"VFEDGE", ToJson([s |-> St, op |-> op', t |-> St'])>>)
MCInit == /\ Init
          /\ PrintT(<<"VFINIT", ToJson(St)>>)
          /\ PrintT(<<"VFINST", ToJson([inst |-> Inst, thresh |-> Thresh, maxtop |-> MaxTop, locals |-> Locals,
                                         addrs |-> AddrSeq, specials |-> Specials, localOf |-> LocalOf,
                                         remoteOf |-> RemoteOf, groupOf |-> GroupOf])>>)
=============================================================================
