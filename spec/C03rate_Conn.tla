---------------------------- MODULE C03rate_Conn ----------------------------
(***************************************************************************)
(* Extension engine C03rate, connection side: the connLimiter of           *)
(* p2p/host/resource-manager/conn_limiter.go (per-subnet caps on           *)
(* CONCURRENT connections) composed with the connection RATE limiter the   *)
(* way resourceManager.openConnection does:                                *)
(*                                                                         *)
(*     if !r.connRateLimiter.Allow(ip)      -> "rate limit exceeded"       *)
(*     if ip.IsValid() && !connLimiter.addConn(ip)                         *)
(*                                          -> "connections per ip limit   *)
(*                                              exceeded" (the rate token  *)
(*                                              is NOT returned)           *)
(*     ... scopes (C03 proper; unlimited here) ...                         *)
(*     connectionScope.Done()               -> connLimiter.rmConn(ip)      *)
(*                                                                         *)
(* STATEMENT for the connLimiter (doc comments of ConnLimitPerSubnet,      *)
(* NetworkPrefixLimit, WithLimitPerSubnet, connLimiter, addConn; last      *)
(* sentence of C03):                                                       *)
(*  L1 counts   For every NetworkPrefixLimit i: count[i] = number of live  *)
(*              connections whose address's FIRST (most specific) matching *)
(*              prefix is i.  For every subnet bucket (family, level,      *)
(*              masked prefix): count = number of live connections in that *)
(*              subnet whose address matches NO network prefix ("If we     *)
(*              find a match in the network prefix limits, we use that and *)
(*              don't use the general subnet limits").                     *)
(*  L2 caps     No count ever exceeds its ConnCount; a connection is       *)
(*              refused iff the first matching prefix is full or, with no  *)
(*              matching prefix, the subnet at SOME level is full; a       *)
(*              refused connection changes no count (check all levels,     *)
(*              then update all).                                          *)
(*  L3 release  rmConn of an admitted connection decrements exactly the    *)
(*              buckets addConn incremented for it; counts never negative. *)
(*  L4 drop     A subnet entry that returns to zero is deleted.  As coded, *)
(*              addConn creates a zero entry for every level it inspects   *)
(*              BEFORE deciding, so a refusal at level k leaves zero       *)
(*              entries behind for levels 1..k that did not exist (variable*)
(*              `ent`; not observable through the manager, reported as a   *)
(*              note by the driver).                                       *)
(*  L5 family   The family is ip.Is6() (IPv4-mapped IPv6 = v6), prefixes   *)
(*              of the other family never match.                           *)
(* Composition:                                                            *)
(*  J1          A connection attempt charges the rate limiter first: a     *)
(*              rate refusal never touches the counts, a count refusal     *)
(*              burns the rate token(s).                                   *)
(*  J2          netip.Addr{} (no IP in the endpoint) skips the connLimiter *)
(*              but NOT the rate limiter, where all such attempts share    *)
(*              the IPv6 buckets keyed by the zero prefix (as coded).      *)
(***************************************************************************)
EXTENDS C03rate_Limiter

CONSTANTS
  CNP,       \* Seq([mem : SUBSET Addrs, cap]) both families, each family's prefixes in the order sortNetworkPrefixes leaves them
  CLevels,   \* [{"v4","v6"} -> Seq([key : [Addrs -> STRING], cap])] in CONFIGURED order (connLimitPerSubnetV4/6 are not sorted)
  CFamOf,    \* [Addrs -> {"v4","v6","none"}]  ip.Is6() ? v6 : v4;  "none" = invalid address (skips the connLimiter)
  MaxLive    \* bound on simultaneously live connections per address (state-space bound only)

VARIABLES npc,    \* Seq(Nat): connsPerNetworkPrefixV4/V6 (one sequence, families have disjoint members)
          subc,   \* [CBIds -> Nat]: ip4connsPerLimit / ip6connsPerLimit values (absent key = 0)
          ent,    \* SUBSET CBIds: keys present in those maps
          live    \* [Addrs -> Nat]: admitted and not yet released connections (the callers' ledger)
cvars == <<s, op, npc, subc, ent, live>>
CView == <<s, npc, subc, ent, live>>

CFam(a) == CFamOf[a]
CBIds == UNION {UNION {{CLevels[f][i].key[a] : a \in {x \in Addrs : CFamOf[x] = f}} : i \in 1..Len(CLevels[f])} : f \in {"v4", "v6"}}
CLevelOf(b) == CHOOSE l \in UNION {{CLevels[f][i] : i \in 1..Len(CLevels[f])} : f \in {"v4", "v6"}} : \E a \in Addrs : l.key[a] = b
CKeys(a) == [i \in 1..Len(CLevels[CFam(a)]) |-> CLevels[CFam(a)][i].key[a]]
Range(f) == {f[i] : i \in DOMAIN f}
Min(S) == CHOOSE x \in S : \A y \in S : x <= y
CInNP(a) == {i \in 1..Len(CNP) : a \in CNP[i].mem}
FirstNP(a) == IF CInNP(a) = {} THEN 0 ELSE Min(CInNP(a))

\* addConn: the first level whose subnet is full (0 = none), scanning in configured order
FullAt(a) == LET ks == CKeys(a) full == {i \in DOMAIN ks : subc[ks[i]] + 1 > CLevels[CFam(a)][i].cap}
             IN IF full = {} THEN 0 ELSE Min(full)

AddEff(a) ==   \* [ok, npc, subc, ent]
  IF FirstNP(a) # 0
  THEN LET i == FirstNP(a) IN
       IF npc[i] + 1 > CNP[i].cap THEN [ok |-> FALSE, npc |-> npc, subc |-> subc, ent |-> ent]
       ELSE [ok |-> TRUE, npc |-> [npc EXCEPT ![i] = @ + 1], subc |-> subc, ent |-> ent]
  ELSE LET ks == CKeys(a) k == FullAt(a) IN
       IF k # 0 THEN [ok |-> FALSE, npc |-> npc, subc |-> subc, ent |-> ent \cup {ks[i] : i \in 1..k}]
       ELSE [ok |-> TRUE, npc |-> npc, subc |-> [b \in CBIds |-> IF b \in Range(ks) THEN subc[b] + 1 ELSE subc[b]],
             ent |-> ent \cup Range(ks)]

RmEff(a) ==    \* rmConn(ip) for an address with a live connection
  IF FirstNP(a) # 0
  THEN LET i == FirstNP(a) IN
       [npc |-> IF npc[i] <= 0 THEN npc ELSE [npc EXCEPT ![i] = @ - 1], subc |-> subc, ent |-> ent]
  ELSE LET ks == CKeys(a)
           dec == {b \in Range(ks) : b \in ent /\ subc[b] > 0}
           ns == [b \in CBIds |-> IF b \in dec THEN subc[b] - 1 ELSE subc[b]]
       IN [npc |-> npc, subc |-> ns, ent |-> ent \ {b \in dec : ns[b] <= 0}]

CInit == /\ Init
         /\ npc = [i \in 1..Len(CNP) |-> 0]
         /\ subc = [b \in CBIds |-> 0]
         /\ ent = {}
         /\ live = [a \in Addrs |-> 0]

\* resourceManager.OpenConnection(dir, usefd, endpoint of a) with unlimited scopes
Open(a) ==
  /\ live[a] < MaxLive
  /\ LET e == AllowEff(s, a) IN
     IF ~e.ok
     THEN /\ s' = e.S /\ UNCHANGED <<npc, subc, ent, live>>
          /\ op' = [name |-> "Open", a |-> a, res |-> "rate", by |-> e.by, at |-> e.at]
     ELSE IF CFam(a) = "none"
     THEN /\ s' = e.S /\ UNCHANGED <<npc, subc, ent>> /\ live' = [live EXCEPT ![a] = @ + 1]
          /\ op' = [name |-> "Open", a |-> a, res |-> "ok", by |-> "", at |-> 0]
     ELSE LET c == AddEff(a) IN
          /\ s' = e.S /\ npc' = c.npc /\ subc' = c.subc /\ ent' = c.ent
          /\ live' = IF c.ok THEN [live EXCEPT ![a] = @ + 1] ELSE live
          /\ op' = [name |-> "Open", a |-> a, res |-> IF c.ok THEN "ok" ELSE "conn", by |-> "",
                    at |-> IF c.ok THEN 0 ELSE IF FirstNP(a) # 0 THEN FirstNP(a) ELSE FullAt(a)]

\* connectionScope.Done() of one live connection of a
Done(a) ==
  /\ live[a] > 0
  /\ live' = [live EXCEPT ![a] = @ - 1]
  /\ IF CFam(a) = "none" THEN UNCHANGED <<npc, subc, ent>>
     ELSE LET r == RmEff(a) IN npc' = r.npc /\ subc' = r.subc /\ ent' = r.ent
  /\ UNCHANGED s
  /\ op' = [name |-> "Done", a |-> a]

\* rmConn for an address nothing of whose buckets is held ("if the callers calls rmConn first we don't want to panic")
Bogus(a) ==
  /\ CFam(a) # "none"
  /\ IF FirstNP(a) # 0 THEN npc[FirstNP(a)] = 0 ELSE \A b \in Range(CKeys(a)) : subc[b] = 0
  /\ LET r == RmEff(a) IN npc' = r.npc /\ subc' = r.subc /\ ent' = r.ent
  /\ UNCHANGED <<s, live>>
  /\ op' = [name |-> "Bogus", a |-> a]

CTick == Tick /\ UNCHANGED <<npc, subc, ent, live>>

CNext == CTick \/ \E a \in Addrs : Open(a) \/ Done(a) \/ Bogus(a)

(* ------------------------------- clauses ------------------------------- *)
RECURSIVE SumLive(_)
SumLive(S) == IF S = {} THEN 0 ELSE LET x == CHOOSE y \in S : TRUE IN live[x] + SumLive(S \ {x})

CTypeOK == /\ \A i \in 1..Len(CNP) : npc[i] \in Nat
           /\ \A b \in CBIds : subc[b] \in Nat
           /\ ent \subseteq CBIds
CountsExact ==
  /\ \A i \in 1..Len(CNP) : npc[i] = SumLive({a \in Addrs : CFam(a) # "none" /\ FirstNP(a) = i})
  /\ \A b \in CBIds : subc[b] = SumLive({a \in Addrs : CFam(a) # "none" /\ FirstNP(a) = 0 /\ b \in Range(CKeys(a))})
CapsHold ==
  /\ \A i \in 1..Len(CNP) : npc[i] <= CNP[i].cap
  /\ \A b \in CBIds : subc[b] <= CLevelOf(b).cap
EntCovers == \A b \in CBIds : subc[b] > 0 => b \in ent

\* L2: decision and inertness of refusals
ConnDecision(o, NPC, SUBC, T_npc, T_subc, T_live, L) ==
  (o.name = "Open" /\ o.res # "rate" /\ CFam(o.a) # "none") =>
     /\ (o.res = "conn") <=> (IF FirstNP(o.a) # 0 THEN NPC[FirstNP(o.a)] >= CNP[FirstNP(o.a)].cap
                              ELSE \E i \in 1..Len(CLevels[CFam(o.a)]) : SUBC[CKeys(o.a)[i]] >= CLevels[CFam(o.a)][i].cap)
     /\ (o.res = "conn") => T_npc = NPC /\ T_subc = SUBC /\ T_live = L
ConnDecisionOK == [][ConnDecision(op', npc, subc, npc', subc', live', live)]_cvars
\* J1: a rate refusal touches no count
RateFirst == [][(op'.name = "Open" /\ op'.res = "rate") => UNCHANGED <<npc, subc, ent, live>>]_cvars
\* L4 (as coded): entries at zero exist only as leftovers of refusals; Done drops what it brings to zero
DropAtZero == [][(op'.name = "Done") => \A b \in ent' : subc'[b] > 0 \/ (b \in ent /\ subc[b] = 0)]_cvars
\* L3 robustness
BogusInert == [][(op'.name = "Bogus") => UNCHANGED <<npc, subc, live>>]_cvars

ReachConnRef  == [][~(op'.name = "Open" /\ op'.res = "conn")]_cvars
ReachConnRef2 == [][~(op'.name = "Open" /\ op'.res = "conn" /\ op'.at = 2 /\ FirstNP(op'.a) = 0)]_cvars
ReachRateRef  == [][~(op'.name = "Open" /\ op'.res = "rate")]_cvars
ReachZeroEnt  == [][~(\E b \in ent' : subc'[b] = 0)]_cvars
=============================================================================
