\* Template: checks/C02.py instantiates the constants (lazy multistream / BasicHost stream layer).
CONSTANTS
  MaxSent = 2
  MaxWrite = 2
  Bufs = {1, 2}
  Delays = {"neg-", "neg+", "1h"}
INIT Init
NEXT Next
VIEW View
INVARIANTS TypeOK PrefixC PrefixS ShapeOK FlushOnClose EofAfterAll HandlerAfterFlush
