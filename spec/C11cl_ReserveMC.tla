------------------------------- MODULE C11cl_ReserveMC -------------------------------
(* Bounded instance of C11cl_Reserve for TLC; checks/C11cl.py instantiates the cfg template C11cl_ReserveMC.cfg. *)
EXTENDS C11cl_Reserve, Json

\* the known envelopes are named by their peer field ("-" = H's peer record)
KnOf(kn) == {e.peer : e \in kn}
StOf(kn, p, ww) == <<KnOf(kn), p, ww>>
St == StOf(know, ph, w)
StN == StOf(know', ph', w')
EmitEdge == PrintT(<<"VFEDGE", ToJson([s |-> St, op |-> op', t |-> StN])>>)
MCInit == Init /\ PrintT(<<"VFINIT", ToJson(St)>>)
=============================================================================
