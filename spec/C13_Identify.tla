---------------------------- MODULE C13_Identify ----------------------------
(***************************************************************************)
(* What the identify service (p2p/protocol/identify/id.go) records in the  *)
(* peerstore, for whom, with which lifetime, and the release of the        *)
(* per-connection identify-wait.                                           *)
(*                                                                         *)
(* Peers: R = the authenticated remote of every connection of the model,   *)
(* F = a foreign peer that is never connected.  An identify message is a   *)
(* record of field CLASSES (see Msgs in C13_MC.tla).  One action per       *)
(* critical section / public call of the code:                             *)
(*   Open/Close        the swarm adds / removes the connection (this is    *)
(*                     what Network().Connectedness() reads)               *)
(*   Connected         netNotifiee.Connected  (entry + IdentifyWait)       *)
(*   Disconnected      netNotifiee.Disconnected: entry removed; the        *)
(*                     address section under addrMu, Connectedness read    *)
(*                     inside it                                           *)
(*   IdentifyWait      idService.IdentifyWait                              *)
(*   Done / Fail       the identify goroutine receives the response        *)
(*                     (consumeMessage) or fails; the wait channel closes  *)
(*   Push / PushFail   handlePush -> handleIdentifyResponse                *)
(* consumeMessage's address part is one atomic section under addrMu with   *)
(* Connectedness read inside; its other writes (protocols before, metadata *)
(* and key after) touch nothing Disconnected touches, so Consume is one    *)
(* action.  The peerstore quirks that decide what is retained are modelled *)
(* as they are (pstoremem: per-peer cap on unconnected addresses applies   *)
(* to NEW entries only; SetProtocols refuses more than its own maximum;    *)
(* addresses with a foreign /p2p suffix are dropped).                      *)
(*                                                                         *)
(* Lists are sequences of TOKENS with weights (a token stands for that     *)
(* many distinct real addresses / protocols), so the real caps (500, 20,   *)
(* 1024, 64, 128) are used unscaled.                                       *)
(***************************************************************************)
EXTENDS Naturals, Sequences, FiniteSets, TLC

CONSTANTS Conns,          \* connection ids, all to R
          RClass,         \* [Conns -> {"pub","priv","lo"}] class of the connection's remote multiaddr (filterAddrs)
          Msgs,           \* the message classes of the instance
          MaxProtos,      \* id.go maxPeerProtocols (1024)
          MaxAddrs,       \* id.go connectedPeerMaxAddrs (500)
          RecentMax,      \* id.go recentlyConnectedPeerMaxAddrs (20)
          PsMaxProtos,    \* peerstore: SetProtocols refuses longer lists (pstoremem default 128)
          PsMaxAddrs,     \* peerstore: per-peer cap on unconnected addresses, new entries only (64)
          FailKinds,      \* ways an identify request fails
          PushFailKinds,  \* ways a push stream fails before consumeMessage
          StallPoints,    \* where the remote of an identify request goes silent (connection stays open)
          PushStallPoints \* where the sender of a push stream goes silent

Peers == {"R", "F"}
Remote(c) == "R"

VARIABLES addr,     \* [Peers -> address-book abstraction]
          protos,   \* [Peers -> set of protocol tokens]
          key,      \* [Peers -> "none" | peer whose key is stored]
          meta,     \* [Peers -> "unset" | "" | version class]  (AgentVersion and ProtocolVersion move together)
          cs,       \* [Conns -> "new" | "open" | "closed" | "done"]  new: not yet there; open: in the swarm;
                    \*   closed: removed from the swarm, Disconnected not yet delivered; done: delivered
          ntf,      \* [Conns -> BOOLEAN]  Connected notification delivered
          ent,      \* [Conns -> BOOLEAN]  idService.conns has an entry (internal)
          idf,      \* [Conns -> "idle" | "run"]  an identify goroutine is in flight = a wait channel is still open
          op        \* output only

vars == <<addr, protos, key, meta, cs, ntf, ent, idf, op>>
View == <<addr, protos, key, meta, cs, ntf, ent, idf>>

----------------------------------------------------------------------------
(* tokens *)
AddrTokens == {"pa", "pb", "lo", "ra", "big", "x", "fs", "rs", "sa", "sb", "us", "d4", "d4s", "df", "dfs"}
ProtoTokens == {"p1", "p2", "idpush", "pbig", "px"}
AWf == [t \in AddrTokens |-> IF t = "big" THEN MaxAddrs - 2 ELSE 1]
PWf == [t \in ProtoTokens |-> IF t = "pbig" THEN MaxProtos - 1 ELSE 1]
RaConn == "c1"            \* the token "ra" is the RemoteMultiaddr of connection c1 (and has its class)
AClass(t) == IF t \in {"pb", "sb"} THEN "priv" ELSE IF t = "lo" THEN "lo"
             ELSE IF t = "ra" THEN RClass[RaConn] ELSE "pub"
(* /p2p suffixes: fs = <a1>/p2p/F and us = <a2>/p2p/<unknown peer> travel ONLY in that form; rs = <a3>/p2p/R
   (self) is kept without the suffix; d4 and d4s = <a4> and <a4>/p2p/R are one address listed twice; df and
   dfs = <a5> and <a5>/p2p/F: the bare copy is R's claim, the suffixed one is refused.  The peerstore refuses
   an address whose suffix names another peer; identify hands the list over as it is, so both copies count
   towards its cap. *)
ForeignSuffix(t) == t \in {"fs", "us", "dfs"}
Canon(t) == IF t = "d4s" THEN "d4" ELSE t
RecordTokens == {"sa", "sb"}      \* occur in signed records only

LAddrs(k) == CASE k = "none" -> <<>>
               [] k = "own"  -> <<"pa", "pb", "lo">>
               [] k = "fsuf" -> <<"pa", "fs", "rs">>
               [] k = "big"  -> <<"pa", "ra", "big", "x">>
               [] k = "suf1" -> <<"fs">>
               [] k = "self1" -> <<"rs">>
               [] k = "sufU" -> <<"pa", "us">>
               [] k = "dups" -> <<"d4", "d4s", "df", "dfs">>
               [] k = "bigd" -> <<"d4", "d4s", "big", "x">>
RAddrs(k) == CASE k = "none" -> <<>>
               [] k = "own"  -> <<"sa", "sb">>
               [] k = "fsuf" -> <<"sa", "fs">>
               [] k = "big"  -> <<"sa", "ra", "big", "x">>
               [] k = "suf1" -> <<"fs">>
               [] k = "sufU" -> <<"sa", "us">>
               [] k = "dups" -> <<"sa", "d4", "d4s", "df", "dfs">>
               [] k = "bigd" -> <<"sa", "d4s", "big", "x">>
PList(k) == CASE k = "none" -> <<>>
              [] k = "few"  -> <<"p1", "p2">>
              [] k = "push" -> <<"p1", "idpush">>
              [] k = "big"  -> <<"p1", "pbig", "px">>

Range(s) == {s[i] : i \in 1..Len(s)}
RECURSIVE WSeq(_, _)
WSeq(s, w) == IF s = <<>> THEN 0 ELSE w[Head(s)] + WSeq(Tail(s), w)
RECURSIVE SetW(_, _)
SetW(S, w) == IF S = {} THEN 0 ELSE LET t == CHOOSE x \in S : TRUE IN w[t] + SetW(S \ {t}, w)
\* the first cap elements of the expanded list (the instance's lists are cut at token boundaries: Aligned)
RECURSIVE TruncW(_, _, _)
TruncW(s, w, cap) == IF s = <<>> \/ w[Head(s)] > cap THEN <<>>
                     ELSE <<Head(s)>> \o TruncW(Tail(s), w, cap - w[Head(s)])
Aligned(s, w, cap) == WSeq(s, w) <= cap \/ WSeq(TruncW(s, w, cap), w) = cap

\* filterAddrs(addrs, c.RemoteMultiaddr())
Filter(s, rc) == SelectSeq(s, LAMBDA t : \/ rc = "lo"
                                         \/ rc = "priv" /\ AClass(t) # "lo"
                                         \/ rc = "pub" /\ AClass(t) = "pub")

(* signed peer record classes:
   absent                                  -> listen addrs are used
   domain, type, garbage, badsig           -> ConsumeEnvelope fails before the lock: listen addrs are used
   validR                                  -> the record's addresses are used, listen addrs ignored
   byF (F's own valid record), forged (PeerID R, sealed by F), pidF (PeerID F, sealed by R),
   othertype (valid envelope by R, registered non-PeerRecord type)
                                           -> consumeSignedPeerRecord refuses: NO address is added *)
RecEffect(r) == IF r \in {"absent", "domain", "type", "garbage", "badsig"} THEN "listen"
                ELSE IF r = "validR" THEN "record" ELSE "nothing"

\* the set of tokens AddAddrs stores for message m arriving on a connection of remote class rc
Cand(m, rc) ==
  LET src == IF RecEffect(m.rec) = "record" THEN RAddrs(m.ra)
             ELSE IF RecEffect(m.rec) = "listen" THEN LAddrs(m.la) ELSE <<>>
  IN {Canon(t) : t \in {u \in Range(TruncW(Filter(src, rc), AWf, MaxAddrs)) : ~ForeignSuffix(u)}}

NoAddr == [ttl |-> "none", mode |-> "exact", set |-> {}, n |-> 0, must |-> {}]

(* consumeMessage's section under addrMu: everything R had becomes temporary, the message's addresses
   are (re)added with the connected or the recently-connected lifetime, the temporary rest is dropped.
   Unconnected: a NEW entry is refused room beyond max(PsMaxAddrs, what is there) by the peerstore, which
   then evicts entries of its own choice: only the number and the universe are determined ("some"). *)
AddrAfterConsume(old, A, con) ==
  LET M == SetW(A, AWf)
      lim == IF old.n > PsMaxAddrs THEN old.n ELSE PsMaxAddrs
  IN IF A = {} THEN NoAddr
     ELSE IF con THEN [ttl |-> "conn", mode |-> "exact", set |-> A, n |-> M, must |-> {}]
     ELSE IF M <= lim THEN [ttl |-> "recent", mode |-> "exact", set |-> A, n |-> M, must |-> {}]
     ELSE [ttl |-> "recent", mode |-> "some", set |-> A, n |-> lim, must |-> {}]

(* Disconnected's section under addrMu: nothing if still connected; otherwise at most RecentMax addresses
   (the connection's own remote address among them) move from the connected to the recently-connected
   lifetime, the other connected ones are dropped; addresses already finite stay as they are. *)
AddrAfterDisc(old, c, con) ==
  IF con \/ old.ttl # "conn" THEN old
  ELSE IF old.n <= RecentMax THEN [old EXCEPT !.ttl = "recent"]
  ELSE [ttl |-> "recent", mode |-> "some", set |-> old.set, n |-> RecentMax,
        must |-> IF c = RaConn /\ "ra" \in old.set THEN {"ra"} ELSE {}]

ProtoAfter(old, m) ==
  LET t == TruncW(PList(m.pr), PWf, MaxProtos)
  IN IF WSeq(t, PWf) > PsMaxProtos THEN old ELSE Range(t)

MetaVal(m) == IF m.meta = "absent" THEN "" ELSE m.meta

Con == \E c \in Conns : cs[c] = "open"           \* Connectedness(R) in {Connected, Limited}
ConAfterClose(c) == \E d \in Conns \ {c} : cs[d] = "open"

----------------------------------------------------------------------------
Init == /\ addr = [p \in Peers |-> NoAddr]
        /\ protos = [p \in Peers |-> {}]
        /\ key = [p \in Peers |-> "none"]
        /\ meta = [p \in Peers |-> "unset"]
        /\ cs = [c \in Conns |-> "new"]
        /\ ntf = [c \in Conns |-> FALSE]
        /\ ent = [c \in Conns |-> FALSE]
        /\ idf = [c \in Conns |-> "idle"]
        /\ op = [name |-> "init"]

PS == <<addr, protos, key, meta>>

Open(c) == /\ cs[c] = "new"
           /\ cs' = [cs EXCEPT ![c] = "open"]
           /\ UNCHANGED <<PS, ntf, ent, idf>>
           /\ op' = [name |-> "open", c |-> c]

(* the swarm removes the connection.  kill: its streams are reset, an identify in flight fails now;
   ~kill: the response had been read already, the goroutine goes on to consumeMessage later *)
Close(c, kill) ==
  /\ cs[c] = "open"
  /\ kill \/ idf[c] = "run"
  /\ cs' = [cs EXCEPT ![c] = "closed"]
  /\ idf' = [idf EXCEPT ![c] = IF kill THEN "idle" ELSE @]
  /\ UNCHANGED <<PS, ntf, ent>>
  /\ op' = [name |-> "close", c |-> c, kill |-> kill,
            evs |-> IF kill /\ idf[c] = "run" THEN <<"failed">> ELSE <<>>,
            pending |-> idf'[c] = "run"]

(* spawn of the identify goroutine: on an open connection it is in flight until Done/Fail; on a closed one
   NewStream fails at once *)
Spawn(c) == IF cs[c] = "open" THEN "run" ELSE "idle"

Connected(c) ==
  /\ cs[c] \in {"open", "closed"} /\ ~ntf[c]
  /\ ntf' = [ntf EXCEPT ![c] = TRUE]
  /\ ent' = [ent EXCEPT ![c] = TRUE]
  /\ idf' = [idf EXCEPT ![c] = IF ent[c] THEN @ ELSE Spawn(c)]
  /\ UNCHANGED <<PS, cs>>
  /\ op' = [name |-> "connected", c |-> c,
            evs |-> IF ~ent[c] /\ cs[c] # "open" THEN <<"failed">> ELSE <<>>,
            pending |-> idf'[c] = "run"]

IdentifyWait(c) ==
  /\ cs[c] # "new"
  /\ IF ent[c] THEN UNCHANGED <<ent, idf>>
     ELSE IF cs[c] = "open" THEN ent' = [ent EXCEPT ![c] = TRUE] /\ idf' = [idf EXCEPT ![c] = "run"]
     ELSE UNCHANGED <<ent, idf>>                 \* IsClosed: a closed channel, no entry
  /\ UNCHANGED <<PS, cs, ntf>>
  /\ op' = [name |-> "wait", c |-> c, evs |-> <<>>,
            closed |-> IF ent[c] THEN idf[c] = "idle" ELSE cs[c] # "open",   \* the returned channel
            pending |-> idf'[c] = "run"]

Disconnected(c) ==
  /\ cs[c] = "closed" /\ ntf[c]
  /\ cs' = [cs EXCEPT ![c] = "done"]
  /\ ent' = [ent EXCEPT ![c] = FALSE]
  /\ addr' = [addr EXCEPT ![Remote(c)] = AddrAfterDisc(@, c, Con)]
  /\ UNCHANGED <<protos, key, meta, ntf, idf>>
  /\ op' = [name |-> "disconnected", c |-> c, con |-> Con, evs |-> <<>>, pending |-> idf[c] = "run"]

Consume(c, m) ==
  LET p == Remote(c) IN
  /\ addr' = [addr EXCEPT ![p] = AddrAfterConsume(@, Cand(m, RClass[c]), Con)]
  /\ protos' = [protos EXCEPT ![p] = ProtoAfter(@, m)]
  /\ key' = [key EXCEPT ![p] = IF m.key = p THEN p ELSE @]
  /\ meta' = [meta EXCEPT ![p] = MetaVal(m)]

Push(c, m) ==
  /\ cs[c] # "new"
  /\ Consume(c, m)
  /\ UNCHANGED <<cs, ntf, ent, idf>>
  /\ op' = [name |-> "push", c |-> c, m |-> m, con |-> Con, used |-> RecEffect(m.rec),
            evs |-> <<"protocols", "completed">>, pending |-> idf[c] = "run"]

PushFail(c, why) ==
  /\ cs[c] # "new"
  /\ UNCHANGED <<PS, cs, ntf, ent, idf>>
  /\ op' = [name |-> "pushfail", c |-> c, why |-> why, evs |-> <<>>, pending |-> idf[c] = "run"]

Done(c, m) ==
  /\ idf[c] = "run"
  /\ Consume(c, m)
  /\ idf' = [idf EXCEPT ![c] = "idle"]
  /\ UNCHANGED <<cs, ntf, ent>>
  /\ op' = [name |-> "done", c |-> c, m |-> m, con |-> Con, used |-> RecEffect(m.rec),
            evs |-> <<"completed">>, pending |-> FALSE]

Fail(c, why) ==
  /\ idf[c] = "run"
  /\ idf' = [idf EXCEPT ![c] = "idle"]
  /\ UNCHANGED <<PS, cs, ntf, ent>>
  /\ op' = [name |-> "fail", c |-> c, why |-> why, evs |-> <<"failed">>, pending |-> FALSE]

(* virtual time passes the identify timeout: every identify in flight hits its stream deadline (no other
   step of the model lets time pass, so all of them were started at the same instant) *)
Timeout(at) ==
  /\ \E c \in Conns : idf[c] = "run"
  /\ idf' = [c \in Conns |-> "idle"]
  /\ UNCHANGED <<PS, cs, ntf, ent>>
  /\ op' = [name |-> "timeout", at |-> at, cs |-> {c \in Conns : idf[c] = "run"},
            evs |-> [i \in 1..Cardinality({c \in Conns : idf[c] = "run"}) |-> "failed"], pending |-> FALSE]

(* a push stream whose sender goes silent: handlePush returns when the stream deadline fires; that much
   virtual time ends every identify in flight as well *)
PushStall(c, at) ==
  /\ cs[c] # "new"
  /\ idf' = [d \in Conns |-> "idle"]
  /\ UNCHANGED <<PS, cs, ntf, ent>>
  /\ op' = [name |-> "pushstall", c |-> c, at |-> at, cs |-> {d \in Conns : idf[d] = "run"},
            evs |-> [i \in 1..Cardinality({d \in Conns : idf[d] = "run"}) |-> "failed"], pending |-> FALSE]

Next == \/ \E c \in Conns : Open(c) \/ Connected(c) \/ IdentifyWait(c) \/ Disconnected(c)
        \/ \E c \in Conns, k \in BOOLEAN : Close(c, k)
        \/ \E c \in Conns, m \in Msgs : Push(c, m) \/ Done(c, m)
        \/ \E c \in Conns, w \in FailKinds : Fail(c, w)
        \/ \E c \in Conns, w \in PushFailKinds : PushFail(c, w)
        \/ \E at \in StallPoints : Timeout(at)
        \/ \E c \in Conns, at \in PushStallPoints : PushStall(c, at)

Spec == Init /\ [][Next]_vars
\* the identify goroutine always terminates: stream deadline / context timeout
FairSpec == Spec /\ WF_vars(\E at \in StallPoints : Timeout(at))
                 /\ (\A d \in Conns : WF_vars(Connected(d)) /\ WF_vars(Disconnected(d)))

----------------------------------------------------------------------------
(* Properties *)
AddrRec(a) == /\ a.ttl \in {"none", "conn", "recent"} /\ a.mode \in {"exact", "some"}
              /\ a.set \subseteq AddrTokens /\ a.n \in Nat /\ a.must \subseteq a.set
              /\ (a.ttl = "none") <=> (a.n = 0)
              /\ a.mode = "exact" => a.n = SetW(a.set, AWf)
              /\ a.mode = "some" => a.n < SetW(a.set, AWf) /\ a.ttl = "recent"
TypeOK == /\ \A p \in Peers : AddrRec(addr[p]) /\ protos[p] \subseteq ProtoTokens
          /\ \A c \in Conns : cs[c] \in {"new", "open", "closed", "done"} /\ idf[c] \in {"idle", "run"}
          /\ \A c \in Conns : (cs[c] = "new" => ~ntf[c] /\ ~ent[c] /\ idf[c] = "idle")
          /\ \A c \in Conns : (cs[c] = "done" => ntf[c] /\ ~ent[c])

MsgsAligned == \A m \in Msgs, rc \in {"pub", "priv", "lo"} :
                  /\ Aligned(Filter(LAddrs(m.la), rc), AWf, MaxAddrs)
                  /\ Aligned(Filter(RAddrs(m.ra), rc), AWf, MaxAddrs)
                  /\ Aligned(PList(m.pr), PWf, MaxProtos)

Empty(p) == addr[p] = NoAddr /\ protos[p] = {} /\ key[p] = "none" /\ meta[p] = "unset"
\* nothing is ever recorded under a peer other than the connection's remote
OnlyRemote == Empty("F")
\* a stored key hashes to the peer it is stored under
KeyMatches == \A p \in Peers : key[p] \in {"none", p}
\* retained numbers are capped
Caps == \A p \in Peers : addr[p].n <= MaxAddrs /\ SetW(protos[p], PWf) <= MaxProtos
\* after a Disconnected that found no other connection at most RecentMax of the connected addresses remain
RecentCap == [][\A c \in Conns : (op'.name = "disconnected" /\ op'.c = c /\ ~op'.con /\ addr[Remote(c)].ttl = "conn")
                      => addr'[Remote(c)].n <= RecentMax]_vars
\* connected lifetime only while a connection exists (or its Disconnected is still to be delivered);
\* hence at quiescence without connections every address is finite
TTL == (addr["R"].ttl = "conn") => \E c \in Conns : cs[c] \in {"open", "closed"}
\* and the connected lifetime is never lost while connections exist throughout
KeepsConn == [][(addr["R"].ttl = "conn" /\ Con /\ (\E c \in Conns : cs'[c] = "open")
                   /\ op'.name \notin {"push", "done"}) => addr'["R"] = addr["R"]]_vars
\* a signed record contributes addresses / is reported as used only if it validates and was signed by R for R
RecordOnlyValid ==
  [][op'.name \in {"push", "done"} =>
       /\ (op'.used = "record") <=> (op'.m.rec = "validR")
       /\ (addr'["R"].set \cap RecordTokens # {}) => op'.m.rec = "validR"]_vars
\* a message of which nothing may be used leaves no address behind, whatever was there
RejectedLate == [][(op'.name \in {"push", "done"} /\ op'.used = "nothing") => addr'["R"] = NoAddr]_vars
\* failures change nothing in the peerstore
FailInert == [][op'.name \in {"fail", "pushfail", "timeout", "pushstall", "open", "close", "connected", "wait"} => UNCHANGED PS]_vars
\* every identify-wait is eventually released (liveness, under FairSpec)
WaitReleased == \A c \in Conns : (idf[c] = "run") ~> (idf[c] = "idle")
\* no entry is left behind once the swarm has delivered everything
EntriesGone == \A c \in Conns : cs[c] = "done" => ~ent[c]

(* vacuity guards: expected to be VIOLATED *)
ReachSome == \A p \in Peers : addr[p].mode # "some"
ReachRecentBig == ~(addr["R"].ttl = "recent" /\ addr["R"].n > PsMaxAddrs)
ReachRun == \A c \in Conns : idf[c] # "run"
ReachDoneAfterDisc == ~(\E c \in Conns : cs[c] = "done" /\ idf[c] = "run")
=============================================================================
