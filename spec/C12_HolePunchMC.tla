--------------------------- MODULE C12_HolePunchMC ---------------------------
EXTENDS C12_HolePunch, Json
\* exhaustive instance: every peerstore mix, every CONNECT content, every own-address value, every table
F_PS == SUBSET {"pP", "pV", "pR"}
F_Msg == SUBSET {"mP", "mV", "mR", "mS", "mG"}
F_Own == SUBSET {"oP", "oR"}
F_Conn == SUBSET {"D", "L", "U"}
\* instance whose whole graph is printed and replayed on the real code
S_PS == {{}, {"pR"}, {"pV", "pR"}, {"pP", "pR"}, {"pP", "pV", "pR"}}
S_Msg == {{}, {"mR", "mG"}, {"mP"}, {"mV", "mR", "mS"}, {"mP", "mV", "mR", "mS", "mG"}}
S_Own == {{}, {"oR"}, {"oP", "oR"}}
S_Conn == {{}, {"L"}, {"U"}, {"D", "L"}, {"L", "U"}, {"D"}}

St == [pc |-> pc, att |-> att, conns |-> conns, ps |-> ps, cur |-> cur, strm |-> strm, own |-> own,
       closed |-> closed, budget |-> budget]
EmitEdge == PrintT(<<"VFEDGE", ToJson([s |-> St, op |-> op', t |-> St'])>>)
MCInit == Init /\ PrintT(<<"VFINIT", ToJson(St)>>)
=============================================================================
