----------------------------- MODULE C10_Gater -----------------------------
(***************************************************************************)
(* The connection gater with persisted rules (p2p/net/conngater) and the   *)
(* places where the swarm and the transports consult it.                    *)
(*                                                                         *)
(* Rules are names: a peer rule is the peer's name, an address rule / a    *)
(* subnet rule matches the IPs listed in Match.  `mem` is the in-memory    *)
(* rule set of the running process (blockedPeers / blockedAddrs /          *)
(* blockedSubnets), `disk` the keys under /libp2p/net/conngater.            *)
(*                                                                         *)
(* Every Block*/Unblock* call of the Go code is                             *)
(*     ds.Put / ds.Delete ; Lock ; update map ; Unlock ; return nil        *)
(* (return err without touching the map when the datastore write fails).   *)
(* The call is cut at the only point where another party can see a         *)
(* difference: around the datastore write.                                  *)
(*     Begin   the call has been entered and stands before the write       *)
(*     Write   "ok": the write is applied; "fail": the datastore returns   *)
(*             an error, nothing is applied, the call returns the error    *)
(*     Finish  in-memory update and successful return (no other party can  *)
(*             tell these two apart: a stop between them is a stop after   *)
(*             the write of a call that has not returned)                  *)
(* Crash stops the process at any of these points (also idle, also in the  *)
(* middle of a connection attempt); Reopen = NewBasicConnectionGater on    *)
(* the same datastore = loadRules.                                          *)
(*                                                                         *)
(* A connection attempt (dir, peer, ip, transport) walks through the       *)
(* gate consultations in the order of the code:                            *)
(*   out: InterceptPeerDial (Swarm.dialPeer), InterceptAddrDial            *)
(*        (filterKnownUndialables), the transport dial, InterceptSecured   *)
(*        (upgrader / QUIC dial), InterceptUpgraded (Swarm.addConn)        *)
(*   in:  InterceptAccept (gatedMaListener.Accept / QUIC listener),        *)
(*        InterceptSecured, InterceptUpgraded                              *)
(* Rule changes, crashes and consultations interleave freely unless        *)
(* Exclusive (the composition instance run against real swarms).           *)
(***************************************************************************)
EXTENDS Naturals, Sequences, FiniteSets, TLC

CONSTANTS PeerRules,    \* peers that can be blocked (the rule is named like the peer)
          AddrRules,    \* single-address rules
          SubnetRules,  \* subnet rules
          Match,        \* [AddrRules \cup SubnetRules -> SUBSET IP names]
          Canon,        \* [Rules -> Rules]: the rule a call given this name acts on.  Identity but for a subnet
                        \* given with host bits set ("127.0.0.3/31"): BlockSubnet/UnblockSubnet key the rule, in
                        \* memory and in the datastore, by the masked network (maskedSubnet, commit 9a893a1), which
                        \* is also what net.ParseCIDR yields in loadRules and what ListBlockedSubnets reports
          Endpoints,    \* set of <<peer, ip>>: the remotes a connection can be attempted with ({} = none)
          Dirs,         \* subset of {"out", "in"}
          Tpts,         \* transports: "tcp" "ws" (upgrader), "quic" "wt" "rtc" (own gating call sites)
          Pres,         \* what the gated swarm already holds for the peer when an outbound attempt starts:
                        \* subset of {"none", "relayed", "direct"} (admitted earlier, not subject to a later block)
          Opts,         \* how the outbound attempt is made: DialPeer with "plain" | "force" (WithForceDirectDial) |
                        \* "simc"/"sims" (WithSimultaneousConnect client/server) | "hpc"/"hps" (force + sim, what the
                        \* hole punch service does); NewStream with "nodial" (WithNoDial) | "limited"
                        \* (WithAllowLimitedConn)
          Faults,       \* subset of {"fail", "crash"}
          Exclusive     \* BOOLEAN: a call and an attempt never overlap, no crash inside an attempt

IPRules == AddrRules \cup SubnetRules
Rules == PeerRules \cup IPRules

VARIABLES mem,    \* SUBSET Rules: rule set of the running process
          disk,   \* SUBSET Rules: persisted rule set
          up,     \* BOOLEAN: a process (gater object) exists
          call,   \* the Block*/Unblock* call in progress
          att,    \* the connection attempt in progress
          must,   \* ghost [Rules -> {"in","out","never","free"}]: what the returned calls oblige
          op      \* output only: last action with its expected observable results

vars == <<mem, disk, up, call, att, must, op>>
View == <<mem, disk, up, call, att, must>>

NoCall == [kind |-> "none", r |-> "-", pc |-> "-", prev |-> <<>>]
NoAtt == [dir |-> "-", peer |-> "-", ip |-> "-", tpt |-> "-", pre |-> "-", opt |-> "-", k |-> 0, cont |-> {},
          blk |-> {}]

Forced(opt) == opt \in {"force", "hpc", "hps"}
SimServer(opt) == opt \in {"sims", "hps"}

(* Swarm.dialPeer / NewStream before any gating: is a connection the swarm already holds good enough?   *)
(* (bestAcceptableConnToPeer: a direct one always, a relayed one unless a direct dial is forced;         *)
(* NewStream: WithNoDial never dials, a limited (relayed) connection is used only WithAllowLimitedConn)  *)
Reuse(pre, opt) ==
  CASE opt = "nodial"  -> pre = "direct"
    [] opt = "limited" -> pre # "none"
    [] OTHER           -> pre = "direct" \/ (pre = "relayed" /\ ~Forced(opt))
NoConn(pre, opt) == opt = "nodial" /\ pre # "direct"

(* The consultations of one attempt, in the order of the code.  "tdial" marks the call of the transport's *)
(* Dial, "arrive" the moment a remote's connection reaches a listener (neither is a consultation),       *)
(* "reuse"/"noconn" the exits that create no new connection.                                             *)
(*   in : listener accept (gatedMaListener / QUIC, WebTransport, WebRTC listeners), InterceptSecured     *)
(*        (DirInbound), InterceptUpgraded (Swarm.addConn)                                                *)
(*   out: InterceptPeerDial (dialPeer), InterceptAddrDial (filterKnownUndialables), transport Dial, then *)
(*        - ordinary dial: InterceptSecured(DirOutbound) in the upgrader / transport                     *)
(*        - simultaneous connect as server over TCP/WS: the upgrader runs as DirInbound ->               *)
(*          InterceptSecured(DirInbound)                                                                 *)
(*        - simultaneous connect as server over QUIC = hole punch: the connection ARRIVES AT THE         *)
(*          LISTENER (InterceptAccept, InterceptSecured(DirInbound)) and is handed to the waiting Dial   *)
(*        and InterceptUpgraded                                                                          *)
Stages(dir, tpt, pre, opt) ==
  IF dir = "in" THEN <<"arrive", "accept", "secured_in", "upgraded">>
  ELSE IF NoConn(pre, opt) THEN <<"noconn">>
  ELSE IF Reuse(pre, opt) THEN <<"reuse">>
  ELSE <<"peerdial", "addrdial", "tdial">> \o
       (IF SimServer(opt) /\ tpt = "quic" THEN <<"arrive", "accept", "secured_in", "upgraded">>
        ELSE IF SimServer(opt) /\ tpt \in {"tcp", "ws"} THEN <<"secured_in", "upgraded">>
        ELSE <<"secured_out", "upgraded">>)

IPBlocked(ip, M) == \E r \in IPRules \cap M : ip \in Match[r]

(* the answer of BasicConnectionGater at a stage, with rule set M *)
Gate(stage, dir, p, ip, M) ==
  CASE stage = "peerdial" -> p \notin M
    [] stage = "addrdial" -> ~IPBlocked(ip, M)
    [] stage = "accept"   -> ~IPBlocked(ip, M)
    [] stage = "secured_in"  -> p \notin M
    [] OTHER              -> TRUE          \* "secured_out", "upgraded"; "tdial" is not a consultation

Matching(p, ip) == {r \in Rules : r = p \/ (r \in IPRules /\ ip \in Match[r])}

ASSUME \A r \in Rules : Canon[r] \in Rules /\ Canon[Canon[r]] = Canon[r]

(* what ListBlocked* returns: the keys themselves (every spelling of a subnet is stored masked)          *)
Shown == mem

Init == /\ mem = {} /\ disk = {} /\ up = TRUE
        /\ call = NoCall /\ att = NoAtt
        /\ must = [r \in Rules |-> "never"]     \* "out" is reserved for: an Unblock returned success
        /\ op = [name |-> "init"]

----------------------------------------------------------------------------
(* rule calls *)

Begin(kind, r) ==
  /\ up /\ call = NoCall
  /\ Exclusive => att = NoAtt
  /\ call' = [kind |-> kind, r |-> r, pc |-> "atwrite", prev |-> must]
  \* while the call runs either answer is acceptable for its rule; the obligations are kept per SPELLING
  \* (as the harness ledger keeps them, which does not presume that "127.0.0.3/31" and "127.0.0.2/31" are
  \* one rule): an opposite obligation of another spelling of the same subnet lapses with the call
  /\ must' = [x \in Rules |->
               IF x = r THEN "free"
               ELSE IF Canon[x] = Canon[r] /\ must[x] = (IF kind = "block" THEN "out" ELSE "in")
                    THEN "free" ELSE must[x]]
  /\ op' = [name |-> "begin", kind |-> kind, r |-> r]
  /\ UNCHANGED <<mem, disk, up, att>>

WriteOk ==
  /\ up /\ call.pc = "atwrite"
  /\ disk' = IF call.kind = "block" THEN disk \cup {Canon[call.r]} ELSE disk \ {Canon[call.r]}
  /\ call' = [call EXCEPT !.pc = "written"]
  /\ op' = [name |-> "write", outcome |-> "ok", kind |-> call.kind, r |-> call.r]
  /\ UNCHANGED <<mem, up, att, must>>

WriteFail ==
  /\ "fail" \in Faults
  /\ up /\ call.pc = "atwrite"
  /\ call' = NoCall
  /\ must' = call.prev                        \* a call that returned an error obliges nothing new
  /\ op' = [name |-> "write", outcome |-> "fail", kind |-> call.kind, r |-> call.r, ret |-> "error"]
  /\ UNCHANGED <<mem, disk, up, att>>

Finish ==
  /\ up /\ call.pc = "written"
  /\ mem' = IF call.kind = "block" THEN mem \cup {Canon[call.r]} ELSE mem \ {Canon[call.r]}
  /\ call' = NoCall
  /\ must' = [must EXCEPT ![call.r] = IF call.kind = "block" THEN "in" ELSE "out"]
  /\ op' = [name |-> "finish", kind |-> call.kind, r |-> call.r, ret |-> "ok"]
  /\ UNCHANGED <<disk, up, att>>

Crash ==
  /\ "crash" \in Faults
  /\ up
  /\ Exclusive => att = NoAtt
  /\ up' = FALSE /\ mem' = {} /\ call' = NoCall /\ att' = NoAtt
  /\ op' = [name |-> "crash", at |-> IF call = NoCall THEN "idle" ELSE call.pc]
  /\ UNCHANGED <<disk, must>>                 \* an interrupted call leaves its rule "free"

Reopen ==
  /\ ~up
  /\ up' = TRUE /\ mem' = disk                \* loadRules
  /\ op' = [name |-> "reopen"]
  /\ UNCHANGED <<disk, call, att, must>>

----------------------------------------------------------------------------
(* connection attempts *)

AttStart(dir, p, ip, t, pre, opt) ==
  /\ up /\ att = NoAtt
  /\ Exclusive => call = NoCall
  /\ dir = "in" => (pre = "none" /\ opt = "plain")        \* the listener side does not look at either
  /\ att' = [dir |-> dir, peer |-> p, ip |-> ip, tpt |-> t, pre |-> pre, opt |-> opt, k |-> 1,
             cont |-> Matching(p, ip),
             \* the rules whose Block had RETURNED when the attempt began (and that stay in force)
             blk |-> {r \in Matching(p, ip) : must[r] = "in"}]
  /\ op' = [name |-> "att_start", dir |-> dir, peer |-> p, ip |-> ip, tpt |-> t, pre |-> pre, opt |-> opt]
  /\ UNCHANGED <<mem, disk, up, call, must>>

(* One stage.  cont = the matching rules that were in mem at EVERY consultation of this connection so    *)
(* far - for a connection that arrives at a listener (inbound, hole punch): in mem when it arrived and   *)
(* at every consultation since; blk = the rules blocked (call returned) before the attempt began and in  *)
(* mem ever since.                                                                                       *)
AttStep ==
  /\ up /\ att.k >= 1
  /\ LET sts == Stages(att.dir, att.tpt, att.pre, att.opt)
         st == sts[att.k]
         b == att.blk \cap mem
         base == [name |-> "att_step", dir |-> att.dir, peer |-> att.peer, ip |-> att.ip, tpt |-> att.tpt,
                  pre |-> att.pre, opt |-> att.opt, stage |-> st, blk |-> b]
     IN IF st \in {"reuse", "noconn"}
        THEN /\ att' = NoAtt
             /\ op' = base @@ [allow |-> TRUE, end |-> IF st = "reuse" THEN "reused" ELSE "noconn", cont |-> {}]
        ELSE IF st = "tdial"
        THEN /\ att' = [att EXCEPT !.k = @ + 1, !.blk = b]
             /\ op' = base @@ [allow |-> TRUE, end |-> "-", cont |-> att.cont]
        ELSE IF st = "arrive"
        THEN /\ att' = [att EXCEPT !.k = @ + 1, !.blk = b, !.cont = Matching(att.peer, att.ip) \cap mem]
             /\ op' = base @@ [allow |-> TRUE, end |-> "-", cont |-> Matching(att.peer, att.ip) \cap mem]
        ELSE LET allow == Gate(st, att.dir, att.peer, att.ip, mem)
                 c == att.cont \cap mem
             IN IF ~allow
                THEN /\ att' = NoAtt
                     /\ op' = base @@ [allow |-> FALSE, end |-> "refused", cont |-> c]
                ELSE IF att.k = Len(sts)
                THEN /\ att' = NoAtt
                     /\ op' = base @@ [allow |-> TRUE, end |-> "admitted", cont |-> c]
                ELSE /\ att' = [att EXCEPT !.k = @ + 1, !.cont = c, !.blk = b]
                     /\ op' = base @@ [allow |-> TRUE, end |-> "-", cont |-> c]
  /\ UNCHANGED <<mem, disk, up, call, must>>

Next == \/ \E kind \in {"block", "unblock"}, r \in Rules : Begin(kind, r)
        \/ WriteOk \/ WriteFail \/ Finish \/ Crash \/ Reopen
        \/ \E e \in Endpoints, d \in Dirs, t \in Tpts, pre \in Pres, o \in Opts : AttStart(d, e[1], e[2], t, pre, o)
        \/ AttStep

Spec == Init /\ [][Next]_vars

----------------------------------------------------------------------------
(* Properties *)

TypeOK == /\ mem \subseteq Rules /\ disk \subseteq Rules /\ up \in BOOLEAN
          /\ call.kind \in {"none", "block", "unblock"} /\ call.pc \in {"-", "atwrite", "written"}
          /\ att.k \in 0..7 /\ att.cont \subseteq Rules /\ att.blk \subseteq Rules
          /\ \A r \in Rules : must[r] \in {"in", "out", "never", "free"}
          /\ ~up => (call = NoCall /\ att = NoAtt /\ mem = {})

(* Durable, in its "wherever the process stopped" form: what the successfully returned calls oblige *)
(* is on disk at EVERY moment (so it is what any later Reopen loads) ...                            *)
DurableDisk == \A r \in Rules : /\ must[r] = "in" => Canon[r] \in disk
                                /\ must[r] = "out" => Canon[r] \notin disk
(* ... and is the rule set of every running process, in particular of every reopened one           *)
(* (a rule whose Unblock returned success is neither in force nor listed any more)                  *)
Durable == up => \A r \in Rules : /\ must[r] = "in" => (Canon[r] \in mem /\ Canon[r] \in Shown)
                                  /\ must[r] = "out" => (Canon[r] \notin mem /\ r \notin Shown)

(* nothing that was never blocked with success (or is being blocked) is in force: outside the       *)
(* statement, kept as a design invariant                                                            *)
NoSpurious == \A k \in mem \cup disk : \E r \in Rules : Canon[r] = k /\ must[r] # "never"

(* outside a call the process and the datastore agree *)
MemDiskAgree == (up /\ call = NoCall) => mem = disk

(* the mechanism: the datastore write precedes the in-memory update *)
WriteBeforeMem ==
  [][(up /\ up') => /\ \A r \in mem' \ mem : r \in disk
                    /\ \A r \in mem \ mem' : r \notin disk]_vars

(* NeverAdmitted: a connection all of whose consultations happened while one matching rule was in *)
(* mem - for a connection arriving at a listener: in mem from its arrival on - is not admitted     *)
NeverAdmitted ==
  [][(op'.name = "att_step" /\ op'.end = "admitted") => op'.cont = {}]_vars

(* DialRefusedEarly: no transport dial is started for a peer/address that was blocked throughout   *)
(* the consultations preceding it                                                                  *)
DialRefusedEarly ==
  [][(op'.name = "att_step" /\ op'.stage = "tdial") => op'.cont = {}]_vars

(* where the statement says it happens: address/subnet at accept, peer right after the handshake   *)
ClosedAtAccept ==
  [][(op'.name = "att_step" /\ op'.stage = "accept" /\ IPBlocked(att.ip, mem)) => ~op'.allow]_vars
ClosedAfterHandshake ==
  [][(op'.name = "att_step" /\ op'.stage = "secured_in" /\ att.peer \in mem) => ~op'.allow]_vars

(* The statement's clause as such: once BlockPeer/BlockAddr/BlockSubnet has RETURNED (and the rule is  *)
(* not unblocked), no NEW connection to or from a matching remote is admitted and no transport dial is  *)
(* started - whatever the swarm already holds for the peer and however the attempt is made.             *)
NoNewConnOnceBlocked ==
  [][(op'.name = "att_step" /\ (op'.end = "admitted" \/ op'.stage = "tdial")) => op'.blk = {}]_vars

(* every path that creates a connection passes the consultations the statement names: peer and address  *)
(* before the transport dial, and - for whatever arrives at a listener - accept and the inbound check   *)
(* after the handshake                                                                                   *)
Has(sts, x) == \E i \in 1..Len(sts) : sts[i] = x
Before(sts, x, y) == \E i, j \in 1..Len(sts) : i < j /\ sts[i] = x /\ sts[j] = y
PathsGated ==
  \A d \in Dirs, t \in Tpts, pre \in Pres, o \in Opts :
    LET sts == Stages(d, t, pre, o) IN
      /\ Has(sts, "tdial") => (Before(sts, "peerdial", "tdial") /\ Before(sts, "addrdial", "tdial"))
      /\ Has(sts, "arrive") => (Before(sts, "arrive", "accept") /\ Before(sts, "accept", "secured_in"))
      /\ Has(sts, "upgraded") => (Has(sts, "secured_in") \/ (Has(sts, "peerdial") /\ Has(sts, "addrdial")))
      /\ d = "in" => (Has(sts, "accept") /\ Has(sts, "secured_in"))

(* an attempt made while no matching rule is in mem at any consultation is admitted *)
NotOverBlocking ==
  [][(op'.name = "att_step" /\ op'.end = "refused") => Matching(att.peer, att.ip) \cap mem # {}]_vars

(* vacuity probes: expected to be VIOLATED *)
ReachMemDiskDiffer == ~(up /\ mem # disk)
ReachFreeAfterReopen == ~(up /\ call = NoCall /\ \E r \in Rules : must[r] = "free")
ReachHolePunchArrivalRefused ==   \* a block that lands between the transport dial and the arrival at the listener
  [][~(op'.name = "att_step" /\ op'.end = "refused" /\ att.dir = "out" /\ op'.stage \in {"accept", "secured_in"})]_vars
ReachAdmittedWhileSomeRule ==
  [][~(op'.name = "att_step" /\ op'.end = "admitted" /\ Matching(att.peer, att.ip) \cap mem # {})]_vars
=============================================================================
