\* Template: checks/C10.py instantiates the constants for every bounded instance.
CONSTANTS
  PeerRules = {"p2"}
  AddrRules = {"a2"}
  SubnetRules = {"n31"}
  EPs = {"e22", "e23"}
  Dirs = {"out", "in"}
  Tpts = {"tcp"}
  Pres = {"none"}
  Opts = {"plain"}
  Faults = {"fail", "crash"}
  Exclusive = FALSE
  Match <- MCMatch
  Canon <- MCCanon
  Endpoints <- MCEndpoints
INIT Init
NEXT Next
VIEW View
INVARIANTS TypeOK DurableDisk Durable NoSpurious MemDiskAgree PathsGated
PROPERTIES WriteBeforeMem NeverAdmitted DialRefusedEarly NoNewConnOnceBlocked ClosedAtAccept ClosedAfterHandshake NotOverBlocking
