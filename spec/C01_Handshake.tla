--------------------------- MODULE C01_Handshake ---------------------------
(***************************************************************************)
(* C01 - security handshakes authenticate the remote peer's identity.      *)
(*                                                                         *)
(* Three machines over one pair of variables (st, op); the cfg picks one   *)
(* with INIT InitX / NEXT NextX.                                           *)
(*                                                                         *)
(* Part N  symbolic (Dolev-Yao) model of the Noise XX handshake of         *)
(*         p2p/security/noise: handshake.go runHandshake /                 *)
(*         handleRemoteHandshakePayload, transport.go, session_transport.go*)
(*         Terms, not bytes: DH keys are names, DH(x,y) is the set {x,y},  *)
(*         Sig(id,k) is a term, an AEAD field opens iff the receiver's     *)
(*         handshake hash (prologue + every field processed so far) and DH *)
(*         outputs equal the sender's.  The attacker M owns the wire and   *)
(*         its own identity / static / ephemeral keys.                     *)
(* Part T  the libp2p TLS certificate verifier (p2p/security/tls/crypto.go *)
(*         ConfigForPeer / PubKeyFromCertChain) against a malicious        *)
(*         endpoint with a crafted certificate; the TLS 1.3 channel        *)
(*         (CertificateVerify binds the certificate key) is an assumption. *)
(* Part S  swarm: Dial(P) over transports that may return a connection     *)
(*         authenticated as somebody else (swarm_dial.go dialAddr/dialPeer)*)
(* Part U  the expected-peer rule crossed with ROLE at the upgrader and at   *)
(*         the TCP transport's Dial (server role of a simultaneous connect) *)
(* Part F  faults inside the handshake (I/O errors, EOF, deadline, panic,  *)
(*         cancellation at every I/O index; failing user callbacks)        *)
(* Part H  the QUIC transport's own Dial contract: plain dial and the      *)
(*         hole-punch path where an ACCEPTED connection completes the dial *)
(***************************************************************************)
EXTENDS Naturals, Sequences, FiniteSets, TLC

CONSTANTS MaxEdits,   \* N: attacker edits per handshake
          Variant,    \* "code" = the rules of the real code; other values are deliberately broken
                      \*   rules used as vacuity guards (TLC must find the attack)
          ExpI, ExpR, \* N: expected-peer settings explored for the initiator / the responder
          Pros,       \* N: prologue pairings explored
          Warm,       \* process histories explored: FALSE = the attack meets a fresh process, TRUE = honest
                      \*   sessions between the same identities (same transport/verifier objects, both
                      \*   directions) completed first.  The rules below have no memory, so the verdicts must
                      \*   not depend on it; the replay runs both histories on the real code, where a cache,
                      \*   memo or pool keyed too weakly would make them differ
          TMaxMut,    \* T: certificate mutations per behaviour
          SAddrs      \* S: number of addresses of the dialled peer

VARIABLES st, op
vars == <<st, op>>
View == st

NoID == ""

(***************************************************************************)
(*                                PART N                                   *)
(***************************************************************************)
\* Agents: I, R (session 1, honest), I2, R2 (an earlier/parallel honest session between the same two
\* identities), M (attacker).  Identities: "A" (initiator's host), "B" (responder's host), "M".
IdOfAgent(a) == CASE a \in {"I", "I2"} -> "A" [] a \in {"R", "R2"} -> "B" [] a = "M" -> "M" [] OTHER -> NoID
\* who holds the private half of a DH key ("eJ": a point nobody holds, e.g. a flipped key)
Holder(k) == CASE k \in {"eI", "sI"} -> "I" [] k \in {"eR", "sR"} -> "R" [] k \in {"eI2", "sI2"} -> "I2"
               [] k \in {"eR2", "sR2"} -> "R2" [] k \in {"eM", "sM"} -> "M" [] OTHER -> "nobody"
DH(x, y) == {x, y}
MCan(d) == \E k \in d : Holder(k) = "M"

\* identity signature over "noise-libp2p-static-key:" ++ static key
Sig(id, k) == [by |-> id, over |-> k]
Garbage == [by |-> "-", over |-> "-"]
VerifySig(idk, static, sg) ==
  CASE Variant = "nosig"      -> TRUE                      \* broken: Verify skipped
    [] Variant = "sigunbound" -> sg.by = idk               \* broken: signature not bound to the static key
    [] OTHER                  -> sg.by = idk /\ sg.over = static
Pay(id, static) == [id |-> id, sig |-> Sig(id, static)]

\* wire fields
E(k) == [t |-> "e", k |-> k]                 \* cleartext ephemeral key
Junk == [t |-> "junk"]                       \* bytes that are no ciphertext of anything
X == [t |-> "x"]                             \* extra cleartext in message 1 (hashed as its payload)
HEnc(pt, h, dh) == [t |-> "enc", pt |-> pt, h |-> h, dh |-> dh]
\* the attacker can key an AEAD field only if it can compute every DH output that went into the key
MEnc(pt, h, dh) == IF Variant = "nodh" \/ \A i \in 1..Len(dh) : MCan(dh[i]) THEN HEnc(pt, h, dh) ELSE Junk
JunkOf(f) == IF f.t = "e" THEN E("eJ") ELSE Junk
Opens(c, h, dh) == c.t = "enc" /\ (Variant = "noaead" \/ (c.h = h /\ c.dh = dh))

\* a frame: 2-byte length prefix (ok / larger than the body: the reader starves / smaller), fields,
\* extra bytes inside the frame; ghosts: who produced the bytes, and whether they are that producer's
\* unaltered output for this position of this exchange
\* (le: the length of the frame was already edited - two length edits of one message can undo each other
\* at the byte level, so the attacker model allows one per message)
Frame(f, by) == [pfx |-> "ok", f |-> f, ext |-> FALSE, le |-> FALSE, by |-> by, orig |-> TRUE]
JunkFrame == [pfx |-> "ok", f |-> <<Junk>>, ext |-> FALSE, le |-> TRUE, by |-> "M", orig |-> FALSE]
NF(k) == CASE k = 1 -> 1 [] k = 2 -> 3 [] OTHER -> 2

\* message 2 = e, enc(s), enc(payload): h = responder's hash after message 1, re = remote ephemeral
RespFields(Enc(_, _, _), h, re, er, sr, pay) ==
  LET h1 == Append(h, E(er))
      ee == DH(er, re)
      cS == Enc(sr, h1, <<ee>>)
      es == DH(sr, re)
      cP == Enc(pay, Append(h1, cS), <<ee, es>>)
  IN <<E(er), cS, cP>>
\* message 3 = enc(s), enc(payload): h = initiator's hash after message 2
InitFields(Enc(_, _, _), h, ei, si, re, rs, pay) ==
  LET ee == DH(ei, re)
      es == DH(ei, rs)
      cS == Enc(si, h, <<ee, es>>)
      se == DH(si, re)
      cP == Enc(pay, Append(h, cS), <<ee, es, se>>)
  IN <<cS, cP>>

\* configuration
ProOf(c) == CASE c.pro = "none" -> <<"", "">> [] c.pro = "eq" -> <<"p", "p">>
              [] c.pro = "diff" -> <<"p", "q">> [] OTHER -> <<"p", "">>
ProI(c) == ProOf(c)[1]
ProR(c) == ProOf(c)[2]
\* "match": the real counterpart's ID; "empty": no peer named; "diff": another peer (the attacker's
\* ID); "off": DisablePeerIDCheck given (with another peer named)
ExpID(setting, counterpart) == CASE setting = "match" -> counterpart [] setting = "empty" -> NoID [] OTHER -> "M"
\* the check flag as the code derives it: outbound always checks unless disabled (so an empty expected
\* peer can never succeed); inbound checks iff a peer was named and the check is not disabled
CheckI(c) == c.ei # "off"
CheckR(c) == IF Variant = "checkinit" THEN FALSE ELSE c.er \notin {"off", "empty"}
\* the statement's reading: the side named a peer and did not disable the check
NamedI(c) == c.ei \in {"match", "diff"}
NamedR(c) == c.er \in {"match", "diff"}

\* handleRemoteHandshakePayload, in code order
Handle(exp, chk, pay, rs) ==
  IF pay.id = "bad" THEN [r |-> "fail", why |-> "unmarshal", id |-> NoID]
  ELSE IF chk /\ exp # pay.id THEN [r |-> "fail", why |-> "mismatch", id |-> NoID]
  ELSE IF ~VerifySig(pay.id, rs, pay.sig) THEN [r |-> "fail", why |-> "sig", id |-> NoID]
  ELSE [r |-> "ok", why |-> "-", id |-> pay.id]

Seen(fr) == [by |-> fr.by, orig |-> fr.orig]
FailI(s, why) == [s EXCEPT !.iS = "fail", !.why = why]
FailR(s, why) == [s EXCEPT !.rS = "fail", !.why = why]

\* the initiator reads one frame as message 2 (readHandshakeMessage + handleRemoteHandshakePayload),
\* then sends message 3 and is done
IStep(c, s, fr) ==
  IF s.iS # "w2" \/ s.iPo THEN s
  ELSE IF fr.pfx = "big" THEN [s EXCEPT !.iPo = TRUE, !.why = "starve"]
  ELSE IF fr.pfx = "small" \/ Len(fr.f) < 3 THEN FailI(s, "short")
  ELSE
    LET x == fr.f[1]
        re == IF x.t = "e" THEN x.k ELSE "eJ"
        h1 == <<ProI(c), E("eI"), E(re)>>
        ee == DH("eI", re)
        cS == fr.f[2]
    IN IF ~Opens(cS, h1, <<ee>>) THEN FailI(s, "aead-s")
       ELSE
         LET rs == cS.pt
             h2 == Append(h1, cS)
             es == DH("eI", rs)
             cP == fr.f[3]
         IN IF fr.ext \/ ~Opens(cP, h2, <<ee, es>>) THEN FailI(s, "aead-p")
            ELSE
              LET hp == Handle(ExpID(c.ei, "B"), CheckI(c), cP.pt, rs) IN
              IF hp.r = "fail" THEN FailI(s, hp.why)
              ELSE
                LET flds == InitFields(HEnc, Append(h2, cP), "eI", "sI", re, rs, Pay("A", "sI")) IN
                [s EXCEPT !.iS = "ok", !.iRem = hp.id, !.iRe = re, !.iRs = rs, !.why = "-",
                          !.iCons = Append(@, Seen(fr)), !.out = <<Frame(flds, "I")>>]

\* the responder reads one frame as message 1 (then sends message 2) or as message 3
RStep(c, s, fr) ==
  IF s.rS \notin {"w1", "w3"} \/ s.rPo THEN s
  ELSE IF fr.pfx = "big" THEN [s EXCEPT !.rPo = TRUE, !.why = "starve"]
  ELSE IF s.rS = "w1" THEN
    IF fr.pfx = "small" \/ Len(fr.f) < 1 THEN FailR(s, "short")
    ELSE
      LET x == fr.f[1]
          re == IF x.t = "e" THEN x.k ELSE "eJ"
          \* whatever follows the key inside the frame is message 1's (cleartext) payload: hashed, ignored
          h0 == <<ProR(c), E(re)>> \o (IF fr.ext \/ Len(fr.f) > 1 THEN <<X>> ELSE <<>>)
          flds == RespFields(HEnc, h0, re, "eR", "sR", Pay("B", "sR"))
      IN [s EXCEPT !.rS = "w3", !.reR = re, !.hR = h0 \o flds, !.why = "-",
                   !.rCons = Append(@, Seen(fr)), !.out = <<Frame(flds, "R")>>, !.m2 = <<Frame(flds, "R")>>]
  ELSE
    IF fr.pfx = "small" \/ Len(fr.f) < 2 THEN FailR(s, "short")
    ELSE
      LET re == s.reR
          ee == DH("eR", re)
          es == DH("sR", re)
          cS == fr.f[1]
      IN IF ~Opens(cS, s.hR, <<ee, es>>) THEN FailR(s, "aead-s")
         ELSE
           LET rs == cS.pt
               se == DH("eR", rs)
               cP == fr.f[2]
           IN IF fr.ext \/ ~Opens(cP, Append(s.hR, cS), <<ee, es, se>>) THEN FailR(s, "aead-p")
              ELSE
                LET hp == Handle(ExpID(c.er, "A"), CheckR(c), cP.pt, rs) IN
                IF hp.r = "fail" THEN FailR(s, hp.why)
                ELSE [s EXCEPT !.rS = "ok", !.rRem = hp.id, !.rRs = rs, !.why = "-",
                               !.rCons = Append(@, Seen(fr))]

\* the other honest session between the same identities under the same prologues (for splicing/replay)
S2Fields2(c) == RespFields(HEnc, <<ProR(c), E("eI2")>>, "eI2", "eR2", "sR2", Pay("B", "sR2"))
S2Msg(c, k) ==
  CASE k = 1 -> Frame(<<E("eI2")>>, "I2")
    [] k = 2 -> Frame(S2Fields2(c), "R2")
    [] OTHER -> Frame(InitFields(HEnc, <<ProI(c), E("eI2")>> \o S2Fields2(c), "eI2", "sI2", "eR2", "sR2", Pay("A", "sI2")), "I2")
S2Has(c, k) == k < 3 \/ ProI(c) = ProR(c)

InitN ==
  \E ei \in ExpI, er \in ExpR, pro \in Pros, w \in Warm :
    /\ st = [part |-> "N", cfg |-> [ei |-> ei, er |-> er, pro |-> pro], warm |-> w, warmed |-> ~w,
             k |-> 1, air |-> <<Frame(<<E("eI")>>, "I")>>,
             iS |-> "w2", rS |-> "w1", iRem |-> NoID, rRem |-> NoID, iPo |-> FALSE, rPo |-> FALSE,
             hR |-> <<>>, reR |-> "-", iRe |-> "-", iRs |-> "-", rRs |-> "-",
             iCons |-> <<>>, rCons |-> <<>>, m2 |-> <<>>, out |-> <<>>, why |-> "-",
             edits |-> 0, tr |-> <<>>]
    /\ op = [name |-> "start", ei |-> ei, er |-> er, pro |-> pro, warm |-> w]

\* the honest sessions of the warm history (before the attacked session starts)
WarmN ==
  /\ st.part = "N" /\ st.warm /\ ~st.warmed
  /\ st' = [st EXCEPT !.warmed = TRUE, !.tr = Append(@, "warm")]
  /\ op' = [name |-> "warm"]

Code(e) == e.kind \o ":" \o ToString(e.a)
Obs(s) == [iS |-> s.iS, rS |-> s.rS, iRem |-> s.iRem, rRem |-> s.rRem]

\* ---- attacker edits of the message in flight.  Each abstract edit stands for a family of byte-level
\* edits which the harness enumerates on the real message (layout measured on a dry run):
\*   drop / dup / inject   the frame is withheld / delivered twice / followed by a junk frame
\*   flip(i)               every byte of field i (e, enc(s), enc(payload)) flipped
\*   starve                the declared length exceeds what arrives: every 0 bit of the 2-byte prefix set,
\*                         or the body cut at every position with the prefix kept (Truncate, FlipField(length))
\*   lensmall              every 1 bit of the prefix cleared (FlipField(length))
\*   truncfix(b)           cut inside field b+1 at every position, prefix rewritten (Truncate)
\*   extfix(b)             junk inserted at field boundary b, prefix rewritten (Extend)
\*   splice                message k of the other session: replayed from its finished transcript, or swapped
\*                         live between two running sessions (SwapWithSession2, Replay)
\*   reflect               the target's own previous message sent back to it
\* (in the warm history only the edits that re-use genuine material are explored - drop, dup, splice,
\* reflect - next to all forgeries: those are what a weakly keyed memory could be fooled by)
EditsOf(s) ==
  IF Len(s.air) # 1 THEN {}
  ELSE IF s.warm THEN
    {[kind |-> "drop", a |-> 0]}
    \cup (IF s.air[1].pfx = "ok" THEN {[kind |-> "dup", a |-> 0]} ELSE {})
    \cup (IF S2Has(s.cfg, s.k) THEN {[kind |-> "splice", a |-> 0]} ELSE {})
    \cup (IF s.k = 2 \/ (s.k = 3 /\ s.m2 # <<>>) THEN {[kind |-> "reflect", a |-> 0]} ELSE {})
  ELSE
    LET fr == s.air[1]
        n == Len(fr.f)
    IN {[kind |-> "drop", a |-> 0]}
       \cup (IF fr.pfx = "ok"
             THEN {[kind |-> "dup", a |-> 0], [kind |-> "inject", a |-> 0]}
                  \cup {[kind |-> "flip", a |-> i] : i \in {j \in 1..n : fr.f[j] # JunkOf(fr.f[j])}}
             ELSE {})
       \cup (IF fr.pfx = "ok" /\ ~fr.le
             THEN {[kind |-> "starve", a |-> 0], [kind |-> "lensmall", a |-> 0]}
                  \cup {[kind |-> "truncfix", a |-> b] : b \in 0..(n - 1)}
                  \cup {[kind |-> "extfix", a |-> b] : b \in 0..n}
             ELSE {})
       \cup (IF S2Has(s.cfg, s.k) THEN {[kind |-> "splice", a |-> 0]} ELSE {})
       \cup (IF s.k = 2 \/ (s.k = 3 /\ s.m2 # <<>>) THEN {[kind |-> "reflect", a |-> 0]} ELSE {})

ApplyEdit(s, e) ==
  LET fr == s.air[1]
      n == Len(fr.f)
  IN CASE e.kind = "drop"     -> <<>>
       [] e.kind = "dup"      -> <<fr, [fr EXCEPT !.orig = FALSE]>>
       [] e.kind = "inject"   -> <<fr, JunkFrame>>
       [] e.kind = "starve"   -> <<[fr EXCEPT !.pfx = "big", !.le = TRUE, !.orig = FALSE]>>
       [] e.kind = "lensmall" -> <<[fr EXCEPT !.pfx = "small", !.le = TRUE, !.orig = FALSE]>>
       [] e.kind = "truncfix" -> <<[fr EXCEPT !.f = SubSeq(fr.f, 1, e.a), !.ext = FALSE, !.le = TRUE, !.orig = FALSE]>>
       [] e.kind = "extfix"   -> <<[fr EXCEPT !.f = [i \in 1..n |-> IF i > e.a THEN JunkOf(fr.f[i]) ELSE fr.f[i]],
                                               !.ext = TRUE, !.le = TRUE, !.orig = FALSE]>>
       [] e.kind = "flip"     -> <<[fr EXCEPT !.f[e.a] = JunkOf(fr.f[e.a]), !.orig = FALSE]>>
       [] e.kind = "splice"   -> <<S2Msg(s.cfg, s.k)>>
       [] OTHER (* reflect: the target's own last message *) ->
            IF s.k = 2 THEN <<[Frame(<<E("eI")>>, "I") EXCEPT !.orig = FALSE]>>
            ELSE <<[s.m2[1] EXCEPT !.orig = FALSE]>>

EditN ==
  /\ st.warmed /\ st.edits < MaxEdits
  /\ \E e \in EditsOf(st) :
       LET a == ApplyEdit(st, e) IN
       /\ a # st.air
       /\ st' = [st EXCEPT !.air = a, !.k = IF a = <<>> THEN 0 ELSE @, !.edits = @ + 1, !.tr = Append(@, Code(e))]
       /\ op' = [name |-> "edit", k |-> st.k, kind |-> e.kind, a |-> e.a]

\* ---- the message in flight reaches its target, which reads as long as it has input
Process(s0, k, frames) ==
  LET c == s0.cfg
      Step(s, fr) == IF k = 2 THEN IStep(c, s, fr) ELSE RStep(c, s, fr)
      s1 == Step(s0, frames[1])
  IN IF Len(frames) > 1 THEN Step(s1, frames[2]) ELSE s1

\* (a starved reader would swallow whatever comes next as the rest of the body it waits for; what that
\* parses to depends on byte counts, so nothing more is delivered to it: the attacker can only go away)
TargetStarved(s) == IF s.k = 2 THEN s.iPo ELSE s.rPo
DeliverN ==
  /\ st.warmed /\ Len(st.air) > 0 /\ ~TargetStarved(st)
  /\ LET s1 == Process([st EXCEPT !.air = <<>>, !.out = <<>>], st.k, st.air)
         s2 == [s1 EXCEPT !.air = s1.out, !.out = <<>>, !.k = IF s1.out # <<>> THEN (IF st.k = 2 THEN 3 ELSE 2) ELSE 0,
                          !.tr = Append(@, "deliver")]
     IN /\ st' = s2
        /\ op' = [name |-> "deliver", k |-> st.k, emit |-> s1.out # <<>>, why |-> s1.why] @@ Obs(s2)

\* ---- the attacker originates a message of its own
PayVariants == {"own", "claimM", "claimO", "claimG", "ownG", "bad", "relay"}
ForgePay(v, victim, other, cur) ==
  CASE v = "own"    -> [sp |-> "sM", pay |-> Pay("M", "sM")]
    [] v = "claimM" -> [sp |-> "sM", pay |-> [id |-> victim, sig |-> Sig("M", "sM")]]
    [] v = "claimO" -> [sp |-> "sM", pay |-> [id |-> victim, sig |-> Sig(victim, other)]]
    [] v = "claimG" -> [sp |-> "sM", pay |-> [id |-> victim, sig |-> Garbage]]
    [] v = "ownG"   -> [sp |-> "sM", pay |-> [id |-> "M", sig |-> Garbage]]
    [] v = "bad"    -> [sp |-> "sM", pay |-> [id |-> "bad", sig |-> Garbage]]
    [] OTHER        -> [sp |-> cur, pay |-> Pay(victim, cur)]
\* the victim's payload of THIS session is known to the attacker only if it was encrypted to the attacker
KnowB(s) == s.reR = "eM"
KnowA(s) == s.iS = "ok" /\ s.iRe = "eM" /\ s.iRs = "sM"

ForgeN ==
  /\ st.warmed /\ st.edits < MaxEdits
  /\ \E kk \in 1..3, v \in PayVariants :
       /\ kk = 1 => (v = "own" /\ st.rS = "w1" /\ ~st.rPo)
       /\ kk = 2 => (st.iS = "w2" /\ ~st.iPo /\ st.k \in {0, 2} /\ (v = "relay" => KnowB(st)))
       /\ kk = 3 => (st.rS = "w3" /\ ~st.rPo /\ (v = "relay" => KnowA(st)))
       /\ LET c == st.cfg
              fp == IF kk = 2 THEN ForgePay(v, "B", "sR2", "sR") ELSE ForgePay(v, "A", "sI2", "sI")
              flds == CASE kk = 1 -> <<E("eM")>>
                        [] kk = 2 -> RespFields(MEnc, <<ProI(c), E("eI")>>, "eI", "eM", fp.sp, fp.pay)
                        [] OTHER  -> InitFields(MEnc, st.hR, st.reR, fp.sp, "eR", "sR", fp.pay)
              keep == IF st.k = kk THEN <<>> ELSE st.air       \* the honest message kk in flight is discarded
              s1 == Process([st EXCEPT !.air = <<>>, !.out = <<>>], kk, <<Frame(flds, "M")>>)
              na == IF s1.out # <<>> THEN s1.out ELSE keep
              s2 == [s1 EXCEPT !.air = na, !.out = <<>>,
                               !.k = IF s1.out # <<>> THEN (IF kk = 2 THEN 3 ELSE 2) ELSE IF keep # <<>> THEN st.k ELSE 0,
                               !.edits = @ + 1, !.tr = Append(@, "forge" \o ToString(kk) \o ":" \o v)]
          IN /\ (s1.out # <<>> => keep = <<>>)
             /\ st' = s2
             /\ op' = [name |-> "forge", k |-> kk, v |-> v, emit |-> s1.out # <<>>, why |-> s1.why] @@ Obs(s2)

\* ---- nothing in flight any more: the attacker closes both connections
CloseN ==
  /\ st.warmed
  /\ st.air = <<>> \/ TargetStarved(st)
  /\ st.iS = "w2" \/ st.rS \in {"w1", "w3"}
  /\ LET s2 == [st EXCEPT !.iS = IF @ = "w2" THEN "fail" ELSE @, !.rS = IF @ \in {"w1", "w3"} THEN "fail" ELSE @,
                          !.k = 0, !.tr = Append(@, "close")]
     IN /\ st' = [s2 EXCEPT !.air = <<>>]
        /\ op' = [name |-> "close"] @@ Obs(s2)

NextN == WarmN \/ EditN \/ DeliverN \/ ForgeN \/ CloseN

\* ---- the statement
DoneI == st.part = "N" /\ st.iS = "ok"
DoneR == st.part = "N" /\ st.rS = "ok"
\* the reported remote peer is the ID of the identity key held by whoever holds the static key used
AuthN == /\ DoneI => st.iRem = IdOfAgent(Holder(st.iRs))
         /\ DoneR => st.rRem = IdOfAgent(Holder(st.rRs))
\* a named expected peer is the reported one
ExpectN == /\ (DoneI /\ NamedI(st.cfg)) => st.iRem = ExpID(st.cfg.ei, "B")
           /\ (DoneR /\ NamedR(st.cfg)) => st.rRem = ExpID(st.cfg.er, "A")
\* every message a completed side consumed is the unaltered output of ONE live agent of this exchange
\* (its honest counterpart or the attacker speaking for itself), and that agent's ID is the reported one
Genuine(cons, x) == \A i \in 1..Len(cons) : cons[i].by = x /\ cons[i].orig
NoAlteredN == /\ DoneI => \E x \in {"R", "M"} : Genuine(st.iCons, x) /\ st.iRem = IdOfAgent(x)
              /\ DoneR => \E x \in {"I", "M"} : Genuine(st.rCons, x) /\ st.rRem = IdOfAgent(x)
\* both honest ends done with each other => they agree on the static keys
AgreeN == (DoneI /\ DoneR /\ st.iRem = "B" /\ st.rRem = "A") => (st.iRs = "sR" /\ st.rRs = "sI")
TypeOKN ==
  st.part = "N" =>
    /\ st.iS \in {"w2", "ok", "fail"} /\ st.rS \in {"w1", "w3", "ok", "fail"}
    /\ st.iRem \in {NoID, "A", "B", "M"} /\ st.rRem \in {NoID, "A", "B", "M"}
    /\ st.edits \in 0..MaxEdits /\ st.k \in 0..3 /\ Len(st.air) \in 0..2
    /\ (st.air # <<>>) = (st.k # 0)
    /\ (st.iS # "ok") => st.iRem = NoID
    /\ (st.rS # "ok") => st.rRem = NoID
\* vacuity guards (expected to be VIOLATED)
ReachBothDone == ~(DoneI /\ DoneR)
ReachMasI == ~(DoneI /\ st.iRem = "M")
ReachMasR == ~(DoneR /\ st.rRem = "M")

(***************************************************************************)
(*                                PART T                                   *)
(***************************************************************************)
\* The malicious endpoint holds the identity key "M" and the certificate key "kM"; it knows the public
\* certificate of the victim "V" (certificate key "kV", extension <V, Sig(V, kV)>).  The honest endpoint
\* runs ConfigForPeer(expected).  cert = [key, exts, chain].
TExt(pub, sg) == [pub |-> pub, sig |-> sg]
TGenuine == [key |-> "kM", exts |-> <<TExt("M", Sig("M", "kM"))>>, chain |-> 1]
TMuts(c) ==
  {[m |-> "extabsent", a |-> "-"]}
  \cup (IF Len(c.exts) = 1 THEN {[m |-> "extdup", a |-> "-"]} ELSE {})
  \cup {[m |-> "chain", a |-> n] : n \in {"0", "2"}}
  \cup {[m |-> "certkey", a |-> k] : k \in {"kV", "kX"}}
  \cup (IF Len(c.exts) >= 1
        THEN {[m |-> "extpub", a |-> p] : p \in {"V", "bad"}}
             \cup {[m |-> "extsig", a |-> s] : s \in {"victim", "garbage", "otherkey", "malformed"}}
        ELSE {})
TApply(c, mu) ==
  CASE mu.m = "extabsent" -> [c EXCEPT !.exts = <<>>]
    [] mu.m = "extdup"    -> [c EXCEPT !.exts = c.exts \o c.exts]
    [] mu.m = "chain"     -> [c EXCEPT !.chain = IF mu.a = "0" THEN 0 ELSE 2]
    [] mu.m = "certkey"   -> [c EXCEPT !.key = mu.a]
    [] mu.m = "extpub"    -> [c EXCEPT !.exts[1].pub = mu.a]
    [] OTHER (* extsig *) -> [c EXCEPT !.exts[1].sig =
                               CASE mu.a = "victim"   -> Sig("V", "kV")       \* the victim's genuine signature
                                 [] mu.a = "otherkey" -> Sig("M", "kX")       \* own signature over another key
                                 [] mu.a = "garbage"  -> Garbage              \* well-formed, signs nothing
                                 [] OTHER             -> [by |-> "!", over |-> "!"]]   \* not even a signature

\* the honest side's verdict, in the order the code and crypto/tls evaluate: x509 parse (duplicate
\* extensions are a parse error), chain length, extension lookup, signed key, expected peer, and then
\* (stdlib, assumed) CertificateVerify under the certificate key - the malicious side can only sign
\* with kM.  chain = 0 is refused by crypto/tls itself (RequireAnyClientCert / a server has no choice).
TVerdict(c, exp) ==
  IF c.chain = 0 THEN [ok |-> FALSE, why |-> "nocert", rem |-> NoID]
  ELSE IF Len(c.exts) > 1 THEN [ok |-> FALSE, why |-> "parse", rem |-> NoID]
  ELSE IF c.chain # 1 /\ Variant # "chain2" THEN [ok |-> FALSE, why |-> "chain", rem |-> NoID]
  ELSE IF Len(c.exts) = 0 THEN [ok |-> FALSE, why |-> "noext", rem |-> NoID]
  ELSE
    LET x == c.exts[1] IN
    IF x.pub = "bad" THEN [ok |-> FALSE, why |-> "key", rem |-> NoID]
    ELSE IF x.sig.by = "!" /\ Variant # "nosig" THEN [ok |-> FALSE, why |-> "sigerr", rem |-> NoID]
    ELSE IF ~VerifySig(x.pub, c.key, x.sig) THEN [ok |-> FALSE, why |-> "sig", rem |-> NoID]
    ELSE IF exp # NoID /\ exp # x.pub THEN [ok |-> FALSE, why |-> "mismatch", rem |-> NoID]
    ELSE IF c.key # "kM" THEN [ok |-> FALSE, why |-> "certverify", rem |-> NoID]
    ELSE [ok |-> TRUE, why |-> "-", rem |-> x.pub]

TExpID(e) == CASE e = "M" -> "M" [] e = "V" -> "V" [] OTHER -> NoID
InitT ==
  \/ \E mal \in {"client", "server"}, e \in {"M", "V", "empty"}, w \in Warm :
       /\ st = [part |-> "T", mal |-> mal, exp |-> e, ec |-> "-", es |-> "-", cert |-> TGenuine, muts |-> 0, tr |-> <<>>,
                warm |-> w, warmed |-> ~w, done |-> FALSE, ok |-> FALSE, rem |-> NoID]
       /\ op = [name |-> "startT", mal |-> mal, exp |-> e, warm |-> w]
  \* two honest endpoints C (client) and S (server), each with its own expected-peer setting
  \/ \E ec \in {"match", "diff", "empty"}, es \in {"match", "diff", "empty"} :
       /\ st = [part |-> "T", mal |-> "none", exp |-> "-", ec |-> ec, es |-> es, cert |-> TGenuine, muts |-> 0, tr |-> <<>>,
                warm |-> FALSE, warmed |-> TRUE, done |-> FALSE, ok |-> FALSE, rem |-> NoID]
       /\ op = [name |-> "startT", mal |-> "none", ec |-> ec, es |-> es]
\* warm history: the honest side and the victim V (whose genuine certificate the attacker copies from)
\* complete honest handshakes in both directions first
WarmT ==
  /\ st.part = "T" /\ st.warm /\ ~st.warmed
  /\ st' = [st EXCEPT !.warmed = TRUE, !.tr = Append(@, "warm")]
  /\ op' = [name |-> "warm"]
MutateT ==
  /\ st.warmed /\ ~st.done /\ st.muts < TMaxMut /\ st.mal # "none"
  /\ \E mu \in TMuts(st.cert) :
       /\ TApply(st.cert, mu) # st.cert
       /\ st' = [st EXCEPT !.cert = TApply(st.cert, mu), !.muts = @ + 1, !.tr = Append(@, mu.m \o ":" \o mu.a)]
       /\ op' = [name |-> "mutate", m |-> mu.m, a |-> mu.a]
\* what the two real endpoints report: the honest side's SecureInbound/SecureOutbound result; the
\* malicious side (an unmodified transport apart from its certificate, expecting nobody) accepts the
\* honest certificate - as a client it learns of the server's refusal at its first Read
HandshakeT ==
  /\ st.warmed /\ ~st.done /\ st.mal # "none"
  /\ LET v == TVerdict(st.cert, TExpID(st.exp)) IN
     /\ st' = [st EXCEPT !.done = TRUE, !.ok = v.ok, !.rem = v.rem, !.tr = Append(@, "handshake")]
     /\ op' = [name |-> "handshake", hok |-> v.ok, hrem |-> v.rem, why |-> v.why,
               \* a malicious client completes its own handshake even when the server refuses it
               mok |-> (v.ok \/ (st.mal = "client" /\ v.why \notin {"nocert"})),
               mread |-> v.ok]
\* honest against honest: the client verifies the server's certificate during the handshake; the server
\* verifies the client's after the client has already finished (TLS 1.3), so a client refused by the
\* server returns success and learns of the refusal at its first Read
HonestT ==
  /\ ~st.done /\ st.mal = "none"
  /\ LET cok == st.ec \in {"match", "empty"}
         sok == cok /\ st.es \in {"match", "empty"}
     IN /\ st' = [st EXCEPT !.done = TRUE, !.ok = cok /\ sok, !.tr = Append(@, "honest")]
        /\ op' = [name |-> "honest", cok |-> cok, sok |-> sok, crem |-> IF cok THEN "S" ELSE NoID,
                  srem |-> IF sok THEN "C" ELSE NoID, cread |-> cok /\ sok]
NextT == WarmT \/ MutateT \/ HandshakeT \/ HonestT
\* whoever is accepted is the holder of the identity key "M" (nobody else's private key is in the
\* malicious endpoint's hands), under the certificate it really controls, in the one-certificate form
AuthT == (st.part = "T" /\ st.mal # "none" /\ st.done /\ st.ok) =>
           /\ st.rem = "M"
           /\ st.cert.key = "kM" /\ st.cert.chain = 1 /\ Len(st.cert.exts) = 1
           /\ st.cert.exts[1] = TExt("M", Sig("M", "kM"))
ExpectT == (st.part = "T" /\ st.mal # "none" /\ st.done /\ st.ok /\ st.exp # "empty") => st.rem = TExpID(st.exp)
ReachAcceptT == ~(st.part = "T" /\ st.mal # "none" /\ st.done /\ st.ok)
ReachVictimCertT == ~(st.part = "T" /\ st.cert = [key |-> "kV", exts |-> <<TExt("V", Sig("V", "kV"))>>, chain |-> 1])

(***************************************************************************)
(*                                PART S                                   *)
(***************************************************************************)
\* DialPeer(P): the dial worker tries the addresses in order; the transport behind address i returns
\* a connection authenticated as "P", as somebody else "Q", or fails.
SOut == {"P", "Q", "fail"}
\* result of trying addresses i..n: [res, visible (connections the application saw), closed (wrong
\* connections closed), tried]
RECURSIVE SDial(_, _, _)
SDial(outs, i, acc) ==
  IF i > Len(outs) THEN [acc EXCEPT !.res = "err"]
  ELSE
    LET o == outs[i]
        a == [acc EXCEPT !.tried = @ + 1]
    IN CASE o = "fail" -> SDial(outs, i + 1, a)
         [] o = "P"    -> [a EXCEPT !.res = "P", !.visible = @ \cup {"P"}]
         [] OTHER      ->
              IF Variant \in {"noaddrcheck", "nochecks"}
              THEN \* dialAddr lets it through: the worker adds it to the swarm and answers the request
                   IF Variant = "nochecks" THEN [a EXCEPT !.res = "Q", !.visible = @ \cup {"Q"}]
                   ELSE [a EXCEPT !.res = "err", !.visible = @ \cup {"Q"}, !.closed = @ + 1]
              ELSE SDial(outs, i + 1, [a EXCEPT !.closed = @ + 1])
InitS ==
  \E n \in 1..SAddrs : \E outs \in [1..n -> SOut] : \E w \in Warm :
    /\ st = [part |-> "S", outs |-> outs, warm |-> w, warmed |-> ~w, done |-> FALSE, res |-> "-", visible |-> {},
             closed |-> 0, tried |-> 0]
    /\ op = [name |-> "startS", outs |-> outs, warm |-> w]
\* warm history: an honest dial of P succeeded (and its connection was closed) before
WarmS ==
  /\ st.part = "S" /\ st.warm /\ ~st.warmed
  /\ st' = [st EXCEPT !.warmed = TRUE]
  /\ op' = [name |-> "warm"]
DialS ==
  /\ st.warmed /\ ~st.done
  /\ LET r == SDial(st.outs, 1, [res |-> "-", visible |-> {}, closed |-> 0, tried |-> 0]) IN
     /\ st' = [st EXCEPT !.done = TRUE, !.res = r.res, !.visible = r.visible, !.closed = r.closed, !.tried = r.tried]
     /\ op' = [name |-> "dial", res |-> r.res, visible |-> r.visible, closed |-> r.closed, tried |-> r.tried]
NextS == WarmS \/ DialS
\* a dial for P never hands the application a connection authenticated as anyone else
DialAuthS == (st.part = "S" /\ st.done) => (st.res \in {"P", "err"} /\ st.visible \subseteq {"P"})
\* every connection to somebody else that a transport returned was closed
WrongClosedS == (st.part = "S" /\ st.done) =>
                  st.closed = Cardinality({i \in 1..st.tried : st.outs[i] = "Q"})
ReachWrongS == ~(st.part = "S" /\ st.done /\ st.closed > 0 /\ st.res = "P")
(***************************************************************************)
(*                                PART H                                   *)
(***************************************************************************)
\* Every way in which the QUIC transport's Dial(ctx, A, P) returns a connection
\* (p2p/transport/quic/transport.go Dial / holePunch, listener.go Accept):
\*   plain  the transport is the TLS client; ConfigForPeer(P) verifies whoever answers at A;
\*   punch  (simultaneous connect, server role) the dial registers an active hole punch and is completed
\*          by a connection its own LISTENER accepted - handed over iff it comes from address A AND is
\*          authenticated as P; everything else surfaces as an ordinary inbound connection.
\* Host X lives at address A, host Y at another address B; ownerA says which of them is P (the other is
\* Q, an honestly authenticated other peer).  Each may connect in once, at any time: before the punch is
\* registered, while it waits, after it ended.
HOther(x) == IF x = "P" THEN "Q" ELSE "P"
InitH ==
  \E path \in {"plain", "punch"}, o \in {"P", "Q"} :
    /\ st = [part |-> "H", path |-> path, ownerA |-> o, phase |-> "idle", res |-> "-", inbound |-> <<>>, arrived |-> {}]
    /\ op = [name |-> "startH", path |-> path, ownerA |-> o]
PlainH ==
  /\ st.path = "plain" /\ st.phase = "idle"
  /\ LET r == IF st.ownerA = "P" THEN "P" ELSE "err" IN
     /\ st' = [st EXCEPT !.phase = "done", !.res = r]
     /\ op' = [name |-> "plain", res |-> r]
StartH ==
  /\ st.path = "punch" /\ st.phase = "idle"
  /\ st' = [st EXCEPT !.phase = "punching"]
  /\ op' = [name |-> "punch"]
ArriveH ==
  /\ st.path = "punch"
  /\ \E from \in {"A", "B"} \ st.arrived :
       LET as == IF from = "A" THEN st.ownerA ELSE HOther(st.ownerA)
           handed == st.phase = "punching" /\ from = "A" /\ (Variant = "addronly" \/ as = "P")
       IN /\ st' = IF handed
                   THEN [st EXCEPT !.phase = "done", !.res = as, !.arrived = @ \cup {from}]
                   ELSE [st EXCEPT !.inbound = Append(@, as), !.arrived = @ \cup {from}]
          /\ op' = [name |-> "arrive", from |-> from, as |-> as, handed |-> handed,
                    res |-> IF handed THEN as ELSE st.res]
\* nobody (else) shows up: the punch ends by time-out / cancellation
CancelH ==
  /\ st.path = "punch" /\ st.phase = "punching"
  /\ st' = [st EXCEPT !.phase = "done", !.res = "err"]
  /\ op' = [name |-> "cancel", res |-> "err"]
NextH == PlainH \/ StartH \/ ArriveH \/ CancelH
\* the transport's Dial for P returns P's connection or an error; somebody else's connection always
\* surfaces as an inbound connection of its own
DialAuthH == st.part = "H" => (st.res \in {"-", "P", "err"} /\ Len(st.inbound) + (IF st.res = "P" /\ st.path = "punch" THEN 1 ELSE 0) = Cardinality(st.arrived))
ReachPunchedH == ~(st.part = "H" /\ st.path = "punch" /\ st.res = "P" /\ Len(st.inbound) > 0)
ReachRefusedH == ~(st.part = "H" /\ st.path = "punch" /\ st.res = "err" /\ "Q" \in {st.inbound[i] : i \in 1..Len(st.inbound)})
(***************************************************************************)
(*                                PART U                                   *)
(***************************************************************************)
\* The expected-peer rule crossed with ROLE above the security transports: the upgrader
\* (p2p/net/upgrader upgrade / setupSecurity) hands the peer it was given to SecureOutbound (client role)
\* or SecureInbound (server role).  A listener accepts with no peer named; but the TCP and websocket
\* DIALERS take the server role too - simultaneous connect, p2p/transport/tcp dialWithScope maps
\* isClient = false to DirInbound - and then the server role names the peer it dialled.
\*   via    "upgrade": Upgrade(ctx, t, conn, dir, named, scope) called directly
\*          "tcp":     the real TCP transport's Dial(ctx [with simultaneous connect], addr, P)
\*   sec    Noise | TLS;  mux  early (inside the handshake) | mss (multistream afterwards)
\*   role   client (DirOutbound) | server (DirInbound);  named  "P" | "" (nobody)
\*   ans    who answers in the complementary role: the host holding P's key, or another honest host M
InitU ==
  \E via \in {"upgrade", "tcp"}, sc \in {"noise", "tls"}, mux \in {"early", "mss"}, role \in {"client", "server"},
     named \in {"P", NoID}, ans \in {"P", "M"} :
    /\ via = "tcp" => named = "P"
    /\ st = [part |-> "U", via |-> via, sec |-> sc, mux |-> mux, role |-> role, named |-> named, ans |-> ans,
             done |-> FALSE, ok |-> FALSE, rem |-> NoID]
    /\ op = [name |-> "startU"]
UpgradeU ==
  /\ ~st.done
  /\ LET v == IF st.role = "client" /\ st.named = NoID THEN [ok |-> FALSE, why |-> "nilpeer"]     \* ErrNilPeer
              ELSE IF st.named = NoID THEN [ok |-> TRUE, why |-> "-"]                              \* a listener's accept
              ELSE IF st.ans = st.named \/ (Variant = "servernocheck" /\ st.role = "server") THEN [ok |-> TRUE, why |-> "-"]
              ELSE [ok |-> FALSE, why |-> "mismatch"]
     IN /\ st' = [st EXCEPT !.done = TRUE, !.ok = v.ok, !.rem = IF v.ok THEN st.ans ELSE NoID]
        /\ op' = [name |-> "upgrade", ok |-> v.ok, rem |-> IF v.ok THEN st.ans ELSE NoID, why |-> v.why]
NextU == UpgradeU
\* whenever a peer was named, in ANY role, a connection is returned only if it is that peer's; and the
\* reported peer is always the one that answered
ExpectU == (st.part = "U" /\ st.done /\ st.ok) => (st.rem = st.ans /\ (st.named # NoID => st.rem = st.named))
ReachServerNamedU == ~(st.part = "U" /\ st.done /\ st.ok /\ st.role = "server" /\ st.named = "P")
(***************************************************************************)
(*                                PART F                                   *)
(***************************************************************************)
\* Faults INSIDE a handshake, next to the wire edits: on one side of an otherwise honest handshake the
\* underlying connection fails at one of its Reads/Writes (the replay enumerates EVERY I/O index of that
\* side's handshake, counted on a dry run), or a user-supplied callback the transport invokes fails
\* (Noise EarlyDataHandler Send / Received of that side's role).  Kinds: the operation returns an error,
\* EOF / closed pipe, a deadline error, panics, or the caller's context is cancelled while it blocks.
\* Every such point lies before the side has finished authenticating and reporting, so a faulted side
\* never completes: the call returns an error (a propagating panic is acceptable too) - whatever peer
\* was named.  (TLS has no user-supplied callback inside the handshake: VerifyPeerCertificate and
\* GetConfigForClient are the transport's own.)
FKinds(point) == CASE point = "io"   -> {"error", "eof", "deadline", "panic", "cancel"}
                   [] point = "send" -> {"panic"}
                   [] OTHER          -> {"error", "panic"}
InitF ==
  \E proto \in {"noise", "tls"}, side \in {"client", "server"}, named \in {"match", "empty"} :
    \E point \in (IF proto = "noise" THEN {"io", "send", "received"} ELSE {"io"}) : \E kind \in FKinds(point) :
      /\ st = [part |-> "F", proto |-> proto, side |-> side, named |-> named, point |-> point, kind |-> kind,
               done |-> FALSE, ok |-> FALSE]
      /\ op = [name |-> "startF"]
FaultF ==
  /\ ~st.done
  /\ LET ok == Variant = "panicdone" /\ st.kind = "panic" IN      \* broken: a crashed handshake counts as done
     /\ st' = [st EXCEPT !.done = TRUE, !.ok = ok]
     /\ op' = [name |-> "fault", ok |-> ok]
NextF == FaultF
FaultFailsF == (st.part = "F" /\ st.done) => ~st.ok
=============================================================================
