\* Template: checks/C13.py instantiates Peers / Menu.
CONSTANTS
  Peers = {"V", "S", "W"}
  Menu = "lean"
INIT Init
NEXT Next
VIEW View
INVARIANTS TypeOK RecordOnlyOwn KeyMatches
PROPERTIES OnlyRemote HistoryFree
