---------------------------- MODULE C18_Verifier ----------------------------
(***************************************************************************)
(* The dialer side of C18 (p2p/transport/webtransport):                    *)
(*   Verify  crypto.go  verifyRawCerts(rawCerts, certHashes), installed as *)
(*           tls.Config.VerifyPeerCertificate with InsecureSkipVerify      *)
(*   Dial    transport.go  dial() + upgrade(): the TLS handshake pins the  *)
(*           served certificate against the hashes of the dialed address,  *)
(*           then the server's Noise early data must list EVERY hash the   *)
(*           dialer used.                                                  *)
(* Both are decision tables, so the module has a single state and one      *)
(* transition per input row; `op` carries the row and the decision.        *)
(*                                                                         *)
(* A Verify row describes a chain presented by the server and a hash list: *)
(*   S = the subject certificate with the row's algorithm / lifetime /     *)
(*       position of `now` in its validity window;                         *)
(*   C = a companion certificate: valid, ECDSA, 1 day, never in the list.  *)
(* The server certificate of a TLS handshake is the FIRST element of the   *)
(* chain (the handshake is signed with its key).                           *)
(***************************************************************************)
EXTENDS Integers, FiniteSets, Sequences, TLC

Chains == {"empty", "S", "S_C", "C_S"}
Lists  == {"empty", "absent", "sha256", "sha256_among_others", "othercode"}
Algs   == {"ecdsa", "ed25519", "rsa_pkcs1", "rsa_pss", "rsakey_ecdsasig", "eckey_rsasig"}
Lives  == {"1d", "14d", "14d1s"}
Whens  == {"notyet", "at_notbefore", "inside", "at_notafter", "expired"}

Rows == [chain : Chains, list : Lists, alg : Algs, life : Lives, when : Whens]

\* the hash of S is in the list, coded as SHA2-256
Pinned(r) == r.list \in {"sha256", "sha256_among_others"}
\* "not RSA": the certificate's key or its signature is RSA.  An ECDSA key certified by an RSA issuer is
\* left free (the statement does not say; the code refuses it).
IsRSA(r) == r.alg \in {"rsa_pkcs1", "rsa_pss", "rsakey_ecdsasig"}
RulesOK(r) == ~IsRSA(r) /\ r.life # "14d1s" /\ r.when \in {"at_notbefore", "inside", "at_notafter"}

\* the set of decisions the statement allows (TRUE = accept)
Allowed(r) ==
  IF r.chain = "empty" THEN {FALSE}
  ELSE IF r.chain = "C_S" THEN {FALSE}          \* the server certificate is C, which is not pinned
  ELSE IF ~(Pinned(r) /\ RulesOK(r)) THEN {FALSE}
  ELSE IF r.alg = "eckey_rsasig" THEN {TRUE, FALSE}
  ELSE IF r.chain = "S_C" THEN {TRUE, FALSE}    \* pinned server certificate followed by another one: the
                                                \* statement lets it pass, the code refuses (it looks at the last)
  ELSE {TRUE}

\* Dial: hash universe; the server serves "cur".  "curx" = the digest of cur under another hash-function code.
Hashes == {"cur", "next", "bogus", "curx"}
TLSAccepts(used) == "cur" \in used
Completes(used, list) == TLSAccepts(used) /\ used \subseteq list

\* DialChain: the server presents the chain <<cur, other>> (server certificate cur, followed by another,
\* valid certificate whose hash is "bogus").  The statement pins the SERVER certificate; with it pinned and everything confirmed both
\* outcomes are consistent with "only if".
ChainCompletes(used, list) == IF "cur" \notin used THEN {FALSE}
                              ELSE IF used \subseteq list THEN {TRUE, FALSE} ELSE {FALSE}

(* The verifier is asked again and again by one process while time passes: "currently valid" makes the
   verdict depend on the clock, so the model has one.  A behaviour picks a lifetime; all subject
   certificates of the behaviour share the window [NotBefore, NotAfter]; `pos` walks the clock through
   WhenSeq (1 s before NotBefore, exactly NotBefore, the middle, exactly NotAfter, 1 s after).  `seen` is
   the history: the algorithms whose subject certificate the verifier was allowed to accept earlier in the
   behaviour.  The property: the verdict is a function of (chain, hash list, now) - Allowed does not take
   `seen` - so any memoisation of verdicts across calls shows as a disagreement on a repeated query. *)
WhenSeq == <<"notyet", "at_notbefore", "inside", "at_notafter", "expired">>

VARIABLES pos, life, seen, op
vars == <<pos, life, seen, op>>
View == <<pos, life, seen>>

Init == pos = 0 /\ life = "none" /\ seen = {} /\ op = [name |-> "init"]

Choose(l) == /\ pos = 0
             /\ pos' = 1 /\ life' = l /\ seen' = {}
             /\ op' = [name |-> "choose", life |-> l]

Tick == /\ pos \in 1..4
        /\ pos' = pos + 1
        /\ UNCHANGED <<life, seen>>
        /\ op' = [name |-> "tick", to |-> WhenSeq[pos + 1]]

Verify(c, li, a) ==
  /\ pos >= 1
  /\ LET r == [chain |-> c, list |-> li, alg |-> a, life |-> life, when |-> WhenSeq[pos]]
     IN /\ op' = [name |-> "verify", chain |-> c, list |-> li, alg |-> a, life |-> life, when |-> WhenSeq[pos],
                  allowed |-> Allowed(r), repeat |-> a \in seen]
        /\ seen' = IF TRUE \in Allowed(r) THEN seen \cup {a} ELSE seen
  /\ UNCHANGED <<pos, life>>

Dial(used, list) == /\ pos = 0
                    /\ UNCHANGED <<pos, life, seen>>
                    /\ op' = [name |-> "dial", used |-> used, list |-> list, tls |-> TLSAccepts(used),
                              completes |-> Completes(used, list)]

DialChain(used, list) == /\ pos = 0
                         /\ UNCHANGED <<pos, life, seen>>
                         /\ op' = [name |-> "dialchain", used |-> used, list |-> list,
                                   allowed |-> ChainCompletes(used, list)]

Next == \/ \E l \in Lives : Choose(l)
        \/ Tick
        \/ \E c \in Chains, li \in Lists, a \in Algs : Verify(c, li, a)
        \/ \E used \in (SUBSET Hashes) \ {{}} : \E list \in SUBSET Hashes : Dial(used, list)
        \/ \E used \in (SUBSET Hashes) \ {{}} : \E list \in SUBSET Hashes : DialChain(used, list)

Spec == Init /\ [][Next]_vars

\* sanity of the table (design level)
TypeOK == pos \in 0..5 /\ seen \subseteq Algs
AcceptNeedsAll == [][op'.name = "verify" /\ TRUE \in op'.allowed =>
                       /\ op'.chain \in {"S", "S_C"} /\ op'.list \in {"sha256", "sha256_among_others"}
                       /\ op'.alg \in {"ecdsa", "ed25519", "eckey_rsasig"} /\ op'.life # "14d1s"
                       /\ op'.when \notin {"notyet", "expired"}]_vars
\* the verdict is a function of its arguments only (not of what was asked before)
VerdictFunctionOfArguments ==
  [][op'.name = "verify" => op'.allowed = Allowed([chain |-> op'.chain, list |-> op'.list, alg |-> op'.alg,
                                                    life |-> op'.life, when |-> op'.when])]_vars
DialNeedsConfirmation == [][op'.name = "dial" /\ op'.completes => op'.used \subseteq op'.list /\ "cur" \in op'.used]_vars
=============================================================================
