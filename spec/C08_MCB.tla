------------------------------ MODULE C08_MCB ------------------------------
(* Part B only: the injectivity facts are constant-level, so TLC evaluates them once, as assumptions, *)
(* and prints the measured cardinalities for the evidence.                                           *)
EXTENDS C08_MC
ASSUME PrintT(<<"VFSTAT", ToJson(StatsB)>>)
ASSUME InjectiveB
ASSUME BrokenNotInjectiveB
=============================================================================
