---------------------------- MODULE C12_HolePunch ----------------------------
(***************************************************************************)
(* Hole-punching part of property C12 (limited/relayed connections are     *)
(* never mistaken for direct ones):                                        *)
(*   "hole punching is coordinated only over a relayed connection, dials   *)
(*    only the peer's non-relay addresses and reports success only when a  *)
(*    direct connection exists".                                           *)
(*                                                                         *)
(* One holepunch.Service talking to ONE remote peer.  The service is both  *)
(* the initiator (holePuncher.DirectConnect -> directConnect ->            *)
(* initiateHolePunch -> holePunchConnect) and the responder                *)
(* (Service.handleNewStream -> incomingHolePunch -> holePunchConnect).     *)
(* The code is sequential; an action of this module is ONE answer of the   *)
(* environment at the point where the code waits for it (a "gate"):        *)
(*   host.Connect, host.NewStream, a message written to / read from the    *)
(*   coordination stream, the rtt/2 timer.                                 *)
(* After the answer the code runs to its next gate or returns; what it did *)
(* on the way (return value, the arguments of the next gate, tracer        *)
(* events, what happened to the stream) is the expected observable carried *)
(* in the output-only variable `op`.                                       *)
(*                                                                         *)
(* Environment = everything behind host.Host: which connections to the     *)
(* peer exist (D direct, L relayed+limited, U relayed through an unlimited *)
(* relay), the peerstore addresses, what listenAddrs() returns, what the   *)
(* remote writes, whether a dial succeeds.  host.Connect follows           *)
(* BasicHost.Connect + Swarm.dialPeer: under force-direct only a           *)
(* non-proxied connection is acceptable and relay addresses are filtered,  *)
(* success means a direct connection exists on return.                     *)
(***************************************************************************)
EXTENDS Naturals, FiniteSets, Sequences, TLC

CONSTANTS PSFamily,    \* initial peerstore contents of the remote peer (sets of pP, pV, pR)
          MsgFamily,   \* address sets a CONNECT message of the remote may carry (mP, mV, mR, mS, mG)
          OwnFamily,   \* values of listenAddrs() (oP, oR)
          ConnFamily,  \* initial connection tables (subsets of {D, L, U})
          EnvBudget,   \* spontaneous connection events per behaviour
          MaxRetries   \* 3 in holepuncher.go

\* address tokens: p* peerstore, m* carried in the remote's CONNECT, o* our own
\* xP public direct, xV private direct, xR circuit address (on a public relay), mS circuit address on a relay
\* with a private IP, mG bytes that are no multiaddr
Relay   == {"pR", "mR", "mS", "oR"}
Garbage == {"mG"}
Public  == {"pP", "mP", "oP", "pR", "mR", "oR"}   \* manet.IsPublicAddr looks at the IP component only
\* removeRelayAddrs(addrsFromBytes(.)), and also what Swarm.addrsForDial keeps under force-direct
Dialable(S) == (S \ Relay) \ Garbage
ConnKinds == {"D", "L", "U"}
Relayed == {"L", "U"}
\* Swarm.bestConnToPeer: not limited first, then not proxied
Best(c) == IF "D" \in c THEN "D" ELSE IF "U" \in c THEN "U" ELSE IF "L" \in c THEN "L" ELSE "none"

VARIABLES pc,      \* "idle" or the gate the code waits at
          att,     \* attempt number of the initiator's retry loop (0 outside)
          conns,   \* kinds of open connections to the peer
          ps,      \* address tokens of the peer in the peerstore
          cur,     \* addresses accepted from the remote's CONNECT (to be dialled)
          strm,    \* kind of the connection the open coordination stream rides, or "none"
          own,     \* responder: listenAddrs() value captured at the start
          closed,  \* Service.Close has run
          budget,  \* connection events left
          op       \* output only
vars == <<pc, att, conns, ps, cur, strm, own, closed, budget, op>>
View == <<pc, att, conns, ps, cur, strm, own, closed, budget>>

IPcs == {"dd", "ns", "wc", "rc", "ws", "tm", "pc"}
RPcs == {"rrc", "rwc", "rrs", "rpc"}

\* ---------------------------------------------------------------- observables
GNone == [kind |-> "none"]
GSame == [kind |-> "same"]
GNewStream == [kind |-> "newstream", allow |-> TRUE, nodial |-> TRUE]
GRead == [kind |-> "read"]
GTimer == [kind |-> "timer"]
GWrite(type, addrs) == [kind |-> "write", type |-> type, addrs |-> addrs]
\* host.Connect: always with force-direct; sim = "none" for the direct-dial short cut (AddrInfo without
\* addresses), else the simultaneous-connect role; dialed = what the host then hands to the swarm's dialer
GConnect(sim, addrs, c, psAfter) ==
  [kind |-> "connect", force |-> TRUE, sim |-> sim, addrs |-> addrs,
   dialed |-> IF "D" \in c THEN {} ELSE Dialable(psAfter)]
Tr(t, ok) == [t |-> t, ok |-> ok, side |-> "", n |-> 0, addrs |-> {}]
TrStart(a) == [t |-> "StartHolePunch", ok |-> FALSE, side |-> "", n |-> 0, addrs |-> a]
TrFin(side, n, a, ok) == [t |-> "HolePunchFinished", ok |-> ok, side |-> side, n |-> n, addrs |-> a]
TrDirectDial(ok) == <<Tr("DirectDial", ok), Tr("DirectDialFinished", ok)>>
TrProtoErr == <<Tr("ProtocolError", FALSE)>>
Op(name, arg, ret, gate, tr, send) ==
  [name |-> name, arg |-> arg, ret |-> ret, gate |-> gate, tr |-> tr, send |-> send]

ToIdle == pc' = "idle" /\ att' = 0 /\ cur' = {} /\ strm' = "none" /\ own' = {}

\* outcomes of a host.Connect that demands a direct connection
ConnectOuts(c, dialset) == IF "D" \in c THEN {"ok"} ELSE IF dialset = {} THEN {"fail"} ELSE {"ok", "fail", "timeout"}

Init == /\ pc = "idle" /\ att = 0 /\ cur = {} /\ strm = "none" /\ own = {} /\ closed = FALSE
        /\ conns \in ConnFamily /\ ps \in PSFamily /\ budget = EnvBudget
        /\ op = Op("init", "", "none", GNone, <<>>, "none")

\* ------------------------------------------------------------------ initiator
\* DirectConnect(p): beginDirectConnect, the getDirectConnection short circuit, the public-address test
ICall ==
  /\ pc = "idle"
  /\ UNCHANGED <<conns, ps, closed, budget>>
  /\ IF closed THEN ToIdle /\ op' = Op("call", "", "closed", GNone, <<>>, "none")
     ELSE IF "D" \in conns THEN ToIdle /\ op' = Op("call", "", "ok", GNone, <<>>, "none")
     ELSE IF \E a \in ps : a \in Public /\ a \notin Relay
       THEN /\ pc' = "dd" /\ att' = 0 /\ UNCHANGED <<cur, strm, own>>
            /\ op' = Op("call", "", "none", GConnect("none", {}, conns, ps), <<>>, "none")
       ELSE /\ pc' = "ns" /\ att' = 1 /\ UNCHANGED <<cur, strm, own>>
            /\ op' = Op("call", "", "none", GNewStream, <<>>, "none")

\* the direct dial returns
IDirectDial(out) ==
  /\ pc = "dd" /\ out \in ConnectOuts(conns, Dialable(ps))
  /\ UNCHANGED <<ps, closed, budget>>
  /\ IF out = "ok"
       THEN /\ conns' = conns \cup {"D"} /\ ToIdle
            /\ op' = Op("connect_ret", out, "ok", GNone, TrDirectDial(TRUE), "none")
       ELSE /\ pc' = "ns" /\ att' = 1 /\ UNCHANGED <<conns, cur, strm, own>>
            /\ op' = Op("connect_ret", out, "none", GNewStream, TrDirectDial(FALSE), "none")

\* host.NewStream(allow-limited, no-dial) returns; SetService, ReserveMemory, listenAddrs()
INewStream(out, o) ==
  /\ pc = "ns"
  /\ out \in (IF conns = {} THEN {"fail"} ELSE {"ok", "fail", "svcfail", "memfail"})
  /\ UNCHANGED <<conns, ps, closed, budget>>
  /\ IF out = "ok" /\ Dialable(o) # {}
       THEN /\ pc' = "wc" /\ strm' = Best(conns) /\ UNCHANGED <<att, cur, own>>
            /\ op' = Op("newstream_ret", [out |-> out, own |-> o], "none", GWrite("CONNECT", Dialable(o)), <<>>, "none")
       ELSE /\ ToIdle
            /\ op' = Op("newstream_ret", [out |-> out, own |-> o], "err", GNone, TrProtoErr,
                        IF out = "fail" THEN "none" ELSE "reset")

IFail(name, arg) == ToIdle /\ op' = Op(name, arg, "err", GNone, TrProtoErr, "reset")

IWriteConnect(out) ==
  /\ pc = "wc" /\ UNCHANGED <<conns, ps, closed, budget>>
  /\ IF out = "ok" THEN /\ pc' = "rc" /\ UNCHANGED <<att, cur, strm, own>>
                        /\ op' = Op("write_ret", out, "none", GRead, <<>>, "none")
     ELSE IFail("write_ret", out)

\* the remote's answer: r = [k |-> "connect" | "sync" | "err" | "hang" | "big", a |-> addresses]
IReadConnect(r) ==
  /\ pc = "rc" /\ UNCHANGED <<conns, ps, closed, budget>>
  /\ IF r.k = "connect" /\ Dialable(r.a) # {}
       THEN /\ pc' = "ws" /\ cur' = Dialable(r.a) /\ UNCHANGED <<att, strm, own>>
            /\ op' = Op("read_ret", r, "none", GWrite("SYNC", {}), <<>>, "none")
       ELSE IFail("read_ret", r)

IWriteSync(out) ==
  /\ pc = "ws" /\ UNCHANGED <<conns, ps, closed, budget>>
  /\ IF out = "ok" THEN /\ pc' = "tm" /\ strm' = "none" /\ UNCHANGED <<att, cur, own>>
                        /\ op' = Op("write_ret", out, "none", GTimer, <<>>, "closed")
     ELSE IFail("write_ret", out)

\* rtt/2 later: holePunchConnect; BasicHost.Connect absorbs the addresses into the peerstore
ITimer ==
  /\ pc = "tm" /\ pc' = "pc" /\ ps' = ps \cup cur
  /\ UNCHANGED <<att, conns, cur, strm, own, closed, budget>>
  /\ op' = Op("timer", "", "none",
              GConnect(IF att = MaxRetries THEN "client" ELSE "server", cur, conns, ps \cup cur),
              <<TrStart(cur), Tr("HolePunchAttempt", FALSE)>>, "none")

IPunch(out) ==
  /\ pc = "pc" /\ out \in ConnectOuts(conns, Dialable(ps))
  /\ UNCHANGED <<ps, closed, budget>>
  /\ IF out = "ok"
       THEN /\ conns' = conns \cup {"D"} /\ ToIdle
            /\ op' = Op("connect_ret", out, "ok", GNone,
                        <<Tr("EndHolePunch", TRUE), TrFin("initiator", att, cur, TRUE)>>, "none")
       ELSE IF att = MaxRetries
         THEN /\ ToIdle /\ UNCHANGED conns
              /\ op' = Op("connect_ret", out, "err", GNone,
                          <<Tr("EndHolePunch", FALSE), TrFin("initiator", att, cur, FALSE)>>, "none")
         ELSE /\ pc' = "ns" /\ att' = att + 1 /\ cur' = {} /\ UNCHANGED <<conns, strm, own>>
              /\ op' = Op("connect_ret", out, "none", GNewStream, <<Tr("EndHolePunch", FALSE)>>, "none")

\* Service.Close while the initiator sleeps on the timer, or while nothing runs
Close ==
  /\ ~closed /\ closed' = TRUE /\ UNCHANGED <<conns, ps, budget>>
  /\ \/ pc = "tm" /\ ToIdle /\ op' = Op("close", "", "canceled", GNone, <<>>, "none")
     \/ pc = "idle" /\ ToIdle /\ op' = Op("close", "", "none", GNone, <<>>, "none")

\* ------------------------------------------------------------------ responder
RRefuse(name, arg, traced) == ToIdle /\ op' = Op(name, arg, "done", GNone, IF traced THEN TrProtoErr ELSE <<>>, "reset")

\* a /libp2p/dcutr stream arrives on a connection of kind k with direction dir; scope outcome sc
RIncoming(k, dir, sc, o) ==
  /\ pc = "idle" /\ ~closed /\ k \in conns
  /\ UNCHANGED <<conns, ps, closed, budget>>
  /\ LET arg == [k |-> k, dir |-> dir, scope |-> sc, own |-> o] IN
     IF dir = "in" \/ sc = "svcfail" THEN RRefuse("incoming", arg, FALSE)
     ELSE IF k \notin Relayed \/ o = {} \/ sc = "memfail" THEN RRefuse("incoming", arg, TRUE)
     ELSE /\ pc' = "rrc" /\ strm' = k /\ own' = o /\ UNCHANGED <<att, cur>>
          /\ op' = Op("incoming", arg, "none", GRead, <<>>, "none")

RReadConnect(r) ==
  /\ pc = "rrc" /\ UNCHANGED <<conns, ps, closed, budget>>
  /\ IF r.k = "connect" /\ Dialable(r.a) # {}
       THEN /\ pc' = "rwc" /\ cur' = Dialable(r.a) /\ UNCHANGED <<att, strm, own>>
            /\ op' = Op("read_ret", r, "none", GWrite("CONNECT", own), <<>>, "none")
       ELSE RRefuse("read_ret", r, TRUE)

RWriteConnect(out) ==
  /\ pc = "rwc" /\ UNCHANGED <<conns, ps, closed, budget>>
  /\ IF out = "ok" THEN /\ pc' = "rrs" /\ UNCHANGED <<att, cur, strm, own>>
                        /\ op' = Op("write_ret", out, "none", GRead, <<>>, "none")
     ELSE RRefuse("write_ret", out, TRUE)

RReadSync(r) ==
  /\ pc = "rrs" /\ UNCHANGED <<conns, closed, budget>>
  /\ IF r.k = "sync"
       THEN /\ pc' = "rpc" /\ strm' = "none" /\ ps' = ps \cup cur /\ UNCHANGED <<att, cur, own>>
            /\ op' = Op("read_ret", r, "none", GConnect("client", cur, conns, ps \cup cur),
                        <<TrStart(cur), Tr("HolePunchAttempt", FALSE)>>, "closed")
       ELSE UNCHANGED ps /\ RRefuse("read_ret", r, TRUE)

RPunch(out) ==
  /\ pc = "rpc" /\ out \in ConnectOuts(conns, Dialable(ps))
  /\ UNCHANGED <<ps, closed, budget>>
  /\ conns' = IF out = "ok" THEN conns \cup {"D"} ELSE conns
  /\ ToIdle
  /\ op' = Op("connect_ret", out, "done", GNone,
              <<Tr("EndHolePunch", out = "ok"), TrFin("receiver", 1, cur, "D" \in conns')>>, "none")

\* ---------------------------------------------------------------- environment
\* connections come and go while the code waits (not while it talks on the stream)
EnvConn(ev) ==
  /\ budget > 0 /\ budget' = budget - 1 /\ ~closed
  /\ pc \in {"idle", "dd", "ns", "tm", "pc", "rpc"}
  /\ \/ ev = "addD" /\ "D" \notin conns /\ conns' = conns \cup {"D"}
     \/ ev = "dropD" /\ "D" \in conns /\ conns' = conns \ {"D"}
     \/ ev = "addL" /\ "L" \notin conns /\ conns' = conns \cup {"L"}
     \/ ev = "dropRelayed" /\ conns \cap Relayed # {} /\ conns' = conns \ Relayed
  /\ UNCHANGED <<pc, att, ps, cur, strm, own, closed>>
  /\ op' = Op("env", ev, "none", GSame, <<>>, "none")

ReadAnswers == {[k |-> "connect", a |-> A] : A \in MsgFamily}
               \cup {[k |-> x, a |-> {}] : x \in {"sync", "err", "hang", "big"}}
\* a canonical own-address value where it cannot matter keeps the printed graph free of duplicates
OwnChoices(out) == IF out = "ok" THEN OwnFamily ELSE {{"oP"}}
InChoices == {<<"in", "ok", {"oP"}>>, <<"out", "svcfail", {"oP"}>>}
             \cup {<<"out", sc, o>> : sc \in {"ok", "memfail"}, o \in OwnFamily}

Next == \/ ICall
        \/ \E out \in {"ok", "fail", "timeout"} : IDirectDial(out) \/ IPunch(out) \/ RPunch(out)
        \/ \E out \in {"ok", "fail", "svcfail", "memfail"} : \E o \in OwnChoices(out) : INewStream(out, o)
        \/ \E out \in {"ok", "err"} : IWriteConnect(out) \/ IWriteSync(out) \/ RWriteConnect(out)
        \/ \E r \in ReadAnswers : IReadConnect(r) \/ RReadConnect(r) \/ RReadSync(r)
        \/ ITimer \/ Close
        \/ \E k \in ConnKinds : \E c \in InChoices : RIncoming(k, c[1], c[2], c[3])
        \/ \E ev \in {"addD", "dropD", "addL", "dropRelayed"} : EnvConn(ev)
Spec == Init /\ [][Next]_vars

\* ------------------------------------------------------------------ properties
TypeOK == /\ pc \in {"idle"} \cup IPcs \cup RPcs
          /\ att \in 0..MaxRetries /\ conns \subseteq ConnKinds
          /\ cur \subseteq {"mP", "mV"} /\ strm \in ConnKinds \cup {"none"}
          /\ closed \in BOOLEAN /\ budget \in 0..EnvBudget

\* the responder talks on the stream, and punches, only when the stream rides a relayed connection
RespOnlyOverRelayed == pc \in {"rrc", "rwc", "rrs"} => strm \in Relayed
RespPunchOnlyAfterRelayed ==
  [][(pc' = "rpc" /\ pc # "rpc") => (pc = "rrs" /\ strm \in Relayed)]_vars
\* the initiator asks for its stream with allow-limited and no-dial (it never dials to coordinate)
InitStreamFlags == [][op'.gate.kind = "newstream" => (op'.gate.allow /\ op'.gate.nodial)]_vars
\* every host.Connect of the service demands a direct connection, names no relay address and makes the host
\* dial no relay address
ConnectDirectOnly ==
  [][op'.gate.kind = "connect" =>
       /\ op'.gate.force
       /\ op'.gate.addrs \cap (Relay \cup Garbage) = {}
       /\ op'.gate.dialed \cap Relay = {}]_vars
\* DirectConnect returns nil only if a direct connection exists at that moment
SuccessOnlyWithDirect == [][op'.ret = "ok" => "D" \in conns']_vars
\* the tracers are told "success" / handed a direct connection only when one exists
TracerSuccessOnlyWithDirect ==
  [][\A i \in 1..Len(op'.tr) : op'.tr[i].ok => "D" \in conns']_vars
\* nothing of a call survives it
IdleClean == pc = "idle" => (att = 0 /\ cur = {} /\ strm = "none" /\ own = {})
=============================================================================
