------------------------------ MODULE C16_MC ------------------------------
(* Bounded instance + edge printing for part (a) of C16 (C16_RateLimiter). *)
EXTENDS C16_RateLimiter, Json
\* the replay graph leaves the ghost log out of the state identity: one node per implementation state
St == [reqs |-> reqs, peerReqs |-> peerReqs, ddReqs |-> ddReqs, inProg |-> inProg]
EmitEdge == PrintT(<<"VFEDGE", ToJson([s |-> St, op |-> op', t |-> St'])>>)
MCInit == Init /\ PrintT(<<"VFINIT", ToJson(St)>>)
=============================================================================
