CONSTANTS
  N = 1
  MinSucc = 0
  ReadOnly = FALSE
  FilterSets = {}
SPECIFICATION TraceSpec
CONSTRAINT HighWater
POSTCONDITION TraceAccepted
CHECK_DEADLOCK FALSE
