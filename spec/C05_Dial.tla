--------------------------- MODULE C05_Dial ---------------------------
(***************************************************************************)
(* Dialing in the swarm: dialSync (ref-counted activeDial, last caller     *)
(* cancels and closes the request channel), dialWorker.loop (request arm,  *)
(* dial-timer arm, result arm; pendingRequests, trackedDials, dial queue), *)
(* dialLimiter (per-peer tokens, waiting list, cancelled waiters skipped)  *)
(* and the dial goroutines.  Time is abstract: the timer arm is enabled    *)
(* whenever addresses are queued, so every ordering of the timer against   *)
(* completions is reachable (sound for safety).  The outcome of a dial is  *)
(* chosen when it ends.  AllowClose adds the environment action "the       *)
(* established connection closes while the worker is alive".               *)
(***************************************************************************)
EXTENDS Naturals, Sequences, FiniteSets, TLC
CONSTANTS Callers, Addrs, Rank, Outs, CAddrs, PerPeer, AllowClose
\* Outs[a] \subseteq {"ok","fail","hang"}: outcomes a dial of a may have; conn: "none" | "open" | "closed"
VARIABLES cpc, cres, cctx, answer,     \* callers
          ref, closedReq, wctx,        \* dialSync / activeDial
          alive, pend, tracked, dq, inflight, connected,  \* worker
          job, res, activePeer, waitPeer,                 \* limiter + dial goroutines
          conn, starts                                    \* swarm conn exists; ghost count of transport.Dial starts
vars == <<cpc, cres, cctx, answer, ref, closedReq, wctx, alive, pend, tracked, dq, inflight, connected, job, res, activePeer, waitPeer, conn, starts>>
Init == /\ cpc = [c \in Callers |-> "idle"] /\ cres = [c \in Callers |-> "none"] /\ cctx = [c \in Callers |-> FALSE]
        /\ answer = [c \in Callers |-> "none"] /\ ref = 0 /\ closedReq = FALSE /\ wctx = FALSE /\ alive = TRUE
        /\ pend = {} /\ tracked = [a \in Addrs |-> "none"] /\ dq = {} /\ inflight = 0 /\ connected = FALSE
        /\ job = [a \in Addrs |-> "none"] /\ res = [a \in Addrs |-> "none"] /\ activePeer = 0 /\ waitPeer = <<>>
        /\ conn = "none" /\ starts = [a \in Addrs |-> 0]
\* ---------- callers
Join(c) == /\ cpc[c] = "idle" /\ ~closedReq /\ cpc' = [cpc EXCEPT ![c] = "joined"] /\ ref' = ref + 1
           /\ UNCHANGED <<cres, cctx, answer, closedReq, wctx, alive, pend, tracked, dq, inflight, connected, job, res, activePeer, waitPeer, conn, starts>>
Cancel(c) == /\ cpc[c] \in {"joined","waiting"} /\ ~cctx[c] /\ cctx' = [cctx EXCEPT ![c] = TRUE]
             /\ UNCHANGED <<cpc, cres, answer, ref, closedReq, wctx, alive, pend, tracked, dq, inflight, connected, job, res, activePeer, waitPeer, conn, starts>>
CtxReturn(c) == /\ cpc[c] \in {"joined","waiting"} /\ cctx[c] /\ cpc' = [cpc EXCEPT ![c] = "returned"] /\ cres' = [cres EXCEPT ![c] = "ctx"]
             /\ UNCHANGED <<cctx, answer, ref, closedReq, wctx, alive, pend, tracked, dq, inflight, connected, job, res, activePeer, waitPeer, conn, starts>>
Recv(c) == /\ cpc[c] = "waiting" /\ answer[c] # "none" /\ cpc' = [cpc EXCEPT ![c] = "returned"] /\ cres' = [cres EXCEPT ![c] = answer[c]]
             /\ UNCHANGED <<cctx, answer, ref, closedReq, wctx, alive, pend, tracked, dq, inflight, connected, job, res, activePeer, waitPeer, conn, starts>>
Leave(c) == /\ cpc[c] = "returned" /\ cpc' = [cpc EXCEPT ![c] = "left"] /\ ref' = ref - 1
            /\ IF ref = 1 THEN closedReq' = TRUE /\ wctx' = TRUE ELSE UNCHANGED <<closedReq, wctx>>
            /\ UNCHANGED <<cres, cctx, answer, alive, pend, tracked, dq, inflight, connected, job, res, activePeer, waitPeer, conn, starts>>
\* ---------- worker: take request (rendezvous on reqch)
Remaining(c) == {a \in CAddrs[c] : tracked[a] # "err"}
TakeReq(c) ==
  /\ alive /\ cpc[c] = "joined" /\ cpc' = [cpc EXCEPT ![c] = "waiting"]
  /\ IF conn = "open"                                   \* bestAcceptableConnToPeer
     THEN answer' = [answer EXCEPT ![c] = "conn"] /\ UNCHANGED <<pend, tracked, dq>>
     ELSE IF \E a \in CAddrs[c] : tracked[a] = "ok"    \* trackedDials[a].conn != nil: answered with THAT conn
     THEN answer' = [answer EXCEPT ![c] = IF conn = "closed" THEN "deadconn" ELSE "conn"]
          /\ UNCHANGED <<pend, tracked, dq>>
     ELSE IF Remaining(c) = {}
     THEN answer' = [answer EXCEPT ![c] = "err"] /\ UNCHANGED <<pend, tracked, dq>>
     ELSE /\ pend' = pend \cup {[c |-> c, addrs |-> Remaining(c)]}
          /\ tracked' = [a \in Addrs |-> IF a \in Remaining(c) /\ tracked[a] = "none" THEN "queued" ELSE tracked[a]]
          /\ dq' = dq \cup {a \in Remaining(c) : tracked[a] = "none"}
          /\ answer' = answer
  /\ UNCHANGED <<cres, cctx, ref, closedReq, wctx, alive, inflight, connected, job, res, activePeer, waitPeer, conn, starts>>
\* ---------- worker: timer batch -> limiter.AddDialJob for each
MinRank == CHOOSE r \in {Rank[a] : a \in dq} : \A a \in dq : Rank[a] >= r
Batch == {a \in dq : Rank[a] = MinRank}
RECURSIVE AddJobs(_, _, _, _)
AddJobs(S, j, ap, wp) == IF S = {} THEN <<j, ap, wp>> ELSE
   LET a == CHOOSE x \in S : TRUE IN
   IF ap < PerPeer THEN AddJobs(S \ {a}, [j EXCEPT ![a] = "running"], ap + 1, wp)
   ELSE AddJobs(S \ {a}, [j EXCEPT ![a] = "waitPeer"], ap, Append(wp, a))
TimerFire ==
  /\ alive /\ dq # {}
  /\ LET r == AddJobs(Batch, job, activePeer, waitPeer) IN
     /\ job' = r[1] /\ activePeer' = r[2] /\ waitPeer' = r[3]
     /\ starts' = [a \in Addrs |-> IF a \in Batch /\ r[1][a] = "running" THEN starts[a] + 1 ELSE starts[a]]
  /\ tracked' = [a \in Addrs |-> IF a \in Batch THEN "dialed" ELSE tracked[a]]
  /\ dq' = dq \ Batch /\ inflight' = inflight + Cardinality(Batch)
  /\ UNCHANGED <<cpc, cres, cctx, answer, ref, closedReq, wctx, alive, pend, connected, res, conn>>
\* ---------- dial goroutine finishes the transport dial
DialEnd(a) ==
  /\ job[a] = "running"
  /\ \/ ("ok" \in Outs[a] /\ res' = [res EXCEPT ![a] = "ok"])
     \/ ("fail" \in Outs[a] /\ res' = [res EXCEPT ![a] = "fail"])
     \/ (wctx /\ res' = [res EXCEPT ![a] = "cancel"])
  /\ job' = [job EXCEPT ![a] = "sending"]
  /\ UNCHANGED <<cpc, cres, cctx, answer, ref, closedReq, wctx, alive, pend, tracked, dq, inflight, connected, activePeer, waitPeer, conn, starts>>
\* finishedDial: free peer token, start next non-cancelled waiter
RECURSIVE PopWaiter(_, _, _)
PopWaiter(j, ap, wp) == IF wp = <<>> THEN <<j, ap, wp, {}>> ELSE
   IF wctx THEN LET r == PopWaiter([j EXCEPT ![Head(wp)] = "done"], ap, Tail(wp)) IN r
   ELSE <<[j EXCEPT ![Head(wp)] = "running"], ap + 1, Tail(wp), {Head(wp)}>>
Finish(a, j) == PopWaiter([j EXCEPT ![a] = "done"], activePeer - 1, waitPeer)
\* worker consumes result (rendezvous on w.resch)
Interested(a) == {pr \in pend : a \in pr.addrs}
TakeRes(a) ==
  /\ alive /\ job[a] = "sending"
  /\ LET f == Finish(a, job) IN
     /\ job' = f[1] /\ activePeer' = f[2] /\ waitPeer' = f[3]
     /\ starts' = [x \in Addrs |-> IF x \in f[4] THEN starts[x] + 1 ELSE starts[x]]
  /\ inflight' = inflight - 1
  /\ IF res[a] = "ok"
     THEN /\ conn' = "open" /\ connected' = TRUE /\ tracked' = [tracked EXCEPT ![a] = "ok"]
          /\ answer' = [c \in Callers |-> IF \E pr \in Interested(a) : pr.c = c THEN "conn" ELSE answer[c]]
          /\ pend' = pend \ Interested(a)
     ELSE /\ tracked' = [tracked EXCEPT ![a] = "err"] /\ UNCHANGED <<conn, connected>>
          /\ LET exhausted == {pr \in Interested(a) : pr.addrs = {a}} IN
             /\ answer' = [c \in Callers |-> IF \E pr \in exhausted : pr.c = c THEN (IF conn = "open" THEN "conn" ELSE "err") ELSE answer[c]]
             /\ pend' = (pend \ Interested(a)) \cup {[c |-> pr.c, addrs |-> pr.addrs \ {a}] : pr \in Interested(a) \ exhausted}
  /\ UNCHANGED <<cpc, cres, cctx, ref, closedReq, wctx, alive, dq, res>>
\* executeDial gives up sending because job ctx is done
SendAbort(a) ==
  /\ job[a] = "sending" /\ wctx
  /\ LET f == Finish(a, job) IN
     /\ job' = f[1] /\ activePeer' = f[2] /\ waitPeer' = f[3]
     /\ starts' = [x \in Addrs |-> IF x \in f[4] THEN starts[x] + 1 ELSE starts[x]]
  /\ UNCHANGED <<cpc, cres, cctx, answer, ref, closedReq, wctx, alive, pend, tracked, dq, inflight, connected, res, conn>>
WorkerExit == /\ alive /\ closedReq /\ alive' = FALSE
              /\ waitPeer' = <<>> /\ job' = [a \in Addrs |-> IF job[a] = "waitPeer" THEN "done" ELSE job[a]]
              /\ UNCHANGED <<cpc, cres, cctx, answer, ref, closedReq, wctx, pend, tracked, dq, inflight, connected, res, activePeer, conn, starts>>
\* environment: the established connection goes away while the worker is still alive
ConnClose == /\ AllowClose /\ conn = "open" /\ conn' = "closed"
             /\ UNCHANGED <<cpc, cres, cctx, answer, ref, closedReq, wctx, alive, pend, tracked, dq, inflight, connected, job, res, activePeer, waitPeer, starts>>
Next == ConnClose \/ (\E c \in Callers : Join(c) \/ Cancel(c) \/ CtxReturn(c) \/ Recv(c) \/ Leave(c) \/ TakeReq(c))
        \/ TimerFire \/ (\E a \in Addrs : DialEnd(a) \/ TakeRes(a) \/ SendAbort(a)) \/ WorkerExit
Fair == /\ \A c \in Callers : WF_vars(Join(c)) /\ WF_vars(Cancel(c)) /\ WF_vars(CtxReturn(c)) /\ WF_vars(Recv(c)) /\ WF_vars(Leave(c)) /\ WF_vars(TakeReq(c))
        /\ WF_vars(TimerFire) /\ WF_vars(WorkerExit)
        /\ \A a \in Addrs : WF_vars(DialEnd(a)) /\ WF_vars(TakeRes(a)) /\ WF_vars(SendAbort(a))
Spec == Init /\ [][Next]_vars /\ Fair
\* ---------- properties
AtMostOnce == \A a \in Addrs : starts[a] <= 1
Cap == Cardinality({a \in Addrs : job[a] \in {"running","sending"}}) <= PerPeer /\ activePeer = Cardinality({a \in Addrs : job[a] \in {"running","sending"}})
ErrOnlyExhausted == \A c \in Callers : cres[c] = "err" => \A a \in CAddrs[c] : tracked[a] = "err"
ConnMeansConn == \A c \in Callers : cres[c] \in {"conn", "deadconn"} => conn # "none"
\* a call never completes with a connection that was already closed when the worker answered
Usable == \A c \in Callers : answer[c] # "deadconn"
AllLeft == \A c \in Callers : cpc[c] = "left"
NoResidue == (AllLeft /\ ~alive /\ \A a \in Addrs : job[a] \notin {"running","sending"}) => (activePeer = 0 /\ waitPeer = <<>>)
Termination == <>((\A c \in Callers : cpc[c] \in {"idle","left"}) /\ ~alive /\ activePeer = 0)
\* vacuity probes (expected to be violated)
ReachErr == \A c \in Callers : cres[c] # "err"
ReachWaitPeer == waitPeer = <<>>
=============================================================================
