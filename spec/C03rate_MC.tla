------------------------------ MODULE C03rate_MC ------------------------------
(* Bounded instances of C03rate_Limiter, selected by the constant Inst (the driver instantiates the cfg   *)
(* template once per instance).  Token unit U = 2 (half tokens): rate 2 = one token per tick, rate 1 = one *)
(* token per two ticks.  The abstract configuration is printed as VFCONF for the harness, which           *)
(* concretises addresses / prefix lengths over families and CHECKS that every concretisation induces      *)
(* exactly this membership / key structure.                                                               *)
EXTENDS C03rate_Limiter, Json

CONSTANT Inst

Lim(r, b) == [rate |-> r, burst |-> b]

MCAddrs ==
  CASE Inst \in {"sub4", "sub4L"} -> {"a", "a2", "b", "c", "x"}
    [] Inst = "np"     -> {"p", "q", "a", "r"}
    [] Inst = "v6"     -> {"x1", "x2", "z", "a"}
    [] Inst = "mapped" -> {"m", "a", "x1"}
    [] Inst = "b0"     -> {"a", "p", "x"}
    [] Inst = "vsa"    -> {"a", "b", "x", "l"}
    [] Inst = "vsanp"  -> {"p", "q", "l", "a"}

MCFamOf ==
  CASE Inst \in {"sub4", "sub4L"} -> [n \in MCAddrs |-> IF n = "x" THEN "v6" ELSE "v4"]
    [] Inst = "np"     -> [n \in MCAddrs |-> IF n = "r" THEN "v6" ELSE "v4"]
    [] Inst = "v6"     -> [n \in MCAddrs |-> IF n = "a" THEN "v4" ELSE "v6"]       \* z = netip.Addr{} : Is4() false
    [] Inst = "mapped" -> [n \in MCAddrs |-> IF n = "a" THEN "v4" ELSE "v6"]       \* m = ::ffff:<a> : Is4() false
    [] Inst = "b0"     -> [n \in MCAddrs |-> IF n = "x" THEN "v6" ELSE "v4"]
    [] Inst \in {"vsa", "vsanp"} -> [n \in MCAddrs |-> IF n \in {"x", "l"} THEN "v6" ELSE "v4"]

\* key functions are total over the address set; "-" marks addresses of the other family (never looked up)
Key(f) == [n \in MCAddrs |-> IF n \in DOMAIN f THEN f[n] ELSE "-"]

MCNP ==
  CASE Inst = "np"  -> << [mem |-> {"r"}, rate |-> 0, burst |-> 0],           \* e.g. ::1/128, Limit{} = unlimited
                          [mem |-> {"p"}, rate |-> 2, burst |-> 2],           \* narrow prefix
                          [mem |-> {"p", "q"}, rate |-> 1, burst |-> 3] >>    \* wide prefix containing the narrow one
    [] Inst = "b0"  -> << [mem |-> {"p"}, rate |-> 2, burst |-> 0] >>         \* RPS > 0, Burst 0: never allows
    [] Inst = "vsa" -> << [mem |-> {"l"}, rate |-> 2, burst |-> 0] >>         \* v6 prefix, ConnCount 1 -> Burst 0
    [] Inst = "vsanp" -> << [mem |-> {"l"}, rate |-> 2, burst |-> 0],         \* v6 prefix, ConnCount 1 -> Burst 0
                            [mem |-> {"p"}, rate |-> 2, burst |-> 1],         \* ConnCount 3 -> Burst 1
                            [mem |-> {"p", "q"}, rate |-> 2, burst |-> 2] >>  \* ConnCount 4 -> Burst 2
    [] OTHER        -> << >>

MCLevels ==
  CASE Inst = "sub4" ->
         [v4 |-> << [key |-> Key([a |-> "4n1", a2 |-> "4n1", b |-> "4n2", c |-> "4n3"]), rate |-> 2, burst |-> 2],
                    [key |-> Key([a |-> "4w1", a2 |-> "4w1", b |-> "4w1", c |-> "4w2"]), rate |-> 1, burst |-> 3] >>,
          v6 |-> << >>]
    [] Inst = "sub4L" ->     \* thorough tier: larger bursts, slow narrow refill, longer grace
         [v4 |-> << [key |-> Key([a |-> "4n1", a2 |-> "4n1", b |-> "4n2", c |-> "4n3"]), rate |-> 1, burst |-> 2],
                    [key |-> Key([a |-> "4w1", a2 |-> "4w1", b |-> "4w1", c |-> "4w2"]), rate |-> 2, burst |-> 3] >>,
          v6 |-> << [key |-> Key([x |-> "6n1"]), rate |-> 2, burst |-> 1] >>]
    [] Inst = "np" ->
         [v4 |-> << [key |-> Key([a |-> "4n1", p |-> "4np", q |-> "4nq"]), rate |-> 2, burst |-> 3] >>,
          v6 |-> << [key |-> Key([r |-> "6nr"]), rate |-> 2, burst |-> 1] >>]
    [] Inst = "v6" ->
         [v4 |-> << [key |-> Key([a |-> "4n1"]), rate |-> 2, burst |-> 1] >>,
          v6 |-> << [key |-> Key([x1 |-> "6n1", x2 |-> "6n2", z |-> "6nz"]), rate |-> 2, burst |-> 2],
                    [key |-> Key([x1 |-> "6w1", x2 |-> "6w1", z |-> "6wz"]), rate |-> 2, burst |-> 3] >>]
    [] Inst = "mapped" ->
         [v4 |-> << [key |-> Key([a |-> "4n1"]), rate |-> 1, burst |-> 1] >>,
          v6 |-> << [key |-> Key([m |-> "6nm", x1 |-> "6n1"]), rate |-> 2, burst |-> 2] >>]
    [] Inst = "b0" ->
         [v4 |-> << [key |-> Key([a |-> "4n1", p |-> "4np"]), rate |-> 2, burst |-> 0] >>,
          v6 |-> << [key |-> Key([x |-> "6n1"]), rate |-> 1, burst |-> 1] >>]
    [] Inst = "vsa" ->   \* Burst = ConnCount / 2 (caps 2 and 5 for v4, 4 for v6), one token per tick (tick = 10 s)
         [v4 |-> << [key |-> Key([a |-> "4n1", b |-> "4n2"]), rate |-> 2, burst |-> 1],
                    [key |-> Key([a |-> "4w1", b |-> "4w1"]), rate |-> 2, burst |-> 2] >>,
          v6 |-> << [key |-> Key([x |-> "6n1", l |-> "6nl"]), rate |-> 2, burst |-> 2] >>]
    [] Inst = "vsanp" ->
         [v4 |-> << [key |-> Key([a |-> "4n1", p |-> "4np", q |-> "4nq"]), rate |-> 2, burst |-> 1] >>, v6 |-> << >>]

MCGlob ==
  CASE Inst = "sub4"   -> Lim(2, 3)
    [] Inst = "sub4L"  -> Lim(1, 3)
    [] Inst = "np"     -> Lim(2, 2)
    [] Inst = "mapped" -> Lim(2, 3)
    [] OTHER           -> Lim(0, 0)          \* GlobalLimit{} = unlimited

MCGrace ==
  CASE Inst = "sub4" -> 1
    [] Inst = "sub4L" -> 2
    [] Inst = "v6"   -> 2
    [] Inst \in {"vsa", "vsanp"} -> 6       \* one minute = 6 ticks of 10 s
    [] OTHER         -> 0

\* caps the rcmgr harness configures so that newVerifySourceAddressRateLimiter derives instance "vsa"
MCCaps == CASE Inst = "vsa"   -> [np |-> <<1>>, v4 |-> <<2, 5>>, v6 |-> <<4>>]
            [] Inst = "vsanp" -> [np |-> <<1, 3, 4>>, v4 |-> <<3>>, v6 |-> <<>>]
            [] OTHER          -> [np |-> <<>>, v4 |-> <<>>, v6 |-> <<>>]

Conf == [inst |-> Inst, U |-> U, grace |-> MCGrace, glob |-> MCGlob, fam |-> MCFamOf, caps |-> MCCaps,
         np |-> [i \in 1..Len(MCNP) |-> [mem |-> MCNP[i].mem, rate |-> MCNP[i].rate, burst |-> MCNP[i].burst]],
         v4 |-> MCLevels.v4, v6 |-> MCLevels.v6, bids |-> AllBIds]

\* compact JSON projection of the state for the replay graph (the ghost `ideal` is determined by bk: ForgetSound)
St == [g |-> s.g, np |-> s.np, bk |-> [b \in AllBIds |-> IF s.bk[b].pres THEN <<s.bk[b].def, s.bk[b].ttl>> ELSE <<>>]]
EmitEdge == PrintT(<<"VFEDGE", ToJson([s |-> St, op |-> op', t |-> St'])>>)
MCInit == Init /\ PrintT(<<"VFINIT", ToJson(St)>>) /\ PrintT(<<"VFCONF", ToJson(Conf)>>)
=============================================================================
