---------------------------- MODULE C16_AutoNAT ----------------------------
(***************************************************************************)
(* Part (b) of C16: the AutoNAT v2 server's handling of one dial request   *)
(* (p2p/protocol/autonatv2/server.go: serveDialRequest, getDialData,       *)
(* readDialData, dialBack, amplificationAttackPrevention).  Part (a), the  *)
(* sliding-window rate limiter, is C16_RateLimiter.tla; here the limiter   *)
(* appears only through the number of grants inside the current minute     *)
(* (time advances by whole minutes in this part), requests of ONE          *)
(* requester are served one after the other.                               *)
(*                                                                         *)
(* A request is a sequence of ADDRESS CLASSES:                             *)
(*   priv      parses, not public                                          *)
(*   undial    public, dialer's CanDial says no                            *)
(*   malformed does not parse as a multiaddr                               *)
(*   pubSame   public, dialable, same IP as the observed address           *)
(*   pubOther  public, dialable, IP differs from the observed address      *)
(*             (or is not known: dns name)                                 *)
(* Only the first MaxAddrs entries are inspected (code: maxPeerAddresses). *)
(*                                                                         *)
(* The dial-data stream is a sequence of SEGMENTS; N = number of bytes the *)
(* server asked for, rem = what is still missing:                          *)
(*   part    well-formed messages of legal size adding up to rem/2         *)
(*   allbut1 well-formed messages of legal size adding up to rem-1         *)
(*   rest    exactly rem bytes (a single 1-byte message if rem = 1: a      *)
(*           small LAST message is legal)                                  *)
(*   over    more than rem (the last message overshoots)                   *)
(*   tiny    one message with < 100 (and < rem) bytes: refused by the      *)
(*           per-message minimum                                           *)
(*   huge    one message longer than maxMsgSize                            *)
(* and RAW frames that are not what an honest client sends (the server     *)
(* counts by frame length without parsing):                                *)
(*   lie     tiny frames whose inner data-length prefix claims thousands   *)
(*           of bytes the frame does not hold                              *)
(*   fields  short frames with the data split over several small fields    *)
(*           (both: below the per-message minimum; they carry >= 1 byte    *)
(*           beyond the headers, so they do complete a remainder of ONE)   *)
(*   trunc   a frame whose delimiter promises more (or fewer) bytes than   *)
(*           are sent before the client closes                             *)
(*   pad     full-size frames padded with unknown fields / a data prefix   *)
(*           claiming less than the frame holds, adding up to rem          *)
(* and it can end early: close (EOF) or stall (stream deadline).           *)
(* One action = what the server does until it next blocks on the client    *)
(* or finishes: Request, Data(seg), End(kind); Minute lets the window pass.*)
(***************************************************************************)
EXTENDS Naturals, Sequences, FiniteSets, TLC

CONSTANTS MaxAddrs,   \* maxPeerAddresses, scaled
          MaxLen,     \* longest request of the bounded model
          RPM,        \* limiter: requests per minute (global == per peer here: one requester)
          DDRPM,      \* limiter: dial-data requests per minute
          MaxParts,   \* most "part" segments in one dial-data script
          MinAsk, MaxAsk, \* the range the asked number of bytes must lie in (30 000, 100 000)
          KeepAddrs   \* FALSE = the code: dialBack's cleanup clears the dialer host's address book.
                      \* TRUE  = mutation variant (cleanup forgets ClearAddrs): the driver requires TLC to
                      \*         find DialOnlyRequested violated with it (the hazard is really modelled).

Classes == {"priv", "undial", "malformed", "pubSame", "pubOther"}
Dialable(c) == c \in {"pubSame", "pubOther"}
Requests == UNION {[1..n -> Classes] : n \in 0..MaxLen}
BadKinds == {"wrongtype", "garbage", "eof"}     \* not a DialRequest at all
Segs == {"part", "allbut1", "rest", "over", "tiny", "huge", "lie", "fields", "trunc", "pad"}
Ends == {"close", "stall"}
Outcomes == {"ok", "dialerr", "streamerr"}       \* scripted result of the dial back
DStat(o) == CASE o = "ok" -> "OK" [] o = "dialerr" -> "E_DIAL_ERROR" [] o = "streamerr" -> "E_DIAL_BACK_ERROR"

VARIABLES acc,     \* grants of limiter.Accept inside the current minute
          ddacc,   \* grants of limiter.AcceptDialDataRequest inside the current minute
          phase,   \* "idle" | "data" (server blocked reading dial data)
          cur,     \* the request being served (<<>> when idle)
          idx,     \* chosen address (1-based; 0 when idle)
          rem,     \* "FULL" | "MID" | "ONE" while reading dial data, "NA" otherwise
          parts,   \* "part" segments consumed (bounds the scripts)
          prev,    \* history: "other" if a foreign-IP address of this requester was dialled (paid for by an
                   \* EARLIER request) less than TempAddrTTL (2 min) ago, else "none"
          prevAge, \* whole minutes since that dial (0..1)
          held,    \* dialerAddrs: does the dialer host's address book still hold that foreign address?
          op

vars == <<acc, ddacc, phase, cur, idx, rem, parts, prev, prevAge, held, op>>
View == <<acc, ddacc, phase, cur, idx, rem, parts, prev, prevAge, held>>

Min(S) == CHOOSE x \in S : \A y \in S : x <= y
Inspected(a) == 1..(IF Len(a) < MaxAddrs THEN Len(a) ELSE MaxAddrs)
\* serveDialRequest: first address within maxPeerAddresses that parses, is public and CanDial
FirstDialable(a) == LET ok == {i \in Inspected(a) : Dialable(a[i])} IN IF ok = {} THEN 0 ELSE Min(ok)

Init == /\ acc = 0 /\ ddacc = 0 /\ phase = "idle" /\ cur = <<>> /\ idx = 0 /\ rem = "NA" /\ parts = 0
        /\ prev = "none" /\ prevAge = 0 /\ held = FALSE
        /\ op = [name |-> "init"]

Idle == /\ phase' = "idle" /\ cur' = <<>> /\ idx' = 0 /\ rem' = "NA" /\ parts' = 0

NoDial == [dial |-> FALSE, dstat |-> "NA", dres |-> "na", remAtDial |-> "NA", stale |-> FALSE]
NoHist == UNCHANGED <<prev, prevAge, held>>
(* dialBack: AddAddr(chosen); Connect(AddrInfo{ID: p}) dials EVERYTHING the dialer host holds for p; the     *)
(* deferred cleanup (ClosePeer, ClearAddrs, RemovePeer) then empties the address book (unless KeepAddrs).    *)
(* `stale` = the dial also went to the foreign address left over from an earlier request.                    *)
DidDial(cls) == /\ prev' = IF cls = "pubOther" THEN "other" ELSE prev
                /\ prevAge' = IF cls = "pubOther" THEN 0 ELSE prevAge
                /\ held' = (KeepAddrs /\ (cls = "pubOther" \/ held))

(* A request that is not a DialRequest: consumes a limiter grant (the rate check precedes parsing), *)
(* is answered with a reset, or with E_REQUEST_REJECTED when the limiter refuses.                   *)
BadRequest(k) ==
  /\ phase = "idle"
  /\ Idle /\ UNCHANGED ddacc /\ NoHist
  /\ acc' = IF acc < RPM THEN acc + 1 ELSE acc
  /\ op' = [name |-> "request", kind |-> k, addrs |-> <<>>, idx |-> 0, needData |-> FALSE,
            resp |-> IF acc < RPM THEN "RESET" ELSE "REJECTED"] @@ NoDial

Request(a, o) ==
  /\ phase = "idle"
  /\ LET i == FirstDialable(a)
         need == i > 0 /\ a[i] = "pubOther"         \* amplificationAttackPrevention
         base == [name |-> "request", kind |-> "normal", addrs |-> a]
     IN IF acc >= RPM THEN                           \* limiter.Accept refuses, before parsing
           /\ Idle /\ UNCHANGED <<acc, ddacc>> /\ o = "ok" /\ NoHist
           /\ op' = base @@ [idx |-> 0, needData |-> FALSE, resp |-> "REJECTED"] @@ NoDial
        ELSE IF i = 0 THEN                           \* no public dialable address: refused, no dial
           /\ Idle /\ acc' = acc + 1 /\ UNCHANGED ddacc /\ o = "ok" /\ NoHist
           /\ op' = base @@ [idx |-> 0, needData |-> FALSE, resp |-> "REFUSED"] @@ NoDial
        ELSE IF need /\ ddacc >= DDRPM THEN          \* limiter.AcceptDialDataRequest refuses
           /\ Idle /\ acc' = acc + 1 /\ UNCHANGED ddacc /\ o = "ok" /\ NoHist
           /\ op' = base @@ [idx |-> i, needData |-> TRUE, resp |-> "REJECTED"] @@ NoDial
        ELSE IF need THEN                            \* DialDataRequest sent, server reads dial data
           /\ phase' = "data" /\ cur' = a /\ idx' = i /\ rem' = "FULL" /\ parts' = 0
           /\ acc' = acc + 1 /\ ddacc' = ddacc + 1 /\ o = "ok" /\ NoHist
           /\ op' = base @@ [idx |-> i, needData |-> TRUE, resp |-> "DATAREQ", askLo |-> MinAsk, askHi |-> MaxAsk] @@ NoDial
        ELSE                                         \* same IP: dial back at once
           /\ Idle /\ acc' = acc + 1 /\ UNCHANGED ddacc /\ DidDial("pubSame")
           /\ op' = base @@ [idx |-> i, needData |-> FALSE, resp |-> "OK", dial |-> TRUE, dstat |-> DStat(o),
                             dres |-> o, remAtDial |-> "NA", stale |-> held]

(* readDialData consuming one segment *)
Data(seg, o) ==
  /\ phase = "data"
  /\ UNCHANGED <<acc, ddacc>>
  /\ LET base == [name |-> "data", seg |-> seg, idx |-> idx] IN
     CASE seg = "part" ->
            /\ parts < MaxParts /\ rem \in {"FULL", "MID"} /\ o = "ok"
            /\ rem' = "MID" /\ parts' = parts + 1 /\ UNCHANGED <<phase, cur, idx>> /\ NoHist
            /\ op' = base @@ [resp |-> "MORE"] @@ NoDial
       [] seg = "allbut1" ->
            /\ rem \in {"FULL", "MID"} /\ o = "ok"
            /\ rem' = "ONE" /\ UNCHANGED <<phase, cur, idx, parts>> /\ NoHist
            /\ op' = base @@ [resp |-> "MORE"] @@ NoDial
       [] seg \in {"rest", "over", "pad"} \/ (seg \in {"lie", "fields"} /\ rem = "ONE") ->               \* remain <= 0: (random wait, then) dial back
            /\ Idle /\ DidDial("pubOther")
            /\ op' = base @@ [resp |-> "OK", dial |-> TRUE, dstat |-> DStat(o), dres |-> o, remAtDial |-> "DONE", stale |-> held]
       [] seg \in {"tiny", "huge"} \/ (seg \in {"lie", "fields", "trunc"} /\ rem \in {"FULL", "MID"}) ->               \* "dial data msg too small" / ErrShortBuffer: reset, no dial
            /\ Idle /\ o = "ok" /\ NoHist
            /\ op' = base @@ [resp |-> "RESET"] @@ NoDial
       [] OTHER -> FALSE                            \* trunc is scripted only while much is missing

End(k) ==
  /\ phase = "data"
  /\ Idle /\ UNCHANGED <<acc, ddacc>> /\ NoHist
  /\ op' = [name |-> "end", kind |-> k, idx |-> idx, resp |-> "RESET"] @@ NoDial

Minute ==
  /\ phase = "idle" /\ (acc > 0 \/ ddacc > 0 \/ prev = "other")
  /\ acc' = 0 /\ ddacc' = 0 /\ UNCHANGED <<phase, cur, idx, rem, parts>>
  \* the second minute carries the old dial past TempAddrTTL: the address book entry (if any) expires
  /\ prev' = IF prev = "other" /\ prevAge = 0 THEN "other" ELSE "none"
  /\ prevAge' = IF prev = "other" /\ prevAge = 0 THEN 1 ELSE 0
  /\ held' = (held /\ prev = "other" /\ prevAge = 0)
  /\ op' = [name |-> "minute"]

Next == \/ \E a \in Requests, o \in Outcomes : Request(a, o)
        \/ \E k \in BadKinds : BadRequest(k)
        \/ \E s \in Segs, o \in Outcomes : Data(s, o)
        \/ \E k \in Ends : End(k)
        \/ Minute

Spec == Init /\ [][Next]_vars

----------------------------------------------------------------------------
TypeOK == /\ prev \in {"none", "other"} /\ prevAge \in 0..1 /\ held \in BOOLEAN /\ (held => prev = "other")
          /\ acc \in 0..RPM /\ ddacc \in 0..DDRPM /\ phase \in {"idle", "data"}
          /\ (phase = "data") <=> (rem \in {"FULL", "MID", "ONE"})
          /\ (phase = "data") => (idx \in 1..Len(cur) /\ cur[idx] = "pubOther")

\* the request an action belongs to
ReqOf == IF op'.name = "request" THEN op'.addrs ELSE cur

\* dials only an address taken from the request (and, in the harness, only the requester): the chosen
\* address is one of the request's and nothing left over from an earlier request is dialled with it
DialOnlyRequested ==
  [][(op'.name \in {"request", "data", "end"} /\ op'.dial) =>
        (op'.idx \in 1..Len(ReqOf) /\ Dialable(ReqOf[op'.idx]) /\ ~op'.stale)]_vars

\* a dial to an address whose IP differs happens only after all the asked bytes arrived
DataBeforeDial ==
  [][(op'.name \in {"request", "data", "end"} /\ op'.dial /\ ReqOf[op'.idx] = "pubOther") =>
        op'.remAtDial = "DONE"]_vars
AskedRange == MinAsk = 30000 /\ MaxAsk = 100000

\* a request naming no public dialable address is refused without any dial
RefuseUndialable ==
  [][(op'.name = "request" /\ op'.kind = "normal" /\ \A i \in 1..Len(op'.addrs) : ~Dialable(op'.addrs[i])) =>
        (~op'.dial /\ op'.resp \in {"REFUSED", "REJECTED"} /\ (acc < RPM => op'.resp = "REFUSED"))]_vars

\* nothing is dialled for a rejected, refused or aborted request
NoDialUnlessOK == [][(op'.name \in {"request", "data", "end"} /\ op'.dial) => op'.resp = "OK"]_vars

=============================================================================
