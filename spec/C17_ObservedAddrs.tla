------------------------- MODULE C17_ObservedAddrs -------------------------
(***************************************************************************)
(* Observed-address manager (p2p/host/observedaddrs/manager.go).           *)
(*                                                                         *)
(* One action per synchronous entry point of the manager:                  *)
(*   Observe(c, o)  = maybeRecordObservation(conn, observed)               *)
(*                    (shouldRecordObservation + recordObservationUnlocked)*)
(*   CloseConn(c)   = the connection closes and the Disconnected           *)
(*                    notification runs removeConn(conn)                   *)
(*                                                                         *)
(* The property state is the HISTORY: per connection the one observation   *)
(* currently credited to it (obs) and whether it is open.  What the host   *)
(* may advertise is RECOMPUTED from that history (Count / Eligible /       *)
(* IsTop / Tiers).  `ext` is the implementation-shaped counter structure   *)
(* externalAddrs[local][observed].ObservedBy[group] updated incrementally  *)
(* exactly as the code does; invariants tie it to the history.             *)
(***************************************************************************)
EXTENDS Naturals, Sequences, FiniteSets, TLC

CONSTANTS Thresh,     \* activation threshold (code: ActivationThresh)
          MaxTop,     \* maxExternalThinWaistAddrsPerLocalAddr (3)
          Locals,     \* local thin-waist LISTEN addresses
          AddrSeq,    \* the valid observed thin-waist addresses, in the code's tie-break order
          Specials,   \* observation classes that must never count
          LocalOf,    \* [Conns -> Locals \cup {something else}]: where the connection arrived
          RemoteOf,   \* [Conns -> Remotes]: remote endpoint (IP:port)
          GroupOf,    \* [Remotes -> Groups]: observer group (IPv4 address, IPv6 /56) of an endpoint
          MaxClosed,  \* bound on closed connections (model size only)
          Emit        \* TRUE: `op` carries the expected results for the replay; FALSE: arguments only (faster)

Conns == DOMAIN LocalOf
Remotes == DOMAIN GroupOf
Groups == {GroupOf[r] : r \in Remotes}
Addrs == {AddrSeq[i] : i \in 1..Len(AddrSeq)}
Idx(a) == CHOOSE i \in 1..Len(AddrSeq) : AddrSeq[i] = a
None == "none"
Grp(c) == GroupOf[RemoteOf[c]]
Listening(c) == LocalOf[c] \in Locals

ASSUME /\ Thresh \in Nat \ {0} /\ MaxTop \in Nat \ {0}
       /\ Addrs \cap Specials = {} /\ None \notin Addrs \cup Specials
       /\ \A c \in Conns : RemoteOf[c] \in Remotes

VARIABLES obs,    \* [Conns -> Addrs \cup {None}]  observation currently credited to the connection
          open,   \* [Conns -> BOOLEAN]
          ext,    \* [Locals -> [Addrs -> [Groups -> Nat]]]  the code's ObservedBy counters
          op      \* output only: last action, arguments, expected observable results

vars == <<obs, open, ext, op>>
View == <<obs, open, ext>>

----------------------------------------------------------------------------
(* The statement, recomputed from the history.  X = connections left out (used only to describe    *)
(* the alternative reading of one corner, see Observe).                                            *)


\* (ob, opn) = a history summary: credited observation and open flag per connection.  The operators
\* take it as an argument (rather than reading obs/open) so that they can be applied to the next
\* state without TLC re-evaluating every LET in a primed context.
VouchersH(ob, opn, l, a, X) == {c \in Conns \ X : opn[c] /\ LocalOf[c] = l /\ ob[c] = a}
CountH(ob, opn, l, a, X) == Cardinality({Grp(c) : c \in VouchersH(ob, opn, l, a, X)})   \* distinct observer GROUPS

Vouchers(l, a) == VouchersH(obs, open, l, a, {})
Count(l, a) == CountH(obs, open, l, a, {})
Eligible(l) == {a \in Addrs : Count(l, a) >= Thresh}

Min2(x, y) == IF x < y THEN x ELSE y
Range(s) == {s[i] : i \in 1..Len(s)}

\* s is an admissible answer of AddrsFor(l): only addresses with enough distinct observer groups,
\* most observed first (ties free), at most MaxTop, and nothing better left out.
IsTop(l, s) ==
  /\ Len(s) = Min2(MaxTop, Cardinality(Eligible(l)))
  /\ \A i \in 1..Len(s) : s[i] \in Eligible(l)
  /\ \A i, j \in 1..Len(s) : i < j => s[i] # s[j] /\ Count(l, s[i]) >= Count(l, s[j])
  /\ \A a \in Eligible(l) \ Range(s) : \A i \in 1..Len(s) : Count(l, s[i]) >= Count(l, a)

\* The same information in a compact form for the replay: the addresses with at least one observer
\* grouped by count, highest count first: t = << <<n1, {addrs with n1 groups}>>, <<n2, ...>>, ... >>,
\* and k = how many leading tiers have n >= Thresh.  An admissible answer is a linearisation of the
\* first k tiers (any order inside a tier), cut at MaxTop.
RECURSIVE Desc(_)
Desc(S) == IF S = {} THEN <<>>
           ELSE LET m == CHOOSE x \in S : \A y \in S : y <= x IN <<m>> \o Desc(S \ {m})
TiersOf(cnt) == LET pos == {cnt[a] : a \in Addrs} \ {0}
                    ns == Desc(pos)
                IN [t |-> [i \in 1..Len(ns) |-> <<ns[i], {a \in Addrs : cnt[a] = ns[i]}>>],
                    k |-> Cardinality({n \in pos : n >= Thresh})]   \* number of leading tiers that count
ExpH(ob, opn, X) == [l \in Locals |-> TiersOf([a \in Addrs |-> CountH(ob, opn, l, a, X)])]

----------------------------------------------------------------------------
(* The implementation-shaped part *)

Multiset(l, a, g) == Cardinality({c \in Vouchers(l, a) : Grp(c) = g})
CodeCount(l, a) == Cardinality({g \in Groups : ext[l][a][g] > 0})          \* len(ObservedBy)
\* getTopExternalAddrs: filter len(ObservedBy) >= minObservers, sort by count desc then address asc, cut at 3
CodeBefore(l, a, b) == \/ CodeCount(l, a) > CodeCount(l, b)
                       \/ CodeCount(l, a) = CodeCount(l, b) /\ Idx(a) < Idx(b)
CodeTop(l) == LET E == {a \in Addrs : CodeCount(l, a) >= Thresh}
                  rank(a) == Cardinality({b \in E : CodeBefore(l, b, a)}) + 1
                  n == Min2(MaxTop, Cardinality(E))
              IN [i \in 1..n |-> CHOOSE a \in E : rank(a) = i]

Init == /\ obs = [c \in Conns |-> None]
        /\ open = [c \in Conns |-> TRUE]
        /\ ext = [l \in Locals |-> [a \in Addrs |-> [g \in Groups |-> 0]]]
        /\ op = [name |-> "init"]

SparseExt(e) == {t \in {<<l, a, g, e[l][a][g]>> : l \in Locals, a \in Addrs, g \in Groups} : t[4] > 0}


(* maybeRecordObservation.  An observation is credited only if the connection is open, arrived at  *)
(* a listen address, and the observed address is a valid one of a consistent transport (o \in      *)
(* Addrs; everything in Specials is filtered).  Crediting replaces the previous observation of the *)
(* connection.  A filtered report is treated by the code as not received: the previous credit      *)
(* stays.  The statement can also be read as "the report changed, so it is withdrawn"; the         *)
(* expected result under that reading is emitted as `alt` for exactly that step so that the replay *)
(* can tell the two apart instead of alarming.                                                     *)
Credited(c, o) == open[c] /\ Listening(c) /\ o \in Addrs /\ obs[c] # o

Observe(c, o) ==
  /\ open' = open
  /\ IF Credited(c, o)
     THEN /\ obs' = [obs EXCEPT ![c] = o]
          /\ ext' = LET l == LocalOf[c]  g == Grp(c)
                        e1 == IF obs[c] = None THEN ext ELSE [ext EXCEPT ![l][obs[c]][g] = @ - 1]
                    IN [e1 EXCEPT ![l][o][g] = @ + 1]
     ELSE UNCHANGED <<obs, ext>>
  /\ op' = LET args == [name |-> "observe", c |-> c, o |-> o, credited |-> Credited(c, o)]
                   base == args @@ [exp |-> ExpH(obs', open', {}), ext |-> SparseExt(ext')]
           IN IF ~Emit THEN args
              ELSE IF o \in Specials /\ open[c] /\ obs[c] # None
                   THEN base @@ [alt |-> ExpH(obs', open', {c})]
                   ELSE base

NClosed == Cardinality({c \in Conns : ~open[c]})

(* the connection closes; removeConn withdraws its observation.  Closing twice is a no-op. *)
CloseConn(c) ==
  /\ (open[c] => NClosed < MaxClosed)
  /\ open' = [open EXCEPT ![c] = FALSE]
  /\ obs' = [obs EXCEPT ![c] = None]
  /\ ext' = IF open[c] /\ obs[c] # None
            THEN [ext EXCEPT ![LocalOf[c]][obs[c]][Grp(c)] = @ - 1] ELSE ext
  /\ op' = IF ~Emit THEN [name |-> "close", c |-> c]
           ELSE [name |-> "close", c |-> c, exp |-> ExpH(obs', open', {}), ext |-> SparseExt(ext')]

Next == \/ \E c \in Conns, o \in Addrs \cup Specials : Observe(c, o)
        \/ \E c \in Conns : CloseConn(c)

Spec == Init /\ [][Next]_vars

----------------------------------------------------------------------------
(* Properties *)

TypeOK == /\ obs \in [Conns -> Addrs \cup {None}]
          /\ open \in [Conns -> BOOLEAN]
          /\ \A l \in Locals, a \in Addrs, g \in Groups : ext[l][a][g] \in 0..Cardinality(Conns)

\* only open connections that arrived at a listen address hold a credit
CreditOnlyOpenListening == \A c \in Conns : obs[c] # None => open[c] /\ Listening(c)

\* the code's counters are exactly the multiset derived from the history
ExtMatches == \A l \in Locals, a \in Addrs, g \in Groups : ext[l][a][g] = Multiset(l, a, g)

\* hence what the code computes from its counters is an admissible answer of the statement
CodeTopAllowed == \A l \in Locals : IsTop(l, CodeTop(l))

\* the compact form agrees with the predicate: the code's answer is a linearisation of the leading tiers
TiersAgree == \A l \in Locals :
  LET e == ExpH(obs, open, {})[l]  t == e.t  k == e.k  s == CodeTop(l)
      all == UNION {t[i][2] : i \in 1..k}
  IN /\ Len(s) = Min2(MaxTop, Cardinality(all))
     /\ all = Eligible(l)
     /\ \A i \in 1..k : t[i][1] >= Thresh
     /\ \A i \in (k+1)..Len(t) : t[i][1] < Thresh

\* reports of the never-count classes, on closed connections and on connections that did not arrive at a
\* listen address change nothing
NeverCount ==
  [][(op'.name = "observe" /\ (op'.o \in Specials \/ ~open[op'.c] \/ ~Listening(op'.c)))
       => UNCHANGED <<obs, ext>>]_vars
\* a changed report withdraws the previous one; a close withdraws the report
Withdrawn ==
  [][/\ (op'.name = "close" => \A l \in Locals, a \in Addrs : op'.c \notin VouchersH(obs', open', l, a, {}))
     /\ (op'.name = "observe" /\ op'.credited =>
            \A l \in Locals, a \in Addrs : op'.c \in VouchersH(obs', open', l, a, {}) <=> (l = LocalOf[op'.c] /\ a = op'.o))]_vars

\* vacuity guards (each is EXPECTED to be violated in the instance that is meant to reach it)
ReachAdvertised == \A l \in Locals : Eligible(l) = {}
ReachTruncation == \A l \in Locals : Cardinality(Eligible(l)) <= MaxTop
ReachUnequalCounts == \A l \in Locals : \A a, b \in Eligible(l) : Count(l, a) = Count(l, b)
ReachSameGroupTwice == \A l \in Locals, a \in Addrs, g \in Groups : ext[l][a][g] <= 1
ReachBelowThresh == \A l \in Locals, a \in Addrs : Count(l, a) = 0 \/ Count(l, a) >= Thresh
=============================================================================
