\* Template: checks/C02.py instantiates the constants (session-start layer).
CONSTANTS
  HLen = 2
  MaxFrames = 2
  MaxUnits = 2
  Bufs = {1, 2}
INIT Init
NEXT Next
VIEW View
INVARIANTS TypeOK Conservation Prefix Complete NoHandshakeToUser
