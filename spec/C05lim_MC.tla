----------------------------- MODULE C05lim_MC -----------------------------
EXTENDS C05lim_Limiter, Json
CONSTANT Inst

\* two:   peer P with three jobs of two dial generations (contexts c1, c2; TCP, TCP, QUIC) and peer Q with two
\*        TCP jobs: the stale-token / skip / wake paths of freeFDToken and freePeerToken across peers
\* one:   one peer, four jobs of two generations (three TCP, one QUIC)
\* three: three peers with TCP jobs only (one generation each, P with two jobs)
Table == [
  two |-> [peerOf |-> [j1 |-> "P", j2 |-> "P", j3 |-> "P", j4 |-> "Q", j5 |-> "Q"],
           fd     |-> [j1 |-> TRUE, j2 |-> TRUE, j3 |-> FALSE, j4 |-> TRUE, j5 |-> TRUE],
           ctxOf  |-> [j1 |-> "c1", j2 |-> "c2", j3 |-> "c2", j4 |-> "c3", j5 |-> "c3"]],
  one |-> [peerOf |-> [j1 |-> "P", j2 |-> "P", j3 |-> "P", j4 |-> "P"],
           fd     |-> [j1 |-> TRUE, j2 |-> TRUE, j3 |-> TRUE, j4 |-> FALSE],
           ctxOf  |-> [j1 |-> "c1", j2 |-> "c1", j3 |-> "c2", j4 |-> "c2"]],
  three |-> [peerOf |-> [j1 |-> "P", j2 |-> "P", j3 |-> "Q", j4 |-> "R", j5 |-> "P"],
           fd     |-> [j1 |-> TRUE, j2 |-> TRUE, j3 |-> TRUE, j4 |-> TRUE, j5 |-> TRUE],
           ctxOf  |-> [j1 |-> "c1", j2 |-> "c1", j3 |-> "c2", j4 |-> "c3", j5 |-> "c4"]]
]
I == Table[Inst]
MCJobs == DOMAIN I.peerOf
MCPeerOf == I.peerOf
MCFd == I.fd
MCCtxOf == I.ctxOf

(* Replay graph: what a harness can force without hooks.  After every call into the limiter the goroutines  *)
(* it spawned run until they block: a spawned job whose context has ended goes straight to finishedDial    *)
(* (at most one such job exists at a time: only Add can start a dead job), every other one reaches         *)
(* dialFunc.  The full interleaving (a context ending between the spawn and the goroutine's check) is      *)
(* explored by Next above; the replay binds the critical sections themselves.                              *)
RECURSIVE Settle(_)
Settle(S) ==
  LET dead == {j \in Jobs : S.st[j] = "starting" /\ Dead(j)} IN
  IF dead # {} THEN LET j == CHOOSE x \in dead : TRUE IN Settle(Finished(S, j))
  ELSE [S EXCEPT !.st = [j \in Jobs |-> IF S.st[j] = "starting" THEN "running" ELSE S.st[j]]]

Called(S) == {j \in Jobs : st[j] # "running" /\ S.st[j] = "running"}
ROut(args, S) == args @@ [called |-> Called(S), fdc |-> S.fdc, act |-> S.act, wfd |-> S.wfd, wpeer |-> S.wpeer]

RAdd(j) == /\ st[j] = "new" /\ UNCHANGED cancelled
           /\ LET S == Settle(AddCheckPeer(S0, j)) IN Set(S) /\ op' = ROut([name |-> "add", j |-> j], S)
RFinish(j) == /\ st[j] = "running" /\ UNCHANGED cancelled
              /\ LET S == Settle(Finished(S0, j)) IN Set(S) /\ op' = ROut([name |-> "finish", j |-> j], S)
RCancel(c) == /\ c \notin cancelled /\ cancelled' = cancelled \cup {c}
              /\ UNCHANGED <<st, fdc, act, wfd, wpeer>> /\ op' = ROut([name |-> "cancel", c |-> c], S0)
RClear(p) == /\ Clear(p)
RNext == \/ \E j \in Jobs : RAdd(j) \/ RFinish(j)
         \/ \E c \in Ctxs : RCancel(c)
         \/ \E p \in Peers : RClear(p)

St == [st |-> st, fdc |-> fdc, act |-> act, wfd |-> wfd, wpeer |-> wpeer, cancelled |-> cancelled]
EmitEdge == PrintT(<<"VFEDGE", ToJson([s |-> St, op |-> op', t |-> St'])>>)
MCInit == /\ Init
          /\ PrintT(<<"VFINIT", ToJson(St)>>)
          /\ PrintT(<<"VFINST", ToJson([inst |-> Inst, fdlimit |-> FdLimit, perpeer |-> PerPeer, peerOf |-> PeerOf,
                                         fd |-> Fd, ctxOf |-> CtxOf])>>)
=============================================================================
