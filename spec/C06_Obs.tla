------------------------------- MODULE C06_Obs -------------------------------
(***************************************************************************)
(* Observable-level specification of property C06: a state machine over    *)
(* what a user of the swarm can see (Notifiee callbacks starting and       *)
(* returning, PeerConnectednessChanged events, stream-handler invocations, *)
(* API calls and returns, connectedness/connection list sampled at         *)
(* quiescence).  An execution of the real Swarm recorded by                *)
(* harness/p2p/net/swarm/zz_verif_c06_swarm_test.go satisfies the property *)
(* iff it is a behaviour of this specification: every clause of the        *)
(* statement is the guard of the action that consumes the corresponding    *)
(* line.  Fully logged, so validation is linear.                           *)
(***************************************************************************)
EXTENDS Naturals, Sequences, FiniteSets, TLC, Json

TraceLog == ndJsonDeserialize("trace.ndjson")

\* the notifiees that stay registered from before the first connection until after the last notification;
\* the harness also registers transient ones (names t*) that come and go in the middle of notification
\* rounds: the statement promises them nothing, and they must not disturb the others
Notifiees == {"n1", "n2", "n3"}
NoAttr == [p |-> "", lim |-> FALSE]

VARIABLES l,
  attr,      \* conn id -> [p, lim] for every connection the harness tried to add
  cst,       \* <<notifiee, conn>> -> none | cs | ce | ds | de
  admitted,  \* conns for which addConn returned success
  refused,   \* conns for which addConn returned an error
  gone,      \* admitted conns that were closed (locally, remotely or from inside a handler)
  lastEvt,   \* peer -> last published connectedness ("N" when none)
  swc        \* swarm: open | closing | closed

vars == <<l, attr, cst, admitted, refused, gone, lastEvt, swc>>

Cur == TraceLog[l]
IsEvent(name) == l <= Len(TraceLog) /\ Cur.ev = name /\ l' = l + 1
Known == DOMAIN attr
St(n, c) == IF <<n, c>> \in DOMAIN cst THEN cst[<<n, c>>] ELSE "none"
Last(p) == IF p \in DOMAIN lastEvt THEN lastEvt[p] ELSE "N"
Range(q) == {q[i] : i \in 1..Len(q)}
ConnectedReturnedForAll(c) == \A n \in Notifiees : St(n, c) \in {"ce", "ds", "de"}

Init0 == /\ attr = <<>> /\ cst = <<>> /\ admitted = {} /\ refused = {} /\ gone = {}
         /\ lastEvt = <<>> /\ swc = "open"
TraceInit == Init0 /\ l = 1 /\ TLCSet(1, 1)

TrReset == /\ IsEvent("reset")
           /\ attr' = <<>> /\ cst' = <<>> /\ admitted' = {} /\ refused' = {} /\ gone' = {}
           /\ lastEvt' = <<>> /\ swc' = "open"

\* the harness is about to call addConn for a fresh connection
TrConn == /\ IsEvent("conn") /\ Cur.c \notin Known
          /\ attr' = attr @@ (Cur.c :> [p |-> Cur.p, lim |-> Cur.lim])
          /\ UNCHANGED <<cst, admitted, refused, gone, lastEvt, swc>>

Move(n, c, from, to) == /\ c \in Known /\ St(n, c) = from
                        /\ cst' = [x \in DOMAIN cst \cup {<<n, c>>} |-> IF x = <<n, c>> THEN to ELSE cst[x]]

\* Connected starts: at most once, never for a refused connection, never after Close returned
TrCS == /\ IsEvent("cs") /\ Cur.n \in Notifiees /\ swc # "closed" /\ Cur.c \notin refused
        /\ Move(Cur.n, Cur.c, "none", "cs")
        /\ UNCHANGED <<attr, admitted, refused, gone, lastEvt, swc>>
TrCE == /\ IsEvent("ce") /\ Cur.n \in Notifiees /\ swc # "closed"
        /\ Move(Cur.n, Cur.c, "cs", "ce")
        /\ UNCHANGED <<attr, admitted, refused, gone, lastEvt, swc>>
\* Disconnected starts: at most once, only after Connected has RETURNED (for every notifiee)
TrDS == /\ IsEvent("ds") /\ Cur.n \in Notifiees /\ swc # "closed"
        /\ ConnectedReturnedForAll(Cur.c)
        /\ Move(Cur.n, Cur.c, "ce", "ds")
        /\ UNCHANGED <<attr, admitted, refused, gone, lastEvt, swc>>
TrDE == /\ IsEvent("de") /\ Cur.n \in Notifiees /\ swc # "closed"
        /\ Move(Cur.n, Cur.c, "ds", "de")
        /\ UNCHANGED <<attr, admitted, refused, gone, lastEvt, swc>>

TrTransient == /\ (IsEvent("cs") \/ IsEvent("ce") \/ IsEvent("ds") \/ IsEvent("de") \/ IsEvent("notify") \/ IsEvent("stopnotify"))
               /\ (Cur.ev \in {"cs", "ce", "ds", "de"} => Cur.n \notin Notifiees)
               /\ UNCHANGED <<attr, cst, admitted, refused, gone, lastEvt, swc>>

\* addConn returned success: Connected has been delivered to every notifiee
TrAdmitted == /\ IsEvent("admitted") /\ Cur.c \in Known /\ Cur.c \notin admitted \cup refused
              /\ ConnectedReturnedForAll(Cur.c)
              /\ admitted' = admitted \cup {Cur.c}
              /\ UNCHANGED <<attr, cst, refused, gone, lastEvt, swc>>
\* addConn refused the connection (swarm closed): no notification about it, ever
TrRefused == /\ IsEvent("refused") /\ Cur.c \in Known /\ Cur.c \notin admitted \cup refused
             /\ \A n \in Notifiees : St(n, Cur.c) = "none"
             /\ refused' = refused \cup {Cur.c}
             /\ UNCHANGED <<attr, cst, admitted, gone, lastEvt, swc>>

\* an inbound stream reaches the stream handler only after Connected returned
TrStream == /\ IsEvent("stream") /\ Cur.c \in Known
            /\ ConnectedReturnedForAll(Cur.c)
            /\ UNCHANGED <<attr, cst, admitted, refused, gone, lastEvt, swc>>

\* the connection is being closed (Close called from outside or from inside a handler, or the remote
\* side went away)
TrClosing == /\ (IsEvent("close_call") \/ IsEvent("remote_close")) /\ Cur.c \in Known
             /\ gone' = gone \cup {Cur.c}
             /\ UNCHANGED <<attr, cst, admitted, refused, lastEvt, swc>>
TrCloseRet == IsEvent("close_ret") /\ UNCHANGED <<attr, cst, admitted, refused, gone, lastEvt, swc>>

\* a published connectedness never repeats the previous one, except NotConnected
TrEvt == /\ IsEvent("evt")
         /\ (Cur.st # Last(Cur.p) \/ Cur.st = "N")
         /\ lastEvt' = [x \in DOMAIN lastEvt \cup {Cur.p} |-> IF x = Cur.p THEN Cur.st ELSE lastEvt[x]]
         /\ UNCHANGED <<attr, cst, admitted, refused, gone, swc>>

\* sampled when all activity has stopped (before the swarm is closed): the last event is the truth, the
\* listed connections are exactly the admitted, still-open ones, and every closed connection has had
\* its Disconnected delivered to every notifiee
Truth(p) == LET open == {c \in admitted \ gone : attr[c].p = p} IN
            IF \E c \in open : ~attr[c].lim THEN "C" ELSE IF open # {} THEN "L" ELSE "N"
TrListed == /\ IsEvent("listed") /\ swc = "open"
            /\ Range(Cur.conns) = {c \in admitted \ gone : attr[c].p = Cur.p}
            /\ Cur.st = Truth(Cur.p)
            /\ Last(Cur.p) = Cur.st
            /\ \A c \in admitted \cap gone : \A n \in Notifiees : St(n, c) = "de"
            /\ \A c \in admitted \ gone : \A n \in Notifiees : St(n, c) = "ce"
            /\ UNCHANGED <<attr, cst, admitted, refused, gone, lastEvt, swc>>

TrSwCloseCall == /\ IsEvent("sw_close_call") /\ swc = "open" /\ swc' = "closing"
                 /\ UNCHANGED <<attr, cst, admitted, refused, gone, lastEvt>>
\* Close returns only after every notification has been delivered: nothing half-way, every admitted
\* connection fully disconnected
TrSwCloseRet == /\ IsEvent("sw_close_ret") /\ swc = "closing"
                /\ \A x \in DOMAIN cst : cst[x] = "de"
                /\ \A c \in admitted : \A n \in Notifiees : St(n, c) = "de"
                /\ swc' = "closed"
                /\ UNCHANGED <<attr, cst, admitted, refused, gone, lastEvt>>

TraceNext == \/ TrTransient \/ TrReset \/ TrConn \/ TrCS \/ TrCE \/ TrDS \/ TrDE \/ TrAdmitted \/ TrRefused \/ TrStream
             \/ TrClosing \/ TrCloseRet \/ TrEvt \/ TrListed \/ TrSwCloseCall \/ TrSwCloseRet

TraceSpec == TraceInit /\ [][TraceNext]_vars

HighWater == TLCSet(1, IF l > TLCGet(1) THEN l ELSE TLCGet(1))
TraceAccepted == /\ PrintT(<<"VFHW", ToJson([hw |-> TLCGet(1), len |-> Len(TraceLog)])>>)
                 /\ TLCGet(1) = Len(TraceLog) + 1
=============================================================================
