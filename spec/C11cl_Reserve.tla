------------------------------- MODULE C11cl_Reserve -------------------------------
(***************************************************************************)
(* Extension engine C11cl of property C11, part 2: client.Reserve          *)
(* (p2p/protocol/circuitv2/client/reservation.go) against a DOLEV-YAO      *)
(* relay.  The client C asks relay R for a reservation; R (the attacker)   *)
(* answers with any message it can build from its own keys (R and a second *)
(* key A) and from the signed envelopes of an HONEST relay H it has seen   *)
(* (vouchers H issued to C and to another client D, H's signed peer        *)
(* record).  It cannot sign with H's key.                                  *)
(*                                                                         *)
(* STATEMENT (from the code, its doc comments and the circuit v2 spec:     *)
(* "voucher: the signed reservation voucher - a Signed Envelope containing *)
(* the ReservationVoucher, signed by the relay"):                          *)
(*  V1  Reserve returns a Reservation only if the relay's reply is one     *)
(*      length-delimited HopMessage of type STATUS with status OK that     *)
(*      carries a Reservation whose expire is not before the client's      *)
(*      clock: AcceptOnlyIfOK.                                             *)
(*  V2  If the reply carries a voucher, a Reservation is returned only if  *)
(*      the voucher is an intact envelope whose signature is valid in the  *)
(*      domain "libp2p-relay-rsvp", whose payload is a ReservationVoucher, *)
(*      whose signer is the relay named in it and whose Peer is the client *)
(*      itself: VoucherValid.  Consequence (Dolev-Yao): an accepted        *)
(*      voucher naming the honest relay H was issued by H to C:            *)
(*      Authentic.                                                         *)
(*  V3  Conversely a reply that satisfies V1 and V2 is accepted (no        *)
(*      spurious refusal), and the Reservation carries the reply's expire, *)
(*      its parsable addresses in order (unparsable ones are dropped), the *)
(*      voucher's fields and the limit (0 / 0 without one): Complete.      *)
(*  V4  A refusal by the relay is reported with the relay's status; a      *)
(*      failure to open, write or read the stream (including the           *)
(*      ReserveTimeout) with CONNECTION_FAILED; every other rejected reply *)
(*      with MALFORMED_MESSAGE (the code's choice; the doc comment of      *)
(*      ReservationError only promises the first two): StatusOf.           *)
(*  V5  The stream is released on every exit, by Reset after an I/O error: *)
(*      monitored in the harness (one stream per call, over at return).    *)
(*  V6  Without a reply the call ends at ReserveTimeout: Timely.           *)
(*                                                                         *)
(* NOT checked by the code, modelled as it is: the voucher's own           *)
(* Expiration, and whether the relay named in the voucher is the relay     *)
(* that was asked (a genuine voucher of H for C relayed by R is accepted). *)
(***************************************************************************)
EXTENDS Integers, FiniteSets, TLC

CONSTANTS
  TO,          \* ReserveTimeout in units
  Faults       \* "nsfail", "wfail"

Self == "C"
AttKeys == {"R", "A"}

(* signed envelopes.  k: the public key in the envelope; dom: the domain the signature was made in; typ: the payload  *)
(* type; rel / peer: the ReservationVoucher fields ("-" for other payload types, "bad": not a peer ID); sig "good":   *)
(* made with the private key of k over exactly this (dom, typ, payload), "forged": anything else; mut: the bytes of   *)
(* the envelope damaged in transit                                                                                    *)
Env(k, dom, typ, rel, peer, sig, mut) == [k |-> k, dom |-> dom, typ |-> typ, rel |-> rel, peer |-> peer, sig |-> sig, mut |-> mut]
\* the voucher field absent / present but empty / not an envelope at all: pseudo-envelopes, so that every value is a record
NoEnv(kind) == Env(kind, "-", "-", "-", "-", "-", "none")
VAbsent == NoEnv("absent")
HV(x) == Env("H", "rsvp", "voucher", "H", x, "good", "none")     \* H's voucher for client x
HP == Env("H", "peer", "peerrec", "-", "-", "good", "none")       \* H's signed peer record
HonestEnvs == {HV("C"), HV("D"), HP}

\* what the attacker can put into the voucher field, knowing `know`
Own == {Env(k, "rsvp", "voucher", rel, peer, "good", "none") : k \in AttKeys, rel \in {"R", "A", "H", "C", "bad"}, peer \in {"C", "D", "bad"}}
       \cup {Env(k, "rsvp", typ, "-", "-", "good", "none") : k \in AttKeys, typ \in {"peerrec", "unreg"}}
       \cup {Env(k, dom, "voucher", k, "C", "good", "none") : k \in AttKeys, dom \in {"peer", "other"}}
Forged == {Env("H", "rsvp", "voucher", "H", "C", "forged", "none")}
Damaged(know) == {[e EXCEPT !.mut = m] : e \in ({HV("C")} \cap know) \cup {Env("R", "rsvp", "voucher", "R", "C", "good", "none")},
                                           m \in {"flip", "trunc"}}
Derivable(know) == know \cup Own \cup Forged \cup Damaged(know)

\* V2: what reservation.go accepts
VoucherOK(e) == /\ e.mut = "none" /\ e.sig = "good" /\ e.dom = "rsvp" /\ e.typ = "voucher"
                /\ e.rel = e.k /\ e.peer = Self
\* why a voucher is rejected (informative; the order of the checks in the code)
VoucherWhy(e) == CASE e.mut # "none" -> "damaged"
                   [] e.sig # "good" \/ e.dom # "rsvp" -> "signature"
                   [] e.typ = "unreg" -> "unregistered"
                   [] e.typ = "voucher" /\ (e.rel = "bad" \/ e.peer = "bad") -> "payload"
                   [] e.typ # "voucher" -> "type"
                   [] e.rel # e.k -> "signer"
                   [] e.peer # Self -> "peer"
                   [] OTHER -> "ok"

(* replies.  fr: framing ("msg": one delimited HopMessage); typ: "status" | "other"; status: "ok" | "refused" | "none" *)
(* (no status field); rsvp: a Reservation is attached; exp: its expire relative to the client's clock ("floor": the   *)
(* same second, already begun; "ceil": the next full second; "wrap": >= 2^63; "zero": field absent); addrs: "none" |   *)
(* "good" | "mixed" (parsable, unparsable, parsable) | "allbad"; v: VAbsent | NoEnv("empty"|"garbage") | an envelope; lim*)
Rp(fr, typ, status, rsvp, exp, addrs, v, lim) ==
  [fr |-> fr, typ |-> typ, status |-> status, rsvp |-> rsvp, exp |-> exp, addrs |-> addrs, v |-> v, lim |-> lim]
ExpKinds == {"past", "floor", "ceil", "future", "wrap", "zero"}
ExpOK(x) == x \in {"ceil", "future"}
AddrKinds == {"none", "good", "mixed", "allbad"}
LimKinds == {"none", "lim", "lim0"}
GoodV == Env("R", "rsvp", "voucher", "R", "C", "good", "none")
BadV == Env("R", "rsvp", "voucher", "R", "D", "good", "none")
Plain(know) == {VAbsent, NoEnv("empty"), NoEnv("garbage")} \cup Derivable(know)
Replies(know) ==
       {Rp(fr, "status", "ok", TRUE, "future", "good", GoodV, "lim") : fr \in {"garbage", "toolarge", "trunc", "eof", "reset"}}
  \cup {Rp("msg", "other", "ok", TRUE, "future", "good", v, "lim") : v \in {VAbsent, GoodV}}
  \cup {Rp("msg", "status", s, TRUE, "future", "good", v, "lim") : s \in {"refused", "none"}, v \in {VAbsent, GoodV}}
  \cup {Rp("msg", "status", "ok", FALSE, "future", "none", VAbsent, l) : l \in {"none", "lim"}}
  \cup {Rp("msg", "status", "ok", TRUE, x, a, v, l) : x \in ExpKinds, a \in AddrKinds, v \in {VAbsent, GoodV, BadV}, l \in LimKinds}
  \cup {Rp("msg", "status", "ok", TRUE, x, "good", v, l) : x \in {"ceil", "future"}, v \in Plain(know), l \in {"none", "lim"}}

IsEnv(v) == v.k \in {"H", "R", "A"}
\* V1-V4: the result of Reserve for a reply
Accepted(rp) == /\ rp.fr = "msg" /\ rp.typ = "status" /\ rp.status = "ok" /\ rp.rsvp /\ ExpOK(rp.exp)
                /\ (rp.v = VAbsent \/ (IsEnv(rp.v) /\ VoucherOK(rp.v)))
Outcome(rp) ==
  IF Accepted(rp)
  THEN [ok |-> TRUE, status |-> "OK", reset |-> FALSE, exp |-> rp.exp, addrs |-> rp.addrs,
        voucher |-> IF rp.v = VAbsent THEN "none" ELSE rp.v.k, lim |-> rp.lim, why |-> "ok"]
  ELSE [ok |-> FALSE,
        status |-> IF rp.fr # "msg" THEN "CONNECTION_FAILED"
                   ELSE IF rp.typ = "status" /\ rp.status = "refused" THEN "RELAY"      \* the relay's own status code
                   ELSE IF rp.typ = "status" /\ rp.status = "none" THEN "UNUSED"
                   ELSE "MALFORMED_MESSAGE",
        reset |-> rp.fr # "msg", exp |-> "-", addrs |-> "-", voucher |-> "-", lim |-> "-",
        why |-> CASE rp.fr # "msg" -> "read"
                  [] rp.typ # "status" -> "type"
                  [] rp.status # "ok" -> "status"
                  [] ~rp.rsvp -> "norsvp"
                  [] ~ExpOK(rp.exp) -> "expired"
                  [] ~IsEnv(rp.v) -> rp.v.k
                  [] OTHER -> VoucherWhy(rp.v)]

VARIABLES
  know,    \* envelopes of the honest relay the attacker has seen (= issued so far)
  ph,      \* "idle" | "wait" (request written, no reply yet)
  w,       \* units waited
  op

vars == <<know, ph, w, op>>
View == <<know, ph, w>>

Init == know = {} /\ ph = "idle" /\ w = 0 /\ op = [name |-> "init"]

\* the honest relay issues a voucher / publishes its peer record; the attacker sees it
Issue(e) ==
  /\ ph = "idle" /\ e \in HonestEnvs \ know
  /\ know' = know \cup {e}
  /\ UNCHANGED <<ph, w>>
  /\ op' = [name |-> "issue", e |-> e]

\* Reserve is called: host.NewStream, the RESERVE request is written
Start(how) ==
  /\ ph = "idle"
  /\ how \in {"ok"} \cup Faults
  /\ UNCHANGED know
  /\ IF how = "ok"
     THEN /\ ph' = "wait" /\ w' = 0
          /\ op' = [name |-> "start", how |-> how, res |-> [ok |-> FALSE, status |-> "-"]]
     ELSE /\ UNCHANGED <<ph, w>>
          /\ op' = [name |-> "start", how |-> how, res |-> [ok |-> FALSE, status |-> "CONNECTION_FAILED"]]

Tick ==
  /\ ph = "wait"
  /\ UNCHANGED know
  /\ IF w + 1 = TO
     THEN /\ ph' = "idle" /\ w' = 0
          /\ op' = [name |-> "tick", res |-> [ok |-> FALSE, status |-> "CONNECTION_FAILED", reset |-> TRUE]]
     ELSE /\ w' = w + 1 /\ UNCHANGED ph
          /\ op' = [name |-> "tick", res |-> [ok |-> FALSE, status |-> "-", reset |-> FALSE]]

Reply(rp) ==
  /\ ph = "wait"
  /\ ph' = "idle" /\ w' = 0
  /\ UNCHANGED know
  /\ op' = [name |-> "reply", rp |-> rp, res |-> Outcome(rp)]

Next == (\E e \in HonestEnvs : Issue(e)) \/ (\E how \in {"ok", "nsfail", "wfail"} : Start(how)) \/ Tick
        \/ (\E rp \in Replies(know) : Reply(rp))

Spec == Init /\ [][Next]_vars

TypeOK == know \subseteq HonestEnvs /\ ph \in {"idle", "wait"} /\ w \in 0..(TO - 1) /\ (ph = "idle" => w = 0)
\* V6
Timely == ph = "wait" => w < TO

IsReply(o) == o.name = "reply"
\* V1
AcceptOnlyIfOK ==
  [][IsReply(op') /\ op'.res.ok => /\ op'.rp.fr = "msg" /\ op'.rp.typ = "status" /\ op'.rp.status = "ok" /\ op'.rp.rsvp
                                   /\ op'.rp.exp \notin {"past", "floor", "wrap", "zero"}]_vars
\* V2
VoucherValid ==
  [][IsReply(op') /\ op'.res.ok /\ op'.rp.v # VAbsent =>
        /\ IsEnv(op'.rp.v)
        /\ LET e == op'.rp.v IN /\ e.mut = "none" /\ e.sig = "good" /\ e.dom = "rsvp" /\ e.typ = "voucher"
                                /\ e.rel = e.k /\ e.peer = Self]_vars
\* V2, Dolev-Yao: what is accepted in H's name was issued by H, to C
Authentic ==
  [][IsReply(op') /\ op'.res.ok /\ IsEnv(op'.rp.v) =>
        /\ op'.rp.v.k \notin AttKeys => op'.rp.v \in know /\ op'.rp.v = HV(Self)
        /\ op'.rp.v.rel = "H" => op'.rp.v = HV(Self) /\ HV(Self) \in know]_vars
\* the attacker never holds a good signature of H on anything H did not sign
NoForgery == \A e \in Derivable(know) : (e.k = "H" /\ e.sig = "good" /\ e.mut = "none") => e \in know
\* V3
Complete ==
  [][IsReply(op') /\ Accepted(op'.rp) => /\ op'.res.ok /\ op'.res.exp = op'.rp.exp /\ op'.res.addrs = op'.rp.addrs
                                          /\ op'.res.lim = op'.rp.lim]_vars
\* V4
StatusOf ==
  [][("res" \in DOMAIN op' /\ ~op'.res.ok /\ op'.res.status # "-") =>
        op'.res.status \in {"CONNECTION_FAILED", "MALFORMED_MESSAGE", "RELAY", "UNUSED"}]_vars

=============================================================================
