------------------------------ MODULE C08_MC ------------------------------
EXTENDS C08_Envelope, Json
\* The replay graphs: one node per abstract state (st), one edge per (state, op, state').
St == st
EmitEdge == PrintT(<<"VFEDGE", ToJson([s |-> St, op |-> op', t |-> St'])>>)
MCInitA == InitA /\ PrintT(<<"VFINIT", ToJson(St)>>)
MCInitB == InitB /\ PrintT(<<"VFINIT", ToJson(St)>>)
MCInitC == InitC /\ PrintT(<<"VFINIT", ToJson(St)>>)
=============================================================================
