------------------------------- MODULE C11cl_Client -------------------------------
(***************************************************************************)
(* Extension engine C11cl of property C11: the CLIENT side of circuit      *)
(* relay v2 (dialing through a relay, accepting relayed connections, the   *)
(* conn-manager tag on the relay).  The relay is the ADVERSARY: it answers *)
(* the HOP CONNECT request and sends STOP messages as it likes.            *)
(*                                                                         *)
(* Models p2p/protocol/circuitv2/client/{transport.go (Dial,               *)
(* dialAndUpgrade), dial.go (dial, dialPeer, connect), handlers.go         *)
(* (handleStreamV2), listen.go (Listener.Accept/Close), conn.go (Conn.Close*)
(* tagHop/untagHop)} AS THE CODE IS, one action per public call / per      *)
(* blocking point (host.NewStream, the read of the relay's answer, the     *)
(* upgrader, the accept queue), faults and timers as separate actions.     *)
(*                                                                         *)
(* STATEMENT (derived from the code, its doc comments and the circuit v2   *)
(* spec text they quote); clause -> formula:                               *)
(*  K1  At most one dial per destination is talking to a relay at any time *)
(*      ("deduplicate active relay dials to the same peer"): OneActive.    *)
(*  K2  A concurrent dial of the same destination ends without a           *)
(*      connection when the active one succeeds; after a failure it tries  *)
(*      itself unless the failure was a relay protocol error of the SAME   *)
(*      relay ("don't try the same relay if it failed to connect with a    *)
(*      protocol error"): DedupRule.                                       *)
(*  K3  A dial yields a connection only if the relay answered STATUS OK:   *)
(*      ConnOnlyIfOK.                                                      *)
(*  K4  A relayed connection (either direction) is Limited iff the relay   *)
(*      attached a Limit to its HOP STATUS / STOP CONNECT message ("if the *)
(*      limit is not nil, then this is a limited relay connection"):       *)
(*      LimitedIff.                                                        *)
(*  K5  However a Dial ends, what it took is given back: no activeDials    *)
(*      entry, no hop stream, no reserved message buffer (4096 bytes are   *)
(*      held exactly while the answer is awaited), and - unless it returned*)
(*      a connection - no connection scope: Rollback, NoStaleActive.       *)
(*  K6  The relay peer carries the conn-manager tag "relay-hop-stream"     *)
(*      exactly while at least one circuit through it (dialled or accepted)*)
(*      is open ("tagHop tags the underlying relay connection so that it   *)
(*      can be protected from the connection manager ... untagHop ...      *)
(*      invoked when a relayed connection is closed"): TagExact.           *)
(*  K7  An incoming STOP stream gets exactly one answer: a malformed       *)
(*      message -> MALFORMED_MESSAGE, a message that is not CONNECT ->     *)
(*      UNEXPECTED_MESSAGE, a CONNECT nobody accepts within AcceptTimeout  *)
(*      -> CONNECTION_FAILED (stream closed, or reset if the answer cannot *)
(*      be written); otherwise STATUS OK written by exactly one Accept,    *)
(*      which returns the connection; an Accept whose STATUS OK cannot be  *)
(*      written resets that stream and keeps waiting (it does not fail:    *)
(*      the relay must not be able to end the listener): ExactlyOne (ghost *)
(*      `ans`), AcceptBounded, NoMissedRendezvous.                         *)
(*  K8  Listener.Close unblocks every Accept with ErrListenerClosed; a     *)
(*      connection still queued then is refused at its accept timeout:     *)
(*      CloseUnblocks (+ AcceptBounded).                                   *)
(*                                                                         *)
(* KNOWN DEVIATION of the code from K6 (finding                            *)
(* hop-tag-refcount-broken-by-second-close): Conn.Close calls untagHop on  *)
(* EVERY call, so a second Close of the same Conn (what the upgrader's     *)
(* failure path does: the security transport closes the connection it was  *)
(* given, then the upgrader closes it again) decrements the count a second *)
(* time.  CloseOnce = FALSE models the code as it is (TagExact is then     *)
(* violated, TLC prints the shortest history); CloseOnce = TRUE models the *)
(* intended behaviour (TagExact is an invariant).                          *)
(*                                                                         *)
(* Other behaviour modelled as it is (not promised otherwise):             *)
(*  - the dedup key is the destination alone, the relay only decides what  *)
(*    a waiter does with a failure;                                        *)
(*  - connect() ignores the caller's context: once CONNECT is written the  *)
(*    dial waits for the answer or DialTimeout;                            *)
(*  - activeDials is released when dialPeer returns, i.e. BEFORE the       *)
(*    upgrade: a new dial of the same destination may run meanwhile;       *)
(*  - a Limit message without fields counts as a limit.                    *)
(*                                                                         *)
(* Time is RELATIVE (remaining units of the running timers).  Every harness*)
(* action happens on a unit boundary after the timers of that instant have *)
(* fired (Tick = advance one unit and let everything settle).              *)
(***************************************************************************)
EXTENDS Integers, Sequences, FiniteSets, TLC

CONSTANTS
  Relays, Dests,
  MaxDial,       \* dial slots
  MaxPerDest,    \* bound: Dial calls of one destination inside dial() at a time
  MaxIn,         \* incoming STOP stream slots
  MaxAcc,        \* Accept callers
  AcceptTO,      \* AcceptTimeout in units
  StreamTO,      \* StreamTimeout (read of the STOP message) in units
  DialTO,        \* DialTimeout (answer to CONNECT) in units
  RelayTO,       \* DialRelayTimeout (host.NewStream) in units
  Answers,       \* what the relay may answer to CONNECT
  StopMsgs,      \* what the relay may send on a STOP stream
  Faults,        \* "connlim","peerlim","nsfail","mem","wfail","upfail","upfail2","awfail"
  Features,      \* "time","cancel","close","late","dblclose","acceptrace","badaddr"
  CloseOnce      \* TRUE: a second Conn.Close leaves the tag count alone (intended); FALSE: the code as it is

DSlots == 1..MaxDial
ISlots == 1..MaxIn
Accs == 1..MaxAcc

OKAnswers == {"ok", "oklim", "oklim0"}             \* STATUS OK without / with a limit / with an empty Limit message
RelayErrAnswers == {"status", "status0", "wrongtype"}  \* protocol errors: a status other than OK, no status field, not a STATUS message
\* everything else ("garbage", "toolarge", "reset", "eof", "trunc") is a read error
GoodStops == {"ok", "oklim", "oklim0"}             \* CONNECT with a peer, without / with a limit
\* other STOP messages and the status they are answered with
StopStatus(m) == CASE m = "badtype" -> "UNEXPECTED_MESSAGE"
                   [] OTHER -> "MALFORMED_MESSAGE"          \* nopeer, badpeer, garbage, toolarge, reset, eof, trunc
\* the answer cannot be written on a stream the relay has reset
Unwritable(m) == m = "reset"
LimOf(x) == CASE x = "ok" -> "none" [] x = "oklim" -> "lim" [] x = "oklim0" -> "lim0" [] OTHER -> "-"

FreeD == [st |-> "free", r |-> "-", d |-> "-", t |-> 0, lim |-> "-"]
FreeI == [st |-> "free", r |-> "-", lim |-> "-", t |-> 0, wf |-> FALSE]

VARIABLES
  dial,    \* DSlots -> [st, r, d, t, lim]; st: "free" | "wait" (blocked on the active dial of its destination)
           \*   | "ns" (active, inside host.NewStream) | "resp" (CONNECT written, waiting for the answer)
           \*   | "upg" (Conn made and tagged, inside upgrader.Upgrade) | "open" (Dial returned the connection)
           \*   | "shut" (closed once; a second Close may follow)
  act,     \* Client.activeDials: destination -> slot of the active dial, 0 = no entry
  inc,     \* ISlots -> [st, r, lim, t, wf]; st: "free" | "read" (handler waits for the STOP message)
           \*   | "queued" (handler offers the connection to Accept) | "open" (accepted) | "shut"
           \*   wf: writes of the client's answer on this stream fail
  inq,     \* handlers blocked in `c.incoming <- ...`, oldest first
  accq,    \* Accept callers blocked, oldest first
  closed,  \* Client.ctx cancelled (Listener.Close / Client.Close)
  hop,     \* Client.hopCount (absent = 0)
  tag,     \* relay -> the conn manager holds the tag "relay-hop-stream" for it
  res,     \* what the resource manager holds: [co, so, si, mem] = outbound connection scopes, outbound (hop)
           \*   stream scopes, inbound (stop) stream scopes, message buffers of 4096 bytes
  ans,     \* ghost: ISlots -> number of answers given to the stream now in the slot
  op

vars == <<dial, act, inc, inq, accq, closed, hop, tag, res, ans, op>>
View == <<dial, act, inc, inq, accq, closed, hop, tag, res>>

Range(s) == {s[x] : x \in DOMAIN s}
SeqWithout(s, S) == SelectSeq(s, LAMBDA x : x \notin S)
Waiters(d) == {w \in DSlots : dial[w].st = "wait" /\ dial[w].d = d}
InDial(d) == {w \in DSlots : dial[w].st \in {"wait", "ns", "resp"} /\ dial[w].d = d}

\* tagHop / untagHop
HopInc(h, r) == [h EXCEPT ![r] = @ + 1]
TagInc(h, tg, r) == IF h[r] + 1 = 1 THEN [tg EXCEPT ![r] = TRUE] ELSE tg
HopDec(h, r) == [h EXCEPT ![r] = @ - 1]
TagDec(h, tg, r) == IF h[r] - 1 = 0 THEN [tg EXCEPT ![r] = FALSE] ELSE tg

Init ==
  /\ dial = [i \in DSlots |-> FreeD]
  /\ act = [d \in Dests |-> 0]
  /\ inc = [j \in ISlots |-> FreeI]
  /\ inq = <<>> /\ accq = <<>> /\ closed = FALSE
  /\ hop = [r \in Relays |-> 0]
  /\ tag = [r \in Relays |-> FALSE]
  /\ res = [co |-> 0, so |-> 0, si |-> 0, mem |-> 0]
  /\ ans = [j \in ISlots |-> 0]
  /\ op = [name |-> "init"]

-----------------------------------------------------------------------------
(* transport.go Dial -> dialAndUpgrade -> dial.go dial, up to the first blocking point               *)
\* how: "ok" | "connlim" (OpenConnection refused) | "peerlim" (SetPeer refused)
\*      | "nocircuit" | "norelay" | "badrelay" (address errors found by dial())
DialCall(i, r, d, how) ==
  /\ dial[i].st \in {"free", "shut"}
  /\ Cardinality(InDial(d)) < MaxPerDest
  /\ how \in {"ok"} \cup (Faults \cap {"connlim", "peerlim"})
             \cup (IF "badaddr" \in Features THEN {"nocircuit", "norelay", "badrelay"} ELSE {})
  /\ UNCHANGED <<inc, inq, accq, closed, hop, tag, ans>>
  /\ IF how # "ok"
     THEN \* the connection scope (if it was opened) is released again
          /\ dial' = [dial EXCEPT ![i] = FreeD]
          /\ UNCHANGED <<act, res>>
          /\ op' = [name |-> "dial", i |-> i, r |-> r, d |-> d, how |-> how, out |-> "err"]
     ELSE IF act[d] = 0
     THEN /\ dial' = [dial EXCEPT ![i] = [st |-> "ns", r |-> r, d |-> d, t |-> RelayTO, lim |-> "-"]]
          /\ act' = [act EXCEPT ![d] = i]
          /\ res' = [res EXCEPT !.co = @ + 1]
          /\ op' = [name |-> "dial", i |-> i, r |-> r, d |-> d, how |-> how, out |-> "ns"]
     ELSE /\ dial' = [dial EXCEPT ![i] = [st |-> "wait", r |-> r, d |-> d, t |-> 0, lim |-> "-"]]
          /\ res' = [res EXCEPT !.co = @ + 1]
          /\ UNCHANGED act
          /\ op' = [name |-> "dial", i |-> i, r |-> r, d |-> d, how |-> how, out |-> "wait"]

\* The active dial in slot i leaves dialPeer with an error; kind "relay" = relayError, "other" = anything else.
\* Its completion is closed and its activeDials entry deleted; every waiter of the destination looks at the error:
\* same relay and a relay error -> gives up; otherwise retries, and ONE of the retrying waiters becomes active.
\* so/mem: what the failing dial held (0/1).  err: the error class reported for slot i.
FailActive(i, kind, err, so, mem, nm) ==
  LET d == dial[i].d
      W == Waiters(d)
      Give == {w \in W : kind = "relay" /\ dial[w].r = dial[i].r}
      Retry == W \ Give
  IN \E n \in Retry \cup {0} :
       /\ (n = 0) <=> (Retry = {})
       /\ dial' = [x \in DSlots |-> IF x = i \/ x \in Give THEN FreeD
                                    ELSE IF x = n THEN [dial[x] EXCEPT !.st = "ns", !.t = RelayTO]
                                    ELSE dial[x]]
       /\ act' = [act EXCEPT ![d] = n]
       /\ res' = [res EXCEPT !.co = @ - 1 - Cardinality(Give), !.so = @ - so, !.mem = @ - mem]
       /\ op' = [nm EXCEPT !.ended = {[i |-> i, err |-> err]} \cup {[i |-> w, err |-> "dedup-proto"] : w \in Give},
                           !.next = {n} \ {0}]

\* host.NewStream returns (dialPeer), connect() reserves the message buffer and writes CONNECT.
\* how: "ok" | "nsfail" | "mem" (ReserveMemory refused) | "wfail" (the write fails)
NewStreamRet(i, how) ==
  /\ dial[i].st = "ns"
  /\ how \in {"ok"} \cup (Faults \cap {"nsfail", "mem", "wfail"})
  /\ UNCHANGED <<inc, inq, accq, closed, hop, tag, ans>>
  /\ IF how = "ok"
     THEN /\ dial' = [dial EXCEPT ![i].st = "resp", ![i].t = DialTO]
          /\ res' = [res EXCEPT !.so = @ + 1, !.mem = @ + 1]
          /\ UNCHANGED act
          /\ op' = [name |-> "ns", i |-> i, how |-> how, ended |-> {}, next |-> {}]
     ELSE \* the stream (if any) is reset, the buffer (if reserved) released
          FailActive(i, "other", how, 0, 0, [name |-> "ns", i |-> i, how |-> how, ended |-> {}, next |-> {}])

\* the relay's answer to CONNECT arrives (or the stream dies)
Respond(i, a) ==
  /\ dial[i].st = "resp"
  /\ a \in Answers
  /\ UNCHANGED <<inc, inq, accq, closed, ans>>
  /\ LET nm == [name |-> "respond", i |-> i, a |-> a, ok |-> a \in OKAnswers, lim |-> LimOf(a), ended |-> {}, next |-> {}]
         r == dial[i].r
         d == dial[i].d
     IN IF a \in OKAnswers
        THEN \* connect returns the Conn; dial() closes the completion without error: waiters end with
             \* "concurrent active dial succeeded"; dialAndUpgrade tags the relay and calls the upgrader
             /\ dial' = [x \in DSlots |-> IF x = i THEN [dial[x] EXCEPT !.st = "upg", !.t = 0, !.lim = LimOf(a)]
                                          ELSE IF x \in Waiters(d) THEN FreeD ELSE dial[x]]
             /\ act' = [act EXCEPT ![d] = 0]
             /\ res' = [res EXCEPT !.mem = @ - 1, !.co = @ - Cardinality(Waiters(d))]
             /\ hop' = HopInc(hop, r) /\ tag' = TagInc(hop, tag, r)
             /\ op' = [nm EXCEPT !.ended = {[i |-> w, err |-> "dedup-ok"] : w \in Waiters(d)}]
        ELSE /\ UNCHANGED <<hop, tag>>
             /\ FailActive(i, IF a \in RelayErrAnswers THEN "relay" ELSE "other",
                           IF a \in RelayErrAnswers THEN "relay" ELSE "read", 1, 1, nm)

\* upgrader.Upgrade returns.  On failure the upgrader has closed the Conn - once ("upfail") or twice ("upfail2":
\* security transport and upgrader both close it) - and released the connection scope.
Upgrade(i, how) ==
  /\ dial[i].st = "upg"
  /\ how \in {"ok"} \cup (Faults \cap {"upfail", "upfail2"})
  /\ UNCHANGED <<act, inc, inq, accq, closed, ans>>
  /\ LET r == dial[i].r IN
     IF how = "ok"
     THEN /\ dial' = [dial EXCEPT ![i].st = "open"]
          /\ UNCHANGED <<hop, tag, res>>
          /\ op' = [name |-> "upgrade", i |-> i, how |-> how]
     ELSE /\ dial' = [dial EXCEPT ![i] = FreeD]
          /\ res' = [res EXCEPT !.co = @ - 1, !.so = @ - 1]
          /\ IF how = "upfail2" /\ ~CloseOnce
             THEN /\ hop' = HopDec(HopDec(hop, r), r)
                  /\ tag' = TagDec(HopDec(hop, r), TagDec(hop, tag, r), r)
             ELSE /\ hop' = HopDec(hop, r) /\ tag' = TagDec(hop, tag, r)
          /\ op' = [name |-> "upgrade", i |-> i, how |-> how]

\* the application closes a dialled connection (capableConn.Close -> ... -> Conn.Close); a second Close of the
\* same connection is legal for a net.Conn
CloseDialled(i) ==
  /\ dial[i].st \in {"open", "shut"}
  /\ dial[i].st = "shut" => "dblclose" \in Features
  /\ UNCHANGED <<act, inc, inq, accq, closed, ans>>
  /\ LET r == dial[i].r IN
     IF dial[i].st = "open"
     THEN /\ dial' = [dial EXCEPT ![i].st = "shut"]
          /\ res' = [res EXCEPT !.co = @ - 1, !.so = @ - 1]
          /\ hop' = HopDec(hop, r) /\ tag' = TagDec(hop, tag, r)
          /\ op' = [name |-> "cclose", i |-> i, second |-> FALSE]
     ELSE /\ dial' = [dial EXCEPT ![i] = FreeD]
          /\ UNCHANGED res
          /\ IF CloseOnce THEN UNCHANGED <<hop, tag>>
             ELSE hop' = HopDec(hop, r) /\ tag' = TagDec(hop, tag, r)
          /\ op' = [name |-> "cclose", i |-> i, second |-> TRUE]

\* the caller's context is cancelled: a waiter returns ctx.Err(); host.NewStream returns the context's error.
\* (connect() and the stub upgrader ignore the context: no action in the other states.)
Cancel(i) ==
  /\ "cancel" \in Features
  /\ dial[i].st \in {"wait", "ns"}
  /\ UNCHANGED <<inc, inq, accq, closed, hop, tag, ans>>
  /\ IF dial[i].st = "wait"
     THEN /\ dial' = [dial EXCEPT ![i] = FreeD]
          /\ res' = [res EXCEPT !.co = @ - 1]
          /\ UNCHANGED act
          /\ op' = [name |-> "cancel", i |-> i, ended |-> {[i |-> i, err |-> "ctx"]}, next |-> {}]
     ELSE FailActive(i, "other", "ctx", 0, 0, [name |-> "cancel", i |-> i, ended |-> {}, next |-> {}])

-----------------------------------------------------------------------------
(* handlers.go handleStreamV2, listen.go Accept / Close                                              *)
\* The handler in slot j has a good CONNECT (limit l) and offers it: a blocked Accept takes it at once.
\* Accept writes STATUS OK; if that write fails it resets the stream and goes back to waiting (at the tail).
\* fresh: the stream is new (Stop); otherwise its scope is already counted (StopMsg)
Offer(j, r, l, wf, fresh, nm) ==
  IF accq = <<>>
  THEN /\ inc' = [inc EXCEPT ![j] = [st |-> "queued", r |-> r, lim |-> l, t |-> AcceptTO, wf |-> wf]]
       /\ inq' = Append(inq, j)
       /\ UNCHANGED <<accq, hop, tag>>
       /\ ans' = [ans EXCEPT ![j] = 0]
       /\ res' = IF fresh THEN [res EXCEPT !.si = @ + 1] ELSE res
       /\ op' = [nm EXCEPT !.out = "queued"]
  ELSE IF wf
  THEN /\ inc' = [inc EXCEPT ![j] = FreeI]
       /\ accq' = Append(Tail(accq), Head(accq))
       /\ UNCHANGED <<inq, hop, tag>>
       /\ ans' = [ans EXCEPT ![j] = 1]
       /\ res' = IF fresh THEN res ELSE [res EXCEPT !.si = @ - 1]
       /\ op' = [nm EXCEPT !.out = "reset", !.k = Head(accq)]
  ELSE /\ inc' = [inc EXCEPT ![j] = [st |-> "open", r |-> r, lim |-> l, t |-> 0, wf |-> FALSE]]
       /\ accq' = Tail(accq)
       /\ UNCHANGED inq
       /\ hop' = HopInc(hop, r) /\ tag' = TagInc(hop, tag, r)
       /\ ans' = [ans EXCEPT ![j] = 1]
       /\ res' = IF fresh THEN [res EXCEPT !.si = @ + 1] ELSE res
       /\ op' = [nm EXCEPT !.out = "delivered", !.k = Head(accq)]

\* the handler answers with an error status and closes the stream (reset if the answer cannot be written)
Refuse(j, m, wf, fresh, nm) ==
  /\ inc' = [inc EXCEPT ![j] = FreeI]
  /\ UNCHANGED <<inq, accq, hop, tag>>
  /\ ans' = [ans EXCEPT ![j] = 1]
  /\ res' = IF fresh THEN res ELSE [res EXCEPT !.si = @ - 1]
  /\ op' = [nm EXCEPT !.out = IF wf \/ Unwritable(m) THEN "reset" ELSE StopStatus(m)]

\* a STOP stream from relay r is handed to handleStreamV2; m = "late": the message has not arrived yet
Stop(j, r, m, wf) ==
  /\ inc[j].st \in {"free", "shut"}
  /\ m \in StopMsgs \cup (IF "late" \in Features THEN {"late"} ELSE {})
  /\ wf => "awfail" \in Faults
  /\ UNCHANGED <<dial, act, closed>>
  /\ LET nm == [name |-> "stop", j |-> j, r |-> r, m |-> m, wf |-> wf, out |-> "-", k |-> 0] IN
     IF m = "late"
     THEN /\ inc' = [inc EXCEPT ![j] = [st |-> "read", r |-> r, lim |-> "-", t |-> StreamTO, wf |-> wf]]
          /\ res' = [res EXCEPT !.si = @ + 1]
          /\ ans' = [ans EXCEPT ![j] = 0]
          /\ UNCHANGED <<inq, accq, hop, tag>>
          /\ op' = [nm EXCEPT !.out = "read"]
     ELSE IF m \in GoodStops
     THEN \* slot j is re-used: forget the previous occupant first
          Offer(j, r, LimOf(m), wf, TRUE, nm)
     ELSE Refuse(j, m, wf, TRUE, nm)

\* the message of a stream whose handler is waiting for it arrives
StopMsg(j, m) ==
  /\ inc[j].st = "read"
  /\ m \in StopMsgs
  /\ UNCHANGED <<dial, act, closed>>
  /\ LET nm == [name |-> "stopmsg", j |-> j, r |-> inc[j].r, m |-> m, wf |-> inc[j].wf, out |-> "-", k |-> 0] IN
     IF m \in GoodStops THEN Offer(j, inc[j].r, LimOf(m), inc[j].wf, FALSE, nm) ELSE Refuse(j, m, inc[j].wf, FALSE, nm)

\* Listener.Accept is called.  Queued connections whose answer cannot be written are reset and skipped.
AcceptCall(k) ==
  /\ k \notin Range(accq)
  /\ Len(accq) < MaxAcc
  /\ UNCHANGED <<dial, act, closed>>
  /\ LET bad == {x \in 1..Len(inq) : \A y \in 1..x : inc[inq[y]].wf}     \* leading entries with failing writes
         nb == Cardinality(bad)
         R == {inq[x] : x \in bad}
         nm == [name |-> "accept", k |-> k, out |-> "-", j |-> 0, resets |-> R]
         Closed == /\ UNCHANGED <<inc, inq, accq, hop, tag, res, ans>>
                   /\ op' = [name |-> "accept", k |-> k, out |-> "closed", j |-> 0, resets |-> {}]
         Take == IF nb = Len(inq)
                 THEN /\ inc' = [x \in ISlots |-> IF x \in R THEN FreeI ELSE inc[x]]
                      /\ inq' = <<>>
                      /\ accq' = IF closed THEN accq ELSE Append(accq, k)
                      /\ UNCHANGED <<hop, tag>>
                      /\ ans' = [x \in ISlots |-> IF x \in R THEN 1 ELSE ans[x]]
                      /\ res' = [res EXCEPT !.si = @ - nb]
                      /\ op' = [nm EXCEPT !.out = IF closed THEN "closed" ELSE "blocked"]
                 ELSE LET j == inq[nb + 1] IN
                      /\ inc' = [x \in ISlots |-> IF x \in R THEN FreeI
                                                  ELSE IF x = j THEN [inc[x] EXCEPT !.st = "open", !.t = 0] ELSE inc[x]]
                      /\ inq' = SubSeq(inq, nb + 2, Len(inq))
                      /\ UNCHANGED accq
                      /\ hop' = HopInc(hop, inc[j].r) /\ tag' = TagInc(hop, tag, inc[j].r)
                      /\ ans' = [x \in ISlots |-> IF x \in R \/ x = j THEN 1 ELSE ans[x]]
                      /\ res' = [res EXCEPT !.si = @ - nb]
                      /\ op' = [nm EXCEPT !.out = "delivered", !.j = j]
     IN IF closed /\ inq = <<>> THEN Closed
        ELSE IF closed
        THEN \* both cases of Accept's select are ready: either may be taken
             /\ "acceptrace" \in Features
             /\ (Closed \/ Take)
        ELSE Take

\* Listener.Close / Client.Close
CloseL ==
  /\ "close" \in Features
  /\ ~closed
  /\ closed' = TRUE
  /\ accq' = <<>>
  /\ UNCHANGED <<dial, act, inc, inq, hop, tag, res, ans>>
  /\ op' = [name |-> "closel", unblocked |-> Range(accq)]

\* the application closes an accepted connection
CloseAccepted(j) ==
  /\ inc[j].st \in {"open", "shut"}
  /\ inc[j].st = "shut" => "dblclose" \in Features
  /\ UNCHANGED <<dial, act, inq, accq, closed, ans>>
  /\ LET r == inc[j].r IN
     IF inc[j].st = "open"
     THEN /\ inc' = [inc EXCEPT ![j].st = "shut"]
          /\ res' = [res EXCEPT !.si = @ - 1]
          /\ hop' = HopDec(hop, r) /\ tag' = TagDec(hop, tag, r)
          /\ op' = [name |-> "iclose", j |-> j, second |-> FALSE]
     ELSE /\ inc' = [inc EXCEPT ![j] = FreeI]
          /\ UNCHANGED res
          /\ IF CloseOnce THEN UNCHANGED <<hop, tag>>
             ELSE hop' = HopDec(hop, r) /\ tag' = TagDec(hop, tag, r)
          /\ op' = [name |-> "iclose", j |-> j, second |-> TRUE]

-----------------------------------------------------------------------------
(* one unit of time passes; every timer that reaches zero fires                                       *)
Tick ==
  /\ "time" \in Features
  /\ (\E i \in DSlots : dial[i].st \in {"ns", "resp"}) \/ (\E j \in ISlots : inc[j].st \in {"read", "queued"})
  /\ UNCHANGED <<accq, closed, hop, tag>>
  /\ LET FD == {i \in DSlots : dial[i].st \in {"ns", "resp"} /\ dial[i].t = 1}
         FI == {j \in ISlots : inc[j].st \in {"read", "queued"} /\ inc[j].t = 1}
         FDd == {dial[i].d : i \in FD}
     IN \E nx \in [FDd -> DSlots \cup {0}] :
          /\ \A d \in FDd : IF Waiters(d) = {} THEN nx[d] = 0 ELSE nx[d] \in Waiters(d)
          /\ dial' = [x \in DSlots |->
                        IF x \in FD THEN FreeD
                        ELSE IF \E d \in FDd : nx[d] = x THEN [dial[x] EXCEPT !.st = "ns", !.t = RelayTO]
                        ELSE IF dial[x].st \in {"ns", "resp"} THEN [dial[x] EXCEPT !.t = @ - 1]
                        ELSE dial[x]]
          /\ act' = [d \in Dests |-> IF d \in FDd THEN nx[d] ELSE act[d]]
          /\ inc' = [x \in ISlots |-> IF x \in FI THEN FreeI
                                      ELSE IF inc[x].st \in {"read", "queued"} THEN [inc[x] EXCEPT !.t = @ - 1]
                                      ELSE inc[x]]
          /\ inq' = SeqWithout(inq, FI)
          /\ ans' = [x \in ISlots |-> IF x \in FI THEN 1 ELSE ans[x]]
          /\ res' = [res EXCEPT !.co = @ - Cardinality(FD),
                                !.so = @ - Cardinality({i \in FD : dial[i].st = "resp"}),
                                !.mem = @ - Cardinality({i \in FD : dial[i].st = "resp"}),
                                !.si = @ - Cardinality(FI)]
          /\ op' = [name |-> "tick",
                    ended |-> {[i |-> i, err |-> IF dial[i].st = "ns" THEN "nstimeout" ELSE "read"] : i \in FD},
                    next |-> {nx[d] : d \in FDd} \ {0},
                    refused |-> {[j |-> j, out |-> IF inc[j].wf THEN "reset"
                                                   ELSE IF inc[j].st = "read" THEN "MALFORMED_MESSAGE"
                                                   ELSE "CONNECTION_FAILED"] : j \in FI}]

Next ==
  \/ \E i \in DSlots, r \in Relays, d \in Dests, how \in {"ok", "connlim", "peerlim", "nocircuit", "norelay", "badrelay"} :
       DialCall(i, r, d, how)
  \/ \E i \in DSlots, how \in {"ok", "nsfail", "mem", "wfail"} : NewStreamRet(i, how)
  \/ \E i \in DSlots, a \in Answers : Respond(i, a)
  \/ \E i \in DSlots, how \in {"ok", "upfail", "upfail2"} : Upgrade(i, how)
  \/ \E i \in DSlots : CloseDialled(i) \/ Cancel(i)
  \/ \E j \in ISlots, r \in Relays, m \in StopMsgs \cup {"late"}, wf \in BOOLEAN : Stop(j, r, m, wf)
  \/ \E j \in ISlots, m \in StopMsgs : StopMsg(j, m)
  \/ \E k \in Accs : AcceptCall(k)
  \/ \E j \in ISlots : CloseAccepted(j)
  \/ CloseL
  \/ Tick

Spec == Init /\ [][Next]_vars

-----------------------------------------------------------------------------
(* invariants                                                                                         *)
DStates == {"free", "wait", "ns", "resp", "upg", "open", "shut"}
IStates == {"free", "read", "queued", "open", "shut"}
TypeOK ==
  /\ \A i \in DSlots : dial[i].st \in DStates /\ dial[i].t \in 0..(DialTO + RelayTO)
  /\ \A j \in ISlots : inc[j].st \in IStates
  /\ act \in [Dests -> DSlots \cup {0}]
  /\ Range(inq) \subseteq ISlots /\ Range(accq) \subseteq Accs
  /\ closed \in BOOLEAN
  /\ res.co >= 0 /\ res.so >= 0 /\ res.si >= 0 /\ res.mem >= 0

\* circuits open through relay r: dialled (from the moment connect() returned) and accepted
Circuits(r) == Cardinality({i \in DSlots : dial[i].st \in {"upg", "open"} /\ dial[i].r = r})
             + Cardinality({j \in ISlots : inc[j].st = "open" /\ inc[j].r = r})

\* K1
OneActive == \A d \in Dests : Cardinality({i \in DSlots : dial[i].st \in {"ns", "resp"} /\ dial[i].d = d}) <= 1
\* K5: the activeDials entry is exactly the dial talking to a relay
NoStaleActive ==
  /\ \A d \in Dests : act[d] # 0 => dial[act[d]].st \in {"ns", "resp"} /\ dial[act[d]].d = d
  /\ \A i \in DSlots : dial[i].st \in {"ns", "resp"} => act[dial[i].d] = i
  /\ \A i \in DSlots : dial[i].st = "wait" => act[dial[i].d] # 0       \* nobody waits for nothing
\* K5: what the resource manager holds is what the calls in flight and the open connections account for
Rollback ==
  /\ res.co = Cardinality({i \in DSlots : dial[i].st \in {"wait", "ns", "resp", "upg", "open"}})
  /\ res.so = Cardinality({i \in DSlots : dial[i].st \in {"resp", "upg", "open"}})
  /\ res.mem = Cardinality({i \in DSlots : dial[i].st = "resp"})
  /\ res.si = Cardinality({j \in ISlots : inc[j].st \in {"read", "queued", "open"}})
\* K6
TagExact == \A r \in Relays : tag[r] <=> Circuits(r) >= 1
CountExact == \A r \in Relays : hop[r] = Circuits(r)
\* K7
ExactlyOne ==
  /\ \A j \in ISlots : ans[j] <= 1
  /\ \A j \in ISlots : inc[j].st \in {"read", "queued"} => ans[j] = 0
  /\ \A j \in ISlots : inc[j].st = "open" => ans[j] = 1
AcceptBounded ==
  /\ \A j \in ISlots : inc[j].st = "queued" => inc[j].t \in 1..AcceptTO
  /\ \A j \in ISlots : inc[j].st = "read" => inc[j].t \in 1..StreamTO
  /\ \A j \in ISlots : (inc[j].st = "queued") <=> (j \in Range(inq))
  /\ \A i \in DSlots : dial[i].st = "ns" => dial[i].t \in 1..RelayTO
  /\ \A i \in DSlots : dial[i].st = "resp" => dial[i].t \in 1..DialTO
NoMissedRendezvous == ~(accq # <<>> /\ inq # <<>>)
\* K8
CloseUnblocks == closed => accq = <<>>

(* action properties (clauses about one call)                                                         *)
\* K2
DedupRule ==
  [][/\ op'.name \in {"ns", "respond", "cancel"} =>
          \A e \in op'.ended : e.err \in {"dedup-proto", "dedup-ok"} =>
              /\ dial[e.i].st = "wait" /\ dial[e.i].d = dial[op'.i].d
              /\ e.err = "dedup-ok" => (op'.name = "respond" /\ op'.ok)
              /\ e.err = "dedup-proto" => (op'.name = "respond" /\ op'.a \in RelayErrAnswers /\ dial[e.i].r = dial[op'.i].r)
     /\ op'.name = "respond" /\ ~op'.ok =>
          \A w \in Waiters(dial[op'.i].d) :
              IF op'.a \in RelayErrAnswers /\ dial[w].r = dial[op'.i].r
              THEN dial'[w].st = "free" ELSE dial'[w].st \in {"wait", "ns"} /\ dial'[w].r = dial[w].r]_vars
\* K3
ConnOnlyIfOK ==
  [][\A i \in DSlots : (dial[i].st # "upg" /\ dial'[i].st = "upg") => (op'.name = "respond" /\ op'.i = i /\ op'.a \in OKAnswers)]_vars
\* K4
LimitedIff ==
  [][/\ \A i \in DSlots : (dial[i].st # "upg" /\ dial'[i].st = "upg") => dial'[i].lim = LimOf(op'.a)
     /\ \A j \in ISlots : (inc[j].st \notin {"queued", "open"} /\ inc'[j].st \in {"queued", "open"}) => inc'[j].lim = LimOf(op'.m)
     /\ \A j \in ISlots : (inc[j].st = "queued" /\ inc'[j].st = "open") => inc'[j].lim = inc[j].lim]_vars

(* liveness (with time): whatever waits on a timer is decided - a STOP stream is answered (K7: "or refused after the *)
(* accept timeout"), a dial that talks to a relay or waits for one that does comes to an end or to the upgrader       *)
LiveSpec == Init /\ [][Next]_vars /\ WF_vars(Tick)
StopDecided == \A j \in ISlots : (inc[j].st \in {"read", "queued"}) ~> (inc[j].st \notin {"read", "queued"})
DialDecided == \A i \in DSlots : (dial[i].st \in {"ns", "resp"}) ~> (dial[i].st \notin {"ns", "resp"})
WaiterDecided == \A i \in DSlots : (dial[i].st = "wait") ~> (dial[i].st # "wait")

(* vacuity guards: expected to be violated                                                            *)
ReachTwoCircuits == ~(\E r \in Relays : Circuits(r) >= 2)
=============================================================================
