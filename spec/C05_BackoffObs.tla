---------------------------- MODULE C05_BackoffObs ----------------------------
(***************************************************************************)
(* Observable-level specification of the back-off clauses of property C05. *)
(* An execution of a real Swarm recorded by                                *)
(* harness/p2p/net/swarm/zz_verif_c05bo_test.go (virtual time, scripted    *)
(* transports, consecutive generations of DialPeer callers at scripted     *)
(* instants) satisfies the clauses iff it is a behaviour of this           *)
(* specification.  Only observables are consumed: each caller's call and   *)
(* return (with the per-address causes carried by the returned DialError), *)
(* each transport Dial start and end, answers of the public                *)
(* Swarm.Backoff().Backoff(p, a).  The state is the back-off table the     *)
(* schedule of C05_BackoffSched prescribes for the failures and successes  *)
(* seen so far (time in milliseconds since the swarm was created; the      *)
(* cleanup ticker fires at the multiples of BackoffMax).                   *)
(*                                                                         *)
(* Clauses (guards):                                                       *)
(*  TrTStart  an address is handed to a transport only if it is not in     *)
(*            back-off at that instant, unless a force-direct caller waits *)
(*  TrRet     a dial error is returned only once every usable address has  *)
(*            failed in this worker generation or been refused, and an     *)
(*            address is reported refused (ErrDialBackoff) only if it was  *)
(*            in back-off at some instant while the caller waited - and,   *)
(*            for a force-direct caller, only if a caller that is not      *)
(*            force-direct shared the worker                               *)
(*  TrProbe   Backoff(p, a) answers "in back-off" iff the schedule says so *)
(* Completeness ("every address not in back-off is attempted") is the      *)
(* conjunction of the first two TrRet conditions: an address that was      *)
(* never in back-off while the caller waited must have been dialled and    *)
(* have failed before the caller may be given an error.                    *)
(***************************************************************************)
EXTENDS C05_BackoffSched, Sequences, FiniteSets, TLC, Json

TraceLog == ndJsonDeserialize("trace.ndjson")

VARIABLES l,
  cfg,        \* [base, coef, max] in ms
  ainfo,      \* address key "p/a" -> [p, relay]
  last,       \* instant of the last event
  lastClean,  \* last ticker instant accounted for
  defer,      \* a ticker instant whose cleanup() may not have run yet (an event at that very instant raced it); -1 = none
  ent,        \* address key -> [tries, until]   (only existing entries)
  wait,       \* caller -> [p, force, may]   callers inside DialPeer; may = keys seen in back-off while it waited
  gen,        \* peer -> [fail, conn, nf]    current worker generation: keys that failed, connection obtained, a non-force caller took part
  run         \* address key -> transport dials in progress

vars == <<l, cfg, ainfo, last, lastClean, defer, ent, wait, gen, run>>

Cur == TraceLog[l]
IsEvent(name) == l <= Len(TraceLog) /\ Cur.ev = name /\ l' = l + 1
Put(f, k, v) == [x \in DOMAIN f \cup {k} |-> IF x = k THEN v ELSE f[x]]
Drop(f, S) == [x \in DOMAIN f \ S |-> f[x]]
SeqSet(s) == {s[i] : i \in 1..Len(s)}
EntOf(e, k) == IF k \in DOMAIN e THEN e[k] ELSE NoEntry
Running(k) == IF k \in DOMAIN run THEN run[k] ELSE 0
FreshGen == [fail |-> {}, conn |-> FALSE, nf |-> FALSE]
GenOf(g, p) == IF p \in DOMAIN g THEN g[p] ELSE FreshGen
Waiting(w, p) == {c \in DOMAIN w : w[c].p = p}
InSet(e, p, t) == {k \in DOMAIN e : ainfo[k].p = p /\ BoIn(e[k], t)}

\* cleanup() running at instant T: a peer none of whose entries is good is deleted as a whole
CleanAt(e, T) == LET goodPeer(p) == \E k \in DOMAIN e : ainfo[k].p = p /\ BoGood(e[k], T, cfg.base, cfg.coef, cfg.max)
                 IN [k \in {x \in DOMAIN e : goodPeer(ainfo[x].p)} |-> e[k]]

TickAt(t) == (t \div cfg.max) * cfg.max        \* the last ticker instant <= t
\* the possible tables just before an event at instant t
Pre(t) ==
  LET late == defer >= 0 /\ t > defer
      e0 == IF late THEN CleanAt(ent, defer) ELSE ent
      d0 == IF late THEN -1 ELSE defer
      m == TickAt(t)
  IN IF m > lastClean
     THEN IF m < t THEN {[e |-> CleanAt(e0, m), d |-> -1]}
                   ELSE {[e |-> CleanAt(e0, m), d |-> -1], [e |-> e0, d |-> m]}
     ELSE IF d0 >= 0 THEN {[e |-> CleanAt(e0, d0), d |-> -1], [e |-> e0, d |-> d0]}
     ELSE {[e |-> e0, d |-> -1]}

\* every caller still waiting remembers which of its peer's addresses it has seen in back-off (before or after the event)
Samp(w, e1, e2, t) == [c \in DOMAIN w |-> [w[c] EXCEPT !.may = @ \cup InSet(e1, w[c].p, t) \cup InSet(e2, w[c].p, t)]]

Set(pre, e2, w2, g2, r2) ==
  /\ ent' = e2 /\ defer' = pre.d /\ wait' = Samp(w2, pre.e, e2, Cur.t) /\ gen' = g2 /\ run' = r2
  /\ last' = Cur.t /\ lastClean' = IF TickAt(Cur.t) > lastClean THEN TickAt(Cur.t) ELSE lastClean
  /\ UNCHANGED <<cfg, ainfo>>
Timed == cfg.max > 0 /\ Cur.t >= last

Init0 == /\ cfg = [base |-> 0, coef |-> 0, max |-> 0] /\ ainfo = <<>> /\ last = 0 /\ lastClean = 0 /\ defer = -1
         /\ ent = <<>> /\ wait = <<>> /\ gen = <<>> /\ run = <<>>
TraceInit == Init0 /\ l = 1 /\ TLCSet(1, 1)
TrReset == /\ IsEvent("reset")
           /\ cfg' = [base |-> 0, coef |-> 0, max |-> 0] /\ ainfo' = <<>> /\ last' = 0 /\ lastClean' = 0 /\ defer' = -1
           /\ ent' = <<>> /\ wait' = <<>> /\ gen' = <<>> /\ run' = <<>>

TrConfig == /\ IsEvent("config") /\ Cur.base >= 1 /\ Cur.base <= Cur.max
            /\ cfg' = [base |-> Cur.base, coef |-> Cur.coef, max |-> Cur.max]
            /\ UNCHANGED <<ainfo, last, lastClean, defer, ent, wait, gen, run>>
TrAddr == /\ IsEvent("addr") /\ ainfo' = Put(ainfo, Cur.k, [p |-> Cur.p, relay |-> Cur.relay])
          /\ UNCHANGED <<cfg, last, lastClean, defer, ent, wait, gen, run>>

TrCall == /\ IsEvent("dial_call") /\ Timed /\ Cur.c \notin DOMAIN wait
          /\ \E pre \in Pre(Cur.t) :
               Set(pre, pre.e, Put(wait, Cur.c, [p |-> Cur.p, force |-> Cur.force, may |-> {}]),
                   Put(gen, Cur.p, [GenOf(gen, Cur.p) EXCEPT !.nf = @ \/ ~Cur.force]), run)

\* an address is handed to a transport: not while it is in back-off, unless a force-direct caller is waiting
TrTStart == /\ IsEvent("tdial_start") /\ Timed /\ Cur.k \in DOMAIN ainfo
            /\ \E pre \in Pre(Cur.t) :
                 /\ \/ ~BoIn(EntOf(pre.e, Cur.k), Cur.t)
                    \/ \E c \in Waiting(wait, Cur.p) : wait[c].force
                 /\ Set(pre, pre.e, wait, gen, Put(run, Cur.k, Running(Cur.k) + 1))

\* a transport dial ends.  ok: addConn clears every entry of the peer.  fail / timeout: back-off is added unless this
\* worker generation has obtained a connection.  canceled (the transport returned context.Canceled while callers were
\* still waiting): a failure of the address, but no back-off.  cancel (the dial's own context was cancelled): nothing.
TrTEnd ==
  /\ IsEvent("tdial_end") /\ Timed /\ Running(Cur.k) > 0
  /\ \E pre \in Pre(Cur.t) :
       LET p == Cur.p
           g == GenOf(gen, p)
           live == Waiting(wait, p) # {}
           r2 == Put(run, Cur.k, Running(Cur.k) - 1)
       IN CASE Cur.res = "ok" /\ live ->
                 Set(pre, Drop(pre.e, {k \in DOMAIN pre.e : ainfo[k].p = p}), wait, Put(gen, p, [g EXCEPT !.conn = TRUE]), r2)
            [] Cur.res \in {"fail", "timeout"} /\ live ->
                 Set(pre, IF g.conn THEN pre.e
                          ELSE Put(pre.e, Cur.k, BoAfterFail(EntOf(pre.e, Cur.k), Cur.t, cfg.base, cfg.coef, cfg.max)),
                     wait, Put(gen, p, [g EXCEPT !.fail = @ \cup {Cur.k}]), r2)
            [] Cur.res = "canceled" /\ live ->
                 Set(pre, pre.e, wait, Put(gen, p, [g EXCEPT !.fail = @ \cup {Cur.k}]), r2)
            [] OTHER -> Set(pre, pre.e, wait, gen, r2)

Leave(w, c) == Drop(w, {c})
GenAfter(w2, p) == IF Waiting(w2, p) = {} THEN Put(gen, p, FreshGen) ELSE gen

\* DialPeer returns a connection or the caller's own context error: nothing to demand here (C05_Obs does)
TrRetOther == /\ IsEvent("dial_ret") /\ Timed /\ Cur.res \in {"conn", "ctx"} /\ Cur.c \in DOMAIN wait
              /\ \E pre \in Pre(Cur.t) :
                   Set(pre, pre.e, Leave(wait, Cur.c), GenAfter(Leave(wait, Cur.c), wait[Cur.c].p), run)

\* DialPeer returns a dial error
TrRetErr ==
  /\ IsEvent("dial_ret") /\ Timed /\ Cur.res = "err" /\ Cur.c \in DOMAIN wait
  /\ \E pre \in Pre(Cur.t) :
       LET w == wait[Cur.c]
           usable == {k \in DOMAIN ainfo : ainfo[k].p = w.p /\ ~(w.force /\ ainfo[k].relay)}
           may == w.may \cup InSet(pre.e, w.p, Cur.t)
           bo == SeqSet(Cur.bo)
           fl == SeqSet(Cur.fl)
       IN /\ \/ Cur.cause = "alldialsfailed"
             \/ (Cur.cause = "nogoodaddrs" /\ usable = {})
          /\ usable \subseteq (bo \cup fl)                      \* every candidate address has failed or been refused
          /\ \A k \in bo : /\ k \in may                         \* refused only while in back-off
                           /\ (w.force => GenOf(gen, w.p).nf)   \* force-direct dials ignore back-off
          /\ \A k \in fl \cap usable : k \in GenOf(gen, w.p).fail   \* "failed" means a transport dial of this generation failed
          /\ Set(pre, pre.e, Leave(wait, Cur.c), GenAfter(Leave(wait, Cur.c), w.p), run)

\* the public Backoff(p, a)
TrProbe == /\ IsEvent("probe") /\ Timed
           /\ \E pre \in Pre(Cur.t) : /\ Cur.res = BoIn(EntOf(pre.e, Cur.k), Cur.t)
                                      /\ Set(pre, pre.e, wait, gen, run)

TrTime == /\ (IsEvent("conn_close") \/ IsEvent("end")) /\ Timed
          /\ \E pre \in Pre(Cur.t) : Set(pre, pre.e, wait, gen, run)

TraceNext == \/ TrReset \/ TrConfig \/ TrAddr \/ TrCall \/ TrTStart \/ TrTEnd \/ TrRetOther \/ TrRetErr \/ TrProbe \/ TrTime
TraceSpec == TraceInit /\ [][TraceNext]_vars

HighWater == TLCSet(1, IF l > TLCGet(1) THEN l ELSE TLCGet(1))
TraceAccepted == /\ PrintT(<<"VFHW", ToJson([hw |-> TLCGet(1), len |-> Len(TraceLog)])>>)
                 /\ TLCGet(1) = Len(TraceLog) + 1
=============================================================================
