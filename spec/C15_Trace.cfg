CONSTANTS
  Types <- TrTypes
  Stateful <- TrStateful
  Emitters <- TrEmitters
  ETyp <- TrETyp
  NEv <- TrNEv
  Subs <- TrSubs
  STyps <- TrSTyps
  WSubs <- TrWSubs
  Cap <- TrCap
  CheckCap = FALSE
  LateEm <- TrLateEm
  DropTrustsCaller = FALSE
SPECIFICATION TraceSpec
CONSTRAINT HighWater
INVARIANTS NoPanic Order ExactlyOnce OnlyAsked StatefulFirst ClosedDetached LocksSane
POSTCONDITION TraceAccepted
CHECK_DEADLOCK FALSE
