\* Template: checks/C11cl.py instantiates the constants for every bounded instance.
CONSTANTS
  Relays = {"r1", "r2"}
  Dests = {"d1", "d2"}
  MaxDial = 2
  MaxPerDest = 2
  MaxIn = 1
  MaxAcc = 1
  AcceptTO = 2
  StreamTO = 3
  DialTO = 3
  RelayTO = 1
  Answers = {"ok", "oklim", "status", "reset"}
  StopMsgs = {"ok", "oklim", "badtype", "garbage"}
  Faults = {"nsfail"}
  Features = {"time"}
  CloseOnce = TRUE
INIT Init
NEXT Next
VIEW View
CHECK_DEADLOCK FALSE
CONSTRAINT HopBound
INVARIANTS TypeOK OneActive NoStaleActive Rollback TagExact CountExact ExactlyOne AcceptBounded NoMissedRendezvous CloseUnblocks
PROPERTIES DedupRule ConnOnlyIfOK LimitedIff
