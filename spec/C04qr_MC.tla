------------------------------ MODULE C04qr_MC ------------------------------
EXTENDS C04qr_Pool, Json
\* listen addresses of the bounded instances
A00 == [ip |-> "any", port |-> 0]
A01 == [ip |-> "any", port |-> 1]
U10 == [ip |-> "u1", port |-> 0]
U11 == [ip |-> "u1", port |-> 1]
U20 == [ip |-> "u2", port |-> 0]
AddrsAll == {A00, A01, U10, U11, U20}
AddrsGlobal == {A00, A01}
AddrsMixed == {A00, A01, U10}
AddrsUni == {A00, U10, U20}
EmitEdge == PrintT(<<"VFEDGE", ToJson([s |-> st, op |-> op', t |-> st'])>>)
EmitSeq == Sequential /\ EmitEdge
MCInit == Init /\ PrintT(<<"VFINIT", ToJson(st)>>)
=============================================================================
