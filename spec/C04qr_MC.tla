------------------------------ MODULE C04qr_MC ------------------------------
EXTENDS C04qr_Pool, Json
\* listen addresses of the bounded instances
A00 == [ip |-> "any", port |-> 0]
A01 == [ip |-> "any", port |-> 1]
U10 == [ip |-> "u1", port |-> 0]
U11 == [ip |-> "u1", port |-> 1]
U20 == [ip |-> "u2", port |-> 0]
AddrsAll == {A00, A01, U10, U11, U20}
AddrsGlobal == {A00, A01}
AddrsMixed == {A00, A01, U10}
AddrsUni == {A00, U10, U20}
AddrsA0 == {A00}
AddrsA1 == {A01}
AddrsA0U0 == {A00, U10}
AddrsA0U1 == {A00, U11}
AddrsA1U1 == {A01, U11}
AddrsU == {U10, U11}
AddrsU0 == {U10}
EmitEdge == PrintT(<<"VFEDGE", ToJson([s |-> st, op |-> op', t |-> st'])>>)
EmitSeq == Sequential /\ EmitEdge
MCInit == Init /\ PrintT(<<"VFINIT", ToJson(st)>>)
=============================================================================
