\* Template: checks/C05bo.py instantiates the constants for every bounded instance.
CONSTANTS
  Peers = {"p1"}
  Addrs = {"a1", "a2"}
  Base = 2
  Coef = 1
  Max = 5
  MaxTries = 4
  MaxTime = 12
  WithApi = TRUE
  WithQuery = TRUE
  WithDial = TRUE
INIT Init
NEXT Next
VIEW View
CHECK_DEADLOCK FALSE
INVARIANTS TypeOK EntryShape Justified Protected MemoryBounded
PROPERTIES Schedule SuccessClears ForceIgnores RefusedIff RetryAfterRefusal NoAddWhenConnectedOrCancelled PeerIsolation AnswerChange
