------------------------------- MODULE C04_Obs -------------------------------
(***************************************************************************)
(* Observable-level specification of property C04 ("every failed or        *)
(* finished connection/stream releases all it acquired").                   *)
(*                                                                         *)
(* A recorded execution is a ledger of what a user of the code can see:    *)
(*   begin  {o, kind, dir, rm, fd}  an attempt to establish object o starts *)
(*                                  (it may hold resources from now on)     *)
(*   live   {o}                     the API handed o to its user            *)
(*   end    {o, why}                the attempt failed (error returned), or *)
(*                                  the user's Close/Reset returned, or the *)
(*                                  attempt can no longer complete (its     *)
(*                                  listener's Close returned, its          *)
(*                                  connection is gone)                     *)
(*   raw_open {o} / raw_close {o}   a raw network connection was handed to  *)
(*                                  the code / the code called Close on it  *)
(*   audit  {rm, final, usage, gor} Stat() of resource manager rm read at a *)
(*                                  quiescent point (+ goroutine census)    *)
(*   swarm_closed {rm, conns, listeners}   Swarm/Host.Close returned        *)
(*   residue {rm, conns, holepunch, listeners, endpoints}  a transport's    *)
(*                                  own bookkeeping at a quiescent point    *)
(* The statement's clauses are the guards of Audit and SwarmClosed: usage  *)
(* is bounded by the live and pending holders (so it returns to its former *)
(* value when an attempt ends), ended attempts have had their raw          *)
(* connection closed, no goroutine of an ended attempt remains, and after  *)
(* Close everything is zero and gone.  The per-exit oracle ("what must     *)
(* have been released when this exit is taken") is C04_Lifecycle's         *)
(* invariant Released: an ended object holds nothing.                      *)
(*                                                                         *)
(* Many ledgers are validated in one pass: a line whose guard is false     *)
(* REJECTS its ledger (recorded in `bad`, the rest of that ledger is       *)
(* skipped) and validation continues with the next ledger.  A ledger is a  *)
(* behaviour of the specification proper iff it is never rejected.         *)
(* Fully logged and deterministic: validation is linear.                   *)
(***************************************************************************)
EXTENDS Naturals, Sequences, FiniteSets, TLC, Json

TraceLog == ndJsonDeserialize("trace.ndjson")

VARIABLES l,
  obj,      \* object id -> [kind, dir, rm, fd, st] with st in pending | live | ended
  raw,      \* object id -> open | closed   (raw connections handed to the code)
  closedRM, \* resource managers whose swarm has been closed
  tname,    \* name of the ledger being consumed
  skip,     \* the current ledger has been rejected: skip to the next reset
  bad       \* rejected ledgers: <<[trace, at, ev]>>

vars == <<l, obj, raw, closedRM, tname, skip, bad>>

Cur == TraceLog[l]
More == l <= Len(TraceLog)
Is(name) == More /\ ~skip /\ Cur.ev = name

\* events that carry no obligation (what was injected, progress markers)
Info == {"fault", "pingpong", "lclose_call", "lclose_ret", "conn_close_race", "raw_returned", "note", "refused"}
Known == Info \cup {"reset", "begin", "live", "end", "raw_open", "raw_close", "audit", "swarm_closed", "residue"}

TraceInit == /\ l = 1 /\ obj = <<>> /\ raw = <<>> /\ closedRM = {} /\ tname = "" /\ skip = FALSE /\ bad = <<>>
             /\ TLCSet(1, 1) /\ TLCSet(2, <<>>)

Keep == UNCHANGED <<obj, raw, closedRM>>
\* consume the line: either the guard holds and the ledger state is updated, or the ledger is rejected
Accept == l' = l + 1 /\ UNCHANGED <<tname, skip, bad>>
Reject == /\ l' = l + 1 /\ skip' = TRUE /\ UNCHANGED tname /\ Keep
          /\ bad' = Append(bad, [trace |-> tname, at |-> l, ev |-> Cur.ev])

TrReset == /\ More /\ Cur.ev = "reset" /\ l' = l + 1
           /\ obj' = <<>> /\ raw' = <<>> /\ closedRM' = {} /\ tname' = Cur.trace /\ skip' = FALSE
           /\ UNCHANGED bad
TrSkip == /\ More /\ skip /\ Cur.ev # "reset" /\ l' = l + 1 /\ UNCHANGED <<tname, skip, bad>> /\ Keep
TrInfo == /\ More /\ ~skip /\ Cur.ev \in Info /\ Accept /\ Keep
\* an event the specification does not know (bad_return, bad_accept, deadlock, ...) is never allowed
TrUnknown == /\ More /\ ~skip /\ Cur.ev \notin Known /\ Reject

Upd(f, k, v) == [x \in DOMAIN f \cup {k} |-> IF x = k THEN v ELSE f[x]]

TrBegin == /\ Is("begin")
           /\ IF Cur.o \notin DOMAIN obj
                THEN /\ obj' = Upd(obj, Cur.o, [kind |-> Cur.kind, dir |-> Cur.dir, rm |-> Cur.rm, fd |-> Cur.fd, st |-> "pending"])
                     /\ UNCHANGED <<raw, closedRM>> /\ Accept
                ELSE Reject

\* the object is handed to the user exactly once, never after its attempt was reported as failed, and
\* never by a swarm whose Close has returned
TrLive == /\ Is("live")
          /\ IF Cur.o \in DOMAIN obj /\ obj[Cur.o].st = "pending" /\ obj[Cur.o].rm \notin closedRM
               THEN obj' = [obj EXCEPT ![Cur.o].st = "live"] /\ UNCHANGED <<raw, closedRM>> /\ Accept
               ELSE Reject

TrEnd == /\ Is("end")
         /\ IF Cur.o \in DOMAIN obj /\ obj[Cur.o].st \in {"pending", "live"}
              THEN obj' = [obj EXCEPT ![Cur.o].st = "ended"] /\ UNCHANGED <<raw, closedRM>> /\ Accept
              ELSE Reject

TrRawOpen == /\ Is("raw_open")
             /\ IF Cur.o \notin DOMAIN raw
                  THEN raw' = Upd(raw, Cur.o, "open") /\ UNCHANGED <<obj, closedRM>> /\ Accept
                  ELSE Reject
TrRawClose == /\ Is("raw_close")
              /\ IF Cur.o \in DOMAIN raw
                   THEN raw' = [raw EXCEPT ![Cur.o] = "closed"] /\ UNCHANGED <<obj, closedRM>> /\ Accept
                   ELSE Reject

Objs(r, k, d, sts) == {o \in DOMAIN obj : obj[o].rm = r /\ obj[o].kind = k /\ obj[o].dir = d /\ obj[o].st \in sts}
N(S) == Cardinality(S)
Between(x, lo, hi) == lo <= x /\ x <= hi
Holders(r) == {o \in DOMAIN obj : obj[o].rm = r /\ obj[o].st \in {"pending", "live"}}
FdOf(S) == N({o \in S : obj[o].fd})

(***************************************************************************)
(* The audit.  Usage in the system scope lies between what the live        *)
(* holders account for and that plus the attempts still in flight; the     *)
(* transient scope holds at most the connections whose peer is not set yet *)
(* (in flight, or handed over by a demultiplexing listener) and the        *)
(* streams; with no holder at all every scope is zero.  A final audit is   *)
(* taken when nothing is in flight any more: every ended attempt's raw     *)
(* connection has been closed by the code and no goroutine started for an  *)
(* attempt is left.                                                        *)
(***************************************************************************)
AuditOK ==
  LET r == Cur.rm
      LC(d) == Objs(r, "conn", d, {"live"})
      PC(d) == Objs(r, "conn", d, {"pending"})
      LS(d) == Objs(r, "stream", d, {"live"})
      PS(d) == Objs(r, "stream", d, {"pending"})
      conns == LC("in") \cup LC("out")
      pconns == PC("in") \cup PC("out")
  IN /\ Between(Cur.cIn, N(LC("in")), N(LC("in")) + N(PC("in")))
     /\ Between(Cur.cOut, N(LC("out")), N(LC("out")) + N(PC("out")))
     /\ Between(Cur.sIn, N(LS("in")), N(LS("in")) + N(PS("in")))
     /\ Between(Cur.sOut, N(LS("out")), N(LS("out")) + N(PS("out")))
     /\ Between(Cur.fd, FdOf(conns), FdOf(conns) + FdOf(pconns))
     /\ Cur.tcIn <= N(PC("in")) + N(LC("in")) /\ Cur.tcOut <= N(PC("out")) + N(LC("out"))
     /\ Cur.tfd <= FdOf(pconns) + FdOf(conns)
     /\ Cur.tsIn <= N(LS("in")) + N(PS("in")) /\ Cur.tsOut <= N(LS("out")) + N(PS("out"))
     /\ (Holders(r) = {} => Cur.mem = 0 /\ Cur.tmem = 0 /\ Cur.other = 0)
     /\ (LS("in") \cup LS("out") \cup PS("in") \cup PS("out") = {} => Cur.tmem = 0)
     /\ (Cur.final =>
           /\ \A o \in DOMAIN obj : obj[o].st # "pending"
           /\ \A o \in DOMAIN raw : (o \in DOMAIN obj /\ obj[o].st = "ended") => raw[o] = "closed"
           /\ ((\A o \in DOMAIN obj : obj[o].st = "ended") => Cur.gor = 0))

TrAudit == /\ Is("audit")
           /\ IF AuditOK THEN Accept /\ Keep ELSE Reject

\* A transport's own bookkeeping read at a quiescent point (QUIC: conns / holePunching / listeners maps, UDP
\* endpoints still open; tcpreuse: shared listeners): no hole-punch entry survives its call, no endpoint
\* survives the close of its manager, and with no holder left nothing at all is registered
ResidueOK ==
  LET r == Cur.rm
      cs == {o \in DOMAIN obj : obj[o].rm = r /\ obj[o].kind = "conn" /\ obj[o].st \in {"pending", "live"}}
  IN /\ Cur.holepunch = 0 /\ Cur.endpoints = 0
     /\ Cur.conns <= N(cs)
     /\ (Holders(r) = {} => Cur.listeners = 0)
TrResidue == /\ Is("residue")
             /\ IF ResidueOK THEN Accept /\ Keep ELSE Reject

\* Swarm.Close returned: no connection, no listener; everything that was charged to it is gone
TrSwarmClosed ==
  /\ Is("swarm_closed")
  /\ IF Cur.conns = 0 /\ Cur.listeners = 0
       THEN /\ obj' = [o \in DOMAIN obj |-> IF obj[o].rm = Cur.rm THEN [obj[o] EXCEPT !.st = "ended"] ELSE obj[o]]
            /\ closedRM' = closedRM \cup {Cur.rm}
            /\ UNCHANGED raw /\ Accept
       ELSE Reject

TraceNext == \/ TrReset \/ TrSkip \/ TrInfo \/ TrUnknown \/ TrBegin \/ TrLive \/ TrEnd \/ TrRawOpen \/ TrRawClose
             \/ TrAudit \/ TrSwarmClosed \/ TrResidue

TraceSpec == TraceInit /\ [][TraceNext]_vars

\* the statement holds on a ledger iff the ledger is never rejected
NoRejection == bad = <<>>

HighWater == /\ TLCSet(1, IF l > TLCGet(1) THEN l ELSE TLCGet(1))
             /\ (IF Len(bad) > Len(TLCGet(2)) THEN TLCSet(2, bad) ELSE TRUE)
TraceAccepted == /\ PrintT(<<"VFHW", ToJson([hw |-> TLCGet(1), len |-> Len(TraceLog)])>>)
                 /\ PrintT(<<"VFBAD", ToJson([bad |-> TLCGet(2)])>>)
                 /\ TLCGet(1) = Len(TraceLog) + 1
=============================================================================
