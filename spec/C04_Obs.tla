------------------------------- MODULE C04_Obs -------------------------------
(***************************************************************************)
(* Observable-level specification of property C04 ("every failed or        *)
(* finished connection/stream releases all it acquired").                   *)
(*                                                                         *)
(* A recorded execution is a ledger of what a user of the code can see:    *)
(*   begin  {o, kind, dir, rm, fd}  an attempt to establish object o starts *)
(*                                  (it may hold resources from now on)     *)
(*   live   {o}                     the API handed o to its user            *)
(*   end    {o, why}                the attempt failed (error returned), or *)
(*                                  the user's Close/Reset returned, or the *)
(*                                  attempt can no longer complete (its     *)
(*                                  listener's Close returned)              *)
(*   raw_open {o} / raw_close {o}   a raw network connection was handed to  *)
(*                                  the code / the code called Close on it  *)
(*   audit  {rm, final, usage, gor} Stat() of resource manager rm read at a *)
(*                                  quiescent point (+ goroutine census)    *)
(*   swarm_closed {rm, conns, listeners}   Swarm.Close returned             *)
(* The statement's clauses are the guards of Audit and SwarmClosed: usage  *)
(* is bounded by the live and pending holders (so it returns to its former *)
(* value when an attempt ends), ended attempts have had their raw          *)
(* connection closed, no goroutine of an ended attempt remains, and after  *)
(* Close everything is zero and gone.  The per-exit oracle ("what must     *)
(* have been released when this exit is taken") is C04_Lifecycle's         *)
(* invariant Released: an ended object holds nothing.                      *)
(* Fully logged: validation is linear.                                     *)
(***************************************************************************)
EXTENDS Naturals, Sequences, FiniteSets, TLC, Json

TraceLog == ndJsonDeserialize("trace.ndjson")

VARIABLES l,
  obj,     \* object id -> [kind, dir, rm, fd, st] with st in pending | live | ended
  raw,     \* object id -> open | closed   (raw connections handed to the code)
  closedRM \* resource managers whose swarm has been closed

vars == <<l, obj, raw, closedRM>>

Cur == TraceLog[l]
IsEvent(name) == l <= Len(TraceLog) /\ Cur.ev = name /\ l' = l + 1

\* events that carry no obligation (what was injected, progress markers)
Info == {"fault", "pingpong", "lclose_call", "lclose_ret", "conn_close_race", "raw_returned", "note",
         "refused", "handler", "stream_reset"}

TraceInit == l = 1 /\ obj = <<>> /\ raw = <<>> /\ closedRM = {} /\ TLCSet(1, 1)

TrReset == /\ IsEvent("reset")
           /\ obj' = <<>> /\ raw' = <<>> /\ closedRM' = {}

TrInfo == /\ l <= Len(TraceLog) /\ Cur.ev \in Info /\ l' = l + 1
          /\ UNCHANGED <<obj, raw, closedRM>>

Upd(f, k, v) == [x \in DOMAIN f \cup {k} |-> IF x = k THEN v ELSE f[x]]

TrBegin == /\ IsEvent("begin") /\ Cur.o \notin DOMAIN obj
           /\ Cur.rm \notin closedRM
           /\ obj' = Upd(obj, Cur.o, [kind |-> Cur.kind, dir |-> Cur.dir, rm |-> Cur.rm, fd |-> Cur.fd, st |-> "pending"])
           /\ UNCHANGED <<raw, closedRM>>

\* the object is handed to the user exactly once, and never after its attempt was reported as failed
TrLive == /\ IsEvent("live") /\ Cur.o \in DOMAIN obj /\ obj[Cur.o].st = "pending"
          /\ obj' = [obj EXCEPT ![Cur.o].st = "live"]
          /\ UNCHANGED <<raw, closedRM>>

TrEnd == /\ IsEvent("end") /\ Cur.o \in DOMAIN obj /\ obj[Cur.o].st \in {"pending", "live"}
         /\ obj' = [obj EXCEPT ![Cur.o].st = "ended"]
         /\ UNCHANGED <<raw, closedRM>>

TrRawOpen == /\ IsEvent("raw_open") /\ Cur.o \notin DOMAIN raw
             /\ raw' = Upd(raw, Cur.o, "open")
             /\ UNCHANGED <<obj, closedRM>>
TrRawClose == /\ IsEvent("raw_close") /\ Cur.o \in DOMAIN raw
              /\ raw' = [raw EXCEPT ![Cur.o] = "closed"]
              /\ UNCHANGED <<obj, closedRM>>

Objs(r, k, d, sts) == {o \in DOMAIN obj : obj[o].rm = r /\ obj[o].kind = k /\ obj[o].dir = d /\ obj[o].st \in sts}
N(S) == Cardinality(S)
Between(x, lo, hi) == lo <= x /\ x <= hi
Holders(r) == {o \in DOMAIN obj : obj[o].rm = r /\ obj[o].st \in {"pending", "live"}}
FdOf(S) == N({o \in S : obj[o].fd})

(***************************************************************************)
(* The audit.  Usage in the system scope lies between what the live        *)
(* holders account for and that plus the attempts still in flight; the     *)
(* transient scope holds at most the in-flight connections (a connection   *)
(* leaves it when its peer is set, before it is handed out) and the        *)
(* streams; with no holder at all every scope is zero.  A final audit is   *)
(* taken when nothing is in flight any more: every ended attempt's raw     *)
(* connection has been closed by the code and no goroutine started for an  *)
(* attempt is left.                                                        *)
(***************************************************************************)
TrAudit ==
  /\ IsEvent("audit")
  /\ LET r == Cur.rm
         LC(d) == Objs(r, "conn", d, {"live"})    PC(d) == Objs(r, "conn", d, {"pending"})
         LS(d) == Objs(r, "stream", d, {"live"})  PS(d) == Objs(r, "stream", d, {"pending"})
         conns == LC("in") \cup LC("out")         pconns == PC("in") \cup PC("out")
     IN /\ Between(Cur.cIn, N(LC("in")), N(LC("in")) + N(PC("in")))
        /\ Between(Cur.cOut, N(LC("out")), N(LC("out")) + N(PC("out")))
        /\ Between(Cur.sIn, N(LS("in")), N(LS("in")) + N(PS("in")))
        /\ Between(Cur.sOut, N(LS("out")), N(LS("out")) + N(PS("out")))
        /\ Between(Cur.fd, FdOf(conns), FdOf(conns) + FdOf(pconns))
        /\ Cur.tcIn <= N(PC("in")) /\ Cur.tcOut <= N(PC("out")) /\ Cur.tfd <= FdOf(pconns)
        /\ Cur.tsIn <= N(LS("in")) + N(PS("in")) /\ Cur.tsOut <= N(LS("out")) + N(PS("out"))
        /\ (Holders(r) = {} => Cur.mem = 0 /\ Cur.tmem = 0 /\ Cur.other = 0)
        /\ (LS("in") \cup LS("out") \cup PS("in") \cup PS("out") = {} => Cur.tmem = 0)
        /\ (Cur.final =>
              /\ \A o \in DOMAIN obj : obj[o].st # "pending"
              /\ \A o \in DOMAIN raw : (o \in DOMAIN obj /\ obj[o].st = "ended") => raw[o] = "closed"
              /\ ((\A o \in DOMAIN obj : obj[o].st = "ended") => Cur.gor = 0))
  /\ UNCHANGED <<obj, raw, closedRM>>

\* Swarm.Close returned: no connection, no listener; everything that was charged to it is gone
TrSwarmClosed == /\ IsEvent("swarm_closed")
                 /\ Cur.conns = 0 /\ Cur.listeners = 0
                 /\ obj' = [o \in DOMAIN obj |-> IF obj[o].rm = Cur.rm THEN [obj[o] EXCEPT !.st = "ended"] ELSE obj[o]]
                 /\ closedRM' = closedRM \cup {Cur.rm}
                 /\ UNCHANGED raw

TraceNext == \/ TrReset \/ TrInfo \/ TrBegin \/ TrLive \/ TrEnd \/ TrRawOpen \/ TrRawClose
             \/ TrAudit \/ TrSwarmClosed

TraceSpec == TraceInit /\ [][TraceNext]_vars

HighWater == TLCSet(1, IF l > TLCGet(1) THEN l ELSE TLCGet(1))
TraceAccepted == /\ PrintT(<<"VFHW", ToJson([hw |-> TLCGet(1), len |-> Len(TraceLog)])>>)
                 /\ TLCGet(1) = Len(TraceLog) + 1
=============================================================================
