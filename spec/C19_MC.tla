------------------------------ MODULE C19_MC ------------------------------
EXTENDS C19_HttpAuth, Json

MCVerifiersS == {"S"}
MCVerifiersBoth == {"S", "S2"}

\* compact JSON-able projection of the VIEW'd state (every printed edge carries two of them):
\* << now, nn, opaques as tuples, signatures as tuples, client session, sessions started >>
OpT(o) == <<o.mac, o.tok, o.cpk, o.pid, o.ch, o.host, o.t>>
SgT(g) == <<g.key, g.kind, g.ch, g.pub, g.host>>
St == << now, nn, {OpT(o) : o \in ops}, {SgT(g) : g \in sigs}, <<cli.st, cli.host, cli.chS, cli.spk>>, ncli >>
EmitEdge == PrintT(<<"VFEDGE", ToJson([s |-> St, op |-> op', t |-> St'])>>)
Conf == [maxt |-> MaxT, chalttl |-> ChalTTL, tokttl |-> TokTTL, maxmint |-> MaxMint, maxtok |-> MaxTok,
         maxcli |-> MaxCli, s2samekey |-> S2SameKey, verifiers |-> Verifiers, rich |-> Rich]
MCInit == Init /\ PrintT(<<"VFINIT", ToJson(St)>>) /\ PrintT(<<"VFCONF", ToJson(Conf)>>)
=============================================================================
