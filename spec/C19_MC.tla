------------------------------ MODULE C19_MC ------------------------------
EXTENDS C19_HttpAuth, Json

MCVerifiersNone == {}
MCVerifiersS == {"S"}
MCVerifiersBoth == {"S", "S2"}
\* S at both hostnames, the other secret at one of them
MCPlaces3 == {<<"S", "h1">>, <<"S", "h2">>, <<"S2", "h1">>}
MCPlaces4 == {<<"S", "h1">>, <<"S", "h2">>, <<"S2", "h1">>, <<"S2", "h2">>}
MCPlacesS == {<<"S", "h1">>, <<"S", "h2">>}
MCPlaces1 == {<<"S", "h1">>}
\* S at h1, the other server at the alias name
MCPlacesAlias == {<<"S", "h1">>, <<"S2", "h1a">>}
MCNoAlias == {}
MCAlias == {"h1a"}
MCCliAll == {"h1", "h2"}
MCCliAlias == {"h1", "h1a"}

\* compact JSON-able projection of the VIEW'd state (every printed edge carries two of them):
\* << now, opaques as tuples, signatures as tuples, client session, sessions started, client nonces >>
OpT(o) == <<o.mac, o.tok, o.cpk, o.pid, o.ch, o.host, o.t>>
SgT(g) == <<g.key, g.kind, g.ch, g.pub, g.host>>
St == << now, {OpT(o) : o \in ops}, {SgT(g) : g \in sigs}, <<cli.st, cli.host, cli.chS, cli.spk>>, ncli, cn,
         {<<e.host, e.spk, e.chS>> : e \in cache} >>
\* the op record with its blobs and signatures as tuples
OpJ(r) == [x \in DOMAIN r |-> IF x \in {"o", "b"} THEN OpT(r[x]) ELSE IF x \in {"sig", "signed"} THEN SgT(r[x]) ELSE r[x]]
EmitEdge == PrintT(<<"VFEDGE", ToJson([s |-> St, op |-> OpJ(op'), t |-> St'])>>)
Conf == [maxt |-> MaxT, chalttl |-> ChalTTL, tokttl |-> TokTTL, maxmint |-> MaxMint, maxtok |-> MaxTok,
         maxcli |-> MaxCli, s2samekey |-> S2SameKey, verifiers |-> Verifiers, explicit |-> Explicit,
         chost |-> CHost, rich |-> Rich,
         alias |-> AliasHosts]
MCInit == Init /\ PrintT(<<"VFINIT", ToJson(St)>>) /\ PrintT(<<"VFCONF", ToJson(Conf)>>)
=============================================================================
