--------------------------- MODULE C02_LazyMS ---------------------------
(***************************************************************************)
(* Layer instance of the C02 channel family: a BasicHost stream opened on  *)
(* the optimistic path (p2p/host/basic: NewStream returns a streamWrapper  *)
(* whose Read/Write go through go-multistream's lazy client).  The         *)
(* multistream handshake (two tokens each way: header, protocol) travels   *)
(* on the same byte stream as the user's data:                             *)
(*   client -> server:  h1 h2 data* [FIN]     server -> client: h1 h2 data*[FIN]*)
(* Client side: the first Write sends the handshake in front of its data   *)
(* in one flush; a Read first starts the write half (if still pending),    *)
(* then takes the server's two tokens, then reads data; CloseWrite flushes *)
(* the handshake before the FIN.  Server side (internal to the host):      *)
(* sends its header eagerly, reads the client's two tokens, echoes the     *)
(* protocol and only then hands the stream to the handler.                 *)
(* The client's Read is split into Begin/End because it may have to wait   *)
(* for the server while other calls go on (one outstanding Read).          *)
(***************************************************************************)
EXTENDS Naturals, Sequences, TLC

CONSTANTS MaxSent, MaxWrite, Bufs,
          Delays    \* classes of (virtual) time that may pass between two operations once the stream is in use

VARIABLES cs, sc,           \* the two byte streams: handshake tokens, data units, FIN
          cw,               \* client: write half of the handshake done
          crh,              \* client: tokens of the read half taken (0..2)
          crd,              \* client: buffer size of the outstanding Read (0: none)
          sst,              \* server: 0 new, 1 header sent, 2 header read, 3 negotiated (handler runs)
          csent, ssent, cdel, sdel, cfin, sfin, ceof, seof, op
vars == <<cs, sc, cw, crh, crd, sst, csent, ssent, cdel, sdel, cfin, sfin, ceof, seof, op>>
View == <<cs, sc, cw, crh, crd, sst, csent, ssent, cdel, sdel, cfin, sfin, ceof, seof>>

Min(a, b) == IF a < b THEN a ELSE b
IsPrefix(s, t) == Len(s) <= Len(t) /\ \A i \in 1..Len(s) : s[i] = t[i]
Seq1(n) == [i \in 1..n |-> i]
\* stream elements: handshake tokens, data units (i = position in the sender's payload), FIN
H1 == [t |-> "h", i |-> 1]
H2 == [t |-> "h", i |-> 2]
FIN == [t |-> "fin", i |-> 0]
Data(base, k) == [j \in 1..k |-> [t |-> "d", i |-> base + j]]
IsData(x) == x.t = "d"
Pos(w) == [j \in 1..Len(w) |-> w[j].i]
Hs == <<H1, H2>>
\* length of the run of data units at the head of w
RECURSIVE Run(_)
Run(w) == IF w = <<>> \/ ~IsData(Head(w)) THEN 0 ELSE 1 + Run(Tail(w))

Init == /\ cs = <<>> /\ sc = <<>> /\ cw = FALSE /\ crh = 0 /\ crd = 0 /\ sst = 0
        /\ csent = 0 /\ ssent = 0 /\ cdel = <<>> /\ sdel = <<>>
        /\ cfin = FALSE /\ sfin = FALSE /\ ceof = FALSE /\ seof = FALSE /\ op = [name |-> "init"]

Flush == IF cw THEN <<>> ELSE Hs

CWrite(k) ==
  /\ ~cfin /\ csent + k <= MaxSent
  /\ cs' = cs \o Flush \o Data(csent, k) /\ cw' = TRUE /\ csent' = csent + k
  /\ op' = [name |-> "cwrite", k |-> k, first |-> ~cw]
  /\ UNCHANGED <<sc, crh, crd, sst, ssent, cdel, sdel, cfin, sfin, ceof, seof>>

CReadBegin(b) ==
  /\ crd = 0 /\ ~ceof
  /\ crd' = b
  /\ cs' = cs \o (IF cfin THEN <<>> ELSE Flush) /\ cw' = (cw \/ ~cfin)     \* starts the write half
  /\ op' = [name |-> "creadbegin", b |-> b, first |-> ~cw]
  /\ UNCHANGED <<sc, crh, sst, csent, ssent, cdel, sdel, cfin, sfin, ceof, seof>>

\* read half of the client's handshake: runs in the background once a Write or a Read started it
CTok ==
  /\ crh < 2 /\ (cw \/ crd > 0) /\ sc # <<>> /\ Head(sc) = Hs[crh + 1]
  /\ sc' = Tail(sc) /\ crh' = crh + 1
  /\ op' = [name |-> "ctok"]
  /\ UNCHANGED <<cs, cw, crd, sst, csent, ssent, cdel, sdel, cfin, sfin, ceof, seof>>

CReadEnd ==
  /\ crd > 0 /\ crh = 2 /\ sc # <<>>
  /\ \/ /\ IsData(Head(sc))
        /\ LET n == Min(crd, Run(sc)) IN
             /\ cdel' = cdel \o Pos(SubSeq(sc, 1, n)) /\ sc' = SubSeq(sc, n + 1, Len(sc))
             /\ op' = [name |-> "creadend", n |-> n, eof |-> FALSE, halfclosed |-> cfin]
        /\ UNCHANGED ceof
     \/ /\ Head(sc) = FIN
        /\ ceof' = TRUE /\ op' = [name |-> "creadend", n |-> 0, eof |-> TRUE, halfclosed |-> cfin]
        /\ UNCHANGED <<cdel, sc>>
  /\ crd' = 0
  /\ UNCHANGED <<cs, cw, crh, sst, csent, ssent, sdel, cfin, sfin, seof>>

CCloseWrite ==
  /\ ~cfin
  /\ cs' = cs \o Flush \o <<FIN>> /\ cw' = TRUE /\ cfin' = TRUE
  /\ op' = [name |-> "cclosewrite", first |-> ~cw]
  /\ UNCHANGED <<sc, crh, crd, sst, csent, ssent, cdel, sdel, sfin, ceof, seof>>

\* the server host's negotiation goroutine (internal)
SNeg ==
  /\ \/ sst = 0 /\ sc' = Append(sc, H1) /\ cs' = cs
     \/ sst = 1 /\ cs # <<>> /\ Head(cs) = H1 /\ cs' = Tail(cs) /\ sc' = sc
     \/ sst = 2 /\ cs # <<>> /\ Head(cs) = H2 /\ cs' = Tail(cs) /\ sc' = Append(sc, H2)
  /\ sst' = sst + 1
  /\ op' = [name |-> "sneg", to |-> sst + 1]
  /\ UNCHANGED <<cw, crh, crd, csent, ssent, cdel, sdel, cfin, sfin, ceof, seof>>

SWrite(k) ==
  /\ sst = 3 /\ ~sfin /\ ssent + k <= MaxSent
  /\ sc' = sc \o Data(ssent, k) /\ ssent' = ssent + k
  /\ op' = [name |-> "swrite", k |-> k]
  /\ UNCHANGED <<cs, cw, crh, crd, sst, csent, cdel, sdel, cfin, sfin, ceof, seof>>

SRead(b) ==
  /\ sst = 3 /\ ~seof /\ cs # <<>>
  /\ \/ /\ IsData(Head(cs))
        /\ LET n == Min(b, Run(cs)) IN
             /\ sdel' = sdel \o Pos(SubSeq(cs, 1, n)) /\ cs' = SubSeq(cs, n + 1, Len(cs))
             /\ op' = [name |-> "sread", b |-> b, n |-> n, eof |-> FALSE, halfclosed |-> sfin]
        /\ UNCHANGED seof
     \/ /\ Head(cs) = FIN
        /\ seof' = TRUE /\ op' = [name |-> "sread", b |-> b, n |-> 0, eof |-> TRUE, halfclosed |-> sfin]
        /\ UNCHANGED <<sdel, cs>>
  /\ UNCHANGED <<sc, cw, crh, crd, sst, csent, ssent, cdel, cfin, sfin, ceof>>

SCloseWrite ==
  /\ sst = 3 /\ ~sfin
  /\ sc' = Append(sc, FIN) /\ sfin' = TRUE
  /\ op' = [name |-> "sclosewrite"]
  /\ UNCHANGED <<cs, cw, crh, crd, sst, csent, ssent, cdel, sdel, cfin, ceof, seof>>

\* TIME passes between two operations: nothing changes - that is the point.  The application set no deadline, so
\* whatever the peer writes after the delay is still delivered and no read fails with a deadline error, however
\* the delay relates to the stack's own timeouts (negotiation timeout, keep-alives, idle timeouts).
Wait(c) ==
  /\ cw                                  \* (after the first client operation: CloseWrite, Write or a started Read)
  /\ op' = [name |-> "wait", c |-> c, afterclose |-> cfin, readpending |-> (crd > 0)]
  /\ UNCHANGED View

Next == \/ \E c \in Delays : Wait(c)
        \/ \E k \in 0..MaxWrite : CWrite(k)
        \/ \E b \in Bufs : CReadBegin(b)
        \/ CTok \/ CReadEnd \/ CCloseWrite \/ SNeg
        \/ \E k \in 1..MaxWrite : SWrite(k)
        \/ \E b \in Bufs : SRead(b)
        \/ SCloseWrite

----------------------------------------------------------------------------
TypeOK == crh \in 0..2 /\ sst \in 0..3 /\ csent \in 0..MaxSent /\ ssent \in 0..MaxSent
\* user bytes arrive intact, in order, once, in both directions; handshake tokens never reach the user
PrefixC == IsPrefix(cdel, Seq1(ssent))
PrefixS == IsPrefix(sdel, Seq1(csent))
\* handshake bytes precede user bytes and the FIN: each stream has the shape h* data* fin?
Shape(w) == \A i \in 1..Len(w) : \A j \in (i + 1)..Len(w) :
              /\ w[i].t = "d" => w[j].t # "h"
              /\ w[i].t # "fin"
ShapeOK == Shape(cs) /\ Shape(sc)
\* CloseWrite flushes: a FIN is never sent without the handshake in front of it, so the server can always
\* finish the negotiation and answer a client that only reads
FlushOnClose == cfin => cw
EofAfterAll == (ceof => cdel = Seq1(ssent)) /\ (seof => sdel = Seq1(csent))
\* the server's handler never runs before the client's handshake was flushed
HandlerAfterFlush == sst >= 2 => cw
=============================================================================
