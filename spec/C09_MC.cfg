\* Template: checks/C09.py instantiates Addrs, TTLs, Conn, Seqs, Cap, MaxBatch for every bounded instance.
CONSTANTS
  Addrs = {"a1", "a2", "a3"}
  TTLs = {0, 2, 4, 8, 9}
  Conn = 8
  Seqs = {1, 2}
  Cap = 0
  MaxBatch = 3
  Batches <- MCBatches
INIT Init
NEXT Next
VIEW View
INVARIANTS TypeOK RecordLifetime
PROPERTIES AddNeverShortens AddScope SetOverrides UpdateExactlyClass SeqMonotone SeqOnlyByConsume EvictionRule RejectInert RecordStays Durable
