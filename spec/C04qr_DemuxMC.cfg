\* Template: checks/C04qr.py instantiates the constants for every bounded instance.
CONSTANTS
  MaxLn = 3
  MaxConn = 3
  QueueLen = 1
  Protos = {"a", "b"}
  Alpns = {"a", "b", "z"}
INIT Init
NEXT Next
VIEW View
INVARIANTS TypeOK QueueConsistent ByAlpn QueueBound OneServer RunningIffOpen NoHandshakeWithoutListener
PROPERTIES FatesFinal AcceptByAlpn RefusedOnlyUnserved OverflowClosesNewcomer Fifo SiblingsSurvive CloseDrains
CHECK_DEADLOCK FALSE
