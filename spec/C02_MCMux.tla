----------------------------- MODULE C02_MCMux -----------------------------
EXTENDS C02_Mux, Json
ChanKey(c) == ToString(c[1]) \o c[2]
St == << opened, [c \in Chans |-> <<sent[c], Len(rbuf[c]), wfin[c], rfin[c], Len(delivered[c]), eof[c]>>],
         [d \in Dirs |-> [i \in 1..Len(wire[d]) |-> <<wire[d][i].s, Len(wire[d][i].pt), wire[d][i].fin>>]] >>
StJ == << opened, [s \in Streams |-> [d \in Dirs |-> <<sent[<<s, d>>], Len(rbuf[<<s, d>>]), wfin[<<s, d>>],
                                                      rfin[<<s, d>>], Len(delivered[<<s, d>>]), eof[<<s, d>>]>>]],
          [d \in Dirs |-> [i \in 1..Len(wire[d]) |-> <<wire[d][i].s, Len(wire[d][i].pt), wire[d][i].fin>>]] >>
EmitEdge == op'.name = "pump" \/ PrintT(<<"VFEDGE", ToJson([s |-> StJ, op |-> op', t |-> StJ'])>>)
EmitAll == PrintT(<<"VFEDGE", ToJson([s |-> StJ, op |-> op', t |-> StJ'])>>)
Conf == [streams |-> Streams, maxsent |-> MaxSent, maxmsg |-> MaxMsg, bufs |-> Bufs]
MCInit == Init /\ PrintT(<<"VFINIT", ToJson(StJ)>>) /\ PrintT(<<"VFCONF", ToJson(Conf)>>)
=============================================================================
