----------------------------- MODULE C02_MCMux -----------------------------
EXTENDS C02_Mux, Json
StJ == << opened, [s \in Streams |-> [d \in Dirs |-> <<sent[<<s, d>>], Len(rbuf[<<s, d>>]), wfin[<<s, d>>],
                                                      rfin[<<s, d>>], Len(delivered[<<s, d>>]), eof[<<s, d>>]>>]],
          [d \in Dirs |-> [i \in 1..Len(wire[d]) |-> <<wire[d][i].s, Len(wire[d][i].pt), wire[d][i].fin>>]], loose, cut, dead, [s \in Streams |-> [d \in Dirs |-> failed[<<s, d>>]]] >>
\* pump transitions are printed too (the harness skips them: the real receive loop runs by itself)
EmitEdge == PrintT(<<"VFEDGE", ToJson([s |-> StJ, op |-> op', t |-> StJ'])>>)
Conf == [streams |-> Streams, maxsent |-> MaxSent, maxmsg |-> MaxMsg, maxtotal |-> MaxTotal, maxclose |-> MaxClose, bufs |-> Bufs, glitches |-> Glitches, cuts |-> Cuts]
MCInit == Init /\ PrintT(<<"VFINIT", ToJson(StJ)>>) /\ PrintT(<<"VFCONF", ToJson(Conf)>>)
=============================================================================
