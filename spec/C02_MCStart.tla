--------------------------- MODULE C02_MCStart ---------------------------
EXTENDS C02_Start, Json
St == << tail, Len(w), nfr, nsent, t, c, phase, Len(delivered) >>
EmitEdge == PrintT(<<"VFEDGE", ToJson([s |-> St, op |-> op', t |-> St'])>>)
Conf == [hlen |-> HLen, maxframes |-> MaxFrames, maxunits |-> MaxUnits, bufs |-> Bufs]
MCInit == Init /\ PrintT(<<"VFINIT", ToJson(St)>>) /\ PrintT(<<"VFCONF", ToJson(Conf)>>)
=============================================================================
