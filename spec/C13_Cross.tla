----------------------------- MODULE C13_Cross -----------------------------
(***************************************************************************)
(* C13, cross-peer part: several authenticated peers, HISTORY-AWARE        *)
(* message contents.  Every peer X owns three blobs that travel on the     *)
(* network byte for byte: its signed peer record rec(X) (certifying the    *)
(* address <<"r",X>>), its public key key(X) and its listen address        *)
(* <<"l",X>>.  On its OWN authenticated connection a peer may put ANY of   *)
(* these blobs into an identify response or push - its own or a copy of    *)
(* another peer's, before (cold) or after (warm) the owner itself has had  *)
(* it accepted.  What the code must do does not depend on that history;    *)
(* the history is state of the model nevertheless (warm / tried), so that  *)
(* the replay graph distinguishes - and the walks execute - "accepted from *)
(* V earlier in the same walk, then replayed by S", "replayed cold, then   *)
(* V, then replayed again", on response and on push: whatever the code     *)
(* could memoise about a validation (signature, signer = remote, key <->   *)
(* peer ID) is exercised with the memo cold and warm.                      *)
(*                                                                         *)
(* Effects are those of consumeMessage (see C13_Identify.tla) for a peer   *)
(* with an open connection: own valid record -> its certified address;     *)
(* a properly signed record of ANOTHER peer -> no address at all; no       *)
(* record -> the (unsigned) listen address claimed; key stored iff it      *)
(* hashes to the remote.                                                   *)
(***************************************************************************)
EXTENDS Naturals, FiniteSets, TLC

CONSTANTS Peers, Menu      \* Menu: "lean" | "full"

VARIABLES addrs,   \* [Peers -> set of address tokens]   (not in the VIEW: a function of the last message)
          key,     \* [Peers -> "none" | owner of the stored key]
          warm,    \* peers whose record has been accepted from themselves
          tried,   \* peers whose record or key has been presented by somebody else
          op

vars == <<addrs, key, warm, tried, op>>
View == <<key, warm, tried>>

None == "none"
Msg(r, k, l) == [rec |-> r, key |-> k, la |-> l]
\* lean: one foreign blob at a time, plus complete impersonation
MenuOf(x) ==
  LET O == Peers \ {x} IN
  IF Menu = "full"
  THEN {Msg(r, k, l) : r \in Peers \cup {None}, k \in Peers \cup {None}, l \in Peers}
  ELSE {Msg(r, x, x) : r \in Peers \cup {None}}
       \cup {Msg(None, k, x) : k \in O \cup {None}}
       \cup {Msg(None, x, l) : l \in O}
       \cup {Msg(y, y, y) : y \in O}

AddrsAfter(x, m) == IF m.rec = None THEN {<<"l", m.la>>}
                    ELSE IF m.rec = x THEN {<<"r", x>>} ELSE {}
KeyAfter(x, m) == IF m.key = x THEN x ELSE key[x]

Init == /\ addrs = [x \in Peers |-> {}]
        /\ key = [x \in Peers |-> None]
        /\ warm = {} /\ tried = {}
        /\ op = [name |-> "init"]

\* kind: "push" (on the open connection) | "done" (the response to the identify of a fresh connection)
Send(x, m, kind) ==
  /\ addrs' = [addrs EXCEPT ![x] = AddrsAfter(x, m)]
  /\ key' = [key EXCEPT ![x] = KeyAfter(x, m)]
  /\ warm' = IF m.rec = x THEN warm \cup {x} ELSE warm
  /\ tried' = tried \cup ({m.rec, m.key} \cap (Peers \ {x}))
  /\ op' = [name |-> kind, x |-> x, m |-> m, set |-> AddrsAfter(x, m), key |-> KeyAfter(x, m),
            used |-> m.rec = x,
            replay |-> IF m.rec \in Peers \ {x} THEN (IF m.rec \in warm THEN "warm" ELSE "cold") ELSE "no",
            keyreplay |-> IF m.key \in Peers \ {x} THEN (IF key[m.key] = m.key THEN "warm" ELSE "cold") ELSE "no",
            aftercold |-> m.rec = x /\ x \in tried]

Next == \E x \in Peers, kind \in {"push", "done"} : \E m \in MenuOf(x) : Send(x, m, kind)
Spec == Init /\ [][Next]_vars

----------------------------------------------------------------------------
Owner(t) == t[2]
\* what is stored for X under a certified address stems from a record signed by X naming X
RecordOnlyOwn == \A x \in Peers : \A t \in addrs[x] : t[1] = "r" => Owner(t) = x
KeyMatches == \A x \in Peers : key[x] \in {None, x}
\* a message on X's connection changes nothing under another peer
OnlyRemote == [][\A x \in Peers : (op'.x # x) => addrs'[x] = addrs[x] /\ key'[x] = key[x]]_vars
\* history does not matter: the effect of a message is a function of the message alone
HistoryFree == [][op'.set = AddrsAfter(op'.x, op'.m) /\ (op'.used <=> op'.m.rec = op'.x)]_vars
TypeOK == warm \subseteq Peers /\ tried \subseteq Peers
\* vacuity (expected to be violated)
ReachWarmReplayable == ~(\E v \in warm : v \in tried)
=============================================================================
