---------------------------- MODULE C04_Lifecycle ----------------------------
(***************************************************************************)
(* Property C04: every failed or finished connection/stream releases all   *)
(* it acquired.                                                            *)
(*                                                                         *)
(* A connection attempt is a process that moves through the stages of the  *)
(* code that establishes it                                                *)
(*   out: dial (tcp.go DialWithUpdates/dialWithScope) -> entry -> secneg   *)
(*        -> handshake -> gated -> setpeer -> muxneg -> muxed              *)
(*        (upgrader.go upgrade) -> handed -> admitted (swarm.go addConn)   *)
(*   in:  accept (listener.go gatedMaListener.Accept) [-> demux (tcpreuse   *)
(*        sampling + routing)] [-> wsneg (websocket http upgrade)]          *)
(*        -> wait (threshold)                                              *)
(*        -> entry ... muxed -> queued (handleIncoming) -> handed          *)
(*        (listener.Accept) -> admitted                                    *)
(* and owns resources: the raw network connection ("raw"), its connection  *)
(* scope ("scope"), the listener's upgrade goroutine ("upg"), a            *)
(* negotiation helper goroutine ("neg"), the muxer session's goroutines    *)
(* ("mux"), a slot of the accept-queue threshold ("slot") and the swarm    *)
(* references + accept-loop goroutine ("ref").  A stream on an admitted    *)
(* connection owns its stream scope ("sscope"), the muxed stream ("ms"),   *)
(* a swarm reference ("sref") and, inbound, the handler goroutine ("hgor").*)
(*                                                                         *)
(* Fail(a, kind) is enabled at every stage for every kind of failure the   *)
(* code can meet there (ExitTable); what the code leaves un-released on    *)
(* that exit is Keeps(dir, stage, kind) - written out from the code, exit  *)
(* by exit.  With CodeQuirks = {} every exit releases everything; an exit  *)
(* named in CodeQuirks is modelled as the code has it today (TLC then      *)
(* reports Released violated: the design-level image of the findings the   *)
(* fault enumeration reproduces on the real code).                         *)
(* Close of the listener, of a connection and of the swarm interleave      *)
(* freely with all of it.                                                  *)
(*                                                                         *)
(* `op` is an output-only record naming the last action (excluded from the *)
(* fingerprint by View).                                                   *)
(***************************************************************************)
EXTENDS Naturals, FiniteSets, TLC

CONSTANTS Attempts,     \* connection attempts
          DirOf,        \* attempt -> "in" | "out"
          QueueLen,     \* AcceptQueueLength
          WithStreams,  \* model one stream per admitted connection
          CodeQuirks    \* defective variants: subset of {"tracing","nilpeer","forcepnet","skip"} (exits as the code once had them) and "lateforget" (doClose forgetting the stream map last)

VARIABLES stage,   \* attempt -> stage
          held,    \* attempt -> set of resources
          dead,    \* attempt -> the muxer session has died (remote close / I/O error) while the conn object lives
          lst,     \* listener: open | closing | closed
          swarm,   \* open | closing | closed
          sst,     \* attempt -> stage of its stream: none | arrived | scope | opened | registered | negotiated | reset | failed | closed
          sdir,    \* attempt -> direction of its stream
          sheld,   \* attempt -> resources of the stream
          snap,    \* attempt -> doClose's snapshot of the registered streams contained the stream
          op

vars == <<stage, held, dead, lst, swarm, sst, sdir, sheld, snap, op>>
View == <<stage, held, dead, lst, swarm, sst, sdir, sheld, snap>>

Terminal == {"failed", "closed"}
STerminal == {"failed", "closed"}
InFlightIn == {"accept", "demux", "wsneg", "wait", "entry", "secneg", "handshake", "gated", "setpeer", "muxneg", "muxed", "queued"}

(***************************************************************************)
(* The exits.  <<direction, stage, kind>>                                  *)
(***************************************************************************)
Both(st, k) == {<<"in", st, k>>, <<"out", st, k>>}
ExitTable ==
  {<<"out", "dial", "rcmgr-open">>,      \* DialWithUpdates: OpenConnection refused
   <<"out", "dial", "rcmgr-setpeer">>,   \* dialWithScope: SetPeer refused -> connScope.Done()
   <<"out", "dial", "dial-error">>,      \* maDial failed / context already cancelled -> connScope.Done()
   <<"out", "dial", "tracing">>,         \* newTracingConn failed -> connScope.Done(), conn NOT closed
   <<"in", "accept", "gater">>,          \* InterceptAccept -> conn.Close()
   <<"in", "accept", "rcmgr-open">>,     \* OpenConnection refused -> conn.Close()
   <<"in", "demux", "io">>,              \* tcpreuse: sampling read fails / times out -> conn closed, connScope.Done()
   <<"in", "demux", "nolistener">>,      \* tcpreuse: no listener for that type -> connWithScope.Close()
   <<"in", "demux", "ctx">>,             \* tcpreuse: nobody accepts in time / listener closed -> connWithScope.Close()
   <<"in", "wsneg", "io">>,              \* websocket: bad request / failed upgrade -> negotiatingConn.Close()
   <<"in", "wsneg", "ctx">>,             \* websocket: handshake time-out AfterFunc -> connWithScope.Close()
   <<"out", "entry", "nilpeer">>}        \* ErrNilPeer -> connScope.Done(), conn NOT closed
  \cup Both("entry", "badpsk")           \* NewProtectedConn failed -> conn.Close(), Done
  \cup Both("entry", "forcepnet")        \* ErrNotInPrivateNetwork -> Done, conn NOT closed
  \cup Both("secneg", "io") \cup Both("secneg", "ctx")        \* negotiateSecurity: join helper, conn.Close(), Done
  \cup Both("handshake", "io") \cup Both("handshake", "ctx")  \* SecureInbound/Outbound: conn closed, Done
  \cup Both("gated", "gater")            \* InterceptSecured -> maconn.Close(), Done
  \cup Both("setpeer", "rcmgr")          \* SetPeer refused -> maconn.Close(), Done
  \cup Both("muxneg", "io") \cup Both("muxneg", "ctx")        \* setupMuxer: sconn.Close(), join helper, Done
  \cup {<<"in", "queued", "ctx">>,       \* accept timeout or listener closed -> conn.CloseWithError
        <<"in", "queued", "skip">>}      \* listener.Accept meets a queued connection that has died
  \cup Both("handed", "gater")           \* addConn: InterceptUpgraded -> tc.CloseWithError
  \cup Both("handed", "swarmclosed")     \* addConn: swarm closed -> tc.Close()

\* what the code leaves held when it takes that exit
Keeps(d, st, k) ==
  IF k \notin CodeQuirks THEN {}
  ELSE CASE <<st, k>> = <<"dial", "tracing">>    -> {"raw"}
         [] <<st, k>> = <<"entry", "nilpeer">>   -> {"raw"}
         [] <<st, k>> = <<"entry", "forcepnet">> -> {"raw"}
         [] <<st, k>> = <<"queued", "skip">>     -> {"scope"}
         [] OTHER -> {}

Slots == Cardinality({a \in Attempts : "slot" \in held[a]})

Init == /\ stage = [a \in Attempts |-> "idle"]
        /\ held = [a \in Attempts |-> {}]
        /\ dead = [a \in Attempts |-> FALSE]
        /\ lst = "open" /\ swarm = "open"
        /\ sst = [a \in Attempts |-> "none"] /\ sdir = [a \in Attempts |-> "out"]
        /\ sheld = [a \in Attempts |-> {}]
        /\ snap = [a \in Attempts |-> FALSE]
        /\ op = [name |-> "init"]

Move(a, st, h) == /\ stage' = [stage EXCEPT ![a] = st]
                  /\ held' = [held EXCEPT ![a] = h]
NoStream == UNCHANGED <<sst, sdir, sheld, snap>>

(***************************************************************************)
(* Progress of a connection attempt                                        *)
(***************************************************************************)
Start(a) ==
  /\ stage[a] = "idle"
  /\ IF DirOf[a] = "out"
       THEN swarm = "open" /\ Move(a, "dial", {})
       ELSE lst = "open" /\ Move(a, "accept", {"raw"})   \* the OS handed us a socket
  /\ op' = [name |-> "Start", a |-> a]
  /\ UNCHANGED <<dead, lst, swarm>> /\ NoStream

Step(a) ==
  /\ LET d == DirOf[a]  st == stage[a]  h == held[a] IN
     \/ /\ st = "dial" /\ Move(a, "entry", {"scope", "raw"})          \* OpenConnection, SetPeer, dial: all fine
     \/ /\ st = "accept" /\ Move(a, "wait", h \cup {"scope"})         \* gater allows, OpenConnection fine
     \/ /\ st = "accept" /\ Move(a, "demux", h \cup {"scope", "neg"}) \* ... behind a shared TCP listener: sampling goroutine
     \/ /\ st = "accept" /\ Move(a, "wsneg", h \cup {"scope", "neg"}) \* ... behind a websocket listener: http.Server goroutine
     \/ /\ st = "demux" /\ Move(a, "wait", h \ {"neg"})                \* routed to the multistream listener with its scope
     \/ /\ st = "demux" /\ Move(a, "wsneg", h)                         \* routed to the websocket listener
     \/ /\ st = "wsneg" /\ Move(a, "wait", h \ {"neg"})                \* upgraded, handed to the upgrader listener
     \/ /\ st = "wait" /\ Slots < QueueLen                             \* threshold.Wait(), go upgrade
        /\ Move(a, "entry", h \cup {"upg"})
     \/ /\ st = "entry" /\ Move(a, "secneg", h \cup {"neg"})
     \/ /\ st = "secneg" /\ Move(a, "handshake", h)
     \/ /\ st = "handshake" /\ Move(a, "gated", h \ {"neg"})
     \/ /\ st = "gated" /\ Move(a, "setpeer", h)
     \/ /\ st = "setpeer" /\ Move(a, "muxneg", h \cup {"neg"})
     \/ /\ st = "muxneg" /\ Move(a, "muxed", (h \ {"neg"}) \cup {"mux"})
     \/ /\ st = "muxed" /\ d = "out" /\ Move(a, "handed", h)          \* Upgrade returns to the transport's caller
     \/ /\ st = "muxed" /\ d = "in" /\ Move(a, "queued", h \cup {"slot"})   \* threshold.Acquire, l.incoming <- conn
     \/ /\ st = "queued" /\ ~dead[a]                                   \* listener.Accept returns it
        /\ Move(a, "handed", h \ {"slot", "upg"})
     \/ /\ st = "handed" /\ swarm = "open"                             \* addConn registers it, starts the accept loop
        /\ Move(a, "admitted", h \cup {"ref"})
  /\ op' = [name |-> "Step", a |-> a, from |-> stage[a]]
  /\ UNCHANGED <<dead, lst, swarm>> /\ NoStream

Fail(a, k) ==
  /\ <<DirOf[a], stage[a], k>> \in ExitTable
  /\ (k = "swarmclosed" => swarm # "open")
  /\ (k = "skip" => dead[a])
  /\ Move(a, "failed", Keeps(DirOf[a], stage[a], k))
  /\ op' = [name |-> "Fail", a |-> a, dir |-> DirOf[a], stage |-> stage[a], kind |-> k]
  /\ UNCHANGED <<dead, lst, swarm>> /\ NoStream

\* the remote side goes away / an I/O error kills the muxer session of an established connection:
\* the session closes the raw connection and stops its goroutines; the connection object (and its
\* scope) lives on until its owner calls Close
SessionDies(a) ==
  /\ stage[a] \in {"queued", "handed", "admitted"} /\ ~dead[a]
  /\ dead' = [dead EXCEPT ![a] = TRUE]
  /\ held' = [held EXCEPT ![a] = @ \ {"raw", "mux"}]
  /\ op' = [name |-> "SessionDies", a |-> a, stage |-> stage[a]]
  /\ UNCHANGED <<stage, lst, swarm>> /\ NoStream

\* Conn.Close (by the user, by the accept loop after the session died, by Swarm.Close) is not one step.
\* doClose first takes, under the streams lock, a snapshot of the registered streams AND forgets the map
\* (streams.m = nil: addStream refuses from now on); then it closes the transport connection and resets
\* the streams of the snapshot.  Stream admission (addStream) interleaves with these steps.  With
\* "lateforget" in CodeQuirks the map is forgotten only at the end: a stream admitted in between is in
\* nobody's snapshot.
Forgot(a) == stage[a] = "closed" \/ (stage[a] = "closing" /\ "lateforget" \notin CodeQuirks)
Online(a) == stage[a] \in {"admitted", "closing"} /\ ~Forgot(a)

CloseBegin(a) ==
  /\ stage[a] = "admitted"
  /\ stage' = [stage EXCEPT ![a] = "closing"]
  /\ snap' = [snap EXCEPT ![a] = sst[a] \in {"registered", "negotiated"}]
  /\ op' = [name |-> "CloseBegin", a |-> a, dir |-> DirOf[a]]
  /\ UNCHANGED <<held, dead, lst, swarm, sst, sdir, sheld>>

CloseEnd(a) ==
  /\ stage[a] = "closing"
  /\ Move(a, "closed", {})
  \* the streams of the snapshot are reset
  /\ IF snap[a] /\ sst[a] \in {"registered", "negotiated"}
       THEN /\ sst' = [sst EXCEPT ![a] = IF "hgor" \in sheld[a] THEN "reset" ELSE "closed"]
            /\ sheld' = [sheld EXCEPT ![a] = IF "hgor" \in @ THEN {"sscope", "hgor"} ELSE {}]
       ELSE UNCHANGED <<sst, sheld>>
  /\ op' = [name |-> "CloseEnd", a |-> a, dir |-> DirOf[a]]
  /\ UNCHANGED <<dead, lst, swarm, sdir, snap>>

(***************************************************************************)
(* Listener and swarm                                                      *)
(***************************************************************************)
ListenerCloseCall ==
  /\ lst = "open" /\ lst' = "closing"
  /\ op' = [name |-> "ListenerCloseCall"]
  /\ UNCHANGED <<stage, held, dead, swarm>> /\ NoStream
\* Close returns after the accept loop and every upgrade goroutine have finished and the queue is drained
ListenerCloseRet ==
  /\ lst = "closing"
  /\ \A a \in Attempts : DirOf[a] = "in" => stage[a] \notin InFlightIn
  /\ lst' = "closed"
  /\ op' = [name |-> "ListenerCloseRet"]
  /\ UNCHANGED <<stage, held, dead, swarm>> /\ NoStream

SwarmCloseCall ==
  /\ swarm = "open" /\ swarm' = "closing"
  /\ lst' = IF lst = "open" THEN "closing" ELSE lst
  /\ op' = [name |-> "SwarmCloseCall"]
  /\ UNCHANGED <<stage, held, dead>> /\ NoStream
\* refs.Wait(): listeners closed, every connection's accept loop and notifications done, every stream's ref gone
SwarmCloseRet ==
  /\ swarm = "closing" /\ lst = "closed"
  /\ \A a \in Attempts : "ref" \notin held[a] /\ "sref" \notin sheld[a] /\ sst[a] # "arrived"
  /\ swarm' = "closed"
  /\ op' = [name |-> "SwarmCloseRet"]
  /\ UNCHANGED <<stage, held, dead, lst>> /\ NoStream

(***************************************************************************)
(* One stream per admitted connection (swarm_conn.go, swarm_stream.go,     *)
(* basic_host.go)                                                          *)
(***************************************************************************)
SMove(a, st, h) == /\ sst' = [sst EXCEPT ![a] = st] /\ sheld' = [sheld EXCEPT ![a] = h]
ConnUnch == UNCHANGED <<stage, held, dead, lst, swarm, snap>>

StreamStart(a, d) ==
  /\ WithStreams /\ sst[a] = "none" /\ Online(a) /\ ~dead[a]
  /\ sdir' = [sdir EXCEPT ![a] = d]
  /\ IF d = "out" THEN SMove(a, "scope", {"sscope"})     \* Conn.NewStream: rcmgr.OpenStream fine
                  ELSE SMove(a, "arrived", {"ms"})        \* AcceptStream returned a muxed stream
  /\ op' = [name |-> "StreamStart", a |-> a, dir |-> d]
  /\ ConnUnch
StreamRefused(a, d) ==                                   \* Conn.NewStream: rcmgr.OpenStream refuses: nothing acquired
  /\ WithStreams /\ sst[a] = "none" /\ Online(a) /\ d = "out"
  /\ sdir' = [sdir EXCEPT ![a] = d] /\ SMove(a, "failed", {})
  /\ op' = [name |-> "SFail", a |-> a, dir |-> d, stage |-> "none", kind |-> "rcmgr"]
  /\ ConnUnch

StreamStep(a) ==
  /\ LET st == sst[a]  h == sheld[a] IN
     \/ /\ st = "arrived" /\ SMove(a, "opened", h \cup {"sscope", "sref"})   \* OpenStream fine; refs.Add(1); go
     \/ /\ st = "scope" /\ ~dead[a] /\ stage[a] = "admitted"
        /\ SMove(a, "opened", h \cup {"ms"})                                  \* muxer OpenStream fine
     \/ /\ st = "opened" /\ Online(a)                                       \* addStream registers it
        /\ SMove(a, "registered", IF sdir[a] = "in" THEN h \cup {"hgor"} ELSE h \cup {"sref"})
     \/ /\ st = "registered" /\ SMove(a, "negotiated", h)                     \* protocol negotiated, SetProtocol fine
  /\ op' = [name |-> "StreamStep", a |-> a, from |-> sst[a]]
  /\ UNCHANGED sdir /\ ConnUnch

\* failures of a stream attempt; every one of them releases everything, except that the scope of an
\* inbound stream is kept until its handler goroutine returns
SFail(a, k) ==
  /\ LET st == sst[a]  h == sheld[a] IN
     \/ /\ st = "arrived" /\ k = "rcmgr" /\ SMove(a, "failed", {})          \* OpenStream refused: ts.ResetWithError
     \/ /\ st = "scope" /\ k \in {"io", "ctx"} /\ SMove(a, "failed", {})     \* muxer OpenStream error: scope.Done()
     \/ /\ st = "opened" /\ k = "connclosed" /\ ~Online(a)                  \* addStream: ts.Reset(); caller: scope.Done()
        /\ SMove(a, "failed", {})
     \/ /\ st = "registered" /\ k \in {"io", "ctx", "na", "rcmgr"}           \* negotiation / SetProtocol fails: Reset
        /\ IF "hgor" \in h THEN SMove(a, "reset", {"sscope", "hgor"}) ELSE SMove(a, "failed", {})
  /\ op' = [name |-> "SFail", a |-> a, dir |-> sdir[a], stage |-> sst[a], kind |-> k]
  /\ UNCHANGED sdir /\ ConnUnch

\* the user's Close / Reset on an established stream
StreamClose(a) ==
  /\ sst[a] = "negotiated"
  /\ IF "hgor" \in sheld[a] THEN SMove(a, "reset", {"sscope", "hgor"}) ELSE SMove(a, "closed", {})
  /\ op' = [name |-> "StreamClose", a |-> a, dir |-> sdir[a]]
  /\ UNCHANGED sdir /\ ConnUnch
\* the handler of an inbound stream returns: completeAcceptStreamGoroutine -> removeStream -> scope.Done()
HandlerReturns(a) ==
  /\ sst[a] = "reset"
  /\ SMove(a, "closed", {})
  /\ op' = [name |-> "HandlerReturns", a |-> a]
  /\ UNCHANGED sdir /\ ConnUnch

Kinds == {k \in {x[3] : x \in ExitTable} : TRUE}
SKinds == {"io", "ctx", "na", "rcmgr", "connclosed"}

Progress(a) == \/ Start(a) \/ Step(a) \/ \E k \in Kinds : Fail(a, k) \/ CloseBegin(a) \/ CloseEnd(a)
               \/ StreamStep(a) \/ \E k \in SKinds : SFail(a, k) \/ StreamClose(a) \/ HandlerReturns(a)

Next == \/ \E a \in Attempts : Progress(a) \/ SessionDies(a)
                                \/ \E d \in {"in", "out"} : StreamStart(a, d) \/ StreamRefused(a, d)
        \/ ListenerCloseCall \/ ListenerCloseRet \/ SwarmCloseCall \/ SwarmCloseRet

Spec == Init /\ [][Next]_vars
\* the owner of every object eventually lets go of it, and the swarm is eventually closed
FairSpec == /\ Spec /\ WF_vars(SwarmCloseCall) /\ WF_vars(SwarmCloseRet) /\ WF_vars(ListenerCloseRet)
            /\ \A a \in Attempts : WF_vars(Progress(a))

(***************************************************************************)
(* Properties                                                              *)
(***************************************************************************)
TypeOK == /\ \A a \in Attempts : held[a] \subseteq {"raw", "scope", "upg", "neg", "mux", "slot", "ref"}
          /\ \A a \in Attempts : sheld[a] \subseteq {"sscope", "ms", "sref", "hgor"}
          /\ lst \in {"open", "closing", "closed"} /\ swarm \in {"open", "closing", "closed"}

\* an attempt in a terminal state holds nothing
Released == /\ \A a \in Attempts : stage[a] \in Terminal => held[a] = {}
            /\ \A a \in Attempts : sst[a] \in STerminal => sheld[a] = {}

\* after Close has returned: no listener, no connection, no stream, no reference; only attempts the swarm
\* never knew (an outbound dial still in flight, a connection nobody handed over yet) may hold something
SwarmClosed == swarm = "closed" =>
                 /\ lst = "closed"
                 /\ \A a \in Attempts : /\ stage[a] \notin {"admitted", "closing"} /\ "ref" \notin held[a]
                                        /\ "sref" \notin sheld[a] /\ (sdir[a] = "in" => "ms" \notin sheld[a])
                                        /\ (DirOf[a] = "in" => stage[a] \in Terminal \cup {"idle", "handed"})

\* once a connection's Close has completed none of its streams is still registered on it
NoOrphan == \A a \in Attempts : stage[a] = "closed" => sst[a] \notin {"registered", "negotiated"}

\* ... and they too end up holding nothing
Drained == <>[](\A a \in Attempts : held[a] = {} /\ sheld[a] = {})

\* vacuity guards (expected to be violated)
ReachQueuedDead == ~(\E a \in Attempts : stage[a] = "queued" /\ dead[a])
ReachCloseRace == ~(swarm = "closing" /\ \E a \in Attempts : stage[a] \in {"secneg", "handshake", "muxneg", "queued"})
ReachStreamReset == ~(\E a \in Attempts : sst[a] = "reset" /\ stage[a] = "closed")
ReachAdmitDuringClose == ~(\E a \in Attempts : stage[a] = "closing" /\ sst[a] = "opened")
=============================================================================
