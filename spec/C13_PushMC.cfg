CONSTANTS
  Conns = {"c1", "c2"}
  MaxChanges = 3
  MaxConc = 2
  Kinds = {"fresh", "revert"}
  FailLate = TRUE
  Off = {}
INIT Init
NEXT Next
VIEW View
INVARIANTS TypeOK Conc SnapCurrent GoroutineScope Delivered
PROPERTIES PushOnce PushMonotone ListEligible PickEligible PushCurrent FailInert ClosedQuiet
CHECK_DEADLOCK FALSE
