SPECIFICATION TraceSpec
CONSTRAINT HighWater
INVARIANTS Sum Bounds StepAccounting StepGrantRule StatEqual ZeroAtEnd
POSTCONDITION TraceAccepted
CHECK_DEADLOCK FALSE
