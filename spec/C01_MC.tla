------------------------------ MODULE C01_MC ------------------------------
EXTENDS C01_Handshake, Json
\* The replay graphs: one node per abstract state, one edge per (state, op, state').  The Noise and TLS
\* machines are deterministic functions of their configuration and of the actions taken so far (tr), so
\* the projection below identifies the state; the terms themselves are not printed.
St == CASE st.part = "N" -> [cfg |-> st.cfg, warm |-> st.warm, tr |-> st.tr, k |-> st.k, air |-> Len(st.air),
                             iS |-> st.iS, rS |-> st.rS, iRem |-> st.iRem, rRem |-> st.rRem]
       [] st.part = "T" -> [mal |-> st.mal, exp |-> st.exp, ec |-> st.ec, es |-> st.es, warm |-> st.warm, tr |-> st.tr, done |-> st.done, ok |-> st.ok,
                            rem |-> st.rem, cert |-> [key |-> st.cert.key, chain |-> st.cert.chain,
                                                      exts |-> [i \in 1..Len(st.cert.exts) |->
                                                                 [pub |-> st.cert.exts[i].pub, sby |-> st.cert.exts[i].sig.by,
                                                                  sover |-> st.cert.exts[i].sig.over]]]]
       [] st.part = "U" -> [via |-> st.via, sec |-> st.sec, mux |-> st.mux, role |-> st.role, named |-> st.named,
                            ans |-> st.ans, done |-> st.done, ok |-> st.ok, rem |-> st.rem]
       [] st.part = "F" -> [proto |-> st.proto, side |-> st.side, named |-> st.named, point |-> st.point,
                            kind |-> st.kind, done |-> st.done, ok |-> st.ok]
       [] st.part = "H" -> [path |-> st.path, ownerA |-> st.ownerA, phase |-> st.phase, res |-> st.res,
                            inbound |-> st.inbound, arrived |-> st.arrived]
       [] OTHER -> [outs |-> st.outs, warm |-> st.warm, warmed |-> st.warmed, done |-> st.done, res |-> st.res, visible |-> st.visible,
                    closed |-> st.closed, tried |-> st.tried]
EmitEdge == PrintT(<<"VFEDGE", ToJson([s |-> St, op |-> op', t |-> St'])>>)
MCInitN == InitN /\ PrintT(<<"VFINIT", ToJson(St)>>)
MCInitT == InitT /\ PrintT(<<"VFINIT", ToJson(St)>>)
MCInitS == InitS /\ PrintT(<<"VFINIT", ToJson(St)>>)
MCInitH == InitH /\ PrintT(<<"VFINIT", ToJson(St)>>)
MCInitU == InitU /\ PrintT(<<"VFINIT", ToJson(St)>>)
MCInitF == InitF /\ PrintT(<<"VFINIT", ToJson(St)>>)
=============================================================================
