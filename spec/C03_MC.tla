------------------------------- MODULE C03_MC -------------------------------
(***************************************************************************)
(* Bounded instances ("families") of C03_Rcmgr.  checks/C03.py selects one *)
(* with the constant Fam and the mode with Seq; everything else is defined *)
(* here and printed once (VFCONF) so that the harness builds the real      *)
(* manager from exactly the limit table TLC used.                          *)
(***************************************************************************)
EXTENDS C03_Rcmgr, Json

CONSTANTS Fam

INF == 1000000
LR(mem, si, so, s, ci, co, c, fd) == [mem |-> mem, si |-> si, so |-> so, s |-> s, ci |-> ci, co |-> co, c |-> c, fd |-> fd]
Open == LR(INF, 9, 9, 9, 9, 9, 9, 9)
AllKinds == {"openconn", "setpeer", "openstream", "setprotocol", "setservice", "reserve", "release",
             "beginspan", "done", "gc"}
NoBuckets == [b \in {} |-> 0]

OC(id, dir, fd, ep) == [name |-> "openconn", id |-> id, dir |-> dir, fd |-> fd, ep |-> ep]
SPc(h, p) == [name |-> "setpeer", h |-> h, peer |-> p]
OS(id, p, dir) == [name |-> "openstream", id |-> id, peer |-> p, dir |-> dir]
SPr(h, x) == [name |-> "setprotocol", h |-> h, proto |-> x]
SSv(h, x) == [name |-> "setservice", h |-> h, svc |-> x]
BS(id, h) == [name |-> "beginspan", id |-> id, h |-> h]
RS(h, n, p) == [name |-> "reserve", h |-> h, n |-> n, prio |-> p]

Base == [conns |-> <<>>, streams |-> <<>>, spans |-> <<>>, peers |-> {}, protos |-> {}, svcs |-> {},
         eps |-> {"n0"}, epip |-> [e \in {"n0"} |-> FALSE], epb |-> [e \in {"n0"} |-> {}], cap |-> NoBuckets,
         allownet |-> {}, allowpeer |-> {}, lim |-> [x \in {"conn", "stream"} |-> Open], deflim |-> Open,
         sizes |-> {1}, prios |-> {255}, dirs |-> {"in"}, fds |-> {FALSE}, views |-> {}, kinds |-> AllKinds,
         threads |-> <<"t1">>, preload |-> <<>>, retry |-> FALSE]

\* ---- memory / spans / priorities -------------------------------------------------------------
\* Thr(4,127)=2 Thr(3,127)=1 Thr(2,127)=1: a reservation can be refused by its own scope, by the peer,
\* by transient or by system, at either priority
FamMem == [Base EXCEPT
  !.conns = <<"c1">>, !.streams = <<"s1">>, !.spans = <<"sp1", "sp2">>, !.peers = {"p1"},
  !.lim = ("sys" :> LR(4, 9, 9, 9, 9, 9, 9, 9)) @@ ("trans" :> LR(3, 9, 9, 9, 9, 9, 9, 9)) @@
          ("peer:p1" :> LR(3, 9, 9, 9, 9, 9, 9, 9)) @@ ("conn" :> LR(2, 9, 9, 9, 9, 9, 9, 9)) @@
          ("stream" :> LR(2, 9, 9, 9, 9, 9, 9, 9)),
  !.sizes = {1, 2}, !.prios = {127, 255}, !.views = {"sys", "peer:p1"},
  !.kinds = AllKinds \ {"setprotocol", "setservice"}]
\* a smaller relative for the printed graph: one span, zero-size and low-priority reservations
FamMemP == [FamMem EXCEPT !.spans = <<"sp1">>, !.streams = <<>>, !.sizes = {0, 1, 2}, !.prios = {63, 255},
                          !.views = {"peer:p1"}]
\* nested spans on a connection and on a View scope, closed in any order
FamSpan == [Base EXCEPT
  !.conns = <<"c1">>, !.spans = <<"sp1", "sp2", "sp3">>, !.peers = {"p1"},
  !.lim = ("sys" :> LR(3, 9, 9, 9, 9, 9, 9, 9)) @@ ("peer:p1" :> LR(2, 9, 9, 9, 9, 9, 9, 9)) @@
          ("conn" :> LR(2, 9, 9, 9, 9, 9, 9, 9)) @@ ("stream" :> Open),
  !.sizes = {1}, !.views = {"peer:p1"},
  !.kinds = {"openconn", "setpeer", "reserve", "release", "beginspan", "done", "gc"}]

\* ---- connections / fd / subnets / SetPeer ------------------------------------------------------
\* direction x fd x SetPeer against system / transient / peer / connection limits; a1 carries an IP
FamConn == [Base EXCEPT
  !.conns = <<"c1", "c2", "c3">>, !.peers = {"p1", "p2"},
  !.eps = {"a1", "n0"}, !.epip = [e \in {"a1", "n0"} |-> e # "n0"],
  !.epb = ("a1" :> {"a1/32"}) @@ ("n0" :> {}), !.cap = ("a1/32" :> 2),
  !.lim = ("sys" :> LR(INF, 9, 9, 9, 2, 1, 2, 1)) @@ ("trans" :> LR(INF, 9, 9, 9, 1, 1, 1, 1)) @@
          ("peer:p1" :> LR(INF, 9, 9, 9, 1, 1, 1, 1)) @@ ("peer:p2" :> LR(INF, 9, 9, 9, 2, 2, 2, 2)) @@
          ("conn" :> LR(INF, 9, 9, 9, 1, 1, 1, 1)) @@ ("stream" :> Open),
  !.dirs = {"in", "out"}, !.fds = {FALSE, TRUE},
  !.kinds = {"openconn", "setpeer", "done", "gc"}]
\* a1, a2: two addresses of one /24 (caps: 2 per /32, 2 per /24); v6, v7: two IPv6 addresses of one /48
\* in different /56 (caps 1 per /56, 2 per /48); n0: no IP
SubEps == {"a1", "a2", "v6", "v7", "n0"}
FamSubnet == [Base EXCEPT
  !.conns = <<"c1", "c2", "c3">>, !.peers = {"p1"},
  !.eps = SubEps, !.epip = [e \in SubEps |-> e # "n0"],
  !.epb = ("a1" :> {"a1/32", "a/24"}) @@ ("a2" :> {"a2/32", "a/24"}) @@
          ("v6" :> {"v6/56", "v/48"}) @@ ("v7" :> {"v7/56", "v/48"}) @@ ("n0" :> {}),
  !.cap = ("a1/32" :> 2) @@ ("a2/32" :> 2) @@ ("a/24" :> 2) @@ ("v6/56" :> 1) @@ ("v7/56" :> 1) @@ ("v/48" :> 2),
  !.lim = ("sys" :> LR(INF, 9, 9, 9, 9, 9, 3, 9)) @@ ("trans" :> LR(INF, 9, 9, 9, 9, 9, 2, 9)) @@
          ("conn" :> Open) @@ ("stream" :> Open),
  !.kinds = {"openconn", "setpeer", "done"}]
\* the subnet counter against scope-level refusals: an open from a1 that passes the connLimiter (cap 2) and is
\* then refused by system's inbound limit must leave the counter equal to the connections really open, so
\* that later opens from a1 stop at the cap (four ids: one refused open consumes none)
FamSubCnt == [Base EXCEPT
  !.conns = <<"c1", "c2", "c3", "c4">>,
  !.eps = {"a1", "n0"}, !.epip = [e \in {"a1", "n0"} |-> e = "a1"], !.epb = ("a1" :> {"a1/32"}) @@ ("n0" :> {}),
  !.cap = ("a1/32" :> 2),
  !.lim = ("sys" :> LR(INF, 9, 9, 9, 1, 9, 9, 9)) @@ ("conn" :> Open) @@ ("stream" :> Open),
  !.dirs = {"in", "out"}, !.kinds = {"openconn", "done"}, !.retry = TRUE]
\* b1: allow-listed network with a configured prefix limit that the instance cannot exceed
AlNEps == {"b1", "n0"}
FamAllow == [Base EXCEPT
  !.conns = <<"c1", "c2", "c3">>, !.peers = {"p1"},
  !.eps = AlNEps, !.epip = [e \in AlNEps |-> e = "b1"], !.epb = ("b1" :> {"np:b1"}) @@ ("n0" :> {}),
  !.cap = ("np:b1" :> 3), !.allownet = {"b1"},
  !.lim = ("sys" :> LR(INF, 9, 9, 9, 1, 1, 2, 9)) @@ ("trans" :> LR(INF, 9, 9, 9, 1, 1, 1, 9)) @@
          ("asys" :> LR(INF, 9, 9, 9, 2, 1, 2, 9)) @@ ("atrans" :> LR(INF, 9, 9, 9, 1, 1, 1, 9)) @@
          ("peer:p1" :> LR(INF, 9, 9, 9, 2, 2, 2, 9)) @@ ("conn" :> Open) @@ ("stream" :> Open),
  !.dirs = {"in", "out"},
  !.kinds = {"openconn", "setpeer", "done", "gc"}, !.retry = TRUE]
\* connections that also hold memory (ReserveForChild moves the whole stat)
FamConnMem == [Base EXCEPT
  !.conns = <<"c1", "c2">>, !.peers = {"p1"},
  !.lim = ("sys" :> LR(2, 9, 9, 9, 2, 2, 2, 2)) @@ ("trans" :> LR(2, 9, 9, 9, 2, 2, 2, 2)) @@
          ("peer:p1" :> LR(1, 9, 9, 9, 1, 1, 1, 1)) @@ ("conn" :> LR(1, 9, 9, 9, 1, 1, 1, 1)) @@ ("stream" :> Open),
  !.dirs = {"in", "out"}, !.fds = {TRUE},
  !.kinds = {"openconn", "setpeer", "reserve", "release", "done", "gc"}, !.retry = TRUE]

\* ---- streams / protocol / service / per-peer sub-scopes ------------------------------------------
FamStream == [Base EXCEPT
  !.streams = <<"s1", "s2", "s3">>, !.peers = {"p1", "p2"}, !.protos = {"a"}, !.svcs = {"x"},
  !.lim = ("sys" :> LR(INF, 9, 9, 2, 9, 9, 9, 9)) @@ ("trans" :> LR(INF, 9, 9, 1, 9, 9, 9, 9)) @@
          ("peer:p1" :> LR(INF, 1, 9, 2, 9, 9, 9, 9)) @@ ("peer:p2" :> LR(INF, 9, 9, 2, 9, 9, 9, 9)) @@
          ("proto:a" :> LR(INF, 9, 1, 2, 9, 9, 9, 9)) @@ ("proto:a.peer" :> LR(INF, 1, 9, 2, 9, 9, 9, 9)) @@
          ("svc:x" :> LR(INF, 1, 9, 2, 9, 9, 9, 9)) @@ ("svc:x.peer" :> LR(INF, 9, 9, 1, 9, 9, 9, 9)) @@
          ("conn" :> Open) @@ ("stream" :> LR(INF, 1, 1, 1, 9, 9, 9, 9)),
  !.dirs = {"in", "out"},
  !.kinds = {"openstream", "setprotocol", "setservice", "done", "gc"}]
\* streams that hold memory while they are re-parented
FamStreamMem == [Base EXCEPT
  !.streams = <<"s1", "s2">>, !.peers = {"p1"}, !.protos = {"a"}, !.svcs = {"x"},
  !.lim = ("sys" :> LR(3, 9, 9, 9, 9, 9, 9, 9)) @@ ("trans" :> LR(2, 9, 9, 9, 9, 9, 9, 9)) @@
          ("peer:p1" :> LR(2, 9, 9, 9, 9, 9, 9, 9)) @@ ("proto:a" :> LR(2, 9, 9, 9, 9, 9, 9, 9)) @@
          ("proto:a.peer" :> LR(1, 9, 9, 9, 9, 9, 9, 9)) @@ ("svc:x" :> LR(1, 9, 9, 9, 9, 9, 9, 9)) @@
          ("svc:x.peer" :> LR(1, 9, 9, 9, 9, 9, 9, 9)) @@ ("conn" :> Open) @@ ("stream" :> LR(2, 9, 9, 9, 9, 9, 9, 9)),
  !.kinds = {"openstream", "setprotocol", "setservice", "reserve", "release", "done", "gc"}, !.retry = TRUE]

\* ---- regression instance for DESIGN 9.4 (fixed by 8b34800): GC at any moment while View scopes hold
\* reservations and spans; every invariant must hold
FamGcMem == [Base EXCEPT
  !.spans = <<"sp1">>, !.peers = {"p1"}, !.views = {"sys", "peer:p1"},
  !.lim = ("sys" :> LR(3, 9, 9, 9, 9, 9, 9, 9)) @@ ("peer:p1" :> LR(2, 9, 9, 9, 9, 9, 9, 9)) @@
          ("conn" :> Open) @@ ("stream" :> Open),
  !.sizes = {1, 2},
  !.kinds = {"reserve", "release", "beginspan", "done", "gc"}]
\* ---- the two defects still open (DESIGN 9.5, 9.6): expected-violation instances --------------------
AlEps == {"b1", "n0"}
FamAlSub == [Base EXCEPT
  !.conns = <<"c1", "c2", "c3">>, !.peers = {"p1"},
  !.eps = AlEps, !.epip = [e \in AlEps |-> e = "b1"], !.epb = ("b1" :> {"b1/32"}) @@ ("n0" :> {}),
  !.cap = ("b1/32" :> 1), !.allowpeer = {<<"b1", "p1">>},
  !.lim = ("sys" :> LR(INF, 9, 9, 9, 1, 1, 1, 9)) @@ ("asys" :> LR(INF, 9, 9, 9, 2, 2, 2, 9)) @@
          ("conn" :> Open) @@ ("stream" :> Open),
  !.kinds = {"openconn", "done"}]
\* b1 is allow-listed for p1 only.  A connection from b1 admitted through the allow-listed scopes (standard
\* transient full) is attached to p2: transferAllowedToStandard can be refused by system or by transient
\* (the open finding) or succeed and then be refused by p2's own limit; room appears when another holder
\* leaves; every SetPeer is retried after every refusal, with the same or the other peer (RetryGhost)
FamXfer3 == [FamAlSub EXCEPT
  !.conns = <<"c1", "c2", "c3">>, !.peers = {"p1", "p2"}, !.cap = ("b1/32" :> 3),
  !.lim = ("sys" :> LR(INF, 9, 9, 9, 9, 9, 2, 9)) @@ ("trans" :> LR(INF, 9, 9, 9, 9, 9, 1, 9)) @@
          ("asys" :> LR(INF, 9, 9, 9, 9, 9, 2, 9)) @@ ("atrans" :> LR(INF, 9, 9, 9, 9, 9, 1, 9)) @@
          ("peer:p1" :> LR(INF, 9, 9, 9, 9, 9, 2, 9)) @@ ("peer:p2" :> LR(INF, 9, 9, 9, 9, 9, 1, 9)) @@
          ("conn" :> Open) @@ ("stream" :> Open),
  !.kinds = {"openconn", "setpeer", "done"}, !.retry = TRUE]
\* the quick relative: two connections (the transfer is refused by transient or succeeds and p2 refuses)
FamXfer == [FamXfer3 EXCEPT !.conns = <<"c1", "c2">>]

\* ---- concurrent per-step instances (TLC only) -----------------------------------------------------
FamCMem == [Base EXCEPT
  !.conns = <<"c1">>, !.streams = <<"s1">>, !.spans = <<"sp1">>, !.peers = {"p1"},
  !.lim = ("sys" :> LR(3, 9, 9, 9, 9, 9, 9, 9)) @@ ("trans" :> LR(2, 9, 9, 9, 9, 9, 9, 9)) @@
          ("peer:p1" :> LR(2, 9, 9, 9, 9, 9, 9, 9)) @@ ("conn" :> LR(2, 9, 9, 9, 9, 9, 9, 9)) @@
          ("stream" :> LR(2, 9, 9, 9, 9, 9, 9, 9)),
  !.sizes = {1, 2}, !.views = {"peer:p1"},
  !.kinds = {"setpeer", "reserve", "release", "done", "gc"},
  !.threads = <<"t1", "t2">>,
  !.preload = <<OC("c1", "in", FALSE, "n0"), OS("s1", "p1", "in"), BS("sp1", "c1")>>]
FamCConn == [FamAllow EXCEPT !.conns = <<"c1", "c2">>, !.dirs = {"in"}, !.threads = <<"t1", "t2">>,
                            !.lim = [FamAllow.lim EXCEPT !["sys"] = LR(INF, 9, 9, 9, 1, 1, 1, 9)]]
FamCStream == [FamStream EXCEPT
  !.streams = <<"s1", "s2">>, !.dirs = {"in"}, !.peers = {"p1"},
  !.lim = [FamStream.lim EXCEPT !["peer:p1"] = LR(INF, 9, 9, 2, 9, 9, 9, 9)],
  !.threads = <<"t1", "t2">>]

\* smaller relatives for the quick tier
FamConnQ == [FamConn EXCEPT !.conns = <<"c1", "c2">>, !.retry = TRUE]
FamStreamQ == [FamStream EXCEPT !.dirs = {"in"}, !.retry = TRUE]
FamSpanQ == [FamSpan EXCEPT !.spans = <<"sp1", "sp2">>]
FamSubnetQ == [FamSubnet EXCEPT !.eps = {"a1", "a2", "v6", "n0"}, !.kinds = {"openconn", "done"}]
FamAllowQ == [FamAllow EXCEPT !.dirs = {"in"}, !.retry = TRUE]
FamCMemQ == [FamCMem EXCEPT !.sizes = {1}, !.streams = <<>>, !.kinds = {"setpeer", "reserve", "release", "done"},
                            !.preload = <<OC("c1", "in", FALSE, "n0"), BS("sp1", "c1")>>]

Cfg == CASE Fam = "connq" -> FamConnQ [] Fam = "streamq" -> FamStreamQ [] Fam = "spanq" -> FamSpanQ
         [] Fam = "subnetq" -> FamSubnetQ [] Fam = "cmemq" -> FamCMemQ [] Fam = "allowq" -> FamAllowQ
         [] Fam = "mem" -> FamMem [] Fam = "memp" -> FamMemP [] Fam = "span" -> FamSpan
         [] Fam = "conn" -> FamConn [] Fam = "subnet" -> FamSubnet [] Fam = "allow" -> FamAllow [] Fam = "connmem" -> FamConnMem
         [] Fam = "stream" -> FamStream [] Fam = "streammem" -> FamStreamMem
         [] Fam = "gcmem" -> FamGcMem [] Fam = "alsub" -> FamAlSub [] Fam = "xfer" -> FamXfer [] Fam = "xfer3" -> FamXfer3 [] Fam = "subcnt" -> FamSubCnt
         [] Fam = "cmem" -> FamCMem [] Fam = "cconn" -> FamCConn [] Fam = "cstream" -> FamCStream

MCConns == Cfg.conns      MCStreams == Cfg.streams    MCSpans == Cfg.spans
MCPeers == Cfg.peers      MCProtos == Cfg.protos      MCSvcs == Cfg.svcs
MCEps == Cfg.eps          MCEpIP == Cfg.epip          MCEpBuckets == Cfg.epb
MCCap == Cfg.cap          MCAllowNet == Cfg.allownet  MCAllowPeer == Cfg.allowpeer
MCSizes == Cfg.sizes      MCPrios == Cfg.prios        MCDirs == Cfg.dirs
MCFds == Cfg.fds          MCViews == Cfg.views        MCKinds == Cfg.kinds
MCThreads == Cfg.threads  MCPreload == Cfg.preload  MCRetryGhost == Cfg.retry
MCSequential == Len(Cfg.threads) = 1
\* every named scope of the instance has a limit: the family's own entry or the default; the per-peer
\* sub-scopes of a protocol / service share one limit ("proto:a.peer"), as in the Limiter interface
LOf(k) == IF k \in DOMAIN Cfg.lim THEN Cfg.lim[k] ELSE Cfg.deflim
MCTop == {"sys", "trans", "asys", "atrans", "conn", "stream"} \cup {"peer:" \o p : p \in Cfg.peers}
         \cup {"proto:" \o x : x \in Cfg.protos} \cup {"svc:" \o x : x \in Cfg.svcs}
PPairs == Cfg.protos \X Cfg.peers
SPairs == Cfg.svcs \X Cfg.peers
MCLim == [x \in MCTop |-> LOf(x)]
         @@ [x \in {"proto:" \o q[1] \o ".peer:" \o q[2] : q \in PPairs} |->
               LOf("proto:" \o (CHOOSE q \in PPairs : x = "proto:" \o q[1] \o ".peer:" \o q[2])[1] \o ".peer")]
         @@ [x \in {"svc:" \o q[1] \o ".peer:" \o q[2] : q \in SPairs} |->
               LOf("svc:" \o (CHOOSE q \in SPairs : x = "svc:" \o q[1] \o ".peer:" \o q[2])[1] \o ".peer")]

\* compact JSON projection: usage vectors as tuples, only the non-zero ones; objects that exist
Tup(u) == <<u.mem, u.si, u.so, u.ci, u.co, u.fd>>
St == [use  |-> [x \in {y \in All : w.use[y] # Z} |-> Tup(w.use[x])],
       obj  |-> [o \in {y \in ObjIds : w.obj[y].st # "none"} |->
                    <<w.obj[o].st, w.obj[o].al, w.obj[o].peer, w.obj[o].proto, w.obj[o].svc, w.obj[o].edges, w.obj[o].owner,
                      w.obj[o].dir, w.obj[o].fd, w.obj[o].ep, w.obj[o].ipv, w.obj[o].rf>>],
       cnt  |-> [b \in {y \in DOMAIN Cap : w.cnt[y] # 0} |-> w.cnt[b]],
       ref  |-> [s \in {y \in GCable : w.ref[y] # 0} |-> w.ref[s]],
       held |-> [x \in {y \in All : w.held[y] # 0} |-> w.held[x]],
       rfo  |-> w.rfo]
EmitEdge == PrintT(<<"VFEDGE", ToJson([s |-> St, op |-> op', t |-> St'])>>)
Conf == [fam |-> Fam, inf |-> INF, lim |-> Cfg.lim, deflim |-> Cfg.deflim, conns |-> Cfg.conns, streams |-> Cfg.streams,
         spans |-> Cfg.spans, peers |-> Cfg.peers, protos |-> Cfg.protos, svcs |-> Cfg.svcs, eps |-> Cfg.eps,
         epb |-> Cfg.epb, cap |-> Cfg.cap, allownet |-> Cfg.allownet, allowpeer |-> Cfg.allowpeer]
MCInit == Init /\ PrintT(<<"VFINIT", ToJson(St)>>) /\ PrintT(<<"VFCONF", ToJson(Conf)>>)
=============================================================================
