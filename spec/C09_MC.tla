------------------------------ MODULE C09_MC ------------------------------
EXTENDS C09_AddrBook, Json
CONSTANTS MaxBatch      \* largest number of addresses one call names in this instance
\* every non-empty address set of at most MaxBatch elements
MCBatches == {S \in SUBSET Addrs : S # {} /\ Cardinality(S) <= MaxBatch}
\* singletons and the full set only (the cheap family of DESIGN D.5)
MCBatchesEnds == {{a} : a \in Addrs} \cup {Addrs}
\* ordered batches for the binding cap: every sequence without repetition of at most MaxBatch addresses
MCOBatches == {q \in UNION {[1..n -> Addrs] : n \in 1..MaxBatch} : \A i, j \in 1..Len(q) : i # j => q[i] # q[j]}
St == [book |-> book, rec |-> rec]
EmitEdge == PrintT(<<"VFEDGE", ToJson([s |-> St, op |-> op', t |-> St'])>>)
MCInit == Init /\ PrintT(<<"VFINIT", ToJson(St)>>)
=============================================================================
