\* Template: the driver (checks/C07.py) instantiates Entries, Reqs, Slots, MaxTbl, Lazy, Push per instance.
CONSTANTS
  P <- MCP
  Ext <- MCExt
  Tokens <- MCP
  Entries <- MCEntriesFull
  Reqs <- MCReqs3
  Slots <- MCSlots1
  MaxTbl = 2
  Lazy = TRUE
  Push = FALSE
  Hosts <- Two
  Links <- LinkAB
  Dialers <- OnlyA
  Servers <- OnlyB
  Delays <- AllDelays
  Waits <- AllWaits
INIT Init
NEXT Next
VIEW View
INVARIANTS TypeOK RightHandler
PROPERTIES OpenBinds Agreement Dispatch OneHandler NoCommon RemovedNeverRuns CommonMeansSuccess KnowledgeSources BooksApart FirstOpFree TimeFree
