\* Template: checks/C14.py instantiates the constants for every bounded instance.
CONSTANTS
  Peers = {"p1", "p2", "p3"}
  Conns = {"p1a", "p2a", "p3a"}
  Tags = {"t"}
  TagPeers = {"p1", "p2", "p3"}
  Vals = {1, 2}
  Low = 1
  High = 2
  Grace = 1
  MaxAge = 2
  Silence = 0
  HasForce = TRUE
  DecayMax = 0
  DecayKinds = {"fixed1"}
  BumpKinds = {"bounded"}
  Deltas = {1}
  DecayEvery = 1
  Split = FALSE
  MaxBurst = 2
  UWindow = FALSE
  Profile = 1
  Prot2 = {}
  Prot1 = {}
  ConnPeer <- MCConnPeer
  ConnIn <- MCConnIn
  ConnStreams <- MCConnStreams
  ProtTagsOf <- MCProtTagsOf
INIT Init
NEXT Next
VIEW View
INVARIANTS TypeOK Shape CountExact ValueExact
PROPERTIES NoProtected NoGrace LowestFirst NothingBelowLow LeavesAtMostLow ForceTrimOrder TrimInert SelectInert
