\* Template: the driver (checks/C17.py) instantiates Inst, Thresh, MaxClosed for every bounded instance.
CONSTANTS
  Inst = "groups"
  Thresh = 2
  MaxTop = 3
  MaxClosed = 9
  Emit = FALSE
  Locals <- MCLocals
  AddrSeq <- MCAddrSeq
  Specials <- MCSpecials
  LocalOf <- MCLocalOf
  RemoteOf <- MCRemoteOf
  GroupOf <- MCGroupOf
INIT Init
NEXT Next
VIEW View
INVARIANTS TypeOK CreditOnlyOpenListening ExtMatches CodeTopAllowed TiersAgree
PROPERTIES NeverCount Withdrawn
