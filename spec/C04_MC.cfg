SPECIFICATION Spec
CONSTANTS
  Attempts <- X_Attempts
  DirOf <- X_DirOf
  QueueLen = 1
  WithStreams = TRUE
  CodeQuirks = {}
VIEW View
INVARIANTS TypeOK Released SwarmClosed NoOrphan
CHECK_DEADLOCK FALSE
