-------------------------- MODULE C20_BlackHole --------------------------
(***************************************************************************)
(* Black-hole detection of the swarm (p2p/net/swarm/black_hole_detector.go)*)
(*                                                                         *)
(* Two BlackHoleSuccessCounter instances (udp, ipv6) transcribed exactly,  *)
(* and the blackHoleDetector on top of them (FilterAddrs / RecordResult,   *)
(* read-only mode).  One action per public method = one critical section   *)
(* (each counter method holds the counter mutex for its whole body).       *)
(***************************************************************************)
EXTENDS Naturals, Sequences, FiniteSets, TLC

CONSTANTS N,            \* window size == probe period (code: BlackHoleSuccessCounter.N)
          MinSucc,      \* successes needed in a full window (MinSuccesses)
          ReadOnly,     \* detector mode
          FilterSets    \* the address-kind sets FilterAddrs is called with in the bounded model

Counters == {"udp", "ipv6"}
States == {"Probing", "Allowed", "Blocked"}

\* The address universe: every combination the filter distinguishes.
AddrKinds == [pub : BOOLEAN, udp : BOOLEAN, ip6 : BOOLEAN]
InFamily(a, c) == IF c = "udp" THEN a.udp ELSE a.ip6

VARIABLES win,      \* [Counters -> Seq(BOOLEAN)]  dialResults
          succ,     \* [Counters -> Nat]           successes (the code's incremental counter)
          req,      \* [Counters -> 0..N-1]        requests modulo N (only the residue influences behaviour)
          st,       \* [Counters -> States]
          run,      \* ghost: consecutive "Blocked" answers of HandleRequest since the last other answer
          op        \* output only: last action, its arguments and expected observable results

vars == <<win, succ, req, st, run, op>>
View == <<win, succ, req, st, run>>

StateOf(w, s) == IF Len(w) < N THEN "Probing"
                 ELSE IF s >= MinSucc THEN "Allowed" ELSE "Blocked"

CountTrue(w) == Cardinality({i \in 1..Len(w) : w[i]})

Fresh == [win |-> <<>>, succ |-> 0, req |-> 0, st |-> StateOf(<<>>, 0)]

Init == /\ win = [c \in Counters |-> <<>>]
        /\ succ = [c \in Counters |-> 0]
        /\ req = [c \in Counters |-> 0]
        /\ st = [c \in Counters |-> "Probing"]   \* zero value of the Go struct
        /\ run = [c \in Counters |-> 0]
        /\ op = [name |-> "init"]

Cur(c) == [win |-> win[c], succ |-> succ[c], req |-> req[c], st |-> st[c]]

(* BlackHoleSuccessCounter.RecordResult as a function old-counter -> new-counter *)
Rec(k, ok) ==
  IF k.st = "Blocked" /\ ok
  THEN Fresh                                     \* reset(): clears window, successes AND requests
  ELSE LET w1 == Append(k.win, ok)
           s1 == k.succ + (IF ok THEN 1 ELSE 0)
           drop == Len(w1) > N
           w2 == IF drop THEN Tail(w1) ELSE w1
           s2 == IF drop /\ Head(w1) THEN s1 - 1 ELSE s1
       IN [win |-> w2, succ |-> s2, req |-> k.req, st |-> StateOf(w2, s2)]

(* BlackHoleSuccessCounter.HandleRequest: result and new request residue *)
HRes(k) == IF k.st = "Allowed" THEN "Allowed"
           ELSE IF k.st = "Probing" \/ (k.req + 1) % N = 0 THEN "Probing"
           ELSE "Blocked"
HReq(k) == (k.req + 1) % N

Apply(f) ==  \* f : [Counters -> counter record]
  /\ win' = [c \in Counters |-> f[c].win]
  /\ succ' = [c \in Counters |-> f[c].succ]
  /\ req' = [c \in Counters |-> f[c].req]
  /\ st' = [c \in Counters |-> f[c].st]

Record(c, ok) ==
  /\ Apply([d \in Counters |-> IF d = c THEN Rec(Cur(d), ok) ELSE Cur(d)])
  /\ run' = [run EXCEPT ![c] = 0]
  /\ op' = [name |-> "record", c |-> c, ok |-> ok]

Handle(c) ==
  /\ Apply([d \in Counters |-> IF d = c THEN [Cur(d) EXCEPT !.req = HReq(Cur(d))] ELSE Cur(d)])
  /\ run' = [run EXCEPT ![c] = IF HRes(Cur(c)) = "Blocked" THEN @ + 1 ELSE 0]
  /\ op' = [name |-> "handle", c |-> c, res |-> HRes(Cur(c))]

(* blackHoleDetector.FilterAddrs on a set S of address kinds.  The counter of a family is     *)
(* consulted only if a PUBLIC address of that family is present; read-only mode peeks.         *)
Consulted(S, c) == \E a \in S : a.pub /\ InFamily(a, c)
FState(S, c) == IF ~Consulted(S, c) THEN "Allowed"
                ELSE IF ReadOnly THEN (IF st[c] = "Allowed" THEN "Allowed" ELSE "Blocked")
                ELSE HRes(Cur(c))
Kept(S, a) == LET u == FState(S, "udp")  v == FState(S, "ipv6") IN
              \/ ~a.pub
              \/ (u = "Probing" /\ a.udp)
              \/ (v = "Probing" /\ a.ip6)
              \/ ~((u = "Blocked" /\ a.udp) \/ (v = "Blocked" /\ a.ip6))

Filter(S) ==
  /\ Apply([c \in Counters |-> IF Consulted(S, c) /\ ~ReadOnly
                               THEN [Cur(c) EXCEPT !.req = HReq(Cur(c))] ELSE Cur(c)])
  /\ run' = [c \in Counters |-> IF Consulted(S, c) /\ ~ReadOnly
                                THEN (IF HRes(Cur(c)) = "Blocked" THEN run[c] + 1 ELSE 0)
                                ELSE run[c]]
  /\ op' = [name |-> "filter", addrs |-> S, kept |-> {a \in S : Kept(S, a)},
            fudp |-> FState(S, "udp"), fip6 |-> FState(S, "ipv6")]

(* blackHoleDetector.RecordResult(addr, ok) *)
Touched(a) == IF ReadOnly \/ ~a.pub THEN {} ELSE {c \in Counters : InFamily(a, c)}
DRecord(a, ok) ==
  /\ Apply([c \in Counters |-> IF c \in Touched(a) THEN Rec(Cur(c), ok) ELSE Cur(c)])
  /\ run' = [c \in Counters |-> IF c \in Touched(a) THEN 0 ELSE run[c]]
  /\ op' = [name |-> "drecord", addr |-> a, ok |-> ok]

Next == \/ \E c \in Counters, ok \in BOOLEAN : Record(c, ok)
        \/ \E c \in Counters : Handle(c)
        \/ \E S \in FilterSets : Filter(S)
        \/ \E a \in AddrKinds, ok \in BOOLEAN : DRecord(a, ok)

(* Detector-only behaviours (what a read-only swarm can do): no direct counter calls. *)
NextDetector == \/ \E S \in FilterSets : Filter(S)
                \/ \E a \in AddrKinds, ok \in BOOLEAN : DRecord(a, ok)

Spec == Init /\ [][Next]_vars
SpecDetector == Init /\ [][NextDetector]_vars

----------------------------------------------------------------------------
(* Properties *)

TypeOK == /\ \A c \in Counters : Len(win[c]) <= N /\ req[c] \in 0..(N-1) /\ st[c] \in States

\* the incremental counter equals the number of successes in the window; the state is the
\* documented function of the window
Consistency == \A c \in Counters : succ[c] = CountTrue(win[c]) /\ st[c] = StateOf(win[c], succ[c])

\* blocks only after a full observation window with fewer than MinSucc successes
BlockOnlyAfterFullWindow ==
  \A c \in Counters : st[c] = "Blocked" => Len(win[c]) = N /\ CountTrue(win[c]) < MinSucc

\* among any N consecutive requests while blocked at least one is let through as a probe
ProbeEveryN == \A c \in Counters : run[c] <= N - 1

\* a single success while blocked clears the state (action property)
SuccessClears ==
  [][\A c \in Counters :
       (st[c] = "Blocked" /\ op'.name = "record" /\ op'.c = c /\ op'.ok)
          => (st'[c] # "Blocked" /\ win'[c] = <<>> /\ req'[c] = 0)]_vars

\* the filter never removes a private address or an address of an unaffected family, and removes
\* a public address only if a counter of one of its families answered Blocked
FilterScope ==
  [][op'.name = "filter" =>
       /\ \A a \in op'.addrs : ~a.pub => a \in op'.kept
       /\ \A a \in op'.addrs : (~a.udp /\ ~a.ip6) => a \in op'.kept
       /\ \A a \in op'.addrs \ op'.kept :
             \/ (a.udp /\ op'.fudp = "Blocked" /\ (ReadOnly \/ st["udp"] = "Blocked"))
             \/ (a.ip6 /\ op'.fip6 = "Blocked" /\ (ReadOnly \/ st["ipv6"] = "Blocked"))
       /\ ~ReadOnly => \A a \in op'.addrs \ op'.kept :
             \/ (a.udp /\ Len(win["udp"]) = N /\ CountTrue(win["udp"]) < MinSucc)
             \/ (a.ip6 /\ Len(win["ipv6"]) = N /\ CountTrue(win["ipv6"]) < MinSucc)]_vars

\* read-only mode: refuses unless known good, and never changes state
ReadOnlyInert ==
  [][ReadOnly /\ op'.name \in {"filter", "drecord"} => UNCHANGED <<win, succ, req, st>>]_vars
ReadOnlyRefuses ==
  [][(ReadOnly /\ op'.name = "filter") =>
        /\ (op'.fudp = "Allowed" <=> (st["udp"] = "Allowed" \/ ~Consulted(op'.addrs, "udp")))
        /\ (op'.fip6 = "Allowed" <=> (st["ipv6"] = "Allowed" \/ ~Consulted(op'.addrs, "ipv6")))]_vars

\* cannot stay blocked once dials succeed again: the successor of any blocked state under a success
\* is not blocked (so no fairness is needed).  Vacuity guard: Blocked must be reachable (ReachBlocked
\* is expected to be violated).
ReachBlocked == \A c \in Counters : st[c] # "Blocked"
ReachAllowed == \A c \in Counters : st[c] # "Allowed"
=============================================================================
