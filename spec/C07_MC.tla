------------------------------ MODULE C07_MC ------------------------------
EXTENDS C07_Negotiate, Json

\* protocol universe: two ids share a prefix
MCP == {"/v/a", "/v/a/1", "/v/b", "/v/c"}
MCExt == {<<"/v/a", "/v/a/1">>}
E(n, k) == [n |-> n, k |-> k]
\* registrable entries: every id exactly; the prefix name with a prefix matcher and with a matcher that
\* accepts only proper extensions (not its own name); one more prefix matcher without extensions
MCEntriesFull == {E("/v/a", "exact"), E("/v/a", "prefix"), E("/v/a", "sub"), E("/v/a/1", "exact"),
                  E("/v/b", "exact"), E("/v/b", "prefix"), E("/v/c", "exact")}
MCEntriesSmall == {E("/v/a", "exact"), E("/v/a", "prefix"), E("/v/a", "sub"), E("/v/a/1", "exact"),
                   E("/v/b", "exact")}
MCEntriesTiny == {E("/v/a", "prefix"), E("/v/a/1", "exact"), E("/v/b", "exact")}

Inj(q) == \A i, j \in 1..Len(q) : i # j => q[i] # q[j]
ReqsUpTo(n, U) == {q \in UNION {[1..k -> U] : k \in 1..n} : Inj(q)}
MCReqs3 == ReqsUpTo(3, MCP)
MCReqs2 == ReqsUpTo(2, MCP)
MCReqs2abc == ReqsUpTo(2, {"/v/a", "/v/a/1", "/v/b"})
MCSlots1 == {1}
MCSlots2 == {1, 2}

MCEntriesBi == {E("/v/a", "exact"), E("/v/a", "prefix"), E("/v/b", "exact")}
MCReqs2ab == ReqsUpTo(2, {"/v/a", "/v/a/1", "/v/b"})
MCTokens1 == {"/v/b"}
MCTokens2 == {"/v/c", "/v/a/1"}
OnlyA == {"A"}
OnlyB == {"B"}
Both == {"A", "B"}

Two == {"A", "B"}
Three == {"A", "B", "C"}
LinkAB == {{"A", "B"}}
LinkStar == {{"A", "B"}, {"A", "C"}}
OnlyBC == {"B", "C"}
NoDelay == {"0"}
AllDelays == {"0", "tm", "tp", "min"}
NoWaits == {}
AllWaits == {"tm", "tp", "min"}
MCEntries3 == {E("/v/a", "prefix"), E("/v/a/1", "exact"), E("/v/b", "exact")}
MCReqs3h == ReqsUpTo(2, {"/v/a", "/v/a/1", "/v/b"})
MCEntries3q == {E("/v/a", "prefix"), E("/v/b", "exact")}
MCReqs3q == ReqsUpTo(2, {"/v/a/1", "/v/b"}) \cup {<<"/v/a">>}

Cnt(F(_, _)) == [x \in Hosts |-> [p \in MCP |-> F(x, p)]]
St == [tbl |-> tbl, K |-> K, st |-> st, out |-> Cnt(Out), inn |-> Cnt(In)]
EmitEdge == PrintT(<<"VFEDGE", ToJson([s |-> St, op |-> op', t |-> St'])>>)
MCInit == Init /\ PrintT(<<"VFINIT", ToJson(St)>>)
=============================================================================
