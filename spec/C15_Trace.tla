----------------------------- MODULE C15_Trace -----------------------------
(***************************************************************************)
(* Trace validation for the event bus: every recorded execution of the     *)
(* real bus (hook events at the critical sections + the harness's call /   *)
(* return / receive events, totally ordered by the recorder's sequence     *)
(* number) must be a behaviour of C15_EventBus, with all its invariants    *)
(* holding after every consumed line.  All actions are fully determined by *)
(* the logged fields, so the search is linear in the trace length.         *)
(***************************************************************************)
EXTENDS C15_EventBus, Json, Integers

TraceLog == ndJsonDeserialize("trace.ndjson")

\* fixed universe used by the harness (harness/p2p/host/eventbus/zz_verif_c15_test.go)
TrTypes == {"A", "B", "C"}
TrStateful == {"A", "C"}
TrEmitters == {"e1", "e2", "e3", "e4"}
TrETyp == ("e1" :> "A") @@ ("e2" :> "A") @@ ("e3" :> "B") @@ ("e4" :> "C")
TrNEv == [e \in TrEmitters |-> 1000000]
TrLateEm == {}   \* runs with a late emitter are judged by the monitors only (see the harness)
TrSubs == {"s1", "s2", "s3", "s4", "s5", "s6", "s7", "s8", "s9", "s10", "s11", "s12"}
TrSTyps == ("s1" :> <<"A">>) @@ ("s2" :> <<"A">>) @@ ("s3" :> <<"A", "B">>) @@ ("s4" :> <<"B">>) @@
           ("s5" :> <<"A">>) @@ ("s6" :> <<"B", "A">>) @@ ("s7" :> <<"A">>) @@ ("s8" :> <<"A", "B">>) @@
           ("s9" :> <<"A", "C">>) @@ ("s10" :> <<"C", "A">>) @@ ("s11" :> <<"C">>) @@ ("s12" :> <<"B", "C">>)
TrWSubs == {"w1", "w2", "w3"}
TrCap == [s \in TrSubs \cup TrWSubs |-> 0]

VARIABLE l
tvars == <<vars, l>>

Cur == TraceLog[l]
IsEvent(name) == l <= Len(TraceLog) /\ Cur.ev = name /\ l' = l + 1
Same == UNCHANGED vars
IsW(s) == s \in WSubs

TraceInit == Init /\ l = 1 /\ TLCSet(1, 1)

TrReset == IsEvent("reset") /\ InitPrimed

TrEmitCall == IsEvent("emit_call") /\ epc[Cur.e].k = "idle" /\ epc[Cur.e].n = Cur.n /\ Same
TrEmitRet == IsEvent("emit_ret") /\ epc[Cur.e].k = "idle" /\ epc[Cur.e].n = Cur.n + 1 /\ Same
TrNLock == IsEvent("n.lock") /\ epc[Cur.e].n = Cur.n /\ ETyp[Cur.e] = Cur.t /\ EAcq(Cur.e)
TrNSend == /\ IsEvent("n.send")
           /\ epc[Cur.e].k = "typed" /\ epc[Cur.e].n = Cur.n /\ epc[Cur.e].i <= Len(sinks[Cur.t])
           /\ sinks[Cur.t][epc[Cur.e].i] = Cur.s
           /\ ESend(Cur.e)
TrNUnlock == IsEvent("n.unlock") /\ epc[Cur.e].n = Cur.n /\ ERel(Cur.e)
\* the nSinks read is not logged; only its outcome is
TrWSkip == /\ IsEvent("w.skip") /\ epc[Cur.e].k = "wcheck" /\ Finish(Cur.e)
           /\ UNCHANGED <<buslk, lock, sinks, last, nEm, nSinks, wreaders, wpend, wsinks, chan, chclosed, spc, si,
                          async, asent, dropq, wpc, drain, got, estart, subAt, firstExp, panic, orph>>
TrWRLock == /\ IsEvent("w.rlock") /\ epc[Cur.e].k = "wcheck"
            /\ wreaders' = wreaders \cup {Cur.e}
            /\ epc' = [epc EXCEPT ![Cur.e] = [k |-> "wild", n |-> @.n, i |-> 1]]
            /\ UNCHANGED <<buslk, lock, sinks, last, nEm, nSinks, wpend, wsinks, chan, chclosed, spc, si, async,
                           asent, dropq, wpc, drain, got, estart, edone, subAt, firstExp, panic, orph>>
TrWSend == /\ IsEvent("w.send") /\ epc[Cur.e].k = "wild" /\ epc[Cur.e].i <= Len(wsinks)
           /\ wsinks[epc[Cur.e].i] = Cur.s
           /\ EWSend(Cur.e)
TrWRUnlock == IsEvent("w.runlock") /\ EWRel(Cur.e)
TrEClose == IsEvent("eclose") /\ EClose(Cur.e)
TrDrop == /\ IsEvent("n.drop") /\ lock[Cur.t] = "free" /\ nEm[Cur.t] = 0 /\ sinks[Cur.t] = <<>>
          /\ last' = [last EXCEPT ![Cur.t] = None]
          /\ dropq' = dropq \ {Cur.t}
          /\ UNCHANGED <<buslk, lock, sinks, nEm, nSinks, wreaders, wpend, wsinks, chan, chclosed, epc, spc, si,
                         async, asent, wpc, drain, got, estart, edone, subAt, firstExp, panic, orph>>

TrSubCall == /\ IsEvent("sub_call")
             /\ IF IsW(Cur.s) THEN wpc[Cur.s] = "init" ELSE spc[Cur.s] = "init"
             /\ Same
\* the bus lock is taken and released inside withNode before the hook fires: SubBus . SubAttach
TrAddSink == /\ IsEvent("n.addsink") /\ si[Cur.s] <= Len(STyps[Cur.s]) /\ STyps[Cur.s][si[Cur.s]] = Cur.t
             /\ buslk = "free" /\ UNCHANGED buslk
             /\ SubAttachBody(Cur.s)
TrLast == IsEvent("n.last") /\ last[Cur.t] = <<Cur.e, Cur.n>> /\ AsyncSend(Cur.s, Cur.t)
TrAsyncDone == IsEvent("n.asyncdone") /\ AsyncDone(Cur.s, Cur.t)
TrSubRet == /\ IsEvent("sub_ret")
            /\ IF IsW(Cur.s) THEN wpc[Cur.s] = "ready" ELSE spc[Cur.s] = "ready"
            /\ Same
\* wildcardNode.addSink: nSinks++ ; Lock ; append ; Unlock  -- logged once, under the lock
TrWAddSink == /\ IsEvent("w.addsink") /\ wpc[Cur.s] = "init" /\ wreaders = {}
              /\ nSinks' = nSinks + 1
              /\ wsinks' = Append(wsinks, Cur.s)
              /\ wpc' = [wpc EXCEPT ![Cur.s] = "ready"]
              /\ subAt' = [subAt EXCEPT ![Cur.s] = estart]
              /\ UNCHANGED <<buslk, lock, sinks, last, nEm, wreaders, wpend, chan, chclosed, epc, spc, si, async,
                             asent, dropq, drain, got, estart, edone, firstExp, panic, orph>>

TrCloseCall == /\ IsEvent("close_call")
               /\ IF IsW(Cur.s) THEN WCloseStart(Cur.s) ELSE CloseStart(Cur.s)
TrRmSink == /\ IsEvent("n.rmsink") /\ si[Cur.s] <= Len(STyps[Cur.s]) /\ STyps[Cur.s][si[Cur.s]] = Cur.t
            /\ CloseNode(Cur.s)
TrChClose == IsEvent("ch.close") /\ CloseChan(Cur.s)
TrWRmSink == IsEvent("w.rmsink") /\ WCloseDo(Cur.s)
\* Wildcard Close returning = the sweep is over.  The model keeps what was buffered: the reader may have
\* taken an event out of the channel before the sweep and log its "recv" only now (the log line follows
\* the receive with arbitrary delay), so buffered events stay matchable and `drain` stays set.
TrCloseRet == /\ IsEvent("close_ret")
              /\ IF IsW(Cur.s)
                 THEN /\ wpc[Cur.s] = "sweep"
                      /\ wpc' = [wpc EXCEPT ![Cur.s] = "closed"]
                      /\ UNCHANGED <<buslk, lock, sinks, last, nEm, nSinks, wreaders, wpend, wsinks, chan,
                                     chclosed, epc, spc, si, async, asent, dropq, drain, got, estart, edone,
                                     subAt, firstExp, panic, orph>>
                 ELSE (spc[Cur.s] = "closed" /\ Same)

\* the reader received <<e, n>>.
\* The hook logs the INTENT to send before the channel operation.  Sends of one typed node happen under
\* its exclusive lock, so their intents are in channel order; sends of different nodes (a subscription to
\* several types) or of different emitters on the wildcard node (shared lock) may reach the channel in
\* the opposite order of their intents.  So: while live, the received event must be the oldest buffered
\* one of its source; once Close was called the bus's own drain goroutine competes, so older buffered
\* events of that source may be skipped (silent Drain steps), never reordered.
TrRecv ==
  /\ IsEvent("recv")
  /\ \E idx \in 1..Len(chan[Cur.s]) :
       LET q == chan[Cur.s]
           \* sends whose order relative to this one is fixed by a lock: same emitter (wildcard node,
           \* shared lock) or same node (typed: the node lock is exclusive, but a subscription to several
           \* types is fed by several nodes whose sends race between the logged intent and the channel)
           SameSrc(x) == IF IsW(Cur.s) THEN x[1] = Cur.e ELSE ETyp[x[1]] = ETyp[Cur.e]
           earlierSame == {j \in 1..(idx - 1) : SameSrc(q[j])}
           gone == earlierSame \cup {idx} IN
       /\ q[idx] = <<Cur.e, Cur.n>>
       /\ (earlierSame = {} \/ drain[Cur.s])
       /\ got' = [got EXCEPT ![Cur.s] = Append(@, <<Cur.e, Cur.n>>)]
       /\ chan' = [chan EXCEPT ![Cur.s] = [k \in 1..(Len(q) - Cardinality(gone)) |->
                                            q[CHOOSE m \in 1..Len(q) : m \notin gone /\
                                                 Cardinality({x \in 1..m : x \notin gone}) = k]]]
  /\ UNCHANGED <<buslk, lock, sinks, last, nEm, nSinks, wreaders, wpend, wsinks, chclosed, epc, spc, si, async,
                 asent, dropq, wpc, drain, estart, edone, subAt, firstExp, panic, orph>>

TraceNext ==
  \/ TrReset \/ TrEmitCall \/ TrEmitRet \/ TrNLock \/ TrNSend \/ TrNUnlock \/ TrWSkip \/ TrWRLock
  \/ TrWSend \/ TrWRUnlock \/ TrEClose \/ TrDrop \/ TrSubCall \/ TrAddSink \/ TrLast \/ TrAsyncDone
  \/ TrSubRet \/ TrWAddSink \/ TrCloseCall \/ TrRmSink \/ TrChClose \/ TrWRmSink \/ TrCloseRet \/ TrRecv

TraceSpec == TraceInit /\ [][TraceNext]_tvars

HighWater == TLCSet(1, IF l > TLCGet(1) THEN l ELSE TLCGet(1))
TraceAccepted == /\ PrintT(<<"VFHW", ToJson([hw |-> TLCGet(1), len |-> Len(TraceLog)])>>)
                 /\ TLCGet(1) = Len(TraceLog) + 1
=============================================================================
