----------------------------- MODULE C04qr_Demux -----------------------------
(***************************************************************************)
(* Extension engine C04qr, part 2: the ALPN demultiplexer of               *)
(* p2p/transport/quicreuse/listener.go (quicListener: GetConfigForClient,  *)
(* Add, Run, Close;  listener: add, Accept, Close) for ONE listen address  *)
(* shared by several protocol listeners.                                   *)
(*                                                                         *)
(* STATEMENT (doc comments of ListenQUIC "the same addr can be shared      *)
(* between different ALPNs", of quicListener / listener, the package test  *)
(* TestListener).  A connection is "established" when its QUIC handshake   *)
(* completed on the server.                                                *)
(*                                                                         *)
(*  D1 (one fate)  every established connection ends up in exactly one     *)
(*      way: returned by Accept of one protocol listener, or closed by the *)
(*      server - never both, never neither (it may wait in the accept      *)
(*      queue of an open listener in between).                             *)
(*  D2 (by ALPN)  Accept of a listener only returns connections whose      *)
(*      negotiated ALPN is one of that listener's protocols; a client      *)
(*      offering a protocol nobody listens for is refused in the handshake.*)
(*  D3 (queue)  a listener queues at most queueLen established connections;*)
(*      one that arrives at a full queue is closed ("queue full"), older   *)
(*      ones are untouched and the accept loop never blocks; Accept        *)
(*      returns the queued connections in arrival order.                   *)
(*  D4 (siblings)  closing one protocol listener leaves the others of the  *)
(*      address working: they keep receiving new connections and keep what *)
(*      they had queued; this also holds when a handshake for the closed   *)
(*      protocol was in flight at that moment - that connection is closed  *)
(*      by the server once established.                                    *)
(*  D5 (close drains)  Close of a listener closes every connection still   *)
(*      in its queue; afterwards its Accept reports ErrListenerClosed.     *)
(*  D6 (last one)  closing the last protocol listener closes the shared    *)
(*      QUIC listener: handshakes in flight are refused before Close       *)
(*      returns (quic-go waits for them), the accept loop ends (and gives  *)
(*      back the transport reference: part 1, Q7).                         *)
(*                                                                         *)
(* The module is the STATEMENT.  When it was written the code fell short   *)
(* of D4/D1: quicListener.Run returns ("negotiated unknown protocol") when *)
(* the listener of the negotiated ALPN was closed during the handshake,    *)
(* which ends the accept loop of every protocol listener of the address    *)
(* and leaves that connection open - reported as a finding                 *)
(* (known_findings.d/C04qr.json), not modelled.                            *)
(*                                                                         *)
(* The handshake is two steps - Start (the server has picked the TLS       *)
(* config of the listener serving the offered ALPN) and Finish (the        *)
(* handshake completes and the accept loop dispatches by the negotiated    *)
(* ALPN) - so that Add / Close of listeners interleave with it.  The       *)
(* dispatch uses the protocol table at Finish time: a connection started   *)
(* for a listener that was closed and replaced by a new listener for the   *)
(* same protocol goes to the new one (as the code does).                   *)
(***************************************************************************)
EXTENDS Integers, FiniteSets, Sequences, TLC

CONSTANTS MaxLn, MaxConn, QueueLen, Protos, Alpns   \* Alpns \supseteq Protos: what clients offer

VARIABLES st, op
vars == <<st, op>>
View == st

NoLn == [st |-> "free", proto |-> "none", q |-> <<>>]
NoConn == [st |-> "free", alpn |-> "none", ln |-> 0]
Done(fate) == [st |-> fate, alpn |-> "none", ln |-> 0]     \* a connection whose fate is sealed (identity no longer matters)

Init == /\ st = [lns |-> [l \in 1..MaxLn |-> NoLn], nl |-> 0, nc |-> 0, conns |-> [c \in 1..MaxConn |-> NoConn],
                 running |-> FALSE, started |-> FALSE]
        /\ op = [name |-> "init"]

Serving(p) == {l \in 1..MaxLn : st.lns[l].st = "open" /\ st.lns[l].proto = p}
Open == {l \in 1..MaxLn : st.lns[l].st = "open"}

\* ListenQUIC on the shared address (the first one creates the shared QUIC listener and starts the accept loop)
AddListener(p) ==
  /\ st.nl < MaxLn
  /\ ~st.started \/ st.running           \* one generation of the shared listener
  /\ IF Serving(p) # {}
     THEN /\ st' = st
          /\ op' = [name |-> "add", proto |-> p, ok |-> FALSE, ln |-> 0]
     ELSE LET l == st.nl + 1 IN
          /\ st' = [st EXCEPT !.nl = l, !.lns[l] = [st |-> "open", proto |-> p, q |-> <<>>], !.running = TRUE, !.started = TRUE]
          /\ op' = [name |-> "add", proto |-> p, ok |-> TRUE, ln |-> l]

\* a client starts a handshake offering ALPN a: GetConfigForClient picks the listener serving a, or refuses
Start(a) ==
  /\ st.running /\ st.nc < MaxConn
  /\ LET c == st.nc + 1
         ok == Serving(a) # {} IN
     /\ st' = [st EXCEPT !.nc = c, !.conns[c] = IF ok THEN [st |-> "hs", alpn |-> a, ln |-> 0] ELSE Done("refused")]
     /\ op' = [name |-> "start", c |-> c, alpn |-> a, ok |-> ok]

\* the handshake completes; the accept loop takes the connection and dispatches it
Finish(c) ==
  /\ st.conns[c].st = "hs"
  /\ LET a == st.conns[c].alpn
         sv == Serving(a) IN
     IF sv = {}
     THEN \* its listener was closed during the handshake (D4): closed by the server, the loop goes on
          /\ st' = [st EXCEPT !.conns[c] = Done("closed")]
          /\ op' = [name |-> "finish", c |-> c, fate |-> "closed-nolistener", ln |-> 0]
     ELSE LET l == CHOOSE x \in sv : TRUE IN
          IF Len(st.lns[l].q) < QueueLen
          THEN /\ st' = [st EXCEPT !.conns[c] = [st |-> "queued", alpn |-> a, ln |-> l], !.lns[l].q = Append(@, c)]
               /\ op' = [name |-> "finish", c |-> c, fate |-> "queued", ln |-> l]
          ELSE /\ st' = [st EXCEPT !.conns[c] = Done("closed")]
               /\ op' = [name |-> "finish", c |-> c, fate |-> "closed-full", ln |-> l]

Accept(l) ==
  /\ st.lns[l].st = "open" /\ st.lns[l].q # <<>>
  /\ LET c == Head(st.lns[l].q) IN
     /\ st' = [st EXCEPT !.lns[l].q = Tail(@), !.conns[c] = Done("accepted")]
     /\ op' = [name |-> "accept", ln |-> l, c |-> c]

CloseListener(l) ==
  /\ st.lns[l].st \in {"open", "closed"}
  /\ IF st.lns[l].st = "closed"
     THEN /\ st' = st
          /\ op' = [name |-> "close", ln |-> l, again |-> TRUE, drained |-> {}, last |-> FALSE, refused |-> {}]
     ELSE LET dr == {st.lns[l].q[i] : i \in 1..Len(st.lns[l].q)}
              last == Open = {l}
              \* closing the shared QUIC listener waits for the handshakes in flight and refuses them (D6)
              rf == IF last THEN {c \in 1..MaxConn : st.conns[c].st = "hs"} ELSE {} IN
          /\ st' = [st EXCEPT !.lns[l] = [st |-> "closed", proto |-> "none", q |-> <<>>],
                              !.conns = [c \in 1..MaxConn |-> IF c \in dr THEN Done("closed")
                                                              ELSE IF c \in rf THEN Done("refused") ELSE st.conns[c]],
                              !.running = ~last]
          /\ op' = [name |-> "close", ln |-> l, again |-> FALSE, drained |-> dr, last |-> last, refused |-> rf]

Next == \/ \E p \in Protos : AddListener(p)
        \/ \E a \in Alpns : Start(a)
        \/ \E c \in 1..MaxConn : Finish(c)
        \/ \E l \in 1..MaxLn : Accept(l) \/ CloseListener(l)

Spec == Init /\ [][Next]_vars

(***************************************************************************)
(* Clauses                                                                 *)
(***************************************************************************)
Established(c) == st.conns[c].st \in {"queued", "accepted", "closed"}
TypeOK == /\ st.nl \in 0..MaxLn /\ st.nc \in 0..MaxConn
          /\ \A c \in 1..MaxConn : st.conns[c].st \in {"free", "hs", "refused", "queued", "accepted", "closed"}

\* D1: a queued connection sits in exactly one queue, exactly once, and that queue belongs to an open listener; every
\* established connection is queued, accepted or closed (by construction of the state) - and the fates are final
QueueConsistent ==
  /\ \A c \in 1..MaxConn : (st.conns[c].st = "queued") <=>
        (\E l \in Open : \E i \in 1..Len(st.lns[l].q) : st.lns[l].q[i] = c)
  /\ \A c \in 1..MaxConn : (st.conns[c].st = "queued") =>
        Cardinality({<<l, i>> \in (1..MaxLn) \X (1..QueueLen) : i <= Len(st.lns[l].q) /\ st.lns[l].q[i] = c}) = 1
  /\ \A l \in 1..MaxLn : (st.lns[l].st # "open") => (st.lns[l].q = <<>>)
FatesFinal ==
  [][\A c \in 1..MaxConn :
        ((st.conns[c].st \in {"accepted", "closed", "refused"}) => (st'.conns[c] = st.conns[c]))
        /\ ((st.conns[c].st = "queued") => (st'.conns[c].st \in {"queued", "accepted", "closed"}))]_vars
\* D2
ByAlpn == \A l \in 1..MaxLn : \A i \in 1..Len(st.lns[l].q) : st.conns[st.lns[l].q[i]].alpn = st.lns[l].proto
AcceptByAlpn == [][(op'.name = "accept") => (st.conns[op'.c].alpn = st.lns[op'.ln].proto)]_vars
RefusedOnlyUnserved == [][(op'.name = "start" /\ ~op'.ok) => (Serving(op'.alpn) = {})]_vars
\* D3
QueueBound == \A l \in 1..MaxLn : Len(st.lns[l].q) <= QueueLen
OverflowClosesNewcomer == [][(op'.name = "finish" /\ op'.fate = "closed-full") =>
                               /\ Len(st.lns[op'.ln].q) = QueueLen /\ st'.lns[op'.ln].q = st.lns[op'.ln].q]_vars
Fifo == [][(op'.name = "accept") => (op'.c = Head(st.lns[op'.ln].q))]_vars
\* D4
OneServer == \A p \in Protos : Cardinality(Serving(p)) <= 1
SiblingsSurvive == [][(op'.name = "close" /\ ~op'.again) =>
                        (\A l \in Open \ {op'.ln} : st'.lns[l] = st.lns[l] /\ st'.running)]_vars
RunningIffOpen == st.started => (st.running <=> (Open # {}))
\* D5
CloseDrains == [][(op'.name = "close" /\ ~op'.again) => (\A c \in op'.drained : st.conns[c].st = "queued" /\ st'.conns[c].st = "closed")]_vars

(* vacuity probes (expected to be violated) *)
ReachOverflow == ~(op.name = "finish" /\ op.fate = "closed-full")
ReachOrphan == ~(op.name = "finish" /\ op.fate = "closed-nolistener")
ReachRefusedLate == ~(op.name = "close" /\ op.refused # {})
NoHandshakeWithoutListener == (\E c \in 1..MaxConn : st.conns[c].st = "hs") => st.running
ReachHandover == ~(op.name = "finish" /\ op.fate = "queued" /\ \E l \in 1..MaxLn : l < op.ln /\ st.lns[l].st = "closed")
=============================================================================
