--------------------------- MODULE C02_Channel ---------------------------
(***************************************************************************)
(* One direction of a Noise secure session (p2p/security/noise/rw.go).     *)
(*                                                                         *)
(* The model is about the reader/writer STATE MACHINES, not about bytes:   *)
(* the payload is the position counter 1, 2, 3, ... (unit i is the i-th    *)
(* unit the writer accepted), a frame is [n |-> nonce it was sealed with,  *)
(* pt |-> its plaintext units, st |-> what the wire did to it].            *)
(*                                                                         *)
(*  Write(k)   secureSession.Write: one frame per MaxPT units, consecutive *)
(*             nonces (for written < total { end := min(written+MaxPT ...) *)
(*  Read(b)    secureSession.Read with its THREE paths, guards as in the   *)
(*             code:                                                       *)
(*               qbuf != nil            -> queued remainder                *)
(*               len(buf) >= nextMsgLen -> read + decrypt in place         *)
(*                   (nextMsgLen = plaintext + Tag, i.e. INCLUDING the tag)*)
(*               otherwise              -> pooled buffer, then queue       *)
(*             quirk kept as it is: the pooled path does not release the   *)
(*             queue when the caller's buffer took everything (buffer      *)
(*             between plaintext and plaintext+Tag), so the NEXT Read      *)
(*             returns (0, nil) and only then releases it.                 *)
(*  Short(k)   the underlying connection starts returning short reads of   *)
(*             class k (absorbed by bufio + io.ReadFull: no model effect,  *)
(*             but every read path is driven under every regime).          *)
(*  wire faults on a frame still in flight: Flip (body or tag byte),       *)
(*             FlipLen (length prefix), Drop, Dup, Swap with the next      *)
(*             frame, Cut (bytes missing inside the frame, the stream goes *)
(*             on), CutEof (truncated inside the frame, then EOF), Trunc   *)
(*             (EOF at a frame boundary).                                  *)
(*                                                                         *)
(*  Other(who, k) a Write of size class k between two calls of this        *)
(*             direction: on the REVERSE direction of the same session     *)
(*             pair ("rev") or on a second live session pair ("peer").     *)
(*             No effect on this direction's state - that is the point:    *)
(*             all sessions of a process share one buffer pool, so the     *)
(*             replay drives it in every reader state (queue kept, partly  *)
(*             read, released) and any aliasing of a retained buffer shows *)
(*             up as altered bytes.                                        *)
(*  Glitch(kind) what io.Reader / io.Writer allow the underlying           *)
(*             connection besides short reads, one per behaviour: the next *)
(*             bytes arrive TOGETHER with a timeout error ("dataerr"), a   *)
(*             temporary error arrives before any byte ("temperr"), the    *)
(*             next write is cut short with an error ("shortwrite").  A    *)
(*             read glitch may be swallowed (io.ReadFull got enough),      *)
(*             surface later (bufio keeps it) or lose bytes inside a frame *)
(*             (then the reader fails from there on): the model goes on as *)
(*             if intact and marks everything after it `loose` - only the  *)
(*             statement's clauses are judged there: what is delivered is  *)
(*             a prefix of what was accepted, garbling never.  A short     *)
(*             write leaves a partial frame (a self-inflicted cut), the    *)
(*             nonce is spent, nothing of that Write is accepted, and the  *)
(*             writer stops.                                               *)
(*                                                                         *)
(* Decryption succeeds iff the frame is untouched and was sealed with the  *)
(* nonce the reader is at (flynn/noise CipherState: the nonce advances     *)
(* only on success, so after a duplicate or a swapped pair the reader gets *)
(* an error and may then continue at the right position).                  *)
(***************************************************************************)
EXTENDS Naturals, Sequences, FiniteSets, TLC

CONSTANTS Tag,        \* authentication tag length in units (real: 16)
          MaxPT,      \* MaxPlaintextLength in units (real: 65519)
          MaxSent,    \* bound on the total payload
          MaxWrite,   \* bound on one Write
          Bufs,       \* read-buffer sizes
          Shorts,     \* short-read classes of the underlying connection (0 = none)
          Faults,     \* fault kinds enabled in this instance
          MaxFaults,  \* faults per behaviour
          Others,     \* subset of {"rev", "peer"}: writes elsewhere between the calls of this direction
          Glitches    \* subset of {"dataerr", "temperr", "shortwrite", "refusewrite"}

VARIABLES nsent,      \* units accepted by Write so far; the payload is <<1, ..., nsent>>
          wnonce,     \* writer's nonce counter (= frames sealed)
          wire,       \* frames in flight, in arrival order
          closed,     \* the wire ends after the frames in flight (EOF)
          qlive,      \* qbuf != nil
          qbuf,       \* decrypted frame retained by the reader
          qseek,      \* qseek
          rnonce,     \* reader's nonce counter (= frames opened)
          broken,     \* the reader lost framing (length prefix altered / bytes missing)
          delivered,  \* units handed to the caller of Read, in order
          rdErr,      \* some Read has returned an error
          under,      \* short-read class of the underlying connection
          nfault,     \* faults injected so far
          errPos,     \* ghost: units that precede the first fault (MaxSent + 1: none)
          stopPos,    \* ghost: the same for faults other than dup/swap (the reader cannot get past those)
          rg,         \* armed read glitch: "none", "dataerr", "temperr"
          wg,         \* armed short write
          wr,         \* armed refusal: the next write of the connection is refused whole (0 bytes, error, nothing on
                      \* the wire); the frame had been sealed, so its nonce is spent: what is written afterwards
                      \* is sealed with later nonces and the reader FAILS on it (it never gets a wrong byte)
          loose,      \* a read glitch reached the reader: from here on only the statement's clauses are judged
          nglitch,    \* glitches armed so far
          wdead,      \* a Write failed: the writer stops
          op

vars == <<nsent, wnonce, wire, closed, qlive, qbuf, qseek, rnonce, broken, delivered, rdErr, under,
          nfault, errPos, stopPos, rg, wg, wr, loose, nglitch, wdead, op>>
View == <<nsent, wnonce, wire, closed, qlive, qbuf, qseek, rnonce, broken, delivered, rdErr, under,
          nfault, errPos, stopPos, rg, wg, wr, loose, nglitch, wdead>>

Min(a, b) == IF a < b THEN a ELSE b
Sent == [i \in 1..nsent |-> i]
IsPrefix(s, t) == Len(s) <= Len(t) /\ \A i \in 1..Len(s) : s[i] = t[i]
NoFault == MaxSent + 1

Init == /\ nsent = 0 /\ wnonce = 0 /\ wire = <<>> /\ closed = FALSE
        /\ qlive = FALSE /\ qbuf = <<>> /\ qseek = 0 /\ rnonce = 0 /\ broken = FALSE
        /\ delivered = <<>> /\ rdErr = FALSE /\ under = 0 /\ nfault = 0 /\ errPos = NoFault /\ stopPos = NoFault
        /\ rg = "none" /\ wg = FALSE /\ wr = FALSE /\ loose = FALSE /\ nglitch = 0 /\ wdead = FALSE
        /\ op = [name |-> "init"]

----------------------------------------------------------------------------
(* Writer *)

NFrames(k) == (k + MaxPT - 1) \div MaxPT
\* j-th frame of a Write of k units that starts after unit `base` with nonce `n0`
Frame(base, n0, k, j) ==
  LET lo == base + (j - 1) * MaxPT + 1
      hi == base + Min(j * MaxPT, k)
  IN [n |-> n0 + j - 1, pt |-> [i \in 1..(hi - lo + 1) |-> lo + i - 1], st |-> "ok"]

Write(k) ==
  /\ ~closed /\ ~wdead
  /\ nsent + k <= MaxSent
  /\ IF wr
       THEN \* the first frame is refused whole by the connection: Write returns (0, error), the nonce is spent
            /\ wire' = wire /\ wnonce' = wnonce + 1 /\ nsent' = nsent
            /\ wr' = FALSE /\ UNCHANGED <<wg, wdead>>
            /\ nfault' = nfault + 1 /\ errPos' = Min(errPos, nsent) /\ stopPos' = Min(stopPos, nsent)
            /\ op' = [name |-> "write", k |-> k, n |-> 0, short |-> FALSE, refused |-> TRUE, frames |-> <<>>]
       ELSE IF wg
       THEN \* the first frame is cut short by the connection: Write returns (0, error)
            LET f == [Frame(nsent, wnonce, k, 1) EXCEPT !.st = "cut"] IN
            /\ wire' = Append(wire, f)
            /\ wnonce' = wnonce + 1 /\ nsent' = nsent
            /\ wg' = FALSE /\ wdead' = TRUE /\ wr' = wr
            /\ nfault' = nfault + 1 /\ errPos' = Min(errPos, nsent) /\ stopPos' = Min(stopPos, nsent)
            /\ op' = [name |-> "write", k |-> k, n |-> 0, short |-> TRUE, refused |-> FALSE, frames |-> <<Len(f.pt)>>]
       ELSE LET fs == [j \in 1..NFrames(k) |-> Frame(nsent, wnonce, k, j)] IN
            /\ wire' = wire \o fs
            /\ wnonce' = wnonce + NFrames(k)
            /\ nsent' = nsent + k
            /\ op' = [name |-> "write", k |-> k, n |-> k, short |-> FALSE, refused |-> FALSE,
                      frames |-> [j \in 1..NFrames(k) |-> Len(fs[j].pt)]]
            /\ UNCHANGED <<wg, wr, wdead, nfault, errPos, stopPos>>
  /\ UNCHANGED <<closed, qlive, qbuf, qseek, rnonce, broken, delivered, rdErr, under, rg, loose, nglitch>>

----------------------------------------------------------------------------
(* Reader *)

\* relation of the buffer to the queued remainder / to the frame, the classes the scale map uses
RelQ(b, rem) == IF b = 0 THEN "zero" ELSE IF b < rem THEN "lt" ELSE IF b = rem THEN "eq" ELSE "gt"
RelF(b, pt)  == IF b = 0 THEN "zero" ELSE IF b < pt THEN "lt_pt" ELSE IF b = pt THEN "eq_pt"
                ELSE IF b < pt + Tag THEN "mid" ELSE IF b = pt + Tag THEN "eq_len" ELSE "gt_len"

ReadQueued(b) ==
  /\ qlive
  /\ LET rem == Len(qbuf) - qseek
         c == Min(b, rem)
     IN /\ delivered' = delivered \o SubSeq(qbuf, qseek + 1, qseek + c)
        /\ IF qseek + c = Len(qbuf)
             THEN qlive' = FALSE /\ qbuf' = <<>> /\ qseek' = 0      \* released
             ELSE qlive' = TRUE /\ qbuf' = qbuf /\ qseek' = qseek + c
        /\ op' = [name |-> "read", b |-> b, path |-> "queued", rel |-> RelQ(b, rem), n |-> c, err |-> FALSE,
                  frame |-> 0, glitch |-> "none", loose |-> loose]
  /\ UNCHANGED <<nsent, wnonce, wire, closed, rnonce, broken, rdErr, under, nfault, errPos, stopPos, rg, wg, wr, loose, nglitch, wdead>>

Opens(f) == f.st = "ok" /\ f.n = rnonce /\ ~broken

\* a frame is taken off the wire
ReadFrame(b) ==
  /\ ~qlive
  /\ wire # <<>>
  /\ LET f == Head(wire)
         pt == Len(f.pt)
         inplace == b >= pt + Tag          \* len(buf) >= nextMsgLen
         good == Opens(f)
         desync == f.st \in {"fliplen", "cut", "cuteof"}
         c == Min(b, pt)
     IN /\ wire' = Tail(wire)
        /\ broken' = (broken \/ desync)
        /\ IF good
             THEN /\ rnonce' = rnonce + 1
                  /\ rdErr' = rdErr
                  /\ IF inplace
                       THEN /\ delivered' = delivered \o f.pt
                            /\ UNCHANGED <<qlive, qbuf, qseek>>
                       ELSE /\ delivered' = delivered \o SubSeq(f.pt, 1, c)
                            /\ qlive' = TRUE /\ qbuf' = f.pt /\ qseek' = c   \* not released even when c = pt
             ELSE /\ rdErr' = TRUE
                  /\ UNCHANGED <<rnonce, delivered, qlive, qbuf, qseek>>
        /\ op' = [name |-> "read", b |-> b,
                  path |-> IF inplace THEN "inplace" ELSE "pooled",
                  rel |-> RelF(b, pt),
                  n |-> IF ~good THEN 0 ELSE IF inplace THEN pt ELSE c,
                  err |-> ~good, frame |-> pt, glitch |-> rg, loose |-> (loose \/ rg # "none")]
  /\ rg' = "none" /\ loose' = (loose \/ rg # "none")        \* an armed glitch hits the read of the wire
  /\ UNCHANGED <<nsent, wnonce, closed, under, nfault, errPos, stopPos, wg, wr, nglitch, wdead>>

\* nothing in flight and the wire has ended, or framing is lost and the wire ran dry: error, nothing delivered
ReadEnd(b) ==
  /\ ~qlive /\ wire = <<>> /\ (closed \/ broken)
  /\ rdErr' = TRUE
  /\ op' = [name |-> "read", b |-> b, path |-> "end", rel |-> "any", n |-> 0, err |-> TRUE, frame |-> 0,
            glitch |-> "none", loose |-> loose]
  /\ UNCHANGED <<nsent, wnonce, wire, closed, qlive, qbuf, qseek, rnonce, broken, delivered, under, nfault, errPos, stopPos, rg, wg, wr, loose, nglitch, wdead>>

Read(b) == ReadQueued(b) \/ ReadFrame(b) \/ ReadEnd(b)

Short(k) ==
  /\ k # under
  /\ under' = k
  /\ op' = [name |-> "short", k |-> k]
  /\ UNCHANGED <<nsent, wnonce, wire, closed, qlive, qbuf, qseek, rnonce, broken, delivered, rdErr, nfault, errPos, stopPos, rg, wg, wr, loose, nglitch, wdead>>

----------------------------------------------------------------------------
(* Wire faults, on a frame still in flight *)

Before(i) == wire[i].pt[1] - 1                      \* units that precede frame i
Upto(i) == wire[i].pt[Len(wire[i].pt)]              \* ... up to and including frame i
Mark(i, st) == [wire EXCEPT ![i].st = st]
Remove(i) == SubSeq(wire, 1, i - 1) \o SubSeq(wire, i + 1, Len(wire))

Fault(kind, i) ==
  /\ kind \in Faults
  /\ nfault < MaxFaults /\ nglitch = 0
  /\ ~closed
  /\ i \in 1..Len(wire)
  /\ wire[i].st = "ok"
  /\ \/ kind \in {"flip", "fliplen", "cut"} /\ wire' = Mark(i, kind) /\ closed' = closed
        /\ errPos' = Min(errPos, Before(i))
     \/ kind = "drop" /\ wire' = Remove(i) /\ closed' = closed /\ errPos' = Min(errPos, Before(i))
     \/ kind = "dup" /\ wire' = SubSeq(wire, 1, i) \o <<wire[i]>> \o SubSeq(wire, i + 1, Len(wire))
        /\ closed' = closed /\ errPos' = Min(errPos, Upto(i))
     \/ kind = "swap" /\ i < Len(wire) /\ wire[i + 1].st = "ok"
        /\ wire' = [wire EXCEPT ![i] = wire[i + 1], ![i + 1] = wire[i]]
        /\ closed' = closed /\ errPos' = Min(errPos, Before(i))
     \/ kind = "cuteof" /\ wire' = SubSeq(Mark(i, "cuteof"), 1, i) /\ closed' = TRUE
        /\ errPos' = Min(errPos, Before(i))
     \/ kind = "trunc" /\ wire' = SubSeq(wire, 1, i - 1) /\ closed' = TRUE
        /\ errPos' = Min(errPos, Before(i))
  /\ stopPos' = IF kind \in {"dup", "swap"} THEN stopPos ELSE Min(stopPos, Before(i))
  /\ nfault' = nfault + 1
  /\ op' = [name |-> "fault", kind |-> kind, i |-> i, of |-> Len(wire)]
  /\ UNCHANGED <<nsent, wnonce, qlive, qbuf, qseek, rnonce, broken, delivered, rdErr, under, rg, wg, wr, loose, nglitch, wdead>>

\* a Write somewhere else in the process, between two calls of this direction
Other(who, k) ==
  /\ who \in Others
  /\ under = 0          \* (the short-read regime is irrelevant to it: one regime keeps the graph small)
  /\ op' = [name |-> "other", who |-> who, k |-> k]
  /\ UNCHANGED View

Glitch(kind) ==
  /\ kind \in Glitches /\ nglitch = 0 /\ nfault = 0 /\ ~closed /\ ~rdErr
  /\ \/ kind \in {"dataerr", "temperr"} /\ rg' = kind /\ wg' = wg /\ wr' = wr
     \/ kind = "shortwrite" /\ wg' = TRUE /\ rg' = rg /\ wr' = wr
     \/ kind = "refusewrite" /\ wr' = TRUE /\ rg' = rg /\ wg' = wg
  /\ nglitch' = 1
  /\ op' = [name |-> "glitch", kind |-> kind]
  /\ UNCHANGED <<nsent, wnonce, wire, closed, qlive, qbuf, qseek, rnonce, broken, delivered, rdErr, under,
                 nfault, errPos, stopPos, loose, wdead>>

Next == \/ \E k \in 1..MaxWrite : Write(k)
        \/ \E who \in Others, k \in {1, MaxPT} : Other(who, k)
        \/ \E kind \in Glitches : Glitch(kind)
        \/ \E b \in Bufs : Read(b)
        \/ \E k \in Shorts : Short(k)
        \/ \E kind \in Faults, i \in 1..Len(wire) : Fault(kind, i)

Spec == Init /\ [][Next]_vars

----------------------------------------------------------------------------
(* Properties *)

TypeOK == /\ nsent \in 0..MaxSent /\ wnonce \in 0..(MaxSent + 1) /\ rnonce \in 0..MaxSent
          /\ qseek \in 0..MaxPT /\ Len(qbuf) <= MaxPT /\ (~qlive => qbuf = <<>> /\ qseek = 0)
          /\ qseek <= Len(qbuf) /\ under \in Shorts \cup {0}
          /\ \A i \in 1..Len(wire) : Len(wire[i].pt) \in 1..MaxPT

\* never a unit the writer did not send at that position: no loss, duplication, reordering or alteration
Prefix == IsPrefix(delivered, Sent)

\* fault-free: no error, and once everything in flight has been read, everything sent has been delivered
Complete == nfault = 0 => /\ ~rdErr
                          /\ (wire = <<>> /\ ~qlive) => delivered = Sent

\* what the reader holds plus what is in flight is exactly the undelivered rest (fault-free)
Conservation ==
  nfault = 0 =>
    LET rest == SubSeq(qbuf, qseek + 1, Len(qbuf))
        RECURSIVE Flat(_)
        Flat(w) == IF w = <<>> THEN <<>> ELSE Head(w).pt \o Flat(Tail(w))
    IN delivered \o rest \o Flat(wire) = Sent

\* nonce discipline: the reader never is ahead of the writer, frames in flight carry the writer's nonces
Nonces == rnonce <= wnonce /\ \A i \in 1..Len(wire) : wire[i].n < wnonce

\* authenticated channel: nothing beyond the first fault is delivered unless an error was returned first
ErrNoLater == Len(delivered) > errPos => rdErr

\* with a fault that is not a duplicate/swap the reader never gets past it at all (single-fault instances:
\* a second fault can undo the first, e.g. dup then flip of the first copy)
NeverPast == MaxFaults = 1 => Len(delivered) <= stopPos

\* a Read that returns an error delivers nothing
ErrDeliversNothing == [][(op'.name = "read" /\ op'.err) => delivered' = delivered]_vars
\* a Read never returns more than the buffer, and what it reports is what it delivered
ReadCount == [][op'.name = "read" => /\ op'.n <= op'.b
                                      /\ Len(delivered') = Len(delivered) + op'.n]_vars
\* the three paths are selected as in the code
PathGuard == [][op'.name = "read" /\ op'.path \in {"queued", "inplace", "pooled"} =>
                  /\ (op'.path = "queued") = qlive
                  /\ (op'.path = "inplace") = (~qlive /\ op'.b >= op'.frame + Tag)]_vars

\* vacuity guards (each is expected to be violated)
ReachQuirk == ~(qlive /\ qseek = Len(qbuf))                  \* queue kept although fully consumed
ReachQueuedPartial == ~(qlive /\ qseek > 0 /\ qseek < Len(qbuf))
ReachErr == ~rdErr
ReachContinue == ~(rdErr /\ Len(delivered) > errPos)         \* delivery continues after a dup/swap error
ReachThreeFrames == Len(wire) < 3
=============================================================================
