------------------------------ MODULE C05_Backoff ------------------------------
(***************************************************************************)
(* Extension engine of property C05 (dialing): the dial BACK-OFF of the    *)
(* swarm.  p2p/net/swarm/swarm_dial.go, type DialBackoff:                  *)
(*   entries map[peer]map[addr]*backoffAddr{tries, until}                  *)
(*   Backoff(p, a)     found && time.Now().Before(until)                   *)
(*   AddBackoff(p, a)  no entry: {1, now+Base} (not capped);               *)
(*                     entry:    until = now + min(Base+Coef*tries^2, Max),*)
(*                               tries++                                   *)
(*   Clear(p)          delete(entries, p)                                  *)
(*   background(ctx)   ticker of period BackoffMax -> cleanup(): a peer    *)
(*                     none of whose entries is "good"                     *)
(*                     (now < until + min(Base+Coef*tries^2, Max)) is      *)
(*                     deleted as a whole                                  *)
(* and its use by the dial machinery:                                      *)
(*   dialNextAddr      refuses with ErrDialBackoff iff Backoff(p, a) and   *)
(*                     the request is not force-direct                     *)
(*   dialWorker.loop   a failed dial adds back-off unless the worker has   *)
(*                     obtained a connection or the error is a             *)
(*                     cancellation; dispatchError deletes the tracked     *)
(*                     entry of a refused address so that it can be        *)
(*                     retried by a later request of the same worker       *)
(*   Swarm.addConn     Clear(p)                                            *)
(*                                                                         *)
(* One action per public call / critical section (every method holds       *)
(* db.lock for its whole body).  Time is an integer number of ticks; the   *)
(* cleanup ticker fires when `now` reaches a multiple of Max (the ticker   *)
(* period IS BackoffMax) and the cleanup goroutine may run late (`due`).   *)
(*                                                                         *)
(* What "in back-off" means for the C05 statement ("every address that is  *)
(* neither filtered out nor in back-off is attempted", "error once every   *)
(* candidate address has failed or been refused") is fixed here:           *)
(* In(p, a) == an entry exists and now < until, where until is the instant *)
(* of the last recorded failure plus the duration of the schedule.         *)
(***************************************************************************)
EXTENDS C05_BackoffSched, FiniteSets, TLC

CONSTANTS Peers, Addrs,
          Base, Coef, Max,     \* BackoffBase, BackoffCoef, BackoffMax in ticks
          MaxTries, MaxTime,   \* bounds of the instance
          WithApi,             \* AddBackoff / Clear called directly (public methods of Swarm.Backoff())
          WithQuery,           \* explicit Backoff() query transitions
          WithDial             \* the dial worker's use of the object

ASSUME Base >= 1 /\ Coef >= 0 /\ Base <= Max

VARIABLES now,      \* virtual time in ticks
          ent,      \* [Peers -> [Addrs -> [tries, until]]], tries = 0: no entry
          due,      \* the ticker has fired and cleanup() has not run yet
          trk,      \* dial worker of p: trackedDials[a] in {none, flight, err, ok}
          wconn,    \* dial worker of p: w.connected
          lastAdd,  \* ghost: instant of the last AddBackoff(p, a) not followed by Clear(p); -1 = none
          op        \* output only: the action, its arguments, its expected observable results

vars == <<now, ent, due, trk, wconn, lastAdd, op>>
View == <<now, ent, due, trk, wconn, lastAdd>>

Dur(k) == BoDur(k, Base, Coef, Max)
In(p, a) == BoIn(ent[p][a], now)
NoEntries == [a \in Addrs |-> NoEntry]
HasEntries(p) == \E a \in Addrs : ent[p][a].tries > 0

Init == /\ now = 0 /\ due = FALSE
        /\ ent = [p \in Peers |-> NoEntries]
        /\ trk = [p \in Peers |-> [a \in Addrs |-> "none"]]
        /\ wconn = [p \in Peers |-> FALSE]
        /\ lastAdd = [p \in Peers |-> [a \in Addrs |-> -1]]
        /\ op = [name |-> "init"]

(* ---- the object ---- *)
AddBackoff(p, a) == /\ ent[p][a].tries < MaxTries
                    /\ ent' = [ent EXCEPT ![p][a] = BoAfterFail(@, now, Base, Coef, Max)]
                    /\ lastAdd' = [lastAdd EXCEPT ![p][a] = now]
ClearPeer(p) == /\ ent' = [ent EXCEPT ![p] = NoEntries]
                /\ lastAdd' = [lastAdd EXCEPT ![p] = [a \in Addrs |-> -1]]
Cleaned == [p \in Peers |-> IF \E a \in Addrs : BoGood(ent[p][a], now, Base, Coef, Max) THEN ent[p] ELSE NoEntries]

ApiAdd(p, a) == /\ WithApi /\ AddBackoff(p, a)
                /\ op' = [name |-> "add", p |-> p, a |-> a, dur |-> Dur(ent[p][a].tries)]
                /\ UNCHANGED <<now, due, trk, wconn>>
ApiClear(p) == /\ WithApi /\ ClearPeer(p)
               /\ op' = [name |-> "clear", p |-> p]
               /\ UNCHANGED <<now, due, trk, wconn>>
Query(p, a) == /\ WithQuery
               /\ op' = [name |-> "query", p |-> p, a |-> a, res |-> In(p, a)]
               /\ UNCHANGED <<now, ent, due, trk, wconn, lastAdd>>

\* `before`: the answers one instant (1 ns) before the new tick is reached
Tick == /\ now < MaxTime
        /\ now' = now + 1
        /\ due' = (due \/ (now + 1) % Max = 0)
        /\ op' = [name |-> "tick",
                  before |-> [p \in Peers |-> [a \in Addrs |-> ent[p][a].tries > 0 /\ now + 1 <= ent[p][a].until]]]
        /\ UNCHANGED <<ent, trk, wconn, lastAdd>>

Cleanup == /\ due /\ due' = FALSE
           /\ ent' = Cleaned
           /\ op' = [name |-> "cleanup", removed |-> {p \in Peers : HasEntries(p) /\ Cleaned[p] = NoEntries},
                     kept |-> {p \in Peers : HasEntries(p) /\ Cleaned[p] # NoEntries}]
           /\ UNCHANGED <<now, trk, wconn, lastAdd>>

(* ---- its use by the dial worker of peer p ---- *)
DialNext(p, a, force) ==
  /\ WithDial /\ trk[p][a] = "none"          \* an address is handed on at most once per worker ... unless it was refused
  /\ LET refused == ~force /\ In(p, a) IN
     /\ trk' = IF refused THEN trk ELSE [trk EXCEPT ![p][a] = "flight"]   \* refused: the tracked entry is deleted again
     /\ op' = [name |-> "dialnext", p |-> p, a |-> a, force |-> force, res |-> IF refused THEN "backoff" ELSE "started"]
  /\ UNCHANGED <<now, ent, due, wconn, lastAdd>>

DialEnd(p, a, out) ==
  /\ WithDial /\ trk[p][a] = "flight"
  /\ CASE out = "ok" -> /\ ClearPeer(p)                                  \* addConn
                        /\ wconn' = [wconn EXCEPT ![p] = TRUE]
                        /\ trk' = [trk EXCEPT ![p][a] = "ok"]
       [] out = "fail" -> /\ IF wconn[p] THEN UNCHANGED <<ent, lastAdd>> ELSE AddBackoff(p, a)
                          /\ trk' = [trk EXCEPT ![p][a] = "err"]
                          /\ UNCHANGED wconn
       [] out = "cancel" -> /\ trk' = [trk EXCEPT ![p][a] = "err"]
                            /\ UNCHANGED <<ent, lastAdd, wconn>>
  /\ op' = [name |-> "dialend", p |-> p, a |-> a, out |-> out]
  /\ UNCHANGED <<now, due>>

\* every caller has returned: the worker exits (results of dials still in flight are dropped), the next request
\* starts a new worker
NewGen(p) == /\ WithDial /\ (wconn[p] \/ \E a \in Addrs : trk[p][a] # "none")
             /\ trk' = [trk EXCEPT ![p] = [a \in Addrs |-> "none"]]
             /\ wconn' = [wconn EXCEPT ![p] = FALSE]
             /\ op' = [name |-> "newgen", p |-> p]
             /\ UNCHANGED <<now, ent, due, lastAdd>>

Next == \/ \E p \in Peers, a \in Addrs : \/ ApiAdd(p, a) \/ Query(p, a)
                                          \/ \E f \in BOOLEAN : DialNext(p, a, f)
                                          \/ \E o \in {"ok", "fail", "cancel"} : DialEnd(p, a, o)
        \/ \E p \in Peers : ApiClear(p) \/ NewGen(p)
        \/ Tick \/ Cleanup

Spec == Init /\ [][Next]_vars

(* ---- properties ---- *)
TypeOK == /\ now \in 0..MaxTime /\ due \in BOOLEAN
          /\ \A p \in Peers, a \in Addrs : /\ ent[p][a].tries \in 0..MaxTries
                                           /\ ent[p][a].until \in 0..(MaxTime + Max)
                                           /\ trk[p][a] \in {"none", "flight", "err", "ok"}
                                           /\ lastAdd[p][a] \in -1..MaxTime
          /\ wconn \in [Peers -> BOOLEAN]

\* an entry is the image of the last recorded failure: until = that instant + the schedule's duration for the number
\* of failures remembered before it, never more than Max after it (the cap) and never less than Base
EntryShape == \A p \in Peers, a \in Addrs : ent[p][a].tries > 0 =>
                 /\ lastAdd[p][a] >= 0 /\ lastAdd[p][a] <= now
                 /\ ent[p][a].until = lastAdd[p][a] + Dur(ent[p][a].tries - 1)
                 /\ ent[p][a].until - lastAdd[p][a] <= Max
                 /\ ent[p][a].until - lastAdd[p][a] >= Base

\* an address is in back-off (refused) only while now < until, i.e. only within Max of a recorded failure of that very
\* (peer, address) that no success of the peer has followed
Justified == \A p \in Peers, a \in Addrs : In(p, a) => /\ lastAdd[p][a] >= 0
                                                      /\ now - lastAdd[p][a] < Max
                                                      /\ now < ent[p][a].until

\* conversely a recorded failure protects the address for at least Base, whatever cleanup does in between
Protected == \A p \in Peers, a \in Addrs : (lastAdd[p][a] >= 0 /\ now < lastAdd[p][a] + Base) => In(p, a)

\* memory is bounded: once cleanup has run for the last ticker instant, a peer that still has entries has one that was
\* good at that instant; hence every entry of a peer is gone at the first cleanup after all of them have been expired
\* for their next duration (at most 2*Max + period after the last failure)
LastTick == now - (now % Max)
MemoryBounded == ~due => \A p \in Peers : HasEntries(p) => \E a \in Addrs : BoGood(ent[p][a], LastTick, Base, Coef, Max)

\* the schedule, as a property of every step that writes an entry
Schedule == [][\A p \in Peers, a \in Addrs : (ent'[p][a] # ent[p][a] /\ ent'[p][a].tries > 0) =>
                 /\ ent'[p][a].tries = ent[p][a].tries + 1
                 /\ ent'[p][a].until - now = Dur(ent[p][a].tries)
                 /\ ent'[p][a].until - now >= Base /\ ent'[p][a].until - now <= Max
                 /\ (ent[p][a].tries > 0 => ent'[p][a].until - now >= ent[p][a].until - lastAdd[p][a])]_vars

SuccessClears == [][(op'.name = "dialend" /\ op'.out = "ok") => ent'[op'.p] = NoEntries]_vars
ForceIgnores == [][(op'.name = "dialnext" /\ op'.force) => op'.res = "started"]_vars
RefusedIff == [][op'.name = "dialnext" => ((op'.res = "backoff") <=> (~op'.force /\ BoIn(ent[op'.p][op'.a], now)))]_vars
RetryAfterRefusal == [][(op'.name = "dialnext" /\ op'.res = "backoff") => trk'[op'.p][op'.a] = "none"]_vars
NoAddWhenConnectedOrCancelled ==
  [][(op'.name = "dialend" /\ (op'.out = "cancel" \/ (op'.out = "fail" /\ wconn[op'.p]))) => ent' = ent]_vars

\* the entries of a peer are written only by operations on that very peer (or removed by cleanup)
PeerIsolation == [][\A q \in Peers : ent'[q] # ent[q] =>
                      \/ op'.name = "cleanup"
                      \/ (op'.name \in {"add", "clear", "dialend"} /\ op'.p = q)]_vars

\* a Backoff() answer changes only by expiry, by a recorded failure of that very (peer, address), or by Clear / a
\* success of that very peer: never by cleanup, by a query, by a refusal, or by anything done to another peer or address
AnswerChange == [][\A q \in Peers, b \in Addrs : (BoIn(ent'[q][b], now') # BoIn(ent[q][b], now)) =>
                     \/ (op'.name = "tick" /\ BoIn(ent[q][b], now))
                     \/ (op'.name = "add" /\ op'.p = q /\ op'.a = b)
                     \/ (op'.name = "dialend" /\ op'.out = "fail" /\ op'.p = q /\ op'.a = b)
                     \/ (op'.name = "clear" /\ op'.p = q)
                     \/ (op'.name = "dialend" /\ op'.out = "ok" /\ op'.p = q)]_vars

\* Code quirk kept as it is: cleanup works at peer granularity, so a long-expired entry of one address (and its `tries`)
\* survives as long as another address of the same peer keeps failing; the next failure of the first address then starts
\* from the remembered `tries`, not from Base.  Only the length of a future back-off is affected, never an answer.

\* vacuity guards (expected to be violated)
ReachCapped == ~\E p \in Peers, a \in Addrs : ent[p][a].tries > 1 /\ Base + Coef * (ent[p][a].tries - 1) * (ent[p][a].tries - 1) > Max
ReachRefused == ~(op.name = "dialnext" /\ op.res = "backoff")
=============================================================================
