\* Template: checks/C08.py selects the part (INIT/NEXT/INVARIANTS lines) and the constants.
CONSTANTS
  Keys = {"kH", "kV", "kA"}
  AttKeys = {"kA"}
  Fams = {"peer", "rsvp", "test"}
  PrimaryFams = {"peer", "rsvp", "test"}
  Bodies = {1, 2}
  MaxEdits = 2
  Variant = "code"
  Alphabet = {1, 2}
  MaxLen = 3
  WalkLen = 2
  KeyTypes = {"Ed25519", "Secp256k1", "ECDSA", "RSA"}
  Who = {1, 2}
  Msgs = {"m1", "m2"}
INIT InitA
NEXT NextA
VIEW View
INVARIANTS TypeOKA BindingA HonestA RoundTripA
