------------------------------ MODULE C17am_MC ------------------------------
EXTENDS C17am_AddrsManager, Json
\* JSON-able projection of the state for the replay (the justification ghost cur.src is left out)
NextRead == IF pc = "upd" /\ k <= Len(Plan(ls)) THEN Plan(ls)[k] ELSE [kind |-> "-", key |-> "-"]
St == [listen |-> listen, nat |-> [l \in NatKeys |-> nat[l]], obs |-> [x \in ObsKeys |-> ObsSeq(x)], fmode |-> fmode,
       relayQ |-> relayQ, reachQ |-> reachQ, notify |-> notify, nwait |-> NotifyWaiting, tickReady |-> tickReady, reachTrig |-> reachTrig,
       pc |-> pc, startWait |-> startWait, closeCalled |-> closeCalled, closeWait |-> closeWait,
       hostReach |-> hostReach, relayLoop |-> relayLoop,
       local |-> cur.local, r |-> cur.r, u |-> cur.u, k |-> cur.k, crelay |-> cur.relay, caddrs |-> cur.addrs,
       ls |-> ls, rk |-> k, acc |-> AccAddrs(acc), next |-> NextRead, trig |-> trig,
       trkR |-> trkR, trkU |-> trkU, trkK |-> trkK, probeDue |-> probeDue,
       addrsOut |-> AddrsNow, hp |-> HPNow, ps |-> Published(cur.addrs),
       nenv |-> nenv, ntime |-> ntime, nhour |-> nhour, nnotify |-> nnotify, dirty |-> dirty]
ViewPrint == <<inputs, chans, life, hostReach, relayLoop, [cur EXCEPT !.src = {}], ls, k, AccAddrs(acc), trig, trk, cnt, dirty>>
EmitEdge == PrintT(<<"VFEDGE", ToJson([s |-> St, op |-> op', t |-> St'])>>)
EmitPrio == Prio /\ EmitEdge
MCInit == Init /\ PrintT(<<"VFINIT", ToJson(St)>>)
=============================================================================
