-------------------------- MODULE C16_RateLimiter --------------------------
(***************************************************************************)
(* Part (a) of C16: the sliding-window rate limiter of the AutoNAT v2      *)
(* server (p2p/protocol/autonatv2/server.go, type rateLimiter).            *)
(*                                                                         *)
(* One action per public method = one critical section (every method holds *)
(* r.mu for its whole body): Accept(p), AcceptDialDataRequest,             *)
(* CompleteRequest(p); Tick advances the injectable clock `now`.           *)
(*                                                                         *)
(* Time.  The code only ever compares `now - t` with one minute, so the    *)
(* model stores the AGE of every time stamp in ticks (W ticks = 60 s) and  *)
(* is invariant under time translation: no bound on absolute time is       *)
(* needed.  Ages of implementation entries are capped at W (the code treats*)
(* every age >= W alike: the entry is dropped by the next cleanup).        *)
(*                                                                         *)
(* Window boundary, as coded: cleanup drops an entry when now-t >= 1 min,  *)
(* i.e. an accept granted at t counts for callers at times in [t, t+60s).  *)
(* The statement's bound is therefore stated for half-open windows         *)
(* (now-60s, now]; the closed window [now-60s, now] can hold 2*RPM accepts *)
(* (ClosedWindowGlobal below is expected to FAIL; the driver uses it as a  *)
(* guard that the boundary case is really explored).                       *)
(*                                                                         *)
(* The bounds are stated over a GHOST LOG of the accepts that were granted *)
(* (gAcc, gDD, gServing), fed only from the results of the calls, never    *)
(* over the implementation's own lists.                                    *)
(***************************************************************************)
EXTENDS Naturals, Sequences, FiniteSets, TLC

CONSTANTS Peers,        \* set of peer names (strings)
          RPM,          \* global limit per window
          PerPeerRPM,   \* per-peer limit per window
          DialDataRPM,  \* limit of dial-data requests per window
          MaxConc,      \* MaxConcurrentRequestsPerPeer
          W,            \* window length in ticks (60 s)
          DoubleRelease \* FALSE = the code's discipline: CompleteRequest once per granted request.
                        \* TRUE  = mutation variant (an exit path releases the slot a second time): the
                        \*         driver requires TLC to find ConcurrentCap violated with it.

VARIABLES reqs,      \* Seq([p : Peers, a : 0..W])   r.reqs, oldest first; a = age in ticks, capped at W
          peerReqs,  \* [Peers -> Seq(0..W)]         r.peerReqs (absent key == empty sequence)
          ddReqs,    \* Seq(0..W)                    r.dialDataReqs
          inProg,    \* [Peers -> Nat]               r.inProgressReqs (absent key == 0)
          gAcc,      \* ghost: [Peers -> [0..W -> Nat]]  granted Accept(p) calls by age (ages > W are forgotten)
          gDD,       \* ghost: [0..W -> Nat]             granted AcceptDialDataRequest calls by age
          gServing,  \* ghost: [Peers -> Nat]            granted and not yet completed
          op         \* output only

vars == <<reqs, peerReqs, ddReqs, inProg, gAcc, gDD, gServing, op>>
View == <<reqs, peerReqs, ddReqs, inProg, gAcc, gDD, gServing>>
ViewNoGhost == <<reqs, peerReqs, ddReqs, inProg>>

Ages == 0..W
Stale(a) == a >= W                    \* code: now.Sub(t) >= time.Minute

RECURSIVE SumF(_, _)
SumF(f, S) == IF S = {} THEN 0 ELSE LET x == CHOOSE y \in S : TRUE IN f[x] + SumF(f, S \ {x})

Min(S) == CHOOSE x \in S : \A y \in S : x <= y

\* length of the leading run of stale entries (ages) of a sequence of ages
StaleRun(ages) == LET fresh == {i \in 1..Len(ages) : ~Stale(ages[i])}
                  IN IF fresh = {} THEN Len(ages) ELSE Min(fresh) - 1
DropRun(s, n) == SubSeq(s, n + 1, Len(s))
AgesOf(rs) == [i \in 1..Len(rs) |-> rs[i].a]

(* rateLimiter.cleanup(now), transcribed: the leading stale run of r.reqs is cut; for every entry  *)
(* of that run the peer's own list loses its leading stale run; r.dialDataReqs likewise.           *)
CleanReqs(rs) == DropRun(rs, StaleRun(AgesOf(rs)))
ExpiredPeers(rs) == {rs[i].p : i \in 1..StaleRun(AgesOf(rs))}
CleanPeers(prs, rs) == [p \in Peers |-> IF p \in ExpiredPeers(rs) THEN DropRun(prs[p], StaleRun(prs[p])) ELSE prs[p]]
CleanDD(ds) == DropRun(ds, StaleRun(ds))

Init == /\ reqs = <<>>
        /\ peerReqs = [p \in Peers |-> <<>>]
        /\ ddReqs = <<>>
        /\ inProg = [p \in Peers |-> 0]
        /\ gAcc = [p \in Peers |-> [a \in Ages |-> 0]]
        /\ gDD = [a \in Ages |-> 0]
        /\ gServing = [p \in Peers |-> 0]
        /\ op = [name |-> "init"]

(* Accept(p): cleanup; refuse if the peer is at its concurrency cap, or the global or the peer     *)
(* list is full; otherwise count the request in all three places.                                  *)
AcceptWhy(p, rs, prs) == IF inProg[p] >= MaxConc THEN "conc"
                         ELSE IF Len(rs) >= RPM THEN "global"
                         ELSE IF Len(prs[p]) >= PerPeerRPM THEN "peer"
                         ELSE "ok"
Accept(p) ==
  LET rs == CleanReqs(reqs)
      prs == CleanPeers(peerReqs, reqs)
      why == AcceptWhy(p, rs, prs)
      ok == why = "ok"
  IN /\ reqs' = IF ok THEN Append(rs, [p |-> p, a |-> 0]) ELSE rs
     /\ peerReqs' = IF ok THEN [prs EXCEPT ![p] = Append(@, 0)] ELSE prs
     /\ ddReqs' = CleanDD(ddReqs)
     /\ inProg' = IF ok THEN [inProg EXCEPT ![p] = @ + 1] ELSE inProg
     /\ gAcc' = IF ok THEN [gAcc EXCEPT ![p][0] = @ + 1] ELSE gAcc
     /\ gServing' = IF ok THEN [gServing EXCEPT ![p] = @ + 1] ELSE gServing
     /\ UNCHANGED gDD
     /\ op' = [name |-> "accept", p |-> p, ok |-> ok, why |-> why]

AcceptDD ==
  LET ds == CleanDD(ddReqs)
      ok == Len(ds) < DialDataRPM
  IN /\ reqs' = CleanReqs(reqs)
     /\ peerReqs' = CleanPeers(peerReqs, reqs)
     /\ ddReqs' = IF ok THEN Append(ds, 0) ELSE ds
     /\ gDD' = IF ok THEN [gDD EXCEPT ![0] = @ + 1] ELSE gDD
     /\ UNCHANGED <<inProg, gAcc, gServing>>
     /\ op' = [name |-> "acceptdd", ok |-> ok, why |-> IF ok THEN "ok" ELSE "dd"]

(* CompleteRequest(p).  The server calls it exactly once per granted Accept (deferred), so the      *)
(* environment offers it only while a granted request of p is outstanding.                          *)
Complete(p) ==
  /\ gServing[p] > 0
  /\ inProg' = [inProg EXCEPT ![p] = IF @ > 0 THEN @ - 1 ELSE 0]
  /\ gServing' = [gServing EXCEPT ![p] = @ - 1]
  /\ UNCHANGED <<reqs, peerReqs, ddReqs, gAcc, gDD>>
  /\ op' = [name |-> "complete", p |-> p]

(* A second CompleteRequest(p) for a request that was already completed (one exit path of the handler *)
(* releasing explicitly while the deferred release still runs).  Only in the mutation variant.        *)
SpuriousComplete(p) ==
  /\ DoubleRelease /\ inProg[p] > 0
  /\ inProg' = [inProg EXCEPT ![p] = @ - 1]
  /\ UNCHANGED <<reqs, peerReqs, ddReqs, gAcc, gDD, gServing>>
  /\ op' = [name |-> "complete2", p |-> p]

Older(a) == IF a >= W THEN W ELSE a + 1
ShiftG(f) == [a \in Ages |-> IF a = 0 THEN 0 ELSE f[a - 1]]   \* what was at age W is forgotten
Tick ==
  /\ reqs' = [i \in 1..Len(reqs) |-> [p |-> reqs[i].p, a |-> Older(reqs[i].a)]]
  /\ peerReqs' = [p \in Peers |-> [i \in 1..Len(peerReqs[p]) |-> Older(peerReqs[p][i])]]
  /\ ddReqs' = [i \in 1..Len(ddReqs) |-> Older(ddReqs[i])]
  /\ gAcc' = [p \in Peers |-> ShiftG(gAcc[p])]
  /\ gDD' = ShiftG(gDD)
  /\ UNCHANGED <<inProg, gServing>>
  /\ op' = [name |-> "tick"]

Next == \/ \E p \in Peers : Accept(p)
        \/ AcceptDD
        \/ \E p \in Peers : Complete(p)
        \/ \E p \in Peers : SpuriousComplete(p)
        \/ Tick

Spec == Init /\ [][Next]_vars

----------------------------------------------------------------------------
(* Properties.  InWin = ages inside the half-open window (now-60s, now].    *)
InWin == {a \in Ages : a < W}
PeerInWin(p) == SumF(gAcc[p], InWin)
GlobalInWin == SumF([p \in Peers |-> PeerInWin(p)], Peers)
DDInWin == SumF(gDD, InWin)

TypeOK == /\ Len(reqs) <= RPM /\ Len(ddReqs) <= DialDataRPM
          /\ \A p \in Peers : Len(peerReqs[p]) <= PerPeerRPM /\ inProg[p] \in 0..MaxConc

\* the statement: in every sliding one-minute window no more accepts than the limits
WindowGlobal == GlobalInWin <= RPM
WindowPeer == \A p \in Peers : PeerInWin(p) <= PerPeerRPM
WindowDialData == DDInWin <= DialDataRPM
\* never more than the configured number of concurrent requests of one peer
ConcurrentCap == \A p \in Peers : gServing[p] <= MaxConc

\* implementation bookkeeping agrees with the ghost log (internal consistency)
Fresh(ages) == Cardinality({i \in 1..Len(ages) : ~Stale(ages[i])})
Consistency == /\ \A p \in Peers : inProg[p] = gServing[p]
               /\ Fresh(AgesOf(reqs)) = GlobalInWin
               /\ \A p \in Peers : Fresh(peerReqs[p]) = PeerInWin(p)
               /\ Fresh(ddReqs) = DDInWin
               /\ \A p \in Peers : peerReqs[p] = AgesOf(SelectSeq(reqs, LAMBDA e : e.p = p))

\* no starvation by leakage: entries older than the window never count, i.e. a refusal is always
\* justified by the ghost log (the cap or a full window)
RefusalJustified ==
  [][/\ (op'.name = "accept" /\ ~op'.ok) =>
            \/ gServing[op'.p] >= MaxConc
            \/ GlobalInWin >= RPM
            \/ PeerInWin(op'.p) >= PerPeerRPM
     /\ (op'.name = "acceptdd" /\ ~op'.ok) => DDInWin >= DialDataRPM]_vars

\* Boundary adjudication guard: over CLOSED windows [now-60s, now] the bound does NOT hold (RPM accepts
\* at t and RPM more at exactly t+60s).  Expected to be violated.
ClosedWindowGlobal == SumF([p \in Peers |-> SumF(gAcc[p], Ages)], Peers) <= RPM
=============================================================================
