--------------------------- MODULE C18_CertManager ---------------------------
(***************************************************************************)
(* WebTransport certificate manager                                        *)
(* (p2p/transport/webtransport/cert_manager.go, certManager).              *)
(*                                                                         *)
(* Time is an integer number of ticks; K ticks = clockSkewAllowance (1 h). *)
(* A certificate is identified by its NotBefore instant s and is valid on  *)
(* [s, s+V]; V = certValidity.  Buckets have width W = V - 2*skew and are  *)
(* shifted by an offset derived from the host key.                         *)
(*                                                                         *)
(* One action per public event of a manager's life:                        *)
(*   Start(o, t)   newCertManager at instant t with a key of offset o      *)
(*   Advance(d)    the clock moves by d; the background goroutine performs *)
(*                 rollConfig at every timer instant passed (the mock      *)
(*                 clock stops at each timer, the goroutine re-arms it)    *)
(*   Restart(d)    Close, d ticks without a manager, newCertManager again  *)
(* `sh` is a ghost manager that is never restarted (the statement compares *)
(* a restarted manager with one that ran continuously); `hist` is a ghost  *)
(* log of the address components published so far.                         *)
(***************************************************************************)
EXTENDS Integers, FiniteSets, Sequences, TLC

CONSTANTS K,             \* ticks per clock-skew allowance
          VU,            \* certificate validity in skew units (code: 14 d / 1 h = 336)
          MaxLifeU,      \* the statement's bound on a validity period, in skew units (14 d = 336)
          Offsets,       \* key offsets in ticks: (uint16(pub[0:2]) minutes) % certValidity
          MaxT,          \* last instant explored
          Starts(_),     \* start instants offered for an offset
          Deltas(_, _),  \* Advance amounts offered at (offset, now)
          RDeltas(_, _), \* down-times offered to Restart at (offset, now)
          RestartForgetsLast  \* design variant (self-test only): a (re)started manager has lastConfig = nil, as
                              \* before /repo commit aa4b128; it MUST violate LearnedSurvivesRestart

V == VU * K
W == V - 2 * K          \* validityMinusTwoSkew
None == -1              \* lastConfig = nil

ASSUME K \in Nat \ {0} /\ VU \in Nat /\ VU >= 3

VARIABLES started, off, now,
          m,       \* the manager: [last, cur, next, timer, adv, addr]
          sh,      \* ghost: the manager that was started first and never restarted
          hist,    \* ghost: address components published, [per |-> period (= cur at publication), hs |-> addr]
          op       \* output only

vars == <<started, off, now, m, sh, hist, op>>
View == <<started, off, now, m, sh, hist>>
ViewNoGhost == <<started, off, now, m>>

\* Go's integer division truncates toward zero (getCurrentBucketStartTime uses int64 `/`)
TruncDiv(a, b) == IF a >= 0 THEN a \div b ELSE -((-a) \div b)

\* getCurrentBucketStartTime(now, offset)
BucketStart(t, o) == o + TruncDiv(t - o, W) * W

End(s) == s + V

\* cacheSerializedCertHashes / cacheAddrComponent
AdvOf(l, c, n) == (IF l = None THEN {} ELSE {l}) \cup {c, n}
AddrOf(c, n) == {c, n}

Mk(l, c, n) == [last |-> l, cur |-> c, next |-> n,
                timer |-> End(c) - K,           \* background(): currentConfig.End() - skew
                adv |-> AdvOf(l, c, n), addr |-> AddrOf(c, n)]

\* init(): the bucket containing now - skew is put into nextConfig, the bucket before it (re-derived: certificates
\* are deterministic) into currentConfig, and rollConfig is called once: last = previous bucket, cur = this
\* bucket, next = the following one.
InitMgr(o, t) == LET s0 == BucketStart(t - K, o)
                 IN Mk(IF RestartForgetsLast THEN None ELSE s0 - W, s0, End(s0) - 2 * K)

\* rollConfig() from the timer goroutine; the timer is re-armed at the new current End - skew
Roll(x) == Mk(x.cur, x.next, End(x.next) - 2 * K)

RECURSIVE Run(_, _)
Run(x, t) == IF x.timer <= t THEN Run(Roll(x), t) ELSE x

\* the timer instants at which a roll happens while the clock moves to t, and the managers after each
RECURSIVE Fires(_, _)
Fires(x, t) == IF x.timer <= t THEN <<x.timer>> \o Fires(Roll(x), t) ELSE <<>>
RECURSIVE Mids(_, _)
Mids(x, t) == IF x.timer <= t THEN {Roll(x)} \cup Mids(Roll(x), t) ELSE {}

Pub(x) == [per |-> x.cur, hs |-> x.addr]
\* the publications of the current and the previous period matter; one older period is kept to show that the
\* requirement ends (ReachLearnedExpired)
Prune(h, c) == {e \in h : e.per >= c - 2 * W}

Obs(x) == [nb |-> x.cur, na |-> End(x.cur), nextnb |-> x.next, adv |-> x.adv, addr |-> x.addr,
           haslast |-> x.last # None, lastnb |-> x.last]

Blank == [last |-> None, cur |-> 0, next |-> 0, timer |-> 0, adv |-> {}, addr |-> {}]

Init == /\ started = FALSE
        /\ off = 0
        /\ now = 0
        /\ m = Blank
        /\ sh = Blank
        /\ hist = {}
        /\ op = [name |-> "init"]

Start(o, t) ==
  /\ ~started
  /\ started' = TRUE
  /\ off' = o
  /\ now' = t
  /\ m' = InitMgr(o, t)
  /\ sh' = InitMgr(o, t)
  /\ hist' = {Pub(InitMgr(o, t))}
  /\ op' = [name |-> "start", off |-> o, t |-> t, exp |-> Obs(InitMgr(o, t))]

Advance(d) ==
  /\ started
  /\ now + d <= MaxT
  /\ now' = now + d
  /\ LET t == now + d
         x == Run(m, t)
     IN /\ m' = x
        /\ sh' = Run(sh, t)
        /\ hist' = Prune(hist \cup {Pub(y) : y \in Mids(m, t)}, x.cur)
        /\ op' = [name |-> "advance", d |-> d, fires |-> Fires(m, t), exp |-> Obs(x)]
  /\ UNCHANGED <<started, off>>

Restart(d) ==
  /\ started
  /\ now + d <= MaxT
  /\ now' = now + d
  /\ LET t == now + d
         x == InitMgr(off, t)
     IN /\ m' = x
        /\ sh' = Run(sh, t)
        /\ hist' = Prune(hist \cup {Pub(x)}, x.cur)
        /\ op' = [name |-> "restart", d |-> d, fires |-> Fires(sh, t), exp |-> Obs(x)]
  /\ UNCHANGED <<started, off>>

Next == \/ \E o \in Offsets : \E t \in Starts(o) : Start(o, t)
        \/ \E d \in Deltas(off, now) : Advance(d)
        \/ \E d \in RDeltas(off, now) : Restart(d)

Spec == Init /\ [][Next]_vars

-----------------------------------------------------------------------------
TypeOK == /\ started \in BOOLEAN
          /\ now \in 0..MaxT
          /\ m.last \in Int /\ m.cur \in Int /\ m.next \in Int /\ m.timer \in Int

(* the served certificate has been valid for at least the skew allowance and stays valid at least
   that long (every integer instant is a state of the exhaustive instances, so this covers the
   instants just before and just after every roll) *)
ValidNow == started => (m.cur + K <= now /\ now <= End(m.cur) - K)

(* validity period at most 14 days *)
Short == started => (End(m.cur) - m.cur <= MaxLifeU * K /\ End(m.next) - m.next <= MaxLifeU * K)

(* the advertised hashes (Noise early data and the multiaddr component) contain the served
   certificate and the one served next *)
Advertised == started => ({m.cur, m.next} \subseteq m.adv /\ {m.cur, m.next} \subseteq m.addr)

(* ... and `next` really is the one served next: it is what the roll at the timer instant installs,
   it is then valid for at least the skew both ways, and the timer is strictly ahead *)
NextServedNext == started => /\ m.timer > now
                             /\ Roll(m).cur = m.next
                             /\ m.next + K <= m.timer
                             /\ m.timer <= End(m.next) - K

(* END TO END: an address (the certhash set of AddrComponent) learned at any time keeps verifying through
   the current and the following period.  A dial at `now` with the address e.hs succeeds iff
     - the served certificate is pinned by it                (verifyRawCerts:  m.cur \in e.hs), and
     - the server confirms EVERY hash of it in the handshake (transport.upgrade: e.hs \subseteq x.adv, where
       x.adv is what SerializedCertHashes() puts into the Noise early data).
   The second conjunct needs the PREVIOUS certificate in the advertised list for the whole following
   period - also right after a (re)start inside that period, which is why init re-derives it. *)
InWindow(e) == m.cur = e.per \/ m.cur = e.per + W
DialVerifies(e, x) == x.cur \in e.hs /\ e.hs \subseteq x.adv
LearnedKeepsVerifying ==
  started => \A e \in hist : InWindow(e) => DialVerifies(e, sh)     \* the manager that ran continuously
(* the same for the manager that may have been restarted at any instant since the address was learned *)
LearnedSurvivesRestart == started => \A e \in hist : InWindow(e) => DialVerifies(e, m)
(* ... and the requirement ends there: two periods later the address need not (and does not) verify *)
ReachLearnedExpired == ~(started /\ \E e \in hist : ~InWindow(e) /\ ~DialVerifies(e, sh))

(* certificates are a function of (offset, time bucket): a restarted manager serves what the one that
   ran continuously serves, and both serve the bucket containing now - skew *)
Deterministic == started => /\ m.cur = sh.cur /\ m.next = sh.next
                            /\ m.cur = BucketStart(now - K, off)
                            /\ m.next = m.cur + W

(* vacuity probes: expected to be violated *)
ReachRolled == ~(started /\ op.name = "advance" /\ Len(op.fires) >= 1)
ReachRestartAfterRoll == ~(started /\ op.name = "restart" /\ Len(op.fires) >= 1)
ReachMultiFire == ~(started /\ op.name = "advance" /\ Len(op.fires) >= 2)
=============================================================================
