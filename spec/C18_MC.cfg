\* Template: checks/C18.py instantiates the constants (exhaustive small instances; replay instance at real proportions).
CONSTANTS
  K = 3
  VU = 6
  MaxLifeU = 6
  MaxT = 100
  StartLo = 21
  RelPts = {0}
  RestartForgetsLast = FALSE
  Offsets <- MCOffsetsAll
  Starts <- MCStartsAll
  Deltas <- MCDeltasAll
  RDeltas <- MCRDeltasAll
INIT Init
NEXT Next
VIEW View
INVARIANTS TypeOK ValidNow Short Advertised NextServedNext LearnedKeepsVerifying LearnedSurvivesRestart Deterministic
