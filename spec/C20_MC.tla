------------------------------ MODULE C20_MC ------------------------------
EXTENDS C20_BlackHole, Json
\* Address-kind sets used for FilterAddrs in the exhaustive model: every set of at most two
\* kinds plus the full universe (8 kinds: 1 + 8 + 28 + 1 = 38 sets).
MCFilterSets == {S \in SUBSET AddrKinds : Cardinality(S) <= 2} \cup {AddrKinds}
\* a tiny family for the walk-generating run
MCFilterSetsSmall == {S \in SUBSET AddrKinds : Cardinality(S) <= 1} \cup {AddrKinds}
               \cup {{[pub |-> TRUE, udp |-> TRUE, ip6 |-> FALSE], [pub |-> TRUE, udp |-> FALSE, ip6 |-> TRUE]}}
\* the replay graph leaves the ghost `run` out of the state identity (it only serves ProbeEveryN in the
\* exhaustive run), so it has one node per implementation state
St == [win |-> win, succ |-> succ, req |-> req, st |-> st]
ViewNoGhost == <<win, succ, req, st>>
EmitEdge == PrintT(<<"VFEDGE", ToJson([s |-> St, op |-> op', t |-> St'])>>)
MCInit == Init /\ PrintT(<<"VFINIT", ToJson(St)>>)
=============================================================================
