\* Template: checks/C03rate.py instantiates Inst / Callers for the concurrent instances.
CONSTANTS
  Inst = "ksub"
  U = 2
  Callers = {1, 2, 3}
  Addrs <- MCAddrs
  FamOf <- MCFamOf
  NP <- MCNP
  Levels <- MCLevels
  Glob <- MCGlob
  Grace <- MCGrace
INIT KInit
NEXT KNext
VIEW KView
CHECK_DEADLOCK FALSE
INVARIANTS Linearisable KBound
