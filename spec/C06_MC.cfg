\* Template: X_ replaced by A_ or B_, WithClose set by checks/C06.py
CONSTANTS
  Conns <- X_Conns
  PeerOf <- X_PeerOf
  Limited <- X_Limited
  WithClose = TRUE
INIT Init
NEXT Next
VIEW View
INVARIANTS Once Order Truthful NoRepeat CloseWaits
CHECK_DEADLOCK FALSE
