\* Template: checks/C11.py instantiates the constants for every bounded instance.
CONSTANTS
  Topo = "rsvp"
  ACLOn = TRUE
  Peers <- MCPeers
  Links <- MCLinks
  LinkPeer <- MCLinkPeer
  LinkAddr <- MCLinkAddr
  LinkLimited <- MCLinkLimited
  ASNOf <- MCASNOf
  DenyReserve <- MCDenyReserve
  DenyConnect <- MCDenyConnect
  MaxRes = 2
  MaxPerIP = 1
  MaxPerASN = 2
  MaxCirc = 1
  TTL = 2
  GCP = 2
  Limited = TRUE
  DataLimit = 3
  Duration = 2
  HSTimeout = 2
  MaxAtt = 1
  Chunks = {1, 2}
  Faults = {"open"}
  Features = {"time", "updown"}
  Static = {}
  Off = {}
INIT Init
NEXT Next
VIEW View
INVARIANTS TypeOK Caps CapsCounted CountedAreLive LiveAreCounted TagsRollback ReservationSound CircuitSound MaxCircuits Rollback TagsWhileReserved Limits HandshakeBounded
PROPERTIES ConnectOnlyIfAllowed GrantOnlyIfAllowed DeliveredWithinLimit EndedMeansRolledBack
