\* Template: X_ replaced by Q_, T_ or U_ by checks/C05.py
CONSTANTS
  Callers <- X_Callers
  Addrs <- X_Addrs
  Rank <- X_Rank
  Outs <- X_Outs
  CAddrs <- X_CAddrs
  PerPeer <- X_PerPeer
  AllowClose <- X_AllowClose
SPECIFICATION Spec
INVARIANTS AtMostOnce Cap ErrOnlyExhausted ConnMeansConn NoResidue Usable
PROPERTIES Termination
CHECK_DEADLOCK FALSE
