--------------------------- MODULE C18_MCVerifier ---------------------------
EXTENDS C18_Verifier, Json
St == [n |-> n]
EmitEdge == PrintT(<<"VFEDGE", ToJson([s |-> St, op |-> op', t |-> St'])>>)
MCInit == Init /\ PrintT(<<"VFINIT", ToJson(St)>>)
=============================================================================
