--------------------------- MODULE C18_MCVerifier ---------------------------
EXTENDS C18_Verifier, Json
St == [pos |-> pos, life |-> life, seen |-> seen]
EmitEdge == PrintT(<<"VFEDGE", ToJson([s |-> St, op |-> op', t |-> St'])>>)
MCInit == Init /\ PrintT(<<"VFINIT", ToJson(St)>>)
=============================================================================
