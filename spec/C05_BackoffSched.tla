-------------------------- MODULE C05_BackoffSched --------------------------
(***************************************************************************)
(* The dial back-off schedule of the swarm, transcribed from               *)
(* p2p/net/swarm/swarm_dial.go (type DialBackoff).  Pure operators with    *)
(* the three tunables as parameters, shared by the design model            *)
(* (C05_Backoff, time in ticks) and by the observable-level trace          *)
(* specification (C05_BackoffObs, time in milliseconds).                   *)
(*                                                                         *)
(* An entry is a record [tries, until]; tries = 0 stands for "no entry".   *)
(***************************************************************************)
EXTENDS Integers

BoMin(x, y) == IF x < y THEN x ELSE y

NoEntry == [tries |-> 0, until |-> 0]

\* AddBackoff: the first failure (no entry) backs off for B - the code does NOT cap this one -; a failure that
\* finds an entry with `k` remembered tries backs off for min(B + C*k*k, M) and remembers k+1.
BoDur(k, B, C, M) == IF k = 0 THEN B ELSE BoMin(B + C * k * k, M)
BoAfterFail(e, now, B, C, M) == [tries |-> e.tries + 1, until |-> now + BoDur(e.tries, B, C, M)]

\* Backoff(p, addr): found && time.Now().Before(until)
BoIn(e, now) == e.tries > 0 /\ now < e.until

\* cleanup(): an entry is "good" while now.Before(until.Add(min(B + C*tries*tries, M))); a peer whose entries are all
\* not good is deleted as a whole (peer granularity: one good entry keeps every entry of the peer)
BoGood(e, now, B, C, M) == e.tries > 0 /\ now < e.until + BoMin(B + C * e.tries * e.tries, M)

\* the instant of the failure that produced the entry (derived: until minus the duration that failure was given)
BoFailTime(e, B, C, M) == e.until - BoDur(e.tries - 1, B, C, M)
=============================================================================
