------------------------------ MODULE C13_MC ------------------------------
EXTENDS C13_Identify, Json

CONSTANTS MsgSet,    \* which family of message classes the instance uses
          RC1, RC2   \* class of the remote multiaddr of c1 / c2

MCRClass == [c \in Conns |-> IF c = "c1" THEN RC1 ELSE RC2]

Mk(pr, la, rec, ra, k, mt) == [pr |-> pr, la |-> la, rec |-> rec, ra |-> ra, key |-> k, meta |-> mt]
Base == Mk("few", "own", "absent", "none", "R", "v1")

\* addresses, lifetimes and the two atomic sections (protocol/key/metadata fields fixed)
MsgsAddr == { Base,
              Mk("few", "big",  "absent", "none", "R", "v1"),
              Mk("few", "none", "absent", "none", "R", "v1"),
              Mk("few", "own",  "validR", "own",  "R", "v1"),
              Mk("few", "own",  "validR", "big",  "R", "v1"),
              Mk("few", "big",  "pidF",   "own",  "R", "v1") }

\* every field class, one field at a time around Base, plus fully hostile combinations
MsgsAll ==
     { Base }
  \cup { Mk(pr, "own", "absent", "none", "R", "v1") : pr \in {"none", "push", "big"} }
  \cup { Mk("few", la, "absent", "none", "R", "v1") : la \in {"none", "fsuf", "big", "suf1", "self1", "sufU", "dups", "bigd"} }
  \cup { Mk("few", "own", "validR", ra, "R", "v1") : ra \in {"none", "own", "fsuf", "big", "suf1", "sufU", "dups", "bigd"} }
  \cup { Mk("few", "own", rec, "own", "R", "v1") :
           rec \in {"byF", "forged", "pidF", "othertype", "domain", "type", "garbage", "badsig"} }
  \cup { Mk("few", "own", "absent", "none", k, "v1") : k \in {"absent", "F", "garbage"} }
  \cup { Mk("few", "own", "absent", "none", "R", mt) : mt \in {"absent", "v2"} }
  \cup { Mk("big", "fsuf", "byF", "big", "F", "v2"),
         Mk("big", "big", "forged", "fsuf", "garbage", "absent"),
         Mk("push", "big", "pidF", "big", "F", "v2"),
         Mk("none", "none", "badsig", "big", "absent", "absent") }

\* protocols, keys and metadata only (addresses fixed): small, for the default peerstore protocol maximum
MsgsMeta ==
     { Base }
  \cup { Mk(pr, "own", "absent", "none", "R", "v1") : pr \in {"none", "push", "big"} }
  \cup { Mk("few", "own", "absent", "none", k, mt) : k \in {"absent", "F", "garbage"}, mt \in {"absent", "v2"} }

\* two connections x the hostile classes (thorough tier)
MsgsMix == { Base,
             Mk("big", "fsuf", "byF", "big", "F", "v2"),
             Mk("big", "big", "forged", "fsuf", "garbage", "absent"),
             Mk("push", "big", "pidF", "big", "F", "v2"),
             Mk("none", "none", "badsig", "big", "absent", "absent"),
             Mk("few", "own", "validR", "big", "R", "v1"),
             Mk("few", "own", "validR", "fsuf", "F", "v1"),
             Mk("few", "fsuf", "othertype", "own", "R", "v1"),
             Mk("few", "own", "domain", "own", "garbage", "v1"),
             Mk("big", "own", "absent", "none", "R", "v1"),
             Mk("few", "dups", "absent", "none", "R", "v1"),
             Mk("few", "own", "validR", "bigd", "R", "v1"),
             Mk("few", "sufU", "pidF", "dups", "R", "v1") }

\* one message: liveness
MsgsOne == { Base }

MCMsgs == CASE MsgSet = "addr" -> MsgsAddr
            [] MsgSet = "all"  -> MsgsAll
            [] MsgSet = "meta" -> MsgsMeta
            [] MsgSet = "mix"  -> MsgsMix
            [] MsgSet = "one"  -> MsgsOne

\* JSON-able projection of the VIEW'd state, compact (every printed edge carries two of them):
\* [R, F |-> <<ttl, mode, set, n, must, protocols, key, metadata>>, c |-> [conn |-> <<cs, ntf, ent, idf>>]]
PSt(q) == <<addr[q].ttl, addr[q].mode, addr[q].set, addr[q].n, addr[q].must, protos[q], key[q], meta[q]>>
St == [R |-> PSt("R"), F |-> PSt("F"), c |-> [c \in Conns |-> <<cs[c], ntf[c], ent[c], idf[c]>>]]
EmitEdge == PrintT(<<"VFEDGE", ToJson([s |-> St, op |-> op', t |-> St'])>>)
Conf == [conns |-> Conns, rclass |-> MCRClass, msgset |-> MsgSet, nmsgs |-> Cardinality(MCMsgs),
         maxProtos |-> MaxProtos, maxAddrs |-> MaxAddrs, recentMax |-> RecentMax,
         psMaxProtos |-> PsMaxProtos, psMaxAddrs |-> PsMaxAddrs,
         aw |-> AWf, pw |-> PWf]
MCInit == Init /\ PrintT(<<"VFINIT", ToJson(St)>>) /\ PrintT(<<"VFCONF", ToJson(Conf)>>)
ASSUME MsgsAligned
=============================================================================
