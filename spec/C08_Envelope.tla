--------------------------- MODULE C08_Envelope ---------------------------
(***************************************************************************)
(* C08 - keys, peer IDs and signed envelopes bind identity to content.     *)
(*                                                                         *)
(* Three small machines over one pair of variables (st, op); the cfg picks  *)
(* one with INIT InitX / NEXT NextX.                                        *)
(*                                                                         *)
(* Part A  symbolic acceptance model of core/record/envelope.go:           *)
(*         Seal, the attacker's edits of the wire form, and the consumers  *)
(*         record.ConsumeEnvelope, record.ConsumeTypedEnvelope, the two    *)
(*         address books' ConsumePeerRecord (behind ConsumeEnvelope, as    *)
(*         identify uses them) and the relay voucher consumer.             *)
(* Part B  makeUnsigned transcribed as a pure operator over a two-letter   *)
(*         alphabet; injectivity checked by TLC over all triples, the      *)
(*         un-prefixed variants checked NOT to be injective, and every     *)
(*         pair of triples that collides under a broken variant emitted as *)
(*         a "shifted boundary" transition the real code must reject.      *)
(* Part C  abstract signature / peer-ID theory:                            *)
(*            Verify(k', m', Sign(k, m))  <=>  k' = k /\ m' = m            *)
(*            ID deterministic and injective, every serialised form of a   *)
(*            key or ID converts back to the same key or ID                *)
(*         as a graph of representation forms whose edges are the real     *)
(*         conversion functions, plus the verify case matrix.              *)
(***************************************************************************)
EXTENDS Naturals, Sequences, FiniteSets, TLC

CONSTANTS Keys,       \* A: key names; "kH" seals the primary envelope, "kV" the second one
          AttKeys,    \* A: keys whose private half the attacker holds
          Fams,       \* A: record families; family f has domain f and payload type f
          PrimaryFams,\* A: families of the primary envelope in this run (the driver splits the graph by it)
          Bodies,     \* A: record bodies (content besides the owner)
          MaxEdits,   \* A: attacker edits per behaviour
          Variant,    \* A: "code" = the real acceptance rule; other values are deliberately broken
                      \*    rules used as vacuity guards (TLC must find the attack)
          Alphabet,   \* B: letters (small naturals, so that letters and length prefixes overlap)
          MaxLen,     \* B: injectivity is checked over all triples of strings of length <= MaxLen
          WalkLen,    \* B: shifted-boundary transitions are enumerated for strings of length <= WalkLen
          KeyTypes,   \* C: key types
          Who,        \* C: key indices per type
          Msgs        \* C: messages

VARIABLES st, op
vars == <<st, op>>
View == st

(***************************************************************************)
(*                                PART A                                   *)
(***************************************************************************)
NoKey == "-"
DomX == Fams \cup {"none", "other"}     \* domains a consumer may ask with / an attacker may sign under
                                        \* ("none" = the empty string, "other" = an unrelated string)
TypX == Fams \cup {"empty", "unreg"}    \* payload types that may appear on the wire
\* A payload names an owner (the peer ID a peer record / voucher is about).  oenc = "alt": the owner field
\* is a LOOK-ALIKE of the owner's ID - an identity multihash over a non-canonical serialisation of the
\* owner's key - which parses to that key but is not IDFromPublicKey(key) (RE-ENCODE capability, part C).
JunkPay == [fam |-> "junk", owner |-> NoKey, body |-> 0, oenc |-> "canon"]     \* bytes no record type can parse
Pays == [fam : Fams, owner : Keys, body : Bodies, oenc : {"canon"}]
        \cup [fam : {"peer"}, owner : Keys, body : {1}, oenc : {"alt"}] \cup {JunkPay}

\* The signed pre-image.  "code": all three components, each delimited (injective, part B).
\* (every rule below takes the acceptance-rule variant v explicitly; the model's own rule is v = Variant =
\* "code", the others are the deliberately broken rules whose wrong acceptances TLC reports per transition)
PreA(v, d, t, p) ==
  CASE v = "nodomain"  -> <<"*", t, p>>
    [] v = "notype"    -> <<d, "*", p>>
    [] v = "nopayload" -> <<d, t, JunkPay>>
    [] OTHER           -> <<d, t, p>>
Pre(d, t, p) == PreA(Variant, d, t, p)
ProjM(v, m) == PreA(v, m[1], m[2], m[3])       \* what a signature made over m binds under rule v

\* Sign(k, m) is the term [k, m]; BadSig is a bit string that is no signature of anything.
Sig(k, d, t, p) == [k |-> k, m |-> Pre(d, t, p)]
BadSig == [k |-> NoKey, m |-> <<"-", "-", JunkPay>>]
\* senc: how the signature term is encoded on the wire - "lib" = what the library's Sign emits, "alt" = any
\* other encoding of the same term (the attacker's RE-ENCODE capability: DER / raw / compact / high-S ...).
\* kenc likewise for the public key field ("alt" = a non-canonical serialisation of the same key).
\* The axiom does not depend on the encoding; a decoder may refuse an "alt" encoding ("maybe").
Verify(v, k, m, s, senc) ==
  CASE v = "nokey"                   -> s.k # NoKey /\ s.m = m
    [] v = "anyenc" /\ senc = "alt"  -> s.k # NoKey /\ s.m = m   \* broken: alt encodings skip the key
    [] OTHER                         -> s.k = k /\ s.m = m        \* the signature axiom (part C)

Garbage == [ok |-> FALSE, key |-> NoKey, kenc |-> "canon", typ |-> "empty", pay |-> JunkPay, sig |-> BadSig, senc |-> "lib"]
Sealed(k, f, owner, body) ==
  LET p == [fam |-> f, owner |-> owner, body |-> body, oenc |-> "canon"]
  IN [ok |-> TRUE, key |-> k, kenc |-> "canon", typ |-> f, pay |-> p, sig |-> Sig(k, f, f, p), senc |-> "lib"]
Tuple(k, d, t, p) == [k |-> k, d |-> d, t |-> t, p |-> p]

\* consumers: kind and the domain they ask with
Consumers == [kind : {"untyped"}, d : DomX] \cup [kind : {"typed"}, d : Fams]
             \cup {[kind |-> "pmem", d |-> "peer"], [kind |-> "pds", d |-> "peer"],
                   [kind |-> "voucher", d |-> "rsvp"]}

\* does payload p unmarshal as a record of family f?  "maybe": bytes of another family's record
\* (protobuf cross-parsing is decided by the concrete bytes; the property does not depend on it)
Parse(f, p) == IF p.fam = "junk" THEN "no" ELSE IF p.fam = f THEN "yes" ELSE "maybe"
And3(a, b) == IF a = "no" \/ b = "no" THEN "no" ELSE IF a = "maybe" \/ b = "maybe" THEN "maybe" ELSE "yes"
B3(x) == IF x THEN "yes" ELSE "no"

\* Envelope.validate(domain): "maybe" when an alternative encoding is involved (the decoder may refuse it)
ValidV(v, w, d) ==
  IF ~(w.ok /\ Verify(v, w.key, PreA(v, d, w.typ, w.pay), [k |-> w.sig.k, m |-> ProjM(v, w.sig.m)], w.senc)) THEN "no"
  ELSE IF w.kenc = "alt" \/ w.senc = "alt" THEN "maybe" ELSE "yes"

\* record.ConsumeEnvelope(bytes, d): unmarshal, validate, registry lookup by payload type, unmarshal
UntypedV(v, w, d) == IF ValidV(v, w, d) = "no" \/ w.typ \notin Fams THEN "no" ELSE And3(ValidV(v, w, d), Parse(w.typ, w.pay))
Untyped(w, d) == UntypedV(Variant, w, d)
\* record.ConsumeTypedEnvelope(bytes, rec of family f): validate with rec.Domain(); the payload type
\* on the wire is NOT compared with rec.Codec() (documented: caller's responsibility)
TypedV(v, w, f) == And3(ValidV(v, w, f), Parse(f, w.pay))
\* identify's pipeline: ConsumeEnvelope(bytes, peer-record domain); AddrBook.ConsumePeerRecord
\* (record must be a *PeerRecord, rec.PeerID.MatchesPublicKey(envelope.PublicKey))
\* (a look-alike of the signer's ID is NOT the signer's ID)
OwnerOK(v, w) == \/ v = "noowner"
                 \/ w.pay.owner = w.key /\ (w.pay.oenc = "canon" \/ v = "lookalike")
PeerStoreV(v, w) == And3(UntypedV(v, w, "peer"), B3(w.typ = "peer" /\ OwnerOK(v, w)))
\* relay client: ConsumeEnvelope(bytes, voucher domain); record must be a *ReservationVoucher
VoucherV(v, w) == And3(UntypedV(v, w, "rsvp"), B3(w.typ = "rsvp"))

ResV(v, c, w) == CASE c.kind = "untyped" -> UntypedV(v, w, c.d)
                   [] c.kind = "typed"   -> TypedV(v, w, c.d)
                   [] c.kind = "voucher" -> VoucherV(v, w)
                   [] OTHER              -> PeerStoreV(v, w)
Res(c, w) == ResV(Variant, c, w)
\* Deliberately broken acceptance rules (vacuity guards): domain / type / payload / key not bound by the
\* signature, owner not bound by the store, alternative signature encodings not bound to the key, look-alike
\* owner IDs taken for the real one.  Each must wrongly accept somewhere in the reachable graph.
BrokenA == {"nodomain", "notype", "nopayload", "nokey", "noowner", "anyenc", "lookalike"}

InitA ==
  \E f1 \in PrimaryFams, f2 \in Fams :
    LET w1 == Sealed("kH", f1, "kH", 1)
        w2 == Sealed("kV", f2, "kV", 2)
    IN /\ st = [part |-> "A", wire |-> w1, second |-> w2, edits |-> 0,
                signed |-> {Tuple("kH", f1, f1, w1.pay), Tuple("kV", f2, f2, w2.pay)}]
       /\ op = [name |-> "seal", fam |-> f1, fam2 |-> f2]

Edit(w, nm, arg, sg) ==
  /\ st.edits < MaxEdits
  /\ w # st.wire
  /\ st' = [st EXCEPT !.wire = w, !.edits = @ + 1, !.signed = sg]
  /\ op' = [name |-> nm, arg |-> arg]

NoArg == [x |-> 0]
EditA ==
  /\ st.wire.ok
  /\ \/ \E k \in Keys : Edit([st.wire EXCEPT !.key = k, !.kenc = "canon"], "setkey", [key |-> k], st.signed)
     \/ \E t \in TypX : Edit([st.wire EXCEPT !.typ = t], "settype", [typ |-> t], st.signed)
     \/ \E p \in Pays : /\ (p.body = 1 \/ p = st.second.pay \/ p = JunkPay)   \* (bodies add nothing to an attacker's choice)
                      /\ Edit([st.wire EXCEPT !.pay = p], "setpay", [pay |-> p], st.signed)
     \/ Edit([st.wire EXCEPT !.sig = BadSig, !.senc = "lib"], "badsig", NoArg, st.signed)
     \* RE-ENCODE: the same key / the same signature term in another encoding
     \/ /\ st.wire.kenc = "canon"
        /\ Edit([st.wire EXCEPT !.kenc = "alt"], "reencode", [field |-> "key"], st.signed)
     \/ /\ st.wire.senc = "lib" /\ st.wire.sig # BadSig
        /\ Edit([st.wire EXCEPT !.senc = "alt"], "reencode", [field |-> "sig"], st.signed)
     \* the attacker seals an envelope of his own from scratch (only sensible as a first move): any family,
     \* any owner incl. a look-alike of an ID, signature in the library's or in an alternative encoding
     \/ /\ st.edits = 0
        /\ \E k \in AttKeys, p \in Pays \ {JunkPay}, se \in {"lib", "alt"} :
             /\ p.body = 1 /\ p.fam = "peer" /\ p.owner \in {k, "kH"}   \* about himself or about the victim
             /\ Edit([ok |-> TRUE, key |-> k, kenc |-> "canon", typ |-> p.fam, pay |-> p,
                      sig |-> Sig(k, p.fam, p.fam, p), senc |-> se], "attseal", [key |-> k, pay |-> p, senc |-> se],
                     st.signed \cup {Tuple(k, p.fam, p.fam, p)})
     \/ Edit(Garbage, "truncate", NoArg, st.signed)
     \* the attacker seals the current (type, payload) under a domain of his choice with his own key;
     \* the key field is a separate edit
     \/ \E k \in AttKeys, d \in DomX :
          Edit([st.wire EXCEPT !.sig = Sig(k, d, st.wire.typ, st.wire.pay), !.senc = "lib"], "resign", [key |-> k, d |-> d],
               st.signed \cup {Tuple(k, d, st.wire.typ, st.wire.pay)})
     \/ \E f \in {"key", "typ", "pay", "sig"} :
          Edit([st.wire EXCEPT ![f] = st.second[f], !.kenc = IF f = "key" THEN "canon" ELSE @,
                               !.senc = IF f = "sig" THEN "lib" ELSE @], "swap", [field |-> f], st.signed)

Legit(c, w) ==
  /\ Tuple(w.key, c.d, w.typ, w.pay) \in st.signed
  /\ c.kind \in {"pmem", "pds"} => (w.pay.owner = w.key /\ w.pay.oenc = "canon")
ConsumeA ==
  \E c \in Consumers :
    /\ UNCHANGED st
    /\ op' = [name |-> "consume", kind |-> c.kind, d |-> c.d, acc |-> Res(c, st.wire),
              \* the broken rules that would accept here something nobody sealed
              brk |-> {v \in BrokenA : ResV(v, c, st.wire) # "no" /\ ~Legit(c, st.wire)}]

NextA == EditA \/ ConsumeA

\* The statement: whatever is accepted was sealed, by the holder of the reported key, with exactly the
\* domain asked for and the reported type and payload; a peer store additionally binds the record's
\* peer ID to the signing key.
BindingA ==
  st.part = "A" => \A c \in Consumers : Res(c, st.wire) # "no" => Legit(c, st.wire)
\* honest keys signed only what their holders sealed
HonestA ==
  st.part = "A" =>
    \A s \in st.signed : s.k \notin AttKeys => /\ s.d = s.t /\ s.p.fam = s.t /\ s.p.owner = s.k /\ s.p.oenc = "canon"
                                                /\ s.k \in {"kH", "kV"}
\* the unedited envelope is accepted by the consumers of its family (round trip)
RoundTripA ==
  (st.part = "A" /\ st.edits = 0) =>
    \A c \in Consumers : (c.d = st.wire.typ) => Res(c, st.wire) = "yes"
TypeOKA ==
  st.part = "A" => /\ st.wire.ok \in BOOLEAN /\ st.wire.key \in Keys \cup {NoKey} /\ st.wire.typ \in TypX
                   /\ st.wire.pay \in Pays /\ st.wire.sig.k \in Keys \cup {NoKey} /\ Len(st.wire.sig.m) = 3
                   /\ st.edits \in 0..MaxEdits
                   /\ \A s \in st.signed : s.k \in Keys /\ s.d \in DomX /\ s.t \in TypX /\ s.p \in Pays
\* vacuity guards (expected to be VIOLATED): an attacker-signed envelope is accepted somewhere, a
\* foreign-signer peer record passes ConsumeEnvelope
ReachAttackerAccepted ==
  ~(st.part = "A" /\ st.wire.key \in AttKeys /\ \E c \in Consumers : Res(c, st.wire) = "yes")
\* a record naming a look-alike of the signer's own ID, validly sealed by that signer, reaches a store
ReachLookalike ==
  ~(st.part = "A" /\ st.wire.ok /\ st.wire.pay.oenc = "alt" /\ st.wire.pay.owner = st.wire.key
    /\ Untyped(st.wire, "peer") = "yes")
\* a signature by another key in an alternative encoding sits in an envelope carrying the victim's key
ReachForeignAltSig ==
  ~(st.part = "A" /\ st.wire.ok /\ st.wire.senc = "alt" /\ st.wire.sig.k \in AttKeys /\ st.wire.key = "kH")
ReachForeignOwner ==
  ~(st.part = "A" /\ st.wire.ok /\ st.wire.pay.fam = "peer" /\ st.wire.pay.owner # st.wire.key
    /\ Untyped(st.wire, "peer") = "yes")

(***************************************************************************)
(*                                PART B                                   *)
(***************************************************************************)
RECURSIVE StrEq(_)
StrEq(n) == IF n = 0 THEN {<<>>} ELSE {Append(s, a) : s \in StrEq(n - 1), a \in Alphabet}
Str(n) == UNION {StrEq(m) : m \in 0..n}

\* encoding/binary.AppendUvarint
RECURSIVE Uvarint(_)
Uvarint(n) == IF n < 128 THEN <<n>> ELSE <<128 + (n % 128)>> \o Uvarint(n \div 128)

\* core/record/envelope.go makeUnsigned: for each of domain, payload type, payload: uvarint(len) ++ bytes
Field(f) == Uvarint(Len(f)) \o f
MakeUnsigned(d, t, p) == Field(d) \o Field(t) \o Field(p)

\* broken variants (what a wrong implementation might sign)
PreV(v, d, t, p) ==
  CASE v = "code"      -> MakeUnsigned(d, t, p)
    [] v = "plain"     -> d \o t \o p
    [] v = "nopfxD"    -> d \o Field(t) \o Field(p)
    [] v = "nopfxT"    -> Field(d) \o t \o Field(p)
    [] v = "nopfxP"    -> Field(d) \o Field(t) \o p
    [] v = "skipempty" -> (IF d = <<>> THEN <<>> ELSE Field(d)) \o (IF t = <<>> THEN <<>> ELSE Field(t))
                          \o (IF p = <<>> THEN <<>> ELSE Field(p))
\* ("nopfxP" is still injective - the last component needs no delimiter - so it is measured in StatsB
\* but is not a source of attack pairs)
BrokenVariants == {"plain", "nopfxD", "nopfxT", "skipempty"}
AllVariants == BrokenVariants \cup {"code", "nopfxP"}

Triples(n) == Str(n) \X Str(n) \X Str(n)
Images(v, n) == {PreV(v, x[1], x[2], x[3]) : x \in Triples(n)}
NTriples == Cardinality(Triples(MaxLen))
InjectiveB == Cardinality(Images("code", MaxLen)) = NTriples
BrokenNotInjectiveB == \A v \in BrokenVariants : Cardinality(Images(v, MaxLen)) < NTriples
StatsB == [triples |-> NTriples, maxlen |-> MaxLen,
           images |-> [v \in AllVariants |-> Cardinality(Images(v, MaxLen))]]

\* which broken variants make x and y collide
Colliders(x, y) == {v \in BrokenVariants : PreV(v, x[1], x[2], x[3]) = PreV(v, y[1], y[2], y[3])}

\* a sealed triple needs a non-empty domain and type (Seal refuses the others)
InitB ==
  \E x \in Triples(WalkLen) :
    /\ x[1] # <<>> /\ x[2] # <<>>
    /\ st = [part |-> "B", d |-> x[1], t |-> x[2], p |-> x[3]]
    /\ op = [name |-> "sealB", pre |-> MakeUnsigned(x[1], x[2], x[3])]

\* the attacker keeps key and signature, rewrites type and payload, and the consumer asks with y's domain
NextB ==
  /\ UNCHANGED st
  /\ LET x == <<st.d, st.t, st.p>> IN
     \/ op' = [name |-> "shift", d |-> x[1], t |-> x[2], p |-> x[3], why |-> {},
               acc |-> TRUE, pre |-> MakeUnsigned(x[1], x[2], x[3])]
     \/ \E y \in Triples(WalkLen) :
          /\ y # x
          /\ Colliders(x, y) # {}
          /\ op' = [name |-> "shift", d |-> y[1], t |-> y[2], p |-> y[3], why |-> Colliders(x, y),
                    acc |-> (MakeUnsigned(y[1], y[2], y[3]) = MakeUnsigned(x[1], x[2], x[3])),
                    pre |-> MakeUnsigned(y[1], y[2], y[3])]

(***************************************************************************)
(*                                PART C                                   *)
(***************************************************************************)
\* conversions between representation forms of one key / its ID: [n: function, f: from, t: to]
Cv(n, f, t) == [n |-> n, f |-> f, t |-> t]
Conv == {
  Cv("MarshalPrivateKey", "sk", "skpb"), Cv("UnmarshalPrivateKey", "skpb", "sk"),
  Cv("PrivRaw", "sk", "skraw"), Cv("PrivFromRaw", "skraw", "sk"),
  Cv("GetPublic", "sk", "pk"), Cv("IDFromPrivateKey", "sk", "id"),
  Cv("MarshalPublicKey", "pk", "pkpb"), Cv("UnmarshalPublicKey", "pkpb", "pk"),
  Cv("PubRaw", "pk", "pkraw"), Cv("PubFromRaw", "pkraw", "pk"),
  Cv("PublicKeyToProto", "pk", "pkproto"), Cv("PublicKeyFromProto", "pkproto", "pk"),
  Cv("IDFromPublicKey", "pk", "id"),
  Cv("IDMarshalBinary", "id", "idbin"), Cv("IDUnmarshalBinary", "idbin", "id"), Cv("IDFromBytes", "idbin", "id"),
  Cv("IDString", "id", "idb58"), Cv("Decode", "idb58", "id"),
  Cv("ToCid", "id", "idcid"), Cv("FromCid", "idcid", "id"),
  Cv("CidString", "idcid", "idcidstr"), Cv("Decode", "idcidstr", "id"), Cv("CidDecode", "idcidstr", "idcid"),
  Cv("IDMarshalJSON", "id", "idjson"), Cv("IDUnmarshalJSON", "idjson", "id"),
  Cv("IDMarshalText", "id", "idtext"), Cv("IDUnmarshalText", "idtext", "id"),
  Cv("AddrInfoToP2pAddrs", "id", "idp2p"), Cv("AddrInfoFromP2pAddr", "idp2p", "id"),
  Cv("IDFromP2PAddr", "idp2p", "id"),
  Cv("AddrInfoMarshalJSON", "id", "aijson"), Cv("AddrInfoUnmarshalJSON", "aijson", "id") }

ObjForms == {"sk", "pk"}
\* how an object form was obtained (the "encoding form" axis of the verify matrix)
Via(c) == CASE c.n \in {"UnmarshalPrivateKey", "UnmarshalPublicKey"} -> "pb"
            [] c.n \in {"PrivFromRaw", "PubFromRaw"}                  -> "raw"
            [] c.n = "PublicKeyFromProto"                             -> "proto"
            [] c.n = "GetPublic"                                      -> "sk"
            [] OTHER                                                  -> "-"
\* the ID embeds the key iff the marshalled public key is at most 42 bytes (identity multihash)
Embeds(kt) == kt \in {"Ed25519", "Secp256k1"}
NoSig == [kt |-> "-", who |-> 0, m |-> "-", mut |-> FALSE]

InitC ==
  \E kt \in KeyTypes, w \in Who :
    /\ st = [part |-> "C", kt |-> kt, who |-> w, form |-> "sk", via |-> "gen", sig |-> NoSig]
    /\ op = [name |-> "gen", kt |-> kt, who |-> w]

\* every conversion preserves (kt, who): that IS the round-trip clause.  While a signature is held only
\* the public-key forms are walked (the verify matrix wants the key through every encoding form).
SigForms == {"sk", "pk", "pkpb", "pkraw", "pkproto", "id"}
ConvertC ==
  \E c \in Conv :
    /\ c.f = st.form
    /\ st.sig # NoSig => (c.f \in SigForms /\ c.t \in SigForms /\ c.t # "sk" /\ c.n # "IDFromPrivateKey")
    /\ st' = [st EXCEPT !.form = c.t, !.via = IF c.t \in ObjForms THEN Via(c) ELSE "-"]
    /\ op' = [name |-> "conv", fn |-> c.n, from |-> c.f, to |-> c.t]
ExtractC ==
  /\ st.form = "id"
  /\ IF Embeds(st.kt)
     THEN /\ st' = [st EXCEPT !.form = "pk", !.via = "id"]
          /\ op' = [name |-> "extract", ok |-> TRUE]
     ELSE /\ UNCHANGED st
          /\ op' = [name |-> "extract", ok |-> FALSE]
\* take up another key while holding a signature (to verify under it)
PickC ==
  /\ st.form = "pk" /\ st.sig # NoSig
  /\ \E kt \in KeyTypes, w \in Who :
       /\ <<kt, w>> # <<st.kt, st.who>>
       /\ st' = [st EXCEPT !.kt = kt, !.who = w, !.form = "sk", !.via = "gen"]
       /\ op' = [name |-> "pick", kt |-> kt, who |-> w]
\* (by symmetry only key 1 of each type signs; key 2 is "another key of the same type")
SignC ==
  /\ st.form = "sk" /\ st.sig = NoSig /\ st.who = 1
  /\ \E m \in Msgs :
       /\ st' = [st EXCEPT !.sig = [kt |-> st.kt, who |-> st.who, m |-> m, mut |-> FALSE]]
       /\ op' = [name |-> "sign", m |-> m]
MutSigC ==
  /\ st.sig # NoSig /\ ~st.sig.mut /\ st.form = "pk" /\ st.via = "sk"
  /\ st' = [st EXCEPT !.sig.mut = TRUE]
  /\ op' = [name |-> "mutsig"]
\* the signature axiom, as the expected result of the real Verify
VerifyOK(kt, w, m) == st.sig.kt = kt /\ st.sig.who = w /\ st.sig.m = m /\ ~st.sig.mut
VerifyC ==
  /\ st.form = "pk" /\ st.sig # NoSig
  /\ UNCHANGED st
  /\ \/ \E m \in Msgs : op' = [name |-> "verify", m |-> m, ok |-> VerifyOK(st.kt, st.who, m)]
     \* every single-bit / length mutation of the signed message (the harness enumerates them)
     \/ op' = [name |-> "verifymut", ok |-> FALSE]
\* Protobuf-level surgery on the SERIALISED key (unknown field added, field duplicated, fields reordered,
\* non-minimal varints, trailing bytes, another encoding of the same point).  Whenever the real decoder
\* accepts the edited bytes and the decoded key Equals the original, it IS the original key: the state
\* keeps (kt, who), so every later transition (IDFromPublicKey, MarshalPublicKey, matches, equals, sign,
\* GetPublic ...) demands the original's ID, bytes and behaviour:
\*     decode(edit(marshal(k))) accepted /\ equal  =>  ID, marshalled form, verification as for k.
\* (When the decoder rejects every concrete variant of an edit kind the walk ends there.)
Surgeries == {"x-unknown-append", "x-unknown-prepend", "x-unknown-middle", "x-dup-field", "x-reorder",
              "x-nonminimal-tag", "x-nonminimal-len", "x-nonminimal-value", "x-trailing", "x-reencode"}
DecodeEditedC ==
  /\ st.form \in {"pkpb", "skpb"} /\ st.sig = NoSig
  /\ \E e \in Surgeries :
       /\ st' = [st EXCEPT !.form = IF st.form = "pkpb" THEN "pk" ELSE "sk", !.via = e]
       /\ op' = [name |-> "decodex", edit |-> e, from |-> st.form]
\* RE-ENCODE, the attacker's capability over terms it knows or can make.  (1) Signatures: the attacker is
\* not limited to what the library's own Sign emits; it presents the held signature term in ANY encoding
\* (re-encoded without the private key, or made afresh with the signer's private key: DER, raw r||s,
\* compact recoverable with every recovery code, high-S, trailing bytes, other padding / hash / scheme).
\* Verify under key K for message m MAY succeed only if the term is Sign(K, m) - never otherwise.
VerifyEncC ==
  /\ st.form = "pk" /\ st.sig # NoSig /\ ~st.sig.mut
  /\ UNCHANGED st
  /\ \E m \in Msgs : op' = [name |-> "verifyenc", m |-> m, may |-> VerifyOK(st.kt, st.who, m)]
\* (2) Peer IDs: an identity multihash over ANY serialisation of a known key (a non-canonical one from
\* Surgeries, or the canonical one of a key too long to be inlined) parses to the key but is NOT
\* IDFromPublicKey(key): a look-alike.  For any ID x and key K: x.MatchesPublicKey(K) => x = ID(K), so a
\* look-alike matches no key, and no consumer (address books, key books) accepts the pair.
LookalikeC ==
  /\ st.form = "pkpb" /\ st.sig = NoSig
  /\ \E e \in Surgeries \cup {"x-canonical"} :
       /\ st' = [st EXCEPT !.form = "idx", !.via = e]
       /\ op' = [name |-> "lookalike", edit |-> e]
LookalikeUseC ==
  /\ st.form = "idx"
  /\ \/ /\ UNCHANGED st
        /\ \/ \E kt \in KeyTypes, w \in Who : op' = [name |-> "matchesx", kt |-> kt, who |-> w, ok |-> FALSE]
           \/ op' = [name |-> "consumex", ok |-> FALSE]
     \* the key embedded in a look-alike is, when it parses and Equals, the original key (with ITS ID)
     \/ /\ st.via # "x-canonical"
        /\ st' = [st EXCEPT !.form = "pk"]
        /\ op' = [name |-> "extractx"]
\* equality / ID-matching matrix against every reference key
EqualsC ==
  /\ UNCHANGED st /\ st.sig = NoSig
  /\ \E kt \in KeyTypes, w \in Who :
       \/ /\ st.form \in ObjForms
          /\ op' = [name |-> "equals", kt |-> kt, who |-> w, ok |-> (<<kt, w>> = <<st.kt, st.who>>)]
       \/ /\ st.form = "id"
          /\ op' = [name |-> "matches", kt |-> kt, who |-> w, ok |-> (<<kt, w>> = <<st.kt, st.who>>)]
\* every single-bit mutation / truncation of a serialised form decodes to an error or to another key/ID
MutFormC ==
  /\ st.form \in {"pkpb", "idbin", "idb58", "idcidstr"} /\ st.sig = NoSig
  /\ UNCHANGED st
  /\ op' = [name |-> "mutform", form |-> st.form]
\* inline threshold: a marshalled key of n bytes is embedded iff n <= 42
LenC ==
  /\ st.form = "id" /\ st.sig = NoSig
  /\ UNCHANGED st
  /\ \E n \in 40..45 : op' = [name |-> "idlen", n |-> n, embed |-> (n <= 42)]

NextC == ConvertC \/ DecodeEditedC \/ VerifyEncC \/ LookalikeC \/ LookalikeUseC \/ ExtractC \/ PickC \/ SignC \/ MutSigC \/ VerifyC \/ EqualsC \/ MutFormC \/ LenC

\* Verify succeeds only for the signer's key and the signed message, unmutated
AxiomC ==
  [][/\ (op'.name = "verify" /\ op'.ok) =>
          (st.sig.kt = st.kt /\ st.sig.who = st.who /\ st.sig.m = op'.m /\ ~st.sig.mut)
     \* no encoding of a signature term may verify under another key or for another message
     /\ (op'.name = "verifyenc" /\ op'.may) =>
          (st.sig.kt = st.kt /\ st.sig.who = st.who /\ st.sig.m = op'.m)
     \* a look-alike ID matches nobody
     /\ (op'.name \in {"matchesx", "consumex"}) => ~op'.ok]_vars
\* conversions never change whose key / ID the datum is
IdentityC == [][(op'.name \in {"conv", "extract", "decodex", "lookalike", "extractx"}) => (st'.kt = st.kt /\ st'.who = st.who)]_vars
TypeOKC ==
  st.part = "C" => /\ st.kt \in KeyTypes /\ st.who \in Who
                   /\ st.form \in {c.f : c \in Conv} \cup {c.t : c \in Conv} \cup {"idx"}
                   /\ (st.form \in ObjForms \cup {"idx"}) = (st.via # "-")
\* vacuity guard (expected to be VIOLATED)
ReachExtracted == ~(st.part = "C" /\ st.form = "pk" /\ st.via = "id" /\ st.sig # NoSig)
=============================================================================
