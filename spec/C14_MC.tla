------------------------------ MODULE C14_MC ------------------------------
EXTENDS C14_ConnMgr, Json

CONSTANTS Profile,   \* which direction/stream assignment of the connections is used
          Prot2,     \* peers for which two protection tags are exercised
          Prot1      \* peers for which one protection tag is exercised (others: none)

AllConnPeer == [p1a |-> "p1", p1b |-> "p1", p2a |-> "p2", p2b |-> "p2", p3a |-> "p3", p3b |-> "p3",
                p4a |-> "p4"]
MCConnPeer == [c \in Conns |-> AllConnPeer[c]]

\* profile 1: everything equal (every tie is a real tie: outbound, no streams)
\* profile 2: the tie-breaks of the sort key decide (streams / direction differ)
\* profile 3: mixed (two connections of p1 with streams, the others tie)
ProfIn == << [p1a |-> FALSE, p1b |-> FALSE, p2a |-> FALSE, p2b |-> FALSE, p3a |-> FALSE, p3b |-> FALSE, p4a |-> FALSE],
             [p1a |-> FALSE, p1b |-> TRUE,  p2a |-> TRUE,  p2b |-> FALSE, p3a |-> FALSE, p3b |-> TRUE,  p4a |-> TRUE],
             [p1a |-> TRUE,  p1b |-> FALSE, p2a |-> FALSE, p2b |-> FALSE, p3a |-> FALSE, p3b |-> FALSE, p4a |-> TRUE] >>
ProfStreams == << [p1a |-> 0, p1b |-> 0, p2a |-> 0, p2b |-> 0, p3a |-> 0, p3b |-> 0, p4a |-> 0],
                  [p1a |-> 2, p1b |-> 0, p2a |-> 1, p2b |-> 1, p3a |-> 0, p3b |-> 3, p4a |-> 2],
                  [p1a |-> 1, p1b |-> 2, p2a |-> 0, p2b |-> 0, p3a |-> 0, p3b |-> 1, p4a |-> 0] >>
\* value classes of the "extreme" scale map (harness: -2 -> math.MinInt, -1 -> -100, 0, 1 -> 100, 2 -> math.MaxInt):
\* order-preserving, so the model's ordering clauses carry over, while real differences leave the int range
MCValsExt == {0 - 2, 0 - 1, 0, 1, 2}
MCConnIn == [c \in Conns |-> ProfIn[Profile][c]]
MCConnStreams == [c \in Conns |-> ProfStreams[Profile][c]]
MCProtTagsOf == [p \in Peers |-> IF p \in Prot2 THEN {"x", "y"} ELSE IF p \in Prot1 THEN {"x"} ELSE {}]

\* JSON-able projection of the VIEW'd state, kept compact because every printed edge carries two of
\* them: << [peer |-> <<kind, conns, tags, value, age, protection tags, decaying tag>>], connCount, phase, dph,
\*          trim in progress <<on, candidates, stale, target, foreign steps>>,
\*          decaying tag <<decay function, bump function, closed>> >>
St == << [p \in Peers |-> <<kind[p], cs[p], tg[p], val[p], age[p], prot[p], dec[p]>>], count, phase, dph,
         <<tr.on, tr.c, tr.s, tr.n, tr.b, tr.u>>, <<dcfg.d, dcfg.b, dcfg.closed>> >>
EmitEdge == PrintT(<<"VFEDGE", ToJson([s |-> St, op |-> op', t |-> St'])>>)
\* the instance's parameters, printed once so that the driver hands the harness exactly what TLC used
Conf == [low |-> Low, high |-> High, grace |-> Grace, maxage |-> MaxAge, silence |-> Silence,
         maxval |-> MaxVal, decaymax |-> DecayMax, decayevery |-> DecayEvery, split |-> Split,
         peers |-> Peers, tags |-> Tags, prot |-> MCProtTagsOf,
         conns |-> [c \in Conns |-> [p |-> MCConnPeer[c], inb |-> MCConnIn[c], st |-> MCConnStreams[c]]]]
MCInit == Init /\ PrintT(<<"VFINIT", ToJson(St)>>) /\ PrintT(<<"VFCONF", ToJson(Conf)>>)
=============================================================================
