-------------------------- MODULE C16_MCInterleave --------------------------
(* Bounded instance + edge printing for part (c) of C16 (C16_Interleave). *)
EXTENDS C16_Interleave, Json
St == [ph |-> ph, acc |-> acc, pacc |-> pacc, dd |-> dd, inProg |-> inProg]
EmitEdge == PrintT(<<"VFEDGE", ToJson([s |-> St, op |-> op', t |-> St'])>>)
MCInit == Init /\ PrintT(<<"VFINIT", ToJson(St)>>)
=============================================================================
