#!/usr/bin/env python3
"""Confirm a seeded change (patch + demonstration) in a scratch worktree and run our check against it.

usage: tools_seed_verify.py <Cxx> <dir with patch.diff, demo_test.go, meta.json> <seeded-id>
Keeps the change as /verif/seeded/<seeded-id>/ (patch.diff, demo, meta.json with what was run and the outcome).
"""
import json
import os
import shutil
import subprocess
import sys

GO = "/root/go/pkg/mod/golang.org/toolchain@v0.0.1-go1.25.7.linux-amd64/bin/go"
ENV = dict(os.environ, GOFLAGS="-mod=mod", GOPROXY="off", GOTOOLCHAIN="local")
ENV.pop("GOSUMDB", None)


def sh(cmd, cwd, timeout=1800, env=None):
    p = subprocess.run(cmd, cwd=cwd, shell=True, stdout=subprocess.PIPE, stderr=subprocess.STDOUT, text=True, errors="replace",
                       timeout=timeout, env=env or ENV)
    return p.returncode, p.stdout


def main():
    pid, src, sid = sys.argv[1], sys.argv[2], sys.argv[3]
    meta = json.load(open(os.path.join(src, "meta.json")))
    wt = "/tmp/sv-%s-%d" % (sid, os.getpid())
    rc, out = sh("git -C /repo worktree add --detach %s HEAD" % wt, "/")
    if rc != 0:
        print(out)
        sys.exit(3)
    result = {"property": pid, "seeded_id": sid}
    demo_src = None
    try:
        demo_path = meta["demo_path"]
        demo_src = os.path.join(src, "demo_test.go")
        if not os.path.exists(demo_src):
            demo_src = os.path.join(src, os.path.basename(demo_path))
        os.makedirs(os.path.dirname(os.path.join(wt, demo_path)), exist_ok=True)
        shutil.copy(demo_src, os.path.join(wt, demo_path))
        run = meta["demo_run"].replace("go test", GO + " test -count=1", 1) if meta["demo_run"].strip().startswith("go test") else meta["demo_run"]
        rc0, out0 = sh(run, wt)
        result["demo_without_change"] = "pass" if rc0 == 0 else "FAIL"
        rc, out = sh("git apply %s" % os.path.join(src, "patch.diff"), wt)
        if rc != 0:
            # the tree has moved on (a fix: commit touched the same lines): try a 3-way merge before giving up
            rc, out = sh("git apply --3way %s" % os.path.join(src, "patch.diff"), wt)
            if rc != 0:
                result["apply"] = "failed: " + out[-500:]
                print("APPLY FAILED for %s: rebase seeded/%s/patch.diff by hand" % (sid, sid))
                raise SystemExit(3)
        rcb, outb = sh(GO + " build ./...", wt)
        result["build_with_change"] = "ok" if rcb == 0 else "FAILED " + outb[-300:]
        rc1, out1 = sh(run, wt)
        result["demo_with_change"] = "fail (as intended)" if rc1 != 0 else "PASSES (demo does not show the break)"
        os.remove(os.path.join(wt, demo_path))
        pk = " ".join(meta.get("existing_tests_run") or [])
        if os.environ.get("VERIF_SV_SKIP_EXISTING"):
            # re-verification after the checks changed: the existing tests were run when the change was first confirmed
            prev = (meta.get("verification") or {}).get("existing_tests_with_change")
            if prev:
                result["existing_tests_with_change"] = prev
            pk = ""
        if pk:
            rc2, out2 = sh(GO + " test -count=1 %s" % pk, wt, timeout=3000)
            result["existing_tests_with_change"] = "pass" if rc2 == 0 else "FAIL: " + out2[-600:]
        env = dict(os.environ, VERIF_REPO=wt)
        rc3, out3 = sh("./check %s" % pid, "/verif", timeout=3000, env=env)
        lines = [l for l in out3.splitlines() if l.startswith(("VIOLATION", "OK ", "MACHINERY", "violation:"))]
        result["check_exit"] = rc3
        result["check_lines"] = [l[:400] for l in lines[:6]]
        result["detected"] = rc3 == 1
    finally:
        sh("git -C /repo worktree remove --force %s" % wt, "/")
    dest = os.path.join("/verif/seeded", sid)
    os.makedirs(dest, exist_ok=True)
    if os.path.realpath(src) != os.path.realpath(dest):
        shutil.copy(os.path.join(src, "patch.diff"), os.path.join(dest, "patch.diff"))
        shutil.copy(demo_src, os.path.join(dest, os.path.basename(meta["demo_path"])))
    meta["verification"] = result
    json.dump(meta, open(os.path.join(dest, "meta.json"), "w"), indent=1)
    print(json.dumps(result, indent=1))


if __name__ == "__main__":
    main()
