//go:build verif

package websocket

// C04, family 5 "transports", WebSocket part.
//
// (1) listener side, inside synctest bubbles, no sockets: the REAL websocket listener (httpNetListener,
// negotiatingConn + handshake time-out, http.Server, ServeHTTP/Upgrade, Accept, Close) under the REAL
// upgrader listener, fed by a fake manet.Listener with in-memory raw connections; the client is gorilla's
// dialer over the other end + newConn + the real upgrader (what maDial/dialWithScope do after the TCP
// dial).  One run per I/O operation index k (dry run) x {err, eof, stall, ctx cancel, listener Close,
// conn Close} x end, plus clients that stay silent / send half a request / a plain GET / garbage
// (handshake time-out, 404, bad request), nobody accepting, resource manager / gater refusing.
//
// (2) dial side, loopback sockets (gorilla's dialer cannot be given a connection), no virtual time:
// the REAL WebsocketTransport.Dial / dialWithScope / maDial against a real websocket listener and
// against misbehaving servers (refused, closes at once, silent until the handshake time-out, answers 200,
// upgrades and closes after n messages), with the resource manager / gater / context refusing.  Verdicts
// only from Stat() right after Dial returned, from the number of socket descriptors of the process and
// from what the server observed; never from elapsed time.

import (
	"context"
	"crypto/rand"
	"encoding/json"
	"fmt"
	"io"
	"log/slog"
	"net"
	"net/http"
	"os"
	"path/filepath"
	"sort"
	"strings"
	"sync"
	"testing"
	"testing/synctest"
	"time"

	ws "github.com/gorilla/websocket"
	"github.com/libp2p/go-libp2p/core/connmgr"
	"github.com/libp2p/go-libp2p/core/control"
	"github.com/libp2p/go-libp2p/core/crypto"
	"github.com/libp2p/go-libp2p/core/network"
	"github.com/libp2p/go-libp2p/core/peer"
	"github.com/libp2p/go-libp2p/core/sec"
	"github.com/libp2p/go-libp2p/core/transport"
	"github.com/libp2p/go-libp2p/internal/vfc04"
	"github.com/libp2p/go-libp2p/internal/vfh"
	rcmgr "github.com/libp2p/go-libp2p/p2p/host/resource-manager"
	"github.com/libp2p/go-libp2p/p2p/muxer/yamux"
	vfupg "github.com/libp2p/go-libp2p/p2p/net/upgrader"
	"github.com/libp2p/go-libp2p/p2p/security/noise"
	ma "github.com/multiformats/go-multiaddr"
	manet "github.com/multiformats/go-multiaddr/net"
)

type vfC04WPlan struct {
	Kind string `json:"kind"`
	Side string `json:"side"` // d | l
	K    int    `json:"k"`
	N    int    `json:"n"` // loopback: messages the fake server reads before it hangs up
	// kind "http": what a raw HTTP client sends during the wsneg stage and what it does after the answer
	Req  string `json:"req"`
	Then string `json:"then"` // close | stall (keep-alive, never hangs up) | second-valid | second-garbage
}

const vfC04WSKey = "dGhlIHNhbXBsZSBub25jZQ=="

// vfC04WSRequests: an upgrade request that is fine, and one variant per validation the server performs
// (net/http's parser, ws.IsWebSocketUpgrade, every check of gorilla's Upgrader.Upgrade before and after the
// hijack), plus HTTP/1.0, a request with a body and pipelined requests.
func vfC04WSRequest(name string) string {
	h := func(first string, hs ...string) string { return first + "\r\n" + strings.Join(hs, "\r\n") + "\r\n\r\n" }
	host, up, conn, key, ver := "Host: x", "Upgrade: websocket", "Connection: Upgrade", "Sec-WebSocket-Key: "+vfC04WSKey, "Sec-WebSocket-Version: 13"
	switch name {
	case "valid":
		return h("GET / HTTP/1.1", host, up, conn, key, ver)
	case "post":
		return h("POST / HTTP/1.1", host, up, conn, key, ver, "Content-Length: 0")
	case "no-upgrade-header":
		return h("GET / HTTP/1.1", host, conn, key, ver)
	case "no-connection-header":
		return h("GET / HTTP/1.1", host, up, key, ver)
	case "connection-keepalive-only":
		return h("GET / HTTP/1.1", host, up, "Connection: keep-alive", key, ver)
	case "dup-tokens":
		return h("GET / HTTP/1.1", host, up, up, "Connection: keep-alive, Upgrade", conn, key, ver)
	case "upgrade-h2c":
		return h("GET / HTTP/1.1", host, "Upgrade: h2c, websocket", conn, key, ver)
	case "no-key":
		return h("GET / HTTP/1.1", host, up, conn, ver)
	case "empty-key":
		return h("GET / HTTP/1.1", host, up, conn, "Sec-WebSocket-Key: ", ver)
	case "short-key":
		return h("GET / HTTP/1.1", host, up, conn, "Sec-WebSocket-Key: c2hvcnQ=", ver)
	case "bad-key":
		return h("GET / HTTP/1.1", host, up, conn, "Sec-WebSocket-Key: !!!not base64!!!", ver)
	case "dup-key":
		return h("GET / HTTP/1.1", host, up, conn, key, key, ver)
	case "no-version":
		return h("GET / HTTP/1.1", host, up, conn, key)
	case "version-12":
		return h("GET / HTTP/1.1", host, up, conn, key, "Sec-WebSocket-Version: 12")
	case "version-junk":
		return h("GET / HTTP/1.1", host, up, conn, key, "Sec-WebSocket-Version: thirteen")
	case "origin-foreign":
		return h("GET / HTTP/1.1", host, up, conn, key, ver, "Origin: http://evil.example")
	case "subprotocol":
		return h("GET / HTTP/1.1", host, up, conn, key, ver, "Sec-WebSocket-Protocol: nope, neither")
	case "extensions":
		return h("GET / HTTP/1.1", host, up, conn, key, ver, "Sec-WebSocket-Extensions: permessage-deflate; junk=1")
	case "response-ext-header":
		return h("GET / HTTP/1.1", host, up, conn, key, ver, "Sec-Websocket-Extensions: x")
	case "http10":
		return h("GET / HTTP/1.0", host, up, conn, key, ver)
	case "http10-no-key":
		return h("GET / HTTP/1.0", host, up, conn, ver)
	case "no-host":
		return h("GET / HTTP/1.1", up, conn, key, ver)
	case "with-body":
		return h("GET / HTTP/1.1", host, up, conn, key, ver, "Content-Length: 5") + "hello"
	case "no-key-with-body":
		return h("GET / HTTP/1.1", host, up, conn, ver, "Content-Length: 5") + "hello"
	case "chunked-body":
		return h("GET / HTTP/1.1", host, up, conn, ver, "Transfer-Encoding: chunked") + "5\r\nhello\r\n"
	case "expect-continue":
		return h("POST / HTTP/1.1", host, up, conn, ver, "Expect: 100-continue", "Content-Length: 5")
	case "pipelined-bad-valid":
		return h("GET / HTTP/1.1", host, up, conn, ver) + h("GET / HTTP/1.1", host, up, conn, key, ver)
	case "pipelined-bad-bad":
		return h("GET / HTTP/1.1", host, up, conn, ver) + h("GET / HTTP/1.1", host, up, conn, key)
	case "pipelined-get-bad":
		return h("GET /a HTTP/1.1", host) + h("GET / HTTP/1.1", host, up, conn, ver)
	case "connection-close-no-key":
		return h("GET / HTTP/1.1", host, up, "Connection: Upgrade, close", ver)
	case "head":
		return h("HEAD / HTTP/1.1", host, up, conn, key, ver)
	case "options-star":
		return h("OPTIONS * HTTP/1.1", host, up, conn, key, ver)
	case "huge-header":
		return h("GET / HTTP/1.1", host, up, conn, ver, "X-Pad: "+strings.Repeat("a", 9000))
	}
	return name
}

var vfC04WSReqNames = []string{"valid", "post", "no-upgrade-header", "no-connection-header", "connection-keepalive-only", "dup-tokens",
	"upgrade-h2c", "no-key", "empty-key", "short-key", "bad-key", "dup-key", "no-version", "version-12", "version-junk", "origin-foreign",
	"subprotocol", "extensions", "response-ext-header", "http10", "http10-no-key", "no-host", "with-body", "no-key-with-body", "chunked-body",
	"expect-continue", "pipelined-bad-valid", "pipelined-bad-bad", "pipelined-get-bad", "connection-close-no-key", "head", "options-star", "huge-header"}

func (p vfC04WPlan) String() string {
	if p.Kind == "http" {
		return "http/" + p.Req + "/" + p.Then
	}
	s := p.Kind
	if p.K > 0 {
		s += fmt.Sprintf("@%s%d", p.Side, p.K)
	}
	if p.N > 0 {
		s += fmt.Sprintf("/n%d", p.N)
	}
	return s
}

type vfC04WOut struct {
	OpsD, OpsL int
	Hit        bool
	Err        string
	Deadlock   string
	Hung       string
	Leaked     []string
}

var vfC04WKeys struct {
	once                sync.Once
	privD, privL, privX crypto.PrivKey
	idD, idL, idX       peer.ID
}

type vfC04WGater struct{ rejectSecured bool }

func (g *vfC04WGater) InterceptPeerDial(peer.ID) bool               { return true }
func (g *vfC04WGater) InterceptAddrDial(peer.ID, ma.Multiaddr) bool { return true }
func (g *vfC04WGater) InterceptAccept(network.ConnMultiaddrs) bool  { return true }
func (g *vfC04WGater) InterceptSecured(network.Direction, peer.ID, network.ConnMultiaddrs) bool {
	return !g.rejectSecured
}
func (g *vfC04WGater) InterceptUpgraded(network.Conn) (bool, control.DisconnectReason) {
	return true, 0
}

func vfC04WUpgrader(t *testing.T, priv crypto.PrivKey, rm network.ResourceManager, g *vfC04WGater, spy *vfc04.MuxSpy) transport.Upgrader {
	var mux network.Multiplexer = yamux.DefaultTransport
	if spy != nil {
		mux = spy
	}
	muxers := []vfupg.StreamMuxer{{ID: yamux.ID, Muxer: mux}}
	st, err := noise.New(noise.ID, priv, muxers)
	if err != nil {
		t.Fatal(err)
	}
	var gg connmgr.ConnectionGater
	if g != nil {
		gg = g
	}
	u, err := vfupg.New([]sec.SecureTransport{st}, muxers, nil, rm, gg)
	if err != nil {
		t.Fatal(err)
	}
	return u
}

// vfC04WSListener mirrors newListener for a plain /ws address with the socket replaced by gmal.
func vfC04WSListener(t *testing.T, gmal transport.GatedMaListener, handshakeTimeout time.Duration) *listener {
	parsed, err := parseWebsocketMultiaddr(gmal.Multiaddr().AppendComponent(wsComponent))
	if err != nil {
		t.Fatal(err)
	}
	parsed.restMultiaddr = gmal.Multiaddr()
	listenAddr := parsed.toMultiaddr()
	wsurl, err := parseMultiaddr(listenAddr)
	if err != nil {
		t.Fatal(err)
	}
	ln := &listener{
		netListener: &httpNetListener{GatedMaListener: gmal, handshakeTimeout: handshakeTimeout},
		laddr:       parsed.toMultiaddr(),
		incoming:    make(chan *Conn),
		closed:      make(chan struct{}),
		isWss:       parsed.isWSS,
		wsurl:       wsurl,
		wsUpgrader: ws.Upgrader{
			CheckOrigin:      func(_ *http.Request) bool { return true },
			HandshakeTimeout: handshakeTimeout,
		},
	}
	ln.server = http.Server{
		Handler:     ln,
		ErrorLog:    slog.NewLogLogger(log.Handler(), slog.LevelDebug),
		ConnContext: ln.ConnContext,
	}
	return ln
}

// --------------------------------------------------------------------------------------------
// (1) bubble part

func vfC04WScenario(t *testing.T, plan vfC04WPlan, tr *vfh.Trace, out *vfC04WOut) {
	led := &vfc04.Ledger{T: tr}
	modL := func(*rcmgr.PartialLimitConfig) {}
	gD, gL := &vfC04WGater{}, &vfC04WGater{}
	switch plan.Kind {
	case "rm-open-l":
		modL = func(c *rcmgr.PartialLimitConfig) { c.System.ConnsInbound = rcmgr.BlockAllLimit }
	case "rm-setpeer-l":
		modL = func(c *rcmgr.PartialLimitConfig) { c.PeerDefault.ConnsInbound = rcmgr.BlockAllLimit }
	case "gater-secured-l":
		gL.rejectSecured = true
	case "gater-secured-d":
		gD.rejectSecured = true
	}
	rmD, err := vfc04.NewRM(nil)
	if err != nil {
		t.Fatal(err)
	}
	rmL, err := vfc04.NewRM(modL)
	if err != nil {
		t.Fatal(err)
	}
	spyL := &vfc04.MuxSpy{Multiplexer: yamux.DefaultTransport}
	uD, uL := vfC04WUpgrader(t, vfC04WKeys.privD, rmD, gD, nil), vfC04WUpgrader(t, vfC04WKeys.privL, rmL, gL, spyL)
	tD, _ := New(uD, rmD, nil)
	tL, _ := New(uL, rmL, nil)
	const lport = 5000
	fl := vfc04.NewListener(lport)
	fl.OnAccept = func(c manet.Conn) { led.RawOpen(c.(*vfc04.End).Name) }
	wl := vfC04WSListener(t, uL.GateMaListener(fl), defaultHandshakeTimeout)
	go wl.serve()
	var ln transport.Listener = &transportListener{Listener: uL.UpgradeGatedMaListener(tL, wl)}
	d, l := vfc04.NewPipe("wd", "wl", 4001, lport)
	for _, e := range []*vfc04.End{d, l} {
		e.OnClose = func(e *vfc04.End, first bool) {
			if first {
				led.RawClose(e.Name)
			}
		}
		e.OnFire = func(e *vfc04.End, k int, op string) {
			out.Hit = true
			tr.Emit("fault", "o", e.Name, "k", k, "op", op, "kind", plan.Kind, "stage", "ws")
		}
	}
	ctx, cancel := context.WithTimeout(context.Background(), 30*time.Second)
	defer cancel()
	var wg sync.WaitGroup
	// (not sync.Once: a second caller would wait on a mutex, which synctest does not treat as durably blocked)
	var lnMu sync.Mutex
	lnStarted, lnDone := false, make(chan struct{})
	closeLn := func(why string) {
		lnMu.Lock()
		first := !lnStarted
		lnStarted = true
		lnMu.Unlock()
		if !first {
			<-lnDone
			return
		}
		tr.Emit("lclose_call", "why", why)
		ln.Close()
		tr.Emit("lclose_ret")
		close(lnDone)
	}
	var mu sync.Mutex
	var connD, connL transport.CapableConn
	if plan.K > 0 {
		e := d
		if plan.Side == "l" {
			e = l
		}
		switch plan.Kind {
		case "err", "eof", "stall":
			e.SetFault(&vfc04.Fault{Kind: plan.Kind, K: plan.K})
		case "cancel":
			e.SetFault(&vfc04.Fault{Kind: "trig", K: plan.K, Trig: cancel})
		case "lclose":
			e.SetFault(&vfc04.Fault{Kind: "trig", K: plan.K, Trig: func() {
				wg.Add(1)
				go func() { defer wg.Done(); closeLn("race") }()
			}})
		case "lclose-sync": // the operation resumes only after the listener's Close has gone as far as it can
			e.SetFault(&vfc04.Fault{Kind: "trig", K: plan.K, Trig: func() {
				closed := make(chan struct{})
				wg.Add(1)
				go func() { defer wg.Done(); closeLn("race"); close(closed) }()
				select {
				case <-closed:
				case <-time.After(time.Second): // Close is waiting for the very goroutine that performs this operation
				}
			}})
		}
	}
	armConnClose := func(side string, c transport.CapableConn) {
		if plan.Kind != "cclose" || plan.Side != side {
			return
		}
		e := d
		if side == "l" {
			e = l
		}
		e.SetFault(&vfc04.Fault{Kind: "trig", K: e.NOps() + plan.K, Trig: func() {
			wg.Add(1)
			go func() { defer wg.Done(); c.Close() }()
		}})
	}
	pingPong := func(c transport.CapableConn, opener bool) error {
		var s network.MuxedStream
		var err error
		if opener {
			sctx, scancel := context.WithTimeout(context.Background(), 20*time.Second)
			defer scancel()
			s, err = c.OpenStream(sctx)
		} else {
			s, err = c.AcceptStream()
		}
		if err != nil {
			return err
		}
		s.SetDeadline(time.Now().Add(20 * time.Second))
		b := make([]byte, 4)
		if opener {
			if _, err = s.Write([]byte("ping")); err == nil {
				_, err = io.ReadFull(s, b)
			}
		} else {
			if _, err = io.ReadFull(s, b); err == nil {
				_, err = s.Write([]byte("pong"))
			}
		}
		if err != nil {
			s.Reset()
			return err
		}
		return s.Close()
	}
	finish := make(chan struct{})
	done := make(chan struct{}, 4)
	accepted := false
	if plan.Kind != "no-accept" {
		wg.Add(1)
		go func() {
			defer wg.Done()
			c, err := ln.Accept()
			if err != nil {
				return
			}
			mu.Lock()
			accepted = true
			connL = c
			mu.Unlock()
			led.Live("wl")
			armConnClose("l", c)
			perr := pingPong(c, false)
			tr.Emit("pingpong", "o", "wl", "ok", perr == nil)
			done <- struct{}{}
			<-finish
			c.Close()
			led.End("wl", "closed", "up")
		}()
	}
	led.Begin("wl", "conn", "in", "l", true)
	led.Begin("wd", "conn", "out", "d", true)
	handed := false
	netDial := func(_, _ string) (net.Conn, error) {
		handed = true
		led.RawOpen("wd")
		fl.Ch <- l
		return d, nil
	}
	wg.Add(1)
	go func() {
		defer wg.Done()
		fail := func(why string, err error) {
			out.Err = err.Error()
			led.End("wd", why, "")
			done <- struct{}{}
			done <- struct{}{}
		}
		switch plan.Kind {
		case "http":
			// a raw HTTP client: one request of the family, then close / keep-alive stall / a second request
			c, _ := netDial("", "")
			c.Write([]byte(vfC04WSRequest(plan.Req)))
			readAnswer := func() string {
				var got []byte
				b := make([]byte, 512)
				c.SetReadDeadline(time.Now().Add(5 * time.Second))
				for !strings.Contains(string(got), "\r\n\r\n") {
					n, err := c.Read(b)
					got = append(got, b[:n]...)
					if err != nil {
						break
					}
				}
				c.SetReadDeadline(time.Time{})
				if i := strings.Index(string(got), "\r\n"); i > 0 {
					return string(got[:i])
				}
				return "(no answer)"
			}
			st := readAnswer()
			out.Hit = true
			tr.Emit("note", "what", "http-answer", "status", st)
			switch plan.Then {
			case "close":
				c.Close()
				fail("raw-http-client", fmt.Errorf("vf: %s -> %s", plan.Req, st))
				return
			case "second-valid":
				c.Write([]byte(vfC04WSRequest("valid")))
				tr.Emit("note", "what", "http-answer-2", "status", readAnswer())
			case "second-garbage":
				c.Write([]byte("\x00\x01 garbage after the first request\r\n\r\n"))
			}
			b := make([]byte, 512)
			for {
				if _, err := c.Read(b); err != nil { // until the server hangs up; this client never does
					break
				}
			}
			c.Close()
			fail("raw-http-client", fmt.Errorf("vf: %s -> %s", plan.Req, st))
			return
		case "silent", "half-request", "http-get", "garbage":
			// not a websocket client at all
			c, _ := netDial("", "")
			switch plan.Kind {
			case "half-request":
				c.Write([]byte("GET / HTTP/1.1\r\nHost: x\r\nUpgra"))
			case "http-get":
				c.Write([]byte("GET /index.html HTTP/1.1\r\nHost: x\r\n\r\n"))
			case "garbage":
				c.Write([]byte("\x00\x01\x02 not http at all\r\n\r\n"))
			}
			b := make([]byte, 512)
			for {
				if _, err := c.Read(b); err != nil { // until the server hangs up; this client never does
					break
				}
			}
			c.Close()
			fail("not-a-ws-client", fmt.Errorf("vf: %s", plan.Kind))
			return
		}
		raddr := ma.StringCast(fmt.Sprintf("/ip4/127.0.0.1/tcp/%d/ws", lport))
		scope, err := rmD.OpenConnection(network.DirOutbound, true, raddr)
		if err != nil {
			fail("rm-open", err)
			return
		}
		// maDial with the TCP dial replaced
		dialer := ws.Dialer{HandshakeTimeout: tD.handshakeTimeout, NetDial: netDial}
		wscon, _, err := dialer.DialContext(ctx, fmt.Sprintf("ws://127.0.0.1:%d", lport), nil)
		if err != nil {
			scope.Done()
			fail("ws-dial-error", err)
			return
		}
		mnc, err := manet.WrapNetConn(newConn(wscon, false, scope))
		if err != nil {
			wscon.Close()
			scope.Done()
			fail("wrap", err)
			return
		}
		// dialWithScope / Dial
		c, err := tD.upgrader.Upgrade(ctx, tD, mnc, network.DirOutbound, vfC04WKeys.idL, scope)
		if err != nil {
			scope.Done()
			fail("upgrade-error", err)
			return
		}
		var cc transport.CapableConn = &capableConn{CapableConn: c}
		mu.Lock()
		connD = cc
		mu.Unlock()
		led.Live("wd")
		armConnClose("d", cc)
		perr := pingPong(cc, true)
		tr.Emit("pingpong", "o", "wd", "ok", perr == nil)
		done <- struct{}{}
		<-finish
		cc.Close()
		led.End("wd", "closed", "up")
	}()
	deadline := time.After(3 * time.Minute)
	got := 0
wait:
	for got < 2 {
		select {
		case <-done:
			got++
		case <-deadline:
			break wait
		}
	}
	if plan.Kind == "none" {
		synctest.Wait()
		out.OpsD, out.OpsL = d.NOps(), l.NOps()
	}
	_, _ = connD, connL
	switch plan.Kind {
	case "silent", "half-request", "http-get", "garbage", "http":
		// three minutes have passed, the handshake time-out is 15 s: the listener has given this attempt up
		// by itself (the client is still connected and will never hang up)
		synctest.Wait()
		mu.Lock()
		accepted = true // (accounted for here)
		mu.Unlock()
		led.End("wl", "handshake-timeout-elapsed", "")
		led.Audit("l", false, vfc04.ReadUsage(rmL), 0)
	}
	close(finish)
	closeLn("end")
	wg.Wait()
	synctest.Wait()
	mu.Lock()
	acc := accepted
	mu.Unlock()
	if !acc {
		led.End("wl", "listener-closed", spyL.Stage(l))
	}
	for _, c := range fl.Pending() {
		e := c.(*vfc04.End)
		tr.Emit("raw_returned", "o", e.Name)
		e.OnClose = nil
		e.Close()
	}
	if !handed {
		d.OnClose, l.OnClose = nil, nil
	}
	for _, e := range []*vfc04.End{d, l} {
		if !e.ClosedByCode() {
			e.OnClose = nil
			e.Close()
		}
	}
	synctest.Wait()
	time.Sleep(30 * time.Second) // http.Server's own connection bookkeeping
	synctest.Wait()
	rmD.Close()
	rmL.Close()
	synctest.Wait()
	out.Leaked = vfc04.Census()
	switch plan.Kind {
	case "none", "err", "eof", "stall", "cancel", "lclose", "lclose-sync", "cclose", "http":
	case "no-accept", "rm-open-l", "rm-setpeer-l", "gater-secured-l":
		out.Hit = !acc
	default:
		out.Hit = out.Err != ""
	}
	led.Audit("d", true, vfc04.ReadUsage(rmD), len(out.Leaked))
	led.Audit("l", true, vfc04.ReadUsage(rmL), 0)
}

func vfC04WRun(t *testing.T, plan vfC04WPlan, tr *vfh.Trace) vfC04WOut {
	out := &vfC04WOut{}
	dl, hung := vfc04.RunBubble(t, 30*time.Second, func(t *testing.T) { vfC04WScenario(t, plan, tr, out) })
	if dl != "" {
		out.Deadlock = dl
		tr.Emit("deadlock", "msg", dl)
	}
	o := *out
	o.Hung = hung
	return o
}

// --------------------------------------------------------------------------------------------
// (2) loopback part

func vfC04SockFDs() int {
	ents, err := os.ReadDir("/proc/self/fd")
	if err != nil {
		return -1
	}
	n := 0
	for _, e := range ents {
		if l, err := os.Readlink("/proc/self/fd/" + e.Name()); err == nil && strings.HasPrefix(l, "socket:") {
			n++
		}
	}
	return n
}

// vfC04Settle waits (bounded) until f holds; the verdict is whatever is observed afterwards
func vfC04Settle(f func() bool) bool {
	for i := 0; i < 2000; i++ {
		if f() {
			return true
		}
		time.Sleep(10 * time.Millisecond)
	}
	return f()
}

func vfC04WLoopback(t *testing.T, plan vfC04WPlan, tr *vfh.Trace, out *vfC04WOut) {
	led := &vfc04.Ledger{T: tr}
	base := vfC04SockFDs()
	modD := func(*rcmgr.PartialLimitConfig) {}
	gD := &vfC04WGater{}
	switch plan.Kind {
	case "lo-rm-open":
		modD = func(c *rcmgr.PartialLimitConfig) { c.System.ConnsOutbound = rcmgr.BlockAllLimit }
	case "lo-rm-setpeer":
		modD = func(c *rcmgr.PartialLimitConfig) { c.PeerDefault.ConnsOutbound = rcmgr.BlockAllLimit }
	case "lo-gater-secured":
		gD.rejectSecured = true
	}
	rmD, _ := vfc04.NewRM(modD)
	rmL, _ := vfc04.NewRM(nil)
	defer rmD.Close()
	defer rmL.Close()
	tD, err := New(vfC04WUpgrader(t, vfC04WKeys.privD, rmD, gD, nil), rmD, nil, WithHandshakeTimeout(400*time.Millisecond))
	if err != nil {
		t.Fatal(err)
	}
	var raddr ma.Multiaddr
	var stop []func()
	real := false
	var acceptedMu sync.Mutex
	var acceptedConns []transport.CapableConn
	serverSaw := make(chan string, 8) // what a fake server observed on its connection: "closed" when the client hung up
	switch plan.Kind {
	case "lo-refused":
		l, _ := net.Listen("tcp", "127.0.0.1:0")
		raddr, _ = manet.FromNetAddr(l.Addr())
		raddr = raddr.AppendComponent(wsComponent)
		l.Close()
	case "lo-tcp-close", "lo-tcp-silent", "lo-http-200", "lo-ws-then-close":
		l, err := net.Listen("tcp", "127.0.0.1:0")
		if err != nil {
			t.Fatal(err)
		}
		raddr, _ = manet.FromNetAddr(l.Addr())
		raddr = raddr.AppendComponent(wsComponent)
		release := make(chan struct{})
		var swg sync.WaitGroup
		stop = append(stop, func() { close(release); l.Close(); swg.Wait() })
		watch := func(c net.Conn) { // report when the client closes its end
			b := make([]byte, 256)
			for {
				c.SetReadDeadline(time.Now().Add(30 * time.Second))
				if _, err := c.Read(b); err != nil {
					if os.IsTimeout(err) {
						serverSaw <- "open"
					} else {
						serverSaw <- "closed"
					}
					return
				}
			}
		}
		if plan.Kind == "lo-ws-then-close" {
			up := ws.Upgrader{CheckOrigin: func(*http.Request) bool { return true }}
			srv := &http.Server{Handler: http.HandlerFunc(func(w http.ResponseWriter, r *http.Request) {
				c, err := up.Upgrade(w, r, nil)
				if err != nil {
					return
				}
				for i := 0; i < plan.N; i++ {
					if _, _, err := c.ReadMessage(); err != nil {
						break
					}
				}
				c.UnderlyingConn().Close()
				serverSaw <- "server-closed"
			})}
			swg.Add(1)
			go func() { defer swg.Done(); srv.Serve(l) }()
			stop = append(stop, func() { srv.Close() })
			break
		}
		swg.Add(1)
		go func() {
			defer swg.Done()
			for {
				c, err := l.Accept()
				if err != nil {
					return
				}
				switch plan.Kind {
				case "lo-tcp-close":
					c.Close()
					serverSaw <- "server-closed"
				case "lo-http-200":
					c.Write([]byte("HTTP/1.1 200 OK\r\nContent-Length: 0\r\n\r\n"))
					swg.Add(1)
					go func() { defer swg.Done(); watch(c); c.Close() }()
				case "lo-tcp-silent":
					swg.Add(1)
					go func() { defer swg.Done(); watch(c); c.Close() }()
				}
			}
		}()
	default:
		real = true
		tL, err := New(vfC04WUpgrader(t, vfC04WKeys.privL, rmL, nil, nil), rmL, nil)
		if err != nil {
			t.Fatal(err)
		}
		ln, err := tL.Listen(ma.StringCast("/ip4/127.0.0.1/tcp/0/ws"))
		if err != nil {
			t.Fatal(err)
		}
		raddr = ln.Multiaddr()
		var awg sync.WaitGroup
		awg.Add(1)
		go func() {
			defer awg.Done()
			for {
				c, err := ln.Accept()
				if err != nil {
					return
				}
				acceptedMu.Lock()
				acceptedConns = append(acceptedConns, c)
				first := len(acceptedConns) == 1
				acceptedMu.Unlock()
				if first {
					led.Live("wl")
				}
			}
		}()
		stop = append(stop, func() {
			tr.Emit("lclose_call", "why", "end")
			ln.Close()
			tr.Emit("lclose_ret")
			awg.Wait()
		})
	}
	led.Begin("wd", "conn", "out", "d", true)
	if real {
		led.Begin("wl", "conn", "in", "l", true)
	}
	dialTimeout := 8 * time.Second // drives the scenario only
	if plan.Kind == "lo-ws-then-close" {
		dialTimeout = 1500 * time.Millisecond // the fake server may go silent: do not sit out the long time-out
	}
	ctx, cancel := context.WithTimeout(context.Background(), dialTimeout)
	defer cancel()
	p := vfC04WKeys.idL
	switch plan.Kind {
	case "lo-wrong-peer":
		p = vfC04WKeys.idX
	case "lo-ctx-cancelled":
		cancel()
	}
	led.RawOpen("wd")
	t0 := time.Now()
	c, err := tD.Dial(ctx, raddr, p)
	tr.Emit("note", "what", "dial-returned", "ms", time.Since(t0).Milliseconds())
	if (c == nil) == (err == nil) {
		tr.Emit("bad_return", "o", "wd")
	}
	if err != nil {
		out.Err = err.Error()
		led.End("wd", "dial-error", "")
		// the scope is released before Dial returns: no settling here
		led.Audit("d", false, vfc04.ReadUsage(rmD), 0)
	} else {
		led.Live("wd")
		led.Audit("d", false, vfc04.ReadUsage(rmD), 0)
		c.Close()
		led.End("wd", "closed", "up")
		led.Audit("d", false, vfc04.ReadUsage(rmD), 0)
	}
	// what the fake server saw of the client's socket
	if !real && plan.Kind != "lo-refused" && plan.Kind != "lo-rm-open" {
		select {
		case s := <-serverSaw:
			tr.Emit("note", "what", "server-saw", "s", s)
			if s == "open" {
				tr.Emit("note", "what", "client-socket-still-open-after-dial-error")
			}
		case <-time.After(40 * time.Second):
			tr.Emit("note", "what", "server-saw", "s", "nothing")
		}
	}
	// stop the servers first: after the listener's Close has returned nothing can be accepted any more
	for i := len(stop) - 1; i >= 0; i-- {
		stop[i]()
	}
	if real {
		acceptedMu.Lock()
		for _, ac := range acceptedConns {
			ac.Close()
		}
		n := len(acceptedConns)
		acceptedMu.Unlock()
		if n > 0 {
			led.End("wl", "closed", "up")
		} else {
			led.End("wl", "listener-closed", "")
		}
		if n > 1 {
			tr.Emit("bad_accept", "addr", fmt.Sprintf("%d connections accepted for one dial", n))
		}
		vfC04Settle(func() bool { u := vfc04.ReadUsage(rmL); return u.Sys[2] == 0 && u.Sys[4] == 0 })
	}
	// every socket this scenario opened is closed again
	if vfC04Settle(func() bool { return vfC04SockFDs() <= base }) {
		led.RawClose("wd")
	} else {
		tr.Emit("note", "what", "socket-descriptors", "before", base, "after", vfC04SockFDs())
	}
	out.Hit = plan.Kind == "lo-ok" || out.Err != ""
	tr.Emit("note", "what", "scenario-done", "ms", time.Since(t0).Milliseconds())
	led.Audit("d", true, vfc04.ReadUsage(rmD), 0)
	led.Audit("l", true, vfc04.ReadUsage(rmL), 0)
}

func TestVerifC04Websocket(t *testing.T) {
	vfC04WKeys.once.Do(func() {
		vfC04WKeys.privD, _, _ = crypto.GenerateEd25519Key(rand.Reader)
		vfC04WKeys.privL, _, _ = crypto.GenerateEd25519Key(rand.Reader)
		vfC04WKeys.privX, _, _ = crypto.GenerateEd25519Key(rand.Reader)
		vfC04WKeys.idD, _ = peer.IDFromPrivateKey(vfC04WKeys.privD)
		vfC04WKeys.idL, _ = peer.IDFromPrivateKey(vfC04WKeys.privL)
		vfC04WKeys.idX, _ = peer.IDFromPrivateKey(vfC04WKeys.privX)
	})
	res := vfh.NewResult()
	defer func() {
		if err := res.Write(); err != nil {
			t.Fatal(err)
		}
	}()
	res.Rule = "one evaluation = one websocket connection attempt with one fault: (bubble) the real websocket listener + upgrader listener over an in-memory raw connection, I/O operation index k (dry run) x {err, eof, stall, ctx cancel, listener Close, conn Close} x end, or a client that is silent / sends half a request / a plain GET / garbage, nobody accepting, rcmgr / gater refusing; (loopback) the real WebsocketTransport.Dial against a real listener or a misbehaving server (refused, hangs up, silent, answers 200, upgrades then hangs up after n messages), rcmgr / gater / context / wrong peer; non-trivial = the fault fired; distinct = distinct (kind, end, read|write, n) tuples that fired"
	path := ""
	if vfh.Out() != "" {
		path = filepath.Join(vfh.Out(), "c04_ws.ndjson")
		os.Remove(path)
	}
	evals, hits, idx, stuck := 0, 0, 0, 0
	exits := map[string]bool{}
	run := func(plan vfC04WPlan) vfC04WOut {
		if stuck >= 4 {
			res.Inc("skipped_after_stuck", 1)
			return vfC04WOut{}
		}
		tr := vfh.NewTrace(fmt.Sprintf("w%d", idx))
		idx++
		var out vfC04WOut
		if strings.HasPrefix(plan.Kind, "lo-") {
			vfC04WLoopback(t, plan, tr, &out)
		} else {
			out = vfC04WRun(t, plan, tr)
		}
		evals++
		res.Count(1, tr.Len())
		if out.Hit {
			hits++
			res.Case(fmt.Sprintf("%s|%s|%d|%s|%s", plan.Kind, plan.Side, plan.N, plan.Req, plan.Then))
			exits["ws|"+plan.Kind] = true
		}
		if path != "" {
			if err := tr.AppendTo(path, map[string]any{"family": "ws", "cfg": "ws/noise/yamux", "plan": plan.String(), "kind": plan.Kind,
				"side": plan.Side, "k": plan.K, "hit": out.Hit, "stage": "ws", "p": plan, "hang": out.Hung}); err != nil {
				t.Fatal(err)
			}
		}
		if out.Deadlock != "" || len(out.Leaked) > 0 || out.Hung != "" {
			res.Sample(map[string]any{"plan": plan.String(), "deadlock": out.Deadlock, "leaked": out.Leaked, "hung": out.Hung})
		}
		if out.Hung != "" {
			res.Inc("hangs", 1)
		}
		if out.Hung != "" || out.Deadlock != "" {
			stuck++
		}
		return out
	}
	if only := os.Getenv("VERIF_C04_ONLY"); only != "" {
		var plan vfC04WPlan
		if err := json.Unmarshal([]byte(only), &plan); err != nil {
			t.Fatal(err)
		}
		for r := 0; r < vfh.EnvInt("VERIF_C04_REPEAT", 1); r++ {
			out := run(plan)
			t.Logf("%s -> %+v", plan, out)
		}
		res.Set("evaluations", evals)
		res.Traces = []string{path}
		return
	}
	dry := run(vfC04WPlan{Kind: "none"})
	if dry.Deadlock != "" && dry.Err == "" {
		res.Inc("skipped_after_stuck", 1)
		res.Set("evaluations", evals)
		res.Traces = []string{path}
		return
	}
	if dry.Err != "" || dry.OpsD == 0 || dry.Hung != "" {
		t.Fatalf("websocket dry run failed: %+v", dry)
	}
	res.Set("ops/ws", []int{dry.OpsD, dry.OpsL})
	for _, k := range []string{"silent", "half-request", "http-get", "garbage", "no-accept", "rm-open-l", "rm-setpeer-l", "gater-secured-l", "gater-secured-d"} {
		run(vfC04WPlan{Kind: k})
	}
	// the client side of the websocket negotiation: every HTTP-level outcome x what the client does next
	thens := []string{"stall", "close", "second-valid", "second-garbage"}
	for i, req := range vfC04WSReqNames {
		for j, then := range thens {
			if !vfh.Thorough() && then != "stall" && (i+j)%3 != int(vfh.Seed())%3 {
				continue // quick: every request with a keep-alive stall, a seeded third of the other continuations
			}
			run(vfC04WPlan{Kind: "http", Req: req, Then: then})
		}
	}
	for _, side := range []string{"d", "l"} {
		n := dry.OpsD
		if side == "l" {
			n = dry.OpsL
		}
		for k := 1; k <= n+1; k++ {
			for _, kind := range []string{"err", "eof", "stall"} {
				run(vfC04WPlan{Kind: kind, Side: side, K: k})
			}
			if side == "d" {
				run(vfC04WPlan{Kind: "cancel", Side: side, K: k})
			} else {
				run(vfC04WPlan{Kind: "lclose", Side: side, K: k})
				run(vfC04WPlan{Kind: "lclose-sync", Side: side, K: k})
			}
		}
		for k := 1; k <= 6; k++ {
			run(vfC04WPlan{Kind: "cclose", Side: side, K: k})
		}
	}
	// loopback sockets: the real Dial path
	for _, k := range []string{"lo-ok", "lo-refused", "lo-tcp-close", "lo-tcp-silent", "lo-http-200", "lo-rm-open", "lo-rm-setpeer",
		"lo-gater-secured", "lo-wrong-peer", "lo-ctx-cancelled"} {
		run(vfC04WPlan{Kind: k})
	}
	nmax := 2
	if vfh.Thorough() {
		nmax = 6
	}
	for n := 0; n <= nmax; n++ {
		run(vfC04WPlan{Kind: "lo-ws-then-close", N: n})
	}
	tr := vfh.NewTrace("sample")
	vfC04WRun(t, vfC04WPlan{Kind: "silent"}, tr)
	res.Sample(map[string]any{"plan": "silent", "events": tr.Events()})
	res.Set("evaluations", evals)
	res.Set("fired", hits)
	keys := make([]string, 0, len(exits))
	for k := range exits {
		keys = append(keys, k)
	}
	sort.Strings(keys)
	res.Set("exits", keys)
	if path != "" {
		res.Traces = []string{path}
	}
}
