//go:build verif

package libp2pquic

// C04, family 5 "transports", QUIC part: two REAL QUIC transports (real quicreuse.ConnManager, real
// quic-go, real resource managers, a recording gater) on an in-memory UDP network (internal/vfc04
// PacketNet through quicreuse.OverrideListenUDP), every scenario in its own synctest bubble (virtual
// time: handshake, idle and hole-punch time-outs run out by themselves).  Every exit of Dial /
// dialWithScope and of listener.Accept / wrapConn is taken (resource manager refusing OpenConnection /
// SetPeer on either side, with the connection scope opened by quicreuse's ConnContext as libp2p.New does
// or by the listener itself; no listener; wrong remote key; gater hooks rejecting on either side; context
// cancelled / listener closed / connection closed at datagram k; the path black-holed from datagram k of
// either side, k over a fault-free dry run), plus the hole-punch path (time-out, cancel, duplicate,
// success) and Close of listeners with connections in flight.  Audited: Stat() of both managers, the
// transport's own bookkeeping (conns, holePunching, listeners maps), datagram silence after everything
// was closed, UDP endpoints closed, goroutine census.  Ledgers are validated against spec/C04_Obs.tla.

import (
	"context"
	"crypto/rand"
	"encoding/json"
	"fmt"
	"io"
	"net"
	"os"
	"path/filepath"
	"sort"
	"strings"
	"sync"
	"testing"
	"testing/synctest"
	"time"

	"github.com/libp2p/go-libp2p/core/control"
	"github.com/libp2p/go-libp2p/core/crypto"
	"github.com/libp2p/go-libp2p/core/network"
	"github.com/libp2p/go-libp2p/core/peer"
	tpt "github.com/libp2p/go-libp2p/core/transport"
	"github.com/libp2p/go-libp2p/internal/vfc04"
	"github.com/libp2p/go-libp2p/internal/vfh"
	rcmgr "github.com/libp2p/go-libp2p/p2p/host/resource-manager"
	"github.com/libp2p/go-libp2p/p2p/transport/quicreuse"
	ma "github.com/multiformats/go-multiaddr"
	"github.com/quic-go/quic-go"
)

type vfC04QPlan struct {
	Kind    string `json:"kind"`
	Side    string `json:"side"` // a | b
	K       int    `json:"k"`
	CtxOpen bool   `json:"ctx_open"` // the inbound scope is opened by quicreuse's ConnContext (as libp2p.New configures it)
}

func (p vfC04QPlan) String() string {
	s := p.Kind
	if p.K > 0 {
		s += fmt.Sprintf("@%s%d", p.Side, p.K)
	}
	if p.CtxOpen {
		s += "/ctxscope"
	}
	return s
}

type vfC04QOut struct {
	PktA, PktB int
	Hit        bool
	Err        string
	Deadlock   string
	Hung       string
	Leaked     []string
}

var vfC04QKeys struct {
	once                sync.Once
	privA, privB, privC crypto.PrivKey
	idA, idB, idC       peer.ID
}

type vfC04QSel struct{}

func (vfC04QSel) PreferredSourceIPForDestination(*net.UDPAddr) (net.IP, error) {
	return net.IPv4(127, 0, 0, 1), nil
}

type vfC04QGater struct {
	mu            sync.Mutex
	rejectAccept  bool
	rejectSecured bool
	rejected      int
}

func (g *vfC04QGater) InterceptPeerDial(peer.ID) bool               { return true }
func (g *vfC04QGater) InterceptAddrDial(peer.ID, ma.Multiaddr) bool { return true }
func (g *vfC04QGater) InterceptAccept(network.ConnMultiaddrs) bool {
	g.mu.Lock()
	defer g.mu.Unlock()
	if g.rejectAccept {
		g.rejected++
	}
	return !g.rejectAccept
}
func (g *vfC04QGater) InterceptSecured(network.Direction, peer.ID, network.ConnMultiaddrs) bool {
	g.mu.Lock()
	defer g.mu.Unlock()
	if g.rejectSecured {
		g.rejected++
	}
	return !g.rejectSecured
}
func (g *vfC04QGater) InterceptUpgraded(network.Conn) (bool, control.DisconnectReason) {
	return true, 0
}

type vfC04QNode struct {
	name string
	rm   network.ResourceManager
	cm   *quicreuse.ConnManager
	tr   *transport
	g    *vfC04QGater
}

func vfC04QMkNode(t *testing.T, pn *vfc04.PacketNet, name string, priv crypto.PrivKey, mod func(*rcmgr.PartialLimitConfig), ctxOpen bool) *vfC04QNode {
	rm, err := vfc04.NewRM(mod)
	if err != nil {
		t.Fatal(err)
	}
	opts := []quicreuse.Option{
		quicreuse.OverrideSourceIPSelector(func() (quicreuse.SourceIPSelector, error) { return vfC04QSel{}, nil }),
		quicreuse.OverrideListenUDP(func(_ string, a *net.UDPAddr) (net.PacketConn, error) { return pn.Listen(name, a) }),
	}
	if ctxOpen {
		// what config.go installs for libp2p.New
		opts = append(opts, quicreuse.ConnContext(func(ctx context.Context, ci *quic.ClientInfo) (context.Context, error) {
			addr, err := quicreuse.ToQuicMultiaddr(ci.RemoteAddr, quic.Version1)
			if err != nil {
				addr = nil
			}
			scope, err := rm.OpenConnection(network.DirInbound, false, addr)
			if err != nil {
				return ctx, err
			}
			ctx = network.WithConnManagementScope(ctx, scope)
			context.AfterFunc(ctx, func() { scope.Done() })
			return ctx, nil
		}))
	}
	var srk quic.StatelessResetKey
	var tk quic.TokenGeneratorKey
	copy(srk[:], []byte(name+"-stateless-reset-key-0123456789abcdef"))
	copy(tk[:], []byte(name+"-token-generator-key-0123456789abcdef"))
	cm, err := quicreuse.NewConnManager(srk, tk, opts...)
	if err != nil {
		t.Fatal(err)
	}
	g := &vfC04QGater{}
	tr, err := NewTransport(priv, cm, nil, g, rm)
	if err != nil {
		t.Fatal(err)
	}
	return &vfC04QNode{name: name, rm: rm, cm: cm, tr: tr.(*transport), g: g}
}

func (n *vfC04QNode) residue() (conns, hp, lst int) {
	n.tr.connMx.Lock()
	conns = len(n.tr.conns)
	n.tr.connMx.Unlock()
	n.tr.holePunchingMx.Lock()
	hp = len(n.tr.holePunching)
	n.tr.holePunchingMx.Unlock()
	n.tr.listenersMu.Lock()
	lst = len(n.tr.listeners)
	n.tr.listenersMu.Unlock()
	return
}

const (
	vfC04QAddrA = "/ip4/127.0.0.1/udp/9001/quic-v1"
	vfC04QAddrB = "/ip4/127.0.0.1/udp/9002/quic-v1"
)

func vfC04QScenario(t *testing.T, plan vfC04QPlan, tr *vfh.Trace, out *vfC04QOut) {
	led := &vfc04.Ledger{T: tr}
	pn := vfc04.NewPacketNet()
	modA := func(*rcmgr.PartialLimitConfig) {}
	modB := func(*rcmgr.PartialLimitConfig) {}
	switch plan.Kind {
	case "rm-open-a":
		modA = func(c *rcmgr.PartialLimitConfig) { c.System.ConnsOutbound = rcmgr.BlockAllLimit }
	case "rm-setpeer-a":
		modA = func(c *rcmgr.PartialLimitConfig) { c.PeerDefault.ConnsOutbound = rcmgr.BlockAllLimit }
	case "rm-open-b":
		modB = func(c *rcmgr.PartialLimitConfig) { c.System.ConnsInbound = rcmgr.BlockAllLimit }
	case "rm-setpeer-b":
		modB = func(c *rcmgr.PartialLimitConfig) { c.PeerDefault.ConnsInbound = rcmgr.BlockAllLimit }
	}
	A := vfC04QMkNode(t, pn, "a", vfC04QKeys.privA, modA, plan.CtxOpen)
	B := vfC04QMkNode(t, pn, "b", vfC04QKeys.privB, modB, plan.CtxOpen)
	switch plan.Kind {
	case "gater-secured-a":
		A.g.rejectSecured = true
	case "gater-accept-b":
		B.g.rejectAccept = true
	case "gater-secured-b":
		B.g.rejectSecured = true
	}
	hp := strings.HasPrefix(plan.Kind, "hp-")
	var lnA, lnB tpt.Listener
	var err error
	if plan.Kind != "no-listener" {
		lnB, err = B.tr.Listen(ma.StringCast(vfC04QAddrB))
		if err != nil {
			t.Fatal(err)
		}
	}
	if hp || plan.Kind == "both-listen" {
		lnA, err = A.tr.Listen(ma.StringCast(vfC04QAddrA))
		if err != nil {
			t.Fatal(err)
		}
	}
	var wg sync.WaitGroup
	finish := make(chan struct{})
	done := make(chan struct{}, 8)
	var mu sync.Mutex
	ended := map[string]bool{}
	lived := map[string]bool{}
	endOnce := func(o, why string) {
		mu.Lock()
		was := ended[o]
		ended[o] = true
		mu.Unlock()
		if !was {
			led.End(o, why, "")
		}
	}
	liveOnce := func(o string) bool {
		mu.Lock()
		defer mu.Unlock()
		if lived[o] || ended[o] {
			return false
		}
		lived[o] = true
		return true
	}
	ctx, cancel := context.WithTimeout(context.Background(), 10*time.Second)
	defer cancel()
	var lnMu sync.Mutex
	lnStarted, lnDone := false, make(chan struct{})
	closeLnB := func() { // (not sync.Once: waiting on its mutex is not durably blocked for synctest)
		lnMu.Lock()
		first := !lnStarted
		lnStarted = true
		lnMu.Unlock()
		if !first {
			<-lnDone
			return
		}
		if lnB != nil {
			tr.Emit("lclose_call", "why", "b")
			lnB.Close()
			tr.Emit("lclose_ret")
		}
		close(lnDone)
	}
	var connA, connB tpt.CapableConn
	rawSeen := map[string]bool{}
	abandoned := map[string]bool{}
	pn.OnSend = func(from string, n int) {
		mu.Lock()
		first := !rawSeen[from]
		rawSeen[from] = true
		mu.Unlock()
		if first {
			led.RawOpen("q" + from)
		}
		if plan.K > 0 && from == plan.Side && n == plan.K {
			switch plan.Kind {
			case "cancel":
				out.Hit = true
				tr.Emit("fault", "o", "q"+from, "k", n, "op", "w", "kind", plan.Kind, "stage", "quic")
				cancel()
			case "lclose":
				out.Hit = true
				tr.Emit("fault", "o", "q"+from, "k", n, "op", "w", "kind", plan.Kind, "stage", "quic")
				wg.Add(1)
				go func() { defer wg.Done(); closeLnB() }()
			case "cclose":
				mu.Lock()
				c := connA
				if from == "b" {
					c = connB
				}
				mu.Unlock()
				if c != nil {
					out.Hit = true
					tr.Emit("fault", "o", "q"+from, "k", n, "op", "w", "kind", plan.Kind, "stage", "quic")
					wg.Add(1)
					go func() { defer wg.Done(); c.Close() }()
				}
			case "drop":
				out.Hit = true
				tr.Emit("fault", "o", "q"+from, "k", n, "op", "w", "kind", plan.Kind, "stage", "quic")
			}
		}
	}
	if plan.Kind == "drop" && plan.K > 0 {
		pn.DropFrom[plan.Side] = plan.K
	}

	pingPong := func(c tpt.CapableConn, opener bool) error {
		if opener {
			sctx, scancel := context.WithTimeout(context.Background(), 10*time.Second)
			defer scancel()
			s, err := c.OpenStream(sctx)
			if err != nil {
				return err
			}
			s.SetDeadline(time.Now().Add(10 * time.Second))
			if _, err := s.Write([]byte("ping")); err != nil {
				s.Reset()
				return err
			}
			b := make([]byte, 4)
			if _, err := io.ReadFull(s, b); err != nil {
				s.Reset()
				return err
			}
			return s.Close()
		}
		s, err := c.AcceptStream()
		if err != nil {
			return err
		}
		s.SetDeadline(time.Now().Add(10 * time.Second))
		b := make([]byte, 4)
		if _, err := io.ReadFull(s, b); err != nil {
			s.Reset()
			return err
		}
		if _, err := s.Write([]byte("pong")); err != nil {
			s.Reset()
			return err
		}
		return s.Close()
	}
	hold := func(o string, c tpt.CapableConn, opener bool) {
		defer wg.Done()
		perr := pingPong(c, opener)
		tr.Emit("pingpong", "o", o, "ok", perr == nil)
		done <- struct{}{}
		<-finish
		c.Close()
		endOnce(o, "closed")
	}
	acceptLoop := func(ln tpt.Listener, o string, store *tpt.CapableConn) {
		defer wg.Done()
		for {
			c, err := ln.Accept()
			if err != nil {
				return
			}
			if !liveOnce(o) {
				// a second connection for the same attempt (e.g. a retried handshake): close it
				tr.Emit("note", "what", "extra-accept", "o", o)
				c.Close()
				continue
			}
			mu.Lock()
			*store = c
			mu.Unlock()
			led.Live(o)
			wg.Add(1)
			go hold(o, c, false)
		}
	}
	led.Begin("qa", "conn", "out", "a", false)
	led.Begin("qb", "conn", "in", "b", false)
	want := 2
	if lnB != nil && !hp && plan.Kind != "no-accept" {
		wg.Add(1)
		go acceptLoop(lnB, "qb", &connB)
	}
	switch {
	case hp:
		// B plays the hole-punching ("server") role towards A; A may or may not dial B
		if lnA != nil {
			wg.Add(1)
			go acceptLoop(lnA, "qx", new(tpt.CapableConn)) // nothing is expected here
		}
		// B's own accept loop must run: the punched connection arrives through it
		wg.Add(1)
		go acceptLoop(lnB, "qy", new(tpt.CapableConn)) // only non-hole-punch connections surface here
		punch := func(tag string) {
			defer wg.Done()
			hctx := network.WithSimultaneousConnect(ctx, false, "vf")
			if plan.Kind == "hp-cancel" {
				var c2 context.CancelFunc
				hctx, c2 = context.WithTimeout(hctx, time.Second)
				defer c2()
			}
			c, err := B.tr.Dial(hctx, ma.StringCast(vfC04QAddrA), vfC04QKeys.idA)
			tr.Emit("note", "what", "holepunch-ret", "tag", tag, "ok", err == nil)
			if err != nil {
				if tag == "1" {
					out.Err = err.Error()
					done <- struct{}{}
				}
				return
			}
			if !liveOnce("qb") {
				c.Close()
				return
			}
			mu.Lock()
			connB = c
			mu.Unlock()
			led.Live("qb")
			wg.Add(1)
			go hold("qb", c, false)
		}
		wg.Add(1)
		go punch("1")
		if plan.Kind == "hp-duplicate" {
			wg.Add(1)
			go func() { time.Sleep(200 * time.Millisecond); punch("2") }()
		}
		if plan.Kind == "hp-success" || plan.Kind == "hp-duplicate" {
			wg.Add(1)
			go func() {
				defer wg.Done()
				time.Sleep(500 * time.Millisecond)
				c, err := A.tr.Dial(ctx, ma.StringCast(vfC04QAddrB), vfC04QKeys.idB)
				if err != nil {
					out.Err = err.Error()
					endOnce("qa", "dial-error")
					done <- struct{}{}
					return
				}
				mu.Lock()
				connA = c
				mu.Unlock()
				led.Live("qa")
				wg.Add(1)
				go hold("qa", c, true)
			}()
		} else {
			endOnce("qa", "not-dialled")
			want = 1
		}
	default:
		wg.Add(1)
		go func() {
			defer wg.Done()
			p := vfC04QKeys.idB
			if plan.Kind == "wrong-key" {
				p = vfC04QKeys.idC
			}
			if plan.Kind == "ctx-cancelled" {
				cancel()
			}
			c, err := A.tr.Dial(ctx, ma.StringCast(vfC04QAddrB), p)
			if (c == nil) == (err == nil) {
				tr.Emit("bad_return", "o", "qa")
			}
			if err != nil {
				out.Err = err.Error()
				endOnce("qa", "dial-error")
				// Dial failed: if the other side was handed this connection it must see it closed now, not
				// only when its own owner gives it up (5 s is far below the idle time-out; keep-alives
				// would keep an abandoned connection alive for ever)
				time.Sleep(5 * time.Second)
				mu.Lock()
				cb := connB
				mu.Unlock()
				if cb != nil && !cb.IsClosed() {
					tr.Emit("note", "what", "peer-still-sees-the-connection-open-after-dial-error")
					mu.Lock()
					abandoned["a"] = true
					mu.Unlock()
				}
				done <- struct{}{}
				done <- struct{}{}
				return
			}
			mu.Lock()
			connA = c
			mu.Unlock()
			led.Live("qa")
			wg.Add(1)
			go hold("qa", c, true)
		}()
	}
	deadline := time.After(2 * time.Minute)
	got := 0
wait:
	for got < want {
		select {
		case <-done:
			got++
		case <-deadline:
			break wait
		}
	}
	if plan.Kind == "none" {
		synctest.Wait()
		out.PktA, out.PktB = pn.Sent["a"], pn.Sent["b"]
	}
	close(finish)
	closeLnB()
	if lnA != nil {
		lnA.Close()
	}
	wg.Wait()
	synctest.Wait()
	// inbound attempts that never surfaced can no longer do so
	endOnce("qb", "listener-closed")
	endOnce("qa", "over")
	// draining periods, idle time-outs of half-open connections
	time.Sleep(90 * time.Second)
	synctest.Wait()
	n0, _ := pn.Activity()
	time.Sleep(2 * time.Minute) // eight keep-alive periods: a connection that is still alive would talk
	synctest.Wait()
	n1, _ := pn.Activity()
	if n1 == n0 {
		mu.Lock()
		for _, s := range []string{"a", "b"} {
			if rawSeen[s] && !abandoned[s] {
				led.RawClose("q" + s)
			}
		}
		mu.Unlock()
	} else {
		tr.Emit("note", "what", "datagrams-after-close", "n", n1-n0)
	}
	for _, n := range []*vfC04QNode{A, B} {
		c, h, l := n.residue()
		tr.Emit("residue", "rm", n.name, "conns", c, "holepunch", h, "listeners", l, "endpoints", 0)
	}
	A.cm.Close()
	B.cm.Close()
	synctest.Wait()
	time.Sleep(10 * time.Second)
	synctest.Wait()
	tr.Emit("residue", "rm", "net", "conns", 0, "holepunch", 0, "listeners", 0, "endpoints", pn.Open())
	A.rm.Close()
	B.rm.Close()
	synctest.Wait()
	out.Leaked = vfc04.Census()
	switch plan.Kind {
	case "none", "drop", "cancel", "lclose", "cclose", "both-listen":
	case "gater-accept-b", "gater-secured-b":
		out.Hit = B.g.rejected > 0
	case "gater-secured-a":
		out.Hit = A.g.rejected > 0
	case "rm-open-b", "rm-setpeer-b", "no-accept":
		out.Hit = !lived["qb"]
	case "hp-success":
		out.Hit = lived["qb"]
	case "hp-duplicate":
		out.Hit = true
	default:
		out.Hit = out.Err != ""
	}
	led.Audit("a", true, vfc04.ReadUsage(A.rm), len(out.Leaked))
	led.Audit("b", true, vfc04.ReadUsage(B.rm), 0)
}

func vfC04QRun(t *testing.T, plan vfC04QPlan, tr *vfh.Trace) vfC04QOut {
	out := &vfC04QOut{}
	dl, hung := vfc04.RunBubble(t, 40*time.Second, func(t *testing.T) { vfC04QScenario(t, plan, tr, out) })
	if dl != "" {
		out.Deadlock = dl
		tr.Emit("deadlock", "msg", dl)
	}
	o := *out
	o.Hung = hung
	return o
}

func TestVerifC04Quic(t *testing.T) {
	vfC04QKeys.once.Do(func() {
		vfC04QKeys.privA, _, _ = crypto.GenerateEd25519Key(rand.Reader)
		vfC04QKeys.privB, _, _ = crypto.GenerateEd25519Key(rand.Reader)
		vfC04QKeys.privC, _, _ = crypto.GenerateEd25519Key(rand.Reader)
		vfC04QKeys.idA, _ = peer.IDFromPrivateKey(vfC04QKeys.privA)
		vfC04QKeys.idB, _ = peer.IDFromPrivateKey(vfC04QKeys.privB)
		vfC04QKeys.idC, _ = peer.IDFromPrivateKey(vfC04QKeys.privC)
	})
	res := vfh.NewResult()
	defer func() {
		if err := res.Write(); err != nil {
			t.Fatal(err)
		}
	}()
	res.Rule = "one evaluation = one QUIC connection attempt between two real QUIC transports on an in-memory UDP network with one fault: an exit of Dial/dialWithScope or listener.Accept/wrapConn (rcmgr refusing OpenConnection/SetPeer on either side, no listener, wrong remote key, a gater hook rejecting, cancelled context, nobody accepting), the path black-holed from datagram k of either side / context cancel / listener Close / conn Close at datagram k (k over a dry run), or a hole-punch exit (time-out, cancel, duplicate, success); non-trivial = the fault fired; distinct = distinct (kind, side, scope-opener) tuples that fired"
	path := ""
	if vfh.Out() != "" {
		path = filepath.Join(vfh.Out(), "c04_quic.ndjson")
		os.Remove(path)
	}
	evals, hits, idx, stuck := 0, 0, 0, 0
	exits := map[string]bool{}
	run := func(plan vfC04QPlan) vfC04QOut {
		if stuck >= 4 {
			res.Inc("skipped_after_stuck", 1)
			return vfC04QOut{}
		}
		tr := vfh.NewTrace(fmt.Sprintf("q%d", idx))
		idx++
		out := vfC04QRun(t, plan, tr)
		evals++
		res.Count(1, tr.Len())
		if out.Hit {
			hits++
			res.Case(fmt.Sprintf("%s|%s|%v", plan.Kind, plan.Side, plan.CtxOpen))
			exits["quic|"+plan.Kind] = true
		}
		if path != "" {
			if err := tr.AppendTo(path, map[string]any{"family": "quic", "cfg": "quic-v1", "plan": plan.String(), "kind": plan.Kind,
				"side": plan.Side, "k": plan.K, "hit": out.Hit, "stage": "quic", "p": plan, "hang": out.Hung}); err != nil {
				t.Fatal(err)
			}
		}
		if out.Deadlock != "" || len(out.Leaked) > 0 || out.Hung != "" {
			res.Sample(map[string]any{"plan": plan.String(), "deadlock": out.Deadlock, "leaked": out.Leaked, "hung": out.Hung})
		}
		if out.Hung != "" {
			res.Inc("hangs", 1)
		}
		if out.Hung != "" || out.Deadlock != "" {
			stuck++
		}
		return out
	}
	if only := os.Getenv("VERIF_C04_ONLY"); only != "" {
		var plan vfC04QPlan
		if err := json.Unmarshal([]byte(only), &plan); err != nil {
			t.Fatal(err)
		}
		for r := 0; r < vfh.EnvInt("VERIF_C04_REPEAT", 1); r++ {
			out := run(plan)
			t.Logf("%s -> %+v", plan, out)
		}
		res.Set("evaluations", evals)
		res.Traces = []string{path}
		return
	}
	dry := run(vfC04QPlan{Kind: "none"})
	if dry.Deadlock != "" && dry.Err == "" {
		res.Inc("skipped_after_stuck", 1)
		res.Set("evaluations", evals)
		res.Traces = []string{path}
		return
	}
	if dry.Err != "" || dry.PktA == 0 || dry.Hung != "" {
		t.Fatalf("quic dry run failed: %+v", dry)
	}
	res.Set("ops/quic", []int{dry.PktA, dry.PktB})
	for _, ctxOpen := range []bool{false, true} {
		for _, k := range []string{"none", "rm-open-a", "rm-setpeer-a", "rm-open-b", "rm-setpeer-b", "no-listener", "wrong-key", "ctx-cancelled",
			"gater-secured-a", "gater-accept-b", "gater-secured-b", "no-accept", "both-listen"} {
			run(vfC04QPlan{Kind: k, CtxOpen: ctxOpen})
		}
	}
	for _, k := range []string{"hp-timeout", "hp-cancel", "hp-success", "hp-duplicate"} {
		run(vfC04QPlan{Kind: k, CtxOpen: true})
	}
	stride := 1
	for _, side := range []string{"a", "b"} {
		n := dry.PktA
		if side == "b" {
			n = dry.PktB
		}
		for k := 1; k <= n+1; k++ {
			for ki, kind := range []string{"drop", "cancel", "lclose", "cclose"} {
				if (kind == "cancel" && side == "b") || (kind == "lclose" && side == "a") {
					continue
				}
				if stride > 1 && kind != "drop" && (k+ki)%stride != int(vfh.Seed())%stride {
					continue
				}
				run(vfC04QPlan{Kind: kind, Side: side, K: k, CtxOpen: true})
				if vfh.Thorough() || kind == "drop" {
					run(vfC04QPlan{Kind: kind, Side: side, K: k, CtxOpen: false})
				}
			}
		}
	}
	tr := vfh.NewTrace("sample")
	vfC04QRun(t, vfC04QPlan{Kind: "gater-secured-b", CtxOpen: true}, tr)
	res.Sample(map[string]any{"plan": "gater-secured-b/ctxscope", "events": tr.Events()})
	res.Set("evaluations", evals)
	res.Set("fired", hits)
	keys := make([]string, 0, len(exits))
	for k := range exits {
		keys = append(keys, k)
	}
	sort.Strings(keys)
	res.Set("exits", keys)
	if path != "" {
		res.Traces = []string{path}
	}
}
