//go:build verif

package libp2pquic

// Conformance harness for C01 (a dial for peer P never hands out a connection authenticated as anyone
// other than P), QUIC transport part: replays the behaviours of spec/C01_Handshake.tla (part H) on three
// REAL QUIC transports over loopback UDP, driven directly (no swarm above them, so nothing re-checks
// what transport.Dial returns).  L is the dialling host; X listens at address A, Y at address B (with
// reuseport their outgoing connections come from exactly those addresses); ownerA says which of the
// two holds P's key, the other is Q.  Paths: the plain dial (TLS client, ConfigForPeer(P)) and the
// hole-punch dial (simultaneous connect in the server role), which is completed by a connection L's own
// listener accepted.  X and Y connect in before the punch is registered, while it waits, after it ended,
// in both orders.  No wall-clock verdicts: the punch has a one-hour time-out and "nobody shows up" is
// the caller cancelling; every step waits for the event that must follow it (the connection surfaces
// at the listener or completes the dial); a watchdog only turns a hang into a machinery failure.

import (
	"context"
	"crypto/rand"
	"encoding/json"
	"errors"
	"fmt"
	"io"
	"path/filepath"
	"testing"
	"time"

	ic "github.com/libp2p/go-libp2p/core/crypto"
	"github.com/libp2p/go-libp2p/core/network"
	"github.com/libp2p/go-libp2p/core/peer"
	tpt "github.com/libp2p/go-libp2p/core/transport"
	"github.com/libp2p/go-libp2p/internal/vfh"
	"github.com/libp2p/go-libp2p/p2p/transport/quicreuse"
	ma "github.com/multiformats/go-multiaddr"
	"github.com/quic-go/quic-go"
)

const vfC01QWatchdog = 20 * time.Second

type vfC01QHost struct {
	name string
	priv ic.PrivKey
	pub  ic.PubKey
	id   peer.ID
	tr   tpt.Transport
	cm   *quicreuse.ConnManager
	ln   tpt.Listener
	acc  chan tpt.CapableConn
}

func vfC01QNewHost(name, keyType string) (*vfC01QHost, error) {
	var priv ic.PrivKey
	var pub ic.PubKey
	var err error
	switch keyType {
	case "ECDSA":
		priv, pub, err = ic.GenerateECDSAKeyPair(rand.Reader)
	case "Secp256k1":
		priv, pub, err = ic.GenerateSecp256k1Key(rand.Reader)
	case "RSA":
		priv, pub, err = ic.GenerateRSAKeyPair(2048, rand.Reader)
	default:
		priv, pub, err = ic.GenerateEd25519Key(rand.Reader)
	}
	if err != nil {
		return nil, err
	}
	h := &vfC01QHost{name: name, priv: priv, pub: pub, acc: make(chan tpt.CapableConn, 8)}
	if h.id, err = peer.IDFromPublicKey(pub); err != nil {
		return nil, err
	}
	if h.cm, err = quicreuse.NewConnManager(quic.StatelessResetKey{}, quic.TokenGeneratorKey{}); err != nil {
		return nil, err
	}
	if h.tr, err = NewTransport(priv, h.cm, nil, nil, nil); err != nil {
		return nil, err
	}
	if h.ln, err = h.tr.Listen(ma.StringCast("/ip4/127.0.0.1/udp/0/quic-v1")); err != nil {
		return nil, err
	}
	go func() {
		for {
			c, err := h.ln.Accept()
			if err != nil {
				return
			}
			h.acc <- c
		}
	}()
	return h, nil
}

func (h *vfC01QHost) close() {
	h.ln.Close()
	if c, ok := h.tr.(io.Closer); ok {
		c.Close()
	}
	h.cm.Close()
	for {
		select {
		case c := <-h.acc:
			c.Close()
		default:
			return
		}
	}
}

type vfC01QRes struct {
	conn tpt.CapableConn
	err  error
}

func vfC01QWalk(res *vfh.Result, w *vfh.Walk, types [3]string) error {
	var init struct {
		Path   string `json:"path"`
		OwnerA string `json:"ownerA"`
	}
	if err := json.Unmarshal(w.Init, &init); err != nil {
		return err
	}
	L, err := vfC01QNewHost("L", types[0])
	if err != nil {
		return err
	}
	defer L.close()
	X, err := vfC01QNewHost("X@A", types[1])
	if err != nil {
		return err
	}
	defer X.close()
	Y, err := vfC01QNewHost("Y@B", types[2])
	if err != nil {
		return err
	}
	defer Y.close()
	// who is P, who is Q: the ledger (IDs computed by the harness from the key objects)
	P, Q := X, Y
	if init.OwnerA == "Q" {
		P, Q = Y, X
	}
	nameOf := func(id peer.ID) string {
		switch id {
		case P.id:
			return "P"
		case Q.id:
			return "Q"
		case L.id:
			return "L"
		}
		return "?" + id.String()
	}
	var pre []vfh.Op
	mm := func(class, what string, exp, got any) {
		res.AddMismatch(vfh.Mismatch{Class: class, What: what, Walk: w.Walk, Step: len(pre) - 1, Expected: exp, Got: got, Prefix: pre,
			Cfg: map[string]any{"path": init.Path, "ownerA": init.OwnerA, "keys": fmt.Sprint(types), "seed": vfh.Seed()}})
	}
	// L1 on whatever transport.Dial(ctx, A, P) returned
	judgeDial := func(r vfC01QRes) string {
		if r.err != nil || r.conn == nil {
			return "err"
		}
		got := nameOf(r.conn.RemotePeer())
		if r.conn.RemotePeer() != P.id {
			mm("transport-dial-returned-wrong-peer", fmt.Sprintf("the QUIC transport's Dial(ctx, A, P) returned a connection whose RemotePeer() is %s (%s)", r.conn.RemotePeer(), got), "P", got)
		}
		if k := r.conn.RemotePublicKey(); k == nil || !k.Equals(P.pub) {
			mm("transport-dial-wrong-remote-public-key", "the connection returned by the QUIC transport's Dial(ctx, A, P) does not carry P's public key", P.id.String(), fmt.Sprint(k))
		} else if id, err := peer.IDFromPublicKey(k); err != nil || id != r.conn.RemotePeer() {
			mm("remote-peer-not-derived-from-remote-key", "QUIC: RemotePeer() of the dialled connection is not the ID of its RemotePublicKey()", id.String(), r.conn.RemotePeer().String())
		}
		return got
	}
	var punched chan vfC01QRes
	var cancelPunch context.CancelFunc
	var opened []tpt.CapableConn
	defer func() {
		if cancelPunch != nil {
			cancelPunch()
		}
		for _, c := range opened {
			c.Close()
		}
	}()
	dialDone := false
	for _, st := range w.Steps {
		pre = append(pre, st.Op)
		switch st.Op.Name() {
		case "plain":
			ctx, cancel := context.WithTimeout(context.Background(), vfC01QWatchdog)
			c, err := L.tr.Dial(ctx, X.ln.Multiaddr(), P.id)
			cancel()
			if c != nil && err == nil {
				opened = append(opened, c)
			}
			got := judgeDial(vfC01QRes{c, err})
			if got != st.Op.S("res") {
				mm("L2:dial-result", fmt.Sprintf("plain QUIC dial: result differs from the model (%v)", err), st.Op.S("res"), got)
			}
			res.Inc("H.plain."+got, 1)
		case "punch":
			ctx, cancel := context.WithCancel(network.WithSimultaneousConnect(context.Background(), false, "verif"))
			cancelPunch = cancel
			punched = make(chan vfC01QRes, 1)
			go func(ch chan vfC01QRes) {
				c, err := L.tr.Dial(ctx, X.ln.Multiaddr(), P.id)
				ch <- vfC01QRes{c, err}
			}(punched)
			// wait until the punch is registered: from then on L's listener matches accepted connections against it
			tr := L.tr.(*transport)
			deadline := time.Now().Add(vfC01QWatchdog)
			for {
				tr.holePunchingMx.Lock()
				n := len(tr.holePunching)
				tr.holePunchingMx.Unlock()
				if n > 0 {
					break
				}
				select {
				case r := <-punched:
					return fmt.Errorf("the hole-punch dial returned before registering: %v", r.err)
				default:
				}
				if time.Now().After(deadline) {
					return errors.New("the hole punch was never registered")
				}
				time.Sleep(time.Millisecond)
			}
		case "arrive":
			from := X
			if st.Op.S("from") == "B" {
				from = Y
			}
			ctx, cancel := context.WithTimeout(network.WithSimultaneousConnect(context.Background(), true, "verif"), vfC01QWatchdog)
			c, err := from.tr.Dial(ctx, L.ln.Multiaddr(), L.id)
			cancel()
			if err != nil {
				return fmt.Errorf("%s could not connect to L: %w", from.name, err)
			}
			opened = append(opened, c)
			// exactly one thing follows: the connection surfaces at L's listener, or it completes the waiting dial
			var pch chan vfC01QRes
			if punched != nil && !dialDone {
				pch = punched
			}
			handed := false
			select {
			case ic := <-L.acc:
				opened = append(opened, ic)
				// unconditional: an accepted connection reports who really connected
				if ic.RemotePeer() != from.id {
					mm("wrong-remote-peer", fmt.Sprintf("QUIC listener: the connection from %s reports remote peer %s", from.name, ic.RemotePeer()), from.id.String(), ic.RemotePeer().String())
				}
				if k := ic.RemotePublicKey(); k == nil || !k.Equals(from.pub) {
					mm("wrong-remote-public-key", "QUIC listener: RemotePublicKey() is not the key the connecting host holds", from.id.String(), fmt.Sprint(k))
				}
				res.Inc("H.surfaced."+nameOf(from.id), 1)
			case r := <-pch:
				handed, dialDone = true, true
				if r.conn != nil && r.err == nil {
					opened = append(opened, r.conn)
				}
				got := judgeDial(r)
				if got != "P" && got != "err" {
					res.Inc("H.handed-wrong", 1)
				}
				if got != st.Op.S("res") {
					mm("L2:dial-result", fmt.Sprintf("hole-punch dial completed unlike the model (%v)", r.err), st.Op.S("res"), got)
				}
				res.Inc("H.punch."+got, 1)
			case <-time.After(vfC01QWatchdog):
				return fmt.Errorf("the connection from %s neither surfaced at L's listener nor completed the dial", from.name)
			}
			if handed != st.Op.B("handed") {
				mm("L2:handed-over", fmt.Sprintf("connection from %s (as %s): handed to the waiting dial / surfaced unlike the model", st.Op.S("from"), st.Op.S("as")), st.Op.B("handed"), handed)
			}
		case "cancel":
			if punched == nil || dialDone {
				mm("L2:desync", "cancel without a waiting hole punch", nil, nil)
				continue
			}
			cancelPunch()
			select {
			case r := <-punched:
				dialDone = true
				if r.conn != nil && r.err == nil {
					opened = append(opened, r.conn)
				}
				got := judgeDial(r)
				if got != "err" {
					mm("L2:dial-result", "a cancelled hole punch returned a connection", "err", got)
				} else if !errors.Is(r.err, ErrHolePunching) {
					mm("L2:why", "a cancelled hole punch fails with another error: "+r.err.Error(), "ErrHolePunching", r.err.Error())
				}
				res.Inc("H.punch.err", 1)
			case <-time.After(vfC01QWatchdog):
				return errors.New("the cancelled hole punch did not return")
			}
		}
	}
	// a punch the walk left waiting must still obey the contract when it ends
	if punched != nil && !dialDone {
		cancelPunch()
		select {
		case r := <-punched:
			if r.conn != nil && r.err == nil {
				opened = append(opened, r.conn)
			}
			judgeDial(r)
		case <-time.After(vfC01QWatchdog):
			return errors.New("the hole punch did not return at the end")
		}
	}
	res.Count(1, len(w.Steps))
	return nil
}

func TestVerifC01QuicReplay(t *testing.T) {
	res := vfh.NewResult()
	res.Rule = "distinct = (behaviour, key types) combinations executed"
	defer func() {
		if err := res.Write(); err != nil {
			t.Error(err)
		}
	}()
	orig := HolePunchTimeout
	HolePunchTimeout = time.Hour // "nobody shows up" is the caller giving up, not a timer
	defer func() { HolePunchTimeout = orig }()
	_, walks, err := vfh.LoadWalks(filepath.Join(vfh.In(), "H.jsonl"))
	if err != nil {
		t.Fatal(err)
	}
	T := []string{"Ed25519", "ECDSA", "Secp256k1", "RSA"}
	seed := int(vfh.Seed())
	rounds := 1
	if vfh.Thorough() {
		rounds = 4
	}
	for r := 0; r < rounds; r++ {
		for i := range walks {
			types := [3]string{T[(i+seed+r)%4], T[(i/2+seed+2*r)%4], T[(i/3+seed+3*r+1)%4]}
			if r == 0 && i%2 == 0 {
				types = [3]string{"Ed25519", "Ed25519", "Ed25519"}
			}
			if err := vfC01QWalk(res, &walks[i], types); err != nil {
				t.Fatalf("walk %d: %v", i, err)
			}
			res.Case(fmt.Sprint(i, types))
		}
	}
	res.Set("H.walks", len(walks))
}
