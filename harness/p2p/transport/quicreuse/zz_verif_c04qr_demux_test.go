//go:build verif

package quicreuse

// Conformance harness of the extension engine C04qr, part 2 (spec/C04qr_Demux.tla): every transition of the printed TLC
// graphs is executed on a real ConnManager / quicListener / listener with REAL quic-go handshakes over the in-memory
// network, inside a testing/synctest bubble.  A handshake is held between Start and Finish by the GetCertificate call-back
// of the TLS config the harness gave to ListenQUIC (it runs on the connection's own goroutine, outside every lock of the
// code under test), so that Add / Close of protocol listeners happen while the handshake is in flight.
//
// L1 monitors (observables only: what the clients see, what Accept returns): every established connection is accepted by a
// listener of its ALPN or closed by the server, never both, never lost; open listeners stay alive; closed ones report
// ErrListenerClosed; a queue never holds more than its length; a connection is not closed for "queue full" below it.
// Internal state (len(queue), protocol table, accept loop running) is compared with the model as L2.

import (
	"context"
	"crypto/tls"
	"encoding/json"
	"errors"
	"fmt"
	"net"
	"sort"
	"strconv"
	"strings"
	"testing"
	"testing/synctest"

	"github.com/libp2p/go-libp2p/internal/vfh"
	ma "github.com/multiformats/go-multiaddr"
	"github.com/quic-go/quic-go"
)

type vfQrDmConf struct {
	QueueLen int  `json:"queueLen"`
	Scaled   bool `json:"scaled"` // the per-listener queue is re-made with QueueLen slots (the code's constant is 16)
}

type vfQrDmSt struct {
	Lns []struct {
		St    string `json:"st"`
		Proto string `json:"proto"`
		Q     []int  `json:"q"`
	} `json:"lns"`
	Conns []struct {
		St   string `json:"st"`
		Alpn string `json:"alpn"`
		Ln   int    `json:"ln"`
	} `json:"conns"`
	Running bool `json:"running"`
}

type vfQrDmRes struct {
	conn *quic.Conn
	err  error
}

type vfQrDmConn struct {
	id       int
	alpn     string
	release  chan struct{}
	res      chan vfQrDmRes
	parked   bool
	finished bool
	conn     *quic.Conn // client side
	err      error
	accepted int  // listener that returned it (0: none)
	reported bool // a violation about this connection was reported
}

func (c *vfQrDmConn) established() bool { return c.finished && c.conn != nil }

// serverClosed: the client saw the server end the connection
func (c *vfQrDmConn) serverClosed() (bool, string) {
	if c.conn == nil {
		return false, ""
	}
	select {
	case <-c.conn.Context().Done():
		cause := context.Cause(c.conn.Context())
		return true, fmt.Sprint(cause)
	default:
		return false, ""
	}
}

type vfQrDmRun struct {
	t      *testing.T
	conf   vfQrDmConf
	cert   tls.Certificate
	n      *vfQrNet
	cm     *ConnManager
	addr   *net.UDPAddr
	ctr    *quic.Transport
	csock  *vfQrSock
	lns    map[int]Listener
	proto  map[int]string
	open   map[int]bool
	conns  map[int]*vfQrDmConn
	parked chan int
	viol   []vfQrViolation
	l2     []vfQrViolation
}

func (r *vfQrDmRun) v(class, what string, exp, got any) {
	r.viol = append(r.viol, vfQrViolation{class, what, exp, got})
}
func (r *vfQrDmRun) d(class, what string, exp, got any) {
	r.l2 = append(r.l2, vfQrViolation{"L2:" + class, what, exp, got})
}

func (r *vfQrDmRun) start() error {
	r.n = vfQrNewNet()
	cm, err := NewConnManager(quic.StatelessResetKey{}, quic.TokenGeneratorKey{}, OverrideListenUDP(r.n.listenUDP),
		OverrideSourceIPSelector(func() (SourceIPSelector, error) {
			return &vfQrRouter{n: r.n, src: func(*net.UDPAddr) (net.IP, error) { return net.IPv4zero, nil }}, nil
		}))
	if err != nil {
		return err
	}
	r.cm = cm
	r.lns, r.proto, r.open, r.conns = map[int]Listener{}, map[int]string{}, map[int]bool{}, map[int]*vfQrDmConn{}
	r.parked = make(chan int, 64)
	s, err := r.n.ext("udp4", &net.UDPAddr{IP: net.IPv4zero})
	if err != nil {
		return err
	}
	r.csock = s
	r.ctr = &quic.Transport{Conn: s}
	return nil
}

func (r *vfQrDmRun) finish() {
	for _, c := range r.conns {
		if !c.finished {
			close(c.release)
			res := <-c.res
			c.conn = res.conn
			c.finished = true
		}
	}
	synctest.Wait()
	for _, c := range r.conns {
		if c.conn != nil {
			c.conn.CloseWithError(0, "")
		}
	}
	for id, l := range r.lns {
		if r.open[id] {
			l.Close()
		}
	}
	r.cm.Close()
	for _, ru := range []*reuse{r.cm.reuseUDP4, r.cm.reuseUDP6} {
		// (a Close that left a pool running: stop its GC goroutine so that the bubble can be left)
		if ru != nil {
			select {
			case <-ru.gcStopChan:
			default:
				vfQrGuard(func() { ru.Close() })
			}
		}
	}
	r.ctr.Close()
	r.csock.Close()
	synctest.Wait()
}

func (r *vfQrDmRun) serverConf(proto string) *tls.Config {
	return &tls.Config{NextProtos: []string{proto}, GetCertificate: func(info *tls.ClientHelloInfo) (*tls.Certificate, error) {
		id, _ := strconv.Atoi(strings.TrimPrefix(info.ServerName, "c"))
		c := r.conns[id]
		if c == nil {
			return &r.cert, nil
		}
		r.parked <- id
		<-c.release
		return &r.cert, nil
	}}
}

func (r *vfQrDmRun) drainParked() {
	for {
		select {
		case id := <-r.parked:
			if c := r.conns[id]; c != nil {
				c.parked = true
			}
		default:
			return
		}
	}
}

func (r *vfQrDmRun) probe(ln Listener) (string, *quic.Conn) {
	ctx, cancel := context.WithCancel(context.Background())
	type ar struct {
		c   *quic.Conn
		err error
	}
	done := make(chan ar, 1)
	go func() { c, err := ln.Accept(ctx); done <- ar{c, err} }()
	synctest.Wait()
	select {
	case a := <-done:
		cancel()
		if a.err == nil {
			return "conn", a.c
		}
		if strings.Contains(a.err.Error(), "listener closed") {
			return "closed", nil
		}
		return a.err.Error(), nil
	default:
	}
	cancel()
	<-done
	return "alive", nil
}

// waiting: established connections of ALPN p that were neither accepted nor closed by the server (by the ledger)
func (r *vfQrDmRun) waiting(p string) []int {
	var w []int
	for id, c := range r.conns {
		if c.alpn != p || !c.established() || c.accepted != 0 {
			continue
		}
		if cl, _ := c.serverClosed(); cl {
			continue
		}
		w = append(w, id)
	}
	sort.Ints(w)
	return w
}

func (r *vfQrDmRun) openFor(p string) int {
	for id, o := range r.open {
		if o && r.proto[id] == p {
			return id
		}
	}
	return 0
}

func (r *vfQrDmRun) monitors(opName string) {
	ids := make([]int, 0, len(r.conns))
	for id := range r.conns {
		ids = append(ids, id)
	}
	sort.Ints(ids)
	for _, id := range ids {
		c := r.conns[id]
		if !c.established() || c.reported {
			continue
		}
		closed, cause := c.serverClosed()
		if closed && c.accepted != 0 {
			r.v("conn-accepted-and-closed", fmt.Sprintf("connection %d (ALPN %s) was returned by Accept of listener %d and closed by the server (%s)", id, c.alpn, c.accepted, cause), "one fate", "both")
			c.reported = true
		}
		if !closed && c.accepted == 0 && r.openFor(c.alpn) == 0 {
			cause := opName
			if opName == "finish" {
				cause = "listener-closed-during-handshake" // established just now, and nobody serves its ALPN any more
			}
			r.v("conn-lost:"+cause, fmt.Sprintf("connection %d (ALPN %s) is established, no open listener serves its ALPN, and the server neither delivered nor closed it", id, c.alpn), "closed by the server", "left open")
			c.reported = true
		}
	}
	lids := make([]int, 0, len(r.lns))
	for id := range r.lns {
		lids = append(lids, id)
	}
	sort.Ints(lids)
	for _, id := range lids {
		if !r.open[id] {
			if got, _ := r.probe(r.lns[id]); got != "closed" {
				r.v("closed-listener-accepts", fmt.Sprintf("listener %d was closed but Accept gives %q", id, got), "closed", got)
			}
			continue
		}
		w := r.waiting(r.proto[id])
		if len(w) > r.conf.QueueLen {
			r.v("queue-exceeds-bound", fmt.Sprintf("listener %d (%s): %d established connections wait, queue length %d", id, r.proto[id], len(w), r.conf.QueueLen), r.conf.QueueLen, len(w))
		}
		if len(w) == 0 {
			got, c := r.probe(r.lns[id])
			if got == "conn" {
				r.v("accept-returned-unknown-conn", fmt.Sprintf("listener %d: Accept returned a connection (%s) although none waits", id, c.ConnectionState().TLS.ServerName), "alive", got)
			} else if got != "alive" {
				if opName == "finish" {
					opName = "after-dispatch"
				}
				r.v("listener-dead-while-open:"+opName, fmt.Sprintf("listener %d (%s) is open but Accept gives %q", id, r.proto[id], got), "alive", got)
			}
		}
	}
}

func (r *vfQrDmRun) exec(op vfh.Op) {
	name := op.Name()
	switch name {
	case "add":
		p := op.S("proto")
		var ln Listener
		var err error
		if r.addr == nil {
			ln, err = r.cm.ListenQUIC(ma.StringCast("/ip4/0.0.0.0/udp/0/quic-v1"), r.serverConf(p), nil)
		} else {
			ln, err = r.cm.ListenQUIC(ma.StringCast(fmt.Sprintf("/ip4/0.0.0.0/udp/%d/quic-v1", r.addr.Port)), r.serverConf(p), nil)
		}
		if (err == nil) != op.B("ok") {
			if err == nil {
				r.v("duplicate-protocol-listener-accepted", "ListenQUIC for a protocol that is already served succeeded", "error", "ok")
			} else {
				r.v("listen-refused", "ListenQUIC on the shared address failed: "+err.Error(), "ok", err.Error())
			}
		}
		if err == nil {
			id := len(r.lns) + 1
			r.lns[id], r.proto[id], r.open[id] = ln, p, true
			if r.addr == nil {
				r.addr = &net.UDPAddr{IP: net.IPv4(127, 0, 0, 1), Port: ln.Addr().(*net.UDPAddr).Port}
			} else if ln.Addr().(*net.UDPAddr).Port != r.addr.Port {
				r.v("shared-address-not-shared", "second protocol listener got another address", r.addr.Port, ln.Addr().String())
			}
			if r.conf.Scaled {
				ln.(*listener).queue = make(chan *quic.Conn, r.conf.QueueLen)
			}
		}
	case "start":
		id := op.I("c")
		c := &vfQrDmConn{id: id, alpn: op.S("alpn"), release: make(chan struct{}), res: make(chan vfQrDmRes, 1)}
		r.conns[id] = c
		go func() {
			conn, err := r.ctr.Dial(context.Background(), r.addr, &tls.Config{NextProtos: []string{c.alpn}, ServerName: fmt.Sprintf("c%d", id),
				InsecureSkipVerify: true}, &quic.Config{})
			c.res <- vfQrDmRes{conn, err}
		}()
		synctest.Wait()
		r.drainParked()
		select {
		case res := <-c.res:
			c.finished, c.conn, c.err = true, res.conn, res.err
		default:
		}
		if op.B("ok") {
			if c.finished && c.err != nil {
				r.v("served-alpn-refused", fmt.Sprintf("handshake for ALPN %s failed although listener %d serves it: %v", c.alpn, r.openFor(c.alpn), c.err), "handshake proceeds", c.err.Error())
			} else if !c.parked {
				r.d("handshake-not-parked", fmt.Sprintf("connection %d did not reach the certificate call-back", id), true, false)
			}
		} else {
			if !c.finished || c.err == nil {
				r.v("unserved-alpn-not-refused", fmt.Sprintf("handshake for ALPN %s proceeds although no listener serves it", c.alpn), "refused", "proceeds")
			}
		}
	case "finish":
		id := op.I("c")
		c := r.conns[id]
		if c == nil || c.finished {
			break
		}
		close(c.release)
		synctest.Wait()
		select {
		case res := <-c.res:
			c.finished, c.conn, c.err = true, res.conn, res.err
		default:
			r.d("handshake-pending", fmt.Sprintf("connection %d: the handshake neither completed nor failed", id), op.S("fate"), "pending")
			res := <-c.res // waits in virtual time (handshake timeout)
			c.finished, c.conn, c.err = true, res.conn, res.err
		}
		closed, cause := c.serverClosed()
		switch op.S("fate") {
		case "queued":
			if c.err != nil {
				r.v("served-alpn-refused", fmt.Sprintf("handshake %d for ALPN %s failed: %v", id, c.alpn, c.err), "established", c.err.Error())
			} else if closed {
				// D3: not closed while the queue has room (by the ledger)
				if l := r.openFor(c.alpn); l != 0 && len(r.waiting(c.alpn)) < r.conf.QueueLen {
					r.v("conn-closed-queue-not-full", fmt.Sprintf("connection %d (ALPN %s) was closed by the server (%s) although the queue of listener %d has room", id, c.alpn, cause, l), "queued", "closed")
					c.reported = true
				}
			}
		case "closed-full":
			if c.err == nil && !closed {
				// the monitor "queue-exceeds-bound" decides
			} else if c.err == nil && !strings.Contains(cause, "queue full") {
				r.d("overflow-close-reason", "close reason of the overflowing connection", "queue full", cause)
			}
		case "closed-nolistener":
			// the monitors decide (conn-lost / listener-dead-while-open)
		}
	case "accept":
		l := op.I("ln")
		got, conn := r.probe(r.lns[l])
		if got != "conn" {
			if len(r.waiting(r.proto[l])) > 0 {
				r.v("queued-conn-not-delivered:"+got, fmt.Sprintf("listener %d (%s): Accept gives %q although established connections %v wait for it", l, r.proto[l], got, r.waiting(r.proto[l])), "conn", got)
			} else {
				r.d("accept-empty", "Accept had nothing to return", op.I("c"), got)
			}
			break
		}
		cs := conn.ConnectionState().TLS
		id, _ := strconv.Atoi(strings.TrimPrefix(cs.ServerName, "c"))
		c := r.conns[id]
		if cs.NegotiatedProtocol != r.proto[l] {
			r.v("delivered-to-wrong-listener", fmt.Sprintf("listener %d (%s) got a connection with ALPN %s", l, r.proto[l], cs.NegotiatedProtocol), r.proto[l], cs.NegotiatedProtocol)
		}
		if c == nil {
			r.v("accept-returned-unknown-conn", "Accept returned a connection the harness never made: "+cs.ServerName, nil, cs.ServerName)
			break
		}
		if c.accepted != 0 {
			r.v("conn-delivered-twice", fmt.Sprintf("connection %d was returned by Accept of listener %d and of listener %d", id, c.accepted, l), "once", "twice")
		}
		c.accepted = l
		if id != op.I("c") {
			r.d("accept-order", fmt.Sprintf("listener %d", l), op.I("c"), id)
		}
	case "close":
		r.closeLn(op.I("ln"), name)
		if len(op.L("refused")) > 0 {
			r.releaseParked(name)
		}
	}
	r.monitors(name)
}

// closeLn closes protocol listener l. Closing the last one closes the shared QUIC listener, which waits for the handshakes in
// flight: the held ones are let go so that they run into the refusal.
func (r *vfQrDmRun) closeLn(l int, opName string) {
	done := make(chan struct{})
	go func() {
		if p := vfQrGuard(func() { r.lns[l].Close() }); p != "" {
			r.v("panic:close", "listener.Close panicked: "+p, "returns", "panic")
		}
		close(done)
	}()
	r.open[l] = false
	synctest.Wait()
	select {
	case <-done:
	default:
		if r.openFor("a") != 0 || r.openFor("b") != 0 {
			r.d("close-blocked", fmt.Sprintf("Close of listener %d blocks although other listeners remain", l), "returns", "blocked")
		}
		r.releaseParked(opName)
		<-done
	}
	synctest.Wait()
}

// releaseParked lets every held handshake go on and records how it ended (after the last listener was closed: refused)
func (r *vfQrDmRun) releaseParked(opName string) {
	ids := make([]int, 0, len(r.conns))
	for id, c := range r.conns {
		if !c.finished {
			ids = append(ids, id)
		}
	}
	sort.Ints(ids)
	for _, id := range ids {
		c := r.conns[id]
		close(c.release)
		synctest.Wait()
		select {
		case res := <-c.res:
			c.finished, c.conn, c.err = true, res.conn, res.err
		default:
			res := <-c.res
			c.finished, c.conn, c.err = true, res.conn, res.err
		}
		if closed, _ := c.serverClosed(); c.err == nil && !closed {
			r.v("conn-lost:"+opName, fmt.Sprintf("connection %d was established after the last listener was closed and is left open", id), "refused", "open")
			c.reported = true
		}
	}
}

func (r *vfQrDmRun) compare(st *vfQrDmSt, opName string) {
	for i, m := range st.Lns {
		ln := r.lns[i+1]
		if ln == nil {
			continue
		}
		if m.St == "open" {
			if got := len(ln.(*listener).queue); got != len(m.Q) {
				r.d("queue-length", fmt.Sprintf("listener %d after %s", i+1, opName), len(m.Q), got)
			}
		}
	}
	if r.addr != nil {
		r.cm.quicListenersMu.Lock()
		var ql *quicListener
		for _, e := range r.cm.quicListeners {
			ql = e.ln
		}
		r.cm.quicListenersMu.Unlock()
		if ql != nil {
			running := true
			select {
			case <-ql.running:
				running = false
			default:
			}
			if running != st.Running {
				r.d("accept-loop-running", "after "+opName, st.Running, running)
			}
			ql.protocolsMu.Lock()
			var served []string
			for p := range ql.protocols {
				served = append(served, p)
			}
			ql.protocolsMu.Unlock()
			sort.Strings(served)
			var want []string
			for _, m := range st.Lns {
				if m.St == "open" {
					want = append(want, m.Proto)
				}
			}
			sort.Strings(want)
			if strings.Join(served, ",") != strings.Join(want, ",") {
				r.d("protocol-table", "after "+opName, want, served)
			}
		} else if st.Running {
			r.d("accept-loop-running", "no shared listener registered after "+opName, true, false)
		}
	}
	// fates
	for i, m := range st.Conns {
		c := r.conns[i+1]
		if c == nil {
			continue
		}
		closed, _ := c.serverClosed()
		switch m.St {
		case "queued":
			if closed || c.accepted != 0 || !c.established() {
				r.d("fate", fmt.Sprintf("connection %d after %s", i+1, opName), "queued", fmt.Sprintf("established %v closed %v accepted %d", c.established(), closed, c.accepted))
			}
		case "closed":
			if !closed && !c.reported {
				// an established connection the model closes and the server leaves open: it is either still deliverable
				// (queue-exceeds-bound decides) or lost (conn-lost decides); here only the difference is noted
				r.d("fate", fmt.Sprintf("connection %d after %s", i+1, opName), "closed", "open")
			}
		}
	}
}

// finalAudit: drain every open listener, then close them; every established connection must have met its one fate.
func (r *vfQrDmRun) finalAudit() {
	lids := make([]int, 0, len(r.lns))
	for id := range r.lns {
		lids = append(lids, id)
	}
	sort.Ints(lids)
	for _, l := range lids {
		if !r.open[l] {
			continue
		}
		for i := 0; i < 64; i++ {
			got, conn := r.probe(r.lns[l])
			if got != "conn" {
				break
			}
			id, _ := strconv.Atoi(strings.TrimPrefix(conn.ConnectionState().TLS.ServerName, "c"))
			if c := r.conns[id]; c != nil {
				if c.accepted != 0 {
					r.v("conn-delivered-twice", fmt.Sprintf("connection %d delivered again at the final drain", id), "once", "twice")
				}
				c.accepted = l
			}
		}
		r.closeLn(l, "final-audit")
	}
	r.monitors("final-audit")
}

func vfQrDmRunWalk(t *testing.T, conf vfQrDmConf, cert tls.Certificate, w vfh.Walk) (viol, l2 []vfQrViolation, executed, vstep int, crashed string) {
	vstep = -1
	defer vfQrProgress.Add(1)
	synctest.Test(t, func(t *testing.T) {
		r := &vfQrDmRun{t: t, conf: conf, cert: cert}
		if err := r.start(); err != nil {
			crashed = err.Error()
			return
		}
		defer func() { vfQrGuard(r.finish) }()
		for i, step := range w.Steps {
			nv := len(r.viol)
			if p := vfQrGuard(func() { r.exec(step.Op) }); p != "" {
				r.v("panic:"+step.Op.Name(), "the call panicked: "+p, "returns", "panic")
				viol, l2, executed, vstep = r.viol, r.l2, i+1, i
				return
			}
			var st vfQrDmSt
			if err := json.Unmarshal(step.State, &st); err != nil {
				crashed = err.Error()
				return
			}
			r.compare(&st, step.Op.Name())
			executed = i + 1
			if len(r.viol) > nv {
				vstep = i
				break // the real objects no longer follow the model
			}
		}
		if vstep < 0 {
			r.finalAudit()
			if len(r.viol) > 0 {
				vstep = len(w.Steps) - 1
			}
		}
		viol, l2 = r.viol, r.l2
	})
	return
}

// vfQrDemuxWalk replays one walk of a demultiplexer instance.
func vfQrDemuxWalk(t *testing.T, res *vfh.Result, inst string, conf vfQrDmConf, cert tls.Certificate, w vfh.Walk) {
	viol, l2, executed, vstep, crashed := vfQrDmRunWalk(t, conf, cert, w)
	if crashed != "" {
		t.Errorf("%s walk %d: %s", inst, w.Walk, crashed)
		return
	}
	res.Count(1, executed)
	res.Inc("demux_steps", executed)
	prev := w.Init
	for i := 0; i < executed; i++ {
		res.Case("demux:" + inst + "|" + string(prev) + "|" + vfh.Canon(w.Steps[i].Op))
		prev = w.Steps[i].State
	}
	if executed < len(w.Steps) {
		res.Inc("demux_steps_not_executed_after_violation", len(w.Steps)-executed)
	}
	var prefix []vfh.Op
	for i := 0; i <= vstep && i < len(w.Steps); i++ {
		prefix = append(prefix, w.Steps[i].Op)
	}
	for _, v := range viol {
		res.AddMismatch(vfh.Mismatch{Class: v.class, What: v.what, Walk: w.Walk, Step: vstep, Expected: v.exp, Got: v.got, Prefix: prefix,
			Cfg: map[string]any{"part": "demux", "instance": inst, "conf": conf}})
	}
	for _, v := range l2 {
		res.AddMismatch(vfh.Mismatch{Class: v.class, What: v.what, Walk: w.Walk, Step: -1, Expected: v.exp, Got: v.got, Cfg: map[string]any{"part": "demux", "instance": inst}})
	}
}

// vfQrDemuxProduction: the code's own queue (as built: 16 slots, NOT re-made by the harness), two protocol listeners on one
// address: 17 connections per protocol; 16 are queued, the 17th is closed with "queue full", the other listener is not
// affected, Accept returns them in order.
func vfQrDemuxProduction(t *testing.T, cert tls.Certificate, res *vfh.Result) {
	const queueLen = 16 // the as-built capacity; the package constant is deliberately not read
	synctest.Test(t, func(t *testing.T) {
		r := &vfQrDmRun{t: t, conf: vfQrDmConf{QueueLen: queueLen}, cert: cert}
		if err := r.start(); err != nil {
			t.Fatal(err)
		}
		defer r.finish()
		steps := 0
		do := func(op vfh.Op) { r.exec(op); steps++ }
		do(vfh.Op{"name": "add", "proto": "a", "ok": true})
		do(vfh.Op{"name": "add", "proto": "b", "ok": true})
		id := 0
		for i := 0; i < queueLen+1; i++ {
			for _, p := range []string{"a", "b"} {
				id++
				do(vfh.Op{"name": "start", "c": float64(id), "alpn": p, "ok": true})
				fate := "queued"
				if i == queueLen {
					fate = "closed-full"
				}
				do(vfh.Op{"name": "finish", "c": float64(id), "fate": fate})
				c := r.conns[id]
				closed, cause := c.serverClosed()
				if i < queueLen && (c.err != nil || closed) {
					r.v("conn-closed-queue-not-full", fmt.Sprintf("production queue: connection %d of protocol %s (number %d) did not get queued: %v %s", id, p, i+1, c.err, cause), "queued", "closed")
				}
				if i == queueLen && c.err == nil && !closed {
					r.v("queue-exceeds-bound", fmt.Sprintf("production queue: connection number %d of protocol %s was not closed", i+1, p), "closed: queue full", "open")
				}
				if i == queueLen && closed && !strings.Contains(cause, "queue full") {
					r.d("overflow-close-reason", "close reason", "queue full", cause)
				}
			}
		}
		for l := 1; l <= 2; l++ {
			for i := 0; i < queueLen; i++ {
				do(vfh.Op{"name": "accept", "ln": float64(l), "c": float64(2*i + l)})
			}
		}
		r.finalAudit()
		res.Count(1, steps)
		res.Set("demux_production_queue_steps", steps)
		for _, v := range r.viol {
			res.AddMismatch(vfh.Mismatch{Class: v.class, What: v.what, Walk: -1, Step: -1, Expected: v.exp, Got: v.got, Cfg: map[string]any{"part": "demux", "instance": "production-queue"}})
		}
		for _, v := range r.l2 {
			res.AddMismatch(vfh.Mismatch{Class: v.class, What: v.what, Walk: -1, Step: -1, Expected: v.exp, Got: v.got, Cfg: map[string]any{"part": "demux", "instance": "production-queue"}})
		}
	})
	_ = errors.New
}
