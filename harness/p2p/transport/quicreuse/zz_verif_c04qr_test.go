//go:build verif

package quicreuse

// Entry point of the C04qr harness: loads the behaviour files of both parts (pool-*.jsonl: spec/C04qr_Pool.tla,
// demux-*.jsonl: spec/C04qr_Demux.tla) and replays the walks on real objects, one testing/synctest bubble per walk,
// spread over parallel workers (bubbles are independent of each other).

import (
	"crypto/tls"
	"encoding/json"
	"fmt"
	"os"
	"path/filepath"
	"runtime/pprof"
	"sort"
	"strings"
	"testing"
	"time"

	"github.com/libp2p/go-libp2p/internal/vfh"
)

type vfQrJob struct {
	part, inst string
	pconf      vfQrConf
	dconf      vfQrDmConf
	w          vfh.Walk
}

func TestVerifC04qr(t *testing.T) {
	res := vfh.NewResult()
	res.Rule = "distinct = (part, instance, source state, op) transitions executed on the real objects"
	defer func() {
		garbageCollectInterval, maxUnusedDuration = vfQrGcDefault, vfQrUnusedDefault
		if err := res.Write(); err != nil {
			t.Fatal(err)
		}
	}()
	os.Setenv("QUIC_GO_DISABLE_RECEIVE_BUFFER_WARNING", "true")
	cert := vfQrCert(t)
	files, _ := filepath.Glob(filepath.Join(vfh.In(), "*.jsonl"))
	sort.Strings(files)
	if len(files) == 0 {
		t.Fatal("no behaviour files")
	}
	var own, jobs []vfQrJob // own: instances that run with the package's own GC constants (sequentially, first)
	var gcEvery, maxUnused, unit int
	for _, f := range files {
		hdr, walks, err := vfh.LoadWalks(f)
		if err != nil {
			t.Fatal(err)
		}
		b, _ := json.Marshal(hdr["conf"])
		inst := fmt.Sprint(hdr["name"])
		base := filepath.Base(f)
		switch {
		case strings.HasPrefix(base, "pool-"):
			var conf vfQrConf
			if err := json.Unmarshal(b, &conf); err != nil {
				t.Fatal(err)
			}
			for _, w := range walks {
				j := vfQrJob{part: "pool", inst: inst, pconf: conf, w: w}
				if !conf.SetVars {
					own = append(own, j)
					continue
				}
				if gcEvery == 0 {
					gcEvery, maxUnused, unit = conf.GcEvery, conf.MaxUnused, conf.UnitS
				} else if gcEvery != conf.GcEvery || maxUnused != conf.MaxUnused || unit != conf.UnitS {
					t.Fatalf("instances with set_vars must agree on the GC constants (%s)", inst)
				}
				jobs = append(jobs, j)
			}
		case strings.HasPrefix(base, "demux-"):
			var conf vfQrDmConf
			if err := json.Unmarshal(b, &conf); err != nil {
				t.Fatal(err)
			}
			for _, w := range walks {
				jobs = append(jobs, vfQrJob{part: "demux", inst: inst, dconf: conf, w: w})
			}
		}
		res.Sample(map[string]any{"file": base, "walks": len(walks)})
	}
	// Stall watchdog (outside every bubble, real time): a goroutine of the code under test that blocks on a mutex for ever is
	// invisible to synctest's deadlock detection. A bubble takes milliseconds; when none completes for minutes the process
	// dumps its goroutines and exits, and the driver decides (re-run, frames of the package on the stacks).
	stallAfter := time.Duration(vfh.EnvInt("VERIF_C04QR_STALL_S", 240)) * time.Second
	stop := make(chan struct{})
	defer close(stop)
	go func() {
		last, since := vfQrProgress.Load(), time.Now()
		for {
			select {
			case <-stop:
				return
			case <-time.After(2 * time.Second):
			}
			if cur := vfQrProgress.Load(); cur != last {
				last, since = cur, time.Now()
			} else if time.Since(since) > stallAfter {
				fmt.Fprintf(os.Stderr, "VFSTALL: no bubble completed for %s\n", stallAfter)
				pprof.Lookup("goroutine").WriteTo(os.Stderr, 2)
				os.Exit(7)
			}
		}
	}()
	budget := &vfQrBudget{m: map[string]int{}}
	run := func(t *testing.T, j vfQrJob) {
		if j.part == "pool" {
			vfQrPoolWalk(t, res, j.inst, j.pconf, cert, j.w, budget)
		} else {
			vfQrDemuxWalk(t, res, j.inst, j.dconf, cert, j.w)
		}
	}
	for _, j := range own {
		run(t, j)
	}
	vfQrDemuxProduction(t, cert, res)
	// from here on the package variables keep one value: the walks can run side by side
	if gcEvery != 0 {
		garbageCollectInterval = time.Duration(gcEvery*unit) * time.Second
		maxUnusedDuration = time.Duration(maxUnused*unit) * time.Second
	}
	workers := vfh.EnvInt("VERIF_C04QR_WORKERS", 4)
	t.Run("walks", func(t *testing.T) {
		for k := 0; k < workers; k++ {
			k := k
			t.Run(fmt.Sprint(k), func(t *testing.T) {
				t.Parallel()
				for i := k; i < len(jobs); i += workers {
					run(t, jobs[i])
				}
			})
		}
	})
	_ = tls.Certificate{}
}
