//go:build verif

package quicreuse

import (
	"context"
	"crypto/tls"
	"net"
	"testing"
	"testing/synctest"
	"time"

	ma "github.com/multiformats/go-multiaddr"
	"github.com/quic-go/quic-go"
)

func vfQrProbe(t *testing.T, ln Listener) string {
	ctx, cancel := context.WithCancel(context.Background())
	done := make(chan error, 1)
	go func() { _, err := ln.Accept(ctx); done <- err }()
	synctest.Wait()
	select {
	case err := <-done:
		cancel()
		if err == nil {
			return "conn"
		}
		return err.Error()
	default:
	}
	cancel()
	<-done
	return "blocked"
}

func TestVerifC04qrProto2(t *testing.T) {
	cert := vfQrCert(t)
	synctest.Test(t, func(t *testing.T) {
		n := vfQrNewNet()
		cm, err := NewConnManager(quic.StatelessResetKey{}, quic.TokenGeneratorKey{}, OverrideListenUDP(n.listenUDP),
			OverrideSourceIPSelector(func() (SourceIPSelector, error) {
				return &vfQrRouter{n: n, src: func(*net.UDPAddr) (net.IP, error) { return net.IPv4zero, nil }}, nil
			}))
		if err != nil {
			t.Fatal(err)
		}
		gate := make(chan struct{})
		reached := make(chan struct{}, 1)
		confA := &tls.Config{NextProtos: []string{"a"}, GetCertificate: func(*tls.ClientHelloInfo) (*tls.Certificate, error) {
			reached <- struct{}{}
			<-gate
			return &cert, nil
		}}
		lnA, err := cm.ListenQUIC(ma.StringCast("/ip4/0.0.0.0/udp/0/quic-v1"), confA, nil)
		if err != nil {
			t.Fatal(err)
		}
		port := lnA.Addr().(*net.UDPAddr).Port
		lnB, err := cm.ListenQUIC(ma.StringCast("/ip4/0.0.0.0/udp/40001/quic-v1"), &tls.Config{NextProtos: []string{"b"}, Certificates: []tls.Certificate{cert}}, nil)
		if err != nil {
			t.Fatal(err)
		}
		t.Log("A", vfQrProbe(t, lnA), "B", vfQrProbe(t, lnB))
		pc, _ := n.listenUDP("udp4", &net.UDPAddr{IP: net.IPv4zero})
		ctr := &quic.Transport{Conn: pc}
		res := make(chan error, 1)
		var cc *quic.Conn
		go func() {
			c, err := ctr.Dial(context.Background(), &net.UDPAddr{IP: net.IPv4(127, 0, 0, 1), Port: port},
				&tls.Config{NextProtos: []string{"a"}, InsecureSkipVerify: true}, nil)
			cc = c
			res <- err
		}()
		<-reached
		synctest.Wait()
		t.Log("handshake parked; closing listener A")
		lnA.Close()
		close(gate)
		synctest.Wait()
		select {
		case err := <-res:
			t.Log("client dial result:", err)
		default:
			t.Log("client dial still pending")
		}
		t.Log("B after:", vfQrProbe(t, lnB), "refcount", n.count(), cm.reuseUDP4.globalListeners[port].refCount)
		if cc != nil {
			t.Log("client conn ctx", context.Cause(cc.Context()))
		}
		time.Sleep(41 * time.Second)
		synctest.Wait()
		t.Log("after 41 s: sock1 closed", n.sock(1).isClosed(), "B:", vfQrProbe(t, lnB))
		if cc != nil {
			t.Log("client conn ctx", context.Cause(cc.Context()))
		}
		lnC, err := cm.ListenQUIC(ma.StringCast("/ip4/0.0.0.0/udp/40001/quic-v1"), &tls.Config{NextProtos: []string{"c"}, Certificates: []tls.Certificate{cert}}, nil)
		t.Log("listen C:", err)
		if err == nil {
			t.Log("C:", vfQrProbe(t, lnC))
			lnC.Close()
		}
		lnB.Close()
		ctr.Close()
		pc.Close()
		cm.Close()
		synctest.Wait()
	})
}

func TestVerifC04qrProto3(t *testing.T) {
	cert := vfQrCert(t)
	synctest.Test(t, func(t *testing.T) {
		n := vfQrNewNet()
		cm, err := NewConnManager(quic.StatelessResetKey{}, quic.TokenGeneratorKey{}, OverrideListenUDP(n.listenUDP),
			OverrideSourceIPSelector(func() (SourceIPSelector, error) {
				return &vfQrRouter{n: n, src: func(*net.UDPAddr) (net.IP, error) { return net.IPv4zero, nil }}, nil
			}))
		if err != nil {
			t.Fatal(err)
		}
		// (2) listen on a socket on which the quic transport cannot initialise
		n.badNext = true
		_, err = cm.ListenQUIC(ma.StringCast("/ip4/0.0.0.0/udp/0/quic-v1"), &tls.Config{NextProtos: []string{"a"}, Certificates: []tls.Certificate{cert}}, nil)
		t.Log("listen on bad socket:", err)
		for p, tr := range cm.reuseUDP4.globalListeners {
			t.Log("globalListeners", p, "refcount", tr.refCount)
		}
		time.Sleep(75 * time.Second)
		synctest.Wait()
		t.Log("after 75 s sock1 closed:", n.sock(1).isClosed())
		cm.Close()
		n.sock(1).Close()
		synctest.Wait()
	})
	synctest.Test(t, func(t *testing.T) {
		n := vfQrNewNet()
		cm, err := NewConnManager(quic.StatelessResetKey{}, quic.TokenGeneratorKey{}, OverrideListenUDP(n.listenUDP),
			OverrideSourceIPSelector(func() (SourceIPSelector, error) {
				return &vfQrRouter{n: n, src: func(*net.UDPAddr) (net.IP, error) { return net.IPv4zero, nil }}, nil
			}))
		if err != nil {
			t.Fatal(err)
		}
		// (3) DialQUIC success
		spc, _ := n.listenUDP("udp4", &net.UDPAddr{IP: net.IPv4(10, 0, 0, 9), Port: 4001})
		t.Logf("spc %T calls %v", spc, n.calls)
		str := &quic.Transport{Conn: spc}
		sl, err := str.Listen(&tls.Config{NextProtos: []string{"a"}, Certificates: []tls.Certificate{cert}}, nil)
		if err != nil {
			t.Fatal(err)
		}
		go func() {
			for {
				c, err := sl.Accept(context.Background())
				if err != nil {
					return
				}
				_ = c
			}
		}()
		c, err := cm.DialQUIC(context.Background(), ma.StringCast("/ip4/10.0.0.9/udp/4001/quic-v1"), &tls.Config{NextProtos: []string{"a"}, InsecureSkipVerify: true}, nil)
		if err != nil {
			t.Fatal(err)
		}
		id := n.byPort(c.LocalAddr().(*net.UDPAddr).Port)
		t.Log("DialQUIC ok from sock", id, c.LocalAddr())
		c.CloseWithError(0, "")
		synctest.Wait()
		time.Sleep(75 * time.Second)
		synctest.Wait()
		t.Log("after conn close + 75 s: sock closed:", n.sock(id).isClosed())
		for p, tr := range cm.reuseUDP4.globalDialers {
			t.Log("globalDialers", p, "refcount", tr.refCount)
		}
		for p, tr := range cm.reuseUDP4.globalListeners {
			t.Log("globalListeners", p, "refcount", tr.refCount)
		}
		sl.Close()
		str.Close()
		spc.Close()
		cm.Close()
		synctest.Wait()
		for i := 1; i <= n.count(); i++ {
			t.Log("sock", i, n.sock(i).laddr, "closes", n.sock(i).closes.Load())
		}
	})
	// (4) single owner
	synctest.Test(t, func(t *testing.T) {
		n := vfQrNewNet()
		cm, err := NewConnManager(quic.StatelessResetKey{}, quic.TokenGeneratorKey{}, OverrideListenUDP(n.listenUDP), DisableReuseport())
		if err != nil {
			t.Fatal(err)
		}
		ln, err := cm.ListenQUIC(ma.StringCast("/ip4/0.0.0.0/udp/0/quic-v1"), &tls.Config{NextProtos: []string{"a"}, Certificates: []tls.Certificate{cert}}, nil)
		if err != nil {
			t.Fatal(err)
		}
		ln.Close()
		synctest.Wait()
		t.Log("single owner: listener closed; socket closed:", n.sock(1).isClosed())
		ctx, cancel := context.WithCancel(context.Background())
		cancel()
		_, err = cm.DialQUIC(ctx, ma.StringCast("/ip4/10.0.0.9/udp/4001/quic-v1"), &tls.Config{NextProtos: []string{"a"}, InsecureSkipVerify: true}, nil)
		synctest.Wait()
		t.Log("single owner: DialQUIC failed:", err, "; socket closed:", n.sock(2).isClosed())
		cm.Close()
		n.sock(1).Close()
		n.sock(2).Close()
		synctest.Wait()
	})
}
