//go:build verif

package quicreuse

// In-memory datagram network for the C04qr harnesses: fake UDP sockets handed to the ConnManager through
// OverrideListenUDP (the "OS"), a ledger of every socket (created / closed, by whom it is held), a scripted
// router, and a hook that is called on every call-back the code under test makes into these objects
// (interference points).  No real socket is opened, so everything can run inside a testing/synctest bubble.

import (
	"crypto/ed25519"
	"crypto/rand"
	"crypto/tls"
	"crypto/x509"
	"crypto/x509/pkix"
	"errors"
	"fmt"
	"math/big"
	"net"
	"os"
	"sync"
	"sync/atomic"
	"syscall"
	"testing"
	"time"
)

func vfQrCert(t testing.TB) tls.Certificate {
	pub, priv, err := ed25519.GenerateKey(rand.Reader)
	if err != nil {
		t.Fatal(err)
	}
	tmpl := &x509.Certificate{SerialNumber: big.NewInt(1), Subject: pkix.Name{CommonName: "vf"},
		NotBefore: time.Unix(0, 0), NotAfter: time.Date(2100, 1, 1, 0, 0, 0, 0, time.UTC), DNSNames: []string{"vf"}}
	der, err := x509.CreateCertificate(rand.Reader, tmpl, tmpl, pub, priv)
	if err != nil {
		t.Fatal(err)
	}
	return tls.Certificate{Certificate: [][]byte{der}, PrivateKey: priv}
}

type vfQrPkt struct {
	b    []byte
	from *net.UDPAddr
}

type vfQrNet struct {
	mu       sync.Mutex
	socks    []*vfQrSock // by id-1, in creation order
	nextPort int
	// hook is called (outside n.mu) on call-backs from the code under test: "listenudp", "localaddr", "close", "route", "selector"
	hook func(what string, s *vfQrSock)
	// failNext makes the next listenUDP call fail with this error (one shot)
	failNext error
	// badNext makes the next listenUDP call return a socket on which quic.Transport cannot initialise (one shot)
	badNext bool
	calls   []string        // log of listenUDP calls ("udp4 0.0.0.0:0 -> #3" / "... -> EADDRINUSE")
	onOpen  func(*vfQrSock) // called for every socket the code under test obtained
	drop    atomic.Bool
}

func vfQrNewNet() *vfQrNet { return &vfQrNet{nextPort: 40000} }

type vfQrSock struct {
	n      *vfQrNet
	id     int
	laddr  *net.UDPAddr
	inbox  chan vfQrPkt
	closed chan struct{}
	closes atomic.Int32
	cm     bool // obtained by the code under test through listenUDP
	bad    bool
	born   time.Time
	died   time.Time

	mu      sync.Mutex
	expired bool
	wake    chan struct{}
	timer   *time.Timer
}

// vfQrBadSock is a socket whose SyscallConn fails: quic.Transport.init (wrapConn) returns that error, so Listen and
// Dial on the transport fail - the stand-in for a setsockopt / raw-conn failure of the OS.
type vfQrBadSock struct{ *vfQrSock }

func (s vfQrBadSock) SyscallConn() (syscall.RawConn, error) {
	return nil, errors.New("vf: raw conn unavailable")
}

func (n *vfQrNet) call(what string, s *vfQrSock) {
	if h := n.hook; h != nil {
		h(what, s)
	}
}

func vfQrConflict(a, b *net.UDPAddr) bool {
	if a.Port != b.Port {
		return false
	}
	return a.IP.IsUnspecified() || b.IP.IsUnspecified() || a.IP.Equal(b.IP)
}

// listenUDP is the fake OS: port 0 gets a fresh port, a fixed port conflicts with any open socket on an overlapping address.
func (n *vfQrNet) listenUDP(network string, laddr *net.UDPAddr) (net.PacketConn, error) {
	n.call("listenudp", nil)
	return n.open(network, laddr, true)
}

// ext opens a socket for the harness itself (remote peers, lenders): no fault applies, not attributed to the code under test.
func (n *vfQrNet) ext(network string, laddr *net.UDPAddr) (*vfQrSock, error) {
	pc, err := n.open(network, laddr, false)
	if err != nil {
		return nil, err
	}
	return pc.(*vfQrSock), nil
}

func (n *vfQrNet) open(network string, laddr *net.UDPAddr, cm bool) (net.PacketConn, error) {
	n.mu.Lock()
	if err := n.failNext; err != nil && cm {
		n.failNext = nil
		n.calls = append(n.calls, fmt.Sprintf("%s %s -> %v", network, laddr, err))
		n.mu.Unlock()
		return nil, err
	}
	ip := laddr.IP
	if ip == nil {
		if network == "udp6" {
			ip = net.IPv6zero
		} else {
			ip = net.IPv4zero
		}
	}
	if network == "udp4" {
		ip = ip.To4()
	}
	a := &net.UDPAddr{IP: ip, Port: laddr.Port}
	if a.Port == 0 {
		n.nextPort++
		a.Port = n.nextPort
	} else {
		for _, o := range n.socks {
			if o.closes.Load() == 0 && vfQrConflict(o.laddr, a) {
				if cm {
					n.calls = append(n.calls, fmt.Sprintf("%s %s -> EADDRINUSE", network, laddr))
				}
				n.mu.Unlock()
				return nil, &net.OpError{Op: "listen", Net: network, Addr: a, Err: os.NewSyscallError("bind", syscall.EADDRINUSE)}
			}
		}
	}
	s := &vfQrSock{n: n, id: len(n.socks) + 1, laddr: a, inbox: make(chan vfQrPkt, 512), closed: make(chan struct{}),
		wake: make(chan struct{}, 1), born: time.Now(), cm: cm}
	n.socks = append(n.socks, s)
	bad := cm && n.badNext
	if cm {
		n.badNext = false
		n.calls = append(n.calls, fmt.Sprintf("%s %s -> #%d", network, laddr, s.id))
	}
	s.bad = bad
	onOpen := n.onOpen
	n.mu.Unlock()
	if cm && onOpen != nil {
		onOpen(s)
	}
	if bad {
		return vfQrBadSock{s}, nil
	}
	return s, nil
}

func (n *vfQrNet) sock(id int) *vfQrSock {
	n.mu.Lock()
	defer n.mu.Unlock()
	if id < 1 || id > len(n.socks) {
		return nil
	}
	return n.socks[id-1]
}

func (n *vfQrNet) count() int {
	n.mu.Lock()
	defer n.mu.Unlock()
	return len(n.socks)
}

// byAddr finds the open socket a datagram for dst is delivered to.
func (n *vfQrNet) byAddr(dst *net.UDPAddr) *vfQrSock {
	n.mu.Lock()
	defer n.mu.Unlock()
	var wild *vfQrSock
	for _, o := range n.socks {
		if o.closes.Load() != 0 || o.laddr.Port != dst.Port {
			continue
		}
		if o.laddr.IP.Equal(dst.IP) {
			return o
		}
		if o.laddr.IP.IsUnspecified() {
			wild = o
		}
	}
	return wild
}

// byPort maps the source port of a datagram / connection back to the socket id (ports are unique over a run).
func (n *vfQrNet) byPort(port int) int {
	n.mu.Lock()
	defer n.mu.Unlock()
	for _, o := range n.socks {
		if o.laddr.Port == port {
			return o.id
		}
	}
	return 0
}

func (s *vfQrSock) isClosed() bool { return s.closes.Load() > 0 }

func (s *vfQrSock) ReadFrom(p []byte) (int, net.Addr, error) {
	for {
		s.mu.Lock()
		exp := s.expired
		s.mu.Unlock()
		if exp {
			return 0, nil, os.ErrDeadlineExceeded
		}
		select {
		case <-s.closed:
			return 0, nil, net.ErrClosed
		default:
		}
		select {
		case pk := <-s.inbox:
			return copy(p, pk.b), pk.from, nil
		case <-s.closed:
			return 0, nil, net.ErrClosed
		case <-s.wake:
		}
	}
}

func (s *vfQrSock) WriteTo(p []byte, addr net.Addr) (int, error) {
	if s.isClosed() {
		return 0, net.ErrClosed
	}
	ua, ok := addr.(*net.UDPAddr)
	if !ok {
		return 0, errors.New("vf: not a UDP address")
	}
	if s.n.drop.Load() {
		return len(p), nil
	}
	d := s.n.byAddr(ua)
	if d == nil {
		return len(p), nil // nobody there: the datagram is lost
	}
	from := &net.UDPAddr{IP: s.laddr.IP, Port: s.laddr.Port}
	if from.IP.IsUnspecified() {
		// a wildcard socket sends from the address the destination would answer to
		if ua.IP.To4() != nil {
			from.IP = net.IPv4(127, 0, 0, 1).To4()
		} else {
			from.IP = net.IPv6loopback
		}
	}
	select {
	case d.inbox <- vfQrPkt{b: append([]byte(nil), p...), from: from}:
	default:
	}
	return len(p), nil
}

func (s *vfQrSock) Close() error {
	s.n.call("close", s)
	if s.closes.Add(1) == 1 {
		s.died = time.Now()
		close(s.closed)
		return nil
	}
	return net.ErrClosed
}

func (s *vfQrSock) LocalAddr() net.Addr {
	s.n.call("localaddr", s)
	return &net.UDPAddr{IP: s.laddr.IP, Port: s.laddr.Port}
}

func (s *vfQrSock) SetDeadline(t time.Time) error      { return s.SetReadDeadline(t) }
func (s *vfQrSock) SetWriteDeadline(t time.Time) error { return nil }
func (s *vfQrSock) SetReadBuffer(int) error            { return nil }
func (s *vfQrSock) SetWriteBuffer(int) error           { return nil }

func (s *vfQrSock) SetReadDeadline(t time.Time) error {
	s.mu.Lock()
	if s.timer != nil {
		s.timer.Stop()
		s.timer = nil
	}
	if t.IsZero() {
		s.expired = false
	} else if d := time.Until(t); d <= 0 {
		s.expired = true
	} else {
		s.expired = false
		s.timer = time.AfterFunc(d, func() {
			s.mu.Lock()
			s.expired = true
			s.mu.Unlock()
			select {
			case s.wake <- struct{}{}:
			default:
			}
		})
	}
	s.mu.Unlock()
	select {
	case s.wake <- struct{}{}:
	default:
	}
	return nil
}

// vfQrRouter is the scripted SourceIPSelector: the preferred source for a destination is decided by the harness.
type vfQrRouter struct {
	n   *vfQrNet
	src func(dst *net.UDPAddr) (net.IP, error)
}

func (r *vfQrRouter) PreferredSourceIPForDestination(dst *net.UDPAddr) (net.IP, error) {
	r.n.call("route", nil)
	return r.src(dst)
}
