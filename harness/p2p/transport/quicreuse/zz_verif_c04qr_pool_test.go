//go:build verif

package quicreuse

// Conformance harness of the extension engine C04qr, part 1 (spec/C04qr_Pool.tla): every transition of the printed
// TLC state graphs is executed on a real ConnManager (real reuse pool, real refcountedTransport / singleOwnerTransport,
// real quic.Transport and quic listeners) whose sockets come from the in-memory network of zz_verif_c04qr_net_test.go,
// inside a testing/synctest bubble (the GC ticker and unusedSince run on virtual time).
//
// After every step
//   - the observable results of the call (error class, which socket the listener / transport / connection is bound to),
//   - L1 monitors computed from the harness's own ledger of users per socket and the observed Close calls of the sockets
//     (never closed in use, not before the GC period, closed when due, single owner closed at release, lender signalled,
//     open listeners alive, dial preference, Close closes all), and
//   - the projected internal state (pool class, count, unused age, registry, routes: class "L2:...")
// are compared with the model.
//
// A disagreement of the internal count is first of all L2; the harness then re-runs the executed prefix in a fresh bubble
// WITHOUT touching anything and lets virtual time pass with all monitors on ("confirmation"): only what the monitors then
// observe (a socket that is never closed, a socket closed under a user) is reported as a violation, with a class key built
// from the monitor and the kind of the call that caused it.  In the main run the count is put right (DecreaseCount /
// IncreaseCount on the real transport) so that the rest of the walk stays comparable.

import (
	"context"
	"crypto/tls"
	"encoding/json"
	"errors"
	"fmt"
	"net"
	"sort"
	"strings"
	"sync"
	"sync/atomic"
	"testing"
	"testing/synctest"
	"time"

	"github.com/libp2p/go-libp2p/core/transport"
	"github.com/libp2p/go-libp2p/internal/vfh"
	ma "github.com/multiformats/go-multiaddr"
	"github.com/quic-go/quic-go"
)

type vfQrConf struct {
	Reuse     bool `json:"reuse"`
	GcEvery   int  `json:"gcEvery"`
	MaxUnused int  `json:"maxUnused"`
	UnitS     int  `json:"unit_s"`
	SetVars   bool `json:"set_vars"` // false: run with the package's own garbageCollectInterval / maxUnusedDuration
	V6        bool `json:"v6"`
}

type vfQrSockSt struct {
	IP     string `json:"ip"`
	Port   int    `json:"port"`
	Pool   string `json:"pool"`
	Ref    int    `json:"ref"`
	Unused int    `json:"unused"`
	Closed bool   `json:"closed"`
	Lent   bool   `json:"lent"`
	Bad    bool   `json:"bad"`
	Done   bool   `json:"done"`
}

type vfQrSt struct {
	N     int          `json:"n"`
	Socks []vfQrSockSt `json:"socks"`
	Ql    []struct {
		Rc     int            `json:"rc"`
		Protos map[string]int `json:"protos"`
	} `json:"ql"`
	Lns []struct {
		St    string `json:"st"`
		Sock  int    `json:"sock"`
		Proto string `json:"proto"`
		Assoc string `json:"assoc"`
	} `json:"lns"`
	Routes   bool `json:"routes"`
	Phase    int  `json:"phase"`
	CmClosed bool `json:"cmClosed"`
}

// ledger entry of one socket: what the harness itself knows from the calls it made and their results
type vfQrLedger struct {
	s              *vfQrSock
	users          int
	idleSince      int // tick index at which users returned to 0 (-1: in use or never used)
	lent           bool
	done           <-chan struct{}
	listened       bool // became a listening transport (stays one)
	listenedBefore bool
	last           string // kind of the call that ended the last use
	closedAt       int    // tick index at which Close was first observed (-1: not yet)
	closedObs      bool
	fuzzy          bool // passive continuation: a failed call may or may not have touched it - no timing verdicts until its next use
}

type vfQrDial struct {
	kind, assoc, src string
	routed           bool
	gate             chan struct{}
	unhook           func()
	parked           chan struct{}
	resTr            chan vfQrDialRes
	tr               RefCountedQUICTransport
	conn             *quic.Conn
	sock             int
	released         bool
	ctxCancel        context.CancelFunc
}

type vfQrDialRes struct {
	tr   RefCountedQUICTransport
	conn *quic.Conn
	err  error
}

type vfQrViolation struct {
	class, what string
	exp, got    any
}

type vfQrRun struct {
	t        *testing.T
	conf     vfQrConf
	cert     tls.Certificate
	unit     time.Duration
	n        *vfQrNet
	cm       *ConnManager
	t0       time.Time
	k        int // tick index
	cmClosed bool
	selErr   bool
	led      []*vfQrLedger // model socket id - 1
	lns      map[int]Listener
	lnSock   map[int]int
	lnAssoc  map[int]string
	lnOpen   map[int]bool
	dials    map[int]*vfQrDial
	shares   map[int]net.PacketConn
	shSock   map[int]int
	shClosed map[int]bool
	lendTr   []*quic.Transport
	remotes  []func()
	routeAsk int
	stepWhat string // how the step just executed ended a use ("" if it ended none)
	cause    string // confirmation run: stepWhat of the deviating step - names the class of what the monitors then see
	newest   [2]any // the user made by the step just executed ("ln"/"dial"/"share", id), nil if it made none
	passive  bool   // confirmation mode, after the deviating step: the model no longer describes the real state
	noRepair bool   // confirmation mode, at the deviating step: do not put the count right
	viol     []vfQrViolation
	l2       []vfQrViolation
	retry    bool           // an allowed but different non-deterministic choice was made: run the walk again
	tie      bool           // the step just executed had several allowed outcomes (Go map iteration order decides)
	tieSnap  map[int][3]int // candidate socket -> (pool class, count, unused age) before the call
	tieHeld  bool           // the model's outcome keeps a reference (always visible in the count)
	devs     []string
}

func (r *vfQrRun) v(class, what string, exp, got any) {
	r.viol = append(r.viol, vfQrViolation{class, what, exp, got})
}

// vm: a violation whose expectation comes from the model; in a passive continuation (the real state has left the model at
// the deviating step) only the monitors that rest on the harness's own ledger are in force
func (r *vfQrRun) vm(class, what string, exp, got any) {
	if r.passive {
		return
	}
	r.v(class, what, exp, got)
}
func (r *vfQrRun) d(class, what string, exp, got any) {
	r.l2 = append(r.l2, vfQrViolation{"L2:" + class, what, exp, got})
}

func (r *vfQrRun) ipOf(name string) net.IP {
	switch name {
	case "any":
		if r.conf.V6 {
			return net.IPv6zero
		}
		return net.IPv4zero.To4()
	case "u1":
		if r.conf.V6 {
			return net.ParseIP("fd00:1::1")
		}
		return net.IPv4(10, 1, 0, 1).To4()
	case "u2":
		if r.conf.V6 {
			return net.ParseIP("fd00:2::1")
		}
		return net.IPv4(10, 2, 0, 1).To4()
	}
	return nil
}
func (r *vfQrRun) network() string {
	if r.conf.V6 {
		return "udp6"
	}
	return "udp4"
}
func (r *vfQrRun) destFor(src string) *net.UDPAddr {
	i := map[string]byte{"none": 9, "u1": 1, "u2": 2}[src]
	if r.conf.V6 {
		return &net.UDPAddr{IP: net.ParseIP(fmt.Sprintf("fd00:9::%d", i)), Port: 4433}
	}
	return &net.UDPAddr{IP: net.IPv4(10, 9, 0, i).To4(), Port: 4433}
}
func vfQrPort(p int) int {
	if p == 0 {
		return 0
	}
	return 4000 + p
}
func (r *vfQrRun) maddr(ip string, port int) ma.Multiaddr {
	a := r.ipOf(ip)
	if r.conf.V6 {
		return ma.StringCast(fmt.Sprintf("/ip6/%s/udp/%d/quic-v1", a, vfQrPort(port)))
	}
	return ma.StringCast(fmt.Sprintf("/ip4/%s/udp/%d/quic-v1", a, vfQrPort(port)))
}

// modelSock maps an observed local port to the model's socket id (0: not a socket of the code under test). A fixed port can
// be bound again after its socket was closed: the open socket wins, then the most recent one.
func (r *vfQrRun) modelSock(port int) int {
	last := 0
	for i, l := range r.led {
		if l.s.laddr.Port == port {
			if !l.s.isClosed() {
				return i + 1
			}
			last = i + 1
		}
	}
	return last
}

func (r *vfQrRun) start() error {
	r.unit = time.Duration(r.conf.UnitS) * time.Second
	if r.conf.SetVars {
		// (walks run side by side: all instances with set_vars use the same values, written only when they differ)
		if gi, mu := time.Duration(r.conf.GcEvery)*r.unit, time.Duration(r.conf.MaxUnused)*r.unit; garbageCollectInterval != gi || maxUnusedDuration != mu {
			garbageCollectInterval, maxUnusedDuration = gi, mu
		}
	} else {
		garbageCollectInterval, maxUnusedDuration = vfQrGcDefault, vfQrUnusedDefault
		if garbageCollectInterval != time.Duration(r.conf.GcEvery)*r.unit || maxUnusedDuration != time.Duration(r.conf.MaxUnused)*r.unit {
			// the model instance is told the package's values by the driver; if they changed the instance no longer
			// describes them - reported as an observable difference of the GC period
			r.v("gc-period-differs-from-documented", "garbageCollectInterval / maxUnusedDuration are not 30 s / 10 s",
				[]string{"30s", "10s"}, []string{garbageCollectInterval.String(), maxUnusedDuration.String()})
		}
	}
	r.n = vfQrNewNet()
	r.n.onOpen = func(s *vfQrSock) {
		r.led = append(r.led, &vfQrLedger{s: s, idleSince: -1, closedAt: -1})
	}
	r.lns, r.lnSock, r.lnAssoc, r.lnOpen = map[int]Listener{}, map[int]int{}, map[int]string{}, map[int]bool{}
	r.dials, r.shares, r.shSock, r.shClosed = map[int]*vfQrDial{}, map[int]net.PacketConn{}, map[int]int{}, map[int]bool{}
	opts := []Option{OverrideListenUDP(r.n.listenUDP), OverrideSourceIPSelector(func() (SourceIPSelector, error) {
		if r.selErr {
			r.selErr = false
			return nil, errors.New("vf: no routing table")
		}
		return &vfQrRouter{n: r.n, src: r.route}, nil
	})}
	if !r.conf.Reuse {
		opts = append(opts, DisableReuseport())
	}
	cm, err := NewConnManager(quic.StatelessResetKey{}, quic.TokenGeneratorKey{}, opts...)
	if err != nil {
		return err
	}
	r.cm = cm
	r.t0 = time.Now()
	time.Sleep(r.unit / 2)
	synctest.Wait()
	return nil
}

// route is the scripted router: the destination encodes the answer.
func (r *vfQrRun) route(dst *net.UDPAddr) (net.IP, error) {
	r.routeAsk++
	var last byte
	if ip4 := dst.IP.To4(); ip4 != nil {
		last = ip4[3]
	} else {
		last = dst.IP[15]
	}
	switch last {
	case 1:
		return r.ipOf("u1"), nil
	case 2:
		return r.ipOf("u2"), nil
	}
	if r.routeAsk%2 == 0 {
		return nil, errors.New("vf: no route")
	}
	return r.ipOf("any"), nil
}

func (r *vfQrRun) remote(dst *net.UDPAddr) error {
	if r.n.byAddr(dst) != nil {
		return nil
	}
	s, err := r.n.ext(r.network(), dst)
	if err != nil {
		return err
	}
	tr := &quic.Transport{Conn: s}
	ln, err := tr.Listen(&tls.Config{NextProtos: []string{"a", "b"}, Certificates: []tls.Certificate{r.cert}}, nil)
	if err != nil {
		return err
	}
	go func() {
		for {
			if _, err := ln.Accept(context.Background()); err != nil {
				return
			}
		}
	}()
	r.remotes = append(r.remotes, func() { ln.Close(); tr.Close(); s.Close() })
	return nil
}

func (r *vfQrRun) finish() {
	for _, d := range r.dials {
		if d.unhook != nil {
			d.unhook()
		}
		if d.gate != nil && d.routed && d.tr == nil && d.conn == nil {
			select {
			case <-d.gate:
			default:
				close(d.gate)
				res := <-d.resTr
				d.conn = res.conn
			}
		}
		if d.ctxCancel != nil {
			d.ctxCancel()
		}
		if d.conn != nil {
			d.conn.CloseWithError(0, "")
		}
	}
	synctest.Wait()
	for _, pc := range r.shares {
		_ = pc
	}
	for _, l := range r.lns {
		l.Close()
	}
	if !r.cmClosed && r.cm != nil {
		r.cm.Close()
	}
	for _, ru := range []*reuse{r.cm.reuseUDP4, r.cm.reuseUDP6} {
		// (a Close that left a pool running: stop its GC goroutine so that the bubble can be left)
		if ru != nil {
			select {
			case <-ru.gcStopChan:
			default:
				vfQrGuard(func() { ru.Close() })
			}
		}
	}
	synctest.Wait()
	for _, tr := range r.lendTr {
		tr.Close()
	}
	for _, f := range r.remotes {
		f()
	}
	// whatever the code under test left open (single owner sockets that were never closed ...) is closed here so that
	// the goroutines of their quic transports can end and the bubble can be left
	for _, l := range r.led {
		if tr := r.findSingle(l.s); tr != nil {
			tr.Close()
		}
		if !l.s.isClosed() {
			l.s.Close()
		}
	}
	synctest.Wait()
}

// ---- access to the real internal state (in-package) ----

func (r *vfQrRun) reuse() *reuse {
	if r.conf.V6 {
		return r.cm.reuseUDP6
	}
	return r.cm.reuseUDP4
}

func vfQrUnwrapSock(pc net.PacketConn) *vfQrSock {
	switch c := pc.(type) {
	case *vfQrSock:
		return c
	case vfQrBadSock:
		return c.vfQrSock
	}
	return nil
}

// find returns the pooled transport built on socket s and the class (map) it is filed under.
func (r *vfQrRun) find(s *vfQrSock) (*refcountedTransport, string) {
	ru := r.reuse()
	if ru == nil {
		return nil, "X"
	}
	ru.mutex.Lock()
	defer ru.mutex.Unlock()
	var tr *refcountedTransport
	pool := "X"
	n := 0
	for _, t := range ru.globalListeners {
		if vfQrUnwrapSock(t.packetConn) == s {
			tr, pool = t, "L"
			n++
		}
	}
	for _, t := range ru.globalDialers {
		if vfQrUnwrapSock(t.packetConn) == s {
			tr, pool = t, "D"
			n++
		}
	}
	for _, m := range ru.unicast {
		for _, t := range m {
			if vfQrUnwrapSock(t.packetConn) == s {
				tr, pool = t, "U"
				n++
			}
		}
	}
	if n > 1 {
		pool = "multi"
	}
	return tr, pool
}

// findSingle returns the single owner transport on socket s that the harness knows of (listener registry, dial handles)
func (r *vfQrRun) findSingle(s *vfQrSock) *singleOwnerTransport {
	r.cm.quicListenersMu.Lock()
	defer r.cm.quicListenersMu.Unlock()
	for _, e := range r.cm.quicListeners {
		if so, ok := e.ln.transport.(*singleOwnerTransport); ok && vfQrUnwrapSock(so.packetConn) == s {
			return so
		}
	}
	for _, d := range r.dials {
		if so, ok := d.tr.(*singleOwnerTransport); ok && vfQrUnwrapSock(so.packetConn) == s {
			return so
		}
	}
	return nil
}

func (r *vfQrRun) age(t *refcountedTransport) (ref int, unused int) {
	t.mutex.Lock()
	defer t.mutex.Unlock()
	if t.unusedSince.IsZero() {
		return t.refCount, -1
	}
	at := int((t.unusedSince.Sub(r.t0) - r.unit/2 + r.unit/4) / r.unit)
	a := r.k - at
	if a > r.conf.MaxUnused+1 {
		a = r.conf.MaxUnused + 1
	}
	return t.refCount, a
}

// ---- ledger ----

func (r *vfQrRun) use(sock int, what string) {
	if sock < 1 || sock > len(r.led) {
		return
	}
	l := r.led[sock-1]
	l.users++
	l.idleSince = -1
	l.fuzzy = false
	_ = what
}
func (r *vfQrRun) unuse(sock int, what string) {
	if sock < 1 || sock > len(r.led) {
		return
	}
	l := r.led[sock-1]
	r.stepWhat = what
	l.users--
	l.last = what
	if l.users == 0 {
		l.idleSince = r.k
	}
}

// touch: a use that began and ended within one call (failed dial, failed listen)
func (r *vfQrRun) touch(sock int, what string) {
	if sock < 1 || sock > len(r.led) {
		return
	}
	l := r.led[sock-1]
	r.stepWhat = what
	l.last = what
	if l.users == 0 {
		l.idleSince = r.k
	}
}

// dropUsers (confirmation runs): the harness gives back every use it holds - except, if keep is set, the one made by the
// deviating step - through the ordinary calls
func (r *vfQrRun) dropUsers(keep [2]any) {
	ids := func(m map[int]bool) []int {
		var l []int
		for id := range m {
			l = append(l, id)
		}
		sort.Ints(l)
		return l
	}
	open := map[int]bool{}
	for id, o := range r.lnOpen {
		if o && keep != [2]any{"ln", id} {
			open[id] = true
		}
	}
	for _, id := range ids(open) {
		r.exec(vfh.Op{"name": "closeln", "ln": float64(id)})
	}
	held := map[int]bool{}
	for id, d := range r.dials {
		if !d.released && (d.tr != nil || d.conn != nil) && keep != [2]any{"dial", id} {
			held[id] = true
		}
	}
	for _, id := range ids(held) {
		r.exec(vfh.Op{"name": "release", "d": float64(id)})
	}
	sh := map[int]bool{}
	for k := range r.shares {
		if !r.shClosed[k] && keep != [2]any{"share", k} {
			sh[k] = true
		}
	}
	for _, k := range ids(sh) {
		r.exec(vfh.Op{"name": "closeshare", "k": float64(k)})
	}
}

// touchAny (passive continuation): a failed call touched one of the unused transports, the harness cannot know which
func (r *vfQrRun) touchAny() {
	for _, l := range r.led {
		if l.users == 0 && !l.s.isClosed() {
			l.fuzzy = true
		}
	}
}

func (r *vfQrRun) probe(ln Listener) string {
	ctx, cancel := context.WithCancel(context.Background())
	done := make(chan error, 1)
	go func() { _, err := ln.Accept(ctx); done <- err }()
	synctest.Wait()
	select {
	case err := <-done:
		cancel()
		if err == nil {
			return "conn"
		}
		if errors.Is(err, transport.ErrListenerClosed) {
			return "closed"
		}
		return err.Error()
	default:
	}
	cancel()
	<-done
	return "alive"
}

// monitors: the clauses over observables only. gcInstant: the step just executed crossed a GC instant.
func (r *vfQrRun) monitors(gcInstant bool, opName string) {
	for i, l := range r.led {
		id := i + 1
		closed := l.s.isClosed()
		if closed && !l.closedObs {
			l.closedObs = true
			l.closedAt = r.k
			if l.lent {
				r.v("lent-socket-closed", fmt.Sprintf("socket %d belongs to the lender and was closed by the ConnManager", id), false, true)
				continue
			}
			if !r.cmClosed || opName != "closecm" {
				if l.users > 0 && !r.cmClosed {
					r.v("socket-closed-in-use:"+opName, fmt.Sprintf("socket %d (%s) was closed while it has %d user(s)", id, l.s.laddr, l.users), "open", "closed")
				} else if r.conf.Reuse && !r.cmClosed && !l.fuzzy {
					// Q3: only at a GC instant, after more than MaxUnused units without users
					if !gcInstant || l.idleSince < 0 || r.k-l.idleSince <= r.conf.MaxUnused {
						r.v("socket-closed-before-gc-period:"+opName, fmt.Sprintf("socket %d closed at tick %d (gc instant %v), without users since tick %d", id, r.k, gcInstant, l.idleSince),
							"open", "closed")
					}
				}
			}
		}
		if l.s.closes.Load() > 1 {
			r.v("socket-closed-twice", fmt.Sprintf("socket %d: %d Close calls", id, l.s.closes.Load()), 1, l.s.closes.Load())
		}
		if l.lent {
			sig := false
			select {
			case <-l.done:
				sig = true
			default:
			}
			if sig && !l.closedObs {
				l.closedObs, l.closedAt = true, r.k
				if l.users > 0 && !r.cmClosed {
					r.v("lender-signalled-in-use:"+opName, fmt.Sprintf("lent socket %d: done signal while it has %d user(s)", id, l.users), false, true)
				} else if !r.cmClosed && !l.fuzzy && (!gcInstant || l.idleSince < 0 || r.k-l.idleSince <= r.conf.MaxUnused) {
					r.v("lender-signalled-before-gc-period:"+opName, fmt.Sprintf("lent socket %d signalled at tick %d, unused since %d", id, r.k, l.idleSince), false, true)
				}
			}
			closed = sig
		}
		if r.cmClosed && r.conf.Reuse {
			// Q9: Close closes every socket of the pool and signals every lender
			if !closed && !l.closedObs {
				r.v("close-leaves-socket-open", fmt.Sprintf("socket %d (%s) is open / its lender unsignalled after ConnManager.Close", id, l.s.laddr), "closed", "open")
				l.closedObs = true
			}
			continue
		}
		if r.conf.Reuse {
			// Q4: a socket without users for more than MaxUnused does not survive a GC instant
			if gcInstant && !closed && !l.fuzzy && l.users == 0 && l.idleSince >= 0 && r.k-l.idleSince > r.conf.MaxUnused {
				why := l.last
				if r.passive && r.cause != "" {
					why = r.cause // the call whose count went wrong, not the one that happened to come last
				}
				r.v("socket-not-released:"+why, fmt.Sprintf("socket %d (%s) has had no user since tick %d and survived the GC instant before tick %d (last use ended by: %s)",
					id, l.s.laddr, l.idleSince, r.k, l.last), "closed", "open")
				l.idleSince = -1 // report once
			}
		} else {
			// Q5
			if !closed && l.users == 0 && l.last != "" {
				r.v("single-owner-socket-not-closed:"+l.last, fmt.Sprintf("socket %d (%s): its only owner is done (%s) and it is still open", id, l.s.laddr, l.last), "closed", "open")
				l.last = ""
			}
		}
	}
	if !r.cmClosed || !r.conf.Reuse {
		ids := make([]int, 0, len(r.lns))
		for id := range r.lns {
			ids = append(ids, id)
		}
		sort.Ints(ids)
		for _, id := range ids {
			got := r.probe(r.lns[id])
			want := "alive"
			if !r.lnOpen[id] {
				want = "closed"
			}
			if got != want {
				if want == "alive" {
					r.v("listener-dead-while-open:"+opName, fmt.Sprintf("listener %d is open but Accept returns %q", id, got), want, got)
				} else {
					r.v("closed-listener-accepts", fmt.Sprintf("listener %d was closed but Accept returns %q", id, got), want, got)
				}
			}
		}
	}
}

// allowedDial: Q8 from the ledger. Returns the set of sockets a dial may come back with (nil: a new socket).
func (r *vfQrRun) allowedDial(src, assoc string) []int {
	var uni, glob, dl []int
	if !r.conf.Reuse {
		return nil // every dial gets a socket of its own
	}
	for i, l := range r.led {
		if l.s.isClosed() {
			continue
		}
		if l.lent {
			select {
			case <-l.done:
				continue
			default:
			}
		}
		unspec := l.s.laddr.IP.IsUnspecified()
		switch {
		case l.listened && !unspec && src != "none" && l.s.laddr.IP.Equal(r.ipOf(src)):
			uni = append(uni, i+1)
		case l.listened && unspec:
			glob = append(glob, i+1)
		case !l.listened && unspec:
			dl = append(dl, i+1)
		}
	}
	has := func(s int) bool {
		if assoc == "none" {
			return true
		}
		for id, open := range r.lnOpen {
			if open && r.lnSock[id] == s && r.lnAssoc[id] == assoc {
				return true
			}
		}
		return false
	}
	prefer := func(c []int) []int {
		var p []int
		for _, s := range c {
			if has(s) {
				p = append(p, s)
			}
		}
		if len(p) > 0 {
			return p
		}
		return c
	}
	if len(uni) > 0 {
		return prefer(uni)
	}
	if len(glob) > 0 {
		return prefer(glob)
	}
	return dl
}

func vfQrIn(l []int, x int) bool {
	for _, y := range l {
		if x == y {
			return true
		}
	}
	return false
}

func vfQrErrClass(err error) string {
	if err == nil {
		return "none"
	}
	e := err.Error()
	switch {
	case strings.Contains(e, "already listening for protocol"):
		return "dup"
	case strings.Contains(e, "address already in use"):
		return "inuse"
	case strings.Contains(e, "vf: listenUDP refused"):
		return "oserr"
	case strings.Contains(e, "vf: raw conn unavailable"):
		return "listenfail"
	case strings.Contains(e, "no ALPN found"):
		return "noalpn"
	case errors.Is(err, context.Canceled):
		return "dialfail"
	}
	return "other:" + e
}

func (r *vfQrRun) arm(f string) {
	switch f {
	case "oserr":
		r.n.failNext = errors.New("vf: listenUDP refused")
	case "bad":
		r.n.badNext = true
	case "selerr":
		r.selErr = true
	}
}
func (r *vfQrRun) disarm() {
	r.n.failNext, r.n.badNext, r.selErr = nil, false, false
}

// snapshot records the internal state of the candidates of a non-deterministic choice before the call
func (r *vfQrRun) snapshot(cands []int) {
	r.tieSnap = map[int][3]int{}
	for _, c := range cands {
		r.tieSnap[c] = r.internal(c)
	}
}

func (r *vfQrRun) internal(sock int) [3]int {
	tr, pool := r.find(r.led[sock-1].s)
	if tr == nil {
		return [3]int{-1, 0, 0}
	}
	ref, age := r.age(tr)
	return [3]int{int(pool[0]), ref, age}
}

// otherChoice: the call picked another of the eligible candidates than the model did (seen in the internal state, because a
// failed call does not show which transport it touched). Anything else - nothing or several changed - is left to the comparison.
func (r *vfQrRun) otherChoice(chosen int) bool {
	var changed []int
	for c, before := range r.tieSnap {
		if r.internal(c) != before {
			changed = append(changed, c)
		}
	}
	if len(changed) == 1 {
		return changed[0] != chosen
	}
	if len(changed) == 0 {
		// A use that began and ended within the call (failed dial / failed listen) is invisible on a transport that became
		// unused at this very instant or that has other users. If the model's outcome would be visible on its own choice
		// and is not, while it would be invisible on another candidate, that other candidate was picked.
		invisible := func(c int) bool { b, ok := r.tieSnap[c]; return ok && (b[1] >= 1 || (b[1] == 0 && b[2] == 0)) }
		if r.tieHeld || !invisible(chosen) {
			for c := range r.tieSnap {
				if c != chosen && invisible(c) {
					return true
				}
			}
		}
	}
	return false
}

// exec runs one model action on the real objects and updates the ledger from the real results.
func (r *vfQrRun) exec(op vfh.Op) {
	name := op.Name()
	gcInstant := false
	r.tie = false
	r.newest = [2]any{}
	r.stepWhat = ""
	switch name {
	case "listen":
		nBefore := len(r.led)
		if op.S("ip") == "any" {
			// several dial transports that the listen may take over?
			var cands []int
			for i, l := range r.led {
				if !l.listened && !l.s.isClosed() && l.s.laddr.IP.IsUnspecified() && (op.I("port") == 0 || l.s.laddr.Port == vfQrPort(op.I("port"))) {
					cands = append(cands, i+1)
				}
			}
			if r.tie = len(cands) > 1 && !r.passive; r.tie {
				r.snapshot(cands)
			}
		}
		r.arm(op.S("fault"))
		conf := &tls.Config{Certificates: []tls.Certificate{r.cert}}
		if op.S("fault") != "noalpn" {
			conf.NextProtos = []string{op.S("proto")}
		}
		var assoc any
		if op.S("assoc") != "none" {
			assoc = op.S("assoc")
		}
		ln, err := r.cm.ListenQUICAndAssociate(assoc, r.maddr(op.S("ip"), op.I("port")), conf, nil)
		r.disarm()
		synctest.Wait()
		r.tieHeld = op.B("ok")
		if r.tie && r.otherChoice(op.I("sock")) {
			r.retry = true
			return
		}
		if (err == nil) != op.B("ok") {
			if err == nil {
				cls := "listen-accepted"
				if op.S("err") == "dup" {
					cls = "duplicate-protocol-listener-accepted"
				}
				r.vm(cls, fmt.Sprintf("ListenQUIC(%s:%d, %s) succeeded, expected error %s", op.S("ip"), op.I("port"), op.S("proto"), op.S("err")), op.S("err"), "ok")
			} else {
				r.vm("listen-refused", fmt.Sprintf("ListenQUIC(%s:%d, %s) failed: %v", op.S("ip"), op.I("port"), op.S("proto"), err), "ok", err.Error())
			}
		} else if err != nil && vfQrErrClass(err) != op.S("err") {
			r.d("listen-error-kind", "ListenQUIC error kind", op.S("err"), err.Error())
		}
		if err == nil {
			id := op.I("ln")
			if id == 0 || r.lns[id] != nil {
				id = 1000 + len(r.lns) // (the model refused this listen)
			}
			sock := r.modelSock(ln.Addr().(*net.UDPAddr).Port)
			r.lns[id], r.lnSock[id], r.lnAssoc[id], r.lnOpen[id] = ln, sock, op.S("assoc"), true
			r.newest = [2]any{"ln", id}
			first := true
			for o, open := range r.lnOpen {
				if o != id && open && r.lnSock[o] == sock {
					first = false
				}
			}
			if first {
				r.use(sock, "listen")
			}
			if sock >= 1 {
				r.led[sock-1].listenedBefore = r.led[sock-1].listened
				r.led[sock-1].listened = true
			}
			if op.B("ok") && sock != op.I("sock") {
				// allowed when one of several dial transports was re-used (map iteration order decides which)
				if r.passive {
				} else if r.tie && sock >= 1 && sock <= nBefore && op.I("sock") <= nBefore && !r.led[sock-1].listenedBefore {
					r.retry = true
				} else {
					r.vm("listen-on-unexpected-socket", fmt.Sprintf("listener bound to socket %d", sock), op.I("sock"), sock)
				}
			}
			if want := op.I("port"); want != 0 && ln.Addr().(*net.UDPAddr).Port != vfQrPort(want) {
				r.v("listen-wrong-port", "listener address", vfQrPort(want), ln.Addr().String())
			}
		} else {
			// a failed listen may have obtained a socket / touched a transport: the use ended within the call
			what := "listen-failed-" + vfQrErrClass(err)
			if len(r.led) > nBefore {
				r.led[len(r.led)-1].listened = true
				r.touch(len(r.led), what)
			} else if r.passive {
				r.touchAny()
			} else if s := op.I("sock"); s != 0 && s <= len(r.led) {
				r.led[s-1].listened = true
				r.touch(s, what)
			}
		}
	case "closeln":
		id := op.I("ln")
		if ln := r.lns[id]; ln != nil {
			ln.Close()
			synctest.Wait()
			if r.lnOpen[id] {
				r.lnOpen[id] = false
				last := true
				for o, open := range r.lnOpen {
					if open && r.lnSock[o] == r.lnSock[id] {
						last = false
					}
				}
				if last {
					r.unuse(r.lnSock[id], "last-listener-closed")
				}
			}
		}
	case "dialbegin":
		d := &vfQrDial{kind: op.S("kind"), assoc: op.S("assoc"), src: op.S("src"), routed: op.B("routed")}
		r.dials[op.I("d")] = d
		if d.routed {
			r.startDial(d)
			synctest.Wait()
			select {
			case <-d.parked:
			default:
				r.d("router-not-consulted", "the dial did not reach the router although routes are set in the model", true, false)
			}
		}
	case "dialend":
		d := r.dials[op.I("d")]
		if d == nil {
			break
		}
		nBefore := len(r.led)
		allowed := r.allowedDial(d.src, d.assoc)
		if r.tie = len(allowed) > 1 && !r.passive; r.tie {
			r.snapshot(allowed)
		}
		r.arm(op.S("fault"))
		// a failing DialQUIC: the network loses every datagram, the dial is cancelled once it waits for the handshake
		fail := d.kind == "dq" && op.S("out") == "fail" && op.S("err") != "oserr"
		if fail {
			r.n.drop.Store(true)
		}
		if d.routed {
			if d.unhook != nil {
				d.unhook()
			}
			close(d.gate)
		} else {
			asked := r.routeAsk
			r.startDial(d)
			synctest.Wait()
			if r.routeAsk != asked {
				r.d("router-consulted", "the dial asked the router although routes are unset in the model", false, true)
			}
		}
		if fail {
			synctest.Wait()
			d.ctxCancel()
		}
		res := <-d.resTr
		r.disarm()
		r.n.drop.Store(false)
		synctest.Wait()
		if res.err == nil {
			d.tr, d.conn = res.tr, res.conn
		}
		r.tieHeld = op.B("ok")
		if r.tie && r.otherChoice(op.I("sock")) {
			r.retry = true
			return
		}
		if (res.err == nil) != op.B("ok") {
			r.vm("dial-result", fmt.Sprintf("%s dial: error %v", d.kind, res.err), op.S("err"), fmt.Sprint(res.err))
		}
		if res.err == nil {
			var port int
			if res.conn != nil {
				port = res.conn.LocalAddr().(*net.UDPAddr).Port
			} else {
				port = res.tr.LocalAddr().(*net.UDPAddr).Port
			}
			sock := r.modelSock(port)
			d.sock = sock
			r.use(sock, "dial")
			r.newest = [2]any{"dial", op.I("d")}
			// Q8
			if len(allowed) == 0 {
				if sock <= nBefore {
					r.vm("dial-preference", fmt.Sprintf("dial (src %s, assoc %s) came back with old socket %d although none was eligible", d.src, d.assoc, sock), "new socket", sock)
				}
			} else if !vfQrIn(allowed, sock) {
				r.vm("dial-preference", fmt.Sprintf("dial (src %s, assoc %s) uses socket %d", d.src, d.assoc, sock), allowed, sock)
			} else if sock != op.I("sock") && !r.passive {
				r.retry = true
			}
		} else {
			if len(r.led) > nBefore {
				r.touch(len(r.led), d.kind+"-dial-failed")
			} else if r.passive {
				r.touchAny()
			} else if s := op.I("sock"); s != 0 {
				r.touch(s, d.kind+"-dial-failed")
			}
		}
	case "release":
		d := r.dials[op.I("d")]
		if d == nil {
			break
		}
		if d.released {
			break
		}
		if d.conn != nil {
			d.released = true
			d.conn.CloseWithError(0, "")
			synctest.Wait()
			r.unuse(d.sock, "dialquic-conn-closed")
		} else if d.tr != nil {
			d.released = true
			d.tr.DecreaseCount()
			synctest.Wait()
			r.unuse(d.sock, "decreasecount")
		}
	case "share":
		laddr := &net.UDPAddr{IP: r.ipOf(op.S("ip")), Port: vfQrPort(op.I("port"))}
		pc, err := r.cm.SharedNonQUICPacketConn(r.network(), laddr)
		if (err == nil) != op.B("ok") {
			r.vm("share-result", fmt.Sprintf("SharedNonQUICPacketConn(%s): %v", laddr, err), op.B("ok"), fmt.Sprint(err))
		}
		if err == nil {
			k := op.I("k")
			if k == 0 || r.shares[k] != nil {
				k = 1000 + len(r.shares)
			}
			r.shares[k] = pc
			r.shSock[k] = r.modelSock(pc.LocalAddr().(*net.UDPAddr).Port)
			r.use(r.shSock[k], "share")
			r.newest = [2]any{"share", k}
			if op.B("ok") && r.shSock[k] != op.I("sock") {
				r.vm("share-on-unexpected-socket", "shared packet conn socket", op.I("sock"), r.shSock[k])
			}
		}
	case "closeshare":
		k := op.I("k")
		if pc := r.shares[k]; pc != nil && !r.shClosed[k] {
			r.shClosed[k] = true
			pc.Close()
			synctest.Wait()
			r.unuse(r.shSock[k], "nonquic-conn-closed")
		}
	case "lend":
		s, err := r.n.ext(r.network(), &net.UDPAddr{IP: r.ipOf("any"), Port: vfQrPort(op.I("port"))})
		if err != nil {
			r.d("lend-bind", "the lender could not bind", "ok", err.Error())
			break
		}
		tr := &quic.Transport{Conn: s}
		done, err := r.cm.LendTransport(r.network(), &wrappedQUICTransport{tr}, s)
		r.lendTr = append(r.lendTr, tr)
		r.led = append(r.led, &vfQrLedger{s: s, idleSince: -1, closedAt: -1, lent: true, done: done})
		if err != nil {
			r.vm("lend-refused", "LendTransport failed", "ok", err.Error())
		}
	case "tick":
		r.k++
		target := r.t0.Add(r.unit/2 + time.Duration(r.k)*r.unit)
		time.Sleep(time.Until(target))
		synctest.Wait()
		gcInstant = r.conf.Reuse && !r.cmClosed && r.k%r.conf.GcEvery == 0
	case "closecm":
		if err := r.cm.Close(); err != nil {
			r.v("close-error", "ConnManager.Close", nil, err.Error())
		}
		synctest.Wait()
		if r.conf.Reuse {
			r.cmClosed = true
		}
	default:
		r.d("unknown-op", name, nil, nil)
	}
	r.monitors(gcInstant, name)
}

func (r *vfQrRun) startDial(d *vfQrDial) {
	d.gate, d.parked, d.resTr = make(chan struct{}), make(chan struct{}), make(chan vfQrDialRes, 1)
	var assoc any
	if d.assoc != "none" {
		assoc = d.assoc
	}
	dst := r.destFor(d.src)
	ctx, cancel := context.WithCancel(context.Background())
	d.ctxCancel = cancel
	if d.kind == "dq" {
		if err := r.remote(dst); err != nil {
			r.t.Errorf("remote peer: %v", err)
		}
	}
	gated := d.routed
	run := func() {
		if d.kind == "dq" {
			var raddr ma.Multiaddr
			if r.conf.V6 {
				raddr = ma.StringCast(fmt.Sprintf("/ip6/%s/udp/%d/quic-v1", dst.IP, dst.Port))
			} else {
				raddr = ma.StringCast(fmt.Sprintf("/ip4/%s/udp/%d/quic-v1", dst.IP, dst.Port))
			}
			c := ctx
			if assoc != nil {
				c = WithAssociation(ctx, assoc)
			}
			conn, err := r.cm.DialQUIC(c, raddr, &tls.Config{NextProtos: []string{"a"}, InsecureSkipVerify: true}, nil)
			d.resTr <- vfQrDialRes{conn: conn, err: err}
			return
		}
		tr, err := r.cm.TransportWithAssociationForDial(assoc, r.network(), dst)
		d.resTr <- vfQrDialRes{tr: tr, err: err}
	}
	if !gated {
		go run()
		return
	}
	// the router call-back of THIS dial parks until DialEnd
	prev := r.n.hook
	d.unhook = func() { r.n.hook = prev; d.unhook = nil }
	r.n.hook = func(what string, s *vfQrSock) {
		if what == "route" {
			d.unhook()
			close(d.parked)
			<-d.gate
			return
		}
		if prev != nil {
			prev(what, s)
		}
	}
	go run()
}

// compare the projected real state with the model state after a step; repair the counts in the main run
func (r *vfQrRun) compare(st *vfQrSt, opName string) (deviation string) {
	if len(r.led) != st.N {
		r.vm("socket-count", fmt.Sprintf("after %s the code under test has obtained %d sockets", opName, len(r.led)), st.N, len(r.led))
		return ""
	}
	for i, l := range r.led {
		m := st.Socks[i]
		id := i + 1
		wantIP := r.ipOf(m.IP)
		wantPort := vfQrPort(m.Port)
		if m.Port >= 100 {
			wantPort = 0
		}
		if !l.s.laddr.IP.Equal(wantIP) || (wantPort != 0 && l.s.laddr.Port != wantPort) {
			r.vm("socket-address", fmt.Sprintf("socket %d", id), fmt.Sprintf("%s:%d", wantIP, wantPort), l.s.laddr.String())
		}
		if r.conf.Reuse {
			tr, pool := r.find(l.s)
			if pool != m.Pool {
				r.d("pool-class", fmt.Sprintf("socket %d after %s", id, opName), m.Pool, pool)
			}
			if tr != nil && !st.CmClosed {
				ref, unused := r.age(tr)
				if ref != m.Ref {
					r.d("refcount:"+opName, fmt.Sprintf("socket %d after %s", id, opName), m.Ref, ref)
					deviation = opName
					if !r.noRepair {
						for ; ref > m.Ref; ref-- {
							tr.DecreaseCount()
						}
						for ; ref < m.Ref; ref++ {
							tr.IncreaseCount()
						}
						_, unused = r.age(tr)
					}
				}
				if unused != m.Unused && deviation == "" {
					r.d("unused-since:"+opName, fmt.Sprintf("socket %d after %s", id, opName), m.Unused, unused)
				}
			}
		} else if m.Closed && !l.s.isClosed() {
			// single owner: the monitor has reported it; close it on behalf of the code so that the walk goes on
			if !r.noRepair {
				if so := r.findSingle(l.s); so != nil {
					so.Close()
				} else {
					l.s.Close()
				}
				l.closedObs = true
			}
		}
	}
	// registry
	if !st.CmClosed {
		r.cm.quicListenersMu.Lock()
		got := map[int]int{}
		for _, e := range r.cm.quicListeners {
			if a, ok := e.ln.transport.LocalAddr().(*net.UDPAddr); ok {
				got[r.modelSock(a.Port)] = e.refCount
			}
		}
		r.cm.quicListenersMu.Unlock()
		for i := range st.Ql {
			if st.Ql[i].Rc != got[i+1] {
				r.d("registry-count", fmt.Sprintf("address of socket %d after %s", i+1, opName), st.Ql[i].Rc, got[i+1])
			}
		}
		if ru := r.reuse(); ru != nil {
			ru.mutex.Lock()
			routes := ru.routes != nil
			ru.mutex.Unlock()
			if routes != st.Routes {
				r.d("routes", "r.routes set after "+opName, st.Routes, routes)
			}
		}
	}
	if st.Phase != r.k%r.conf.GcEvery {
		r.d("phase", "harness clock", st.Phase, r.k%r.conf.GcEvery)
	}
	return deviation
}

var vfQrGcDefault, vfQrUnusedDefault = garbageCollectInterval, maxUnusedDuration

type vfQrOutcome struct {
	viol, l2  []vfQrViolation
	step      int // index of the first step with an L1 violation (-1: none)
	devSteps  []int
	devKinds  []string
	retry     bool
	executed  int
	crashed   string
	confirmed bool
}

// runWalk executes steps[0:upto] of a walk in a fresh bubble. passiveFrom >= 0: from that step on nothing is repaired, and
// after the last step virtual time passes for two GC rounds with the monitors on (confirmation of a deviation).
var vfQrProgress atomic.Int64 // bubbles completed (watched from outside the bubbles: see the stall watchdog)

func vfQrRunWalk(t *testing.T, conf vfQrConf, cert tls.Certificate, w vfh.Walk, upto int, passiveFrom int, mode string) vfQrOutcome {
	out := vfQrOutcome{step: -1}
	var kept [2]any
	defer vfQrProgress.Add(1)
	synctest.Test(t, func(t *testing.T) {
		r := &vfQrRun{t: t, conf: conf, cert: cert}
		if err := r.start(); err != nil {
			out.crashed = err.Error()
			return
		}
		defer func() { vfQrGuard(r.finish) }()
		for i := 0; i < upto; i++ {
			step := w.Steps[i]
			if passiveFrom >= 0 && i == passiveFrom {
				r.noRepair = true // the deviating step: the count is left as the code made it
			}
			nv := len(r.viol)
			if p := vfQrGuard(func() { r.exec(step.Op) }); p != "" {
				r.v("panic:"+step.Op.Name(), "the call panicked: "+p, "returns", "panic")
				out.viol, out.l2, out.step, out.executed = r.viol, r.l2, i, i+1
				return
			}
			if i == passiveFrom {
				kept = r.newest
				if r.cause = r.stepWhat; r.cause == "" {
					r.cause = "after-" + step.Op.Name()
				}
			}
			var st vfQrSt
			if err := json.Unmarshal(step.State, &st); err != nil {
				out.crashed = "state: " + err.Error()
				return
			}
			if r.retry {
				out.retry = true
				out.viol, out.l2 = r.viol, r.l2
				return
			}
			if r.passive {
				// the real state has left the model: only the ledger monitors speak from here on
				out.executed = i + 1
				if len(r.viol) > nv && out.step < 0 {
					out.step = i
				}
				continue
			}
			dev := r.compare(&st, step.Op.Name())
			if r.retry {
				out.retry = true
				out.viol, out.l2 = r.viol, r.l2
				return
			}
			if dev != "" {
				out.devSteps = append(out.devSteps, i)
				out.devKinds = append(out.devKinds, dev)
				if passiveFrom >= 0 && i >= passiveFrom {
					r.passive = true
				}
			}
			out.executed = i + 1
			if len(r.viol) > nv && out.step < 0 {
				out.step = i
			}
			if len(r.viol) > nv && passiveFrom < 0 && !r.repairable(r.viol[nv:]) {
				break // the walk cannot be followed any further
			}
		}
		if passiveFrom >= 0 {
			r.passive = true
			switch mode {
			case "hold":
				// every other use is given back: the use made by the deviating step must keep its socket alive
				if kept == [2]any{} {
					return
				}
				r.dropUsers(kept)
			case "drop":
				// every use is given back: every socket must go
				r.dropUsers([2]any{})
			}
			// let time pass: everything that is due must go, nothing in use may go
			for j := 0; j < 2*conf.GcEvery+conf.MaxUnused+1; j++ {
				r.exec(vfh.Op{"name": "tick"})
			}
			out.confirmed = true
		}
		out.viol, out.l2 = r.viol, r.l2
	})
	return out
}

// vfQrGuard runs f and returns the panic value (as text) if it panicked
func vfQrGuard(f func()) (p string) {
	defer func() {
		if x := recover(); x != nil {
			p = fmt.Sprint(x)
		}
	}()
	f()
	return ""
}

// repairable: violations after which the main run still follows the model (the harness puts the state right)
func (r *vfQrRun) repairable(vs []vfQrViolation) bool {
	for _, v := range vs {
		if !strings.HasPrefix(v.class, "single-owner-socket-not-closed:") {
			return false
		}
	}
	return true
}

// vfQrBudget limits the confirmation runs per kind of deviation (shared by the workers)
type vfQrBudget struct {
	mu sync.Mutex
	m  map[string]int
}

func (b *vfQrBudget) take(key string, max int) bool {
	b.mu.Lock()
	defer b.mu.Unlock()
	if b.m[key] >= max {
		return false
	}
	b.m[key]++
	return true
}

// vfQrPoolWalk replays one walk of a pool instance (with retries for non-deterministic choices and confirmation runs).
func vfQrPoolWalk(t *testing.T, res *vfh.Result, inst string, conf vfQrConf, cert tls.Certificate, w vfh.Walk, budget *vfQrBudget) {
	var out vfQrOutcome
	for attempt := 0; attempt < 400; attempt++ {
		out = vfQrRunWalk(t, conf, cert, w, len(w.Steps), -1, "")
		if !out.retry {
			break
		}
		res.Inc("pool_nondeterministic_choice_retries", 1)
	}
	if out.crashed != "" {
		t.Errorf("%s walk %d: %s", inst, w.Walk, out.crashed)
		return
	}
	if out.retry {
		res.Inc("pool_walks_not_matched_after_retries", 1)
		for _, v := range out.viol {
			res.AddMismatch(vfh.Mismatch{Class: v.class, What: v.what, Walk: w.Walk, Step: -1, Expected: v.exp, Got: v.got,
				Cfg: map[string]any{"part": "pool", "instance": inst, "conf": conf, "note": "walk never matched the model's non-deterministic choices"}})
		}
		return
	}
	res.Count(1, out.executed)
	res.Inc("pool_steps", out.executed)
	prev := w.Init
	for i := 0; i < out.executed; i++ {
		res.Case("pool:" + inst + "|" + string(prev) + "|" + vfh.Canon(w.Steps[i].Op))
		prev = w.Steps[i].State
	}
	if out.executed < len(w.Steps) {
		res.Inc("pool_steps_not_executed_after_violation", len(w.Steps)-out.executed)
	}
	prefix := func(n int) []vfh.Op {
		var p []vfh.Op
		for i := 0; i < n && i < len(w.Steps); i++ {
			p = append(p, w.Steps[i].Op)
		}
		return p
	}
	for _, v := range out.viol {
		res.AddMismatch(vfh.Mismatch{Class: v.class, What: v.what, Walk: w.Walk, Step: out.step, Expected: v.exp, Got: v.got,
			Prefix: prefix(out.step + 1), Cfg: map[string]any{"part": "pool", "instance": inst, "conf": conf}})
	}
	for _, v := range out.l2 {
		res.AddMismatch(vfh.Mismatch{Class: v.class, What: v.what, Walk: w.Walk, Step: -1, Expected: v.exp, Got: v.got,
			Cfg: map[string]any{"part": "pool", "instance": inst}})
	}
	// confirmation of count deviations: same prefix, nothing repaired at the deviating step, then time passes
	for j, ds := range out.devSteps {
		key := inst + ":" + out.devKinds[j] + ":" + w.Steps[ds].Op.S("kind") + w.Steps[ds].Op.S("err")
		if !budget.take(key, 4) {
			res.Inc("pool_deviations_not_confirmed_again", 1)
			continue
		}
		// continuations after the deviating step (nothing repaired): "wait": time passes at once; "hold": every other use is given
		// back first (the use the step made must keep its socket); "drop": every use is given back first (every socket must go)
		for _, mode := range []string{"wait", "hold", "drop"} {
			var c vfQrOutcome
			for attempt := 0; attempt < 400; attempt++ {
				c = vfQrRunWalk(t, conf, cert, w, ds+1, ds, mode)
				if !c.retry {
					break
				}
			}
			if c.crashed != "" || c.retry {
				res.Inc("pool_confirmations_failed_to_run", 1)
				continue
			}
			if !c.confirmed {
				continue // (no use to hold)
			}
			res.Inc("pool_confirmation_runs", 1)
			for _, v := range c.viol {
				res.AddMismatch(vfh.Mismatch{Class: v.class, What: fmt.Sprintf("[confirmation run: nothing repaired at step %d, then %s, then time passes] ", ds, mode) + v.what,
					Walk: w.Walk, Step: c.step, Expected: v.exp, Got: v.got, Prefix: prefix(ds + 1), Cfg: map[string]any{"part": "pool", "instance": inst, "conf": conf, "deviation_at": ds, "then": mode + ", ticks"}})
			}
		}
	}
}
