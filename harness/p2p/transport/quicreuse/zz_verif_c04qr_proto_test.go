//go:build verif

package quicreuse

import (
	"context"
	"crypto/ed25519"
	"crypto/rand"
	"crypto/tls"
	"crypto/x509"
	"crypto/x509/pkix"
	"math/big"
	"net"
	"testing"
	"testing/synctest"
	"time"

	ma "github.com/multiformats/go-multiaddr"
	"github.com/quic-go/quic-go"
)

func vfQrCert(t testing.TB) tls.Certificate {
	pub, priv, err := ed25519.GenerateKey(rand.Reader)
	if err != nil {
		t.Fatal(err)
	}
	tmpl := &x509.Certificate{SerialNumber: big.NewInt(1), Subject: pkix.Name{CommonName: "vf"},
		NotBefore: time.Unix(0, 0), NotAfter: time.Date(2100, 1, 1, 0, 0, 0, 0, time.UTC), DNSNames: []string{"vf"}}
	der, err := x509.CreateCertificate(rand.Reader, tmpl, tmpl, pub, priv)
	if err != nil {
		t.Fatal(err)
	}
	return tls.Certificate{Certificate: [][]byte{der}, PrivateKey: priv}
}

func TestVerifC04qrProto(t *testing.T) {
	cert := vfQrCert(t)
	synctest.Test(t, func(t *testing.T) {
		n := vfQrNewNet()
		cm, err := NewConnManager(quic.StatelessResetKey{}, quic.TokenGeneratorKey{}, OverrideListenUDP(n.listenUDP),
			OverrideSourceIPSelector(func() (SourceIPSelector, error) {
				return &vfQrRouter{n: n, src: func(*net.UDPAddr) (net.IP, error) { return net.IPv4zero, nil }}, nil
			}))
		if err != nil {
			t.Fatal(err)
		}
		t0 := time.Now()
		ln, err := cm.ListenQUIC(ma.StringCast("/ip4/0.0.0.0/udp/0/quic-v1"), &tls.Config{NextProtos: []string{"a"}, Certificates: []tls.Certificate{cert}}, nil)
		if err != nil {
			t.Fatal(err)
		}
		t.Log("listening on", ln.Addr(), n.calls)
		pc, _ := n.listenUDP("udp4", &net.UDPAddr{IP: net.IPv4zero})
		ctr := &quic.Transport{Conn: pc}
		c, err := ctr.Dial(context.Background(), &net.UDPAddr{IP: net.IPv4(127, 0, 0, 1), Port: ln.Addr().(*net.UDPAddr).Port},
			&tls.Config{NextProtos: []string{"a"}, InsecureSkipVerify: true}, nil)
		if err != nil {
			t.Fatal(err)
		}
		t.Log("dialed", c.LocalAddr(), c.RemoteAddr(), time.Since(t0))
		sc, err := ln.Accept(context.Background())
		if err != nil {
			t.Fatal(err)
		}
		t.Log("accepted", sc.RemoteAddr(), sc.ConnectionState().TLS.NegotiatedProtocol, time.Since(t0))
		sc.CloseWithError(7, "bye")
		synctest.Wait()
		t.Log("client ctx", context.Cause(c.Context()), time.Since(t0))
		ln.Close()
		synctest.Wait()
		t.Log("after close: sock1 closed", n.sock(1).isClosed(), time.Since(t0))
		time.Sleep(45 * time.Second)
		synctest.Wait()
		t.Log("after 45s: sock1 closed", n.sock(1).isClosed(), n.sock(1).died.Sub(t0))
		// dial out through the ConnManager
		dtr, err := cm.TransportForDial("udp4", &net.UDPAddr{IP: net.IPv4(1, 2, 3, 4), Port: 1})
		if err != nil {
			t.Fatal(err)
		}
		t.Log("dial transport", dtr.LocalAddr(), n.calls)
		dtr.DecreaseCount()
		ctr.Close()
		pc.Close()
		cm.Close()
		synctest.Wait()
		for i := 1; i <= n.count(); i++ {
			t.Log("sock", i, n.sock(i).laddr, "closes", n.sock(i).closes.Load())
		}
	})
}
