//go:build verif

package sampledconn

// Conformance harness for C02, sampled-connection layer: the behaviours of spec/C02_Sampled.tla (remote
// writes/close x peek x read-buffer classes, also shorter than what is left of the peeked bytes, x short
// reads of the underlying connection) on a real wrappedSampledConn over a fake ManetTCPConnInterface backed
// by the in-memory wire of internal/vfc02.  L1 ledger: the bytes returned by Read (peeked bytes included)
// are a prefix of the bytes the remote wrote, equal at the end; EOF only after everything.

import (
	"errors"
	"fmt"
	"io"
	"path/filepath"
	"sort"
	"syscall"
	"testing"
	"time"

	"github.com/libp2p/go-libp2p/internal/vfc02"
	"github.com/libp2p/go-libp2p/internal/vfh"
	ma "github.com/multiformats/go-multiaddr"
)

// vfC02TCP is the fake TCP connection: only Read/Write/Close reach the wire.
type vfC02TCP struct {
	*vfc02.Conn
	usedWriteTo bool
}

func (c *vfC02TCP) LocalMultiaddr() ma.Multiaddr  { return ma.StringCast("/ip4/127.0.0.1/tcp/1001") }
func (c *vfC02TCP) RemoteMultiaddr() ma.Multiaddr { return ma.StringCast("/ip4/127.0.0.1/tcp/1002") }
func (c *vfC02TCP) SyscallConn() (syscall.RawConn, error) {
	return nil, errors.New("vfC02: no raw connection")
}
func (c *vfC02TCP) CloseRead() error                       { return nil }
func (c *vfC02TCP) CloseWrite() error                      { c.Conn.Out.CloseWrite(); return nil }
func (c *vfC02TCP) SetLinger(int) error                    { return nil }
func (c *vfC02TCP) SetKeepAlive(bool) error                { return nil }
func (c *vfC02TCP) SetKeepAlivePeriod(time.Duration) error { return nil }
func (c *vfC02TCP) SetNoDelay(bool) error                  { return nil }
func (c *vfC02TCP) MultipathTCP() (bool, error)            { return false, nil }
func (c *vfC02TCP) ReadFrom(r io.Reader) (int64, error) {
	return io.Copy(struct{ io.Writer }{c.Conn}, r)
}
func (c *vfC02TCP) WriteTo(w io.Writer) (int64, error) {
	c.usedWriteTo = true
	return io.Copy(w, struct{ io.Reader }{c.Conn})
}

var _ ManetTCPConnInterface = (*vfC02TCP)(nil)

var vfC02SampledBig = []int{4, 5, 100, 4096, 65536}

type vfC02SampledRun struct {
	res  *vfh.Result
	pick vfc02.Picker
	file string
	w    vfh.Walk
	log  []any
}

func (r *vfC02SampledRun) mismatch(step int, class, what string, exp, got any) {
	r.res.AddMismatch(vfh.Mismatch{Class: class, What: fmt.Sprintf("[sampled %s walk %d] %s", filepath.Base(r.file), r.w.Walk, what),
		Walk: r.w.Walk, Step: step, Expected: exp, Got: got, Prefix: append([]any(nil), r.log...),
		Cfg: map[string]any{"layer": "sampled", "round": r.pick.Round}})
}

func (r *vfC02SampledRun) run() {
	defer func() {
		if p := recover(); p != nil {
			if what, ok := vfc02.CodePanic(p); ok {
				r.mismatch(len(r.log), "sampled-panic", what, "no panic", what)
				return
			}
			r.mismatch(len(r.log), "MACHINERY", fmt.Sprintf("panic in the harness: %v", p), nil, nil)
		}
	}()
	remote, local := vfc02.NewPair(nil)
	defer remote.Close()
	defer local.Close()
	wire := local.In
	wire.SetBlocking(false)
	wire.SetCross(r.pick.Index(2, r.w.Walk, 99) == 0)
	fake := &vfC02TCP{Conn: local}
	var sc *wrappedSampledConn
	led := vfc02.NewLedger("sampled", vfc02.Content(2), false)
	l1 := func(si int, p *vfc02.Problem) bool {
		if p == nil {
			return false
		}
		r.mismatch(si, p.Class, p.What, p.Expected, p.Got)
		return true
	}
	var buf []byte
	steps := 0
	closed := false
	for si, st := range r.w.Steps {
		op := st.Op
		steps++
		switch op.Name() {
		case "send":
			k := op.I("k")
			K := k
			if k >= 4 {
				K = r.pick.Pick(vfC02SampledBig, r.w.Walk, si)
				if K < k {
					K = k
				}
			}
			n, err := remote.Write(led.Next(K))
			led.OnWrite(K, n, err)
			r.log = append(r.log, map[string]any{"op": "send", "k": k, "real": K})
		case "close":
			remote.Close()
			closed = true
			r.log = append(r.log, map[string]any{"op": "close"})
		case "short":
			wire.SetCap(op.I("k"))
			r.log = append(r.log, map[string]any{"op": "short", "k": op.I("k")})
		case "glitch":
			if op.S("kind") == "eofdata" {
				wire.SetEOFWithData(true)
			}
			// the one-shot kinds are armed right in front of the Read the model lets them hit
			r.log = append(r.log, map[string]any{"op": "glitch", "kind": op.S("kind")})
			r.res.Case("glitch/" + op.S("kind"))
		case "peek":
			var peeked PeekedBytes
			var c *wrappedSampledConn
			var err error
			vfc02.Guard("newWrappedSampledConn", func() { peeked, c, err = newWrappedSampledConn(fake) })
			r.log = append(r.log, map[string]any{"op": "peek", "ok": err == nil, "peeked": fmt.Sprintf("%x", peeked[:]), "err": fmt.Sprint(err)})
			r.res.Case(fmt.Sprintf("peek/%v/%d", op.B("ok"), op.I("got")))
			if op.B("ok") != (err == nil) {
				if errors.Is(err, vfc02.ErrDry) {
					r.mismatch(si, "L2:sampled-would-block", "the peek found fewer bytes in flight than the model", op.B("ok"), "dry")
					return
				}
				// the remote wrote at least PeekSize bytes and the constructor failed (or the reverse): the
				// bytes cannot reach the reader
				r.mismatch(si, "sampled-peek-result", fmt.Sprintf("newWrappedSampledConn with %d bytes in flight (closed=%v): %v", led.Written, closed, err), op.B("ok"), err == nil)
				return
			}
			if err != nil {
				r.res.Count(1, steps)
				return // no connection: nothing more to observe
			}
			sc = c
			if string(peeked[:]) != string(led.Data[:peekSize]) {
				r.mismatch(si, "L2:sampled-peeked-value", "the sample is not the first bytes sent", fmt.Sprintf("%x", led.Data[:peekSize]), fmt.Sprintf("%x", peeked[:]))
			}
		case "read":
			if sc == nil {
				r.mismatch(si, "MACHINERY", "read before peek", nil, nil)
				return
			}
			rel, left, from := op.S("rel"), op.I("left"), op.S("from")
			var avail, b int
			if from == "peeked" {
				avail = peekSize - int(sc.bytesPeeked)
			} else {
				avail = wire.Pending()
			}
			switch {
			case op.B("eof"):
				b = r.pick.Pick([]int{0, 1, 3, 4096}, r.w.Walk, si)
			case rel == "zero":
				b = 0
			case from == "peeked":
				// the sample is PeekSize real bytes: model units are bytes here
				b = op.I("b")
				if b > peekSize {
					b = r.pick.Pick([]int{4, 5, 4096}, r.w.Walk, si)
				}
			case rel == "lt":
				c := []int{}
				for _, x := range []int{1, 2, 3, avail / 2, avail - 1} {
					if x >= 1 && x <= avail-left && x < avail {
						c = append(c, x)
					}
				}
				if len(c) == 0 {
					c = []int{1}
				}
				b = r.pick.Pick(c, r.w.Walk, si)
			case rel == "eq":
				b = avail
			default:
				b = avail + r.pick.Pick([]int{1, 2, 3, 4096}, r.w.Walk, si)
			}
			if left > 0 && b > avail-left && op.S("glitch") != "temperr" {
				b = avail - left
			}
			if b < 0 {
				b = 0
			}
			if cap(buf) < b {
				buf = make([]byte, b+4096)
			}
			glitch := op.S("glitch")
			if glitch == "dataerr" || glitch == "temperr" {
				wire.InjectRead(glitch)
			}
			var n int
			var err error
			vfc02.Guard("wrappedSampledConn.Read", func() { n, err = sc.Read(buf[:b:b]) })
			r.log = append(r.log, map[string]any{"op": "read", "from": from, "rel": rel, "real": b, "avail": avail, "glitch": glitch, "n": n, "err": fmt.Sprint(err)})
			r.res.Case(fmt.Sprintf("read/%s/%s/%v/%s", from, rel, op.B("eof"), glitch))
			if glitch == "dataerr" || glitch == "temperr" {
				if wire.ReadGlitchPending() {
					wire.InjectRead("")
					r.mismatch(si, "L2:sampled-glitch", "the armed glitch was not reached by this Read", glitch, "none")
				} else if !vfc02.IsGlitch(err) {
					r.mismatch(si, "L2:sampled-glitch", fmt.Sprintf("the transient error of the connection was not passed on: %v", err), glitch, fmt.Sprint(err))
				}
				err = nil // a transient error is not a failure of the channel; the bytes that came with it count
			}
			if errors.Is(err, vfc02.ErrDry) {
				if b > 0 {
					r.mismatch(si, "L2:sampled-would-block", "Read found nothing in flight where the model delivers", op.I("n"), "dry")
				}
				err = nil
			}
			if err != nil && errors.Is(err, io.EOF) && led.Delivered+n != led.Written {
				r.mismatch(si, "sampled-early-eof", fmt.Sprintf("EOF after %d of %d bytes", led.Delivered+n, led.Written), led.Written, led.Delivered+n)
				return
			}
			if l1(si, led.OnRead(buf[:b], n, err, closed)) {
				return
			}
			if from == "peeked" && n != op.I("n") {
				r.mismatch(si, "L2:sampled-read-count", fmt.Sprintf("replay read of %d returned %d", b, n), op.I("n"), n)
			}
		default:
			r.mismatch(si, "MACHINERY", "unknown op "+op.Name(), nil, nil)
			return
		}
	}
	if sc != nil {
		wire.SetCap(0)
		if cap(buf) < 1<<17 {
			buf = make([]byte, 1<<17)
		}
		for it := 0; it < 64 && led.Delivered < led.Written; it++ {
			var n int
			var err error
			vfc02.Guard("wrappedSampledConn.Read", func() { n, err = sc.Read(buf[:1<<17]) })
			r.log = append(r.log, map[string]any{"op": "drain", "n": n, "err": fmt.Sprint(err)})
			if errors.Is(err, vfc02.ErrDry) {
				break
			}
			if l1(len(r.w.Steps), led.OnRead(buf[:1<<17], n, err, closed)) {
				return
			}
			if err != nil {
				break
			}
		}
		l1(len(r.w.Steps), led.AtEnd())
		if fake.usedWriteTo {
			r.res.Inc("sampled_writeto_used", 1)
		}
	}
	r.res.Count(1, steps)
}

func TestVerifC02Sampled(t *testing.T) {
	res := vfh.NewResult()
	res.Rule = "distinct = (operation, source, buffer relation class, eof) combinations executed on real wrappedSampledConns"
	defer func() {
		if err := res.Write(); err != nil {
			t.Fatal(err)
		}
	}()
	files, _ := filepath.Glob(filepath.Join(vfh.In(), "sampled_*.jsonl"))
	sort.Strings(files)
	if len(files) == 0 {
		t.Fatal("no sampled behaviour files")
	}
	rounds := vfh.EnvInt("VERIF_C02_ROUNDS", 1) * 5
	for _, f := range files {
		_, walks, err := vfh.LoadWalks(f)
		if err != nil {
			t.Fatal(err)
		}
		for rd := 0; rd < rounds; rd++ {
			for _, w := range walks {
				(&vfC02SampledRun{res: res, file: f, w: w, pick: vfc02.Picker{Seed: uint64(vfh.Seed()), Round: rd}}).run()
			}
		}
	}
}
