//go:build verif

package tcpreuse

// C04, family 5 "transports", tcpreuse part: the demultiplexing listener.  The REAL multiplexedListener
// (run loop, identifyConnType sampling, connWithScope, routing, accept time-out, Close of one / of the last
// demultiplexed listener) over a fake manet.Listener handing out in-memory raw connections (gated by the
// real upgrader's GateMaListener with a REAL resource manager), every scenario in its own synctest bubble:
// each accepted raw connection must reach exactly one typed listener WITH its scope, or be closed with
// its scope released when the sampling read fails / times out / is cut at operation k, when no listener
// of its type exists, when nobody accepts within the accept time-out, or when its listener (or the last
// listener) is closed meanwhile.  A second part uses loopback sockets through the real
// ConnMgr.DemultiplexedListen (no virtual time there; verdicts only from Stat() and the ConnMgr's map):
// closing one demultiplexed listener keeps the shared socket, closing the last one releases it.

import (
	"context"
	"encoding/json"
	"errors"
	"fmt"
	"io"
	"net"
	"os"
	"path/filepath"
	"sort"
	"strings"
	"sync"
	"syscall"
	"testing"
	"testing/synctest"
	"time"

	"github.com/libp2p/go-libp2p/core/network"
	"github.com/libp2p/go-libp2p/core/sec"
	"github.com/libp2p/go-libp2p/core/transport"
	"github.com/libp2p/go-libp2p/internal/vfc04"
	"github.com/libp2p/go-libp2p/internal/vfh"
	vfupg "github.com/libp2p/go-libp2p/p2p/net/upgrader"
	ma "github.com/multiformats/go-multiaddr"
	manet "github.com/multiformats/go-multiaddr/net"
)

// vfC04TCP gives the in-memory connection the method set of a TCP connection (sampledconn.ManetTCPConnInterface)
type vfC04TCP struct{ *vfc04.End }

func (c *vfC04TCP) SyscallConn() (syscall.RawConn, error)  { return nil, errors.New("vf: no raw conn") }
func (c *vfC04TCP) CloseRead() error                       { return nil }
func (c *vfC04TCP) CloseWrite() error                      { return nil }
func (c *vfC04TCP) SetLinger(int) error                    { return nil }
func (c *vfC04TCP) SetKeepAlive(bool) error                { return nil }
func (c *vfC04TCP) SetKeepAlivePeriod(time.Duration) error { return nil }
func (c *vfC04TCP) SetNoDelay(bool) error                  { return nil }
func (c *vfC04TCP) MultipathTCP() (bool, error)            { return false, nil }
func (c *vfC04TCP) ReadFrom(r io.Reader) (int64, error) {
	return io.Copy(struct{ io.Writer }{c.End}, r)
}
func (c *vfC04TCP) WriteTo(w io.Writer) (int64, error) { return io.Copy(w, struct{ io.Reader }{c.End}) }

var vfC04Prefix = map[byte]string{
	'm': "\x13/multistream/1.0.0\n",
	't': "\x16\x03\x01\x02\x00\x01\x00\x01\xfc\x03\x03",
	'h': "GET /ws HTTP/1.1\r\nHost: x\r\n\r\n",
	'u': "xyzzy-unknown-protocol",
}
var vfC04Type = map[byte]DemultiplexedConnType{'m': DemultiplexedConnType_MultistreamSelect, 't': DemultiplexedConnType_TLS, 'h': DemultiplexedConnType_HTTP}

type vfC04RConn struct {
	Prefix string `json:"prefix"` // m | t | h | u
	Send   int    `json:"send"`   // bytes of the prefix the client sends (-1 = all)
	Then   string `json:"then"`   // hold | close | silent
	Fault  string `json:"fault"`  // err | eof | stall on the accepted end at operation K
	K      int    `json:"k"`
}

type vfC04RPlan struct {
	Kind     string        `json:"kind"`
	Listen   string        `json:"listen"`    // registered types, e.g. "mth"
	NoAccept string        `json:"no_accept"` // types whose listener nobody calls Accept on
	Conns    []vfC04RConn  `json:"conns"`
	CloseTyp string        `json:"close_type"` // demultiplexed listener(s) closed at CloseAt
	CloseAt  time.Duration `json:"close_at"`
}

func (p vfC04RPlan) String() string {
	var cs []string
	for _, c := range p.Conns {
		s := fmt.Sprintf("%s%d%s", c.Prefix, c.Send, c.Then)
		if c.Fault != "" {
			s += fmt.Sprintf("+%s@%d", c.Fault, c.K)
		}
		cs = append(cs, s)
	}
	s := fmt.Sprintf("%s/l=%s/%s", p.Kind, p.Listen, strings.Join(cs, ","))
	if p.NoAccept != "" {
		s += "/noaccept=" + p.NoAccept
	}
	if p.CloseTyp != "" {
		s += fmt.Sprintf("/close=%s@%s", p.CloseTyp, p.CloseAt)
	}
	return s
}

type vfC04ROut struct {
	Hit      bool
	Deadlock string
	Hung     string
	Leaked   []string
}

// vfC04Shared mirrors the creation branch of ConnMgr.DemultiplexedListen with the socket replaced by gmal.
func vfC04Shared(cm *ConnMgr, gmal transport.GatedMaListener, laddr ma.Multiaddr) *multiplexedListener {
	ctx, cancel := context.WithCancel(context.Background())
	cancelFunc := func() error {
		cancel()
		cm.mx.Lock()
		defer cm.mx.Unlock()
		delete(cm.listeners, laddr.String())
		delete(cm.listeners, gmal.Multiaddr().String())
		return gmal.Close()
	}
	ml := &multiplexedListener{
		GatedMaListener: gmal,
		listeners:       make(map[DemultiplexedConnType]*demultiplexedListener),
		ctx:             ctx,
		closeFn:         cancelFunc,
	}
	cm.mx.Lock()
	cm.listeners[laddr.String()] = ml
	cm.mx.Unlock()
	return ml
}

func vfC04RScenario(t *testing.T, plan vfC04RPlan, tr *vfh.Trace, out *vfC04ROut) {
	led := &vfc04.Ledger{T: tr}
	rm, err := vfc04.NewRM(nil)
	if err != nil {
		t.Fatal(err)
	}
	u, err := vfupg.New([]sec.SecureTransport{}, nil, nil, rm, nil)
	if err != nil {
		t.Fatal(err)
	}
	const lport = 5000
	fl := vfc04.NewListener(lport)
	fl.OnAccept = func(c manet.Conn) { led.RawOpen(c.(*vfC04TCP).Name) }
	laddr := ma.StringCast(fmt.Sprintf("/ip4/127.0.0.1/tcp/%d", lport))
	cm := NewConnMgr(false, u)
	ml := vfC04Shared(cm, u.GateMaListener(fl), laddr)
	listeners := map[byte]transport.GatedMaListener{}
	for _, ty := range []byte(plan.Listen) {
		l, err := cm.DemultiplexedListen(laddr, vfC04Type[ty])
		if err != nil {
			t.Fatal(err)
		}
		listeners[ty] = l
	}
	ml.wg.Add(1)
	go ml.run()

	var mu sync.Mutex
	state := map[string]string{}
	byPort := map[int]string{}
	prefixOf := map[string]byte{}
	endOnce := func(o, why string) {
		mu.Lock()
		was := state[o]
		state[o] = "ended"
		mu.Unlock()
		if was != "ended" {
			led.End(o, why, "")
		}
	}
	finish := make(chan struct{})
	var wg sync.WaitGroup
	for ty, l := range listeners {
		if strings.ContainsRune(plan.NoAccept, rune(ty)) {
			continue
		}
		ty, l := ty, l
		wg.Add(1)
		go func() {
			defer wg.Done()
			for {
				c, scope, err := l.Accept()
				if err != nil {
					return
				}
				if scope == nil {
					tr.Emit("bad_accept", "addr", "connection handed over without its scope")
					c.Close()
					continue
				}
				port := 0
				if a, ok := c.RemoteAddr().(*net.TCPAddr); ok {
					port = a.Port
				}
				mu.Lock()
				o := byPort[port]
				ok := o != "" && state[o] == "pending"
				if ok {
					state[o] = "live"
				}
				pf := prefixOf[o]
				mu.Unlock()
				if !ok {
					tr.Emit("bad_accept", "addr", fmt.Sprintf("unknown or already delivered connection from port %d", port))
					scope.Done()
					c.Close()
					continue
				}
				if pf != ty {
					tr.Emit("bad_accept", "addr", fmt.Sprintf("connection %s with prefix %c delivered to listener %c", o, pf, ty))
				}
				led.Live(o)
				wg.Add(1)
				go func() {
					defer wg.Done()
					<-finish
					scope.Done()
					c.Close()
					endOnce(o, "closed")
				}()
			}
		}()
	}
	closeType := func(tys string) {
		for _, ty := range []byte(tys) {
			if l := listeners[ty]; l != nil {
				tr.Emit("lclose_call", "why", string(ty))
				l.Close()
				tr.Emit("lclose_ret")
				mu.Lock()
				delete(listeners, ty)
				mu.Unlock()
			}
		}
	}
	// clients
	var clients []*vfc04.End
	for i, pc := range plan.Conns {
		o := fmt.Sprintf("r%d", i+1)
		d, l := vfc04.NewPipe("x"+o, o, 4001+i, lport)
		clients = append(clients, d)
		mu.Lock()
		state[o] = "pending"
		byPort[4001+i] = o
		prefixOf[o] = pc.Prefix[0]
		mu.Unlock()
		l.OnClose = func(e *vfc04.End, first bool) {
			if first {
				led.RawClose(e.Name)
			}
		}
		l.OnFire = func(e *vfc04.End, k int, op string) {
			out.Hit = true
			tr.Emit("fault", "o", e.Name, "k", k, "op", op, "kind", pc.Fault, "stage", "demux")
		}
		if pc.Fault != "" {
			l.SetFault(&vfc04.Fault{Kind: pc.Fault, K: pc.K})
		}
		led.Begin(o, "conn", "in", "l", true)
		fl.Ch <- &vfC04TCP{End: l}
		data := vfC04Prefix[pc.Prefix[0]]
		if pc.Send >= 0 && pc.Send < len(data) {
			data = data[:pc.Send]
		}
		if len(data) > 0 {
			d.Write([]byte(data))
		}
		if pc.Then == "close" {
			d.Close()
		}
	}
	if plan.CloseAt > 0 {
		time.Sleep(plan.CloseAt)
		closeType(plan.CloseTyp)
	}
	time.Sleep(2 * time.Minute) // sampling time-out (5 s) and accept time-out (30 s) have fired by now
	synctest.Wait()
	led.Audit("l", false, vfc04.ReadUsage(rm), 0)
	close(finish)
	mu.Lock()
	rest := ""
	for ty := range listeners {
		rest += string(ty)
	}
	mu.Unlock()
	closeType(rest)
	wg.Wait()
	ml.wg.Wait()
	synctest.Wait()
	mu.Lock()
	var pend []string
	for o, s := range state {
		if s == "pending" {
			pend = append(pend, o)
		}
	}
	mu.Unlock()
	sort.Strings(pend)
	for _, o := range pend {
		endOnce(o, "listener-closed")
	}
	for _, c := range fl.Pending() {
		e := c.(*vfC04TCP).End
		tr.Emit("raw_returned", "o", e.Name)
		e.OnClose = nil
		e.Close()
	}
	for _, d := range clients {
		d.Close()
	}
	synctest.Wait()
	cm.mx.Lock()
	nl := len(cm.listeners)
	cm.mx.Unlock()
	ep := 0
	if fl.NCloses() == 0 {
		ep = 1
	}
	tr.Emit("residue", "rm", "l", "conns", 0, "holepunch", 0, "listeners", nl, "endpoints", ep)
	rm.Close()
	synctest.Wait()
	out.Leaked = vfc04.Census()
	if plan.Kind != "fault" {
		out.Hit = true
	}
	led.Audit("l", true, vfc04.ReadUsage(rm), len(out.Leaked))
}

func vfC04RRun(t *testing.T, plan vfC04RPlan, tr *vfh.Trace) vfC04ROut {
	out := &vfC04ROut{}
	dl, hung := vfc04.RunBubble(t, 25*time.Second, func(t *testing.T) { vfC04RScenario(t, plan, tr, out) })
	if dl != "" {
		out.Deadlock = dl
		tr.Emit("deadlock", "msg", dl)
	}
	o := *out
	o.Hung = hung
	return o
}

// ---- loopback part: the real ConnMgr.DemultiplexedListen (sockets; no virtual time) ----

func vfC04RWaitUsage(rm network.ResourceManager, conns int64) vfc04.Usage {
	var u vfc04.Usage
	for i := 0; i < 2000; i++ { // the scenario waits for the state it expects; the verdict is the audit itself
		u = vfc04.ReadUsage(rm)
		if u.Sys[2] == conns && u.Sys[4] == conns {
			return u
		}
		time.Sleep(10 * time.Millisecond)
	}
	return u
}

func vfC04RSockets(t *testing.T, tr *vfh.Trace) {
	led := &vfc04.Ledger{T: tr}
	rm, err := vfc04.NewRM(nil)
	if err != nil {
		t.Fatal(err)
	}
	defer rm.Close()
	u, err := vfupg.New([]sec.SecureTransport{}, nil, nil, rm, nil)
	if err != nil {
		t.Fatal(err)
	}
	cm := NewConnMgr(false, u)
	lm, err := cm.DemultiplexedListen(ma.StringCast("/ip4/127.0.0.1/tcp/0"), DemultiplexedConnType_MultistreamSelect)
	if err != nil {
		t.Fatal(err)
	}
	addr := lm.Multiaddr()
	lh, err := cm.DemultiplexedListen(addr, DemultiplexedConnType_HTTP)
	if err != nil {
		t.Fatal(err)
	}
	if _, err := cm.DemultiplexedListen(addr, DemultiplexedConnType_HTTP); err == nil {
		tr.Emit("bad_accept", "addr", "a second listener for the same type on the same address was accepted")
	}
	_, hostport, _ := manet.DialArgs(addr)
	type got struct {
		c     manet.Conn
		scope network.ConnManagementScope
	}
	accept := func(l transport.GatedMaListener) chan got {
		ch := make(chan got, 8)
		go func() {
			for {
				c, s, err := l.Accept()
				if err != nil {
					close(ch)
					return
				}
				ch <- got{c, s}
			}
		}()
		return ch
	}
	chm, chh := accept(lm), accept(lh)
	dial := func(o string, prefix byte) net.Conn {
		led.Begin(o, "conn", "in", "l", true)
		c, err := net.Dial("tcp", hostport)
		if err != nil {
			t.Fatal(err)
		}
		c.Write([]byte(vfC04Prefix[prefix]))
		return c
	}
	recv := func(o string, ch chan got) *got {
		select {
		case g, ok := <-ch:
			if !ok {
				return nil
			}
			led.Live(o)
			return &g
		case <-time.After(20 * time.Second):
			return nil
		}
	}
	c1 := dial("r1", 'm')
	g1 := recv("r1", chm)
	c2 := dial("r2", 'h')
	g2 := recv("r2", chh)
	if g1 == nil || g2 == nil {
		t.Fatalf("loopback: connections were not routed")
	}
	led.Audit("l", false, vfC04RWaitUsage(rm, 2), 0)
	// no TLS listener: the connection must be closed and its scope released
	c3 := dial("r3", 't')
	c3.SetReadDeadline(time.Now().Add(20 * time.Second))
	b := make([]byte, 1)
	_, rerr := c3.Read(b) // returns when the other side closed it
	tr.Emit("note", "what", "unrouted-conn-closed-by-listener", "ok", rerr != nil && !os.IsTimeout(rerr))
	if rerr != nil && !os.IsTimeout(rerr) {
		led.End("r3", "no-listener", "")
	}
	c3.Close()
	led.Audit("l", false, vfC04RWaitUsage(rm, 2), 0)
	// closing ONE demultiplexed listener keeps the shared socket: HTTP connections still arrive
	tr.Emit("lclose_call", "why", "m")
	lm.Close()
	tr.Emit("lclose_ret")
	c4 := dial("r4", 'h')
	g4 := recv("r4", chh)
	if g4 == nil {
		tr.Emit("bad_accept", "addr", "the shared listener stopped accepting after one of two demultiplexed listeners was closed")
	}
	for _, x := range []struct {
		o string
		g *got
		c net.Conn
	}{{"r1", g1, c1}, {"r2", g2, c2}, {"r4", g4, c4}} {
		if x.g != nil {
			x.g.scope.Done()
			x.g.c.Close()
			led.End(x.o, "closed", "")
		}
		x.c.Close()
	}
	led.Audit("l", false, vfC04RWaitUsage(rm, 0), 0)
	// closing the LAST one releases the shared listener: the ConnMgr forgets it and the port is free again
	tr.Emit("lclose_call", "why", "h")
	lh.Close()
	tr.Emit("lclose_ret")
	cm.mx.Lock()
	nl := len(cm.listeners)
	cm.mx.Unlock()
	ep := 1
	for i := 0; i < 500; i++ {
		if l2, err := net.Listen("tcp", hostport); err == nil {
			l2.Close()
			ep = 0
			break
		}
		time.Sleep(10 * time.Millisecond)
	}
	tr.Emit("residue", "rm", "l", "conns", 0, "holepunch", 0, "listeners", nl, "endpoints", ep)
	if g4 == nil {
		led.End("r4", "lost", "")
	}
	led.Audit("l", true, vfC04RWaitUsage(rm, 0), 0)
}

func TestVerifC04Tcpreuse(t *testing.T) {
	res := vfh.NewResult()
	defer func() {
		if err := res.Write(); err != nil {
			t.Fatal(err)
		}
	}()
	res.Rule = "one evaluation = one scenario on the real tcpreuse multiplexedListener over in-memory raw connections (1-70 connections with a multistream / TLS / HTTP / unknown prefix, of which 0-3 bytes or all arrive, then held / closed / silent, optionally cut at I/O operation k of the accepted end) x registered listener types x nobody accepting x one or all listeners closed meanwhile; plus one loopback scenario through the real ConnMgr.DemultiplexedListen; non-trivial = the scenario ran to its audit; distinct = distinct plans"
	path := ""
	if vfh.Out() != "" {
		path = filepath.Join(vfh.Out(), "c04_tcpreuse.ndjson")
		os.Remove(path)
	}
	evals, hits, idx, stuck := 0, 0, 0, 0
	exits := map[string]bool{}
	run := func(plan vfC04RPlan) vfC04ROut {
		if stuck >= 4 {
			res.Inc("skipped_after_stuck", 1)
			return vfC04ROut{}
		}
		tr := vfh.NewTrace(fmt.Sprintf("r%d", idx))
		idx++
		out := vfC04RRun(t, plan, tr)
		evals++
		res.Count(1, tr.Len())
		if out.Hit {
			hits++
			res.Case(plan.String())
			exits["tcpreuse|"+plan.Kind] = true
		}
		if path != "" {
			if err := tr.AppendTo(path, map[string]any{"family": "tcpreuse", "cfg": "demux", "plan": plan.String(), "kind": plan.Kind,
				"side": "l", "k": 0, "hit": out.Hit, "stage": "demux", "p": plan, "hang": out.Hung}); err != nil {
				t.Fatal(err)
			}
		}
		if out.Deadlock != "" || len(out.Leaked) > 0 || out.Hung != "" {
			res.Sample(map[string]any{"plan": plan.String(), "deadlock": out.Deadlock, "leaked": out.Leaked, "hung": out.Hung})
		}
		if out.Hung != "" {
			res.Inc("hangs", 1)
		}
		if out.Hung != "" || out.Deadlock != "" {
			stuck++
		}
		return out
	}
	if only := os.Getenv("VERIF_C04_ONLY"); only != "" {
		var plan vfC04RPlan
		if err := json.Unmarshal([]byte(only), &plan); err != nil {
			t.Fatal(err)
		}
		for r := 0; r < vfh.EnvInt("VERIF_C04_REPEAT", 1); r++ {
			if plan.Kind == "sockets" {
				tr := vfh.NewTrace(fmt.Sprintf("r%d", idx))
				idx++
				vfC04RSockets(t, tr)
				evals++
				tr.AppendTo(path, map[string]any{"family": "tcpreuse", "cfg": "loopback", "plan": "sockets", "kind": "sockets", "p": vfC04RPlan{Kind: "sockets", Conns: []vfC04RConn{}}, "hang": ""})
				continue
			}
			out := run(plan)
			t.Logf("%s -> %+v", plan, out)
		}
		res.Set("evaluations", evals)
		res.Traces = []string{path}
		return
	}
	all := func(pf string) vfC04RConn { return vfC04RConn{Prefix: pf, Send: -1, Then: "hold"} }
	// routing: every prefix against every set of registered listeners
	for _, ls := range []string{"m", "t", "h", "mt", "mh", "th", "mth"} {
		run(vfC04RPlan{Kind: "route", Listen: ls, Conns: []vfC04RConn{all("m"), all("t"), all("h"), all("u")}})
	}
	// the sampling read: 0-2 bytes arrive, then the client closes / stays silent (5 s sampling time-out)
	for n := 0; n <= 2; n++ {
		for _, then := range []string{"close", "silent"} {
			for _, pf := range []string{"m", "h"} {
				run(vfC04RPlan{Kind: "sample-" + then, Listen: "mth", Conns: []vfC04RConn{{Prefix: pf, Send: n, Then: then}, all("t")}})
			}
		}
	}
	// the accepted end is cut at operation k (sampling read, hand-over)
	for k := 1; k <= 4; k++ {
		for _, f := range []string{"err", "eof", "stall"} {
			run(vfC04RPlan{Kind: "fault", Listen: "mth", Conns: []vfC04RConn{{Prefix: "m", Send: -1, Then: "hold", Fault: f, K: k}, all("h")}})
			run(vfC04RPlan{Kind: "fault", Listen: "mth", Conns: []vfC04RConn{{Prefix: "t", Send: 2, Then: "silent", Fault: f, K: k}}})
		}
	}
	// nobody accepts on the listener the connection is routed to: 30 s accept time-out
	run(vfC04RPlan{Kind: "accept-timeout", Listen: "mth", NoAccept: "h", Conns: []vfC04RConn{all("h"), all("h"), all("m")}})
	run(vfC04RPlan{Kind: "accept-timeout", Listen: "h", NoAccept: "h", Conns: []vfC04RConn{all("h")}})
	// one listener / every listener closed while connections are being sampled or wait to be accepted
	for _, at := range []time.Duration{time.Second, 10 * time.Second} {
		for _, ct := range []string{"h", "m", "mth", "th"} {
			run(vfC04RPlan{Kind: "close", Listen: "mth", NoAccept: "h", CloseTyp: ct, CloseAt: at,
				Conns: []vfC04RConn{all("h"), {Prefix: "m", Send: 1, Then: "silent"}, all("m"), all("t"), {Prefix: "h", Send: 0, Then: "silent"}}})
		}
	}
	if vfh.Thorough() {
		// more silent connections than the sampling queue holds (64): the rest waits, is sampled or dropped
		var cs []vfC04RConn
		for i := 0; i < 70; i++ {
			cs = append(cs, vfC04RConn{Prefix: "m", Send: i % 3, Then: "silent"})
		}
		cs = append(cs, all("m"), all("h"))
		run(vfC04RPlan{Kind: "queue-full", Listen: "mh", Conns: cs})
		run(vfC04RPlan{Kind: "queue-full", Listen: "mh", Conns: cs, CloseTyp: "mh", CloseAt: 2 * time.Second})
	}
	// loopback sockets through the real ConnMgr
	for r := 0; r < 2; r++ {
		tr := vfh.NewTrace(fmt.Sprintf("r%d", idx))
		idx++
		vfC04RSockets(t, tr)
		evals++
		hits++
		res.Count(1, tr.Len())
		res.Case("sockets")
		exits["tcpreuse|sockets"] = true
		if path != "" {
			if err := tr.AppendTo(path, map[string]any{"family": "tcpreuse", "cfg": "loopback", "plan": "sockets", "kind": "sockets",
				"side": "l", "k": 0, "hit": true, "stage": "demux", "p": vfC04RPlan{Kind: "sockets", Conns: []vfC04RConn{}}, "hang": ""}); err != nil {
				t.Fatal(err)
			}
		}
		if r == 0 {
			res.Sample(map[string]any{"plan": "sockets", "events": tr.Events()})
		}
	}
	res.Set("evaluations", evals)
	res.Set("fired", hits)
	keys := make([]string, 0, len(exits))
	for k := range exits {
		keys = append(keys, k)
	}
	sort.Strings(keys)
	res.Set("exits", keys)
	if path != "" {
		res.Traces = []string{path}
	}
}
