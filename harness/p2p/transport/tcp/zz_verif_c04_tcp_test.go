//go:build verif

package tcp

// C04, family 2: the REAL TCP transport's dial path (DialWithUpdates -> dialWithScope -> Upgrade) and the
// listener chain Listen builds (tcpGatedMaListener over GateMaListener, upgraded), fed with in-memory
// raw connections through the transport's own WithDialerForAddr option and a fake manet.Listener.
// Every exit of the dial path is taken once (resource manager refusing OpenConnection / SetPeer, dialer
// error, context already cancelled, newTracingConn failing with metrics enabled, nil peer) and the
// upgrade under it is failed at every I/O operation index x {err, eof, stall, cancel}.  The ledger of
// every run is validated against spec/C04_Obs.tla.

import (
	"context"
	"crypto/rand"
	"encoding/json"
	"errors"
	"fmt"
	"net"
	"os"
	"path/filepath"
	"sort"
	"sync"
	"testing"
	"testing/synctest"
	"time"

	"github.com/libp2p/go-libp2p/core/crypto"
	"github.com/libp2p/go-libp2p/core/network"
	"github.com/libp2p/go-libp2p/core/peer"
	"github.com/libp2p/go-libp2p/core/sec"
	"github.com/libp2p/go-libp2p/core/transport"
	"github.com/libp2p/go-libp2p/internal/vfc04"
	"github.com/libp2p/go-libp2p/internal/vfh"
	rcmgr "github.com/libp2p/go-libp2p/p2p/host/resource-manager"
	"github.com/libp2p/go-libp2p/p2p/muxer/yamux"
	"github.com/libp2p/go-libp2p/p2p/net/upgrader"
	"github.com/libp2p/go-libp2p/p2p/security/noise"
	ma "github.com/multiformats/go-multiaddr"
	manet "github.com/multiformats/go-multiaddr/net"
)

type vfC04TcpPlan struct {
	Kind string `json:"kind"` // none | err | eof | stall | cancel | rm-open | rm-setpeer | dial-error | ctx-cancelled | tracing-conn-error | nilpeer
	K    int    `json:"k"`
}

func (p vfC04TcpPlan) String() string {
	if p.K > 0 {
		return fmt.Sprintf("%s@d%d", p.Kind, p.K)
	}
	return p.Kind
}

type vfC04TcpOut struct {
	Ops      int
	Hit      bool
	Err      string
	Deadlock string
	Hung     string
	Leaked   []string
}

var vfC04TcpKeys struct {
	once         sync.Once
	privD, privL crypto.PrivKey
	idD, idL     peer.ID
}

type vfC04Dialer struct {
	f func(ctx context.Context) (net.Conn, error)
}

func (d *vfC04Dialer) DialContext(ctx context.Context, _, _ string) (net.Conn, error) { return d.f(ctx) }

func vfC04TcpUpgrader(t *testing.T, priv crypto.PrivKey, rm network.ResourceManager, spy *vfc04.MuxSpy) transport.Upgrader {
	muxers := []upgrader.StreamMuxer{{ID: yamux.ID, Muxer: spy}}
	st, err := noise.New(noise.ID, priv, muxers)
	if err != nil {
		t.Fatal(err)
	}
	u, err := upgrader.New([]sec.SecureTransport{st}, muxers, nil, rm, nil)
	if err != nil {
		t.Fatal(err)
	}
	return u
}

func vfC04TcpScenario(t *testing.T, plan vfC04TcpPlan, tr *vfh.Trace, out *vfC04TcpOut) {
	led := &vfc04.Ledger{T: tr}
	modD := func(c *rcmgr.PartialLimitConfig) {}
	switch plan.Kind {
	case "rm-open":
		modD = func(c *rcmgr.PartialLimitConfig) { c.System.ConnsOutbound = rcmgr.BlockAllLimit }
	case "rm-setpeer":
		modD = func(c *rcmgr.PartialLimitConfig) { c.PeerDefault.ConnsOutbound = rcmgr.BlockAllLimit }
	}
	rmD, err := vfc04.NewRM(modD)
	if err != nil {
		t.Fatal(err)
	}
	rmL, err := vfc04.NewRM(nil)
	if err != nil {
		t.Fatal(err)
	}
	spyD, spyL := &vfc04.MuxSpy{Multiplexer: yamux.DefaultTransport}, &vfc04.MuxSpy{Multiplexer: yamux.DefaultTransport}
	uD, uL := vfC04TcpUpgrader(t, vfC04TcpKeys.privD, rmD, spyD), vfC04TcpUpgrader(t, vfC04TcpKeys.privL, rmL, spyL)

	const lport = 5000
	fl := vfc04.NewListener(lport)
	fl.OnAccept = func(c manet.Conn) { led.RawOpen(c.(*vfc04.End).Name) }
	d, l := vfc04.NewPipe("d1", "l1", 4001, lport)
	for _, e := range []*vfc04.End{d, l} {
		e.OnClose = func(e *vfc04.End, first bool) {
			if first {
				led.RawClose(e.Name)
			}
		}
	}
	ctx, cancel := context.WithTimeout(context.Background(), 30*time.Second)
	defer cancel()
	d.OnFire = func(e *vfc04.End, k int, op string) {
		out.Hit = true
		tr.Emit("fault", "o", e.Name, "k", k, "op", op, "kind", plan.Kind, "stage", "upgrade")
	}
	switch plan.Kind {
	case "err", "eof", "stall":
		d.SetFault(&vfc04.Fault{Kind: plan.Kind, K: plan.K})
	case "cancel":
		d.SetFault(&vfc04.Fault{Kind: "trig", K: plan.K, Trig: cancel})
	case "ctx-cancelled":
		cancel()
	}
	dialed := false
	dialer := &vfC04Dialer{f: func(ctx context.Context) (net.Conn, error) {
		if plan.Kind == "dial-error" {
			return nil, errors.New("vf: connection refused")
		}
		if err := ctx.Err(); err != nil {
			return nil, err
		}
		dialed = true
		led.RawOpen("d1")
		led.Begin("l1", "conn", "in", "l", true)
		fl.Ch <- l
		return d, nil
	}}
	opts := []Option{WithDialerForAddr(func(ma.Multiaddr) (ContextDialer, error) { return dialer, nil })}
	if plan.Kind == "tracing-conn-error" {
		opts = append(opts, WithMetrics())
	}
	tD, err := NewTCPTransport(uD, rmD, nil, opts...)
	if err != nil {
		t.Fatal(err)
	}
	tL, err := NewTCPTransport(uL, rmL, nil)
	if err != nil {
		t.Fatal(err)
	}
	// exactly what TcpTransport.Listen builds, minus the socket
	ln := uL.UpgradeGatedMaListener(tL, &tcpGatedMaListener{uL.GateMaListener(fl), 0})

	var wg sync.WaitGroup
	finish := make(chan struct{})
	done := make(chan struct{}, 4)
	accepted := false
	wg.Add(1)
	go func() {
		defer wg.Done()
		c, err := ln.Accept()
		if err != nil {
			return
		}
		accepted = true
		led.Live("l1")
		done <- struct{}{}
		<-finish
		c.Close()
		led.End("l1", "closed", "up")
	}()
	wg.Add(1)
	go func() {
		defer wg.Done()
		led.Begin("d1", "conn", "out", "d", true)
		p := vfC04TcpKeys.idL
		if plan.Kind == "nilpeer" {
			p = ""
		}
		upd := make(chan transport.DialUpdate, 4)
		c, err := tD.DialWithUpdates(ctx, ma.StringCast(fmt.Sprintf("/ip4/127.0.0.1/tcp/%d", lport)), p, upd)
		if (c == nil) == (err == nil) {
			tr.Emit("bad_return", "o", "d1")
		}
		if err != nil {
			out.Err = err.Error()
			led.End("d1", "dial-error", "dial")
			done <- struct{}{}
			done <- struct{}{}
			return
		}
		led.Live("d1")
		done <- struct{}{}
		<-finish
		c.Close()
		led.End("d1", "closed", "up")
	}()
	deadline := time.After(3 * time.Minute)
	got := 0
wait:
	for got < 2 {
		select {
		case <-done:
			got++
		case <-deadline:
			break wait
		}
	}
	if plan.Kind == "none" {
		synctest.Wait()
		out.Ops = d.NOps()
	}
	close(finish)
	ln.Close()
	wg.Wait()
	synctest.Wait()
	if dialed && !accepted {
		led.End("l1", "listener-closed", spyL.Stage(l))
	}
	for _, c := range fl.Pending() {
		e := c.(*vfc04.End)
		tr.Emit("raw_returned", "o", e.Name)
		e.OnClose = nil
		e.Close()
	}
	for _, e := range []*vfc04.End{d, l} {
		if !e.ClosedByCode() {
			e.OnClose = nil
			e.Close()
		}
	}
	synctest.Wait()
	rmD.Close()
	rmL.Close()
	synctest.Wait()
	out.Leaked = vfc04.Census()
	switch plan.Kind {
	case "none", "err", "eof", "stall", "cancel":
	default:
		out.Hit = out.Err != ""
	}
	led.Audit("d", true, vfc04.ReadUsage(rmD), len(out.Leaked))
	led.Audit("l", true, vfc04.ReadUsage(rmL), 0)
}

func vfC04TcpRun(t *testing.T, plan vfC04TcpPlan, tr *vfh.Trace) vfC04TcpOut {
	out := &vfC04TcpOut{}
	dl, hung := vfc04.RunBubble(t, 25*time.Second, func(t *testing.T) { vfC04TcpScenario(t, plan, tr, out) })
	if dl != "" {
		out.Deadlock = dl
		tr.Emit("deadlock", "msg", dl)
	}
	o := *out
	o.Hung = hung
	return o
}

func TestVerifC04Tcp(t *testing.T) {
	vfC04TcpKeys.once.Do(func() {
		vfC04TcpKeys.privD, _, _ = crypto.GenerateEd25519Key(rand.Reader)
		vfC04TcpKeys.privL, _, _ = crypto.GenerateEd25519Key(rand.Reader)
		vfC04TcpKeys.idD, _ = peer.IDFromPrivateKey(vfC04TcpKeys.privD)
		vfC04TcpKeys.idL, _ = peer.IDFromPrivateKey(vfC04TcpKeys.privL)
	})
	res := vfh.NewResult()
	defer func() {
		if err := res.Write(); err != nil {
			t.Fatal(err)
		}
	}()
	res.Rule = "one evaluation = one TcpTransport.DialWithUpdates through WithDialerForAddr onto an in-memory raw connection (listener side = the chain Listen builds) with one fault: an exit of the dial path (rcmgr OpenConnection/SetPeer refused, dialer error, cancelled context, newTracingConn error, nil peer) or I/O operation index k x {err, eof, stall, cancel} under the upgrade; non-trivial = the dial failed because of it; distinct = distinct (kind, read|write) tuples that fired"
	path := ""
	if vfh.Out() != "" {
		path = filepath.Join(vfh.Out(), "c04_tcp.ndjson")
		os.Remove(path)
	}
	evals, hits, idx := 0, 0, 0
	exits := map[string]bool{}
	stuck := 0
	run := func(plan vfC04TcpPlan) vfC04TcpOut {
		if stuck >= 4 {
			res.Inc("skipped_after_stuck", 1)
			return vfC04TcpOut{}
		}
		tr := vfh.NewTrace(fmt.Sprintf("t%d", idx))
		idx++
		out := vfC04TcpRun(t, plan, tr)
		evals++
		res.Count(1, tr.Len())
		if out.Hit {
			hits++
			res.Case(plan.Kind)
			exits["tcp|"+plan.Kind] = true
		}
		if path != "" {
			if err := tr.AppendTo(path, map[string]any{"family": "tcp", "cfg": "noise/early/nopsk", "plan": plan.String(), "kind": plan.Kind,
				"side": "d", "k": plan.K, "hit": out.Hit, "stage": "dial", "p": plan, "hang": out.Hung}); err != nil {
				t.Fatal(err)
			}
		}
		if out.Deadlock != "" || len(out.Leaked) > 0 || out.Hung != "" {
			res.Sample(map[string]any{"plan": plan.String(), "deadlock": out.Deadlock, "leaked": out.Leaked, "hung": out.Hung})
		}
		if out.Hung != "" {
			res.Inc("hangs", 1)
		}
		if out.Hung != "" || out.Deadlock != "" {
			stuck++
		}
		return out
	}
	if only := os.Getenv("VERIF_C04_ONLY"); only != "" {
		var plan vfC04TcpPlan
		if err := json.Unmarshal([]byte(only), &plan); err != nil {
			t.Fatal(err)
		}
		for r := 0; r < vfh.EnvInt("VERIF_C04_REPEAT", 1); r++ {
			out := run(plan)
			t.Logf("%s -> %+v", plan, out)
		}
		res.Set("evaluations", evals)
		res.Traces = []string{path}
		return
	}
	dry := run(vfC04TcpPlan{Kind: "none"})
	if dry.Deadlock != "" && dry.Err == "" {
		res.Inc("skipped_after_stuck", 1)
		res.Set("evaluations", evals)
		res.Traces = []string{path}
		return
	}
	if dry.Err != "" || dry.Ops == 0 || dry.Hung != "" {
		t.Fatalf("tcp dry run failed: %+v", dry)
	}
	res.Set("ops/tcp", []int{dry.Ops})
	for _, k := range []string{"rm-open", "rm-setpeer", "dial-error", "ctx-cancelled", "tracing-conn-error", "nilpeer"} {
		run(vfC04TcpPlan{Kind: k})
	}
	for k := 1; k <= dry.Ops+1; k++ {
		for _, kind := range []string{"err", "eof", "stall", "cancel"} {
			run(vfC04TcpPlan{Kind: kind, K: k})
		}
	}
	tr := vfh.NewTrace("sample")
	vfC04TcpRun(t, vfC04TcpPlan{Kind: "rm-setpeer"}, tr)
	res.Sample(map[string]any{"plan": "rm-setpeer", "events": tr.Events()})
	res.Set("evaluations", evals)
	res.Set("fired", hits)
	keys := make([]string, 0, len(exits))
	for k := range exits {
		keys = append(keys, k)
	}
	sort.Strings(keys)
	res.Set("exits", keys)
	if path != "" {
		res.Traces = []string{path}
	}
}
