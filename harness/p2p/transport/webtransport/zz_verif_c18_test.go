//go:build verif

package libp2pwebtransport

// Conformance harness for C18 (WebTransport serves a valid, advertised certificate at all times;
// dialers pin it).
//
//   TestVerifC18Replay    every transition of the TLC state graph of spec/C18_CertManager.tla (instance
//                         at the real proportions: validity = 336 skew units) on the real certManager,
//                         driven by the benbjohnson mock clock or by the real clock, both inside a
//                         testing/synctest bubble (synctest.Wait = the timer goroutine is idle again);
//                         a second manager that is never restarted runs next to it.
//   TestVerifC18Sweep     seeded schedules with arbitrary keys, millisecond start instants, arbitrary
//                         advances and restarts under the statement's monitors only (no model).
//   TestVerifC18Verifier  every row of the verifier table of spec/C18_Verifier.tla through
//                         verifyRawCerts (and a crypto/tls handshake for accepted rows).
//   TestVerifC18Dial      every (hashes used, hashes confirmed by the server) row through the real
//                         transports over loopback QUIC.
//
// Verdicts: classes without prefix are clauses of the statement evaluated on observables of the real
// code only (L1); "L2:" classes are disagreements with the model's prediction.

import (
	"bytes"
	"context"
	"crypto"
	"crypto/ecdsa"
	"crypto/ed25519"
	"crypto/elliptic"
	crand "crypto/rand"
	"crypto/rsa"
	"crypto/sha256"
	"crypto/tls"
	"crypto/x509"
	"crypto/x509/pkix"
	"encoding/binary"
	"encoding/hex"
	"encoding/json"
	"fmt"
	"io"
	"math/big"
	mrand "math/rand"
	"net"
	"path/filepath"
	"sort"
	"strings"
	"sync"
	"sync/atomic"
	"testing"
	"testing/synctest"
	"time"

	"github.com/benbjohnson/clock"
	ic "github.com/libp2p/go-libp2p/core/crypto"
	"github.com/libp2p/go-libp2p/core/network"
	"github.com/libp2p/go-libp2p/core/peer"
	"github.com/libp2p/go-libp2p/internal/vfh"
	"github.com/libp2p/go-libp2p/p2p/transport/quicreuse"
	ma "github.com/multiformats/go-multiaddr"
	"github.com/multiformats/go-multibase"
	"github.com/multiformats/go-multihash"
	"github.com/quic-go/quic-go"
)

// the statement's bound on a validity period
const vfC18MaxLife = 14 * 24 * time.Hour

// the statement's "clock-skew allowance" is the code's constant (the statement fixes no number)
const vfC18Skew = clockSkewAllowance

// ------------------------------------------------------------------------------------------------
// keys

type vfC18Key struct {
	priv ic.PrivKey
	off  time.Duration // the bucket offset, read from the key exactly as certManager.init does
	id   string
}

func vfC18OffsetOf(k ic.PrivKey) (time.Duration, error) {
	pub, err := k.GetPublic().Raw()
	if err != nil {
		return 0, err
	}
	return (time.Duration(binary.LittleEndian.Uint16(pub)) * time.Minute) % certValidity, nil
}

func vfC18MkKey(k ic.PrivKey) (vfC18Key, error) {
	off, err := vfC18OffsetOf(k)
	if err != nil {
		return vfC18Key{}, err
	}
	raw, _ := k.GetPublic().Raw()
	return vfC18Key{priv: k, off: off, id: hex.EncodeToString(raw)}, nil
}

// vfC18Keys hands out Ed25519 keys whose offset falls into a requested class (offset / skew), drawn
// from one seeded stream.
type vfC18Keys struct {
	mu    sync.Mutex
	rnd   *mrand.Rand
	class map[int]vfC18Key
	tries int
}

func vfC18NewKeys(seed int64) *vfC18Keys {
	return &vfC18Keys{rnd: mrand.New(mrand.NewSource(seed)), class: map[int]vfC18Key{}}
}

func (ks *vfC18Keys) next() (vfC18Key, error) {
	priv, _, err := ic.GenerateEd25519Key(ks.rnd)
	if err != nil {
		return vfC18Key{}, err
	}
	ks.tries++
	return vfC18MkKey(priv)
}

func (ks *vfC18Keys) forClass(c int) (vfC18Key, error) {
	ks.mu.Lock()
	defer ks.mu.Unlock()
	for {
		if k, ok := ks.class[c]; ok {
			return k, nil
		}
		if ks.tries > 2_000_000 {
			return vfC18Key{}, fmt.Errorf("no key with offset class %d after %d keys", c, ks.tries)
		}
		k, err := ks.next()
		if err != nil {
			return vfC18Key{}, err
		}
		cl := int(k.off / vfC18Skew)
		if _, ok := ks.class[cl]; !ok {
			ks.class[cl] = k
		}
	}
}

// ------------------------------------------------------------------------------------------------
// expected certificate of a (key, start): the determinism clause makes it a function of both

var vfC18GenCache sync.Map // key id | start ms | end ms -> vfC18Gen

type vfC18Gen struct {
	hash [32]byte
	bad  string // representations of the same (key, instants) that gave other bytes
}

// vfC18Zones: the Locations in which one and the same instant is presented
var vfC18Zones = []*time.Location{time.UTC, time.FixedZone("+02:00", 2*3600), time.FixedZone("-08:00", -8*3600), time.FixedZone("+05:45", 5*3600+45*60)}

// vfC18Reps returns several time.Time values denoting the instant of t: other Locations, the process's
// Local, the wall-clock-only form and one carrying a monotonic reading.
func vfC18Reps(t time.Time) map[string]time.Time {
	out := map[string]time.Time{"time.Local=" + time.Local.String(): t.In(time.Local), "stripped": t.Round(0)}
	for _, z := range vfC18Zones {
		out[z.String()] = t.In(z)
	}
	n := time.Now()
	out["monotonic"] = n.Add(t.Sub(n))
	return out
}

// vfC18GenHash generates the certificate of (key, [start, end]) with the package's generator for every
// representation of the two instants; the determinism clause makes the bytes a function of the key and the
// INSTANT only.
func vfC18GenHash(k vfC18Key, start, end time.Time) ([32]byte, string, error) {
	ck := fmt.Sprintf("%s|%d|%d|%s", k.id, start.UnixMilli(), end.UnixMilli(), time.Local.String())
	if v, ok := vfC18GenCache.Load(ck); ok {
		g := v.(vfC18Gen)
		return g.hash, g.bad, nil
	}
	c, _, err := generateCert(k.priv, start.UTC(), end.UTC())
	if err != nil {
		return [32]byte{}, "", err
	}
	g := vfC18Gen{hash: sha256.Sum256(c.Raw)}
	ends := vfC18Reps(end)
	var names []string
	for name := range ends {
		names = append(names, name)
	}
	sort.Strings(names)
	for _, name := range names {
		c2, _, err := generateCert(k.priv, vfC18Reps(start)[name], ends[name])
		if err != nil {
			return [32]byte{}, "", err
		}
		if h := sha256.Sum256(c2.Raw); h != g.hash {
			g.bad += fmt.Sprintf("%s -> %s; ", name, vfC18Short(h))
		}
	}
	vfC18GenCache.Store(ck, g)
	return g.hash, g.bad, nil
}

// vfC18Registry: every certificate and advertised list observed anywhere in this process, keyed by what the
// statement says determines it. Walks run with different Locations of the clock, different time.Local and
// reach a bucket by rolling into it, by starting in it or by restarting in it: all must agree.
var vfC18Registry sync.Map

type vfC18Seen struct {
	val string
	who string
}

type vfC18RegKey struct {
	kind, key string
	at        int64
	n         int
}

func vfC18Register(kind string, k vfC18Key, at time.Time, n int, val string, who func() string) *vfC18Seen {
	rk := vfC18RegKey{kind, k.id, at.UnixNano(), n}
	prev, loaded := vfC18Registry.Load(rk)
	if !loaded {
		prev, loaded = vfC18Registry.LoadOrStore(rk, vfC18Seen{val, who()})
	}
	if loaded && prev.(vfC18Seen).val != val {
		p := prev.(vfC18Seen)
		return &p
	}
	return nil
}

func vfC18Ordered(l []multihash.DecodedMultihash) []string {
	out := []string{}
	for _, e := range l {
		out = append(out, fmt.Sprintf("%x:%s", e.Code, hex.EncodeToString(e.Digest)[:12]))
	}
	return out
}

// vfC18Rep: how the instants reach the code in one walk
type vfC18Rep struct {
	loc   *time.Location // Location of the times the clock returns (nil: as the clock makes them)
	strip bool           // drop the monotonic reading
}

func (r vfC18Rep) String() string {
	l := "native"
	if r.loc != nil {
		l = r.loc.String()
	}
	return fmt.Sprintf("clock Location %s, monotonic stripped %v, time.Local %s", l, r.strip, time.Local.String())
}

// vfC18ZoneClock presents the inner clock's instants in another representation.
type vfC18ZoneClock struct {
	clock.Clock
	rep vfC18Rep
}

func (c vfC18ZoneClock) Now() time.Time {
	t := c.Clock.Now()
	if c.rep.loc != nil {
		t = t.In(c.rep.loc)
	}
	if c.rep.strip {
		t = t.Round(0)
	}
	return t
}

// ------------------------------------------------------------------------------------------------
// observation of a manager through its public surface

type vfC18Obs struct {
	Now      time.Time
	NB, NA   time.Time
	Raw      [][]byte
	LeafHash [32]byte
	Adv      []multihash.DecodedMultihash // Noise early data (SerializedCertHashes)
	Addr     []multihash.DecodedMultihash // certhash components of AddrComponent
	AddrStr  string
	Bad      string // undecodable advertised material
}

func vfC18DecodeAddr(a ma.Multiaddr) ([]multihash.DecodedMultihash, string) {
	var out []multihash.DecodedMultihash
	bad := ""
	ma.ForEach(a, func(c ma.Component) bool {
		if c.Protocol().Code != ma.P_CERTHASH {
			return true
		}
		_, b, err := multibase.Decode(c.Value())
		if err != nil {
			bad = "certhash component: " + err.Error()
			return true
		}
		dh, err := multihash.Decode(b)
		if err != nil {
			bad = "certhash component: " + err.Error()
			return true
		}
		out = append(out, *dh)
		return true
	})
	return out, bad
}

func vfC18Observe(m *certManager, now time.Time) vfC18Obs {
	o := vfC18Obs{Now: now}
	conf := m.GetConfig()
	if conf == nil || len(conf.Certificates) == 0 || conf.Certificates[0].Leaf == nil {
		o.Bad = "GetConfig() has no certificate"
		return o
	}
	c := conf.Certificates[0]
	o.NB, o.NA, o.Raw = c.Leaf.NotBefore, c.Leaf.NotAfter, c.Certificate
	if len(c.Certificate) > 0 {
		o.LeafHash = sha256.Sum256(c.Certificate[0])
	}
	for _, h := range m.SerializedCertHashes() {
		dh, err := multihash.Decode(h)
		if err != nil {
			o.Bad = "early data: " + err.Error()
			continue
		}
		o.Adv = append(o.Adv, *dh)
	}
	a := m.AddrComponent()
	o.AddrStr = a.String()
	var bad string
	o.Addr, bad = vfC18DecodeAddr(a)
	if bad != "" {
		o.Bad = bad
	}
	return o
}

func vfC18Has(l []multihash.DecodedMultihash, h [32]byte) bool {
	for _, e := range l {
		if e.Code == multihash.SHA2_256 && bytes.Equal(e.Digest, h[:]) {
			return true
		}
	}
	return false
}

func vfC18Hexes(l []multihash.DecodedMultihash) []string {
	out := []string{}
	for _, e := range l {
		out = append(out, fmt.Sprintf("%x:%s", e.Code, hex.EncodeToString(e.Digest)[:12]))
	}
	sort.Strings(out)
	return out
}

func vfC18In(l []string, x string) bool {
	for _, e := range l {
		if e == x {
			return true
		}
	}
	return false
}

func vfC18Short(h [32]byte) string { return hex.EncodeToString(h[:])[:12] }

// ------------------------------------------------------------------------------------------------
// the statement's clauses as monitors over observations only (L1)

type vfC18Issue struct {
	Class, What string
	Exp, Got    any
}

// ledger of one continuously running manager
type vfC18Ledger struct {
	has     bool
	served  [32]byte
	advAll  []multihash.DecodedMultihash // early-data hashes present at EVERY sample while `served` was served
	addrAll []multihash.DecodedMultihash
	changes int         // number of rolls so far (2 stands for "two or more" between consecutive samples)
	prevCur *certConfig // in-package: identity of the served configuration at the previous sample
}

// rollsSince tells how many rolls happened since the previous sample: 0, 1 or 2 (= at least two). It reads
// the unexported configuration pointers; the answer only decides whether the "served next" monitor is
// applicable to this pair of samples (it needs two consecutive certificates), never a verdict.
func (l *vfC18Ledger) rollsSince(m *certManager) int {
	m.mx.RLock()
	cur, last := m.currentConfig, m.lastConfig
	m.mx.RUnlock()
	prev := l.prevCur
	l.prevCur = cur
	switch {
	case prev == nil || prev == cur:
		return 0
	case last == prev:
		return 1
	}
	return 2
}

func vfC18Inter(a, b []multihash.DecodedMultihash) []multihash.DecodedMultihash {
	var out []multihash.DecodedMultihash
	for _, x := range a {
		for _, y := range b {
			if x.Code == y.Code && bytes.Equal(x.Digest, y.Digest) {
				out = append(out, x)
				break
			}
		}
	}
	return out
}

func (l *vfC18Ledger) check(m *certManager, o vfC18Obs, who string) []vfC18Issue {
	var is []vfC18Issue
	rolls := l.rollsSince(m)
	if o.Bad != "" {
		is = append(is, vfC18Issue{"advertised-undecodable", who + ": " + o.Bad, nil, nil})
	}
	if o.Raw == nil {
		return is
	}
	ts := func(t time.Time) string { return t.UTC().Format("2006-01-02T15:04:05.000Z") }
	win := map[string]string{"now": ts(o.Now), "notBefore": ts(o.NB), "notAfter": ts(o.NA)}
	if o.Now.Sub(o.NB) < vfC18Skew {
		is = append(is, vfC18Issue{"served-cert-not-valid-for-skew-in-the-past",
			fmt.Sprintf("%s: served certificate has been valid for %v < clock-skew allowance %v", who, o.Now.Sub(o.NB), vfC18Skew), ">= " + vfC18Skew.String(), win})
	}
	if o.NA.Sub(o.Now) < vfC18Skew {
		is = append(is, vfC18Issue{"served-cert-not-valid-for-skew-ahead",
			fmt.Sprintf("%s: served certificate stays valid for %v < clock-skew allowance %v", who, o.NA.Sub(o.Now), vfC18Skew), ">= " + vfC18Skew.String(), win})
	}
	if o.NA.Sub(o.NB) > vfC18MaxLife {
		is = append(is, vfC18Issue{"served-cert-lifetime-over-14d",
			fmt.Sprintf("%s: validity period %v exceeds 14 days", who, o.NA.Sub(o.NB)), "<= 336h", win})
	}
	if len(o.Raw) != 1 {
		is = append(is, vfC18Issue{"L2:served-chain-length", fmt.Sprintf("%s: served chain has %d certificates", who, len(o.Raw)), 1, len(o.Raw)})
	}
	if !vfC18Has(o.Adv, o.LeafHash) {
		is = append(is, vfC18Issue{"served-cert-not-in-early-data",
			who + ": SerializedCertHashes() lacks the SHA-256 of the served certificate", vfC18Short(o.LeafHash), vfC18Hexes(o.Adv)})
	}
	if !vfC18Has(o.Addr, o.LeafHash) {
		is = append(is, vfC18Issue{"served-cert-not-in-addr",
			who + ": AddrComponent() lacks the SHA-256 of the served certificate", vfC18Short(o.LeafHash), vfC18Hexes(o.Addr)})
	}
	// "and of the one served next": when the served certificate changes, the new one must have been
	// advertised at every instant sampled while its predecessor was served
	l.changes += rolls
	if rolls > 1 {
		l.has = false // the direct successor was never observed
	}
	if l.has && l.served != o.LeafHash && rolls == 0 {
		is = append(is, vfC18Issue{"L2:served-cert-changed-without-roll", who + ": the served certificate changed although currentConfig did not", nil, nil})
		l.has = false
	}
	if l.has && l.served != o.LeafHash {
		if !vfC18Has(l.advAll, o.LeafHash) {
			is = append(is, vfC18Issue{"next-cert-not-advertised-in-early-data",
				who + ": the certificate now served was missing from SerializedCertHashes() while its predecessor was served",
				vfC18Short(o.LeafHash), vfC18Hexes(l.advAll)})
		}
		if !vfC18Has(l.addrAll, o.LeafHash) {
			is = append(is, vfC18Issue{"next-cert-not-advertised-in-addr",
				who + ": the certificate now served was missing from AddrComponent() while its predecessor was served (an address learned then stops verifying)",
				vfC18Short(o.LeafHash), vfC18Hexes(l.addrAll)})
		}
		l.has = false
	}
	if !l.has {
		l.has, l.served, l.advAll, l.addrAll = true, o.LeafHash, o.Adv, o.Addr
	} else {
		l.advAll, l.addrAll = vfC18Inter(l.advAll, o.Adv), vfC18Inter(l.addrAll, o.Addr)
	}
	return is
}

// ------------------------------------------------------------------------------------------------
// the system under test: one key, one clock, the manager and a never-restarted companion

type vfC18Learned struct {
	addr   string
	maddr  ma.Multiaddr
	hashes []multihash.DecodedMultihash // extractCertHashes(maddr): what transport.dialWithScope hands to dial and upgrade
	period int                          // companion's roll count when learned
	gen    int                          // incarnation of the manager it was learned from
}

// vfC18Served: a chain that was served at some instant, with an address that pinned it then
type vfC18Served struct {
	raw    [][]byte
	nb, na time.Time
	hashes []multihash.DecodedMultihash
}

type vfC18Sys struct {
	mode   string // "mock": benbjohnson mock clock; "real": clock.New() (virtual time of the bubble)
	mock   *clock.Mock
	clk    clock.Clock
	key    vfC18Key
	mg, sh *certManager
	lmg    *vfC18Ledger
	lsh    *vfC18Ledger
	learnt []vfC18Learned
	issues []vfC18Issue
	nobs   int
	rep    vfC18Rep
	gen    int // incremented by every restart
	old    []vfC18Served
	dials  int
}

func vfC18NewSys(mode string, key vfC18Key, start time.Time, rep vfC18Rep) (*vfC18Sys, error) {
	s := &vfC18Sys{mode: mode, key: key, rep: rep}
	if mode == "mock" {
		s.mock = clock.NewMock()
		if rep.loc != nil {
			start = start.In(rep.loc)
		}
		s.mock.Set(start)
		s.clk = vfC18ZoneClock{s.mock, rep}
	} else {
		s.clk = vfC18ZoneClock{clock.New(), rep}
		d := start.Sub(time.Now())
		if d < 0 {
			return nil, fmt.Errorf("start instant %v lies before the bubble's clock %v", start, time.Now())
		}
		time.Sleep(d)
	}
	var err error
	if s.mg, err = newCertManager(key.priv, s.clk); err != nil {
		return nil, err
	}
	if s.sh, err = newCertManager(key.priv, s.clk); err != nil {
		return nil, err
	}
	s.lmg, s.lsh = &vfC18Ledger{}, &vfC18Ledger{}
	synctest.Wait()
	return s, nil
}

func (s *vfC18Sys) now() time.Time { return s.clk.Now() }

// advanceTo moves the clock and returns once the timer goroutines are idle again.
func (s *vfC18Sys) advanceTo(t time.Time) error {
	d := t.Sub(s.now())
	if d < 0 {
		return fmt.Errorf("clock would move backwards by %v", -d)
	}
	if d > 0 {
		if s.mode == "mock" {
			s.mock.Add(d)
		} else {
			time.Sleep(d)
		}
	}
	synctest.Wait()
	if !s.now().Equal(t) {
		return fmt.Errorf("clock is at %v, wanted %v", s.now(), t)
	}
	return nil
}

func (s *vfC18Sys) restartBegin() {
	if s.mg != nil {
		s.mg.Close()
		s.mg = nil
	}
}

func (s *vfC18Sys) restartEnd() error {
	var err error
	s.mg, err = newCertManager(s.key.priv, s.clk)
	s.lmg = &vfC18Ledger{}
	s.gen++
	synctest.Wait()
	return err
}

func (s *vfC18Sys) close() {
	if s.mg != nil {
		s.mg.Close()
	}
	if s.sh != nil {
		s.sh.Close()
	}
}

// sample evaluates every monitor at the current instant.
func (s *vfC18Sys) sample() {
	now := s.now()
	s.nobs++
	osh := vfC18Observe(s.sh, now)
	s.issues = append(s.issues, s.lsh.check(s.sh, osh, "continuous manager")...)
	if s.mg == nil {
		return
	}
	o := vfC18Observe(s.mg, now)
	s.issues = append(s.issues, s.lmg.check(s.mg, o, "manager")...)
	if o.Raw == nil || osh.Raw == nil {
		return
	}
	// determinism: a restarted manager serves what the continuously running one serves ...
	if o.LeafHash != osh.LeafHash {
		s.issues = append(s.issues, vfC18Issue{"restarted-manager-serves-other-cert",
			"the (re)started manager and the manager that ran continuously serve different certificates at the same instant",
			map[string]any{"continuous": vfC18Short(osh.LeafHash), "notBefore": osh.NB.UTC().String()},
			map[string]any{"restarted": vfC18Short(o.LeafHash), "notBefore": o.NB.UTC().String()}})
	}
	// ... and the certificate is a function of (key, bucket instant): generating it again, with the instants in
	// any representation, gives the same bytes
	if h, bad, err := vfC18GenHash(s.key, o.NB, o.NA); err == nil {
		if h != o.LeafHash {
			s.issues = append(s.issues, vfC18Issue{"cert-not-a-function-of-key-and-bucket",
				"generating the certificate of the served bucket again (instants in UTC) yields other bytes than the served one (" + s.rep.String() + ")", vfC18Short(o.LeafHash), vfC18Short(h)})
		}
		if bad != "" {
			s.issues = append(s.issues, vfC18Issue{"cert-depends-on-time-representation",
				"generateCert(key, start, end) gives other bytes when the same instants are passed in another Location / with or without a monotonic reading", "utc -> " + vfC18Short(h), bad})
		}
	}
	s.crossCheck(s.sh, osh, s.lsh, "continuous manager")
	s.crossCheck(s.mg, o, s.lmg, "manager")
	// END TO END: "an address learned at any time keeps verifying through the current and the following
	// period". Every address learned so far (AddrComponent at an earlier sample) is dialed now, against both
	// managers, with the dialer's own steps: extractCertHashes(address) -> verifyRawCerts on the served chain
	// (TLS pinning; with the mock clock, whose time verifyRawCerts cannot see, hash membership) -> the
	// comparison of transport.upgrade: EVERY hash used must be in the server's Noise early data, which
	// listener.handshake fills from SerializedCertHashes() and the dialer decodes with
	// decodeCertHashesFromProtobuf. The period structure is the continuous manager's: the requirement ends
	// with the second roll after learning.
	var keep []vfC18Learned
	for _, l := range s.learnt {
		age := s.lsh.changes - l.period
		if age > 1 {
			continue
		}
		keep = append(keep, l)
		for _, srv := range []struct {
			m   *certManager
			o   vfC18Obs
			who string
		}{{s.mg, o, "manager"}, {s.sh, osh, "continuous manager"}} {
			s.dials++
			if s.mode == "real" {
				if err := verifyRawCerts(srv.o.Raw, l.hashes); err != nil {
					s.issues = append(s.issues, vfC18Issue{"learned-address-stops-verifying",
						fmt.Sprintf("%s: verifyRawCerts refuses the served certificate against an address learned %d period(s) ago: %v", srv.who, age, err),
						"accept", l.addr})
				}
			} else if !vfC18Has(l.hashes, srv.o.LeafHash) {
				s.issues = append(s.issues, vfC18Issue{"learned-address-stops-verifying",
					fmt.Sprintf("%s: an address learned %d period(s) ago does not contain the served certificate's hash", srv.who, age),
					vfC18Short(srv.o.LeafHash), l.addr})
			}
			rcvd, err := decodeCertHashesFromProtobuf(srv.m.SerializedCertHashes())
			if err != nil {
				s.issues = append(s.issues, vfC18Issue{"advertised-undecodable", srv.who + ": early data: " + err.Error(), nil, nil})
				continue
			}
			for _, sent := range l.hashes {
				found := false
				for _, r := range rcvd {
					if sent.Code == r.Code && bytes.Equal(sent.Digest, r.Digest) {
						found = true
						break
					}
				}
				if found {
					continue
				}
				cls := "learned-address-hash-not-confirmed"
				what := fmt.Sprintf("%s: a dial with an address learned %d period(s) ago (within the current and the following certificate period) is refused by transport.upgrade: the server's early data (SerializedCertHashes) lacks a certhash of that address", srv.who, age)
				if srv.m == s.mg && l.gen < s.gen && s.lmg.changes == 0 && age == 1 {
					// the manager was restarted inside the period following the one of the address: it has no
					// lastConfig and therefore does not list the previous certificate
					cls = "learned-address-hash-not-confirmed-after-restart-in-following-period"
				}
				s.issues = append(s.issues, vfC18Issue{cls, what, fmt.Sprintf("%x:%s", sent.Code, hex.EncodeToString(sent.Digest)[:12]), map[string]any{"early_data": vfC18Hexes(rcvd), "address": l.addr, "now": now.UTC().Format(time.RFC3339Nano)}})
				break
			}
		}
	}
	s.learnt = keep
	if n := len(s.learnt); n == 0 || s.learnt[n-1].addr != o.AddrStr || s.learnt[n-1].gen != s.gen {
		a := ma.StringCast("/ip4/127.0.0.1/udp/4001/quic-v1/webtransport").Encapsulate(s.mg.AddrComponent())
		if hs, err := extractCertHashes(a); err == nil {
			s.learnt = append(s.learnt, vfC18Learned{addr: o.AddrStr, maddr: a, hashes: hs, period: s.lsh.changes, gen: s.gen})
		} else {
			s.issues = append(s.issues, vfC18Issue{"advertised-undecodable", "extractCertHashes(listen address): " + err.Error(), nil, nil})
		}
	}
	// ... and the dialer's verdict is a function of (chain, hashes, now) only: chains served and pinned earlier
	// are presented again; they must be refused once their NotAfter has passed (real clock only: verifyRawCerts
	// reads time.Now)
	if s.mode == "real" {
		for _, c := range s.old {
			err := verifyRawCerts(c.raw, c.hashes)
			if valid := !now.Before(c.nb) && !now.After(c.na); err == nil && !valid {
				s.issues = append(s.issues, vfC18Issue{"verifier-accepts-expired-cert",
					"verifyRawCerts accepts a certificate it accepted while it was valid although now lies outside [NotBefore, NotAfter] (the verdict must not be remembered across calls)",
					"reject", map[string]any{"now": now.UTC().String(), "notAfter": c.na.UTC().String()}})
			}
		}
		if n := len(s.old); n == 0 || !bytes.Equal(s.old[n-1].raw[0], o.Raw[0]) {
			s.old = append(s.old, vfC18Served{raw: o.Raw, nb: o.NB, na: o.NA, hashes: o.Addr})
			if len(s.old) > 3 {
				s.old = s.old[1:]
			}
		}
	}
}

// crossCheck compares what this manager serves and advertises for its bucket with what any manager of the same
// key - in any walk, under any representation of time, having rolled into the bucket or started in it - showed.
func (s *vfC18Sys) crossCheck(m *certManager, o vfC18Obs, l *vfC18Ledger, who string) {
	me := func() string {
		how := "started in the bucket"
		if l.changes > 0 {
			how = "rolled into the bucket"
		}
		return fmt.Sprintf("%s that %s, seen at %s (%s)", who, how, o.Now.UTC().Format(time.RFC3339Nano), s.rep.String())
	}
	if p := vfC18Register("cert", s.key, o.NB, 0, string(o.LeafHash[:]), me); p != nil {
		s.issues = append(s.issues, vfC18Issue{"cert-not-a-function-of-key-and-bucket",
			"two managers of the same host key serve different certificates for the same bucket (NotBefore " + o.NB.UTC().Format(time.RFC3339) + ")",
			map[string]any{"cert": hex.EncodeToString([]byte(p.val))[:12], "by": p.who}, map[string]any{"cert": vfC18Short(o.LeafHash), "by": me()}})
	}
	// the certificate advertised as next is the certificate of the next bucket (in-package: which bucket that is)
	m.mx.RLock()
	next := m.nextConfig
	m.mx.RUnlock()
	if next != nil && vfC18Has(o.Adv, next.sha256) {
		me2 := func() string { return "advertised as next by the " + me() }
		if p := vfC18Register("cert", s.key, next.Start(), 0, string(next.sha256[:]), me2); p != nil {
			s.issues = append(s.issues, vfC18Issue{"cert-not-a-function-of-key-and-bucket",
				"the certificate advertised as next for a bucket differs from the certificate another manager of the same host key has for that bucket (NotBefore " + next.Start().UTC().Format(time.RFC3339) + ")",
				map[string]any{"cert": hex.EncodeToString([]byte(p.val))[:12], "by": p.who}, map[string]any{"cert": vfC18Short(next.sha256), "by": me2()}})
		}
	}
	// advertised lists (with their order) are functions of (key, bucket[, number of entries]) too
	for _, e := range []struct {
		kind string
		l    []multihash.DecodedMultihash
	}{{"addr", o.Addr}, {"early-data", o.Adv}} {
		var sb strings.Builder
		for _, h := range e.l {
			sb.WriteByte(byte(h.Code))
			sb.Write(h.Digest)
		}
		if p := vfC18Register(e.kind, s.key, o.NB, len(e.l), sb.String(), me); p != nil {
			cls := "L2:advertised-" + e.kind + "-order-differs-across-managers"
			if len(p.val) != sb.Len() || vfC18SortedChunks(p.val) != vfC18SortedChunks(sb.String()) {
				cls = "L2:advertised-" + e.kind + "-set-differs-across-managers"
			}
			s.issues = append(s.issues, vfC18Issue{cls, "two managers of the same host key advertise different " + e.kind + " lists while serving the same bucket",
				map[string]any{"list": hex.EncodeToString([]byte(p.val)), "by": p.who}, map[string]any{"list": vfC18Ordered(e.l), "by": me()}})
		}
	}
}

// vfC18SortedChunks sorts the 33-byte (code, SHA-256 digest) entries of a packed list.
func vfC18SortedChunks(v string) string {
	var c []string
	for i := 0; i+33 <= len(v); i += 33 {
		c = append(c, v[i:i+33])
	}
	sort.Strings(c)
	return strings.Join(c, "")
}

func (s *vfC18Sys) takeIssues() []vfC18Issue {
	is := s.issues
	s.issues = nil
	return is
}

// ------------------------------------------------------------------------------------------------
// scale map: model ticks -> real instants

type vfC18Scale struct {
	K    int
	Base time.Time     // model tick 0 shifted by the sub-skew part of the key's offset
	Eps  time.Duration // "just before / just after": 1 ns, 1 ms or 1 s (x509 times have second granularity)
}

// real maps tick 3j+r to j*skew + {0, +eps, skew-eps}[r]: monotone, commutes with adding whole skews,
// so every comparison of the code with a boundary (all boundaries are at whole skews relative to the
// offset) has the outcome the integer model computes, and the instants eps before and after every
// boundary are model instants.
func (sc vfC18Scale) real(t int) time.Time {
	eps := sc.Eps
	if eps == 0 {
		eps = time.Millisecond
	}
	j, r := t/sc.K, t%sc.K
	d := time.Duration(j) * vfC18Skew
	switch {
	case r == 0:
	case r == 1:
		d += eps
	case r == sc.K-1:
		d += vfC18Skew - eps
	default:
		d += time.Duration(r) * vfC18Skew / time.Duration(sc.K)
	}
	return sc.Base.Add(d)
}

// vfC18Base: an instant that is a whole number of bucket widths after the Unix epoch (so that model
// bucket k is real bucket B+k), after 2000-01-10 for the bubble's clock, 2024-12 for the mock.
func vfC18Base(mode string, key vfC18Key, seed int64) time.Time {
	w := certValidity - 2*clockSkewAllowance
	b := int64(1443 + 26*(seed%40))
	if mode == "real" {
		b = 788
	}
	return time.Unix(0, 0).Add(time.Duration(b) * w).Add(key.off % vfC18Skew)
}

// ------------------------------------------------------------------------------------------------
// replay of TLC walks

type vfC18State struct {
	Off   int `json:"off"`
	Now   int `json:"now"`
	Last  int `json:"last"`
	Cur   int `json:"cur"`
	Next  int `json:"next"`
	Timer int `json:"timer"`
}

func vfC18Ints(l []any) []int {
	out := []int{}
	for _, e := range l {
		if f, ok := e.(float64); ok {
			out = append(out, int(f))
		}
	}
	sort.Ints(out)
	return out
}

type vfC18Replayer struct {
	sys     *vfC18Sys
	sc      vfC18Scale
	tick    int
	rep     vfC18Rep
	split   bool // sample 1 ms around every model roll instant inside an advance
	scaleOK bool
	steps   int
}

// moveTo advances to model tick `to`; with split, stops 1 ms before, at and 1 ms after every roll
// instant the model lists and evaluates the monitors there.
func (r *vfC18Replayer) moveTo(to int, fires []int) error {
	if r.split {
		for _, f := range fires {
			for _, p := range []int{f - 1, f, f + 1} {
				if p > r.tick && p < to {
					if err := r.sys.advanceTo(r.sc.real(p)); err != nil {
						return err
					}
					r.tick = p
					r.sys.sample()
				}
			}
		}
	}
	if err := r.sys.advanceTo(r.sc.real(to)); err != nil {
		return err
	}
	r.tick = to
	return nil
}

// compare checks the model's expectation (L2) after a step.
func (r *vfC18Replayer) compare(exp map[string]any) []vfC18Issue {
	var is []vfC18Issue
	s := r.sys
	if !r.scaleOK {
		return is
	}
	o := vfC18Observe(s.mg, s.now())
	if o.Raw == nil {
		return is
	}
	gi := func(k string) int { f, _ := exp[k].(float64); return int(f) }
	nb, na, nnb := r.sc.real(gi("nb")), r.sc.real(gi("na")), r.sc.real(gi("nextnb"))
	if !o.NB.Equal(nb) || !o.NA.Equal(na) {
		is = append(is, vfC18Issue{"L2:served-window", "validity window of the served certificate differs from the model's bucket",
			[]string{nb.UTC().String(), na.UTC().String()}, []string{o.NB.UTC().String(), o.NA.UTC().String()}})
	}
	want := func(ticks []int) ([]string, error) {
		out := []string{}
		for _, t := range ticks {
			st := r.sc.real(t)
			h, _, err := vfC18GenHash(s.key, st, st.Add(certValidity))
			if err != nil {
				return nil, err
			}
			out = append(out, fmt.Sprintf("%x:%s", multihash.SHA2_256, vfC18Short(h)))
		}
		sort.Strings(out)
		return out, nil
	}
	adv, _ := exp["adv"].([]any)
	addr, _ := exp["addr"].([]any)
	if w, err := want(vfC18Ints(adv)); err == nil && vfh.Canon(w) != vfh.Canon(vfC18Hexes(o.Adv)) {
		is = append(is, vfC18Issue{"L2:early-data-set", "SerializedCertHashes() differs from the model's advertised set", w, vfC18Hexes(o.Adv)})
	}
	if w, err := want(vfC18Ints(addr)); err == nil && vfh.Canon(w) != vfh.Canon(vfC18Hexes(o.Addr)) {
		is = append(is, vfC18Issue{"L2:addr-set", "AddrComponent() differs from the model's {current, next}", w, vfC18Hexes(o.Addr)})
	}
	// in-package: the next certificate and the presence of the previous one
	s.mg.mx.RLock()
	var gotNext time.Time
	if s.mg.nextConfig != nil {
		gotNext = s.mg.nextConfig.Start()
	}
	hasLast := s.mg.lastConfig != nil
	var gotLast time.Time
	if hasLast {
		gotLast = s.mg.lastConfig.Start()
	}
	s.mg.mx.RUnlock()
	if hl, _ := exp["haslast"].(bool); hl && hasLast && !gotLast.Equal(r.sc.real(gi("lastnb"))) {
		is = append(is, vfC18Issue{"L2:last-window", "lastConfig starts at another instant than the model's previous bucket", r.sc.real(gi("lastnb")).UTC().String(), gotLast.UTC().String()})
	}
	if !gotNext.Equal(nnb) {
		is = append(is, vfC18Issue{"L2:next-window", "nextConfig starts at another instant than the model's next bucket", nnb.UTC().String(), gotNext.UTC().String()})
	}
	if hl, _ := exp["haslast"].(bool); hl != hasLast {
		is = append(is, vfC18Issue{"L2:last-config", "presence of lastConfig differs from the model", hl, hasLast})
	}
	return is
}

func (r *vfC18Replayer) step(op vfh.Op, st vfC18State, keys *vfC18Keys, mode string, seed int64) ([]vfC18Issue, error) {
	fires := vfC18Ints(op.L("fires"))
	switch op.Name() {
	case "start":
		key, err := keys.forClass(op.I("off") / r.sc.K)
		if err != nil {
			return nil, err
		}
		r.sc.Base = vfC18Base(mode, key, seed)
		r.tick = op.I("t")
		if r.sys, err = vfC18NewSys(mode, key, r.sc.real(r.tick), r.rep); err != nil {
			return nil, err
		}
	case "advance":
		if err := r.moveTo(r.tick+op.I("d"), fires); err != nil {
			return nil, err
		}
	case "restart":
		r.sys.restartBegin()
		if err := r.moveTo(r.tick+op.I("d"), fires); err != nil {
			return nil, err
		}
		if err := r.sys.restartEnd(); err != nil {
			return nil, err
		}
	default:
		return nil, fmt.Errorf("unknown op %q", op.Name())
	}
	if r.tick != st.Now {
		return nil, fmt.Errorf("harness tick %d, model now %d", r.tick, st.Now)
	}
	r.steps++
	r.sys.sample()
	is := r.sys.takeIssues()
	is = append(is, r.compare(op.M("exp"))...)
	return is, nil
}

func TestVerifC18Replay(t *testing.T) {
	res := vfh.NewResult()
	defer func() {
		if err := res.Write(); err != nil {
			t.Fatal(err)
		}
	}()
	files, _ := filepath.Glob(filepath.Join(vfh.In(), "*.jsonl"))
	if len(files) == 0 {
		t.Fatalf("no behaviour files in %q", vfh.In())
	}
	sort.Strings(files)
	res.Rule = "one case = one (source state, action+arguments) transition of the TLC graph executed on the real certManager (mock clock or real clock inside a synctest bubble, plus a never-restarted companion manager; the clock's times in UTC / +02:00 / -08:00 / +05:45 / native Location, with or without monotonic reading, time.Local set to each of these zones in turn); after every step and 1 ns / 1 ms / 1 s (per walk) around every roll instant the statement's monitors are evaluated on GetConfig/SerializedCertHashes/AddrComponent, every address learned earlier is dialed end to end (extractCertHashes, verifyRawCerts or hash membership, the every-hash-confirmed comparison of transport.upgrade against decodeCertHashesFromProtobuf(SerializedCertHashes())) against both managers until the second roll after learning, and the model's expectation is compared; every certificate and advertised list seen for a (key, bucket) is compared across all walks (rolled into / started in / restarted in the bucket, any representation)"
	seed := vfh.Seed()
	keys := vfC18NewKeys(seed)
	var mu sync.Mutex
	machinery := ""
	nobs, ndials := 0, 0
	type loaded struct {
		hdr   map[string]any
		walks []vfh.Walk
	}
	var all []loaded
	for _, f := range files {
		hdr, walks, err := vfh.LoadWalks(f)
		if err != nil {
			t.Fatalf("%s: %v", f, err)
		}
		all = append(all, loaded{hdr, walks})
	}
	// The process's time.Local is part of how an instant is represented (time.Unix* return Local times): the
	// walks are run in phases, each under another Local, restored afterwards.
	origLocal := time.Local
	defer func() { time.Local = origLocal }()
	locals := append([]*time.Location{origLocal}, vfC18Zones[1:]...)
	scaleNoted := false
	for ph, local := range locals {
		time.Local = local
		t.Run(fmt.Sprintf("walks-local%d", ph), func(t *testing.T) {
			for fi, f := range files {
				hdr, walks := all[fi].hdr, all[fi].walks
				conf, _ := hdr["conf"].(map[string]any)
				K, VU := 0, 0
				if conf != nil {
					kf, _ := conf["K"].(float64)
					vf, _ := conf["VU"].(float64)
					K, VU = int(kf), int(vf)
				}
				if K < 3 {
					t.Fatalf("%s: the scale map needs K >= 3 (got %d)", f, K)
				}
				scaleOK := time.Duration(VU)*clockSkewAllowance == certValidity
				if !scaleOK && !scaleNoted {
					scaleNoted = true
					res.AddMismatch(vfh.Mismatch{Class: "L2:scale", What: fmt.Sprintf("certValidity/clockSkewAllowance = %v, the model instance has %d: model comparison skipped, monitors only", float64(certValidity)/float64(clockSkewAllowance), VU), Walk: -1})
				}
				const lanes = 8
				for lane := 0; lane < lanes; lane++ {
					t.Run(fmt.Sprintf("%s-%d", filepath.Base(f), lane), func(t *testing.T) {
						t.Parallel()
						for wi, w := range walks {
							if wi%lanes != lane || (w.Walk/4)%len(locals) != ph {
								continue
							}
							rep := vfC18Rep{strip: (w.Walk/80)%2 == 1}
							if z := (w.Walk / 16) % (len(vfC18Zones) + 1); z < len(vfC18Zones) {
								rep.loc = vfC18Zones[z]
							}
							mode := "mock"
							if (w.Walk/2)%2 == 1 {
								mode = "real"
							}
							synctest.Test(t, func(t *testing.T) {
								r := &vfC18Replayer{sc: vfC18Scale{K: K, Eps: []time.Duration{time.Nanosecond, time.Millisecond, time.Second}[(w.Walk/8)%3]}, split: w.Walk%2 == 0, scaleOK: scaleOK, rep: rep}
								defer func() {
									if r.sys != nil {
										r.sys.close()
										mu.Lock()
										nobs += r.sys.nobs
										mu.Unlock()
									}
								}()
								var prefix []vfh.Op
								prevKey := string(w.Init)
								for i, st := range w.Steps {
									prefix = append(prefix, st.Op)
									var ms vfC18State
									if err := json.Unmarshal(st.State, &ms); err != nil {
										mu.Lock()
										machinery = err.Error()
										mu.Unlock()
										return
									}
									is, err := r.step(st.Op, ms, keys, mode, seed)
									if err != nil {
										mu.Lock()
										machinery = fmt.Sprintf("walk %d step %d: %v", w.Walk, i, err)
										mu.Unlock()
										return
									}
									res.Case(prevKey + "|" + vfh.Canon(st.Op))
									prevKey = string(st.State)
									res.Count(0, 1)
									for _, e := range is {
										res.AddMismatch(vfh.Mismatch{Class: e.Class, What: e.What, Walk: w.Walk, Step: i, Expected: e.Exp, Got: e.Got,
											Prefix: append([]vfh.Op{}, prefix...),
											Cfg: map[string]any{"file": filepath.Base(f), "clock": mode, "split": r.split, "seed": seed, "time_representation": rep.String(),
												"key_offset": r.sys.key.off.String(), "tick0": r.sc.Base.UTC().String(), "eps": r.sc.Eps.String(), "K": K, "VU": VU}})
									}
								}
								res.Count(1, 0)
								if w.Walk < 2 && len(w.Steps) > 0 {
									k := min(6, len(w.Steps))
									res.Sample(map[string]any{"clock": mode, "key_offset": r.sys.key.off.String(), "tick0": r.sc.Base.UTC().String(), "first_steps": w.Steps[:k]})
								}
							})
						}
					})
				}
			}
		})
	}
	time.Local = origLocal
	if machinery != "" {
		t.Fatalf("machinery: %s", machinery)
	}
	res.Set("instants_monitored", nobs)
	res.Set("learned_address_dials", ndials)
	res.Set("keys_generated", keys.tries)
	res.Set("time_local_phases", len(locals))
}

// ------------------------------------------------------------------------------------------------
// seeded sweep under the monitors only

func TestVerifC18Sweep(t *testing.T) {
	res := vfh.NewResult()
	defer func() {
		if err := res.Write(); err != nil {
			t.Fatal(err)
		}
	}()
	res.Rule = "one case = one seeded schedule (random Ed25519/secp256k1/ECDSA host key, start instant at millisecond granularity, 14 advances of arbitrary length (up to 200 days) or aimed 1 ms / 1 s around the next expected roll, restarts; clock times and time.Local in UTC / +02:00 / -08:00 / +05:45, with or without monotonic reading) on the real certManager with a never-restarted companion; only the statement's monitors decide"
	n := 200
	if vfh.Thorough() {
		n = 2000
	}
	seed := vfh.Seed()
	var mu sync.Mutex
	machinery := ""
	nobs := 0
	const lanes = 8
	origLocal := time.Local
	defer func() { time.Local = origLocal }()
	locals := append([]*time.Location{origLocal}, vfC18Zones[1:]...)
	for ph, local := range locals {
		time.Local = local
		t.Run(fmt.Sprintf("sweep-local%d", ph), func(t *testing.T) {
			for lane := 0; lane < lanes; lane++ {
				t.Run(fmt.Sprint(lane), func(t *testing.T) {
					t.Parallel()
					for i := lane; i < n; i += lanes {
						if (i/2)%len(locals) != ph {
							continue
						}
						rep := vfC18Rep{strip: (i/40)%2 == 1}
						if z := (i / 8) % (len(vfC18Zones) + 1); z < len(vfC18Zones) {
							rep.loc = vfC18Zones[z]
						}
						rnd := mrand.New(mrand.NewSource(seed*1_000_003 + int64(i)))
						mode := []string{"mock", "real"}[i%2]
						var priv ic.PrivKey
						var err error
						switch i % 7 {
						case 5: // offset from the compressed point; key from the seeded stream
							b := make([]byte, 32)
							rnd.Read(b)
							b[0] &= 0x7f
							priv, err = ic.UnmarshalSecp256k1PrivateKey(b)
						case 6: // offset from the DER prefix (constant); scalar from the seeded stream
							b := make([]byte, 32)
							rnd.Read(b)
							b[0] &= 0x7f
							k := &ecdsa.PrivateKey{D: new(big.Int).SetBytes(b)}
							k.PublicKey.Curve = elliptic.P256()
							k.PublicKey.X, k.PublicKey.Y = elliptic.P256().ScalarBaseMult(b)
							priv, _, err = ic.ECDSAKeyPairFromKey(k)
						default:
							priv, _, err = ic.GenerateEd25519Key(rnd)
						}
						if err != nil {
							t.Fatal(err)
						}
						key, err := vfC18MkKey(priv)
						if err != nil {
							t.Fatal(err)
						}
						var start time.Time
						if mode == "real" {
							start = time.Date(2000, 1, 20, 0, 0, 0, 0, time.UTC).Add(time.Duration(rnd.Int63n(int64(60*24*time.Hour/time.Millisecond))) * time.Millisecond)
						} else {
							start = time.Date(2001, 1, 1, 0, 0, 0, 0, time.UTC).Add(time.Duration(rnd.Int63n(int64(40*365*24*time.Hour/time.Millisecond))) * time.Millisecond)
						}
						var log []string
						synctest.Test(t, func(t *testing.T) {
							s, err := vfC18NewSys(mode, key, start, rep)
							if err != nil {
								mu.Lock()
								machinery = err.Error()
								mu.Unlock()
								return
							}
							defer s.close()
							log = append(log, "start "+start.UTC().Format(time.RFC3339Nano))
							s.sample()
							steps := 0
							for j := 0; j < 14 && len(s.issues) < 20; j++ {
								var d time.Duration
								switch rnd.Intn(4) {
								case 0: // anywhere within 40 days (now and then 200 days: many rolls in one move)
									span := 40 * 24 * time.Hour
									if rnd.Intn(6) == 0 {
										span = 200 * 24 * time.Hour
									}
									d = time.Duration(rnd.Int63n(int64(span/time.Millisecond))) * time.Millisecond
								case 1: // within two hours
									d = time.Duration(rnd.Int63n(int64(2*time.Hour/time.Millisecond))) * time.Millisecond
								default: // around the instant at which the continuous manager's certificate has one skew left
									o := vfC18Observe(s.sh, s.now())
									d = o.NA.Add(-vfC18Skew).Sub(s.now()) + []time.Duration{-time.Second, -time.Millisecond, -time.Nanosecond, 0, time.Nanosecond, time.Millisecond, time.Second, time.Hour - time.Nanosecond, time.Hour, time.Hour + time.Nanosecond, time.Hour + time.Millisecond, 2 * time.Hour}[rnd.Intn(12)]
									if d < 0 {
										d = time.Millisecond
									}
								}
								restart := rnd.Intn(5) == 0
								if restart {
									s.restartBegin()
								}
								if err := s.advanceTo(s.now().Add(d)); err != nil {
									mu.Lock()
									machinery = err.Error()
									mu.Unlock()
									return
								}
								if restart {
									if err := s.restartEnd(); err != nil {
										mu.Lock()
										machinery = err.Error()
										mu.Unlock()
										return
									}
								}
								log = append(log, fmt.Sprintf("%s %v -> %s", map[bool]string{false: "advance", true: "restart after"}[restart], d, s.now().UTC().Format(time.RFC3339Nano)))
								s.sample()
								steps++
							}
							res.Count(1, steps)
							mu.Lock()
							nobs += s.nobs
							mu.Unlock()
							for _, e := range s.takeIssues() {
								res.AddMismatch(vfh.Mismatch{Class: e.Class, What: e.What, Walk: -1, Step: steps, Expected: e.Exp, Got: e.Got, Prefix: log,
									Cfg: map[string]any{"schedule": i, "clock": mode, "seed": seed, "time_representation": rep.String(), "key_type": priv.Type().String(), "key_offset": key.off.String()}})
							}
						})
						res.Case(fmt.Sprintf("sweep-%d", i))
					}
				})
			}
		})
	}
	time.Local = origLocal
	if machinery != "" {
		t.Fatalf("machinery: %s", machinery)
	}
	res.Set("instants_monitored", nobs)
}

// ------------------------------------------------------------------------------------------------
// verifier table

type vfC18Cert struct {
	raw  []byte
	priv crypto.Signer
}

var vfC18Serial atomic.Int64

type vfC18CertFactory struct {
	now    time.Time
	ec, ca *ecdsa.PrivateKey
	ed     ed25519.PrivateKey
	rsa    *rsa.PrivateKey
	serial int64
	cache  map[string]vfC18Cert
}

func vfC18NewFactory(now time.Time) (*vfC18CertFactory, error) {
	f := &vfC18CertFactory{now: now, cache: map[string]vfC18Cert{}}
	var err error
	if f.ec, err = ecdsa.GenerateKey(elliptic.P256(), crand.Reader); err != nil {
		return nil, err
	}
	if f.ca, err = ecdsa.GenerateKey(elliptic.P256(), crand.Reader); err != nil {
		return nil, err
	}
	if _, f.ed, err = ed25519.GenerateKey(crand.Reader); err != nil {
		return nil, err
	}
	if f.rsa, err = rsa.GenerateKey(crand.Reader, 2048); err != nil {
		return nil, err
	}
	return f, nil
}

func (f *vfC18CertFactory) window(life, when string) (time.Time, time.Time, error) {
	var l time.Duration
	switch life {
	case "1d":
		l = 24 * time.Hour
	case "14d":
		l = 14 * 24 * time.Hour
	case "14d1s":
		l = 14*24*time.Hour + time.Second
	default:
		return time.Time{}, time.Time{}, fmt.Errorf("life %q", life)
	}
	var nb time.Time
	switch when {
	case "notyet":
		nb = f.now.Add(time.Second)
	case "at_notbefore":
		nb = f.now
	case "inside":
		nb = f.now.Add(-l / 2).Truncate(time.Second)
	case "at_notafter":
		nb = f.now.Add(-l)
	case "expired":
		nb = f.now.Add(-l - time.Second)
	default:
		return time.Time{}, time.Time{}, fmt.Errorf("when %q", when)
	}
	return nb, nb.Add(l), nil
}

func (f *vfC18CertFactory) make(alg, life, when string) (vfC18Cert, error) {
	ck := alg + "|" + life + "|" + when
	if c, ok := f.cache[ck]; ok {
		return c, nil
	}
	nb, na, err := f.window(life, when)
	if err != nil {
		return vfC18Cert{}, err
	}
	tmpl := &x509.Certificate{SerialNumber: big.NewInt(1000 + vfC18Serial.Add(1)), Subject: pkix.Name{CommonName: "verif subject"},
		NotBefore: nb, NotAfter: na, KeyUsage: x509.KeyUsageDigitalSignature | x509.KeyUsageCertSign, IsCA: true, BasicConstraintsValid: true,
		ExtKeyUsage: []x509.ExtKeyUsage{x509.ExtKeyUsageServerAuth}}
	issuer := &x509.Certificate{SerialNumber: big.NewInt(7), Subject: pkix.Name{CommonName: "verif issuer"},
		NotBefore: nb, NotAfter: na, KeyUsage: x509.KeyUsageCertSign, IsCA: true, BasicConstraintsValid: true}
	var pub crypto.PublicKey
	var signer, own crypto.Signer
	parent := tmpl
	switch alg {
	case "ecdsa":
		pub, signer, own = f.ec.Public(), f.ec, f.ec
	case "ed25519":
		pub, signer, own = f.ed.Public(), f.ed, f.ed
	case "rsa_pkcs1":
		pub, signer, own = f.rsa.Public(), f.rsa, f.rsa
		tmpl.SignatureAlgorithm = x509.SHA256WithRSA
	case "rsa_pss":
		pub, signer, own = f.rsa.Public(), f.rsa, f.rsa
		tmpl.SignatureAlgorithm = x509.SHA256WithRSAPSS
	case "rsakey_ecdsasig": // RSA subject key, certified by an ECDSA issuer
		pub, signer, own, parent = f.rsa.Public(), f.ca, f.rsa, issuer
	case "eckey_rsasig": // ECDSA subject key, certified by an RSA issuer
		pub, signer, own, parent = f.ec.Public(), f.rsa, f.ec, issuer
		tmpl.SignatureAlgorithm = x509.SHA256WithRSA
	default:
		return vfC18Cert{}, fmt.Errorf("alg %q", alg)
	}
	raw, err := x509.CreateCertificate(crand.Reader, tmpl, parent, pub, signer)
	if err != nil {
		return vfC18Cert{}, fmt.Errorf("CreateCertificate(%s): %w", ck, err)
	}
	c := vfC18Cert{raw: raw, priv: own}
	f.cache[ck] = c
	return c, nil
}

func vfC18CerthashAddr(mhs [][]byte) (ma.Multiaddr, error) {
	a := ma.StringCast("/ip4/127.0.0.1/udp/4001/quic-v1/webtransport")
	for _, h := range mhs {
		s, err := multibase.Encode(multibase.Base58BTC, h)
		if err != nil {
			return nil, err
		}
		c, err := ma.NewComponent(ma.ProtocolWithCode(ma.P_CERTHASH).Name, s)
		if err != nil {
			return nil, err
		}
		a = a.AppendComponent(c)
	}
	return a, nil
}

func vfC18Mh(digest []byte, code uint64) []byte {
	b, err := multihash.Encode(digest, code)
	if err != nil {
		panic(err)
	}
	return b
}

// vfC18Handshake runs a crypto/tls handshake over an in-memory pipe: the server presents `chain` and
// signs with the key of chain[0]; the client is configured exactly as transport.dial configures it.
func vfC18Handshake(chain [][]byte, key crypto.Signer, hashes []multihash.DecodedMultihash) (accepted bool, serverCert [32]byte, err error) {
	cs, cc := net.Pipe()
	defer cs.Close()
	defer cc.Close()
	srv := tls.Server(cs, &tls.Config{Certificates: []tls.Certificate{{Certificate: chain, PrivateKey: key}}, MinVersion: tls.VersionTLS13, NextProtos: []string{"h3"}, SessionTicketsDisabled: true})
	cli := tls.Client(cc, &tls.Config{InsecureSkipVerify: true, MinVersion: tls.VersionTLS13, NextProtos: []string{"h3"},
		VerifyPeerCertificate: func(rawCerts [][]byte, _ [][]*x509.Certificate) error { return verifyRawCerts(rawCerts, hashes) }})
	done := make(chan error, 1)
	go func() { done <- srv.Handshake() }()
	err = cli.Handshake()
	if err != nil {
		cc.Close()
		<-done
		return false, serverCert, err
	}
	// complete the server side (it waits for the client's Finished, already written)
	go io.Copy(io.Discard, cc)
	<-done
	st := cli.ConnectionState()
	if len(st.PeerCertificates) > 0 {
		serverCert = sha256.Sum256(st.PeerCertificates[0].Raw)
	}
	return true, serverCert, nil
}

func TestVerifC18Verifier(t *testing.T) {
	res := vfh.NewResult()
	defer func() {
		if err := res.Write(); err != nil {
			t.Fatal(err)
		}
	}()
	res.Rule = "one case = one transition (clock position, history of accepted certificates, row) of C18_Verifier: row = chain shape, hash list, certificate algorithm, lifetime; one behaviour = one synctest bubble whose clock is moved by the model's ticks through 1 s before NotBefore, NotBefore, the middle, NotAfter, 1 s after, with the SAME certificates queried again and again by the same process (real X.509 certificates, the list parsed from a multiaddr by extractCertHashes); an acceptance outside the allowed set is confirmed by a crypto/tls handshake"
	files, _ := filepath.Glob(filepath.Join(vfh.In(), "*.jsonl"))
	if len(files) == 0 {
		t.Fatalf("no behaviour files in %q", vfh.In())
	}
	machinery := ""
	accepted, rejected, handshakes, repeats, walksRun := 0, 0, 0, 0, 0
	keys, err := vfC18NewFactory(time.Time{}) // the keys are made once; every behaviour gets fresh certificates
	if err != nil {
		t.Fatal(err)
	}
	b1, b2 := sha256.Sum256([]byte("verif bogus 1")), sha256.Sum256([]byte("verif bogus 2"))
	for _, file := range files {
		_, walks, err := vfh.LoadWalks(file)
		if err != nil {
			t.Fatal(err)
		}
		for _, w := range walks {
			if machinery != "" {
				break
			}
			nv := 0
			for _, st := range w.Steps {
				if st.Op.Name() == "verify" {
					nv++
				}
			}
			if nv == 0 {
				continue
			}
			walksRun++
			// one behaviour = one bubble: its clock starts 1 s before the NotBefore of the behaviour's certificates
			// and is moved (time.Sleep) by the model's tick steps; the verifier is the same process throughout
			synctest.Test(t, func(t *testing.T) {
				now0 := time.Now()
				if now0.Nanosecond() != 0 {
					machinery = "bubble clock is not on a whole second"
					return
				}
				f := &vfC18CertFactory{now: now0, ec: keys.ec, ca: keys.ca, ed: keys.ed, rsa: keys.rsa, cache: map[string]vfC18Cert{}}
				// the companion has its own key so that S and C never share one
				ct := &x509.Certificate{SerialNumber: big.NewInt(vfC18Serial.Add(1)), Subject: pkix.Name{CommonName: "verif companion"}, NotBefore: now0.Add(-time.Hour), NotAfter: now0.Add(13 * 24 * time.Hour),
					KeyUsage: x509.KeyUsageDigitalSignature | x509.KeyUsageCertSign, IsCA: true, BasicConstraintsValid: true}
				comp := vfC18Cert{priv: keys.ca}
				var err error
				if comp.raw, err = x509.CreateCertificate(crand.Reader, ct, ct, keys.ca.Public(), keys.ca); err != nil {
					machinery = err.Error()
					return
				}
				life, pos := "", 0
				var instants []time.Time
				var prefix []vfh.Op
				prevKey := string(w.Init)
				for i, st := range w.Steps {
					op := st.Op
					srcKey := prevKey
					prevKey = string(st.State)
					switch op.Name() {
					case "choose":
						life, pos = op.S("life"), 1
						nb, na, err := f.window(life, "notyet")
						if err != nil {
							machinery = err.Error()
							return
						}
						instants = []time.Time{nb.Add(-time.Second), nb, nb.Add(na.Sub(nb) / 2).Truncate(time.Second), na, na.Add(time.Second)}
						prefix = append(prefix, op)
						continue
					case "tick":
						if pos < 1 || pos >= 5 {
							machinery = "tick outside the clock's range"
							return
						}
						pos++
						time.Sleep(instants[pos-1].Sub(time.Now()))
						prefix = append(prefix, op)
						continue
					case "verify":
					default:
						continue
					}
					prefix = append(prefix, op)
					whens := []string{"notyet", "at_notbefore", "inside", "at_notafter", "expired"}
					if pos < 1 || whens[pos-1] != op.S("when") || op.S("life") != life || !time.Now().Equal(instants[pos-1]) {
						machinery = fmt.Sprintf("walk %d step %d: harness clock position %d does not match the model's %q", w.Walk, i, pos, op.S("when"))
						return
					}
					if op.B("repeat") {
						repeats++
					}
					s, err := f.make(op.S("alg"), life, "notyet")
					if err != nil {
						machinery = err.Error()
						return
					}
					sh := sha256.Sum256(s.raw)
					var mhs [][]byte
					switch op.S("list") {
					case "empty":
					case "absent":
						mhs = [][]byte{vfC18Mh(b1[:], multihash.SHA2_256)}
					case "sha256":
						mhs = [][]byte{vfC18Mh(sh[:], multihash.SHA2_256)}
					case "sha256_among_others":
						mhs = [][]byte{vfC18Mh(b1[:], multihash.SHA2_256), vfC18Mh(sh[:], multihash.SHA2_256), vfC18Mh(b2[:], multihash.SHA2_256)}
					case "othercode": // the right digest labelled with other hash functions, next to an unrelated SHA-256
						mhs = [][]byte{vfC18Mh(sh[:], multihash.SHA3_256), vfC18Mh(sh[:], multihash.BLAKE2S_MAX), vfC18Mh(b1[:], multihash.SHA2_256)}
					default:
						machinery = "list " + op.S("list")
						return
					}
					addr, err := vfC18CerthashAddr(mhs)
					if err != nil {
						machinery = "certhash multiaddr: " + err.Error()
						return
					}
					hashes, err := extractCertHashes(addr)
					if err != nil || len(hashes) != len(mhs) {
						machinery = fmt.Sprintf("extractCertHashes(%s): %d hashes, %v", addr, len(hashes), err)
						return
					}
					var chain [][]byte
					var first vfC18Cert
					switch op.S("chain") {
					case "empty":
					case "S":
						chain, first = [][]byte{s.raw}, s
					case "S_C":
						chain, first = [][]byte{s.raw, comp.raw}, s
					case "C_S":
						chain, first = [][]byte{comp.raw, s.raw}, comp
					}
					verr := verifyRawCerts(chain, hashes)
					got := verr == nil
					if got {
						accepted++
					} else {
						rejected++
					}
					res.Count(0, 1)
					res.Case(srcKey + "|" + vfh.Canon(op))
					allowed := map[bool]bool{}
					for _, a := range op.L("allowed") {
						if b, ok := a.(bool); ok {
							allowed[b] = true
						}
					}
					if allowed[got] {
						if got && handshakes < 40 && len(chain) > 0 {
							handshakes++
							ok, _, herr := vfC18Handshake(chain, first.priv, hashes)
							if !ok {
								res.AddMismatch(vfh.Mismatch{Class: "L2:verifier-accepts-handshake-fails", What: fmt.Sprint("verifyRawCerts accepts but the TLS handshake fails: ", herr), Walk: w.Walk, Step: i, Cfg: op, Prefix: append([]vfh.Op{}, prefix...)})
							}
						}
						continue
					}
					if !got { // "accepts only if": a refusal of an acceptable certificate is not excluded by the statement
						res.AddMismatch(vfh.Mismatch{Class: "L2:verifier-refuses-acceptable-cert",
							What: fmt.Sprintf("verifyRawCerts refuses a row the table accepts: %v", verr), Walk: w.Walk, Step: i, Expected: true, Got: false, Cfg: op, Prefix: append([]vfh.Op{}, prefix...)})
						continue
					}
					// accepted although the statement's conditions do not hold: name the first failing one
					cls := ""
					switch {
					case op.S("chain") == "C_S":
						cls = "verifier-pins-last-chain-cert-not-server-cert"
					case op.S("list") == "othercode":
						cls = "verifier-accepts-other-hash-function"
					case op.S("list") == "absent" || op.S("list") == "empty":
						cls = "verifier-accepts-unpinned-cert"
					case op.S("alg") == "rsa_pss":
						cls = "verifier-accepts-rsa-pss-signed-cert"
					case op.S("alg") == "rsakey_ecdsasig":
						cls = "verifier-accepts-rsa-key-cert"
					case op.S("alg") == "rsa_pkcs1":
						cls = "verifier-accepts-rsa-cert"
					case op.S("life") == "14d1s":
						cls = "verifier-accepts-lifetime-over-14d"
					case op.S("when") == "notyet":
						cls = "verifier-accepts-not-yet-valid-cert"
					case op.S("when") == "expired":
						cls = "verifier-accepts-expired-cert"
					default:
						cls = "verifier-accepts"
					}
					what := "verifyRawCerts accepts a chain/hash-list pair the statement excludes"
					if op.B("repeat") {
						what += " (the same certificate was accepted earlier in this process: see the prefix; the verdict must be a function of chain, hash list and the current time only)"
					}
					gotd := map[string]any{"verifyRawCerts": "accept", "now": time.Now().UTC().String(), "asked_before_and_accepted": op.B("repeat")}
					if len(chain) > 0 {
						handshakes++
						ok, sc, herr := vfC18Handshake(chain, first.priv, hashes)
						gotd["tls_handshake_completes"] = ok
						if ok {
							gotd["server_cert_sha256"] = vfC18Short(sc)
							gotd["server_cert_hash_in_list"] = vfC18Has(hashes, sc)
							what += "; a crypto/tls client configured as in transport.dial completes the handshake with this server"
						} else {
							gotd["tls_error"] = fmt.Sprint(herr)
						}
					}
					gotd["hash_list"] = vfC18Hexes(hashes)
					res.AddMismatch(vfh.Mismatch{Class: cls, What: what, Walk: w.Walk, Step: i, Expected: "reject", Got: gotd, Cfg: op, Prefix: append([]vfh.Op{}, prefix...)})
				}
			})
			res.Count(1, 0)
		}
	}
	if machinery != "" {
		t.Fatalf("machinery: %s", machinery)
	}
	res.Set("behaviours", walksRun)
	res.Set("queries_on_a_cert_accepted_earlier", repeats)
	res.Set("rows_accepted", accepted)
	res.Set("rows_rejected", rejected)
	res.Set("tls_handshakes", handshakes)
	if accepted == 0 || rejected == 0 || repeats == 0 {
		t.Fatalf("vacuous verifier run: %d accepted, %d rejected, %d repeated", accepted, rejected, repeats)
	}
}

// ------------------------------------------------------------------------------------------------
// dial rows over loopback QUIC (real sockets, real clock: no bubble)

func TestVerifC18Dial(t *testing.T) {
	res := vfh.NewResult()
	defer func() {
		if err := res.Write(); err != nil {
			t.Fatal(err)
		}
	}()
	res.Rule = "one case = one (set of certhashes in the dialed address, set of hashes in the server's Noise early data) pair: a real listening transport whose certManager's serialized hashes are overwritten in-package, a real dialing transport, Dial over loopback QUIC; a Dial that completes although the served certificate is not pinned or a used hash is not confirmed is a violation, a refused Dial the table lets complete is L2"
	files, _ := filepath.Glob(filepath.Join(vfh.In(), "*.jsonl"))
	if len(files) == 0 {
		t.Fatalf("no behaviour files in %q", vfh.In())
	}
	newTr := func() (*transport, peer.ID, func()) {
		priv, _, err := ic.GenerateEd25519Key(crand.Reader)
		if err != nil {
			t.Fatal(err)
		}
		id, err := peer.IDFromPrivateKey(priv)
		if err != nil {
			t.Fatal(err)
		}
		cm, err := quicreuse.NewConnManager(quic.StatelessResetKey{}, quic.TokenGeneratorKey{})
		if err != nil {
			t.Fatal(err)
		}
		tr, err := New(priv, nil, cm, nil, &network.NullResourceManager{})
		if err != nil {
			t.Fatal(err)
		}
		return tr.(*transport), id, func() { tr.(io.Closer).Close(); cm.Close() }
	}
	srv, srvID, closeSrv := newTr()
	defer closeSrv()
	cli, _, closeCli := newTr()
	defer closeCli()
	ln, err := srv.Listen(ma.StringCast("/ip4/127.0.0.1/udp/0/quic-v1/webtransport"))
	if err != nil {
		t.Fatalf("listen on loopback: %v", err)
	}
	defer ln.Close()
	go func() {
		for {
			c, err := ln.Accept()
			if err != nil {
				return
			}
			c.Close()
		}
	}()
	cmgr := srv.certManager
	cmgr.mx.RLock()
	cur, next := cmgr.currentConfig.sha256, cmgr.nextConfig.sha256
	orig := append([][]byte{}, cmgr.serializedCertHashes...)
	cmgr.mx.RUnlock()
	// for the "dialchain" rows the server presents <<current, other>>: server certificate = current (its key signs
	// the handshake), followed by another, currently valid certificate whose hash is "bogus"
	plainConf := cmgr.currentConfig
	cc := plainConf.tlsConf.Clone()
	pc := plainConf.tlsConf.Certificates[0]
	otherKey, _, err := ic.GenerateEd25519Key(crand.Reader)
	if err != nil {
		t.Fatal(err)
	}
	other, _, err := generateCert(otherKey, pc.Leaf.NotBefore, pc.Leaf.NotAfter) // somebody else's currently valid certificate
	if err != nil {
		t.Fatal(err)
	}
	cc.Certificates = []tls.Certificate{{Certificate: [][]byte{pc.Certificate[0], other.Raw}, PrivateKey: pc.PrivateKey, Leaf: pc.Leaf}}
	chainConf := &certConfig{tlsConf: cc, sha256: plainConf.sha256}
	defer func() {
		cmgr.mx.Lock()
		cmgr.serializedCertHashes = orig
		cmgr.currentConfig = plainConf
		cmgr.mx.Unlock()
	}()
	bogus := sha256.Sum256(other.Raw) // "bogus" = the hash of that other certificate: never the served one
	enc := map[string][]byte{
		"cur":   vfC18Mh(cur[:], multihash.SHA2_256),
		"next":  vfC18Mh(next[:], multihash.SHA2_256),
		"bogus": vfC18Mh(bogus[:], multihash.SHA2_256),
		"curx":  vfC18Mh(cur[:], multihash.SHA3_256),
	}
	base, _ := ma.SplitFunc(ln.Multiaddr(), func(c ma.Component) bool { return c.Protocol().Code == ma.P_CERTHASH })
	names := func(l []any) []string {
		out := []string{}
		for _, e := range l {
			if s, ok := e.(string); ok {
				out = append(out, s)
			}
		}
		sort.Strings(out)
		return out
	}
	completed, refused := 0, 0
	for _, file := range files {
		_, walks, err := vfh.LoadWalks(file)
		if err != nil {
			t.Fatal(err)
		}
		for _, w := range walks {
			for i, st := range w.Steps {
				op := st.Op
				if op.Name() != "dial" && op.Name() != "dialchain" {
					continue
				}
				chainRow := op.Name() == "dialchain"
				used, list := names(op.L("used")), names(op.L("list"))
				cmgr.mx.Lock()
				if chainRow {
					cmgr.currentConfig = chainConf
				} else {
					cmgr.currentConfig = plainConf
				}
				cmgr.mx.Unlock()
				var sl [][]byte
				for _, n := range list {
					sl = append(sl, enc[n])
				}
				cmgr.mx.Lock()
				cmgr.serializedCertHashes = sl
				cmgr.mx.Unlock()
				var ul [][]byte
				for _, n := range used {
					ul = append(ul, enc[n])
				}
				addr := base
				for _, h := range ul {
					s, _ := multibase.Encode(multibase.Base58BTC, h)
					c, err := ma.NewComponent(ma.ProtocolWithCode(ma.P_CERTHASH).Name, s)
					if err != nil {
						t.Fatalf("certhash component: %v", err)
					}
					addr = addr.AppendComponent(c)
				}
				ctx, cancel := context.WithTimeout(context.Background(), 20*time.Second)
				conn, derr := cli.Dial(ctx, addr, srvID)
				cancel()
				got := derr == nil
				if conn != nil {
					conn.Close()
				}
				if h := sha256.Sum256(cmgr.GetConfig().Certificates[0].Certificate[0]); h != cur {
					t.Fatalf("the server rolled its certificate during the test")
				}
				res.Count(0, 1)
				res.Case(vfh.Canon(op))
				if got {
					completed++
				} else {
					refused++
				}
				exp := op.B("completes")
				cfg := map[string]any{"used": used, "server_early_data": list, "served": "cur"}
				if chainRow {
					cfg["served"] = "chain <<cur, other certificate with hash bogus>>"
					allowed := map[bool]bool{}
					for _, a := range op.L("allowed") {
						if b, ok := a.(bool); ok {
							allowed[b] = true
						}
					}
					if got && !allowed[true] {
						cls, what := "dial-completes-with-unconfirmed-hash", "Dial completes although the server's Noise early data does not list every certhash the dialer used"
						if !vfC18In(used, "cur") {
							cls, what = "verifier-pins-last-chain-cert-not-server-cert", "Dial over loopback QUIC completes with a server presenting <<its certificate, another certificate>> although the SHA-256 of the server certificate is in no certhash of the dialed address (only the second certificate's is)"
						}
						res.AddMismatch(vfh.Mismatch{Class: cls, What: what, Walk: w.Walk, Step: i, Expected: "refused", Got: "completed", Cfg: cfg})
					}
					continue
				}
				switch {
				case got && !exp && !op.B("tls"):
					res.AddMismatch(vfh.Mismatch{Class: "dial-completes-with-unpinned-cert", What: "Dial completes although the served certificate's SHA-256 is not among the SHA-256 certhashes of the dialed address",
						Walk: w.Walk, Step: i, Expected: "refused", Got: "completed", Cfg: cfg})
				case got && !exp:
					res.AddMismatch(vfh.Mismatch{Class: "dial-completes-with-unconfirmed-hash", What: "Dial completes although the server's Noise early data does not list every certhash the dialer used",
						Walk: w.Walk, Step: i, Expected: "refused", Got: "completed", Cfg: cfg})
				case !got && exp:
					res.AddMismatch(vfh.Mismatch{Class: "L2:dial-refused", What: "Dial fails although the certificate is pinned and every used hash is confirmed: " + strings.ReplaceAll(fmt.Sprint(derr), "\n", " "),
						Walk: w.Walk, Step: i, Expected: "completed", Got: "refused", Cfg: cfg})
				}
			}
		}
	}
	res.Count(1, 0)
	res.Set("dials_completed", completed)
	res.Set("dials_refused", refused)
	if completed == 0 || refused == 0 {
		t.Fatalf("vacuous dial run: %d completed, %d refused", completed, refused)
	}
}
