//go:build verif

package conngater_test

// C10, composition with real swarms.  A gated swarm "pa" (real BasicConnectionGater behind a recording
// pass-through, over the crash-able datastore) listens on 127.0.0.1 and ::1 (TCP + QUIC); three remotes
// p2 @ 127.0.0.2, p3 @ 127.0.0.3 and p6 @ ::1 listen on their own loopback address and dial FROM it
// (TCP: a dialer bound to the address, QUIC: quicreuse source-IP selector -> the listening socket).
// Walks of the Exclusive instance of spec/C10_Gater.tla are executed: the rule calls (with crashes and
// reopening) on the real gater, every attempt of the model as a real DialPeer in the given direction over
// the given transport.  L1 = on the gated host no Connected notification / ConnsToPeer entry for a remote
// matched by a rule the ledger says is blocked, and for outbound attempts no transport Dial call (recording
// transport) and no inbound attempt at the remote (its recording gater).  A network time-out is reported as
// a machinery failure, never as a verdict.

import (
	"context"
	"errors"
	"fmt"
	"io"
	"net"
	"path/filepath"
	"sort"
	"strings"
	"sync"
	"sync/atomic"
	"testing"
	"time"

	"github.com/libp2p/go-libp2p/core/connmgr"
	"github.com/libp2p/go-libp2p/core/control"
	"github.com/libp2p/go-libp2p/core/network"
	"github.com/libp2p/go-libp2p/core/peer"
	"github.com/libp2p/go-libp2p/core/sec"
	"github.com/libp2p/go-libp2p/core/transport"
	"github.com/libp2p/go-libp2p/internal/vfh"
	"github.com/libp2p/go-libp2p/p2p/host/eventbus"
	"github.com/libp2p/go-libp2p/p2p/host/peerstore/pstoremem"
	"github.com/libp2p/go-libp2p/p2p/muxer/yamux"
	"github.com/libp2p/go-libp2p/p2p/net/swarm"
	tptu "github.com/libp2p/go-libp2p/p2p/net/upgrader"
	"github.com/libp2p/go-libp2p/p2p/security/noise"
	libp2pquic "github.com/libp2p/go-libp2p/p2p/transport/quic"
	"github.com/libp2p/go-libp2p/p2p/transport/quicreuse"
	"github.com/libp2p/go-libp2p/p2p/transport/tcp"
	"github.com/libp2p/go-libp2p/p2p/transport/websocket"
	ma "github.com/multiformats/go-multiaddr"
	manet "github.com/multiformats/go-multiaddr/net"
	"github.com/quic-go/quic-go"
)

const vfC10NetWait = 20 * time.Second

// ---------------------------------------------------------------------------------------------
// recorders

type vfC10GateRec struct {
	Fn    string `json:"fn"`
	Peer  string `json:"peer,omitempty"`
	Addr  string `json:"addr,omitempty"`
	Allow bool   `json:"allow"`
}

type vfC10RecGater struct {
	mu   sync.Mutex
	log  []vfC10GateRec
	real func() connmgr.ConnectionGater // nil result = no gater (allow)
}

func (g *vfC10RecGater) rec(fn string, p peer.ID, a ma.Multiaddr, allow bool) bool {
	r := vfC10GateRec{Fn: fn, Allow: allow}
	if p != "" {
		r.Peer = vfC10PeerName[p]
		if r.Peer == "" {
			r.Peer = p.String()
		}
	}
	if a != nil {
		r.Addr = a.String()
	}
	g.mu.Lock()
	g.log = append(g.log, r)
	g.mu.Unlock()
	return allow
}
func (g *vfC10RecGater) inner() connmgr.ConnectionGater {
	if g.real == nil {
		return nil
	}
	return g.real()
}
func (g *vfC10RecGater) InterceptPeerDial(p peer.ID) bool {
	in := g.inner()
	return g.rec("peerdial", p, nil, in == nil || in.InterceptPeerDial(p))
}
func (g *vfC10RecGater) InterceptAddrDial(p peer.ID, a ma.Multiaddr) bool {
	in := g.inner()
	return g.rec("addrdial", p, a, in == nil || in.InterceptAddrDial(p, a))
}
func (g *vfC10RecGater) InterceptAccept(c network.ConnMultiaddrs) bool {
	in := g.inner()
	return g.rec("accept", "", c.RemoteMultiaddr(), in == nil || in.InterceptAccept(c))
}
func (g *vfC10RecGater) InterceptSecured(d network.Direction, p peer.ID, c network.ConnMultiaddrs) bool {
	in := g.inner()
	fn := "secured-in"
	if d == network.DirOutbound {
		fn = "secured-out"
	}
	return g.rec(fn, p, c.RemoteMultiaddr(), in == nil || in.InterceptSecured(d, p, c))
}
func (g *vfC10RecGater) InterceptUpgraded(c network.Conn) (bool, control.DisconnectReason) {
	in := g.inner()
	if in == nil {
		return g.rec("upgraded", c.RemotePeer(), c.RemoteMultiaddr(), true), 0
	}
	ok, why := in.InterceptUpgraded(c)
	return g.rec("upgraded", c.RemotePeer(), c.RemoteMultiaddr(), ok), why
}
func (g *vfC10RecGater) take() []vfC10GateRec {
	g.mu.Lock()
	defer g.mu.Unlock()
	out := g.log
	g.log = nil
	return out
}
func (g *vfC10RecGater) peek() []vfC10GateRec {
	g.mu.Lock()
	defer g.mu.Unlock()
	return append([]vfC10GateRec(nil), g.log...)
}

type vfC10RecTransport struct {
	transport.Transport
	dials atomic.Int64
	mu    sync.Mutex
	last  string
}

func (t *vfC10RecTransport) Dial(ctx context.Context, raddr ma.Multiaddr, p peer.ID) (transport.CapableConn, error) {
	t.dials.Add(1)
	t.mu.Lock()
	t.last = raddr.String()
	t.mu.Unlock()
	return t.Transport.Dial(ctx, raddr, p)
}

type vfC10NotifEv struct {
	connected bool
	peer      peer.ID
	raddr     string
	inbound   bool
}

type vfC10Notif struct {
	mu  sync.Mutex
	evs []vfC10NotifEv
}

func (n *vfC10Notif) add(connected bool, c network.Conn) {
	n.mu.Lock()
	n.evs = append(n.evs, vfC10NotifEv{connected, c.RemotePeer(), c.RemoteMultiaddr().String(), c.Stat().Direction == network.DirInbound})
	n.mu.Unlock()
}
func (n *vfC10Notif) count(connected bool, p peer.ID, from int) (int, string) {
	n.mu.Lock()
	defer n.mu.Unlock()
	c, addr := 0, ""
	for _, e := range n.evs[from:] {
		if e.connected == connected && e.peer == p {
			c++
			addr = e.raddr
		}
	}
	return c, addr
}
func (n *vfC10Notif) mark() int {
	n.mu.Lock()
	defer n.mu.Unlock()
	return len(n.evs)
}

type vfC10Resolver struct{ names map[string]string }

func (r *vfC10Resolver) ResolveDNSAddr(context.Context, peer.ID, ma.Multiaddr, int, int) ([]ma.Multiaddr, error) {
	return nil, errors.New("verif: no dnsaddr records")
}
func (r *vfC10Resolver) ResolveDNSComponent(_ context.Context, a ma.Multiaddr, _ int) ([]ma.Multiaddr, error) {
	parts := strings.SplitN(a.String(), "/", 4) // "", dns4, name, rest
	if len(parts) < 3 {
		return nil, fmt.Errorf("verif: cannot resolve %s", a)
	}
	ip, ok := r.names[parts[2]]
	if !ok {
		return nil, fmt.Errorf("verif: unknown name %s", parts[2])
	}
	out := "/ip4/" + ip
	if strings.Contains(ip, ":") {
		out = "/ip6/" + ip
	}
	if len(parts) == 4 {
		out += "/" + parts[3]
	}
	m, err := ma.NewMultiaddr(out)
	if err != nil {
		return nil, err
	}
	return []ma.Multiaddr{m}, nil
}

type vfC10SrcSel struct{ ip4, ip6 net.IP }

func (s vfC10SrcSel) PreferredSourceIPForDestination(dst *net.UDPAddr) (net.IP, error) {
	if dst.IP.To4() != nil {
		if s.ip4 != nil {
			return s.ip4, nil
		}
	} else if s.ip6 != nil {
		return s.ip6, nil
	}
	return nil, errors.New("verif: no source address of that family")
}

// ---------------------------------------------------------------------------------------------
// hosts

type vfC10Host struct {
	name     string
	id       peer.ID
	ip4, ip6 net.IP
	sw       *swarm.Swarm
	gate     *vfC10RecGater
	tcpT     *vfC10RecTransport
	quicT    *vfC10RecTransport
	wsT      *vfC10RecTransport
	notif    *vfC10Notif
	listen   map[string]ma.Multiaddr // "4tcp", "4quic", "4ws", "6tcp", "6quic", "6ws"
	closers  []io.Closer
}

func (h *vfC10Host) dials() int64 {
	return h.tcpT.dials.Load() + h.quicT.dials.Load() + h.wsT.dials.Load()
}

func vfC10NewHost(name, ip4, ip6 string, real func() connmgr.ConnectionGater, resolver network.MultiaddrDNSResolver) (*vfC10Host, error) {
	idn := vfC10Ids()[name]
	h := &vfC10Host{name: name, id: idn.id, gate: &vfC10RecGater{real: real}, notif: &vfC10Notif{}, listen: map[string]ma.Multiaddr{}}
	if ip4 != "" {
		h.ip4 = net.ParseIP(ip4)
	}
	if ip6 != "" {
		h.ip6 = net.ParseIP(ip6)
	}
	ps, err := pstoremem.NewPeerstore()
	if err != nil {
		return nil, err
	}
	h.closers = append(h.closers, ps)
	if err := ps.AddPubKey(idn.id, idn.priv.GetPublic()); err != nil {
		return nil, err
	}
	if err := ps.AddPrivKey(idn.id, idn.priv); err != nil {
		return nil, err
	}
	opts := []swarm.Option{swarm.WithConnectionGater(h.gate)}
	if resolver != nil {
		opts = append(opts, swarm.WithMultiaddrResolver(resolver))
	}
	h.sw, err = swarm.NewSwarm(idn.id, ps, eventbus.NewBus(), opts...)
	if err != nil {
		return nil, err
	}
	muxers := []tptu.StreamMuxer{{ID: yamux.ID, Muxer: yamux.DefaultTransport}}
	sec1, err := noise.New(noise.ID, idn.priv, muxers)
	if err != nil {
		return nil, err
	}
	up, err := tptu.New([]sec.SecureTransport{sec1}, muxers, nil, nil, h.gate)
	if err != nil {
		return nil, err
	}
	tcpT, err := tcp.NewTCPTransport(up, nil, nil, tcp.DisableReuseport(),
		tcp.WithDialerForAddr(func(raddr ma.Multiaddr) (tcp.ContextDialer, error) {
			local := h.ip4
			if c, _ := ma.SplitFirst(raddr); c != nil && c.Protocol().Code == ma.P_IP6 {
				local = h.ip6
			}
			d := &net.Dialer{}
			if local != nil {
				d.LocalAddr = &net.TCPAddr{IP: local}
			}
			return d, nil
		}))
	if err != nil {
		return nil, err
	}
	h.tcpT = &vfC10RecTransport{Transport: tcpT}
	sel := vfC10SrcSel{h.ip4, h.ip6}
	reuse, err := quicreuse.NewConnManager(quic.StatelessResetKey{}, quic.TokenGeneratorKey{},
		quicreuse.OverrideSourceIPSelector(func() (quicreuse.SourceIPSelector, error) { return sel, nil }))
	if err != nil {
		return nil, err
	}
	quicT, err := libp2pquic.NewTransport(idn.priv, reuse, nil, h.gate, nil)
	if err != nil {
		return nil, err
	}
	h.quicT = &vfC10RecTransport{Transport: quicT}
	if c, ok := quicT.(io.Closer); ok {
		h.closers = append(h.closers, c)
	}
	h.closers = append(h.closers, reuse)
	if err := h.sw.AddTransport(h.tcpT); err != nil {
		return nil, err
	}
	if err := h.sw.AddTransport(h.quicT); err != nil {
		return nil, err
	}
	// WebSocket shares the upgrader (gated listener, InterceptSecured); its dialer cannot be bound to a source
	// address, so only attempts whose source the kernel picks as wanted are run over it
	wsT, err := websocket.New(up, nil, nil)
	if err != nil {
		return nil, err
	}
	h.wsT = &vfC10RecTransport{Transport: wsT}
	if err := h.sw.AddTransport(h.wsT); err != nil {
		return nil, err
	}
	var las []ma.Multiaddr
	if h.ip4 != nil {
		las = append(las, ma.StringCast("/ip4/"+ip4+"/tcp/0"), ma.StringCast("/ip4/"+ip4+"/udp/0/quic-v1"), ma.StringCast("/ip4/"+ip4+"/tcp/0/ws"))
	}
	if h.ip6 != nil {
		las = append(las, ma.StringCast("/ip6/"+ip6+"/tcp/0"), ma.StringCast("/ip6/"+ip6+"/udp/0/quic-v1"), ma.StringCast("/ip6/"+ip6+"/tcp/0/ws"))
	}
	if err := h.sw.Listen(las...); err != nil {
		return nil, fmt.Errorf("%s: listen %v: %w", name, las, err)
	}
	for _, a := range h.sw.ListenAddresses() {
		fam := "4"
		if c, _ := ma.SplitFirst(a); c != nil && c.Protocol().Code == ma.P_IP6 {
			fam = "6"
		}
		t := "tcp"
		if _, err := a.ValueForProtocol(ma.P_QUIC_V1); err == nil {
			t = "quic"
		}
		if _, err := a.ValueForProtocol(ma.P_WS); err == nil {
			t = "ws"
		}
		h.listen[fam+t] = a
	}
	if len(h.listen) != len(las) {
		return nil, fmt.Errorf("%s: listening on %v, wanted %v", name, h.sw.ListenAddresses(), las)
	}
	h.sw.Notify(&network.NotifyBundle{
		ConnectedF:    func(_ network.Network, c network.Conn) { h.notif.add(true, c) },
		DisconnectedF: func(_ network.Network, c network.Conn) { h.notif.add(false, c) },
	})
	return h, nil
}

func (h *vfC10Host) close() {
	h.sw.Close()
	for _, c := range h.closers {
		c.Close()
	}
}

// ---------------------------------------------------------------------------------------------

type vfC10Net struct {
	a      *vfC10Host
	remote map[string]*vfC10Host // by peer name
	sys    atomic.Pointer[vfC10Sys]
	res    *vfh.Result
	rnd    *vfC10Rand
	stats  map[string]int
}

func vfC10WaitFor(what string, cond func() bool) error {
	deadline := time.Now().Add(vfC10NetWait)
	for !cond() {
		if time.Now().After(deadline) {
			return fmt.Errorf("time-out waiting for %s", what)
		}
		time.Sleep(time.Millisecond)
	}
	return nil
}

func vfC10IPOf(addr string) string {
	m, err := ma.NewMultiaddr(addr)
	if err != nil {
		return ""
	}
	ip, err := manet.ToIP(m)
	if err != nil {
		return ""
	}
	return ip.String()
}

type vfC10NetOutcome struct {
	Admitted       bool           `json:"admitted"`        // the gated host had the connection (notification or ConnsToPeer)
	DialErr        string         `json:"dial_err"`        // what the dialer's DialPeer returned
	TransportDials int64          `json:"transport_dials"` // outbound: Dial calls on the gated host's transports
	RemoteAccepts  int            `json:"remote_accepts"`  // outbound: accept consultations at the remote
	GateLog        []vfC10GateRec `json:"gate_log"`        // consultations of the gated host's gater, in order
	RefusedAt      string         `json:"refused_at"`      // first refusing consultation
	GaterRefusal   bool           `json:"gater_refusal"`   // the failure is attributable to the gater
	Addr           string         `json:"addr"`            // address dialled
	SeenIP         string         `json:"seen_ip"`         // remote IP as the gated host's gater saw it
}

// attempt performs one real connection attempt and leaves no connection behind.
func (n *vfC10Net) attempt(dir, peerName, tpt, form string) (vfC10NetOutcome, error) {
	var out vfC10NetOutcome
	a, x := n.a, n.remote[peerName]
	if x == nil {
		return out, fmt.Errorf("no remote %s", peerName)
	}
	fam := "4"
	if x.ip4 == nil {
		fam = "6"
	}
	a.gate.take()
	x.gate.take()
	am, xm := a.notif.mark(), x.notif.mark()
	dials0 := a.dials()
	ctx, cancel := context.WithTimeout(context.Background(), vfC10NetWait)
	defer cancel()
	var err error
	if dir == "out" {
		target := x.listen[fam+tpt]
		text := target.String()
		switch form {
		case "p2p":
			text += "/p2p/" + x.id.String()
		case "dns":
			rest := strings.SplitN(text, "/", 4)[3]
			text = "/dns" + fam + "/" + peerName + ".vf.test/" + rest
		case "mapped":
			rest := strings.SplitN(text, "/", 4)[3]
			text = "/ip6/::ffff:" + x.ip4.String() + "/" + rest
		}
		out.Addr = text
		a.sw.Peerstore().ClearAddrs(x.id)
		a.sw.Peerstore().AddAddr(x.id, ma.StringCast(text), time.Hour)
		_, err = a.sw.DialPeer(ctx, x.id)
	} else {
		target := a.listen[fam+tpt]
		out.Addr = target.String()
		x.sw.Peerstore().ClearAddrs(a.id)
		x.sw.Peerstore().AddAddr(a.id, target, time.Hour)
		_, err = x.sw.DialPeer(ctx, a.id)
	}
	if err != nil {
		out.DialErr = err.Error()
		if errors.Is(err, context.DeadlineExceeded) {
			return out, fmt.Errorf("%s %s %s: DialPeer timed out: %v", dir, peerName, tpt, err)
		}
	}
	refusal := func() string {
		for _, r := range a.gate.peek() {
			if !r.Allow {
				return r.Fn
			}
		}
		return ""
	}
	aConnected := func() bool {
		c, _ := a.notif.count(true, x.id, am)
		return c > 0 || len(a.sw.ConnsToPeer(x.id)) > 0
	}
	if err == nil {
		// the dialer believes it is connected: the gated host either admits the connection, or its gater
		// refuses it, or the connection dies
		werr := vfC10WaitFor("the gated host to decide", func() bool {
			if aConnected() || refusal() != "" {
				return true
			}
			if dir == "in" {
				c, _ := x.notif.count(false, a.id, xm)
				return c > 0
			}
			return false
		})
		if werr != nil {
			return out, fmt.Errorf("%s %s %s: %v", dir, peerName, tpt, werr)
		}
	}
	out.Admitted = aConnected()
	out.RefusedAt = refusal()
	out.GaterRefusal = out.RefusedAt != "" || (err != nil && errors.Is(err, swarm.ErrGaterDisallowedConnection))
	out.TransportDials = a.dials() - dials0
	for _, r := range x.gate.peek() {
		if r.Fn == "accept" {
			out.RemoteAccepts++
		}
	}
	// tear down and wait until both swarms are quiet again
	for _, c := range a.sw.ConnsToPeer(x.id) {
		c.Close()
	}
	x.sw.ClosePeer(a.id)
	a.sw.ClosePeer(x.id)
	werr := vfC10WaitFor("both swarms to drop the connection", func() bool {
		if len(a.sw.ConnsToPeer(x.id)) > 0 || len(x.sw.ConnsToPeer(a.id)) > 0 {
			return false
		}
		ac, _ := a.notif.count(true, x.id, am)
		ad, _ := a.notif.count(false, x.id, am)
		xc, _ := x.notif.count(true, a.id, xm)
		xd, _ := x.notif.count(false, a.id, xm)
		return ac == ad && xc == xd
	})
	if werr != nil {
		return out, fmt.Errorf("%s %s %s: %v", dir, peerName, tpt, werr)
	}
	if c, _ := a.notif.count(true, x.id, am); c > 0 {
		out.Admitted = true
	}
	a.sw.Backoff().Clear(x.id)
	x.sw.Backoff().Clear(a.id)
	out.GateLog = a.gate.take()
	for _, r := range out.GateLog {
		if (r.Fn == "accept" || r.Fn == "addrdial") && out.SeenIP == "" {
			out.SeenIP = vfC10IPOf(r.Addr)
		}
	}
	return out, nil
}

// quiesce drops whatever is left between the gated host and one remote
func (n *vfC10Net) quiesce(peerName string) {
	a, x := n.a, n.remote[peerName]
	if x == nil {
		return
	}
	a.sw.ClosePeer(x.id)
	x.sw.ClosePeer(a.id)
	_ = vfC10WaitFor("quiescence", func() bool {
		return len(a.sw.ConnsToPeer(x.id)) == 0 && len(x.sw.ConnsToPeer(a.id)) == 0
	})
	time.Sleep(50 * time.Millisecond)
	a.sw.Backoff().Clear(x.id)
	x.sw.Backoff().Clear(a.id)
	a.gate.take()
	x.gate.take()
}

func vfC10NetSetup() (*vfC10Net, error) {
	n := &vfC10Net{remote: map[string]*vfC10Host{}, stats: map[string]int{}}
	res := &vfC10Resolver{names: map[string]string{"p2.vf.test": "127.0.0.2", "p3.vf.test": "127.0.0.3", "p6.vf.test": "::1"}}
	var err error
	n.a, err = vfC10NewHost("pa", "127.0.0.1", "::1", func() connmgr.ConnectionGater {
		if s := n.sys.Load(); s != nil {
			if g := s.g.Load(); g != nil {
				return g
			}
		}
		return nil
	}, res)
	if err != nil {
		return nil, err
	}
	for _, r := range []struct{ name, ip4, ip6 string }{{"p2", "127.0.0.2", ""}, {"p3", "127.0.0.3", ""}, {"p6", "", "::1"}} {
		h, err := vfC10NewHost(r.name, r.ip4, r.ip6, nil, nil)
		if err != nil {
			return nil, err
		}
		n.remote[r.name] = h
	}
	return n, nil
}

func (n *vfC10Net) close() {
	n.a.close()
	for _, h := range n.remote {
		h.close()
	}
}

// judge compares one real attempt with the model's outcome and with the ledger.
func (n *vfC10Net) judge(s *vfC10Sys, op vfh.Op, form string, expStages []string, out vfC10NetOutcome) error {
	dir, p, ip, tpt := op.S("dir"), op.S("peer"), op.S("ip"), op.S("tpt")
	var in, free []string
	someOut := false
	for _, r := range s.matching(p, ip) {
		switch s.must[r] {
		case "in":
			in = append(in, r)
		case "free":
			free = append(free, r)
		case "out":
			someOut = true
		}
	}
	desc := fmt.Sprintf("%sbound %s attempt with %s (%s) addr %s", dir, tpt, p, vfC10IPs[ip], out.Addr)
	// the remote must have appeared with the address the model speaks about
	if out.SeenIP != "" && out.SeenIP != net.ParseIP(vfC10IPs[ip]).String() {
		return fmt.Errorf("%s: the gated host saw the remote as %s (source address not under control)", desc, out.SeenIP)
	}
	if len(in) > 0 {
		k := vfC10Kind(in[0])
		if out.Admitted {
			s.mismatch(fmt.Sprintf("blocked-admitted:net:%s:%s:%s", dir, k, tpt),
				fmt.Sprintf("rule %v blocked, %s: the gated swarm had a connection (Connected notification / ConnsToPeer)", in, desc), "refused", out)
		}
		if dir == "out" && (out.TransportDials > 0 || out.RemoteAccepts > 0) {
			s.mismatch(fmt.Sprintf("blocked-transport-dial:net:%s:%s", k, tpt),
				fmt.Sprintf("rule %v blocked, %s: %d transport Dial call(s), %d accept(s) at the remote", in, desc, out.TransportDials, out.RemoteAccepts), "no dial", out)
		}
	}
	if len(in) == 0 && len(free) == 0 && !out.Admitted {
		if out.GaterRefusal {
			cls := fmt.Sprintf("unblocked-refused:net:%s:%s", dir, tpt)
			if !someOut {
				cls = "L2:net:never-blocked-refused"
			}
			s.mismatch(cls,
				fmt.Sprintf("no matching rule blocked, %s: refused by the gater at %q (%s)", desc, out.RefusedAt, out.DialErr), "admitted", out)
		} else if form != "mapped" {
			return fmt.Errorf("%s failed for a reason that is not the gater: %s", desc, out.DialErr)
		}
	}
	// model conformance (L2): outcome, refusing stage, consultation order
	wantAdmitted := op.S("end") == "admitted"
	if wantAdmitted != out.Admitted && form != "mapped" {
		s.mismatch("L2:net:outcome", fmt.Sprintf("%s: admitted=%v, model %s at %s", desc, out.Admitted, op.S("end"), op.S("stage")), op.S("end"), out)
	}
	if !wantAdmitted && !out.Admitted {
		want := op.S("stage")
		if want == "secured" {
			want = "secured-" + dir
		}
		if out.RefusedAt != want {
			s.mismatch("L2:net:refusing-stage", fmt.Sprintf("%s: refused at %q, model at %q", desc, out.RefusedAt, want), want, out)
		}
	}
	var got []string
	for _, r := range out.GateLog {
		fn := r.Fn
		if strings.HasPrefix(fn, "secured") {
			fn = "secured"
		}
		got = append(got, fn)
	}
	var want []string
	for _, st := range expStages {
		if st != "tdial" {
			want = append(want, st)
		}
	}
	if strings.Join(got, ",") != strings.Join(want, ",") {
		s.mismatch("L2:net:consultation-order", fmt.Sprintf("%s: consultations %v, model %v", desc, got, want), want, got)
	}
	return nil
}

func TestVerifC10Net(t *testing.T) {
	files, _ := filepath.Glob(filepath.Join(vfh.In(), "*.jsonl"))
	if len(files) == 0 {
		t.Fatal("no behaviour files in VERIF_IN")
	}
	sort.Strings(files)
	res := vfh.NewResult()
	res.Rule = "each walk: rule calls / crashes / reopening on the real gater behind the gated swarm, each model attempt as a real DialPeer (direction, transport); L1 on the gated host's notifications, ConnsToPeer, transport Dial calls and the remote's accepts"
	n, err := vfC10NetSetup()
	if err != nil {
		t.Fatalf("cannot set up the loopback swarms: %v", err)
	}
	defer n.close()
	n.res = res
	forms := vfC10Forms()
	stats := map[string]int{}
	listen := map[string]string{}
	for k, v := range n.a.listen {
		listen["pa/"+k] = v.String()
	}
	for nm, h := range n.remote {
		for k, v := range h.listen {
			listen[nm+"/"+k] = v.String()
		}
	}
	res.Set("listen_addrs", listen)
	for _, fn := range files {
		hdr, walks, err := vfh.LoadWalks(fn)
		if err != nil {
			t.Fatal(err)
		}
		conf, name, err := vfC10LoadConf(hdr)
		if err != nil {
			t.Fatal(err)
		}
		if !conf.Exclusive {
			t.Fatal("the network composition needs an Exclusive instance")
		}
		for _, w := range walks {
			sys, err := vfC10NewSys(conf, res, forms, uint64(vfh.Seed())*999983+uint64(w.Walk)*104729)
			if err != nil {
				t.Fatal(err)
			}
			sys.inst, sys.walk, sys.step = name, w.Walk, -1
			n.sys.Store(sys)
			st0, err := vfC10ParseState(w.Init)
			if err != nil {
				t.Fatal(err)
			}
			if err := sys.check(st0); err != nil {
				t.Fatal(err)
			}
			var stages []string
			for i, stp := range w.Steps {
				sys.step = i
				sys.prefix = append(sys.prefix, stp.Op)
				op := stp.Op
				switch op.Name() {
				case "att_start":
					stages = nil
				case "att_step":
					stages = append(stages, op.S("stage"))
					if op.S("end") == "-" {
						break
					}
					if op.S("tpt") == "ws" && op.S("dir") == "in" && n.remote[op.S("peer")].ip4 != nil {
						stats["attempts_skipped_ws_source_not_bindable"]++
						break
					}
					form := "plain"
					if op.S("dir") == "out" {
						switch k := sys.rnd.intn(4); {
						case k == 1:
							form = "p2p"
						case k == 2:
							form = "dns"
						case k == 3 && op.S("end") == "refused" && op.S("stage") == "addrdial" && op.S("ip") != "i6":
							form = "mapped" // dialable only as far as the gater; used where the gater has to stop it
						}
					}
					out, err := n.attempt(op.S("dir"), op.S("peer"), op.S("tpt"), form)
					for try := 0; err != nil && try < 2; try++ {
						// a network hiccup (time-out) is machinery: quiesce and try again before giving up
						t.Logf("%s walk %d step %d: %v (retrying)", name, w.Walk, i, err)
						stats["attempt_retries"]++
						n.quiesce(op.S("peer"))
						out, err = n.attempt(op.S("dir"), op.S("peer"), op.S("tpt"), form)
					}
					if err != nil {
						t.Fatalf("%s walk %d step %d: %v", name, w.Walk, i, err)
					}
					if err := n.judge(sys, op, form, stages, out); err != nil {
						// one more try before calling it a machinery failure
						out, err2 := n.attempt(op.S("dir"), op.S("peer"), op.S("tpt"), form)
						if err2 != nil {
							t.Fatalf("%s walk %d step %d: %v", name, w.Walk, i, err2)
						}
						if err3 := n.judge(sys, op, form, stages, out); err3 != nil {
							t.Fatalf("%s walk %d step %d: %v (first try: %v)", name, w.Walk, i, err3, err)
						}
					}
					stats["attempts"]++
					stats["attempts_"+op.S("dir")]++
					stats["attempts_"+op.S("tpt")]++
					stats["attempts_form_"+form]++
					if out.Admitted {
						stats["attempts_admitted"]++
					} else {
						stats["attempts_refused"]++
						stats["attempts_refused_at_"+out.RefusedAt]++
					}
					res.Case(fmt.Sprintf("%s|%v|%s|%s|%s|%s", name, sys.lastListed, op.S("dir"), op.S("peer"), op.S("tpt"), form))
					if stats["attempts"] <= 3 {
						res.Sample(map[string]any{"attempt": op, "form": form, "outcome": out})
					}
				default:
					if err := sys.apply(op); err != nil {
						t.Fatalf("%s walk %d step %d %v: %v", name, w.Walk, i, op, err)
					}
					st, err := vfC10ParseState(stp.State)
					if err != nil {
						t.Fatal(err)
					}
					st.Att.K = 0
					if err := sys.check(st); err != nil {
						t.Fatalf("%s walk %d step %d %v: %v", name, w.Walk, i, op, err)
					}
					stats["rule_steps"]++
					if op.Name() == "reopen" {
						stats["reopens"]++
					}
				}
			}
			sys.close()
			res.Count(1, len(w.Steps))
		}
	}
	for k, v := range stats {
		res.Set(k, v)
	}
	if err := res.Write(); err != nil {
		t.Fatal(err)
	}
}
