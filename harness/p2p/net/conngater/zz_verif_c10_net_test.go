//go:build verif

package conngater_test

// C10, composition with real swarms, consultation by consultation.
//
// A gated swarm "pa" (real BasicConnectionGater behind a recording wrapper, over the crash-able datastore)
// listens on 127.0.0.1 and ::1 (TCP, QUIC, WebSocket, WebTransport, WebRTC-direct); three remotes
// p2 @ 127.0.0.2, p3 @ 127.0.0.3 and p6 @ ::1 listen on their own loopback address and dial FROM it
// (TCP: a dialer bound to the address, QUIC/WebTransport: quicreuse source-IP selector -> the listening
// socket; WebSocket and WebRTC cannot be bound, they are used from ::1 only).
//
// Walks of spec/C10_Gater.tla are executed action by action.  The recording wrapper of the gated host's
// gater STOPS every Intercept* call before it is answered, the recording wrappers of its transports stop
// every Dial, and the harness releases them one at a time as the model's att_step actions say: so the model's
// interleavings of rule calls with the stages of an attempt (a block that lands between InterceptPeerDial
// and the transport dial, between the start of a hole punch and the arrival of the remote's connection ...)
// are realised on the real swarm, and the log proves which Intercept* function was called with which
// direction, in which order.  An attempt starts from what the model says the swarm already holds for the
// peer (nothing / a relayed connection: WebSocket transport reporting Proxy()==true and Limited / a direct
// one; set up with the wrapper in by-pass, i.e. "admitted before the block") and is made the way the model
// says (DialPeer plain / ForceDirectDial / SimultaneousConnect client or server / both; NewStream with
// NoDial / AllowLimitedConn).  A QUIC dial as simultaneous-connect server is a real hole punch: the remote
// dials the gated host's listener from the punched address.
//
// L1 (from the harness's own ledger of returned calls): once a matching Block* call has returned and while
// it is not undone, no NEW connection appears on the gated host (Connected notification / ConnsToPeer /
// returned by DialPeer) and no transport Dial is called; the same for a rule in force at every consultation
// of the connection (for a connection arriving at a listener: from its arrival on).  A network time-out is a
// machinery failure, never a verdict.

import (
	"context"
	"errors"
	"fmt"
	"io"
	"net"
	"path/filepath"
	"sort"
	"strings"
	"sync"
	"sync/atomic"
	"testing"
	"time"

	"github.com/libp2p/go-libp2p/core/connmgr"
	"github.com/libp2p/go-libp2p/core/control"
	"github.com/libp2p/go-libp2p/core/network"
	"github.com/libp2p/go-libp2p/core/peer"
	"github.com/libp2p/go-libp2p/core/sec"
	"github.com/libp2p/go-libp2p/core/transport"
	"github.com/libp2p/go-libp2p/internal/vfh"
	"github.com/libp2p/go-libp2p/p2p/host/eventbus"
	"github.com/libp2p/go-libp2p/p2p/host/peerstore/pstoremem"
	"github.com/libp2p/go-libp2p/p2p/muxer/yamux"
	"github.com/libp2p/go-libp2p/p2p/net/swarm"
	tptu "github.com/libp2p/go-libp2p/p2p/net/upgrader"
	"github.com/libp2p/go-libp2p/p2p/security/noise"
	libp2pquic "github.com/libp2p/go-libp2p/p2p/transport/quic"
	"github.com/libp2p/go-libp2p/p2p/transport/quicreuse"
	"github.com/libp2p/go-libp2p/p2p/transport/tcp"
	libp2pwebrtc "github.com/libp2p/go-libp2p/p2p/transport/webrtc"
	"github.com/libp2p/go-libp2p/p2p/transport/websocket"
	libp2pwebtransport "github.com/libp2p/go-libp2p/p2p/transport/webtransport"
	ma "github.com/multiformats/go-multiaddr"
	manet "github.com/multiformats/go-multiaddr/net"
	"github.com/quic-go/quic-go"
)

const vfC10NetWait = 20 * time.Second

// ---------------------------------------------------------------------------------------------
// stop points and recorders

type vfC10Event struct {
	stage   string // peerdial addrdial accept secured_in secured_out upgraded tdial
	peer    string
	addr    string
	release chan struct{}
	done    chan bool // the answer (tdial: true)
}

// vfC10StepCtl: while armed, consultations and dials of the gated host stop and wait for the harness
type vfC10StepCtl struct {
	events chan *vfC10Event
}

func (c *vfC10StepCtl) stop(stage string, p peer.ID, a ma.Multiaddr) *vfC10Event {
	if c == nil {
		return nil
	}
	ev := &vfC10Event{stage: stage, release: make(chan struct{}), done: make(chan bool, 1)}
	if p != "" {
		ev.peer = vfC10PeerName[p]
	}
	if a != nil {
		ev.addr = a.String()
	}
	select {
	case c.events <- ev:
	default:
		return nil // nobody can be listening to that many stops: do not hold the swarm up
	}
	select {
	case <-ev.release:
	case <-time.After(vfC10NetWait):
	}
	return ev
}

type vfC10GateRec struct {
	Fn    string `json:"fn"`
	Peer  string `json:"peer,omitempty"`
	Addr  string `json:"addr,omitempty"`
	Allow bool   `json:"allow"`
}

type vfC10RecGater struct {
	mu     sync.Mutex
	log    []vfC10GateRec
	real   func() connmgr.ConnectionGater // nil result = no gater (allow)
	ctl    atomic.Pointer[vfC10StepCtl]
	bypass atomic.Bool // scaffolding: the connection being set up was "admitted before the block"
}

func (g *vfC10RecGater) consult(fn string, p peer.ID, a ma.Multiaddr, ask func(connmgr.ConnectionGater) bool) bool {
	if g.bypass.Load() {
		return true
	}
	ev := g.ctl.Load().stop(fn, p, a)
	allow := true
	if g.real != nil {
		if in := g.real(); in != nil {
			allow = ask(in)
		}
	}
	r := vfC10GateRec{Fn: fn, Allow: allow}
	if p != "" {
		r.Peer = vfC10PeerName[p]
		if r.Peer == "" {
			r.Peer = p.String()
		}
	}
	if a != nil {
		r.Addr = a.String()
	}
	g.mu.Lock()
	g.log = append(g.log, r)
	g.mu.Unlock()
	if ev != nil {
		ev.done <- allow
	}
	return allow
}
func (g *vfC10RecGater) InterceptPeerDial(p peer.ID) bool {
	return g.consult("peerdial", p, nil, func(in connmgr.ConnectionGater) bool { return in.InterceptPeerDial(p) })
}
func (g *vfC10RecGater) InterceptAddrDial(p peer.ID, a ma.Multiaddr) bool {
	return g.consult("addrdial", p, a, func(in connmgr.ConnectionGater) bool { return in.InterceptAddrDial(p, a) })
}
func (g *vfC10RecGater) InterceptAccept(c network.ConnMultiaddrs) bool {
	return g.consult("accept", "", c.RemoteMultiaddr(), func(in connmgr.ConnectionGater) bool { return in.InterceptAccept(c) })
}
func (g *vfC10RecGater) InterceptSecured(d network.Direction, p peer.ID, c network.ConnMultiaddrs) bool {
	fn := "secured_in"
	if d == network.DirOutbound {
		fn = "secured_out"
	}
	return g.consult(fn, p, c.RemoteMultiaddr(), func(in connmgr.ConnectionGater) bool { return in.InterceptSecured(d, p, c) })
}
func (g *vfC10RecGater) InterceptUpgraded(c network.Conn) (bool, control.DisconnectReason) {
	var why control.DisconnectReason
	ok := g.consult("upgraded", c.RemotePeer(), c.RemoteMultiaddr(), func(in connmgr.ConnectionGater) bool {
		a, w := in.InterceptUpgraded(c)
		why = w
		return a
	})
	return ok, why
}
func (g *vfC10RecGater) take() []vfC10GateRec {
	g.mu.Lock()
	defer g.mu.Unlock()
	out := g.log
	g.log = nil
	return out
}
func (g *vfC10RecGater) peek() []vfC10GateRec {
	g.mu.Lock()
	defer g.mu.Unlock()
	return append([]vfC10GateRec(nil), g.log...)
}

// vfC10RecTransport records (and, when armed, stops) every Dial; with proxy set it looks like a relay transport:
// Proxy()==true and its connections report that transport and a limited connection.
type vfC10RecTransport struct {
	transport.Transport
	dials    atomic.Int64
	inflight atomic.Int64 // Dial calls of the wrapped transport that have not returned
	gate     *vfC10RecGater
	proxy    atomic.Bool
}

func (t *vfC10RecTransport) Proxy() bool { return t.proxy.Load() }

func (t *vfC10RecTransport) Dial(ctx context.Context, raddr ma.Multiaddr, p peer.ID) (transport.CapableConn, error) {
	if !t.gate.bypass.Load() {
		t.dials.Add(1)
		if ev := t.gate.ctl.Load().stop("tdial", p, raddr); ev != nil {
			ev.done <- true
		}
	}
	t.inflight.Add(1)
	c, err := t.Transport.Dial(ctx, raddr, p)
	t.inflight.Add(-1)
	if err != nil || !t.proxy.Load() {
		return c, err
	}
	return vfC10RelayedConn{CapableConn: c, t: t}, nil
}

type vfC10RelayedConn struct {
	transport.CapableConn
	t transport.Transport
}

func (c vfC10RelayedConn) Transport() transport.Transport { return c.t }
func (c vfC10RelayedConn) Stat() network.ConnStats {
	return network.ConnStats{Stats: network.Stats{Limited: true}}
}

type vfC10NotifEv struct {
	connected bool
	peer      peer.ID
	raddr     string
	id        string // the swarm's connection id: connections are attributed by identity, never by peer alone
}

type vfC10Notif struct {
	mu  sync.Mutex
	evs []vfC10NotifEv
}

func (n *vfC10Notif) add(connected bool, c network.Conn) {
	n.mu.Lock()
	n.evs = append(n.evs, vfC10NotifEv{connected, c.RemotePeer(), c.RemoteMultiaddr().String(), c.ID()})
	n.mu.Unlock()
}
func (n *vfC10Notif) count(connected bool, p peer.ID, from int) int {
	n.mu.Lock()
	defer n.mu.Unlock()
	c := 0
	for _, e := range n.evs[from:] {
		if e.connected == connected && e.peer == p {
			c++
		}
	}
	return c
}
func (n *vfC10Notif) has(connected bool, id string) bool {
	n.mu.Lock()
	defer n.mu.Unlock()
	for _, e := range n.evs {
		if e.connected == connected && e.id == id {
			return true
		}
	}
	return false
}

// ids of the connections with p announced (Connected) since from
func (n *vfC10Notif) connectedIDs(p peer.ID, from int) []string {
	n.mu.Lock()
	defer n.mu.Unlock()
	var out []string
	for _, e := range n.evs[from:] {
		if e.connected && e.peer == p {
			out = append(out, e.id)
		}
	}
	return out
}

func (n *vfC10Notif) mark() int {
	n.mu.Lock()
	defer n.mu.Unlock()
	return len(n.evs)
}

type vfC10Resolver struct{ names map[string]string }

func (r *vfC10Resolver) ResolveDNSAddr(context.Context, peer.ID, ma.Multiaddr, int, int) ([]ma.Multiaddr, error) {
	return nil, errors.New("verif: no dnsaddr records")
}
func (r *vfC10Resolver) ResolveDNSComponent(_ context.Context, a ma.Multiaddr, _ int) ([]ma.Multiaddr, error) {
	parts := strings.SplitN(a.String(), "/", 4) // "", dns4, name, rest
	if len(parts) < 3 {
		return nil, fmt.Errorf("verif: cannot resolve %s", a)
	}
	ip, ok := r.names[parts[2]]
	if !ok {
		return nil, fmt.Errorf("verif: unknown name %s", parts[2])
	}
	out := "/ip4/" + ip
	if strings.Contains(ip, ":") {
		out = "/ip6/" + ip
	}
	if len(parts) == 4 {
		out += "/" + parts[3]
	}
	m, err := ma.NewMultiaddr(out)
	if err != nil {
		return nil, err
	}
	return []ma.Multiaddr{m}, nil
}

type vfC10SrcSel struct{ ip4, ip6 net.IP }

func (s vfC10SrcSel) PreferredSourceIPForDestination(dst *net.UDPAddr) (net.IP, error) {
	if dst.IP.To4() != nil {
		if s.ip4 != nil {
			return s.ip4, nil
		}
	} else if s.ip6 != nil {
		return s.ip6, nil
	}
	return nil, errors.New("verif: no source address of that family")
}

// ---------------------------------------------------------------------------------------------
// hosts

type vfC10Host struct {
	name     string
	id       peer.ID
	ip4, ip6 net.IP
	sw       *swarm.Swarm
	gate     *vfC10RecGater
	tpts     map[string]*vfC10RecTransport // tcp quic ws wt rtc
	notif    *vfC10Notif
	listen   map[string]ma.Multiaddr // family + transport: "4tcp", "6rtc" ...
	closers  []io.Closer
}

func (h *vfC10Host) dials() int64 {
	var n int64
	for _, t := range h.tpts {
		n += t.dials.Load()
	}
	return n
}

func vfC10TptOf(a ma.Multiaddr) string {
	t := "tcp"
	for _, pc := range []struct {
		code int
		name string
	}{{ma.P_QUIC_V1, "quic"}, {ma.P_WS, "ws"}, {ma.P_WEBTRANSPORT, "wt"}, {ma.P_WEBRTC_DIRECT, "rtc"}} {
		if _, err := a.ValueForProtocol(pc.code); err == nil {
			t = pc.name
		}
	}
	return t
}

func vfC10NewHost(name, ip4, ip6 string, real func() connmgr.ConnectionGater, resolver network.MultiaddrDNSResolver, extra bool) (*vfC10Host, error) {
	idn := vfC10Ids()[name]
	h := &vfC10Host{name: name, id: idn.id, gate: &vfC10RecGater{real: real}, notif: &vfC10Notif{}, listen: map[string]ma.Multiaddr{},
		tpts: map[string]*vfC10RecTransport{}}
	if ip4 != "" {
		h.ip4 = net.ParseIP(ip4)
	}
	if ip6 != "" {
		h.ip6 = net.ParseIP(ip6)
	}
	ps, err := pstoremem.NewPeerstore()
	if err != nil {
		return nil, err
	}
	h.closers = append(h.closers, ps)
	if err := ps.AddPubKey(idn.id, idn.priv.GetPublic()); err != nil {
		return nil, err
	}
	if err := ps.AddPrivKey(idn.id, idn.priv); err != nil {
		return nil, err
	}
	opts := []swarm.Option{swarm.WithConnectionGater(h.gate)}
	if resolver != nil {
		opts = append(opts, swarm.WithMultiaddrResolver(resolver))
	}
	h.sw, err = swarm.NewSwarm(idn.id, ps, eventbus.NewBus(), opts...)
	if err != nil {
		return nil, err
	}
	muxers := []tptu.StreamMuxer{{ID: yamux.ID, Muxer: yamux.DefaultTransport}}
	sec1, err := noise.New(noise.ID, idn.priv, muxers)
	if err != nil {
		return nil, err
	}
	up, err := tptu.New([]sec.SecureTransport{sec1}, muxers, nil, nil, h.gate)
	if err != nil {
		return nil, err
	}
	add := func(name string, t transport.Transport) error {
		rt := &vfC10RecTransport{Transport: t, gate: h.gate}
		h.tpts[name] = rt
		if c, ok := t.(io.Closer); ok {
			h.closers = append(h.closers, c)
		}
		return h.sw.AddTransport(rt)
	}
	tcpT, err := tcp.NewTCPTransport(up, nil, nil, tcp.DisableReuseport(),
		tcp.WithDialerForAddr(func(raddr ma.Multiaddr) (tcp.ContextDialer, error) {
			local := h.ip4
			if c, _ := ma.SplitFirst(raddr); c != nil && c.Protocol().Code == ma.P_IP6 {
				local = h.ip6
			}
			d := &net.Dialer{}
			if local != nil {
				d.LocalAddr = &net.TCPAddr{IP: local}
			}
			return d, nil
		}))
	if err != nil {
		return nil, err
	}
	if err := add("tcp", tcpT); err != nil {
		return nil, err
	}
	sel := vfC10SrcSel{h.ip4, h.ip6}
	reuse, err := quicreuse.NewConnManager(quic.StatelessResetKey{}, quic.TokenGeneratorKey{},
		quicreuse.OverrideSourceIPSelector(func() (quicreuse.SourceIPSelector, error) { return sel, nil }))
	if err != nil {
		return nil, err
	}
	quicT, err := libp2pquic.NewTransport(idn.priv, reuse, nil, h.gate, nil)
	if err != nil {
		return nil, err
	}
	if err := add("quic", quicT); err != nil {
		return nil, err
	}
	// WebSocket shares the upgrader (gated listener, InterceptSecured); its dialer cannot be bound to a source
	// address, so only attempts whose source the kernel picks as wanted are run over it
	wsT, err := websocket.New(up, nil, nil)
	if err != nil {
		return nil, err
	}
	if err := add("ws", wsT); err != nil {
		return nil, err
	}
	suffixes := []string{"/tcp/0", "/udp/0/quic-v1", "/tcp/0/ws"}
	if extra {
		// the transports with gating call sites of their own
		wtT, err := libp2pwebtransport.New(idn.priv, nil, reuse, h.gate, nil)
		if err != nil {
			return nil, err
		}
		if err := add("wt", wtT); err != nil {
			return nil, err
		}
		rtcT, err := libp2pwebrtc.New(idn.priv, nil, h.gate, nil, func(network string, laddr *net.UDPAddr) (net.PacketConn, error) {
			return net.ListenUDP(network, laddr)
		})
		if err != nil {
			return nil, err
		}
		if err := add("rtc", rtcT); err != nil {
			return nil, err
		}
		suffixes = append(suffixes, "/udp/0/quic-v1/webtransport", "/udp/0/webrtc-direct")
	}
	h.closers = append(h.closers, reuse)
	var las []ma.Multiaddr
	for _, sfx := range suffixes {
		if h.ip4 != nil {
			las = append(las, ma.StringCast("/ip4/"+ip4+sfx))
		}
		if h.ip6 != nil {
			las = append(las, ma.StringCast("/ip6/"+ip6+sfx))
		}
	}
	if err := h.sw.Listen(las...); err != nil {
		return nil, fmt.Errorf("%s: listen %v: %w", name, las, err)
	}
	for _, a := range h.sw.ListenAddresses() {
		fam := "4"
		if c, _ := ma.SplitFirst(a); c != nil && c.Protocol().Code == ma.P_IP6 {
			fam = "6"
		}
		h.listen[fam+vfC10TptOf(a)] = a
	}
	if len(h.listen) != len(las) {
		return nil, fmt.Errorf("%s: listening on %v, wanted %v", name, h.sw.ListenAddresses(), las)
	}
	h.sw.Notify(&network.NotifyBundle{
		ConnectedF:    func(_ network.Network, c network.Conn) { h.notif.add(true, c) },
		DisconnectedF: func(_ network.Network, c network.Conn) { h.notif.add(false, c) },
	})
	return h, nil
}

func (h *vfC10Host) close() {
	h.sw.Close()
	for _, c := range h.closers {
		c.Close()
	}
}

// ---------------------------------------------------------------------------------------------

type vfC10DialRes struct {
	conn network.Conn
	err  error
}

// one attempt in progress
type vfC10Live struct {
	dir, peer, ip, tpt, pre, opt, form  string
	x                                   *vfC10Host
	addr                                string
	am, xm                              int   // notification marks (after the pre-existing connection was set up)
	dials0                              int64 // transport dials before
	preConns                            int
	ctx                                 context.Context
	cancel                              context.CancelFunc
	localRes                            chan vfC10DialRes // DialPeer / NewStream of the gated host (out)
	remoteRes                           chan vfC10DialRes // DialPeer of the remote (in, hole punch)
	localDone, remoteDone               *vfC10DialRes
	stages                              []string        // the model's stages so far
	blk                                 map[string]bool // rules whose Block had returned at the start and ever since
	cont                                map[string]bool // rules in force at every consultation of this connection
	tdial                               bool
	tdialBlk, tdialCont                 []string
	auto                                bool // the real pipeline left the model's path: release everything, judge the outcome
	aborted, remoteStarted, interleaved bool
	newIDs                              map[string]bool // connections of the gated host with the peer that did not exist when the attempt began
	preIDs                              []string
	rawMu                               sync.Mutex
	remoteRaw                           transport.CapableConn
	cut                                 bool // the rest of the path needs a cooperating remote we do not have (TCP simultaneous open)
	refusedAt                           string
	log                                 []vfC10GateRec
}

type vfC10Net struct {
	a      *vfC10Host
	remote map[string]*vfC10Host // by peer name
	sys    atomic.Pointer[vfC10Sys]
	res    *vfh.Result
	ctl    *vfC10StepCtl
	live   *vfC10Live
	known  map[string]bool // connection ids of the gated host seen so far
	stats  map[string]int
}

func vfC10WaitFor(what string, cond func() bool) error {
	deadline := time.Now().Add(vfC10NetWait)
	for !cond() {
		if time.Now().After(deadline) {
			return fmt.Errorf("time-out waiting for %s", what)
		}
		time.Sleep(time.Millisecond)
	}
	return nil
}

func vfC10IPOf(addr string) string {
	m, err := ma.NewMultiaddr(addr)
	if err != nil {
		return ""
	}
	ip, err := manet.ToIP(m)
	if err != nil {
		return ""
	}
	return ip.String()
}

func vfC10NetSetup() (*vfC10Net, error) {
	n := &vfC10Net{remote: map[string]*vfC10Host{}, stats: map[string]int{}, known: map[string]bool{}, ctl: &vfC10StepCtl{events: make(chan *vfC10Event, 64)}}
	res := &vfC10Resolver{names: map[string]string{"p2.vf.test": "127.0.0.2", "p3.vf.test": "127.0.0.3", "p6.vf.test": "::1"}}
	var err error
	n.a, err = vfC10NewHost("pa", "127.0.0.1", "::1", func() connmgr.ConnectionGater {
		if s := n.sys.Load(); s != nil {
			if g := s.g.Load(); g != nil {
				return g
			}
		}
		return nil
	}, res, true)
	if err != nil {
		return nil, err
	}
	for _, r := range []struct{ name, ip4, ip6 string }{{"p2", "127.0.0.2", ""}, {"p3", "127.0.0.3", ""}, {"p6", "", "::1"}} {
		h, err := vfC10NewHost(r.name, r.ip4, r.ip6, nil, nil, r.name == "p6")
		if err != nil {
			return nil, err
		}
		n.remote[r.name] = h
	}
	return n, nil
}

func (n *vfC10Net) close() {
	n.a.close()
	for _, h := range n.remote {
		h.close()
	}
}

// releaseAll lets every stopped consultation go (used when disarmed or in auto mode)
func (n *vfC10Net) releaseAll() {
	for {
		select {
		case ev := <-n.ctl.events:
			close(ev.release)
		default:
			return
		}
	}
}

func (n *vfC10Net) ledgerIn(l *vfC10Live, s *vfC10Sys, set map[string]bool) []string {
	var out []string
	for r := range set {
		if s.must[r] == "in" {
			out = append(out, r)
		} else {
			delete(set, r)
		}
	}
	sort.Strings(out)
	return out
}

// track is called at every harness step of a live attempt: rules that are no longer obliged drop out
func (n *vfC10Net) track(s *vfC10Sys) {
	if l := n.live; l != nil {
		n.ledgerIn(l, s, l.blk)
		l.interleaved = true
	}
}

func vfC10OptCtx(ctx context.Context, opt string) context.Context {
	switch opt {
	case "force":
		return network.WithForceDirectDial(ctx, "verif")
	case "simc":
		return network.WithSimultaneousConnect(ctx, true, "verif")
	case "sims":
		return network.WithSimultaneousConnect(ctx, false, "verif")
	case "hpc":
		return network.WithSimultaneousConnect(network.WithForceDirectDial(ctx, "verif"), true, "verif")
	case "hps":
		return network.WithSimultaneousConnect(network.WithForceDirectDial(ctx, "verif"), false, "verif")
	case "nodial":
		return network.WithDialPeerTimeout(network.WithNoDial(ctx, "verif"), 30*time.Millisecond)
	case "limited":
		return network.WithAllowLimitedConn(ctx, "verif")
	}
	return ctx
}

// start: set up what the swarm already holds, then launch the real attempt (outbound) with the stops armed
func (n *vfC10Net) start(s *vfC10Sys, op vfh.Op, form string) error {
	a, x := n.a, n.remote[op.S("peer")]
	if x == nil {
		return fmt.Errorf("no remote %s", op.S("peer"))
	}
	l := &vfC10Live{dir: op.S("dir"), peer: op.S("peer"), ip: op.S("ip"), tpt: op.S("tpt"), pre: op.S("pre"), opt: op.S("opt"), form: form, x: x,
		blk: map[string]bool{}, cont: map[string]bool{}, newIDs: map[string]bool{}, localRes: make(chan vfC10DialRes, 1), remoteRes: make(chan vfC10DialRes, 1)}
	fam := "4"
	if x.ip4 == nil {
		fam = "6"
	}
	n.releaseAll()
	// nothing may be left over from an earlier attempt (a connection that completed after its attempt was torn down)
	if len(a.sw.ConnsToPeer(x.id)) > 0 || len(x.sw.ConnsToPeer(a.id)) > 0 {
		n.stats["stragglers_closed"]++
		if err := vfC10WaitFor("left-over connections to go", func() bool {
			a.sw.ClosePeer(x.id)
			x.sw.ClosePeer(a.id)
			return len(a.sw.ConnsToPeer(x.id)) == 0 && len(x.sw.ConnsToPeer(a.id)) == 0 &&
				a.notif.count(true, x.id, 0) == a.notif.count(false, x.id, 0) && x.notif.count(true, a.id, 0) == x.notif.count(false, a.id, 0)
		}); err != nil {
			return err
		}
		a.sw.Backoff().Clear(x.id)
		x.sw.Backoff().Clear(a.id)
	}
	// what the swarm already holds for the peer: admitted earlier, whatever the rules say now
	if l.pre != "none" {
		a.gate.bypass.Store(true)
		via := "tcp"
		if l.pre == "relayed" {
			via = "ws"
			if !a.tpts["ws"].Proxy() {
				return fmt.Errorf("relayed connection wanted but the WebSocket transport is not in relay mode")
			}
		}
		a.sw.Peerstore().ClearAddrs(x.id)
		a.sw.Peerstore().AddAddr(x.id, x.listen[fam+via], time.Hour)
		ctx, cancel := context.WithTimeout(context.Background(), vfC10NetWait)
		_, err := a.sw.DialPeer(ctx, x.id)
		cancel()
		a.gate.bypass.Store(false)
		if err != nil {
			return fmt.Errorf("cannot set up the %s connection to %s: %v", l.pre, l.peer, err)
		}
		if err := vfC10WaitFor("the remote to see the pre-existing connection", func() bool { return len(x.sw.ConnsToPeer(a.id)) > 0 }); err != nil {
			return err
		}
		a.sw.Backoff().Clear(x.id)
	}
	l.preConns = len(a.sw.ConnsToPeer(x.id))
	for _, c := range a.sw.ConnsToPeer(x.id) {
		n.known[c.ID()] = true
		l.preIDs = append(l.preIDs, c.ID())
	}
	for _, id := range a.notif.connectedIDs(x.id, 0) {
		n.known[id] = true
	}
	a.gate.take()
	x.gate.take()
	l.am, l.xm = a.notif.mark(), x.notif.mark()
	l.dials0 = a.dials()
	for _, r := range s.matching(l.peer, l.ip) {
		if s.must[r] == "in" {
			l.blk[r] = true
		}
		l.cont[r] = true
	}
	l.ctx, l.cancel = context.WithTimeout(context.Background(), vfC10NetWait)
	n.live = l
	a.gate.ctl.Store(n.ctl)
	if l.dir == "out" {
		target := x.listen[fam+l.tpt]
		if target == nil {
			return fmt.Errorf("%s does not listen on %s", l.peer, l.tpt)
		}
		text := target.String()
		switch form {
		case "p2p":
			text += "/p2p/" + x.id.String()
		case "dns":
			text = "/dns" + fam + "/" + l.peer + ".vf.test/" + strings.SplitN(text, "/", 4)[3]
		case "mapped":
			text = "/ip6/::ffff:" + x.ip4.String() + "/" + strings.SplitN(text, "/", 4)[3]
		}
		l.addr = text
		a.sw.Peerstore().ClearAddrs(x.id)
		a.sw.Peerstore().AddAddr(x.id, ma.StringCast(text), time.Hour)
		ctx := vfC10OptCtx(l.ctx, l.opt)
		go func() {
			if l.opt == "nodial" || l.opt == "limited" {
				st, err := a.sw.NewStream(ctx, x.id)
				if err != nil {
					l.localRes <- vfC10DialRes{nil, err}
					return
				}
				c := st.Conn()
				st.Reset()
				l.localRes <- vfC10DialRes{c, nil}
				return
			}
			c, err := a.sw.DialPeer(ctx, x.id)
			l.localRes <- vfC10DialRes{c, err}
		}()
	} else {
		l.addr = a.listen[fam+l.tpt].String()
	}
	return nil
}

// arrive: the remote's connection sets out for the gated host's listener
func (n *vfC10Net) arrive() {
	l, a := n.live, n.a
	x := l.x
	fam := "4"
	if x.ip4 == nil {
		fam = "6"
	}
	x.sw.Peerstore().ClearAddrs(a.id)
	x.sw.Peerstore().AddAddr(a.id, a.listen[fam+l.tpt], time.Hour)
	ctx := l.ctx
	l.remoteStarted = true
	if l.dir == "out" {
		// the other end of the hole punch: the remote's QUIC transport dials the gated host's listener from the
		// punched address (driven below its swarm, which may hold a connection already and would re-use it)
		ctx = network.WithSimultaneousConnect(ctx, true, "verif")
		target := a.listen[fam+l.tpt]
		go func() {
			c, err := x.tpts[l.tpt].Transport.Dial(ctx, target, a.id)
			if err == nil {
				l.rawMu.Lock()
				l.remoteRaw = c
				l.rawMu.Unlock()
			}
			l.remoteRes <- vfC10DialRes{nil, err}
		}()
		return
	}
	go func() {
		c, err := x.sw.DialPeer(ctx, a.id)
		l.remoteRes <- vfC10DialRes{c, err}
	}()
}

func (n *vfC10Net) newConnOnGated() bool {
	l := n.live
	// a NEW connection = one whose identity was not known when the attempt began (held before, or seen in an
	// earlier attempt: its notifications may be delivered late)
	for _, c := range n.a.sw.ConnsToPeer(l.x.id) {
		if id := c.ID(); !n.known[id] {
			l.newIDs[id] = true
		}
	}
	for _, id := range n.a.notif.connectedIDs(l.x.id, l.am) {
		if !n.known[id] {
			l.newIDs[id] = true
		}
	}
	return len(l.newIDs) > 0
}

// next waits for the next stop of the gated host; nil if the attempt ended on the real side first
func (n *vfC10Net) next() (*vfC10Event, error) {
	l := n.live
	deadline := time.After(vfC10NetWait)
	for {
		select {
		case ev := <-n.ctl.events:
			if n.stray(ev) {
				close(ev.release)
				continue
			}
			return ev, nil
		case r := <-l.localRes:
			l.localDone = &r
			if l.dir == "out" {
				return nil, nil
			}
		case r := <-l.remoteRes:
			l.remoteDone = &r
			if r.err != nil {
				return nil, nil // the remote gave up: nothing more will reach the listener
			}
			// the remote believes it is connected; the listener's consultations are still to come (or the real
			// pipeline has fewer than the model)
			if n.newConnOnGated() {
				select {
				case ev := <-n.ctl.events:
					return ev, nil
				default:
					return nil, nil
				}
			}
		case <-deadline:
			return nil, fmt.Errorf("time-out waiting for the next consultation of the %sbound %s attempt with %s", l.dir, l.tpt, l.peer)
		}
	}
}

// stray: a consultation that cannot belong to the live attempt (a listener consultation while nothing is on its way
// to the listener: e.g. a WebRTC remote whose earlier, refused attempt is still sending connectivity checks)
func (n *vfC10Net) stray(ev *vfC10Event) bool {
	l := n.live
	if l.dir == "out" && !l.remoteStarted && (ev.stage == "accept" || ev.stage == "secured_in") {
		n.stats["stray_listener_consultations"]++
		return true
	}
	return false
}

func (n *vfC10Net) relevant(fn string) bool {
	l := n.live
	if l == nil {
		return true
	}
	if fn == "accept" || fn == "secured_in" {
		return l.dir == "in" || l.remoteStarted || (l.opt == "sims" || l.opt == "hps")
	}
	if fn == "peerdial" || fn == "addrdial" || fn == "secured_out" {
		return l.dir == "out"
	}
	return true
}

// step executes one att_step of the model on the live attempt
func (n *vfC10Net) step(s *vfC10Sys, op vfh.Op) error {
	l := n.live
	stage := op.S("stage")
	l.stages = append(l.stages, stage)
	n.ledgerIn(l, s, l.blk)
	if l.cut {
		return nil
	}
	if l.auto {
		// off the model's path: keep the real attempt moving, the outcome is judged by the ledger at the end
		n.drain(s, 0)
		if stage == "arrive" && !l.remoteStarted && !l.aborted {
			if l.dir == "out" {
				n.drain(s, 300*time.Millisecond) // give the real dial the chance to get as far as its hole punch
			}
			for _, r := range s.matching(l.peer, l.ip) {
				l.cont[r] = true
			}
			n.ledgerIn(l, s, l.cont)
			n.arrive()
		}
		return nil
	}
	switch stage {
	case "reuse", "noconn":
		return nil // judged at the end: no consultation, no new connection
	case "arrive":
		for _, r := range s.matching(l.peer, l.ip) {
			l.cont[r] = true
		}
		n.ledgerIn(l, s, l.cont)
		n.arrive()
		return nil
	}
	ev, err := n.next()
	if err != nil {
		return err
	}
	if ev == nil {
		// the real attempt ended before the consultation the model expects
		l.auto = true
		s.mismatch("L2:net:consultation-missing", fmt.Sprintf("%s: the model consults %s next, the real attempt ended (%s)", n.desc(), stage, n.ending()), stage,
			map[string]any{"stages": l.stages, "log": n.a.gate.peek(), "connected_notifs": n.a.notif.count(true, l.x.id, l.am), "conns": len(n.a.sw.ConnsToPeer(l.x.id)), "pre": l.preConns})
		return nil
	}
	if ev.stage != stage {
		s.mismatch("L2:net:consultation-order", fmt.Sprintf("%s: real consultation %s(%s %s), model %s", n.desc(), ev.stage, ev.peer, ev.addr, stage), stage, ev.stage)
		l.auto = true
	}
	if ev.stage == "tdial" {
		l.tdial = true
		l.tdialBlk = n.ledgerIn(l, s, l.blk)
		l.tdialCont = n.ledgerIn(l, s, l.cont)
	}
	close(ev.release)
	var ans bool
	select {
	case ans = <-ev.done:
	case <-time.After(vfC10NetWait):
		return fmt.Errorf("%s: consultation %s did not return", n.desc(), ev.stage)
	}
	if ev.stage != "tdial" {
		n.ledgerIn(l, s, l.cont)
		if !ans && l.refusedAt == "" {
			l.refusedAt = ev.stage
		}
		if ans != op.B("allow") && !l.auto {
			s.mismatch("L2:net:consultation", fmt.Sprintf("%s: %s = %v, model %v", n.desc(), ev.stage, ans, op.B("allow")), op.B("allow"), ans)
			l.auto = true
		}
	} else if l.tpt != "quic" && (l.opt == "sims" || l.opt == "hps") {
		// simultaneous connect as server over TCP/WS needs a true simultaneous open from the remote
		l.cut = true
		l.cancel()
	}
	return nil
}

// drain releases whatever has stopped (off-model mode); with a budget it goes on until the transport dial was seen,
// the local call returned or the budget is used up
func (n *vfC10Net) drain(s *vfC10Sys, budget time.Duration) {
	l := n.live
	deadline := time.After(budget)
	for {
		select {
		case ev := <-n.ctl.events:
			if ev.stage == "tdial" {
				l.tdial = true
				l.tdialBlk = n.ledgerIn(l, s, l.blk)
				l.tdialCont = n.ledgerIn(l, s, l.cont)
			}
			close(ev.release)
			continue
		case r := <-l.localRes:
			l.localDone = &r
			return
		default:
		}
		if budget == 0 || l.tdial {
			return
		}
		select {
		case <-deadline:
			return
		case <-time.After(time.Millisecond):
		}
	}
}

func (n *vfC10Net) desc() string {
	l := n.live
	return fmt.Sprintf("%sbound %s attempt with %s (%s), swarm holds %s, made %s, addr %s", l.dir, l.tpt, l.peer, vfC10IPs[l.ip], l.pre, l.opt, l.addr)
}

func (n *vfC10Net) ending() string {
	l := n.live
	switch {
	case l.localDone != nil && l.localDone.err != nil:
		return "local: " + l.localDone.err.Error()
	case l.localDone != nil:
		return "local: connection"
	case l.remoteDone != nil && l.remoteDone.err != nil:
		return "remote: " + l.remoteDone.err.Error()
	case l.remoteDone != nil:
		return "remote: connection"
	}
	return "running"
}

type vfC10NetOutcome struct {
	NewConn        bool           `json:"new_conn"` // the gated host got a connection it did not hold before
	NewConnIDs     []string       `json:"new_conn_ids,omitempty"`
	Local          string         `json:"local"`           // what DialPeer/NewStream of the gated host returned
	Remote         string         `json:"remote"`          // what the remote's DialPeer returned
	TransportDials int64          `json:"transport_dials"` // Dial calls on the gated host's transports
	RemoteAccepts  int            `json:"remote_accepts"`  // outbound: accept consultations at the remote
	GateLog        []vfC10GateRec `json:"gate_log"`        // consultations of the gated host's gater, in order
	RefusedAt      string         `json:"refused_at"`
	Stages         []string       `json:"model_stages"`
	SeenIP         string         `json:"seen_ip"`
}

// finish: let the real attempt run to its end, judge it, tear everything down
func (n *vfC10Net) finish(s *vfC10Sys, op vfh.Op) (vfC10NetOutcome, error) {
	l, a := n.live, n.a
	x := l.x
	var out vfC10NetOutcome
	end := op.S("end")
	refusal := func() string {
		for _, r := range a.gate.peek() {
			if !r.Allow && n.relevant(r.Fn) {
				return r.Fn
			}
		}
		return ""
	}
	// wait, releasing whatever else stops, until the outcome is decided on the gated host
	decided := func() bool {
		if l.aborted || refusal() != "" {
			return true
		}
		if l.cut {
			return l.localDone != nil
		}
		if l.dir == "out" {
			if l.localDone == nil {
				return false
			}
			return l.localDone.err != nil || n.newConnOnGated() || len(a.sw.ConnsToPeer(x.id)) > 0
		}
		if refusal() != "" || n.newConnOnGated() {
			return true
		}
		if l.remoteDone != nil {
			return l.remoteDone.err != nil || x.notif.count(false, a.id, l.xm) > 0
		}
		return false
	}
	extra := 0
	deadline := time.After(vfC10NetWait)
	for !decided() {
		select {
		case ev := <-n.ctl.events:
			if n.stray(ev) {
				close(ev.release)
				continue
			}
			if !l.auto && !l.cut && end != "-" {
				extra++
				s.mismatch("L2:net:consultation-extra", fmt.Sprintf("%s: consultation %s(%s %s) after the model's last stage %v", n.desc(), ev.stage, ev.peer, ev.addr, l.stages), l.stages, ev.stage)
			}
			if ev.stage == "tdial" {
				l.tdial = true
				l.tdialBlk = n.ledgerIn(l, s, l.blk)
				l.tdialCont = n.ledgerIn(l, s, l.cont)
			}
			close(ev.release)
		case r := <-l.localRes:
			l.localDone = &r
		case r := <-l.remoteRes:
			l.remoteDone = &r
		case <-time.After(2 * time.Millisecond):
		case <-deadline:
			return out, fmt.Errorf("%s: time-out waiting for the outcome (%s)", n.desc(), n.ending())
		}
	}
	// for an outbound hole punch that was refused at the listener the local dial keeps punching: stop it
	if l.dir == "out" && l.localDone == nil {
		l.cancel()
	}
	out.NewConn = n.newConnOnGated()
	out.RefusedAt = refusal()
	blk, cont := n.ledgerIn(l, s, l.blk), n.ledgerIn(l, s, l.cont)
	// tear down: disarm, cancel, close, wait until both swarms are quiet
	a.gate.ctl.Store(nil)
	l.cancel()
	n.releaseAll()
	for l.localDone == nil && l.dir == "out" || l.remoteDone == nil && l.remoteStarted {
		select {
		case r := <-l.localRes:
			l.localDone = &r
		case r := <-l.remoteRes:
			l.remoteDone = &r
		case ev := <-n.ctl.events:
			close(ev.release)
		case <-time.After(vfC10NetWait):
			return out, fmt.Errorf("%s: DialPeer did not return after cancellation", n.desc())
		}
	}
	if n.newConnOnGated() {
		out.NewConn = true
	}
	l.rawMu.Lock()
	if l.remoteRaw != nil {
		l.remoteRaw.Close()
	}
	l.rawMu.Unlock()
	a.sw.ClosePeer(x.id)
	x.sw.ClosePeer(a.id)
	werr := vfC10WaitFor("both swarms to drop the connection", func() bool {
		n.releaseAll()
		n.newConnOnGated() // note the identity of whatever is there before closing it
		if len(a.sw.ConnsToPeer(x.id)) > 0 || len(x.sw.ConnsToPeer(a.id)) > 0 {
			a.sw.ClosePeer(x.id)
			x.sw.ClosePeer(a.id)
			return false
		}
		for _, t := range a.tpts {
			if t.inflight.Load() != 0 {
				return false // e.g. a cancelled hole punch that has not left the transport yet
			}
		}
		// quiescence by identity: every connection seen (held before or new) has been announced AND announced gone
		n.newConnOnGated()
		for _, ids := range [][]string{l.preIDs, vfC10Keys(l.newIDs)} {
			for _, id := range ids {
				if !a.notif.has(true, id) || !a.notif.has(false, id) {
					return false
				}
			}
		}
		return a.notif.count(true, x.id, 0) == a.notif.count(false, x.id, 0) && x.notif.count(true, a.id, 0) == x.notif.count(false, a.id, 0)
	})
	if werr != nil {
		return out, fmt.Errorf("%s: %v", n.desc(), werr)
	}
	if n.newConnOnGated() {
		out.NewConn = true
	}
	for id := range l.newIDs {
		n.known[id] = true
	}
	out.NewConnIDs = vfC10Keys(l.newIDs)
	if l.tpt == "rtc" && l.dir == "in" && !out.NewConn {
		// a refused WebRTC remote goes on sending connectivity checks for a moment: let them die down (machinery)
		last, quiet := len(a.gate.peek()), 0
		for quiet < 30 {
			time.Sleep(2 * time.Millisecond)
			if c := len(a.gate.peek()); c != last {
				last, quiet = c, 0
			} else {
				quiet++
			}
		}
	}
	a.sw.Backoff().Clear(x.id)
	x.sw.Backoff().Clear(a.id)
	out.TransportDials = a.dials() - l.dials0
	for _, r := range x.gate.take() {
		if r.Fn == "accept" {
			out.RemoteAccepts++
		}
	}
	for _, r := range a.gate.take() {
		if n.relevant(r.Fn) {
			out.GateLog = append(out.GateLog, r)
		}
	}
	out.Stages = l.stages
	for _, r := range out.GateLog {
		if (r.Fn == "accept" || r.Fn == "addrdial") && out.SeenIP == "" {
			out.SeenIP = vfC10IPOf(r.Addr)
		}
	}
	if l.localDone != nil {
		out.Local = "connection"
		if l.localDone.err != nil {
			out.Local = l.localDone.err.Error()
		}
	}
	if l.remoteDone != nil {
		out.Remote = "connection"
		if l.remoteDone.err != nil {
			out.Remote = l.remoteDone.err.Error()
		}
	}
	n.live = nil

	// ---- verdicts
	desc := fmt.Sprintf("%sbound %s attempt with %s (%s), swarm holds %s, made %s, addr %s", l.dir, l.tpt, l.peer, vfC10IPs[l.ip], l.pre, l.opt, l.addr)
	if out.SeenIP != "" && out.SeenIP != net.ParseIP(vfC10IPs[l.ip]).String() {
		// WebRTC picks its own source address: acceptable iff every address rule of the instance treats the address
		// seen like the model's address
		seen := net.ParseIP(out.SeenIP)
		for _, r := range s.conf.ipRules() {
			d, hit := vfC10Rules[r], false
			if d.kind == "addr" {
				hit = net.ParseIP(d.val).Equal(seen)
			} else if _, nw, err := net.ParseCIDR(d.val); err == nil {
				hit = nw.Contains(seen)
			}
			if hit != vfC10In(s.conf.Match[r], l.ip) {
				return out, fmt.Errorf("%s: the gated host saw the remote as %s (source address not under control)", desc, out.SeenIP)
			}
		}
	}
	cls := func(kind, r string) string {
		c := fmt.Sprintf("%s:net:%s:%s:%s", kind, l.dir, vfC10Kind(r), l.tpt)
		if l.pre != "none" || l.opt != "plain" {
			c += ":" + l.pre + "+" + l.opt
		}
		return c
	}
	// the statement's clause: blocked (call returned) before the attempt and ever since
	if len(blk) > 0 && out.NewConn {
		s.mismatch(cls("blocked-new-connection", blk[0]), fmt.Sprintf("Block(%v) had returned before the %s began and was not undone: a NEW connection appeared on the gated swarm (local result: %s)", blk, desc, out.Local), "no new connection", out)
	}
	if l.tdial && len(l.tdialBlk) > 0 {
		s.mismatch(cls("blocked-transport-dial", l.tdialBlk[0]), fmt.Sprintf("Block(%v) had returned before the %s began: the transport's Dial was called (%d call(s), %d accept(s) at the remote)", l.tdialBlk, desc, out.TransportDials, out.RemoteAccepts), "no dial", out)
	}
	// in force at every consultation of the connection (from its arrival on)
	if len(cont) > 0 && out.NewConn && len(blk) == 0 {
		s.mismatch(cls("blocked-admitted", cont[0]), fmt.Sprintf("rule %v in force at every consultation of the %s (from its arrival at the listener on): the gated swarm had the connection", cont, desc), "refused", out)
	}
	if l.tdial && len(l.tdialCont) > 0 && len(l.tdialBlk) == 0 {
		s.mismatch(cls("blocked-transport-dial", l.tdialCont[0]), fmt.Sprintf("rule %v in force at every consultation before the transport dial of the %s: Dial was called", l.tdialCont, desc), "no dial", out)
	}
	// over-blocking: nothing that matches is or may be blocked, the attempt creates a connection in the model, the gater refused
	var inForce, free []string
	someOut := false
	for _, r := range s.matching(l.peer, l.ip) {
		switch s.must[r] {
		case "in":
			inForce = append(inForce, r)
		case "free":
			free = append(free, r)
		case "out":
			someOut = true
		}
	}
	gaterRefusal := out.RefusedAt != "" || (l.localDone != nil && l.localDone.err != nil && errors.Is(l.localDone.err, swarm.ErrGaterDisallowedConnection))
	if end == "admitted" && !out.NewConn && !l.cut && !l.interleaved && len(inForce) == 0 && len(free) == 0 {
		if gaterRefusal {
			c := fmt.Sprintf("unblocked-refused:net:%s:%s", l.dir, l.tpt)
			if !someOut {
				c = "L2:net:never-blocked-refused"
			}
			s.mismatch(c, fmt.Sprintf("no matching rule blocked, %s: refused by the gater at %q (%s)", desc, out.RefusedAt, out.Local), "admitted", out)
		} else if l.form != "mapped" && !l.auto {
			return out, fmt.Errorf("%s failed for a reason that is not the gater: local %q remote %q", desc, out.Local, out.Remote)
		}
	}
	// model conformance (L2)
	if !l.cut && l.form != "mapped" {
		switch end {
		case "admitted":
			if !out.NewConn {
				s.mismatch("L2:net:outcome", fmt.Sprintf("%s: no new connection, model admits (local %q remote %q)", desc, out.Local, out.Remote), end, out)
			}
		case "refused":
			want := op.S("stage")
			if out.NewConn {
				s.mismatch("L2:net:outcome", fmt.Sprintf("%s: new connection, model refuses at %s", desc, want), end, out)
			} else if out.RefusedAt != want && !l.auto {
				s.mismatch("L2:net:refusing-stage", fmt.Sprintf("%s: refused at %q, model at %q", desc, out.RefusedAt, want), want, out)
			}
		case "reused":
			if out.NewConn || l.localDone == nil || l.localDone.err != nil || len(out.GateLog) > 0 || out.TransportDials > 0 {
				s.mismatch("L2:net:outcome", fmt.Sprintf("%s: model re-uses the connection held; real: new=%v local=%q consultations=%d dials=%d", desc, out.NewConn, out.Local, len(out.GateLog), out.TransportDials), end, out)
			}
		case "noconn":
			if out.NewConn || l.localDone == nil || l.localDone.err == nil || len(out.GateLog) > 0 || out.TransportDials > 0 {
				s.mismatch("L2:net:outcome", fmt.Sprintf("%s: model makes no connection and no dial; real: new=%v local=%q consultations=%d dials=%d", desc, out.NewConn, out.Local, len(out.GateLog), out.TransportDials), end, out)
			}
		}
	}
	return out, nil
}

func vfC10Keys(m map[string]bool) []string {
	out := make([]string, 0, len(m))
	for k := range m {
		out = append(out, k)
	}
	sort.Strings(out)
	return out
}

func vfC10Has(l []string, x string) bool {
	for _, e := range l {
		if e == x {
			return true
		}
	}
	return false
}

// abort: the process "crashed" in the middle of an attempt
func (n *vfC10Net) abort(s *vfC10Sys) error {
	if n.live == nil {
		return nil
	}
	n.live.auto, n.live.aborted = true, true
	n.live.cancel()
	_, err := n.finish(s, vfh.Op{"end": "-", "stage": "-"})
	return err
}

func TestVerifC10Net(t *testing.T) {
	files, _ := filepath.Glob(filepath.Join(vfh.In(), "*.jsonl"))
	if len(files) == 0 {
		t.Fatal("no behaviour files in VERIF_IN")
	}
	sort.Strings(files)
	res := vfh.NewResult()
	res.Rule = "each walk action by action: rule calls / crashes / reopening on the real gater behind the gated swarm; each model attempt as a real DialPeer/NewStream (direction, transport, connection already held, dial options) whose Intercept* calls and transport Dial calls are stopped and released one at a time as the model's stages say; distinct = (instance, rule set listed, attempt parameters, stages at which a rule call was interleaved)"
	n, err := vfC10NetSetup()
	if err != nil {
		t.Fatalf("cannot set up the loopback swarms: %v", err)
	}
	defer n.close()
	n.res = res
	forms := vfC10Forms()
	stats := map[string]int{}
	listen := map[string]string{}
	for k, v := range n.a.listen {
		listen["pa/"+k] = v.String()
	}
	for nm, h := range n.remote {
		for k, v := range h.listen {
			listen[nm+"/"+k] = v.String()
		}
	}
	res.Set("listen_addrs", listen)
	for _, fn := range files {
		hdr, walks, err := vfh.LoadWalks(fn)
		if err != nil {
			t.Fatal(err)
		}
		conf, name, err := vfC10LoadConf(hdr)
		if err != nil {
			t.Fatal(err)
		}
		relay := false
		for _, p := range conf.Pres {
			relay = relay || p == "relayed"
		}
		n.a.tpts["ws"].proxy.Store(relay) // the relay-like transport of the instances that need one
		for _, w := range walks {
			sys, err := vfC10NewSys(conf, res, forms, uint64(vfh.Seed())*999983+uint64(w.Walk)*104729)
			if err != nil {
				t.Fatal(err)
			}
			sys.inst, sys.walk, sys.step = name, w.Walk, -1
			n.sys.Store(sys)
			st0, err := vfC10ParseState(w.Init)
			if err != nil {
				t.Fatal(err)
			}
			if err := sys.check(st0); err != nil {
				t.Fatal(err)
			}
			skipping := false
			inter := ""
			var startOp vfh.Op
			form := "plain"
			for i, stp := range w.Steps {
				sys.step = i
				sys.prefix = append(sys.prefix, stp.Op)
				op := stp.Op
				fail := func(err error) {
					t.Fatalf("%s walk %d step %d %v: %v", name, w.Walk, i, op, err)
				}
				switch op.Name() {
				case "att_start":
					startOp, inter, skipping = op, "", false
					x := n.remote[op.S("peer")]
					if (op.S("tpt") == "ws" || op.S("tpt") == "rtc") && op.S("dir") == "in" && x != nil && x.ip4 != nil {
						stats["attempts_skipped_source_not_bindable"]++
						skipping = true
						break
					}
					form = "plain"
					if op.S("dir") == "out" && op.S("pre") == "none" && op.S("opt") == "plain" && (op.S("tpt") == "tcp" || op.S("tpt") == "quic" || op.S("tpt") == "ws") {
						switch k := sys.rnd.intn(4); {
						case k == 1:
							form = "p2p"
						case k == 2:
							form = "dns"
						case k == 3 && conf.Exclusive && op.S("ip") != "i6" && vfC10NetAddrBlocked(sys, op.S("ip")):
							form = "mapped" // dialable only as far as the gater; used where the gater has to stop it
						}
					}
					if err := n.start(sys, op, form); err != nil {
						fail(err)
					}
				case "att_step":
					if skipping {
						break
					}
					if n.live == nil {
						fail(fmt.Errorf("att_step without a live attempt"))
					}
					if err := n.step(sys, op); err != nil {
						fail(err)
					}
					if op.S("end") == "-" {
						break
					}
					out, err := n.finish(sys, op)
					if err != nil {
						fail(err)
					}
					stats["attempts"]++
					stats["attempts_"+startOp.S("dir")]++
					stats["attempts_"+startOp.S("tpt")]++
					stats["attempts_form_"+form]++
					stats["attempts_pre_"+startOp.S("pre")]++
					stats["attempts_opt_"+startOp.S("opt")]++
					stats["attempts_end_"+op.S("end")]++
					if inter != "" {
						stats["attempts_with_interleaved_rule_calls"]++
					}
					if out.NewConn {
						stats["attempts_admitted"]++
					} else if out.RefusedAt != "" {
						stats["attempts_refused"]++
						stats["attempts_refused_at_"+out.RefusedAt]++
						if startOp.S("dir") == "out" && (out.RefusedAt == "accept" || out.RefusedAt == "secured_in") {
							stats["attempts_holepunch_refused_at_listener"]++
						}
					}
					if vfC10Has(out.Stages, "arrive") && startOp.S("dir") == "out" && out.NewConn {
						stats["attempts_holepunch_admitted"]++
					}
					res.Case(fmt.Sprintf("%s|%v|%s|%s|%s|%s|%s|%s|%s", name, sys.lastListed, startOp.S("dir"), startOp.S("peer"), startOp.S("tpt"), startOp.S("pre"), startOp.S("opt"), form, inter))
					if stats["attempts"] <= 2 || (inter != "" && stats["attempts_with_interleaved_rule_calls"] <= 2) {
						res.Sample(map[string]any{"attempt": startOp, "form": form, "interleaved": inter, "outcome": out})
					}
				default:
					if op.Name() == "crash" && n.live != nil {
						if err := n.abort(sys); err != nil {
							fail(err)
						}
					}
					if err := sys.apply(op); err != nil {
						fail(err)
					}
					n.track(sys)
					if n.live != nil {
						inter += fmt.Sprintf("%s:%s:%s@%d;", op.Name(), op.S("kind"), op.S("r"), len(n.live.stages))
					}
					st, err := vfC10ParseState(stp.State)
					if err != nil {
						t.Fatal(err)
					}
					if err := sys.check(st); err != nil {
						fail(err)
					}
					stats["rule_steps"]++
					if op.Name() == "reopen" {
						stats["reopens"]++
					}
				}
			}
			if n.live != nil {
				if err := n.abort(sys); err != nil {
					t.Fatalf("%s walk %d: %v", name, w.Walk, err)
				}
			}
			sys.close()
			res.Count(1, len(w.Steps))
		}
	}
	for k, v := range stats {
		res.Set(k, v)
	}
	for k, v := range n.stats {
		res.Set(k, v)
	}
	if err := res.Write(); err != nil {
		t.Fatal(err)
	}
}

// vfC10NetAddrBlocked: does the ledger say an address/subnet rule matching ip is blocked right now?
func vfC10NetAddrBlocked(s *vfC10Sys, ip string) bool {
	for _, r := range s.matching("", ip) {
		if vfC10Kind(r) != "peer" && s.must[r] == "in" {
			return true
		}
	}
	return false
}
