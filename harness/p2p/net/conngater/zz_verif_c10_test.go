//go:build verif

package conngater_test

// Conformance harness for C10 (blocked peers, addresses and subnets never obtain a connection; rules
// persist).  spec/C10_Gater.tla.
//
// TestVerifC10Replay executes covering walks of the TLC state graphs on the real BasicConnectionGater
// over a datastore wrapper that stops every Put/Delete at a gate: the harness decides there whether
// the write is applied, fails, or the "process" crashes before/after applying it (panic, recovered,
// gater discarded, a new gater opened on the same store).  After EVERY step the rule lists, the raw
// store and the answers of all Intercept* functions over a matrix of address forms are compared with
// the model state (L2) and with the statement's clauses computed from the harness's own ledger of
// returned calls (L1).
//
// TestVerifC10Net composes the same system with real swarms over loopback TCP and QUIC (file
// zz_verif_c10_net_test.go).

import (
	"bytes"
	"context"
	"crypto/sha256"
	"encoding/json"
	"errors"
	"fmt"
	"log/slog"
	"net"
	"os"
	"path/filepath"
	"sort"
	"strings"
	"sync"
	"sync/atomic"
	"testing"
	"time"

	"github.com/ipfs/go-datastore"
	"github.com/ipfs/go-datastore/query"
	dssync "github.com/ipfs/go-datastore/sync"
	"github.com/libp2p/go-libp2p/core/crypto"
	"github.com/libp2p/go-libp2p/core/network"
	"github.com/libp2p/go-libp2p/core/peer"
	"github.com/libp2p/go-libp2p/gologshim"
	"github.com/libp2p/go-libp2p/internal/vfh"
	"github.com/libp2p/go-libp2p/p2p/net/conngater"
	ma "github.com/multiformats/go-multiaddr"
)

func init() {
	// the gater logs every injected datastore error at error level; keep the harness output readable
	gologshim.SetDefaultHandler(slog.DiscardHandler)
}

const vfC10Wait = 30 * time.Second // machinery time-out, never a verdict

// ---------------------------------------------------------------------------------------------
// scale map: the names of spec/C10_MC.tla and their concrete values

var vfC10IPs = map[string]string{
	"i0": "126.255.255.255", "j0": "127.0.0.0", "i1": "127.0.0.1", "i2": "127.0.0.2", "i3": "127.0.0.3",
	"i4": "127.0.0.4", "i8": "127.255.255.255", "i9": "128.0.0.0",
	"i5": "::", "i6": "::1", "i7": "::2",
}

type vfC10RuleDef struct {
	kind string // peer | addr | subnet
	val  string // ip or cidr (peer: the name)
}

var vfC10Rules = map[string]vfC10RuleDef{
	"p2": {"peer", "p2"}, "p3": {"peer", "p3"}, "p6": {"peer", "p6"},
	"a2": {"addr", "127.0.0.2"}, "a6": {"addr", "::1"},
	"n31": {"subnet", "127.0.0.2/31"}, "n32": {"subnet", "127.0.0.3/32"}, "n8": {"subnet", "127.0.0.0/8"},
	"n128": {"subnet", "::1/128"}, "n0": {"subnet", "::/0"},
	// the subnets n31 / n8 given with host bits set (as net.Interface.Addrs returns them, for instance)
	"n31h": {"subnet", "127.0.0.3/31"}, "n8h": {"subnet", "127.0.0.2/8"},
}

var vfC10PeerNames = []string{"p2", "p3", "p6", "px", "pa"} // px: never a rule; pa: the gated host itself

type vfC10Ident struct {
	priv crypto.PrivKey
	id   peer.ID
}

var (
	vfC10IdentOnce sync.Once
	vfC10Idents    map[string]vfC10Ident
	vfC10PeerName  map[peer.ID]string
)

func vfC10Ids() map[string]vfC10Ident {
	vfC10IdentOnce.Do(func() {
		vfC10Idents = map[string]vfC10Ident{}
		vfC10PeerName = map[peer.ID]string{}
		for _, n := range vfC10PeerNames {
			h := sha256.Sum256([]byte("verif-C10-" + n))
			priv, _, err := crypto.GenerateEd25519Key(bytes.NewReader(append(h[:], h[:]...)))
			if err != nil {
				panic(err)
			}
			id, err := peer.IDFromPrivateKey(priv)
			if err != nil {
				panic(err)
			}
			vfC10Idents[n] = vfC10Ident{priv, id}
			vfC10PeerName[id] = n
		}
	})
	return vfC10Idents
}

// the forms in which one remote IP can reach the gater.  class: ip4 | ip6 | mapped | noip
type vfC10Form struct {
	ipIdx int    // index of ip in vfC10IPNames (0 = no IP component)
	ip    string // abstract IP name, "" for forms without an IP component
	class string
	text  string
	addr  ma.Multiaddr
}

func vfC10Forms() []vfC10Form {
	ids := vfC10Ids()
	relay, tgt := ids["px"].id.String(), ids["p3"].id.String()
	var out []vfC10Form
	add := func(ip, class, text string) {
		a, err := ma.NewMultiaddr(text)
		if err != nil {
			panic(fmt.Sprintf("form %q: %v", text, err))
		}
		idx := 0
		for i, n := range vfC10IPNames() {
			if n == ip {
				idx = i
			}
		}
		out = append(out, vfC10Form{idx, ip, class, text, a})
	}
	names := make([]string, 0, len(vfC10IPs))
	for n := range vfC10IPs {
		names = append(names, n)
	}
	sort.Strings(names)
	for _, n := range names {
		v := vfC10IPs[n]
		ip := net.ParseIP(v)
		if ip.To4() != nil {
			for _, suf := range []string{"/tcp/4001", "/udp/4001/quic-v1", "/tcp/4001/ws", "/tcp/443/tls/ws",
				"/udp/4001/quic-v1/webtransport", "/udp/4001/webrtc-direct", "/tcp/4001/p2p/" + tgt, "",
				"/tcp/4001/p2p/" + relay + "/p2p-circuit", "/udp/4001/quic-v1/p2p/" + relay + "/p2p-circuit/p2p/" + tgt} {
				add(n, "ip4", "/ip4/"+v+suf)
			}
			b := ip.To4()
			hex := fmt.Sprintf("::ffff:%02x%02x:%02x%02x", b[0], b[1], b[2], b[3])
			for _, suf := range []string{"/tcp/4001", "/udp/4001/quic-v1", "/tcp/4001/p2p/" + tgt, ""} {
				add(n, "mapped", "/ip6/::ffff:"+v+suf)
			}
			add(n, "mapped", "/ip6/"+hex+"/tcp/4001")
			add(n, "mapped", "/ip6/0:0:0:0:0:ffff:"+v+"/udp/4001/quic-v1")
		} else {
			full := vfC10Expand(ip)
			for _, suf := range []string{"/tcp/4001", "/udp/4001/quic-v1", "/tcp/4001/ws", "/udp/4001/quic-v1/webtransport",
				"/udp/4001/webrtc-direct", "/tcp/4001/p2p/" + tgt, "", "/tcp/4001/p2p/" + relay + "/p2p-circuit"} {
				add(n, "ip6", "/ip6/"+v+suf)
			}
			add(n, "ip6", "/ip6/"+full+"/tcp/4001")
			add(n, "ip6", "/ip6zone/lo/ip6/"+v+"/tcp/4001")
		}
	}
	for _, t := range []string{"/dns4/blocked.example/tcp/443", "/dns6/blocked.example/udp/443/quic-v1", "/dns/blocked.example/tcp/443/wss",
		"/dnsaddr/blocked.example", "/dns4/127.0.0.2/tcp/4001", "/p2p/" + relay + "/p2p-circuit", "/p2p/" + relay + "/p2p-circuit/p2p/" + tgt,
		"/unix/tmp/verif.sock", "/tcp/4001"} {
		add("", "noip", t)
	}
	return out
}

// vfC10IPNames: "" first, then the abstract IP names sorted
func vfC10IPNames() []string {
	names := []string{}
	for n := range vfC10IPs {
		names = append(names, n)
	}
	sort.Strings(names)
	return append([]string{""}, names...)
}

func vfC10Expand(ip net.IP) string {
	b := ip.To16()
	parts := make([]string, 8)
	for i := 0; i < 8; i++ {
		parts[i] = fmt.Sprintf("%x", int(b[2*i])<<8|int(b[2*i+1]))
	}
	return strings.Join(parts, ":")
}

// concrete arithmetic: does the rule match the IP?  (cross-checked against the model's Match table)
func vfC10RuleMatchesIP(rule string, ipName string) bool {
	d := vfC10Rules[rule]
	ip := net.ParseIP(vfC10IPs[ipName])
	switch d.kind {
	case "addr":
		return net.ParseIP(d.val).Equal(ip)
	case "subnet":
		_, n, err := net.ParseCIDR(d.val)
		if err != nil {
			panic(err)
		}
		return n.Contains(ip)
	}
	return false
}

// ---------------------------------------------------------------------------------------------
// the datastore whose writes stop at a gate

type vfC10CrashSignal struct{}

var vfC10ErrInjected = errors.New("verif C10: injected datastore write failure")

type vfC10Ctl struct {
	reached chan string // "before" / "after", sent by the writing goroutine
	instr   chan string // "apply" | "fail" | "crash" | "return", sent by the harness
}

type vfC10DS struct {
	inner  datastore.Datastore
	ctl    atomic.Pointer[vfC10Ctl]
	writes atomic.Int64
}

func (d *vfC10DS) gate(apply func() error) error {
	d.writes.Add(1)
	c := d.ctl.Load()
	if c == nil {
		return apply()
	}
	c.reached <- "before"
	switch <-c.instr {
	case "fail":
		return vfC10ErrInjected
	case "crash":
		panic(vfC10CrashSignal{})
	}
	err := apply()
	c.reached <- "after"
	if <-c.instr == "crash" {
		panic(vfC10CrashSignal{})
	}
	return err
}

func (d *vfC10DS) Get(ctx context.Context, k datastore.Key) ([]byte, error) {
	return d.inner.Get(ctx, k)
}
func (d *vfC10DS) Has(ctx context.Context, k datastore.Key) (bool, error) { return d.inner.Has(ctx, k) }
func (d *vfC10DS) GetSize(ctx context.Context, k datastore.Key) (int, error) {
	return d.inner.GetSize(ctx, k)
}
func (d *vfC10DS) Query(ctx context.Context, q query.Query) (query.Results, error) {
	return d.inner.Query(ctx, q)
}
func (d *vfC10DS) Put(ctx context.Context, k datastore.Key, v []byte) error {
	return d.gate(func() error { return d.inner.Put(ctx, k, v) })
}
func (d *vfC10DS) Delete(ctx context.Context, k datastore.Key) error {
	return d.gate(func() error { return d.inner.Delete(ctx, k) })
}
func (d *vfC10DS) Sync(ctx context.Context, k datastore.Key) error { return d.inner.Sync(ctx, k) }
func (d *vfC10DS) Close() error                                    { return nil }

// ---------------------------------------------------------------------------------------------
// model state / configuration

type vfC10State struct {
	Mem   []string
	Disk  []string
	Shown []string // what ListBlocked* returns (names by value)
	Up    bool
	Call  [3]string // kind, rule, pc
	Att   struct {
		Dir, Peer, IP, Tpt string
		K                  int
		Pre, Opt           string
	}
}

func vfC10ParseState(raw json.RawMessage) (vfC10State, error) {
	var st vfC10State
	var top []json.RawMessage
	if err := json.Unmarshal(raw, &top); err != nil || len(top) != 6 {
		return st, fmt.Errorf("state layout: %v %s", err, string(raw))
	}
	var att []any
	for i, dst := range []any{&st.Mem, &st.Disk, &st.Up, &st.Call, &att, &st.Shown} {
		if err := json.Unmarshal(top[i], dst); err != nil {
			return st, fmt.Errorf("state field %d: %v in %s", i, err, string(raw))
		}
	}
	if len(att) != 7 {
		return st, fmt.Errorf("att layout %s", string(raw))
	}
	st.Att.Dir, _ = att[0].(string)
	st.Att.Peer, _ = att[1].(string)
	st.Att.IP, _ = att[2].(string)
	st.Att.Tpt, _ = att[3].(string)
	if f, ok := att[4].(float64); ok {
		st.Att.K = int(f)
	}
	st.Att.Pre, _ = att[5].(string)
	st.Att.Opt, _ = att[6].(string)
	sort.Strings(st.Mem)
	sort.Strings(st.Disk)
	sort.Strings(st.Shown)
	return st, nil
}

type vfC10Conf struct {
	Match     map[string][]string `json:"match"`
	Canon     map[string]string   `json:"canon"`
	Peers     []string            `json:"peers"`
	Addrs     []string            `json:"addrs"`
	Subnets   []string            `json:"subnets"`
	Endpoints [][]string          `json:"endpoints"`
	Exclusive bool                `json:"exclusive"`
	Pres      []string            `json:"pres"`
	Opts      []string            `json:"opts"`
	Tpts      []string            `json:"tpts"`
	Faults    []string            `json:"faults"`
}

func (c *vfC10Conf) rules() []string {
	out := append(append(append([]string{}, c.Peers...), c.Addrs...), c.Subnets...)
	sort.Strings(out)
	return out
}

func (c *vfC10Conf) ipRules() []string { return append(append([]string{}, c.Addrs...), c.Subnets...) }

// validate checks the model's Match table against real CIDR arithmetic over the whole IP universe.
func (c *vfC10Conf) validate() error {
	for _, r := range c.rules() {
		if _, ok := vfC10Rules[r]; !ok {
			return fmt.Errorf("rule %s not in the scale map", r)
		}
	}
	for _, r := range c.ipRules() {
		in := map[string]bool{}
		for _, ip := range c.Match[r] {
			if _, ok := vfC10IPs[ip]; !ok {
				return fmt.Errorf("ip %s not in the scale map", ip)
			}
			in[ip] = true
		}
		for ip := range vfC10IPs {
			if vfC10RuleMatchesIP(r, ip) != in[ip] {
				return fmt.Errorf("scale map and model disagree: rule %s (%s) ip %s (%s): model %v", r, vfC10Rules[r].val, ip, vfC10IPs[ip], in[ip])
			}
		}
	}
	return nil
}

func (c *vfC10Conf) matching(peerName, ipName string) []string {
	var out []string
	for _, p := range c.Peers {
		if p == peerName {
			out = append(out, p)
		}
	}
	if ipName != "" {
		for _, r := range c.ipRules() {
			for _, ip := range c.Match[r] {
				if ip == ipName {
					out = append(out, r)
				}
			}
		}
	}
	return out
}

// ---------------------------------------------------------------------------------------------
// the system under test: store + gater + ledger of returned calls

type vfC10CallRes struct {
	err     error
	crashed bool
	panicV  any
}

type vfC10Call struct {
	kind, rule string
	prev       string
	prevAll    map[string]string
	ctl        *vfC10Ctl
	done       chan vfC10CallRes
	form       string
}

type vfC10Sys struct {
	conf    *vfC10Conf
	raw     datastore.Datastore
	ds      *vfC10DS
	g       atomic.Pointer[conngater.BasicConnectionGater]
	infl    *vfC10Call
	must    map[string]string // ledger: in | out | never | free
	reopens int
	res     *vfh.Result
	forms   []vfC10Form
	rnd     *vfC10Rand
	// context for mismatch reports
	inst   string
	walk   int
	step   int
	prefix []vfh.Op
	// attempt in progress (replay of interleaved consultations)
	att *vfC10Att
	// the gate matrix is evaluated completely whenever the rule set may have changed, and one rotating
	// eighth of the address forms otherwise
	lastListed string
	forceFull  bool
	matchMemo  map[[2]string][]string
	diskKeys   map[string]string
	ipNames    []string
	seenSit    map[string]int // situations (listed rules, call in flight, reopened) already evaluated completely
}

type vfC10Att struct {
	dir, peer, ip, tpt string
	form               vfC10Form
	cont               map[string]bool // matching rules the ledger obliged ("in") at every consultation so far
	diverged           bool
}

// small deterministic generator (splitmix64)
type vfC10Rand struct{ s uint64 }

func (r *vfC10Rand) next() uint64 {
	r.s += 0x9e3779b97f4a7c15
	z := r.s
	z = (z ^ (z >> 30)) * 0xbf58476d1ce4e5b9
	z = (z ^ (z >> 27)) * 0x94d049bb133111eb
	return z ^ (z >> 31)
}
func (r *vfC10Rand) intn(n int) int { return int(r.next() % uint64(n)) }

func vfC10NewSys(conf *vfC10Conf, res *vfh.Result, forms []vfC10Form, seed uint64) (*vfC10Sys, error) {
	s := &vfC10Sys{conf: conf, res: res, forms: forms, rnd: &vfC10Rand{s: seed}, must: map[string]string{}, ipNames: vfC10IPNames()}
	s.raw = dssync.MutexWrap(datastore.NewMapDatastore())
	s.ds = &vfC10DS{inner: s.raw}
	for _, r := range conf.rules() {
		s.must[r] = "never" // never blocked; "out" = an Unblock returned success (what the statement speaks about)
	}
	g, err := conngater.NewBasicConnectionGater(s.ds)
	if err != nil {
		return nil, err
	}
	s.g.Store(g)
	return s, nil
}

func (s *vfC10Sys) mismatch(class, what string, exp, got any) {
	pre := make([]vfh.Op, len(s.prefix))
	copy(pre, s.prefix)
	s.res.AddMismatch(vfh.Mismatch{Class: class, What: fmt.Sprintf("[%s walk %d step %d] %s", s.inst, s.walk, s.step, what),
		Walk: s.walk, Step: s.step, Expected: exp, Got: got, Prefix: pre,
		Cfg: map[string]any{"instance": s.inst, "ledger": vfC10CopyMap(s.must), "reopens": s.reopens}})
}

func vfC10CopyMap(m map[string]string) map[string]string {
	o := map[string]string{}
	for k, v := range m {
		o[k] = v
	}
	return o
}

// the argument forms of one rule: every form denotes the same address / subnet
func (s *vfC10Sys) doCall(g *conngater.BasicConnectionGater, kind, rule string, variant int) (string, func() error) {
	d := vfC10Rules[rule]
	block := kind == "block"
	switch d.kind {
	case "peer":
		id := vfC10Ids()[rule].id
		if block {
			return "peer", func() error { return g.BlockPeer(id) }
		}
		return "peer", func() error { return g.UnblockPeer(id) }
	case "addr":
		ip := net.ParseIP(d.val)
		form := "ip16"
		if ip.To4() != nil && variant%2 == 1 {
			ip, form = ip.To4(), "ip4bytes"
		} else {
			ip = ip.To16()
		}
		if block {
			return form, func() error { return g.BlockAddr(ip) }
		}
		return form, func() error { return g.UnblockAddr(ip) }
	default:
		hip, n, err := net.ParseCIDR(d.val)
		if err != nil {
			panic(err)
		}
		form := "cidr"
		if !hip.Equal(n.IP) {
			// a spelling with host bits set: hand it over as it is (the gater has to key the rule by the masked network)
			switch variant % 3 {
			case 0:
				n, form = &net.IPNet{IP: hip.To4(), Mask: n.Mask}, "hostbits"
			case 1:
				n, form = &net.IPNet{IP: hip.To16(), Mask: n.Mask}, "hostbits-ip16-mask4"
			default:
				ones, _ := n.Mask.Size()
				n, form = &net.IPNet{IP: hip.To16(), Mask: net.CIDRMask(ones+96, 128)}, "hostbits-mapped"
			}
		} else if n.IP.To4() != nil {
			ones, _ := n.Mask.Size()
			switch variant % 3 {
			case 1: // the same subnet written as an IPv4-mapped IPv6 prefix
				_, n6, err := net.ParseCIDR(fmt.Sprintf("::ffff:%s/%d", n.IP.String(), ones+96))
				if err != nil {
					panic(err)
				}
				n, form = n6, "mapped-cidr"
			case 2: // 16-byte network number with a 4-byte mask
				n, form = &net.IPNet{IP: n.IP.To16(), Mask: n.Mask}, "ip16-mask4"
			}
		}
		if block {
			return form, func() error { return g.BlockSubnet(n) }
		}
		return form, func() error { return g.UnblockSubnet(n) }
	}
}

func (s *vfC10Sys) begin(kind, rule string) error {
	g := s.g.Load()
	if g == nil || s.infl != nil {
		return fmt.Errorf("begin in a wrong harness state")
	}
	form, fn := s.doCall(g, kind, rule, s.rnd.intn(6))
	c := &vfC10Call{kind: kind, rule: rule, prev: s.must[rule], form: form,
		ctl: &vfC10Ctl{reached: make(chan string), instr: make(chan string)}, done: make(chan vfC10CallRes, 1)}
	c.prevAll = vfC10CopyMap(s.must)
	s.must[rule] = "free"
	s.aliases(rule, vfC10Opposite(kind)) // from the start of the call: it may take effect although it never returns
	s.infl = c
	s.ds.ctl.Store(c.ctl)
	go func() {
		defer func() {
			if r := recover(); r != nil {
				if _, ok := r.(vfC10CrashSignal); ok {
					c.done <- vfC10CallRes{crashed: true}
				} else {
					c.done <- vfC10CallRes{panicV: r}
				}
			}
		}()
		c.done <- vfC10CallRes{err: fn()}
	}()
	select {
	case <-c.ctl.reached:
		return nil
	case r := <-c.done:
		// the call returned without touching the datastore
		s.ds.ctl.Store(nil)
		s.infl = nil
		s.settle(c, r)
		s.mismatch("L2:call-without-datastore-write", fmt.Sprintf("%s(%s) returned (%v) without a datastore write", kind, rule, r.err), "write", "none")
		return nil
	case <-time.After(vfC10Wait):
		return fmt.Errorf("%s(%s): the call did not reach the datastore", kind, rule)
	}
}

// settle updates the ledger from what the real call returned
func (s *vfC10Sys) settle(c *vfC10Call, r vfC10CallRes) {
	switch {
	case r.crashed || r.panicV != nil:
		s.must[c.rule] = "free"
	case r.err != nil:
		s.must = c.prevAll // a call that returned an error obliges nothing new
	case c.kind == "block":
		s.must[c.rule] = "in"
	default:
		s.must[c.rule] = "out"
	}
}

// aliases: whether a call also undoes another SPELLING of the same subnet is left open (an implementation
// may or may not identify "127.0.0.3/31" with "127.0.0.2/31"): an opposite obligation of an alias lapses.
func (s *vfC10Sys) aliases(rule, opposite string) {
	canon := func(r string) string {
		if c := s.conf.Canon[r]; c != "" {
			return c
		}
		return r
	}
	for r, m := range s.must {
		if r != rule && canon(r) == canon(rule) && m == opposite {
			s.must[r] = "free"
		}
	}
}

func vfC10Opposite(kind string) string {
	if kind == "block" {
		return "out"
	}
	return "in"
}

func (s *vfC10Sys) waitDone(c *vfC10Call) (vfC10CallRes, error) {
	for {
		select {
		case r := <-c.done:
			s.ds.ctl.Store(nil)
			s.infl = nil
			if r.panicV != nil {
				return r, fmt.Errorf("%s(%s) panicked: %v", c.kind, c.rule, r.panicV)
			}
			s.settle(c, r)
			return r, nil
		case <-c.ctl.reached:
			// a further datastore write of the same call: let it through
			s.mismatch("L2:extra-datastore-write", fmt.Sprintf("%s(%s) wrote more than once", c.kind, c.rule), 1, 2)
			select {
			case c.ctl.instr <- "apply":
			case <-time.After(vfC10Wait):
				return vfC10CallRes{}, fmt.Errorf("stuck in an extra write")
			}
		case <-time.After(vfC10Wait):
			return vfC10CallRes{}, fmt.Errorf("%s(%s) did not return", c.kind, c.rule)
		}
	}
}

func (s *vfC10Sys) send(c *vfC10Call, instr string) error {
	select {
	case c.ctl.instr <- instr:
		return nil
	case <-time.After(vfC10Wait):
		return fmt.Errorf("writer not waiting for %q", instr)
	}
}

func (s *vfC10Sys) write(outcome string) error {
	c := s.infl
	if c == nil {
		return nil // begin already reported the call as finished
	}
	if outcome == "fail" {
		if err := s.send(c, "fail"); err != nil {
			return err
		}
		r, err := s.waitDone(c)
		if err != nil {
			return err
		}
		if r.err == nil {
			s.mismatch("L2:failed-write-reported-success", fmt.Sprintf("%s(%s): datastore write failed but the call returned nil", c.kind, c.rule), "error", "nil")
		}
		return nil
	}
	if err := s.send(c, "apply"); err != nil {
		return err
	}
	select {
	case <-c.ctl.reached:
		return nil
	case <-time.After(vfC10Wait):
		return fmt.Errorf("write not applied")
	}
}

func (s *vfC10Sys) finish() error {
	c := s.infl
	if c == nil {
		return nil
	}
	if err := s.send(c, "return"); err != nil {
		return err
	}
	r, err := s.waitDone(c)
	if err != nil {
		return err
	}
	if r.err != nil {
		s.must[c.rule] = "free"
		s.mismatch("L2:applied-write-reported-error", fmt.Sprintf("%s(%s): write applied, call returned %v", c.kind, c.rule, r.err), "nil", r.err.Error())
	}
	return nil
}

func (s *vfC10Sys) crash() error {
	if c := s.infl; c != nil {
		if err := s.send(c, "crash"); err != nil {
			return err
		}
		r, err := s.waitDone(c)
		if err != nil {
			return err
		}
		if !r.crashed {
			return fmt.Errorf("crash signal did not propagate out of %s(%s)", c.kind, c.rule)
		}
	}
	s.g.Store(nil) // the process is gone: its in-memory rule set with it
	s.att = nil
	return nil
}

func (s *vfC10Sys) reopen() error {
	s.reopens++
	g, err := conngater.NewBasicConnectionGater(s.ds)
	if err != nil {
		s.mismatch("reopen-fails", "NewBasicConnectionGater on the store written by the gater itself returned an error: "+err.Error(), "gater", err.Error())
		// keep the walk going with an empty gater over a throw-away store so that later steps are still comparable
		g, _ = conngater.NewBasicConnectionGater(nil)
	}
	s.g.Store(g)
	return nil
}

// ---------------------------------------------------------------------------------------------
// projections

func (s *vfC10Sys) listed(g *conngater.BasicConnectionGater) (map[string]bool, []string) {
	ids := vfC10Ids()
	out := map[string]bool{}
	var unknown []string
	for _, p := range g.ListBlockedPeers() {
		found := false
		for _, n := range s.conf.Peers {
			if ids[n].id == p {
				out[n], found = true, true
			}
		}
		if !found {
			unknown = append(unknown, "peer:"+p.String())
		}
	}
	for _, ip := range g.ListBlockedAddrs() {
		found := false
		for _, n := range s.conf.Addrs {
			if ip != nil && net.ParseIP(vfC10Rules[n].val).Equal(ip) {
				out[n], found = true, true
			}
		}
		if !found {
			unknown = append(unknown, "addr:"+ip.String())
		}
	}
	for _, sn := range g.ListBlockedSubnets() {
		found := false
		for _, n := range s.conf.Subnets {
			// by value: the text of the listed subnet (every argument form of one spelling prints alike)
			if sn != nil && sn.String() == vfC10Rules[n].val {
				out[n], found = true, true
			}
		}
		if !found && sn != nil {
			// a listed value that is the canonical spelling of a rule of this instance
			for _, n := range s.conf.Subnets {
				if c := s.conf.Canon[n]; c != n && sn.String() == vfC10Rules[c].val {
					out[c], found = true, true
				}
			}
		}
		if !found {
			unknown = append(unknown, "subnet:"+sn.String())
		}
	}
	return out, unknown
}

func (s *vfC10Sys) diskNames() ([]string, []string, error) {
	r, err := s.raw.Query(context.Background(), query.Query{})
	if err != nil {
		return nil, nil, err
	}
	es, err := r.Rest()
	if err != nil {
		return nil, nil, err
	}
	if s.diskKeys == nil {
		ids := vfC10Ids()
		s.diskKeys = map[string]string{}
		for _, n := range s.conf.rules() {
			d := vfC10Rules[n]
			switch d.kind {
			case "peer":
				s.diskKeys["/libp2p/net/conngater/peer/"+ids[n].id.String()] = n
			case "addr":
				s.diskKeys["/libp2p/net/conngater/addr/"+d.val] = n
			default:
				s.diskKeys["/libp2p/net/conngater/subnet/"+d.val] = n
			}
		}
	}
	want := s.diskKeys
	var names, unknown []string
	for _, e := range es {
		if n, ok := want[e.Key]; ok {
			names = append(names, n)
		} else {
			unknown = append(unknown, e.Key)
		}
	}
	sort.Strings(names)
	return names, unknown, nil
}

type vfC10Stub struct{ l, r ma.Multiaddr }

func (c vfC10Stub) LocalMultiaddr() ma.Multiaddr  { return c.l }
func (c vfC10Stub) RemoteMultiaddr() ma.Multiaddr { return c.r }

var vfC10Local = ma.StringCast("/ip4/127.0.0.1/tcp/4001")

// one gate consultation on the real gater, arguments exactly as the call sites pass them
func vfC10Consult(g *conngater.BasicConnectionGater, stage, dir string, p peer.ID, a ma.Multiaddr) bool {
	switch stage {
	case "peerdial":
		return g.InterceptPeerDial(p)
	case "addrdial":
		return g.InterceptAddrDial(p, a)
	case "accept":
		return g.InterceptAccept(vfC10Stub{vfC10Local, a})
	case "secured_in":
		return g.InterceptSecured(network.DirInbound, p, vfC10Stub{vfC10Local, a})
	case "secured_out":
		return g.InterceptSecured(network.DirOutbound, p, vfC10Stub{vfC10Local, a})
	case "upgraded":
		ok, _ := g.InterceptUpgraded(nil)
		return ok
	}
	return true
}

// the plain paths (no connection held, no dial option); "tdial" and "arrive" are not consultations
var vfC10StagesOut = []string{"peerdial", "addrdial", "tdial", "secured_out", "upgraded"}
var vfC10StagesIn = []string{"arrive", "accept", "secured_in", "upgraded"}

// pipeline runs all consultations of one attempt back to back (no interleaving)
func vfC10Pipeline(g *conngater.BasicConnectionGater, dir string, p peer.ID, a ma.Multiaddr) (admitted bool, refusedAt string, dialed bool) {
	st := vfC10StagesIn
	if dir == "out" {
		st = vfC10StagesOut
	}
	for _, x := range st {
		if x == "tdial" {
			dialed = true
			continue
		}
		if x == "arrive" {
			continue
		}
		if !vfC10Consult(g, x, dir, p, a) {
			return false, x, dialed
		}
	}
	return true, "", dialed
}

func vfC10In(l []string, x string) bool {
	for _, e := range l {
		if e == x {
			return true
		}
	}
	return false
}

func (s *vfC10Sys) modelIPBlocked(mem []string, ipName string) bool {
	if ipName == "" {
		return false
	}
	for _, r := range s.conf.ipRules() {
		if vfC10In(mem, r) && vfC10In(s.conf.Match[r], ipName) {
			return true
		}
	}
	return false
}

func vfC10Kind(rule string) string { return vfC10Rules[rule].kind }

// check compares the real system with the model state and evaluates the statement's clauses from the ledger.
func (s *vfC10Sys) check(st vfC10State) error {
	g := s.g.Load()
	if (g != nil) != st.Up {
		return fmt.Errorf("harness/model disagree about the process being up")
	}
	// the raw store (internal format: L2)
	disk, unk, err := s.diskNames()
	if err != nil {
		return err
	}
	if len(unk) > 0 || strings.Join(disk, ",") != strings.Join(st.Disk, ",") {
		s.mismatch("L2:disk-differs", fmt.Sprintf("datastore keys %v (+unknown %v), model %v", disk, unk, st.Disk), st.Disk, disk)
	}
	if g == nil {
		return nil
	}
	if s.infl == nil {
		s.checkUp(g, st)
		return nil
	}
	// a call stands inside the datastore write: readers must not depend on it; guard against a gater that
	// holds its lock across the write (that would hang the harness, not violate the statement)
	done := make(chan struct{})
	go func() { defer close(done); s.checkUp(g, st) }()
	select {
	case <-done:
		return nil
	case <-time.After(vfC10Wait):
		return fmt.Errorf("readers block while a call is inside the datastore write")
	}
}

func (s *vfC10Sys) checkUp(g *conngater.BasicConnectionGater, st vfC10State) {
	after := ""
	if s.reopens > 0 {
		after = fmt.Sprintf(" (after %d reopen(s))", s.reopens)
	}
	// rule lists
	listed, unknown := s.listed(g)
	if len(unknown) > 0 {
		s.mismatch("L2:unknown-rule-listed", fmt.Sprintf("ListBlocked* returned rules nobody blocked: %v", unknown), nil, unknown)
	}
	names := map[string]bool{}
	for _, r := range s.conf.rules() {
		names[r] = true
		if c := s.conf.Canon[r]; c != "" {
			names[c] = true
		}
	}
	for r := range names {
		canon := r
		if c := s.conf.Canon[r]; c != "" {
			canon = c
		}
		anySpelling := listed[r] || listed[canon]
		for y := range names {
			if c := s.conf.Canon[y]; c == canon && listed[y] {
				anySpelling = true
			}
		}
		switch {
		case s.must[r] == "in" && !anySpelling:
			s.mismatch("acked-block-not-listed:"+vfC10Kind(r), fmt.Sprintf("Block(%s=%s) returned success, no later call on it, but ListBlocked* does not contain it%s", r, vfC10Rules[r].val, after), "listed", "absent")
		case s.must[r] == "out" && listed[r]:
			// which history class: is another spelling of the same subnet in force (written by a call that was never undone)?
			cls := "acked-unblock-still-listed:" + vfC10Kind(r)
			for _, y := range s.conf.rules() {
				if y != r && s.conf.Canon[y] == r && (s.must[y] == "in" || s.must[y] == "free") {
					cls += ":listed-value-of-hostbits-spelling"
					break
				}
			}
			s.mismatch(cls, fmt.Sprintf("Unblock(%s=%s) returned success, no later call on it, but ListBlocked* still contains that value%s", r, vfC10Rules[r].val, after), "absent", "listed")
		case listed[r] != vfC10In(st.Shown, r):
			s.mismatch("L2:mem-differs", fmt.Sprintf("value %s listed=%v, model lists %v (mem %v)", r, listed[r], st.Shown, st.Mem), st.Shown, listed)
		}
	}
	// every gate function once per argument
	lk := fmt.Sprint(listed)
	full := s.forceFull || lk != s.lastListed
	s.lastListed, s.forceFull = lk, false
	if full && s.seenSit != nil {
		// the same situation (listed rules, call in flight, fresh or reopened process) is met thousands of
		// times along covering walks: evaluate the complete matrix the first two times, a rotating slice after
		sit := lk + "|" + st.Call[0] + st.Call[1] + st.Call[2] + fmt.Sprint(s.reopens > 0, s.must)
		if s.seenSit[sit] >= 2 {
			full = false
		}
		s.seenSit[sit]++
	}
	ids := vfC10Ids()
	peers := []string{"p2", "p3", "p6", "px"}
	peerDial, secIn := map[string]bool{}, map[string]bool{}
	rot := s.step + 1
	for _, p := range peers {
		pid := ids[p].id
		peerDial[p] = g.InterceptPeerDial(pid)
		f := s.forms[(rot*7+len(p))%len(s.forms)]
		secIn[p] = vfC10Consult(g, "secured_in", "in", pid, f.addr)
		want := !vfC10In(st.Mem, p)
		if peerDial[p] != want {
			s.mismatch("L2:gate:peerdial", fmt.Sprintf("InterceptPeerDial(%s)=%v, model mem %v", p, peerDial[p], st.Mem), want, peerDial[p])
		}
		if secIn[p] != want {
			s.mismatch("L2:gate:secured", fmt.Sprintf("InterceptSecured(in,%s,%s)=%v, model mem %v", p, f.text, secIn[p], st.Mem), want, secIn[p])
		}
		if !vfC10Consult(g, "secured_out", "out", pid, f.addr) {
			s.mismatch("L2:gate:secured-out", fmt.Sprintf("InterceptSecured(out,%s) refused", p), true, false)
		}
		rot++
	}
	if ok, _ := g.InterceptUpgraded(nil); !ok {
		s.mismatch("L2:gate:upgraded", "InterceptUpgraded refused", true, false)
	}
	// what the ledger obliges per (peer, ip): first blocked rule, or "" / whether anything is undetermined
	type obl struct {
		in   string
		free bool
		out  bool // some matching rule was unblocked with success
	}
	var obls [4][16]obl
	var have [4][16]bool
	oblOf := func(pi int, p string, ipIdx int, ip string) obl {
		if have[pi][ipIdx] {
			return obls[pi][ipIdx]
		}
		var o obl
		for _, r := range s.matching(p, ip) {
			switch s.must[r] {
			case "in":
				if o.in == "" {
					o.in = r
				}
			case "free":
				o.free = true
			case "out":
				o.out = true
			}
		}
		obls[pi][ipIdx], have[pi][ipIdx] = o, true
		return o
	}
	var blockedIP [16]bool
	for i, ip := range s.ipNames {
		blockedIP[i] = s.modelIPBlocked(st.Mem, ip)
	}
	n := 0
	for i, f := range s.forms {
		if !full && (i+s.step+1)%8 != 0 {
			continue
		}
		n++
		pid := ids[peers[(i+s.step+1)%len(peers)]].id // the peer argument is not looked at by the model's gate
		addrDial := g.InterceptAddrDial(pid, f.addr)
		accept := g.InterceptAccept(vfC10Stub{vfC10Local, f.addr})
		want := !blockedIP[f.ipIdx]
		if addrDial != want {
			s.mismatch("L2:gate:addrdial:"+f.class, fmt.Sprintf("InterceptAddrDial(%s)=%v, model mem %v", f.text, addrDial, st.Mem), want, addrDial)
		}
		if accept != want {
			s.mismatch("L2:gate:accept:"+f.class, fmt.Sprintf("InterceptAccept(remote %s)=%v, model mem %v", f.text, accept, st.Mem), want, accept)
		}
		// the statement's clauses per (peer, address form, direction), from the ledger only
		for pi, p := range peers {
			o := oblOf(pi, p, f.ipIdx, f.ip)
			for _, dir := range []string{"out", "in"} {
				var composed bool
				if dir == "out" {
					composed = peerDial[p] && addrDial
				} else {
					composed = accept && secIn[p]
				}
				if o.in != "" && composed {
					// confirm with the exact arguments before reporting
					adm, _, dialed := vfC10Pipeline(g, dir, ids[p].id, f.addr)
					if adm || dialed {
						r := o.in
						s.mismatch(fmt.Sprintf("blocked-admitted:%s:%s:%s", dir, vfC10Kind(r), f.class),
							fmt.Sprintf("rule %s (%s) is blocked (Block returned success, nothing since) yet a %sbound connection peer=%s addr=%s passes every gate consultation%s%s",
								r, vfC10Rules[r].val, dir, p, f.text, map[bool]string{true: " and the transport dial is started", false: ""}[dialed && dir == "out"], after),
							"refused", "admitted")
					}
				}
				if o.in == "" && !o.free && !composed {
					adm, at, _ := vfC10Pipeline(g, dir, ids[p].id, f.addr)
					if !adm {
						cls := fmt.Sprintf("unblocked-refused:%s:%s", dir, f.class)
						if !o.out {
							cls = "L2:never-blocked-refused" // over-blocking of something never blocked: outside the statement
						}
						s.mismatch(cls,
							fmt.Sprintf("no matching rule is blocked (every Unblock returned success / never blocked) yet a %sbound connection peer=%s addr=%s is refused at %s%s",
								dir, p, f.text, at, after), "admitted", "refused@"+at)
					}
				}
			}
		}
	}
	s.res.Inc("gate_calls", 3*len(peers)+1+2*n)
	if full {
		s.res.Inc("full_matrix_evaluations", 1)
	}
}

// ---------------------------------------------------------------------------------------------
// interleaved attempts (replay of consultations one at a time against the running gater)

func (s *vfC10Sys) attStart(op vfh.Op) {
	var cands []vfC10Form
	for _, f := range s.forms {
		if f.ip == op.S("ip") {
			cands = append(cands, f)
		}
	}
	a := &vfC10Att{dir: op.S("dir"), peer: op.S("peer"), ip: op.S("ip"), tpt: op.S("tpt"), cont: map[string]bool{}}
	a.form = cands[s.rnd.intn(len(cands))]
	for _, r := range s.matching(a.peer, a.ip) {
		a.cont[r] = true
	}
	s.att = a
}

func (s *vfC10Sys) contNow(a *vfC10Att) []string {
	var out []string
	for r := range a.cont {
		if s.must[r] == "in" {
			out = append(out, r)
		} else {
			delete(a.cont, r)
		}
	}
	sort.Strings(out)
	return out
}

func (s *vfC10Sys) attStep(op vfh.Op) {
	a, g := s.att, s.g.Load()
	if a == nil || g == nil || a.diverged {
		if op.S("end") != "-" {
			s.att = nil
		}
		return
	}
	stage := op.S("stage")
	pid := vfC10Ids()[a.peer].id
	if stage == "arrive" {
		// the connection reaches the listener: from here on its own consultations count
		for _, r := range s.matching(a.peer, a.ip) {
			a.cont[r] = true
		}
		s.contNow(a)
		return
	}
	if stage == "tdial" {
		if c := s.contNow(a); len(c) > 0 {
			s.mismatch("blocked-transport-dial:"+vfC10Kind(c[0]), fmt.Sprintf("rule %v blocked during every consultation before the transport dial of peer=%s addr=%s, dial started", c, a.peer, a.form.text), "refused", "dial")
		}
		return
	}
	got := vfC10Consult(g, stage, a.dir, pid, a.form.addr)
	cont := s.contNow(a)
	s.res.Inc("interleaved_consultations", 1)
	if got != op.B("allow") {
		// the real gate left the model's path: finish the real pipeline now and judge its outcome by the ledger
		a.diverged = true
		st := vfC10StagesIn
		if a.dir == "out" {
			st = vfC10StagesOut
		}
		admitted, dialed, at := got, false, stage
		if got {
			seen := false
			for _, x := range st {
				if x == stage {
					seen = true
					continue
				}
				if !seen {
					continue
				}
				if x == "tdial" {
					dialed = true
					continue
				}
				if x == "arrive" {
					continue
				}
				if !vfC10Consult(g, x, a.dir, pid, a.form.addr) {
					admitted, at = false, x
					break
				}
			}
		}
		switch {
		case got && len(cont) > 0 && (admitted || dialed):
			s.mismatch(fmt.Sprintf("blocked-admitted:%s:%s:%s", a.dir, vfC10Kind(cont[0]), a.form.class),
				fmt.Sprintf("rule %v blocked at every consultation of the %sbound attempt peer=%s addr=%s, yet admitted=%v transport-dial=%v", cont, a.dir, a.peer, a.form.text, admitted, dialed), "refused", "admitted")
		case !got && len(s.freeOrIn(a)) == 0 && s.someOut(a):
			s.mismatch(fmt.Sprintf("unblocked-refused:%s:%s", a.dir, a.form.class),
				fmt.Sprintf("no matching rule blocked, %sbound attempt peer=%s addr=%s refused at %s", a.dir, a.peer, a.form.text, at), "admitted", "refused@"+at)
		default:
			s.mismatch("L2:consultation", fmt.Sprintf("%s(%s,%s) = %v, model %v", stage, a.peer, a.form.text, got, op.B("allow")), op.B("allow"), got)
		}
	} else if op.S("end") == "admitted" && len(cont) > 0 {
		s.mismatch(fmt.Sprintf("blocked-admitted:%s:%s:%s", a.dir, vfC10Kind(cont[0]), a.form.class),
			fmt.Sprintf("rule %v blocked at every consultation of the %sbound attempt peer=%s addr=%s, yet admitted", cont, a.dir, a.peer, a.form.text), "refused", "admitted")
	}
	if op.S("end") != "-" {
		s.att = nil
	}
}

func (s *vfC10Sys) matching(p, ip string) []string {
	k := [2]string{p, ip}
	if m, ok := s.matchMemo[k]; ok {
		return m
	}
	if s.matchMemo == nil {
		s.matchMemo = map[[2]string][]string{}
	}
	m := s.conf.matching(p, ip)
	s.matchMemo[k] = m
	return m
}

func (s *vfC10Sys) freeOrIn(a *vfC10Att) []string {
	var out []string
	for _, r := range s.matching(a.peer, a.ip) {
		if s.must[r] != "out" && s.must[r] != "never" {
			out = append(out, r)
		}
	}
	return out
}

func (s *vfC10Sys) someOut(a *vfC10Att) bool {
	for _, r := range s.matching(a.peer, a.ip) {
		if s.must[r] == "out" {
			return true
		}
	}
	return false
}

// apply executes one model action on the real system
func (s *vfC10Sys) apply(op vfh.Op) error {
	switch op.Name() {
	case "finish", "reopen", "write":
		s.forceFull = true
	}
	switch op.Name() {
	case "begin":
		return s.begin(op.S("kind"), op.S("r"))
	case "write":
		return s.write(op.S("outcome"))
	case "finish":
		return s.finish()
	case "crash":
		return s.crash()
	case "reopen":
		return s.reopen()
	case "att_start":
		s.attStart(op)
		return nil
	case "att_step":
		s.attStep(op)
		return nil
	}
	return fmt.Errorf("unknown op %q", op.Name())
}

func (s *vfC10Sys) close() {
	if s.infl != nil {
		_ = s.crash()
	}
}

// ---------------------------------------------------------------------------------------------

func vfC10LoadConf(hdr map[string]any) (*vfC10Conf, string, error) {
	b, _ := json.Marshal(hdr["conf"])
	var c vfC10Conf
	if err := json.Unmarshal(b, &c); err != nil {
		return nil, "", err
	}
	name, _ := hdr["name"].(string)
	return &c, name, c.validate()
}

func TestVerifC10Replay(t *testing.T) {
	files, _ := filepath.Glob(filepath.Join(vfh.In(), "*.jsonl"))
	if len(files) == 0 {
		t.Fatal("no behaviour files in VERIF_IN")
	}
	sort.Strings(files)
	res := vfh.NewResult()
	res.Rule = "distinct = (instance, source state, action) triples executed; after every step: rule lists, raw store and all Intercept* answers over the address-form matrix compared with the model and with the ledger of returned calls"
	forms := vfC10Forms()
	res.Set("address_forms", len(forms))
	kinds := map[string]int{}
	for _, fn := range files {
		hdr, walks, err := vfh.LoadWalks(fn)
		if err != nil {
			t.Fatal(err)
		}
		conf, name, err := vfC10LoadConf(hdr)
		if err != nil {
			t.Fatal(err)
		}
		seenSit := map[string]int{}
		for _, w := range walks {
			sys, err := vfC10NewSys(conf, res, forms, uint64(vfh.Seed())*1000003+uint64(w.Walk)*7919+uint64(len(name)))
			if err != nil {
				t.Fatal(err)
			}
			sys.inst, sys.walk, sys.step = name, w.Walk, -1
			sys.seenSit = seenSit
			st0, err := vfC10ParseState(w.Init)
			if err != nil {
				t.Fatal(err)
			}
			if err := sys.check(st0); err != nil {
				t.Fatal(err)
			}
			prev := string(w.Init)
			for i, stp := range w.Steps {
				sys.step = i
				sys.prefix = append(sys.prefix, stp.Op)
				if err := sys.apply(stp.Op); err != nil {
					t.Fatalf("%s walk %d step %d %v: %v", name, w.Walk, i, stp.Op, err)
				}
				st, err := vfC10ParseState(stp.State)
				if err != nil {
					t.Fatal(err)
				}
				if err := sys.check(st); err != nil {
					t.Fatalf("%s walk %d step %d %v: %v", name, w.Walk, i, stp.Op, err)
				}
				hk := sha256.Sum256([]byte(name + "|" + prev + "|" + vfh.Canon(stp.Op)))
				res.Case(string(hk[:12]))
				prev = string(stp.State)
				k := stp.Op.Name()
				switch k {
				case "crash":
					k += ":" + stp.Op.S("at")
				case "write":
					k += ":" + stp.Op.S("outcome")
				case "att_step":
					if e := stp.Op.S("end"); e != "-" {
						k += ":" + e + "@" + stp.Op.S("stage")
					}
				}
				kinds[k]++
			}
			sys.close()
			res.Count(1, len(w.Steps))
			if len(w.Steps) > 3 {
				res.Sample(map[string]any{"instance": name, "walk": w.Walk, "ops": w.Steps[:3]})
			}
		}
	}
	res.Set("step_kinds", kinds)
	if err := res.Write(); err != nil {
		t.Fatal(err)
	}
	if os.Getenv("VERIF_OUT") == "" {
		t.Log("no VERIF_OUT")
	}
}
