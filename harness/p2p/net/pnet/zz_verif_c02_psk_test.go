//go:build verif

package pnet

// Conformance harness for C02, private-network layer: the behaviours of spec/C02_Psk.tla (write split incl.
// empty writes x read-buffer classes x short reads of the underlying connection) on a real pair of pskConns
// over the in-memory wire of internal/vfc02.  No integrity: the fidelity clause only (L1 ledger: bytes
// returned by Read are a prefix of the bytes accepted by Write, equal at the end, no spurious error).
// Real lengths sit around the nonce (24) and the Salsa20 block (64).

import (
	"errors"
	"fmt"
	"io"
	"path/filepath"
	"sort"
	"testing"

	"github.com/libp2p/go-libp2p/internal/vfc02"
	"github.com/libp2p/go-libp2p/internal/vfh"
)

const vfC02NonceLen = 24

var vfC02PskWrite = map[int][]int{
	1: {1, 2, 23, 24, 25, 63},
	2: {64, 65, 127, 128, 129, 100},
	3: {191, 192, 193, 4096, 4097, 65536},
	4: {65537, 100000, 262144},
}
var vfC02PskShort = []int{2, 23, 24, 25, 63, 64, 65}

type vfC02PskRun struct {
	res  *vfh.Result
	pick vfc02.Picker
	file string
	w    vfh.Walk
	log  []any
	// "first" / "later": a write of this walk was refused whole (first = the very first write of the connection)
	refused string
}

func (r *vfC02PskRun) mismatch(step int, class, what string, exp, got any) {
	r.res.AddMismatch(vfh.Mismatch{Class: class, What: fmt.Sprintf("[psk %s walk %d] %s", filepath.Base(r.file), r.w.Walk, what),
		Walk: r.w.Walk, Step: step, Expected: exp, Got: got, Prefix: append([]any(nil), r.log...),
		Cfg: map[string]any{"layer": "psk", "round": r.pick.Round}})
}

func (r *vfC02PskRun) run() {
	defer func() {
		if p := recover(); p != nil {
			if what, ok := vfc02.CodePanic(p); ok {
				r.mismatch(len(r.log), "psk-panic", what, "no panic", what)
				return
			}
			r.mismatch(len(r.log), "MACHINERY", fmt.Sprintf("panic in the harness: %v", p), nil, nil)
		}
	}()
	var psk [32]byte
	for i := range psk {
		psk[i] = byte(i*7 + r.w.Walk)
	}
	ca, cb := vfc02.NewPair(nil)
	defer ca.Close()
	defer cb.Close()
	wc, err := newPSKConn(&psk, ca)
	if err != nil {
		r.mismatch(0, "MACHINERY", err.Error(), nil, nil)
		return
	}
	rc, err := newPSKConn(&psk, cb)
	if err != nil {
		r.mismatch(0, "MACHINERY", err.Error(), nil, nil)
		return
	}
	wire := cb.In
	wire.SetBlocking(false)
	wire.SetCross(r.pick.Index(2, r.w.Walk, 99) == 0)
	led := vfc02.NewLedger("psk", vfc02.Content(1), false)
	nonceRead := false
	closed, eof := false, false
	l1 := func(si int, p *vfc02.Problem) bool {
		if p == nil {
			return false
		}
		cls := p.Class
		if r.refused != "" {
			// stable class keys for what happens behind a write that was refused whole: on the first write of the
			// connection (the nonce has not gone out yet) / on a later one
			cls = "psk-refused-" + r.refused + "-write-garbles"
		}
		r.mismatch(si, cls, p.What, p.Expected, p.Got)
		return true
	}
	var buf []byte
	steps := 0
	for si, st := range r.w.Steps {
		op := st.Op
		steps++
		switch op.Name() {
		case "write":
			k := op.I("k")
			K := 0
			if k > 0 {
				K = r.pick.Pick(vfC02PskWrite[k], r.w.Walk, si)
			}
			before := wire.Written
			short := op.B("short")
			if short {
				wire.InjectShortWrite() // the underlying connection takes a part of the next write and times out
			}
			refused := op.B("refused")
			if refused {
				wire.InjectRefuseWrite() // ... refuses the next write whole: 0 bytes, an error, nothing on the wire
			}
			var n int
			var err error
			vfc02.Guard("pskConn.Write", func() { n, err = wc.Write(led.Next(K)) })
			r.log = append(r.log, map[string]any{"op": "write", "k": k, "real": K, "short": short, "n": n, "err": fmt.Sprint(err)})
			if l1(si, led.OnWrite(K, n, err)) {
				return
			}
			if op.B("dead") {
				// the connection failed closed after an earlier failed write: this Write must fail too.  (If it
				// reports success, its bytes are accepted like any others and the ledger judges what arrives.)
				r.res.Case("write/after-failure")
				if err == nil {
					r.mismatch(si, "L2:psk-write-after-failure", fmt.Sprintf("Write(%d) = (%d, nil) after an earlier write had failed", K, n), "error", "nil")
				}
				break
			}
			if refused {
				// nothing was accepted and nothing is on the wire; the caller goes on writing, and from here on every
				// byte of a write that reports success must arrive unmodified, once, in order
				if err == nil || n != 0 {
					r.mismatch(si, "L2:psk-refused-write", fmt.Sprintf("the refusal of the connection was not reported as (0, error): Write(%d) = (%d, %v)", K, n, err), "0, error", n)
				}
				if wire.Written != before {
					r.mismatch(si, "MACHINERY", "a refused write put bytes on the wire", nil, nil)
					return
				}
				if r.refused == "" {
					r.refused = "later"
					if op.B("nonce") {
						r.refused = "first"
					}
				}
				r.res.Case("write/refused/" + r.refused)
				break
			}
			if short {
				// accepted = what Write reported; the walk writes no more (wdead in the model)
				if err == nil || n >= K {
					r.mismatch(si, "L2:psk-short-write", fmt.Sprintf("short write of the connection not reported: Write(%d) = (%d, %v)", K, n, err), "n < len, error", n)
				}
				r.res.Case("write/short")
				break
			}
			if n != K || err != nil {
				r.mismatch(si, "L2:psk-write-result", fmt.Sprintf("Write(%d) = (%d, %v)", K, n, err), K, n)
			}
			want := int64(K)
			if op.B("nonce") {
				want += vfC02NonceLen
			}
			if wire.Written-before != want {
				r.mismatch(si, "L2:psk-wire-bytes", fmt.Sprintf("Write(%d) (first: %v) put %d bytes on the wire", K, op.B("nonce"), wire.Written-before), want, wire.Written-before)
			}
			r.res.Case(fmt.Sprintf("write/%d/%v", k, op.B("nonce")))
		case "short":
			c := 0
			switch op.I("k") {
			case 1:
				c = 1
			case 2:
				c = r.pick.Pick(vfC02PskShort, r.w.Walk, si)
			}
			wire.SetCap(c)
			r.log = append(r.log, map[string]any{"op": "short", "k": op.I("k"), "real": c})
		case "glitch":
			if op.S("kind") == "eofdata" {
				wire.SetEOFWithData(true)
			}
			// the one-shot kinds are armed right in front of the call the model lets them hit
			r.log = append(r.log, map[string]any{"op": "glitch", "kind": op.S("kind")})
			r.res.Case("glitch/" + op.S("kind"))
		case "close":
			ca.Close()
			closed = true
			r.log = append(r.log, map[string]any{"op": "close"})
		case "read":
			avail := wire.Pending()
			if !nonceRead {
				avail -= vfC02NonceLen
			}
			rel, left := op.S("rel"), op.I("left")
			var b int
			switch rel {
			case "zero":
				b = 0
			case "lt":
				c := []int{}
				for _, x := range []int{1, 2, 23, 24, 25, 63, 64, 65, avail / 2, avail - 1} {
					if x >= 1 && x <= avail-left && x < avail {
						c = append(c, x)
					}
				}
				if len(c) == 0 {
					c = []int{1}
				}
				b = r.pick.Pick(c, r.w.Walk, si)
			case "eq":
				b = avail
			default:
				b = avail + r.pick.Pick([]int{1, 24, 64, 4096}, r.w.Walk, si)
			}
			if left > 0 && b > avail-left && op.S("glitch") != "temperr" {
				b = avail - left // the model keeps `left` units unread: never let the real reader run ahead of it
			}
			if b < 0 {
				b = 0
			}
			if cap(buf) < b {
				buf = make([]byte, b+4096)
			}
			glitch := op.S("glitch")
			if glitch == "dataerr" || glitch == "temperr" {
				wire.InjectRead(glitch)
			}
			var n int
			var err error
			vfc02.Guard("pskConn.Read", func() { n, err = rc.Read(buf[:b:b]) })
			r.log = append(r.log, map[string]any{"op": "read", "rel": rel, "real": b, "avail": avail, "glitch": glitch, "n": n, "err": fmt.Sprint(err)})
			r.res.Case(fmt.Sprintf("read/%s/%v/%v/%s/%v", rel, op.B("nonce"), op.B("dry"), glitch, op.B("eof")))
			if glitch == "dataerr" || glitch == "temperr" {
				if wire.ReadGlitchPending() {
					wire.InjectRead("")
					r.mismatch(si, "L2:psk-glitch", "the armed glitch was not reached by this Read", glitch, "none")
				} else if !vfc02.IsGlitch(err) {
					r.mismatch(si, "L2:psk-glitch", fmt.Sprintf("the transient error of the connection was not passed on: %v", err), glitch, fmt.Sprint(err))
				}
				// a transient error is not a failure of the channel; the bytes that came with it count
				err = nil
			}
			if err != nil && errors.Is(err, io.EOF) && closed {
				if led.Delivered+n != led.Written {
					r.mismatch(si, "psk-early-eof", fmt.Sprintf("EOF after %d of %d bytes", led.Delivered+n, led.Written), led.Written, led.Delivered+n)
					return
				}
				eof = true
				err = nil
			}
			if !nonceRead && wire.Served >= vfC02NonceLen {
				nonceRead = true
			}
			if errors.Is(err, vfc02.ErrDry) {
				if !op.B("dry") && b > 0 {
					r.mismatch(si, "L2:psk-would-block", "Read found nothing in flight where the model delivers", op.I("n"), "dry")
				}
				err = nil
			} else if op.B("dry") && b > 0 {
				r.mismatch(si, "L2:psk-dry", "the model has only the nonce in flight, yet Read returned", "dry", fmt.Sprintf("%d, %v", n, err))
			}
			if l1(si, led.OnRead(buf[:b], n, err, false)) {
				return
			}
		default:
			r.mismatch(si, "MACHINERY", "unknown op "+op.Name(), nil, nil)
			return
		}
	}
	// drain
	wire.SetCap(0)
	if cap(buf) < 1<<16 {
		buf = make([]byte, 1<<16)
	}
	for it := 0; it < 64 && led.Delivered < led.Written && !eof; it++ {
		var n int
		var err error
		vfc02.Guard("pskConn.Read", func() { n, err = rc.Read(buf[:1<<16]) })
		r.log = append(r.log, map[string]any{"op": "drain", "n": n, "err": fmt.Sprint(err)})
		if errors.Is(err, vfc02.ErrDry) {
			break
		}
		if err != nil && errors.Is(err, io.EOF) && closed {
			if l1(len(r.w.Steps), led.OnRead(buf[:1<<16], n, nil, true)) {
				return
			}
			break
		}
		if l1(len(r.w.Steps), led.OnRead(buf[:1<<16], n, err, false)) {
			return
		}
		if err != nil {
			return
		}
	}
	l1(len(r.w.Steps), led.AtEnd())
	r.res.Count(1, steps)
}

func TestVerifC02Psk(t *testing.T) {
	res := vfh.NewResult()
	res.Rule = "distinct = (operation, buffer relation class, first call, dry) combinations executed on real pskConns"
	defer func() {
		if err := res.Write(); err != nil {
			t.Fatal(err)
		}
	}()
	files, _ := filepath.Glob(filepath.Join(vfh.In(), "psk_*.jsonl"))
	sort.Strings(files)
	if len(files) == 0 {
		t.Fatal("no psk behaviour files")
	}
	rounds := vfh.EnvInt("VERIF_C02_ROUNDS", 1) * 8
	for _, f := range files {
		_, walks, err := vfh.LoadWalks(f)
		if err != nil {
			t.Fatal(err)
		}
		for rd := 0; rd < rounds; rd++ {
			for _, w := range walks {
				(&vfC02PskRun{res: res, file: f, w: w, pick: vfc02.Picker{Seed: uint64(vfh.Seed()), Round: rd}}).run()
			}
		}
	}
}
