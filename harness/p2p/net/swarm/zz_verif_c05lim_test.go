//go:build verif

package swarm

// Replay of spec/C05lim_Limiter.tla (replay graph RNext of C05lim_MC.tla) on the real dialLimiter:
// every (state, action) transition is executed on a limiter built with newDialLimiterWithParams and a
// dialFunc stub that parks each transport dial until the model finishes it; goroutines spawned by the
// limiter run until they block (testing/synctest) after every call, which is the model's Settle.
// L1 (model-free, from the ledger of calls): caps on what is in flight, one transport dial per job, a live
// job is dialed once everything else has finished, nothing is left in the limiter at rest.
// L2: the limiter's counters and wait lists differ from the model's after a step.

import (
	"context"
	"encoding/json"
	"errors"
	"fmt"
	"math/rand"
	"path/filepath"
	"sort"
	"sync"
	"testing"
	"testing/synctest"
	"time"

	"github.com/libp2p/go-libp2p/core/peer"
	"github.com/libp2p/go-libp2p/core/transport"
	"github.com/libp2p/go-libp2p/internal/vfh"
	ma "github.com/multiformats/go-multiaddr"
)

type vfC05limHdr struct {
	Inst    string            `json:"inst"`
	FdLimit int               `json:"fdlimit"`
	PerPeer int               `json:"perpeer"`
	PeerOf  map[string]string `json:"peerOf"`
	Fd      map[string]bool   `json:"fd"`
	CtxOf   map[string]string `json:"ctxOf"`
}

type vfC05limJob struct {
	name     string
	dj       *dialJob
	release  chan struct{}
	added    bool
	calls    int
	inflight bool
}

type vfC05limWorld struct {
	h      vfC05limHdr
	mu     sync.Mutex
	dl     *dialLimiter
	jobs   map[string]*vfC05limJob
	byAddr map[string]*vfC05limJob
	cancel map[string]context.CancelFunc
	ctxs   map[string]context.Context
	peers  map[string]peer.ID
	newly  []string
	addrs  map[string]string
}

func vfC05limBuild(h vfC05limHdr, seed int64) *vfC05limWorld {
	r := rand.New(rand.NewSource(seed))
	w := &vfC05limWorld{h: h, jobs: map[string]*vfC05limJob{}, byAddr: map[string]*vfC05limJob{}, cancel: map[string]context.CancelFunc{},
		ctxs: map[string]context.Context{}, peers: map[string]peer.ID{}, addrs: map[string]string{}}
	relayID := "12D3KooWD3eckifWpRn9wQpMG9R9hX3sD158z7EqHWmweQAJU5SA"
	fdForms := []string{"/ip4/10.1.0.%d/tcp/4001", "/ip6/2001:db8::%d/tcp/4001", "/ip4/10.1.0.%d/tcp/443/tls/ws", "/ip4/10.1.0.%d/tcp/80/ws", "/dns4/h%d.example/tcp/4001"}
	noFdForms := []string{"/ip4/10.1.0.%d/udp/4001/quic-v1", "/ip4/10.1.0.%d/udp/4001/quic-v1/webtransport", "/ip4/10.1.0.%d/udp/4002/webrtc-direct",
		"/ip4/10.9.0.%d/tcp/4001/p2p/" + relayID + "/p2p-circuit", "/ip6/2001:db8::%d/udp/4001/quic-v1"}
	w.dl = newDialLimiterWithParams(w.dial, h.FdLimit, h.PerPeer)
	var names []string
	for j := range h.PeerOf {
		names = append(names, j)
	}
	sort.Strings(names)
	for i, j := range names {
		c := h.CtxOf[j]
		if _, ok := w.ctxs[c]; !ok {
			w.ctxs[c], w.cancel[c] = context.WithCancel(context.Background())
		}
		p := h.PeerOf[j]
		if _, ok := w.peers[p]; !ok {
			w.peers[p] = peer.ID("vf-c05lim-" + p)
		}
		forms := noFdForms
		if h.Fd[j] {
			forms = fdForms
		}
		as := fmt.Sprintf(forms[r.Intn(len(forms))], i+1)
		a := ma.StringCast(as)
		w.addrs[j] = as
		job := &vfC05limJob{name: j, release: make(chan struct{}),
			dj: &dialJob{addr: a, peer: w.peers[p], ctx: w.ctxs[c], resp: make(chan transport.DialUpdate, 1), timeout: time.Hour}}
		w.jobs[j] = job
		w.byAddr[string(a.Bytes())] = job
	}
	return w
}

func (w *vfC05limWorld) dial(_ context.Context, _ peer.ID, a ma.Multiaddr, _ chan<- transport.DialUpdate) (transport.CapableConn, error) {
	w.mu.Lock()
	job := w.byAddr[string(a.Bytes())]
	if job == nil {
		w.mu.Unlock()
		return nil, errors.New("verif: unknown address")
	}
	job.calls++
	job.inflight = true
	w.newly = append(w.newly, job.name)
	w.mu.Unlock()
	<-job.release
	w.mu.Lock()
	job.inflight = false
	w.mu.Unlock()
	return nil, errors.New("verif: scripted dial failure")
}

func (w *vfC05limWorld) jobName(dj *dialJob) string {
	for n, j := range w.jobs {
		if j.dj == dj {
			return n
		}
	}
	return "?"
}

// snapshot reads the limiter's counters and wait lists (in-package; the statement names them: "token").
func (w *vfC05limWorld) snapshot() map[string]any {
	w.dl.lk.Lock()
	defer w.dl.lk.Unlock()
	act := map[string]any{}
	wp := map[string]any{}
	for p, id := range w.peers {
		act[p] = float64(w.dl.activePerPeer[id])
		l := []any{}
		for _, dj := range w.dl.waitingOnPeerLimit[id] {
			l = append(l, w.jobName(dj))
		}
		wp[p] = l
	}
	wfd := []any{}
	for _, dj := range w.dl.waitingOnFd {
		wfd = append(wfd, w.jobName(dj))
	}
	return map[string]any{"fdc": float64(w.dl.fdConsuming), "act": act, "wfd": wfd, "wpeer": wp}
}

// monitors evaluates the model-free clauses on what is in flight right now.
func (w *vfC05limWorld) monitors() (string, string) {
	w.mu.Lock()
	defer w.mu.Unlock()
	fd := 0
	per := map[string]int{}
	for n, j := range w.jobs {
		if j.calls > 1 {
			return "job-dialed-twice", fmt.Sprintf("the transport dial of job %s (%s) was started %d times", n, w.addrs[n], j.calls)
		}
		if j.calls > 0 && !j.added {
			return "job-dialed-before-added", n
		}
		if j.inflight {
			per[w.h.PeerOf[n]]++
			if w.h.Fd[n] {
				fd++
			}
		}
	}
	if fd > w.h.FdLimit {
		return "fd-cap-exceeded", fmt.Sprintf("%d file-descriptor consuming transport dials in flight, cap %d", fd, w.h.FdLimit)
	}
	for p, n := range per {
		if n > w.h.PerPeer {
			return "peer-cap-exceeded", fmt.Sprintf("%d transport dials to peer %s in flight, cap %d", n, p, w.h.PerPeer)
		}
	}
	return "", ""
}

func (w *vfC05limWorld) inflight() []*vfC05limJob {
	w.mu.Lock()
	defer w.mu.Unlock()
	var l []*vfC05limJob
	for _, j := range w.jobs {
		if j.inflight {
			l = append(l, j)
		}
	}
	sort.Slice(l, func(a, b int) bool { return l[a].name < l[b].name })
	return l
}

func vfC05limRun(res *vfh.Result, file string, h vfC05limHdr, wk vfh.Walk) int {
	seed := vfh.Seed()*1000003 + int64(wk.Walk)*7919 + int64(h.FdLimit)*31 + int64(h.PerPeer)*17
	w := vfC05limBuild(h, seed)
	inst := filepath.Base(file)
	var prefix []any
	steps := 0
	l2off := false
	prevKey := string(wk.Init)
	cfg := func() map[string]any {
		return map[string]any{"file": inst, "fdlimit": h.FdLimit, "perpeer": h.PerPeer, "addrs": w.addrs, "seed": vfh.Seed()}
	}
	bad := func(cls, what string, i int, exp, got any) {
		res.AddMismatch(vfh.Mismatch{Class: cls, What: what, Walk: wk.Walk, Step: i, Expected: exp, Got: got,
			Prefix: append([]any{}, prefix...), Cfg: cfg()})
	}
	dead := map[string]bool{}
	l1 := false
	for i, st := range wk.Steps {
		op := st.Op
		w.mu.Lock()
		w.newly = nil
		w.mu.Unlock()
		switch op.Name() {
		case "add":
			j := w.jobs[op.S("j")]
			j.added = true
			w.dl.AddDialJob(j.dj)
		case "finish":
			j := w.jobs[op.S("j")]
			w.mu.Lock()
			fl := j.inflight
			w.mu.Unlock()
			if !fl {
				// the real limiter never started this dial (diverged): nothing to finish
				if !l2off {
					bad("L2:finish-of-a-dial-not-in-flight", "the model finishes "+j.name+" but its transport dial is not in flight", i, nil, nil)
					l2off = true
				}
				prefix = append(prefix, map[string]any{"name": "finish", "j": j.name, "skipped": true})
				continue
			}
			close(j.release)
		case "cancel":
			w.cancel[op.S("c")]()
			dead[op.S("c")] = true
		case "clear":
			w.dl.clearAllPeerDials(w.peers[op.S("p")])
		default:
			bad("L2:machinery", "unknown op "+op.Name(), i, nil, nil)
			return steps
		}
		synctest.Wait()
		steps++
		prefix = append(prefix, map[string]any{"name": op.Name(), "j": op.S("j"), "c": op.S("c"), "p": op.S("p")})
		res.Case(inst + "|" + prevKey + "|" + op.Name() + op.S("j") + op.S("c") + op.S("p"))
		prevKey = string(st.State)
		if cls, what := w.monitors(); cls != "" {
			bad(cls, what, i, nil, w.snapshot())
			l1 = true
			break
		}
		if l2off || op.Name() == "clear" && !op.Has("fdc") {
			if !l2off && op.Name() == "clear" {
				// Clear carries no expected record: compare with the target state
				var t map[string]any
				if json.Unmarshal(st.State, &t) == nil {
					got := w.snapshot()
					exp := map[string]any{"fdc": t["fdc"], "act": t["act"], "wfd": t["wfd"], "wpeer": t["wpeer"]}
					if vfh.Canon(exp) != vfh.Canon(got) {
						bad("L2:limiter-state", "counters / wait lists after clearAllPeerDials differ from the model", i, exp, got)
						l2off = true
					}
				}
			}
			continue
		}
		got := w.snapshot()
		exp := map[string]any{"fdc": op["fdc"], "act": op["act"], "wfd": op["wfd"], "wpeer": op["wpeer"]}
		if vfh.Canon(exp) != vfh.Canon(got) {
			bad("L2:limiter-state", "counters / wait lists after "+op.Name()+" differ from the model", i, exp, got)
			l2off = true
			continue
		}
		w.mu.Lock()
		newly := append([]string{}, w.newly...)
		w.mu.Unlock()
		sort.Strings(newly)
		want := []string{}
		for _, x := range op.L("called") {
			if n, ok := x.(string); ok {
				want = append(want, n)
			}
		}
		sort.Strings(want)
		if fmt.Sprint(newly) != fmt.Sprint(want) && !(len(newly) == 0 && len(want) == 0) {
			bad("L2:dials-started", "transport dials started by "+op.Name()+" differ from the model", i, want, newly)
			l2off = true
		}
	}
	// settle: finish whatever is in flight until nothing is, then the at-rest clauses
	for round := 0; round < 64 && !l1; round++ {
		fl := w.inflight()
		if len(fl) == 0 {
			break
		}
		for _, j := range fl {
			close(j.release)
		}
		synctest.Wait()
		if cls, what := w.monitors(); cls != "" {
			bad(cls, "during the settle phase: "+what, len(wk.Steps), nil, w.snapshot())
			l1 = true
		}
	}
	if !l1 {
		for n, j := range w.jobs {
			if j.added && j.calls == 0 && !dead[h.CtxOf[n]] && !vfC05limCleared(prefix, h, n) {
				bad("live-job-never-dialed", fmt.Sprintf("job %s (%s, peer %s) was added under a context that is still alive, every other dial has finished, and its transport dial never started", n, w.addrs[n], h.PeerOf[n]),
					len(wk.Steps), "dialed", w.snapshot())
				l1 = true
				break
			}
		}
	}
	for c, f := range w.cancel {
		f()
		dead[c] = true
	}
	for _, id := range w.peers {
		w.dl.clearAllPeerDials(id)
	}
	synctest.Wait()
	for round := 0; round < 64; round++ {
		fl := w.inflight()
		if len(fl) == 0 {
			break
		}
		for _, j := range fl {
			close(j.release)
		}
		synctest.Wait()
	}
	if !l1 {
		got := w.snapshot()
		empty := true
		if got["fdc"].(float64) != 0 || len(got["wfd"].([]any)) != 0 {
			empty = false
		}
		for _, v := range got["act"].(map[string]any) {
			if v.(float64) != 0 {
				empty = false
			}
		}
		for _, v := range got["wpeer"].(map[string]any) {
			if len(v.([]any)) != 0 {
				empty = false
			}
		}
		if !empty {
			bad("limiter-residue", "every context has ended, every dial has finished and every worker has exited, but the limiter still holds tokens or waiters", len(wk.Steps), "nothing", got)
		}
	}
	return steps
}

// vfC05limCleared: the job was dropped by a clearAllPeerDials that the walk performed (never the case for a
// live job in the model, which clears only dead waiters).
func vfC05limCleared(prefix []any, h vfC05limHdr, n string) bool { return false }

func TestVerifC05limReplay(t *testing.T) {
	res := vfh.NewResult()
	defer func() {
		if err := res.Write(); err != nil {
			t.Fatal(err)
		}
	}()
	files, _ := filepath.Glob(filepath.Join(vfh.In(), "*.jsonl"))
	sort.Strings(files)
	if len(files) == 0 {
		t.Fatalf("no behaviour files in %q", vfh.In())
	}
	res.Rule = "one case = one (instance, caps, source state, action) transition of the replay graph executed on a real dialLimiter; after every step the model-free clauses (caps on in-flight transport dials, one dial per job) and the limiter's counters/wait lists are compared; every walk ends with a settle phase and the at-rest clauses (live jobs dialed, no residue)"
	for _, f := range files {
		hdr, walks, err := vfh.LoadWalks(f)
		if err != nil {
			t.Fatalf("%s: %v", f, err)
		}
		var h vfC05limHdr
		b, _ := json.Marshal(hdr["inst"])
		if err := json.Unmarshal(b, &h); err != nil || h.FdLimit <= 0 || len(h.PeerOf) == 0 {
			t.Fatalf("%s: bad instance header: %v", f, err)
		}
		for _, wk := range walks {
			n := 0
			synctest.Test(t, func(t *testing.T) { n = vfC05limRun(res, f, h, wk) })
			res.Count(1, n)
			if wk.Walk == 0 && len(wk.Steps) > 0 {
				res.Sample(map[string]any{"instance": h.Inst, "fdlimit": h.FdLimit, "perpeer": h.PerPeer, "first_steps": wk.Steps[:min(6, len(wk.Steps))]})
			}
		}
	}
}
