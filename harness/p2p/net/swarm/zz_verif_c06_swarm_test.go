//go:build verif

package swarm

// C06, code -> spec: a real Swarm (stub transport connections, in-memory streams) is driven by seeded
// concurrent workloads inside a synctest bubble: connections admitted from several goroutines, closed
// from outside, from inside a Connected handler, by the remote side, and by Swarm.Close racing with all
// of it.  Only observables are recorded (Notifiee callbacks start/return, bus events, stream-handler
// invocations, API returns, connectedness and connection lists at quiescence); TLC decides whether each
// recorded execution is a behaviour of spec/C06_Obs.tla.

import (
	"fmt"
	"math/rand"
	"os"
	"path/filepath"
	"runtime"
	"sort"
	"sync"
	"sync/atomic"
	"testing"
	"testing/synctest"

	"github.com/libp2p/go-libp2p/core/event"
	"github.com/libp2p/go-libp2p/core/network"
	"github.com/libp2p/go-libp2p/core/peer"
	"github.com/libp2p/go-libp2p/core/transport"
	"github.com/libp2p/go-libp2p/internal/vfh"
	"github.com/libp2p/go-libp2p/p2p/host/eventbus"
	"github.com/libp2p/go-libp2p/p2p/host/peerstore/pstoremem"
	ma "github.com/multiformats/go-multiaddr"
)

type vfC06Notifiee struct {
	name   string
	tr     *vfh.Trace
	names  *sync.Map // *Conn -> conn id
	yield  int
	onConn func(c network.Conn, id string)
	// a transient notifiee leaves (StopNotify from another goroutine) when its leaveAt-th callback starts
	calls   atomic.Int32
	leaveAt int32
	leave   func()
}

func (n *vfC06Notifiee) maybeLeave() {
	if n.leave != nil && n.calls.Add(1) == n.leaveAt {
		n.leave()
	}
}

func (n *vfC06Notifiee) id(c network.Conn) string {
	if v, ok := n.names.Load(c.(*Conn).conn); ok {
		return v.(string)
	}
	return "?"
}
func (n *vfC06Notifiee) Listen(network.Network, ma.Multiaddr)      {}
func (n *vfC06Notifiee) ListenClose(network.Network, ma.Multiaddr) {}
func (n *vfC06Notifiee) Connected(_ network.Network, c network.Conn) {
	id := n.id(c)
	n.tr.Emit("cs", "n", n.name, "c", id)
	n.maybeLeave()
	for i := 0; i < n.yield; i++ {
		runtime.Gosched()
	}
	if n.onConn != nil {
		n.onConn(c, id)
	}
	n.tr.Emit("ce", "n", n.name, "c", id)
}
func (n *vfC06Notifiee) Disconnected(_ network.Network, c network.Conn) {
	id := n.id(c)
	n.tr.Emit("ds", "n", n.name, "c", id)
	n.maybeLeave()
	for i := 0; i < n.yield; i++ {
		runtime.Gosched()
	}
	n.tr.Emit("de", "n", n.name, "c", id)
}

func vfC06Scenario(t *testing.T, seed int64, tr *vfh.Trace) {
	rnd := rand.New(rand.NewSource(seed))
	local := peer.ID("vf-local")
	ps, err := pstoremem.NewPeerstore()
	if err != nil {
		t.Fatal(err)
	}
	bus := eventbus.NewBus()
	sw, err := NewSwarm(local, ps, bus)
	if err != nil {
		t.Fatal(err)
	}
	peers := map[string]peer.ID{"p1": peer.ID("vf-remote-1"), "p2": peer.ID("vf-remote-2")}
	pname := map[peer.ID]string{peers["p1"]: "p1", peers["p2"]: "p2"}
	var names sync.Map
	sub, err := bus.Subscribe(new(event.EvtPeerConnectednessChanged), eventbus.BufSize(256))
	if err != nil {
		t.Fatal(err)
	}
	var evWG sync.WaitGroup
	evWG.Add(1)
	go func() {
		defer evWG.Done()
		for e := range sub.Out() {
			ev := e.(event.EvtPeerConnectednessChanged)
			st := map[network.Connectedness]string{network.Connected: "C", network.Limited: "L", network.NotConnected: "N"}[ev.Connectedness]
			tr.Emit("evt", "p", pname[ev.Peer], "st", st)
		}
	}()
	nconns := 2 + rnd.Intn(4)
	// how each connection ends: 0 stays until Swarm.Close, 1 closed from outside, 2 closed from inside the
	// Connected handler of n1, 3 remote side goes away, 4 closed from outside twice concurrently, 5 the
	// remote resets the transport while the Connected handlers are still running (nobody calls Close)
	fate := make([]int, nconns)
	for i := range fate {
		fate[i] = rnd.Intn(6)
	}
	insideClose := map[string]bool{}
	insideReset := map[string]*vfStubConn{}
	n1 := &vfC06Notifiee{name: "n1", tr: tr, names: &names, yield: rnd.Intn(4)}
	n1.onConn = func(c network.Conn, id string) {
		if insideClose[id] {
			tr.Emit("close_call", "c", id)
			c.Close()
			tr.Emit("close_ret", "c", id)
		}
		if stub := insideReset[id]; stub != nil {
			tr.Emit("remote_close", "c", id)
			stub.RemoteClose()
		}
	}
	n2 := &vfC06Notifiee{name: "n2", tr: tr, names: &names, yield: rnd.Intn(4)}
	n3 := &vfC06Notifiee{name: "n3", tr: tr, names: &names, yield: rnd.Intn(4)}
	// transient notifiees: t0 is registered before the others and leaves in the middle of a notification
	// round (its own callback asks another goroutine to StopNotify it: the call may complete during or after
	// the round); t1 joins and leaves at arbitrary moments.  Those that stay must not notice.
	var tWG sync.WaitGroup
	mkT := func(name string) *vfC06Notifiee {
		tn := &vfC06Notifiee{name: name, tr: tr, names: &names, yield: rnd.Intn(3), leaveAt: int32(1 + rnd.Intn(4))}
		tn.leave = func() {
			tWG.Add(1)
			go func() {
				defer tWG.Done()
				tr.Emit("stopnotify", "n", name)
				sw.StopNotify(tn)
			}()
		}
		return tn
	}
	if rnd.Intn(3) != 0 {
		sw.Notify(mkT("t0"))
	}
	sw.Notify(n1)
	if rnd.Intn(2) == 0 {
		sw.Notify(mkT("t2"))
	}
	sw.Notify(n2)
	sw.Notify(n3)
	if rnd.Intn(2) == 0 {
		t1 := mkT("t1")
		tWG.Add(1)
		go func() {
			defer tWG.Done()
			for i, k := 0, rnd.Intn(6); i < k; i++ {
				runtime.Gosched()
			}
			tr.Emit("notify", "n", "t1")
			sw.Notify(t1)
		}()
	}
	defer tWG.Wait()
	sw.SetStreamHandler(func(s network.Stream) {
		tr.Emit("stream", "c", n1.id(s.Conn()))
		s.Reset()
	})
	type cinfo struct {
		id   string
		stub *vfStubConn
		fate int
	}
	var infos []*cinfo
	for i := 0; i < nconns; i++ {
		id := fmt.Sprintf("c%d", i+1)
		pn := []string{"p1", "p1", "p2"}[rnd.Intn(3)]
		lim := rnd.Intn(3) == 0
		stub := newVfStubConn(id, local, peers[pn], ma.StringCast("/ip4/127.0.0.1/tcp/1"), ma.StringCast(fmt.Sprintf("/ip4/1.2.3.%d/tcp/%d", i+1, 1000+i)), lim)
		names.Store(stub, id)
		if fate[i] == 2 {
			insideClose[id] = true
		}
		if fate[i] == 5 {
			insideReset[id] = stub
		}
		if rnd.Intn(2) == 0 {
			stub.Inbound <- newVfStubStream() // an inbound stream is waiting as soon as the accept loop starts
		}
		infos = append(infos, &cinfo{id: id, stub: stub, fate: fate[i]})
		tr.Emit("conn", "c", id, "p", pn, "lim", lim)
	}
	closeSwarmEarly := rnd.Intn(4) == 0
	// Gated admission (no hook needed): addConn takes directConnNotifs right after it has registered a
	// direct connection and before it announces it. Holding that lock pauses the admission exactly
	// there, and something else happens in the gap: Swarm.Close, a Close of that connection, or the
	// remote side going away.
	gated, gateAct := "", rnd.Intn(3)
	if rnd.Intn(3) == 0 {
		for _, ci := range infos {
			if !ci.stub.Limited {
				gated = ci.id
				break
			}
		}
	}
	if gated != "" && gateAct == 0 {
		closeSwarmEarly = false // the gate itself closes the swarm
	}
	gateDone := make(chan struct{})
	swClosedEarly := make(chan struct{})
	var wg sync.WaitGroup
	if gated != "" {
		sw.directConnNotifs.Lock()
	}
	for _, ci := range infos {
		wg.Add(1)
		go func(ci *cinfo, pre, mid int) {
			defer wg.Done()
			for i := 0; i < pre; i++ {
				runtime.Gosched()
			}
			if gated != "" && ci.id != gated && !ci.stub.Limited {
				<-gateDone // other direct admissions wait until the gate is lifted
			}
			dir := network.DirInbound
			c, err := sw.addConn(ci.stub, dir)
			if err != nil {
				tr.Emit("refused", "c", ci.id)
				return
			}
			tr.Emit("admitted", "c", ci.id)
			for i := 0; i < mid; i++ {
				runtime.Gosched()
			}
			switch ci.fate {
			case 1:
				tr.Emit("close_call", "c", ci.id)
				c.Close()
				tr.Emit("close_ret", "c", ci.id)
			case 3:
				tr.Emit("remote_close", "c", ci.id)
				ci.stub.RemoteClose()
			case 4:
				tr.Emit("close_call", "c", ci.id)
				var w2 sync.WaitGroup
				for k := 0; k < 2; k++ {
					w2.Add(1)
					go func() { defer w2.Done(); c.Close() }()
				}
				w2.Wait()
				tr.Emit("close_ret", "c", ci.id)
			}
		}(ci, rnd.Intn(6), rnd.Intn(6))
	}
	swClosed := make(chan struct{})
	closeSwarm := func() {
		tr.Emit("sw_close_call")
		sw.Close()
		tr.Emit("sw_close_ret")
		close(swClosed)
	}
	if gated != "" {
		var gstub *vfStubConn
		for _, ci := range infos {
			if ci.id == gated {
				gstub = ci.stub
			}
		}
		registered := func() *Conn {
			sw.conns.RLock()
			defer sw.conns.RUnlock()
			for _, c := range sw.conns.m[gstub.Rp] {
				if c.conn == transport.CapableConn(gstub) {
					return c
				}
			}
			return nil
		}
		var c *Conn
		for i := 0; i < 100000 && c == nil; i++ {
			c = registered()
			runtime.Gosched()
		}
		if c != nil {
			switch gateAct {
			case 0: // Swarm.Close in the gap
				go func() { closeSwarm(); close(swClosedEarly) }()
				for i := 0; i < 100000; i++ {
					sw.conns.RLock()
					closedMap := sw.conns.m == nil
					sw.conns.RUnlock()
					if closedMap {
						break
					}
					runtime.Gosched()
				}
			case 1: // the connection is closed by somebody who found it in the swarm
				tr.Emit("close_call", "c", gated)
				c.Close()
				tr.Emit("close_ret", "c", gated)
			case 2: // the remote side goes away
				tr.Emit("remote_close", "c", gated)
				gstub.RemoteClose()
			}
			for i := 0; i < 200; i++ {
				runtime.Gosched()
			}
		}
		sw.directConnNotifs.Unlock()
		close(gateDone)
	}
	if closeSwarmEarly {
		wg.Add(1)
		go func(pre int) {
			defer wg.Done()
			for i := 0; i < pre; i++ {
				runtime.Gosched()
			}
			closeSwarm()
		}(rnd.Intn(12))
	}
	wg.Wait()
	gatedClose := gated != "" && gateAct == 0
	if gatedClose {
		<-swClosedEarly
	}
	synctest.Wait() // all activity has stopped
	if !closeSwarmEarly && !gatedClose {
		for _, pn := range []string{"p1", "p2"} {
			st := map[network.Connectedness]string{network.Connected: "C", network.Limited: "L", network.NotConnected: "N"}[sw.Connectedness(peers[pn])]
			var listed []string
			for _, c := range sw.ConnsToPeer(peers[pn]) {
				listed = append(listed, n1.id(c))
			}
			sort.Strings(listed)
			if listed == nil {
				listed = []string{}
			}
			tr.Emit("listed", "p", pn, "st", st, "conns", listed)
		}
		closeSwarm()
	}
	<-swClosed
	synctest.Wait()
	sub.Close()
	evWG.Wait()
	ps.Close()
}

func TestVerifC06Swarm(t *testing.T) {
	res := vfh.NewResult()
	defer func() {
		if err := res.Write(); err != nil {
			t.Fatal(err)
		}
	}()
	iters := vfh.EnvInt("VERIF_C06_ITERS", 100)
	res.Rule = "one case = one seeded concurrent scenario on a real Swarm (2-5 stub connections over 2 peers, direct/limited, closed from outside / from inside a Connected handler / by the remote / twice concurrently / by Swarm.Close racing with admission); distinct = distinct recorded event sequences"
	path := ""
	if vfh.Out() != "" {
		path = filepath.Join(vfh.Out(), "c06_traces.ndjson")
		os.Remove(path)
	}
	for i := 0; i < iters; i++ {
		seed := vfh.Seed()*1000003 + int64(i)
		tr := vfh.NewTrace(fmt.Sprintf("it%d", i))
		synctest.Test(t, func(t *testing.T) { vfC06Scenario(t, seed, tr) })
		res.Count(1, tr.Len())
		sig := ""
		for _, e := range tr.Events() {
			sig += fmt.Sprint(e["ev"], e["c"], e["n"], e["st"], ";")
		}
		res.Case(sig)
		if path != "" {
			if err := tr.AppendTo(path, map[string]any{"seed": seed}); err != nil {
				t.Fatal(err)
			}
		}
		if i == 0 {
			evs := tr.Events()
			if len(evs) > 30 {
				evs = evs[:30]
			}
			res.Sample(map[string]any{"scenario_seed": seed, "first_events": evs})
		}
	}
	if path != "" {
		res.Traces = []string{path}
	}
}
